/-
  Property C19 — searchlights hold exactly the voxels in radius; RDMs match direct computation.
  Property theorems only; helper lemmas live in Rsa/Lemmas/C19.lean and C19Geom.lean.

  Sentence of the property                                   theorem(s)
  ---------------------------------------------------------  ------------------------------------
  a searchlight = exactly the in-volume voxels at Euclidean   prefilter_sound, neighbors_exact,
    distance strictly below the radius                          neighbors_nodup, neighbors_exact_real
  accepted centres = mask voxels whose searchlight lies       centers_exact, centers_exact_mul
    inside the mask by at least the threshold fraction
  returned as linear indices consistent with the neighbour    ravel_injective, centers_ascending,
    lists                                                       centers_neighbors_consistent
  RDM i = direct RDM of the columns of searchlight i,         chunks_partition, floor_points_admissible,
    chunked or not                                              table_rows, rdm_per_center,
                                                                rdm_columns_order_irrelevant,
                                                                rdm_euclid_of_searchlight,
                                                                euclid_is_C01_spec (link to C01)
  the comparisons / constants as written in the source        prefilter_leaves, radius_test_leaf,
    (regenerated every run into Rsa.Gen.C19; the model          accept_leaf, chunk_limit_leaf,
    *calls* them, so every theorem above depends on them)       rdm_width_leaf
  one result per centre in centre order, whatever the         parallel_order_independent_partial
    schedule                                                    (joblib itself is a contract: parallel_full)
-/
import Mathlib.Analysis.Real.Sqrt
import Rsa.Lemmas.C19Geom
import Rsa.Lemmas.C19Rdm
import Rsa.Lemmas.C19Eval

set_option linter.unusedSectionVars false
set_option linter.unusedVariables false
set_option linter.unusedSimpArgs false
set_option linter.style.longLine false

namespace Rsa.Props.C19

open Rsa.Searchlight

variable {K : Type} [Field K] [LinearOrder K] [IsStrictOrderedRing K]

/-! ### 1. a searchlight is exactly the set of in-volume voxels within the radius -/

/-- the bounding-box pre-filter followed by the distance test selects the same voxels as
    testing every voxel of the volume: for every shape, centre (inside or outside the
    volume) and radius (also `≤ 0`). -/
theorem prefilter_sound (s : Shape) (c : Ctr) (r : K) (v : Vox) :
    v ∈ neighborsAlgo s c r ↔ v ∈ neighborsSpec s c r := by
  rw [mem_neighborsAlgo, mem_neighborsSpec]

/-- membership spelled out: in the volume, and `0 < r ∧ dx² + dy² + dz² < r²` -/
theorem neighbors_exact (s : Shape) (c : Ctr) (r : K) (v : Vox) :
    v ∈ neighborsAlgo s c r ↔
      InVol s v ∧ 0 < r ∧
        (((v.1 : Int) : K) - (c.1 : K)) ^ 2 + (((v.2.1 : Int) : K) - (c.2.1 : K)) ^ 2
          + (((v.2.2 : Int) : K) - (c.2.2 : K)) ^ 2 < r * r := by
  rw [mem_neighborsAlgo, sqDist_cast]

/-- no voxel is listed twice, and the list is a rearrangement of the specification's list -/
theorem neighbors_nodup (s : Shape) (c : Ctr) (r : K) :
    (neighborsAlgo s c r).Nodup ∧ (neighborsAlgo s c r).Perm (neighborsSpec s c r) :=
  ⟨neighborsAlgo_nodup s c r, neighborsAlgo_perm_spec s c r⟩

/-- the square-root-free test of the model is the test `√k < r` of the code -/
theorem distLt_iff_sqrt (k : Int) (hk : 0 ≤ k) (r : ℝ) :
    distLt k r = true ↔ Real.sqrt (k : ℝ) < r := by
  rw [distLt_iff]
  by_cases hr : 0 < r
  · rw [Real.sqrt_lt' hr, pow_two]; exact ⟨fun h => h.2, fun h => ⟨hr, h⟩⟩
  · constructor
    · intro h; exact absurd h.1 hr
    · intro h; exact absurd (lt_of_le_of_lt (Real.sqrt_nonneg _) h) hr

/-- the sentence of the property, literally: over the reals a searchlight is exactly the set
    of in-volume voxels whose Euclidean distance to the centre is strictly below the radius -/
theorem neighbors_exact_real (s : Shape) (c : Ctr) (r : ℝ) (v : Vox) :
    v ∈ neighborsAlgo s c r ↔
      InVol s v ∧
        Real.sqrt ((((v.1 : Int) : ℝ) - (c.1 : ℝ)) ^ 2 + (((v.2.1 : Int) : ℝ) - (c.2.1 : ℝ)) ^ 2
          + (((v.2.2 : Int) : ℝ) - (c.2.2 : ℝ)) ^ 2) < r := by
  have hk : 0 ≤ sqDist v c := by
    unfold sqDist
    have h1 := mul_self_nonneg ((v.1 : Int) - c.1)
    have h2 := mul_self_nonneg ((v.2.1 : Int) - c.2.1)
    have h3 := mul_self_nonneg ((v.2.2 : Int) - c.2.2)
    omega
  rw [mem_neighborsAlgo, ← sqDist_cast, ← distLt_iff_sqrt _ hk, distLt_iff]

/-! ### 1b. order structure of searchlights (session 3) -/

/-- a larger radius never loses a voxel: for every shape, centre and radii `r ≤ r'` the
    searchlight of radius `r` is contained in the one of radius `r'` -/
theorem neighbors_mono_radius (s : Shape) (c : Ctr) (r r' : K) (h : r ≤ r') (v : Vox) :
    v ∈ neighborsAlgo s c r → v ∈ neighborsAlgo s c r' := by
  rw [mem_neighborsAlgo, mem_neighborsAlgo]
  rintro ⟨hv, h0, hd⟩
  refine ⟨hv, lt_of_lt_of_le h0 h, lt_of_lt_of_le hd ?_⟩
  exact mul_le_mul h h (le_of_lt h0) (le_trans (le_of_lt h0) h)

/-- hence the searchlight sizes are monotone in the radius -/
theorem neighbors_length_mono (s : Shape) (c : Ctr) (r r' : K) (h : r ≤ r') :
    (neighborsAlgo s c r).length ≤ (neighborsAlgo s c r').length := by
  have hsub : (neighborsAlgo s c r) ⊆ (neighborsAlgo s c r') :=
    fun v hv => neighbors_mono_radius s c r r' h v hv
  exact ((neighborsAlgo_nodup s c r).subperm hsub).length_le

/-- the squared distance is symmetric in its two voxels -/
theorem sqDist_symm (v w : Vox) : sqDist v (ctrOf w) = sqDist w (ctrOf v) := by
  simp only [sqDist, ctrOf]; ring

/-- searchlight membership is symmetric between in-volume voxels: `v` lies in the searchlight
    centred on `w` iff `w` lies in the one centred on `v` (same radius) -/
theorem neighbors_symm (s : Shape) (v w : Vox) (hv : InVol s v) (hw : InVol s w) (r : K) :
    v ∈ neighborsAlgo s (ctrOf w) r ↔ w ∈ neighborsAlgo s (ctrOf v) r := by
  rw [mem_neighborsAlgo, mem_neighborsAlgo, sqDist_symm]
  exact ⟨fun h => ⟨hw, h.2⟩, fun h => ⟨hv, h.2⟩⟩

/-- a non-positive radius gives the empty searchlight, for every centre -/
theorem nonpos_radius_empty (s : Shape) (c : Ctr) (r : K) (h : r ≤ 0) :
    neighborsAlgo s c r = [] := by
  apply List.eq_nil_iff_forall_not_mem.mpr
  intro v hv
  rw [mem_neighborsAlgo] at hv
  exact absurd hv.2.1 (not_lt.mpr h)

/-- a searchlight never holds more voxels than the volume -/
theorem neighbors_length_le_size (s : Shape) (c : Ctr) (r : K) :
    (neighborsAlgo s c r).length ≤ size s := by
  have hp := (neighborsAlgo_perm_spec s c r).length_eq
  rw [hp]
  unfold neighborsSpec
  exact le_trans (List.length_filter_le _ _) (by simp [allVoxels])

/-! ### 2. linear indices -/

/-- `ravel_multi_index` is injective on the volume, lands in `range (size s)` and is
    inverted by `unravel_index` -/
theorem ravel_injective (s : Shape) (v w : Vox) (hv : InVol s v) (hw : InVol s w)
    (h : ravel s v = ravel s w) : v = w := by
  rw [← unravel_ravel hv, ← unravel_ravel hw, h]

theorem ravel_range (s : Shape) (v : Vox) (hv : InVol s v) :
    ravel s v < size s ∧ unravel s (ravel s v) = v := ⟨ravel_lt hv, unravel_ravel hv⟩

/-! ### 3. accepted centres -/

/-- a voxel is an accepted centre iff it is a mask voxel of the volume and the fraction of its
    (specification) searchlight lying in the mask is at least the threshold; an empty
    searchlight (radius `≤ 0`) is never accepted. -/
theorem centers_exact (s : Shape) (m : Vox → Bool) (r thr : K) (c : Vox) :
    c ∈ goodCenters s m r thr ↔
      InVol s c ∧ m c = true ∧ (neighborsSpec s (ctrOf c) r).length ≠ 0 ∧
        thr ≤ (((neighborsSpec s (ctrOf c) r).countP m : Nat) : K)
              / (((neighborsSpec s (ctrOf c) r).length : Nat) : K) := by
  have hp := neighborsAlgo_perm_spec s (ctrOf c) r
  simp only [goodCenters, List.mem_filter, mem_allVoxels, Bool.and_eq_true, accept, maskFrac,
    bne_iff_ne, decide_eq_true_eq, hp.length_eq, hp.countP_eq, ne_eq, Rsa.Gen.C19.acceptTest]

/-- the same without a division: `threshold · |searchlight| ≤ |searchlight ∩ mask|` -/
theorem centers_exact_mul (s : Shape) (m : Vox → Bool) (r thr : K) (c : Vox) :
    c ∈ goodCenters s m r thr ↔
      InVol s c ∧ m c = true ∧ (neighborsSpec s (ctrOf c) r).length ≠ 0 ∧
        thr * (((neighborsSpec s (ctrOf c) r).length : Nat) : K)
          ≤ (((neighborsSpec s (ctrOf c) r).countP m : Nat) : K) := by
  rw [centers_exact]
  constructor
  · rintro ⟨h1, h2, h3, h4⟩
    have hpos : (0 : K) < (((neighborsSpec s (ctrOf c) r).length : Nat) : K) :=
      Nat.cast_pos.mpr (Nat.pos_of_ne_zero h3)
    exact ⟨h1, h2, h3, (le_div_iff₀ hpos).mp h4⟩
  · rintro ⟨h1, h2, h3, h4⟩
    have hpos : (0 : K) < (((neighborsSpec s (ctrOf c) r).length : Nat) : K) :=
      Nat.cast_pos.mpr (Nat.pos_of_ne_zero h3)
    exact ⟨h1, h2, h3, (le_div_iff₀ hpos).mpr h4⟩

/-- the centres are returned in strictly ascending linear index (so without repetition) -/
theorem centers_ascending (s : Shape) (m : Vox → Bool) (r thr : K) :
    (volumeSearchlight s m r thr).1.Pairwise (· < ·) := by
  have hsub : ((goodCenters s m r thr).map (ravel s)).Sublist (List.range (size s)) := by
    rw [← allVoxels_map_ravel]
    exact List.Sublist.map _ List.filter_sublist
  exact List.Pairwise.sublist hsub List.pairwise_lt_range

/-- centre list and neighbour lists correspond position by position: entry `i` of the
    neighbour lists is the searchlight of the voxel whose linear index is entry `i` of the
    centres — as a list (algorithm order) and as a set of linear indices (exactly the
    indices `j` of the volume whose voxel lies within the radius of the centre's voxel);
    every centre is a mask voxel of the volume and lies in its own searchlight. -/
theorem centers_neighbors_consistent (s : Shape) (m : Vox → Bool) (r thr : K) :
    (volumeSearchlight s m r thr).1.length = (volumeSearchlight s m r thr).2.length ∧
    ∀ p ∈ (volumeSearchlight s m r thr).1.zip (volumeSearchlight s m r thr).2,
      p.1 < size s ∧ m (unravel s p.1) = true ∧
      p.2 = (neighborsAlgo s (ctrOf (unravel s p.1)) r).map (ravel s) ∧
      (∀ j, j ∈ p.2 ↔ j < size s ∧ unravel s j ∈ neighborsSpec s (ctrOf (unravel s p.1)) r) ∧
      p.1 ∈ p.2 := by
  refine ⟨by simp [volumeSearchlight], ?_⟩
  intro p hp
  simp only [volumeSearchlight, List.zip_map', List.mem_map] at hp
  obtain ⟨c, hc, rfl⟩ := hp
  have hc' := hc
  simp only [goodCenters, List.mem_filter, mem_allVoxels, Bool.and_eq_true, accept,
    bne_iff_ne, ne_eq] at hc'
  obtain ⟨hin, hm, hlen, _⟩ := hc'
  have hu : unravel s (ravel s c) = c := unravel_ravel hin
  simp only [hu]
  have hmemj : ∀ j, j ∈ (neighborsAlgo s (ctrOf c) r).map (ravel s) ↔
      j < size s ∧ unravel s j ∈ neighborsSpec s (ctrOf c) r := by
    intro j
    simp only [List.mem_map]
    constructor
    · rintro ⟨v, hv, rfl⟩
      have hvin : InVol s v := ((mem_neighborsAlgo (K := K)).mp hv).1
      rw [unravel_ravel hvin]
      exact ⟨ravel_lt hvin, (prefilter_sound s _ r v).mp hv⟩
    · rintro ⟨_, hj⟩
      exact ⟨unravel s j, (prefilter_sound s _ r _).mpr hj, ravel_unravel s j⟩
  refine ⟨ravel_lt hin, hm, trivial, hmemj, ?_⟩
  -- the centre itself: the searchlight is non-empty, so `0 < r`, and its distance is 0
  have hne : neighborsAlgo s (ctrOf c) r ≠ [] := fun h => hlen (by simp [h])
  obtain ⟨v, hv⟩ := List.exists_mem_of_ne_nil _ hne
  have hr : 0 < r := ((mem_neighborsAlgo (K := K)).mp hv).2.1
  refine List.mem_map.mpr ⟨c, (mem_neighborsAlgo (K := K)).mpr ⟨hin, hr, ?_⟩, rfl⟩
  rw [sqDist_self]; simpa using mul_pos hr hr

/-! ### 3a. order structure of accepted centres (session 3) -/

/-- a stricter threshold never accepts a new centre: for every volume, mask and radius the
    accepted centres at `thr'` are among those at `thr ≤ thr'` -/
theorem centers_antitone_threshold (s : Shape) (m : Vox → Bool) (r thr thr' : K) (h : thr ≤ thr')
    (c : Vox) : c ∈ goodCenters s m r thr' → c ∈ goodCenters s m r thr := by
  rw [centers_exact, centers_exact]
  rintro ⟨h1, h2, h3, h4⟩
  exact ⟨h1, h2, h3, le_trans h h4⟩

/-- a larger mask (pointwise) accepts every centre the smaller one accepts -/
theorem centers_mono_mask (s : Shape) (m m' : Vox → Bool) (hm : ∀ v, m v = true → m' v = true)
    (r thr : K) (c : Vox) : c ∈ goodCenters s m r thr → c ∈ goodCenters s m' r thr := by
  rw [centers_exact, centers_exact]
  rintro ⟨h1, h2, h3, h4⟩
  refine ⟨h1, hm c h2, h3, le_trans h4 ?_⟩
  have hc : (neighborsSpec s (ctrOf c) r).countP m ≤ (neighborsSpec s (ctrOf c) r).countP m' :=
    List.countP_mono_left (fun v _ hv => hm v hv)
  have hpos : (0 : K) < (((neighborsSpec s (ctrOf c) r).length : Nat) : K) :=
    Nat.cast_pos.mpr (Nat.pos_of_ne_zero h3)
  exact div_le_div_of_nonneg_right (Nat.cast_le.mpr hc) (le_of_lt hpos)

/-- every accepted centre lies in its own (non-empty) searchlight -/
theorem center_in_own_searchlight (s : Shape) (m : Vox → Bool) (r thr : K) (c : Vox)
    (hc : c ∈ goodCenters s m r thr) : c ∈ neighborsAlgo s (ctrOf c) r := by
  rw [centers_exact] at hc
  obtain ⟨h1, _, h3, _⟩ := hc
  have h0 : 0 < r := by
    by_contra hr
    have := nonpos_radius_empty s (ctrOf c) r (not_lt.mp hr)
    have hl := (neighborsAlgo_perm_spec s (ctrOf c) r).length_eq
    rw [this] at hl
    exact h3 hl.symm
  rw [mem_neighborsAlgo, sqDist_self]
  exact ⟨h1, h0, by simpa using mul_pos h0 h0⟩

/-! ### 3b. boundary cases of radius and threshold (corollaries, all sizes) -/

/-- radius `≤ 1` (and positive): the searchlight of an in-volume centre is the centre alone -/
theorem radius_le_one_singleton (s : Shape) (c : Vox) (hc : InVol s c) (r : K) (h0 : 0 < r)
    (h1 : r ≤ 1) (v : Vox) : v ∈ neighborsAlgo s (ctrOf c) r ↔ v = c := by
  rw [mem_neighborsAlgo]
  constructor
  · rintro ⟨_, _, hd⟩
    have hrr : r * r ≤ 1 := by nlinarith
    have hlt : ((sqDist v (ctrOf c) : Int) : K) < ((1 : Int) : K) := by
      rw [Int.cast_one]; exact lt_of_lt_of_le hd hrr
    have hk : sqDist v (ctrOf c) < 1 := Int.cast_lt.mp hlt
    have h0' := sqDist_nonneg v (ctrOf c)
    exact sqDist_eq_zero (by omega)
  · rintro rfl
    refine ⟨hc, h0, ?_⟩
    rw [sqDist_self]; simpa using mul_pos h0 h0

/-- a radius not below the volume's diagonal: the searchlight of an in-volume centre is the
    whole volume (every voxel, each once) -/
theorem huge_radius_whole_volume (s : Shape) (c : Vox) (hc : InVol s c) (r : K) (h0 : 0 < r)
    (hbig : (s.1 : K) * s.1 + (s.2.1 : K) * s.2.1 + (s.2.2 : K) * s.2.2 ≤ r * r) :
    (∀ v, v ∈ neighborsAlgo s (ctrOf c) r ↔ InVol s v) ∧
      (neighborsAlgo s (ctrOf c) r).Perm (allVoxels s) := by
  have hmem : ∀ v, v ∈ neighborsAlgo s (ctrOf c) r ↔ InVol s v := by
    intro v
    rw [mem_neighborsAlgo]
    constructor
    · exact fun h => h.1
    · intro hv
      refine ⟨hv, h0, lt_of_lt_of_le ?_ hbig⟩
      have h := Int.cast_lt (R := K) |>.mpr (sqDist_lt_diag hv hc)
      push_cast at h
      exact h
  refine ⟨hmem, (List.perm_ext_iff_of_nodup (neighborsAlgo_nodup s _ r) (allVoxels_nodup s)).2 ?_⟩
  intro v; rw [hmem, mem_allVoxels]

/-- a mask voxel's own searchlight is never empty for a positive radius -/
theorem spec_length_ne_zero (s : Shape) (c : Vox) (hc : InVol s c) (r : K) (h0 : 0 < r) :
    (neighborsSpec s (ctrOf c) r).length ≠ 0 := by
  have hmem : c ∈ neighborsSpec s (ctrOf c) r := by
    rw [mem_neighborsSpec]
    refine ⟨hc, h0, ?_⟩
    rw [sqDist_self]; simpa using mul_pos h0 h0
  exact fun h => by simp [List.length_eq_zero_iff.mp h] at hmem

/-- threshold `≤ 0`: every mask voxel is accepted (positive radius) -/
theorem threshold_zero_accepts_all (s : Shape) (m : Vox → Bool) (r thr : K) (h0 : 0 < r)
    (ht : thr ≤ 0) (c : Vox) : c ∈ goodCenters s m r thr ↔ InVol s c ∧ m c = true := by
  rw [centers_exact_mul]
  constructor
  · exact fun h => ⟨h.1, h.2.1⟩
  · rintro ⟨hc, hm⟩
    refine ⟨hc, hm, spec_length_ne_zero s c hc r h0, ?_⟩
    have h1 : (0 : K) ≤ (((neighborsSpec s (ctrOf c) r).length : Nat) : K) := Nat.cast_nonneg _
    have h2 : (0 : K) ≤ (((neighborsSpec s (ctrOf c) r).countP m : Nat) : K) := Nat.cast_nonneg _
    nlinarith

/-- threshold `> 1`: nothing is accepted -/
theorem threshold_above_one_rejects_all (s : Shape) (m : Vox → Bool) (r thr : K) (ht : 1 < thr) :
    goodCenters s m r thr = [] := by
  rw [List.eq_nil_iff_forall_not_mem]
  intro c hc
  rw [centers_exact_mul] at hc
  obtain ⟨_, _, hlen, hle⟩ := hc
  have hpos : (0 : K) < (((neighborsSpec s (ctrOf c) r).length : Nat) : K) :=
    Nat.cast_pos.mpr (Nat.pos_of_ne_zero hlen)
  have hcl : (((neighborsSpec s (ctrOf c) r).countP m : Nat) : K)
      ≤ (((neighborsSpec s (ctrOf c) r).length : Nat) : K) :=
    Nat.cast_le.mpr List.countP_le_length
  nlinarith

/-- threshold exactly `1` (the default): accepted ⇔ the whole searchlight lies in the mask -/
theorem threshold_one_iff_inside (s : Shape) (m : Vox → Bool) (r : K) (c : Vox) :
    c ∈ goodCenters s m r 1 ↔
      InVol s c ∧ m c = true ∧ 0 < r ∧ ∀ v ∈ neighborsSpec s (ctrOf c) r, m v = true := by
  rw [centers_exact_mul]
  constructor
  · rintro ⟨hc, hm, hlen, hle⟩
    have hr : 0 < r := by
      obtain ⟨v, hv⟩ := List.exists_mem_of_ne_nil (neighborsSpec s (ctrOf c) r)
        (fun h => hlen (by simp [h]))
      exact ((mem_neighborsSpec (K := K)).mp hv).2.1
    refine ⟨hc, hm, hr, ?_⟩
    rw [one_mul, Nat.cast_le] at hle
    have := Nat.le_antisymm List.countP_le_length hle
    exact fun v hv => List.countP_eq_length.mp this v hv
  · rintro ⟨hc, hm, hr, hall⟩
    refine ⟨hc, hm, spec_length_ne_zero s c hc r hr, ?_⟩
    rw [one_mul, List.countP_eq_length.mpr hall]

/-! ### 4. one RDM per centre, chunked or not -/

/-- for every `n` and every admissible list of split points the chunks of
    `np.split(np.arange(n), pts)` are consecutive and cover `range n` exactly once -/
theorem chunks_partition (n : Nat) (pts : List Nat) (h : PtsOk n pts) :
    (splitIdx n pts).flatten = List.range n := splitIdx_flatten h

/-- the split points `⌊i·n/100⌋, i = 1..99` are admissible for every `n` -/
theorem floor_points_admissible (n : Nat) : PtsOk n (floorPts n) := floorPts_ok n

/-- both branches of `get_searchlight_RDMs` produce the table whose row `i` is the row
    computed for centre `i`; the pre-allocated zeros and the split points leave no trace -/
theorem table_rows {γ : Type} (zero : γ) (f : Nat → γ) (n : Nat) (pts : List Nat)
    (h : PtsOk n pts) : slTable zero f n pts = (List.range n).map f := by
  unfold slTable
  split
  · rw [foldl_assignRows, splitIdx_flatten h]
    exact scatter_all f n zero (List.range n) (fun i hi => List.mem_range.mpr hi)
  · rfl

/-- in fact **no hypothesis on the split points is needed** for coverage: whatever list of
    points `np.linspace(...)` yields (unsorted, repeated, beyond `n` — numpy's doubles differ
    from `⌊i·n/100⌋` for 836 of the `n` in 1001..20000), every centre index lies in some chunk
    of `np.split(np.arange(n), pts)` (discrete intermediate-value argument) -/
theorem chunks_cover_any_points (n : Nat) (pts : List Nat) :
    ∀ i, i < n → i ∈ (splitIdx n pts).flatten := fun i hi => splitIdx_cover n pts i hi

/-- hence both branches of `get_searchlight_RDMs` produce the same table for **every** list of
    split points: a row written twice is written with the same value -/
theorem table_rows_any_points {γ : Type} (zero : γ) (f : Nat → γ) (n : Nat) (pts : List Nat) :
    slTable zero f n pts = (List.range n).map f := by
  unfold slTable
  split
  · rw [foldl_assignRows]
    exact scatter_all f n zero _ (fun i hi => splitIdx_cover n pts i hi)
  · rfl

/-- **RDM `i` belongs to centre `i`**: row `i` of the result is the RDM computed directly
    from the data columns of the `i`-th searchlight (`rdmOf` = any RDM estimator with the
    event labels fixed), below and above the chunking limit. -/
theorem rdm_per_center {α : Type} [Zero α] (rdmOf : List (List α) → List α) (width : Nat)
    (data : List (List α)) (centers : List Nat) (neighbors : List (List Nat)) (pts : List Nat)
    (hlen : neighbors.length = centers.length) (hpts : PtsOk centers.length pts) :
    (slRdms rdmOf width data centers neighbors pts).length = centers.length ∧
    ∀ i (hi : i < neighbors.length),
      (slRdms rdmOf width data centers neighbors pts)[i]?
        = some (rdmOf (selectCols data neighbors[i])) := by
  unfold slRdms
  rw [table_rows _ _ _ _ hpts]
  refine ⟨by simp, fun i hi => ?_⟩
  have hi' : i < centers.length := hlen ▸ hi
  simp [hi', List.getD_eq_getElem?_getD, hi]

/-- the same as one equation: the table of `get_searchlight_RDMs` is the neighbour lists mapped
    to their direct RDMs, in the order given -/
theorem rdm_rows_eq_map {α : Type} [Zero α] (rdmOf : List (List α) → List α) (width : Nat)
    (data : List (List α)) (centers : List Nat) (neighbors : List (List Nat)) (pts : List Nat)
    (hlen : neighbors.length = centers.length) :
    slRdms rdmOf width data centers neighbors pts
      = neighbors.map (fun nb => rdmOf (selectCols data nb)) := by
  unfold slRdms
  rw [table_rows_any_points, ← hlen]
  exact range_map_getD neighbors [] (fun nb => rdmOf (selectCols data nb))

/-- the executable admissibility check run by the driver on numpy's actual split points (all
    `n` of 1001..20000) decides exactly the hypothesis of `chunks_partition` / `table_rows` -/
theorem ptsOkB_sound (n : Nat) (pts : List Nat) : ptsOkB n pts = true ↔ PtsOk n pts :=
  ptsOkB_iff n pts

/-- so whenever the check succeeds on the points numpy produced, the chunks partition the
    centres and the chunked table is the unchunked one -/
theorem checked_points_partition {γ : Type} (zero : γ) (f : Nat → γ) (n : Nat) (pts : List Nat)
    (h : ptsOkB n pts = true) :
    (splitIdx n pts).flatten = List.range n ∧ slTable zero f n pts = (List.range n).map f :=
  ⟨chunks_partition n pts ((ptsOkB_sound n pts).mp h), table_rows zero f n pts ((ptsOkB_sound n pts).mp h)⟩

/-- a searchlight is a *set* of columns: the directly computed RDM does not depend on the
    order in which the neighbour list names them, for every pattern distance that is itself
    independent of the channel order -/
theorem rdm_columns_order_irrelevant {F : Type} [Field F] (d : List F → List F → F)
    (hd : ∀ (l l' : List Nat) (a b : Nat → F), l.Perm l' →
      d (l.map a) (l.map b) = d (l'.map a) (l'.map b))
    (data : List (List F)) (ev : List Int) (nb nb' : List Nat) (h : nb.Perm nb') :
    calcRdm d ev (selectCols data nb) = calcRdm d ev (selectCols data nb') := by
  cases data with
  | nil => simp [selectCols]
  | cons row rest =>
    rw [calcRdm_selectCols, calcRdm_selectCols]
    exact List.map_congr_left (fun p _ => hd nb nb' _ _ h)

/-- … in particular for the squared Euclidean (and identity-noise Mahalanobis) distance, and
    therefore the RDM computed from the algorithm's neighbour list equals the RDM computed
    from the specification's list of in-radius voxels -/
theorem rdm_euclid_of_searchlight (data : List (List K)) (ev : List Int) (s : Shape) (c : Ctr)
    (r : K) :
    calcRdm dEuclid ev (selectCols data ((neighborsAlgo s c r).map (ravel s)))
      = calcRdm dEuclid ev (selectCols data ((neighborsSpec s c r).map (ravel s))) :=
  rdm_columns_order_irrelevant dEuclid (fun _ _ a b hp => dEuclid_perm hp a b) data ev _ _
    ((neighborsAlgo_perm_spec s c r).map _)

/-- the same for the correlation distance (the library's default searchlight method), for any
    square-root function, and for the symmetrised Poisson-KL distance, for any logarithm -/
theorem rdm_corr_of_searchlight {F : Type} [Field F] [Rsa.HasSqrt F] (data : List (List F))
    (ev : List Int) (s : Shape) (c : Ctr) (r : K) :
    calcRdm dCorr ev (selectCols data ((neighborsAlgo s c r).map (ravel s)))
      = calcRdm dCorr ev (selectCols data ((neighborsSpec s c r).map (ravel s))) :=
  rdm_columns_order_irrelevant dCorr (fun _ _ a b hp => dCorr_perm hp a b) data ev _ _
    ((neighborsAlgo_perm_spec s c r).map _)

theorem rdm_poisson_of_searchlight {F : Type} [Field F] [Rsa.HasLog F] (data : List (List F))
    (ev : List Int) (s : Shape) (c : Ctr) (r : K) :
    calcRdm dPoisson ev (selectCols data ((neighborsAlgo s c r).map (ravel s)))
      = calcRdm dPoisson ev (selectCols data ((neighborsSpec s c r).map (ravel s))) :=
  rdm_columns_order_irrelevant dPoisson (fun _ _ a b hp => dPoisson_perm hp a b) data ev _ _
    ((neighborsAlgo_perm_spec s c r).map _)

/-- link to C01: the pair distance used by this property's direct RDM is C01's specification
    formula `euclidSpec` (about which `Rsa.Props.C01.euclid_algo_eq_spec` proves the library's
    Gram-matrix algorithm correct), for patterns tabulated over `P` channels -/
theorem euclid_is_C01_spec (P : Nat) (a b : Nat → K) :
    dEuclid ((List.range P).map a) ((List.range P).map b) = Rsa.Calc.euclidSpec P a b := by
  rw [dEuclid_map, Rsa.Calc.euclidSpec, sumTo_eq_list_sum]
  simp

/-! ### 4b. the decision text regenerated from `util/searchlight.py` (`Rsa.Gen.C19`) -/

/-- the three per-axis comparisons of the source, as regenerated on this run, are the
    bounding-box tests `|x - c| < r` (each on its own operands) -/
theorem prefilter_leaves (x c r : K) :
    (Rsa.Gen.C19.absLtX x c r = true ↔ |x - c| < r) ∧
    (Rsa.Gen.C19.absLtY x c r = true ↔ |x - c| < r) ∧
    (Rsa.Gen.C19.absLtZ x c r = true ↔ |x - c| < r) :=
  ⟨absLtX_iff x c r, absLtY_iff x c r, absLtZ_iff x c r⟩

/-- the radius comparison of the source, applied to the real Euclidean distance `√k`, is the
    model's root-free test (so `neighborsAlgo` filters with the source's own comparison) -/
theorem radius_test_leaf (k : Int) (hk : 0 ≤ k) (r : ℝ) :
    Rsa.Gen.C19.radiusTest (Real.sqrt (k : ℝ)) r = distLt k r := by
  rw [Bool.eq_iff_iff, distLt_iff_sqrt k hk r]
  simp [Rsa.Gen.C19.radiusTest]

/-- the acceptance comparison of the source is `threshold ≤ in-mask fraction` -/
theorem accept_leaf (frac thr : K) : Rsa.Gen.C19.acceptTest frac thr = true ↔ thr ≤ frac := by
  simp [Rsa.Gen.C19.acceptTest]

/-- the chunking test of the source: more than 1000 centres -/
theorem chunk_limit_leaf (n : Nat) : Rsa.Gen.C19.chunked n = true ↔ 1000 < n := by
  simp [Rsa.Gen.C19.chunked]

/-- the width of the pre-allocated table of the chunked branch (`n_conds * (n_conds - 1) // 2`
    as written in the source) is the length of every directly computed RDM vector, so the
    row assignment `RDM[chunks, :] = …` is shape-correct for every number of conditions -/
theorem rdm_width_leaf {F : Type} [Add F] [Sub F] [Mul F] [Div F] [Zero F] [One F] [NatCast F]
    (d : List F → List F → F) (ev : List Int) (sub : List (List F)) :
    (calcRdm d ev sub).length = rdmWidth ev := by
  simp [calcRdm, rdmWidth, Rsa.Gen.C19.rdmWidth, Rsa.pairsOf_length]

/-- round 4 — **the pre-allocated table of the chunked branch stores the RDM values unchanged**:
    the source allocates it as `np.zeros(shape)` with no `dtype` / further argument (regenerated
    leaf `bufferExtraArgs`), i.e. as numpy's default float64 buffer -/
theorem buffer_dtype_leaf : Rsa.Gen.C19.bufferExtraArgs = 0 := by
  rfl

/-- so, **whatever element conversion a differently typed buffer would apply** (`conv` arbitrary:
    truncation to integers for int16 data, rounding to single precision, …), **whatever the split
    points and the number of centres**, the table `get_searchlight_RDMs` builds is the list of the
    directly computed rows: chunked = unchunked, value for value.  (With
    `np.zeros(shape, dtype=data_2d.dtype)` the leaf is `1`, `bufferStore conv = conv`, and this
    statement is false for integer data — it then no longer compiles.) -/
theorem table_rows_stored_unchanged {γ : Type} (conv : γ → γ) (zero : γ) (f : Nat → γ) (n : Nat)
    (pts : List Nat) :
    slTableStore conv zero f n pts = (List.range n).map f := by
  have hid : bufferStore conv = id := by
    unfold bufferStore
    rw [if_pos buffer_dtype_leaf]
  have h : slTableStore conv zero f n pts = slTable zero f n pts := by
    unfold slTableStore slTable
    simp only [hid, List.map_id_fun, id_eq]
  rw [h, table_rows_any_points]

/-- non-vacuity: 1002 centres (chunked), numpy's own split points, a truncating conversion
    (`conv = fun _ => 0`, as far from the identity as possible): rows are still the direct ones -/
example : (slTableStore (fun _ => 0) 0 (fun c => c + 7) 1002 (linspacePts 1002)).getD 1001 0 = 1008 := by
  rw [table_rows_stored_unchanged]; simp

/-- and what the theorem excludes: with a converting buffer (`conv` applied) the chunked table is
    *not* the direct one — this is the table a `dtype=` argument would produce -/
example : (splitIdx 3 [1, 2]).foldl (fun t ch => assignRows t ch ((ch.map (fun c => c + 7)).map (fun _ => 0)))
    (List.replicate 3 0) ≠ (List.range 3).map (fun c => c + 7) := by decide

/-! ### 5. parallel evaluation -/

/-- what `joblib.Parallel` promises (its documented contract, not modelled): whatever the
    number of jobs, the list of results is the list of task outputs in task order -/
def parallel_full {γ : Type} (par : Nat → (Nat → γ) → Nat → List γ) : Prop :=
  ∀ (nJobs : Nat) (f : Nat → γ) (n : Nat), par nJobs f n = (List.range n).map f

/-- partial: for the slot-per-task collection scheme, the result list is independent of
    the order in which tasks complete (any schedule that runs every task, even repeatedly):
    one result per centre, in centre order.  That joblib implements this scheme for every
    backend and worker count is its contract (`parallel_full`), observed by the harness for
    n_jobs ∈ {1, 2, 3, 4} and recorded completion orders, not proved. -/
theorem parallel_order_independent_partial {γ : Type} (n : Nat) (f : Nat → γ)
    (sched : List Nat) (h : ∀ i, i < n → i ∈ sched) :
    collect n f sched = (List.range n).map (fun i => some (f i)) := by
  unfold collect
  have := scatter_all (fun i => some (f i)) n none sched h
  simpa [List.map_map] using this

/-- in particular for every permutation of the tasks -/
theorem parallel_perm_partial {γ : Type} (n : Nat) (f : Nat → γ) (sched : List Nat)
    (h : sched.Perm (List.range n)) :
    collect n f sched = (List.range n).map (fun i => some (f i)) :=
  parallel_order_independent_partial n f sched
    (fun i hi => h.symm.subset (List.mem_range.mpr hi))

/-! ### 5b. `evaluate_models_searchlight` as coded: one task per centre, end to end -/

/-- `for x in sl_RDM` (legacy `__getitem__` iteration) builds exactly one task per row: row `i`
    of the RDM table together with entry `i` of `voxel_index`, in row order, and stops after
    the last row -/
theorem tasks_one_per_center {α : Type} (R : SlResult α) :
    slTasks R = R.rows.zip R.voxelIndex := slTasks_eq_zip R

/-- **from `get_searchlight_RDMs` to the evaluation list**: if joblib keeps its contract
    (`par tasks f = tasks.map f`, cf. `parallel_full`), entry `i` of the list returned by
    `evaluate_models_searchlight` is the evaluation function applied to the RDM computed
    directly from the columns of searchlight `i`, labelled with centre `i` — one entry per
    centre, in centre order, chunked or not, for every list of split points. -/
theorem eval_per_center {α γ : Type} [Zero α]
    (par : List (List α × Nat) → (List α × Nat → γ) → List γ)
    (hpar : ∀ ts f, par ts f = ts.map f) (evalF : List α × Nat → γ)
    (rdmOf : List (List α) → List α) (width : Nat) (data : List (List α)) (centers : List Nat)
    (neighbors : List (List Nat)) (pts : List Nat)
    (hlen : neighbors.length = centers.length) :
    evalSearchlight par evalF (slResult rdmOf width data centers neighbors pts)
      = (neighbors.zip centers).map (fun p => evalF (rdmOf (selectCols data p.1), p.2)) := by
  unfold evalSearchlight slResult
  rw [hpar, tasks_one_per_center]
  simp only
  rw [rdm_rows_eq_map rdmOf width data centers neighbors pts hlen, List.zip_map_left,
    List.map_map]
  rfl

/-- the same for slot-per-task collection under **every** completion order that runs every
    task (any number of workers, any interleaving, repetitions allowed): every slot is filled,
    slot `i` holds the evaluation of searchlight `i`'s direct RDM -/
theorem eval_per_center_any_schedule {α γ : Type} [Zero α] (sched : List Nat)
    (evalF : List α × Nat → γ)
    (rdmOf : List (List α) → List α) (width : Nat) (data : List (List α)) (centers : List Nat)
    (neighbors : List (List Nat)) (pts : List Nat)
    (hlen : neighbors.length = centers.length)
    (hs : ∀ i, i < centers.length → i ∈ sched) :
    evalSearchlight (parCollect sched) (fun t => evalF t)
        (slResult rdmOf width data centers neighbors pts)
      = (neighbors.zip centers).map (fun p => some (evalF (rdmOf (selectCols data p.1), p.2))) := by
  unfold evalSearchlight slResult
  rw [tasks_one_per_center]
  simp only
  rw [rdm_rows_eq_map rdmOf width data centers neighbors pts hlen, List.zip_map_left]
  rw [parCollect_all sched _ _ (fun i hi => hs i (by simpa [hlen] using hi)), List.map_map]
  rfl

/-- **the whole pipeline** `get_volume_searchlight → get_searchlight_RDMs →
    evaluate_models_searchlight`: the result list is, for the accepted centres in ascending
    linear index, the evaluation of the RDM computed directly from the data columns of that
    centre's searchlight (for every mask, radius, threshold, estimator, evaluation function and
    list of split points; joblib by contract) -/
theorem pipeline_per_center {α γ : Type} [Zero α] (s : Shape) (m : Vox → Bool) (r thr : K)
    (par : List (List α × Nat) → (List α × Nat → γ) → List γ)
    (hpar : ∀ ts f, par ts f = ts.map f) (evalF : List α × Nat → γ)
    (rdmOf : List (List α) → List α) (width : Nat) (data : List (List α)) (pts : List Nat) :
    evalSearchlight par evalF (slResult rdmOf width data (volumeSearchlight s m r thr).1
        (volumeSearchlight s m r thr).2 pts)
      = (goodCenters s m r thr).map (fun c =>
          evalF (rdmOf (selectCols data ((neighborsAlgo s (ctrOf c) r).map (ravel s))),
                 ravel s c)) := by
  rw [eval_per_center par hpar evalF rdmOf width data _ _ pts (by simp [volumeSearchlight])]
  simp [volumeSearchlight, List.zip_map', List.map_map, Function.comp_def]

/-! ### 5c. the keywords forwarded at every call site of `eval_function` (round 6) -/

/-- **regenerated leaf**: `evaluate_models_searchlight` has at least one call site of
    `eval_function`, and **every** call site (serial path, parallel path, through `partial` /
    `delayed`) forwards both `method=method` and `theta=theta`.  A call site that drops a keyword
    (seeded C19-10: the `n_jobs == 1` path without `theta`) makes this statement false. -/
theorem eval_forwarding_leaf :
    0 < nCallSites ∧ ∀ k, k < nCallSites → callSite k = (true, true) := by
  decide

/-- a call through any call site of the source hands the evaluation function exactly the
    caller's `(models, x, method, theta)` — whatever the defaults of its signature -/
theorem call_site_forwards_all {M Me Θ τ γ : Type} (evalFn : M → τ → Me → Θ → γ)
    (dMethod : Me) (dTheta : Θ) (a : EvalArgs M Me Θ) (k : Nat) (hk : k < nCallSites) (x : τ) :
    callEval evalFn dMethod dTheta a k x = evalFn a.models x a.method a.theta := by
  unfold callEval callEvalAt
  rw [eval_forwarding_leaf.2 k hk]
  rfl

/-- **per-centre value with every forwarded keyword**: under joblib's / the serial loop's
    ordering contract, for every number of jobs and every dispatch of tasks to call sites of the
    source, entry `i` of `evaluate_models_searchlight(sl_RDM, models, eval_function, method, theta,
    n_jobs)` is `eval_function(models, sl_RDM[i], method=method, theta=theta)` with `sl_RDM[i]` the
    RDM computed directly from the columns of searchlight `i` — the defaults of the evaluation
    function never show -/
theorem eval_per_center_kw {α M Me Θ γ : Type} [Zero α]
    (par : Nat → List (List α × Nat) → (List α × Nat → γ) → List γ)
    (hpar : ∀ nj ts f, par nj ts f = ts.map f)
    (route : Nat → List α × Nat → Nat) (hroute : ∀ nj x, route nj x < nCallSites)
    (evalFn : M → List α × Nat → Me → Θ → γ) (dMethod : Me) (dTheta : Θ) (a : EvalArgs M Me Θ)
    (nJobs : Nat)
    (rdmOf : List (List α) → List α) (width : Nat) (data : List (List α)) (centers : List Nat)
    (neighbors : List (List Nat)) (pts : List Nat)
    (hlen : neighbors.length = centers.length) :
    evalSearchlightKw par route evalFn dMethod dTheta a nJobs
        (slResult rdmOf width data centers neighbors pts)
      = (neighbors.zip centers).map
          (fun p => evalFn a.models (rdmOf (selectCols data p.1), p.2) a.method a.theta) := by
  have h := eval_per_center (par nJobs) (hpar nJobs)
    (fun x => callEval evalFn dMethod dTheta a (route nJobs x) x) rdmOf width data centers
    neighbors pts hlen
  unfold evalSearchlightKw
  unfold evalSearchlight at h
  rw [h]
  exact List.map_congr_left (fun p _ => call_site_forwards_all evalFn dMethod dTheta a _
    (hroute nJobs _) _)

/-- the same for slot-per-task collection under every completion order that runs every task -/
theorem eval_per_center_kw_any_schedule {α M Me Θ γ : Type} [Zero α] (sched : Nat → List Nat)
    (route : Nat → List α × Nat → Nat) (hroute : ∀ nj x, route nj x < nCallSites)
    (evalFn : M → List α × Nat → Me → Θ → γ) (dMethod : Me) (dTheta : Θ) (a : EvalArgs M Me Θ)
    (nJobs : Nat)
    (rdmOf : List (List α) → List α) (width : Nat) (data : List (List α)) (centers : List Nat)
    (neighbors : List (List Nat)) (pts : List Nat)
    (hlen : neighbors.length = centers.length)
    (hs : ∀ i, i < centers.length → i ∈ sched nJobs) :
    evalSearchlightKw (fun nj => parCollect (sched nj)) route evalFn dMethod dTheta a nJobs
        (slResult rdmOf width data centers neighbors pts)
      = (neighbors.zip centers).map
          (fun p => some (evalFn a.models (rdmOf (selectCols data p.1), p.2) a.method a.theta)) := by
  have h := eval_per_center_any_schedule (sched nJobs)
    (fun x => callEval evalFn dMethod dTheta a (route nJobs x) x) rdmOf width data centers
    neighbors pts hlen hs
  unfold evalSearchlightKw
  unfold evalSearchlight at h
  simp only
  rw [h]
  exact List.map_congr_left (fun p _ => congrArg some
    (call_site_forwards_all evalFn dMethod dTheta a _ (hroute nJobs _) _))

/-- **results are identical across `n_jobs`**: two runs with different numbers of jobs, different
    dispatches to call sites and different (contract-keeping) executors return the same list -/
theorem eval_njobs_agree {α M Me Θ γ : Type} [Zero α]
    (par : Nat → List (List α × Nat) → (List α × Nat → γ) → List γ)
    (hpar : ∀ nj ts f, par nj ts f = ts.map f)
    (route : Nat → List α × Nat → Nat) (hroute : ∀ nj x, route nj x < nCallSites)
    (evalFn : M → List α × Nat → Me → Θ → γ) (dMethod : Me) (dTheta : Θ) (a : EvalArgs M Me Θ)
    (n₁ n₂ : Nat)
    (rdmOf : List (List α) → List α) (width : Nat) (data : List (List α)) (centers : List Nat)
    (neighbors : List (List Nat)) (pts : List Nat)
    (hlen : neighbors.length = centers.length) :
    evalSearchlightKw par route evalFn dMethod dTheta a n₁
        (slResult rdmOf width data centers neighbors pts)
      = evalSearchlightKw par route evalFn dMethod dTheta a n₂
        (slResult rdmOf width data centers neighbors pts) := by
  rw [eval_per_center_kw par hpar route hroute evalFn dMethod dTheta a n₁ rdmOf width data centers
        neighbors pts hlen,
      eval_per_center_kw par hpar route hroute evalFn dMethod dTheta a n₂ rdmOf width data centers
        neighbors pts hlen]

/-- the whole pipeline from the mask, keywords included -/
theorem pipeline_per_center_kw {α M Me Θ γ : Type} [Zero α] (s : Shape) (m : Vox → Bool) (r thr : K)
    (par : Nat → List (List α × Nat) → (List α × Nat → γ) → List γ)
    (hpar : ∀ nj ts f, par nj ts f = ts.map f)
    (route : Nat → List α × Nat → Nat) (hroute : ∀ nj x, route nj x < nCallSites)
    (evalFn : M → List α × Nat → Me → Θ → γ) (dMethod : Me) (dTheta : Θ) (a : EvalArgs M Me Θ)
    (nJobs : Nat)
    (rdmOf : List (List α) → List α) (width : Nat) (data : List (List α)) (pts : List Nat) :
    evalSearchlightKw par route evalFn dMethod dTheta a nJobs
        (slResult rdmOf width data (volumeSearchlight s m r thr).1 (volumeSearchlight s m r thr).2 pts)
      = (goodCenters s m r thr).map (fun c =>
          evalFn a.models
            (rdmOf (selectCols data ((neighborsAlgo s (ctrOf c) r).map (ravel s))), ravel s c)
            a.method a.theta) := by
  rw [eval_per_center_kw par hpar route hroute evalFn dMethod dTheta a nJobs rdmOf width data _ _ pts
    (by simp [volumeSearchlight])]
  simp [volumeSearchlight, List.zip_map', List.map_map, Function.comp_def]

/-! ### non-vacuity: concrete objects meeting the hypotheses -/

-- a 2×3×4 volume, centre (0,1,2), radius 3/2: 14 voxels, algorithm order ≠ C order
example : (neighborsAlgo (2, 3, 4) (0, 1, 2) (3 / 2 : Rat)).length = 14
    ∧ neighborsAlgo (2, 3, 4) (0, 1, 2) (3 / 2 : Rat) ≠ neighborsSpec (2, 3, 4) (0, 1, 2) (3 / 2 : Rat) := by
  decide +kernel

-- admissible split points exist above the chunking limit, with unequal chunk sizes
example : PtsOk 1004 (floorPts 1004) ∧ (splitIdx 1004 (floorPts 1004)).length = 100
    ∧ ((splitIdx 1004 (floorPts 1004)).map List.length).max? = some 11 := by
  refine ⟨floorPts_ok _, ?_, ?_⟩ <;> decide +kernel

-- hypotheses of `rdm_per_center`: three centres with searchlights of different sizes
example : ([[0, 1], [1, 2, 3], [3]] : List (List Nat)).length = ([0, 2, 3] : List Nat).length
    ∧ PtsOk 3 [1, 1, 2] := by
  refine ⟨rfl, ?_, ?_⟩ <;> decide

-- a schedule that is not the identity satisfies the hypothesis of the parallel theorem
example : ([2, 0, 3, 1] : List Nat).Perm (List.range 4) := by decide

-- an accepted centre exists: full 3×3×3 mask, radius 3/2, threshold 1 accepts all 27 voxels
example : (goodCenters (3, 3, 3) (fun _ => true) (3 / 2 : Rat) 1).length = 27 := by
  decide +kernel

-- radius ≤ 1: hypotheses of `radius_le_one_singleton` hold and the searchlight is the centre
example : InVol (2, 3, 4) (1, 2, 3) ∧ (0 : Rat) < 1 ∧ (1 : Rat) ≤ 1
    ∧ neighborsAlgo (2, 3, 4) (ctrOf (1, 2, 3)) (1 : Rat) = [(1, 2, 3)] := by decide +kernel

-- unsorted split points beyond `n`: not admissible, the chunks overlap, yet every index is covered
example : ptsOkB 5 [4, 2, 9] = false ∧ splitIdx 5 [4, 2, 9] = [[0, 1, 2, 3], [], [2, 3, 4], []]
    ∧ slTable 0 (fun i => i + 10) 5 [4, 2, 9] = (List.range 5).map (fun i => i + 10)
    ∧ Rsa.Gen.C19.chunked 5 = false := by decide

-- huge radius: 2² + 3² + 4² = 29 ≤ 6², the searchlight of a corner is all 24 voxels
example : ((2 : Rat) * 2 + 3 * 3 + 4 * 4 ≤ 6 * 6)
    ∧ (neighborsAlgo (2, 3, 4) (ctrOf (0, 0, 0)) (6 : Rat)).length = 24 := by decide +kernel

-- thresholds 0 / 1 / above 1 on the 3×1×1 mask [1, 1, 0], radius 3/2: with 0 both mask
-- voxels are accepted, with 1 only voxel 0 (the searchlight of voxel 1 touches the hole),
-- above 1 none
example : goodCenters (3, 1, 1) (fun v => decide (v.1 < 2)) (3 / 2 : Rat) 0 = [(0, 0, 0), (1, 0, 0)]
    ∧ goodCenters (3, 1, 1) (fun v => decide (v.1 < 2)) (3 / 2 : Rat) 1 = [(0, 0, 0)]
    ∧ goodCenters (3, 1, 1) (fun v => decide (v.1 < 2)) (3 / 2 : Rat) (3 / 2) = [] := by
  decide +kernel

-- the split-point check accepts the exact points and rejects a decreasing / overshooting list
example : ptsOkB 1004 (floorPts 1004) = true ∧ ptsOkB 5 [3, 2] = false ∧ ptsOkB 5 [3, 6] = false := by
  decide +kernel

-- hypotheses of `eval_per_center` / `eval_per_center_any_schedule`: the order-preserving `par`
-- exists; three centres with different searchlights, a schedule with a repetition; the three
-- results are distinct, so "centre order" is a real constraint
example : (∀ (ts : List (List Nat × Nat)) (f : List Nat × Nat → Nat), (fun ts f => ts.map f) ts f = ts.map f)
    ∧ evalSearchlight (fun ts f => ts.map f) (fun t => t.1.sum * 100 + t.2)
        (slResult (fun sub => sub.map List.sum) 0 [[1, 2, 3, 4], [5, 6, 7, 8]] [9, 7, 8]
          [[0, 1], [1, 2, 3], [3]] []) = [1409, 3007, 1208]
    ∧ evalSearchlight (parCollect [2, 0, 1, 2]) (fun t => t.1.sum * 100 + t.2)
        (slResult (fun sub => sub.map List.sum) 0 [[1, 2, 3, 4], [5, 6, 7, 8]] [9, 7, 8]
          [[0, 1], [1, 2, 3], [3]] []) = [some 1409, some 3007, some 1208]
    ∧ (∀ i, i < 3 → i ∈ [2, 0, 1, 2]) := by
  refine ⟨fun _ _ => rfl, by decide, by decide, by decide⟩

-- an unfinished schedule leaves a slot empty: the hypothesis "every task runs" is needed
example : evalSearchlight (parCollect [2, 0]) (fun t => t.2)
    (slResult (fun sub => sub.map List.sum) 0 [[1, 2, 3, 4]] [9, 7, 8] [[0, 1], [1, 2, 3], [3]] [])
      = [some 9, none, some 8] := by decide

-- the pipeline on a 2×2×1 volume with one hole: three accepted centres, three results
example : (evalSearchlight (fun ts f => ts.map f) (fun t => t.2)
        (slResult (fun sub => sub.map List.sum) 0 [[1, 2, 3, 4]]
          (volumeSearchlight (2, 2, 1) (fun v => decide (v ≠ (1, 1, 0))) (3 / 2 : Rat) (1 / 2)).1
          (volumeSearchlight (2, 2, 1) (fun v => decide (v ≠ (1, 1, 0))) (3 / 2 : Rat) (1 / 2)).2 []))
        = [0, 1, 2] := by decide +kernel

-- round 6: hypotheses of `eval_per_center_kw` / `eval_njobs_agree`: a contract-keeping executor and a
-- dispatch into the call sites of the source exist (`route = 0 < nCallSites`); the evaluation function
-- `method·1000 + theta·100 + Σ rdm + centre` depends on both keywords and its defaults (0, 0) differ
-- from the caller's (2, 5), so "theta reaches every centre" is a real constraint: a call site that
-- drops `theta` (`(true, false)`, the serial path of seeded C19-10) returns another value
example : (∀ (nj : Nat) (ts : List (List Nat × Nat)) (f : List Nat × Nat → Nat),
        (fun _ ts f => ts.map f) nj ts f = ts.map f)
    ∧ (∀ (nj : Nat) (x : List Nat × Nat), (fun _ _ => 0) nj x < nCallSites)
    ∧ evalSearchlightKw (fun _ ts f => ts.map f) (fun _ _ => 0)
        (fun (_ : Unit) t (me th : Nat) => me * 1000 + th * 100 + t.1.sum + t.2) 0 0 ⟨(), 2, 5⟩ 1
        (slResult (fun sub => sub.map List.sum) 0 [[1, 2, 3, 4], [5, 6, 7, 8]] [9, 7, 8]
          [[0, 1], [1, 2, 3], [3]] []) = [2523, 2537, 2520]
    ∧ callEvalAt (true, false) (fun (_ : Unit) (t : List Nat × Nat) (me th : Nat) =>
        me * 1000 + th * 100 + t.1.sum + t.2) 0 0 ⟨(), 2, 5⟩ ([3, 11], 9) = 2023
    ∧ callEvalAt (true, true) (fun (_ : Unit) (t : List Nat × Nat) (me th : Nat) =>
        me * 1000 + th * 100 + t.1.sum + t.2) 0 0 ⟨(), 2, 5⟩ ([3, 11], 9) = 2523 := by
  refine ⟨fun _ _ _ => rfl, fun _ _ => (by decide : 0 < nCallSites), by decide, by decide, by decide⟩

end Rsa.Props.C19
