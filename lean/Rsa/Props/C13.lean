/-
  Property C13 — missing dissimilarities are ignored consistently or rejected, never misaligned.
  Property theorems only; helper lemmas live in Rsa/Lemmas/C13*.lean.

  Model: `Rsa.Core.Nan` (generic; executed by the driver at Float / Rat).  A partial RDM is
  `List (Option α)`, `none` = NaN.  "The RDMs lack exactly the same entries" is
  `∀ r ∈ xs, maskOf r = m` for both stacks; "with those entries deleted" is `delete`.
-/
import Rsa.Lemmas.C13
import Rsa.Lemmas.C13Mean
import Rsa.Lemmas.C13Pool
import Rsa.Lemmas.C13Step
import Rsa.Lemmas.C03Whiten
import Rsa.Lemmas.Tri
import Mathlib.Tactic.IntervalCases

set_option linter.unusedSectionVars false
set_option linter.unusedVariables false
set_option linter.unusedSimpArgs false

namespace Rsa.Props.C13

open Rsa Rsa.Compare Rsa.Nan

/-! ## 1. deletion and re-insertion are inverse; deletion is boolean indexing -/

section mask
variable {α : Type}

/-- `v[~isnan(v)]` is boolean indexing with the vector's own mask -/
theorem keep_maskOf (v : List (Option α)) : keep (maskOf v) v = (delete v).map some := keep_maskOf' v

/-- putting the present values back at the mask recovers the vector (NaN pattern kept) -/
theorem scatter_delete (v : List (Option α)) : scatter (maskOf v) (delete v) = v := scatter_delete' v

theorem delete_scatter (m : List Bool) (vs : List α) (h : vs.length = m.count true) :
    delete (scatter m vs) = vs := delete_scatter' m vs h

theorem maskOf_scatter (m : List Bool) (vs : List α) (h : vs.length = m.count true) :
    maskOf (scatter m vs) = m := maskOf_scatter' m vs h

example : ([7, 9] : List Nat).length = [true, false, true].count true := by decide
example : scatter [true, false, true] [7, 9] = [some 7, none, some 9] := by decide

end mask

/-! ## 2. the input parser: accepts exactly a common mask, returns the reduced stacks unshifted -/

section parse
variable {α : Type}

/-- the `vector[mask].reshape(n_rdm, -1)` step loses no alignment when every row keeps the
    same number of entries -/
theorem reshape_flatKept (xs : List (List (Option α))) (k : Nat)
    (h : ∀ r ∈ xs, (delete r).length = k) :
    reshapeRows xs.length (flatKept xs) = xs.map delete := by
  have := reshapeRows_flatten (xs.map delete) k (by
    intro r hr
    obtain ⟨r', hr', rfl⟩ := List.mem_map.mp hr
    exact h r' hr')
  simpa [flatKept] using this

theorem allMaskEq_iff (m : List Bool) (xs : List (List (Option α))) :
    allMaskEq m xs = true ↔ ∀ r ∈ xs, maskOf r = m := by
  simp [allMaskEq, List.all_eq_true]

/-- **common mask ⇒ accepted, and the reduced stacks are the rows with those entries deleted** -/
theorem parse_common_mask (xs ys : List (List (Option α))) (m : List Bool)
    (hx : xs ≠ []) (hy : ys ≠ [])
    (hxm : ∀ r ∈ xs, maskOf r = m) (hym : ∀ r ∈ ys, maskOf r = m) :
    parseCoded xs ys = .ok (xs.map delete, ys.map delete, m) := by
  obtain ⟨x0, xs', rfl⟩ := List.exists_cons_of_ne_nil hx
  obtain ⟨y0, ys', rfl⟩ := List.exists_cons_of_ne_nil hy
  have hx0 : maskOf x0 = m := hxm x0 (by simp)
  have hy0 : maskOf y0 = m := hym y0 (by simp)
  have hlen : x0.length = y0.length := by
    rw [← maskOf_length x0, ← maskOf_length y0, hx0, hy0]
  have hcount : ∀ r : List (Option α), maskOf r = m → (delete r).length = m.count true := by
    intro r hr; rw [delete_length, hr]
  have e1 := reshape_flatKept (x0 :: xs') (m.count true) (fun r hr => hcount r (hxm r hr))
  have e2 := reshape_flatKept (y0 :: ys') (m.count true) (fun r hr => hcount r (hym r hr))
  have a1 : allMaskEq (maskOf x0) (x0 :: xs') = true := by
    rw [allMaskEq_iff, hx0]; exact hxm
  have a2 : allMaskEq (maskOf x0) (y0 :: ys') = true := by
    rw [allMaskEq_iff, hx0]; exact hym
  unfold parseCoded
  simp only [hlen, ne_eq, not_true_eq_false, if_false, a1, a2, Bool.and_self, if_true]
  rw [e1, e2, hx0]

/-- **a row whose mask differs from the first RDM's ⇒ rejected** (whatever the counts) -/
theorem parse_rejects_differing (x0 y0 : List (Option α)) (xs' ys' : List (List (Option α)))
    (hlen : x0.length = y0.length)
    (h : ∃ r ∈ (x0 :: xs') ++ (y0 :: ys'), maskOf r ≠ maskOf x0) :
    parseCoded (x0 :: xs') (y0 :: ys') = .error .nanpos := by
  have hne : (allMaskEq (maskOf x0) (x0 :: xs') && allMaskEq (maskOf x0) (y0 :: ys')) = false := by
    rw [Bool.and_eq_false_iff]
    obtain ⟨r, hr, hrm⟩ := h
    rcases List.mem_append.mp hr with hr | hr
    · left
      rw [Bool.eq_false_iff]
      intro hall
      exact hrm ((allMaskEq_iff _ _).mp hall r hr)
    · right
      rw [Bool.eq_false_iff]
      intro hall
      exact hrm ((allMaskEq_iff _ _).mp hall r hr)
  unfold parseCoded
  simp only [hlen, ne_eq, not_true_eq_false, if_false, hne]
  rfl

/-- the situation the count-only parser got wrong: equally many missing entries at
    different positions -/
theorem parse_rejects_shifted_equal_count (x y : List (Option α)) (hlen : x.length = y.length)
    (hcount : count x = count y) (hpos : maskOf x ≠ maskOf y) :
    parseCoded [x] [y] = .error .nanpos :=
  parse_rejects_differing x y [] [] hlen ⟨y, by simp, fun h => hpos h.symm⟩

example : count [some 1, none, some 3] = count [none, some 5, some 7] ∧
    maskOf [some 1, none, some 3] ≠ maskOf [none, some 5, some 7] := by decide

/-- the parser succeeds exactly on non-empty stacks of equal width with one common mask -/
theorem parse_ok_iff (xs ys : List (List (Option α))) :
    (∃ r, parseCoded xs ys = .ok r) ↔
      ∃ x0 xs' y0 ys', xs = x0 :: xs' ∧ ys = y0 :: ys' ∧ x0.length = y0.length ∧
        ∀ r ∈ xs ++ ys, maskOf r = maskOf x0 := by
  constructor
  · rintro ⟨r, hr⟩
    cases xs with
    | nil => simp [parseCoded] at hr
    | cons x0 xs' =>
      cases ys with
      | nil => simp [parseCoded] at hr
      | cons y0 ys' =>
        refine ⟨x0, xs', y0, ys', rfl, rfl, ?_⟩
        by_cases hlen : x0.length = y0.length
        · refine ⟨hlen, ?_⟩
          by_contra hcon
          push Not at hcon
          obtain ⟨r', hr', hm⟩ := hcon
          have := parse_rejects_differing x0 y0 xs' ys' hlen ⟨r', hr', hm⟩
          rw [this] at hr
          cases hr
        · exfalso
          unfold parseCoded at hr
          simp only [ne_eq, hlen, not_false_eq_true, if_true] at hr
          cases hr
  · rintro ⟨x0, xs', y0, ys', rfl, rfl, hlen, hall⟩
    exact ⟨_, parse_common_mask (x0 :: xs') (y0 :: ys') (maskOf x0) (by simp) (by simp)
      (fun r hr => hall r (List.mem_append.mpr (Or.inl hr)))
      (fun r hr => hall r (List.mem_append.mpr (Or.inr hr)))⟩

/-- **both source copies of the parser, with their `raise` tests generated from the current source
    text, are the parser the theorems above speak about**: the shape test is `w1 ≠ w2`, the NaN test
    is "not (every row of stack 1 has the first mask ∧ every row of stack 2 has the first mask *of
    stack 1*)" (depends on the leaves `cmpShapeReject`, `cmpNanReject`, `utlShapeReject`, `utlNanReject`) -/
theorem parseOf_eq_parseCoded (c : ParserCopy) (xs ys : List (List (Option α))) :
    parseOf c xs ys = parseCoded xs ys := by
  cases xs with
  | nil => rfl
  | cons x0 xs' =>
    cases ys with
    | nil => rfl
    | cons y0 ys' =>
      unfold parseOf parseCoded
      cases c <;>
      · simp only [shapeReject, nanReject, Rsa.Gen.C13.cmpShapeReject, Rsa.Gen.C13.cmpNanReject,
          Rsa.Gen.C13.utlShapeReject, Rsa.Gen.C13.utlNanReject, b2n]
        by_cases hlen : x0.length = y0.length
        · cases h1 : allMaskEq (maskOf x0) (x0 :: xs') <;> cases h2 : allMaskEq (maskOf x0) (y0 :: ys') <;>
            simp [hlen]
        · simp [hlen]

example : parseOf .utils [[some 1, none, some 3]] [[none, some 5, some 7]] =
    (.error .nanpos : Except ParseErr (List (List Nat) × List (List Nat) × List Bool)) := by decide

/-- regression witness for the repaired defect: the count-only parser accepted differing
    positions and paired entry 0 with entry 1, entry 2 with entry 2 -/
theorem parseLegacy_misaligns_witness :
    parseLegacy [[some 1, none, some 3]] [[none, some 5, some 7]] =
      .ok ([[1, 3]], [[5, 7]], [true, false, true]) ∧
    parseCoded [[some 1, none, some 3]] [[none, some 5, some 7]] =
      (.error .nanpos : Except ParseErr (List (List Nat) × List (List Nat) × List Bool)) := by
  constructor <;> rfl

end parse

/-! ## 3. every measure on a common mask = the measure of the reduced vectors; differing
       masks are rejected -/

section measures
variable {α γ : Type}

/-- **deletion equivalence for every measure `f` of C03** (cosine, corr, spearman, tau-a,
    tau-b, rho-a, Bures …: `f` is arbitrary) -/
theorem measure_common_mask (f : List α → List α → γ) (xs ys : List (List (Option α)))
    (m : List Bool) (hx : xs ≠ []) (hy : ys ≠ [])
    (hxm : ∀ r ∈ xs, maskOf r = m) (hym : ∀ r ∈ ys, maskOf r = m) :
    compareNan f xs ys = .ok (compareAll f (xs.map delete) (ys.map delete)) := by
  unfold compareNan
  rw [parseOf_eq_parseCoded, parse_common_mask xs ys m hx hy hxm hym]

/-- entry (i, j) is the measure of RDM i of the first and RDM j of the second stack, both
    with the common missing entries deleted -/
theorem measure_common_mask_entry (f : List α → List α → γ) (xs ys : List (List (Option α)))
    (m : List Bool) (hxm : ∀ r ∈ xs, maskOf r = m) (hym : ∀ r ∈ ys, maskOf r = m)
    (i j : Nat) (hi : i < xs.length) (hj : j < ys.length) :
    ∃ res, compareNan f xs ys = .ok res ∧
      (res[i]?.bind (·[j]?)) = some (f (delete xs[i]) (delete ys[j])) := by
  have hx : xs ≠ [] := by intro h; subst h; simp at hi
  have hy : ys ≠ [] := by intro h; subst h; simp at hj
  refine ⟨_, measure_common_mask f xs ys m hx hy hxm hym, ?_⟩
  simp [compareAll, hi, hj]

/-- **whitened measures: the matching rows and columns of `V` are deleted** (slow path,
    any `sigma_k`; `f V` is `whitenedCos V` or `whitenedCorr V`) -/
theorem whitened_common_mask (f : List (List α) → List α → List α → γ) (V : List (List α))
    (xs ys : List (List (Option α))) (m : List Bool) (hx : xs ≠ []) (hy : ys ≠ [])
    (hxm : ∀ r ∈ xs, maskOf r = m) (hym : ∀ r ∈ ys, maskOf r = m) :
    compareNanV f V xs ys = .ok (compareAll (f (subBlock m V)) (xs.map delete) (ys.map delete)) := by
  unfold compareNanV
  rw [parseOf_eq_parseCoded, parse_common_mask xs ys m hx hy hxm hym]

/-- fast path (`sigma_k=None`): the same reduced vectors, and the common mask itself, reach
    `_cov_weighting` -/
theorem fast_common_mask (f : List Bool → List α → List α → γ)
    (xs ys : List (List (Option α))) (m : List Bool) (hx : xs ≠ []) (hy : ys ≠ [])
    (hxm : ∀ r ∈ xs, maskOf r = m) (hym : ∀ r ∈ ys, maskOf r = m) :
    compareNanM f xs ys = .ok (compareAll (f m) (xs.map delete) (ys.map delete)) := by
  unfold compareNanM
  rw [parseOf_eq_parseCoded, parse_common_mask xs ys m hx hy hxm hym]

/-- the reduced `V` is the covariance (C03 `getV_entry`) of exactly the kept pairs -/
theorem subBlock_getV_entry {K : Type} [Field K] [LinearOrder K] [IsStrictOrderedRing K]
    (n : ℕ) (s : SigmaK K) (m : List Bool) :
    subBlock m (getV n s) =
      (keep m (pairs n)).map (fun p => (keep m (pairs n)).map (fun q =>
        xiSpec s.entry p q * xiSpec s.entry p q)) := by
  rw [getV_eq_vSpec]
  unfold subBlock vSpec
  rw [keep_map, List.map_map]
  congr 1
  funext p
  simp [keep_map]

example : subBlock [true, false, true] (getV 3 (SigmaK.none : SigmaK ℚ)) = [[4, 1], [1, 4]] := by
  decide +kernel

/-- **differing positions ⇒ every comparison raises** (plain, whitened, fast path) -/
theorem compare_rejects_differing (f : List α → List α → γ)
    (g : List (List α) → List α → List α → γ) (h' : List Bool → List α → List α → γ) (V : List (List α))
    (x0 y0 : List (Option α)) (xs' ys' : List (List (Option α)))
    (hlen : x0.length = y0.length)
    (h : ∃ r ∈ (x0 :: xs') ++ (y0 :: ys'), maskOf r ≠ maskOf x0) :
    compareNan f (x0 :: xs') (y0 :: ys') = .error .nanpos ∧
    compareNanV g V (x0 :: xs') (y0 :: ys') = .error .nanpos ∧
    compareNanM h' (x0 :: xs') (y0 :: ys') = .error .nanpos := by
  have := parse_rejects_differing x0 y0 xs' ys' hlen h
  refine ⟨?_, ?_, ?_⟩
  · unfold compareNan; rw [parseOf_eq_parseCoded, this]
  · unfold compareNanV; rw [parseOf_eq_parseCoded, this]
  · unfold compareNanM; rw [parseOf_eq_parseCoded, this]

/-- nothing missing: `compare` is C03's `compareAll` on the vectors themselves -/
theorem compare_full_stacks (f : List α → List α → γ) (xs ys : List (List α)) (w : Nat)
    (hx : xs ≠ []) (hy : ys ≠ []) (hw : ∀ r ∈ xs ++ ys, r.length = w) :
    compareNan f (xs.map (·.map some)) (ys.map (·.map some)) = .ok (compareAll f xs ys) := by
  have hm : ∀ r : List α, r.length = w → maskOf (r.map some) = List.replicate w true := by
    intro r hr
    rw [maskOf_map_some]
    subst hr
    exact List.map_const' ..
  rw [measure_common_mask f _ _ (List.replicate w true) (by simpa using hx) (by simpa using hy)]
  · simp [List.map_map, Function.comp_def, delete_map_some]
  · intro r hr
    obtain ⟨r', hr', rfl⟩ := List.mem_map.mp hr
    exact hm r' (hw r' (List.mem_append.mpr (Or.inl hr')))
  · intro r hr
    obtain ⟨r', hr', rfl⟩ := List.mem_map.mp hr
    exact hm r' (hw r' (List.mem_append.mpr (Or.inr hr')))

end measures

/-- with nothing missing the fast whitened path is C03's linear-CKA path -/
theorem fast_path_all_present (n : ℕ) (mask : List Bool) (h : mask.all id = true) (r1 r2 : List ℝ) :
    whitenedFastNan n mask r1 r2 = whitenedCosFast n r1 r2 := by
  simp [whitenedFastNan, h]

/-- NOT proved (compared numerically by the driver on every generated case): the fast path
    with missing values (weighted projection of the stretched second-moment vector) equals
    the whitened cosine with the sub-block of `V = getV n none` -/
def fast_nan_eq_slow_full : Prop :=
  ∀ (n : ℕ) (mask : List Bool) (r1 r2 : List ℝ), mask.length = triLen n →
    r1.length = mask.count true → r2.length = mask.count true →
    ∀ c, whitenedCos (subBlock mask (getV n (SigmaK.none : SigmaK ℝ))) r1 r2 = some c →
      whitenedFastNan n mask r1 r2 = c

/-! ## 4. the NaN-aware weighted mean (`_mean`, `RDMs.mean`) -/

section mean
variable {K : Type} [Field K] [LinearOrder K] [IsStrictOrderedRing K]

/-- **`_mean` as coded = Σ_{i present} w_i v_i / Σ_{i present} w_i**, NaN when nobody is present -/
theorem nanMeanEntry_eq_spec (col : List (Option K × Option K)) :
    nanMeanEntry col = nanMeanEntrySpec col := coded_eq_spec col

/-- **NaN exactly where no RDM has a value** (with a weight) -/
theorem nanMeanEntry_none_iff (col : List (Option K × Option K)) :
    nanMeanEntry col = none ↔ ∀ vw ∈ col, vw.1 = none ∨ vw.2 = none := by
  rw [coded_eq_spec, spec_unfold, ← present_eq_nil_iff]
  by_cases h : present col = [] <;> simp [h]

/-- **the weights of missing entries do not count** (repaired defect: they used to stay in the
    denominator): two weight columns that agree wherever the value is present give the same mean -/
theorem nanMeanEntry_ignores_missing_weights {col col' : List (Option K × Option K)}
    (h : List.Forall₂ (fun a b => a.1 = b.1 ∧ (a.1.isSome → a.2 = b.2)) col col') :
    nanMeanEntry col = nanMeanEntry col' := by
  rw [coded_eq_spec, coded_eq_spec, spec_unfold, spec_unfold, present_congr h]

example : List.Forall₂ (fun a b : Option ℚ × Option ℚ => a.1 = b.1 ∧ (a.1.isSome → a.2 = b.2))
    [(some 1, some 2), (none, some 5)] [(some 1, some 2), (none, some 7)] := by
  refine .cons ⟨rfl, fun _ => rfl⟩ (.cons ⟨rfl, fun h => by simp at h⟩ .nil)

theorem zip_map_getElem? {β γ : Type} (v : List β) (f : β → γ) (k : Nat) :
    (List.zip v (v.map f))[k]? = v[k]?.map (fun a => (a, f a)) := by
  induction v generalizing k with
  | nil => simp
  | cons a v ih => cases k <;> simp [ih]

/-- **one weight per RDM is the special case `w_ik = w_i`**: column `k` of the broadcast
    weights pairs every present-or-missing value `v_ik` with `w_i` -/
theorem nanMeanEntry_perRdm (vs : List (List (Option K))) (w : List K) (k : Nat) :
    colAt k (List.zipWith List.zip vs (perRdmWeights vs w)) =
      (List.zip vs w).filterMap (fun p => p.1[k]?.map (fun a => (a, some p.2))) := by
  induction vs generalizing w with
  | nil => simp [perRdmWeights, colAt]
  | cons v vs ih =>
    cases w with
    | nil => simp [perRdmWeights, colAt]
    | cons wi w =>
      have := ih w
      simp only [perRdmWeights, colAt] at this ⊢
      simp only [List.zipWith_cons_cons, List.filterMap_cons, List.zip_cons_cons, this,
        zip_map_getElem? v (fun _ => some wi) k]

/-- no weights: the arithmetic mean of the present values -/
theorem nanMeanEntry_unweighted (col : List (Option K)) :
    nanMeanEntry (col.map (fun v => (v, some (1 : K)))) =
      if delete col = [] then none else some (mean (delete col)) := by
  have hp : present (col.map (fun v => (v, some (1 : K)))) = (delete col).map (fun v => (v, 1)) := by
    induction col with
    | nil => rfl
    | cons a col ih => cases a <;> simp [ih]
  rw [coded_eq_spec, spec_unfold, hp]
  by_cases h : delete col = []
  · simp [h]
  · simp [h, mean, List.map_map, Function.comp_def, List.map_const', List.sum_replicate]

/-- **the mean honours positive weights as a weighted average**: it lies between any bounds
    of the present values -/
theorem nanMeanEntry_between (col : List (Option K × Option K)) (a lo hi : K)
    (h : nanMeanEntry col = some a)
    (hpos : ∀ v w, (some v, some w) ∈ col → 0 < w)
    (hb : ∀ v w, (some v, some w) ∈ col → lo ≤ v ∧ v ≤ hi) : lo ≤ a ∧ a ≤ hi := by
  rw [coded_eq_spec, spec_unfold] at h
  by_cases hne : present col = []
  · simp [hne] at h
  · simp only [hne, if_false, Option.some.injEq] at h
    have hp : ∀ p ∈ present col, 0 < p.2 := fun p hp => hpos p.1 p.2 (mem_present hp)
    have hD := sum_weights_pos (present col) hne hp
    have h1 := sum_mul_lower (present col) lo hp (fun p hp => (hb p.1 p.2 (mem_present hp)).1)
    have h2 := sum_mul_upper (present col) hi hp (fun p hp => (hb p.1 p.2 (mem_present hp)).2)
    rw [← h]
    exact ⟨(le_div_iff₀ hD).mpr h1, (div_le_iff₀ hD).mpr h2⟩

/-- all contributing RDMs agree on the entry ⇒ the mean is that value (used for the
    rescaling fixed point) -/
theorem nanMeanEntry_const (col : List (Option K × Option K)) (a c : K)
    (h : nanMeanEntry col = some a)
    (hpos : ∀ v w, (some v, some w) ∈ col → 0 < w)
    (hc : ∀ v w, (some v, some w) ∈ col → v = c) : a = c := by
  have := nanMeanEntry_between col a c c h hpos (fun v w hm => by rw [hc v w hm]; exact ⟨le_rfl, le_rfl⟩)
  exact le_antisymm this.2 this.1

/-- only the ratios of the weights matter -/
theorem nanMeanEntry_weight_scale (col : List (Option K × Option K)) (c : K) (hc : c ≠ 0) :
    nanMeanEntry (col.map (fun vw => (vw.1, vw.2.map (c * ·)))) = nanMeanEntry col := by
  have hp : present (col.map (fun vw => (vw.1, vw.2.map (c * ·)))) =
      (present col).map (fun p => (p.1, c * p.2)) := by
    induction col with
    | nil => rfl
    | cons x col ih =>
      obtain ⟨v, w⟩ := x
      cases v <;> cases w <;> simp_all
  rw [coded_eq_spec, coded_eq_spec, spec_unfold, spec_unfold, hp]
  by_cases h : present col = []
  · simp [h]
  · have e1 : (List.map (fun vw => vw.1 * vw.2) (List.map (fun p => (p.1, c * p.2)) (present col))).sum =
        c * ((present col).map (fun vw => vw.1 * vw.2)).sum := by
      rw [List.map_map, ← List.sum_map_mul_left]
      congr 1
      apply List.map_congr_left
      intro p _
      simp only [Function.comp]
      ring
    have e2 : (List.map (·.2) (List.map (fun p => (p.1, c * p.2)) (present col))).sum =
        c * ((present col).map (·.2)).sum := by
      rw [List.map_map, ← List.sum_map_mul_left]
      rfl
    simp only [h, List.map_eq_nil_iff, if_false, e1, e2]
    rw [mul_div_mul_left _ _ hc]

/-- `_mean(vectors, weights)[k]` is `nanMeanEntry` of column `k` -/
theorem nanMean_entry (v0 : List (Option K)) (vs ws : List (List (Option K))) (k : Nat)
    (hk : k < v0.length) :
    (nanMean (v0 :: vs) ws)[k]? =
      some (nanMeanEntry (colAt k (List.zipWith List.zip (v0 :: vs) ws))) := by
  simp [nanMean, hk]

example : nanMean [[some 1, some 2, none], [some 3, none, none]]
    (perRdmWeights [[some 1, some 2, none], [some 3, none, none]] [1, 3]) =
      ([some (5 / 2), some 2, none] : List (Option ℚ)) := by decide +kernel

/-- weighted squared error `Σ_{i has the entry} w_i (v_i − e)²` of a candidate value `e` for one entry -/
def wsqErr (col : List (Option K × Option K)) (e : K) : K := wsq (present col) e

/-- **Pythagoras for `_mean`**: for any candidate `e`, the weighted squared error splits into the error
    of the mean plus `(Σ_present w)(mean − e)²` -/
theorem nanMeanEntry_sq_error_decomposition (col : List (Option K × Option K)) (a e : K)
    (h : nanMeanEntry col = some a) (hpos : ∀ v w, (some v, some w) ∈ col → 0 < w) :
    wsqErr col e = wsqErr col a + ((present col).map (·.2)).sum * (a - e) ^ 2 := by
  rw [coded_eq_spec, spec_unfold] at h
  by_cases hne : present col = []
  · simp [hne] at h
  · simp only [hne, if_false, Option.some.injEq] at h
    have hD := sum_weights_pos (present col) hne (fun p hp => hpos p.1 p.2 (mem_present hp))
    rw [← h]
    exact wsq_decomp (present col) e hD.ne'

/-- **the weighted NaN-aware mean minimises the weighted squared error** over the RDMs that have the
    entry (positive weights): no other value — in particular not the previous estimate of the
    rescaling iteration — has a smaller error -/
theorem nanMeanEntry_minimises_weighted_sq_error (col : List (Option K × Option K)) (a e : K)
    (h : nanMeanEntry col = some a) (hpos : ∀ v w, (some v, some w) ∈ col → 0 < w) :
    wsqErr col a ≤ wsqErr col e := by
  rw [nanMeanEntry_sq_error_decomposition col a e h hpos]
  have hne : present col ≠ [] := by
    intro hh
    rw [coded_eq_spec, spec_unfold] at h
    simp [hh] at h
  have hD := sum_weights_pos (present col) hne (fun p hp => hpos p.1 p.2 (mem_present hp))
  have : 0 ≤ ((present col).map (·.2)).sum * (a - e) ^ 2 := mul_nonneg hD.le (sq_nonneg _)
  linarith

example : nanMeanEntry [(some (1 : ℚ), some 1), (some 4, some 2), (none, some 9)] = some 3 ∧
    wsqErr [(some (1 : ℚ), some 1), (some 4, some 2), (none, some 9)] 3 = 6 ∧
    wsqErr [(some (1 : ℚ), some 1), (some 4, some 2), (none, some 9)] 2 = 9 := by
  refine ⟨by decide +kernel, ?_, ?_⟩ <;> simp [wsqErr, wsq, present] <;> norm_num

/-- an entry of `_mean(vectors, weights)` that exists is `nanMeanEntry` of its column -/
theorem nanMean_getElem?_some (vs ws : List (List (Option K))) (k : Nat) (o : Option K)
    (h : (nanMean vs ws)[k]? = some o) :
    o = nanMeanEntry (colAt k (List.zipWith List.zip vs ws)) := by
  cases vs with
  | nil => simp [nanMean] at h
  | cons v0 vs' =>
    simp only [nanMean, List.getElem?_map] at h
    cases hr : (List.range v0.length)[k]? with
    | none => simp [hr] at h
    | some j =>
      have hj : j = k := by
        obtain ⟨hlt, hget⟩ := List.getElem?_eq_some_iff.mp hr
        simpa using hget.symm
      subst hj
      simpa [hr] using h.symm

end mean

/-! ## 5. rescaling partial RDMs: one positive constant per RDM, NaN pattern kept, common
       scale at the fixed point -/

section rescale

/-- **the aligned RDM keeps the NaN pattern of its source** -/
theorem alignRow_mask (est row : List (Option ℝ)) : maskOf (alignRow est row) = maskOf row := by
  unfold alignRow scaleO
  rw [maskOf_map_map, maskOf_map_map]

/-- **each aligned RDM is its source times one positive constant** (whenever the source and
    the estimate restricted to its mask are not identically zero) -/
theorem alignRow_positive_multiple (est row : List (Option ℝ))
    (h1 : 0 < ssO row) (h2 : 0 < ssO (maskBy row est)) :
    ∃ c : ℝ, 0 < c ∧ alignRow est row = row.map (fun o => o.map (fun a => a * c)) := by
  refine ⟨Real.sqrt (ssO (maskBy row est)) / Real.sqrt (ssO row),
    div_pos (Real.sqrt_pos.mpr h2) (Real.sqrt_pos.mpr h1), ?_⟩
  unfold alignRow scaleO
  rw [List.map_map]
  apply List.map_congr_left
  intro o _
  cases o with
  | none => rfl
  | some a =>
    simp only [Function.comp, Option.map_some, hasSqrt_real]
    congr 1
    have : Real.sqrt (ssO row) ≠ 0 := (Real.sqrt_pos.mpr h1).ne'
    field_simp

example : 0 < ssO [some (3 : ℝ), none, some 4] ∧
    0 < ssO (maskBy [some (3 : ℝ), none, some 4] [some 1, some 1, some 2]) := by
  constructor <;> simp [ssO, nansum, maskBy] <;> norm_num

/-- the weights of all three methods are NaN exactly where the dissimilarity is missing -/
theorem rescaleWeights_mask (m : RescaleMethod) (dissim : List (List (Option ℝ))) :
    (rescaleWeights m dissim).map maskOf = dissim.map maskOf := by
  unfold rescaleWeights
  rw [List.map_map]
  apply List.map_congr_left
  intro row _
  exact maskOf_map_map _ row

/-- a partial RDM that is `a · t` on its mask; `L` lists, per entry, (RDM has the entry,
    estimate has the entry, `t_k`) -/
def rowOf (L : List (Bool × Bool × ℝ)) (a : ℝ) : List (Option ℝ) :=
  L.map (fun p => if p.1 then some (a * p.2.2) else none)

/-- an estimate that is `b · t` where it is defined -/
def estOf (L : List (Bool × Bool × ℝ)) (b : ℝ) : List (Option ℝ) :=
  L.map (fun p => if p.2.1 then some (b * p.2.2) else none)

theorem ssO_rowOf (L : List (Bool × Bool × ℝ)) (c : ℝ) : ssO (rowOf L c) = c ^ 2 * ssO (rowOf L 1) := by
  induction L with
  | nil => simp [ssO, rowOf]
  | cons p L ih =>
    obtain ⟨m, u, t⟩ := p
    simp only [ssO, rowOf, List.map_cons, List.map_map] at ih ⊢
    cases m
    · simpa using ih
    · simp only [if_true, Option.map_some, nansum_cons_some, ih]
      ring

theorem maskBy_rowOf_estOf (L : List (Bool × Bool × ℝ)) (a b : ℝ)
    (hsub : ∀ p ∈ L, p.1 = true → p.2.1 = true) :
    maskBy (rowOf L a) (estOf L b) = rowOf L b := by
  induction L with
  | nil => rfl
  | cons p L ih =>
    obtain ⟨m, u, t⟩ := p
    have ih' := ih (fun q hq => hsub q (by simp [hq]))
    simp only [maskBy, rowOf, estOf, List.map_cons, List.zipWith_cons_cons] at ih' ⊢
    rw [ih']
    cases m
    · simp
    · have : u = true := hsub (true, u, t) (by simp) rfl
      subst this
      simp

/-- **fixed point: mutually proportional partial RDMs are brought to one common scale.**
    If RDM `i` is `a_i · t` on its mask (`a_i > 0`) and the current estimate is `b · t`
    (`b > 0`) wherever some RDM has a value, the aligned RDM is `b · t` on its mask — the
    same multiple of `t` for every RDM, whatever `a_i` was. -/
theorem rescale_fixedpoint_common_scale (L : List (Bool × Bool × ℝ)) (a b : ℝ)
    (ha : 0 < a) (hb : 0 < b) (hsub : ∀ p ∈ L, p.1 = true → p.2.1 = true)
    (hS : 0 < ssO (rowOf L 1)) :
    alignRow (estOf L b) (rowOf L a) = rowOf L b := by
  have hsa : Real.sqrt (ssO (rowOf L a)) = a * Real.sqrt (ssO (rowOf L 1)) := by
    rw [ssO_rowOf, Real.sqrt_mul (sq_nonneg a), Real.sqrt_sq ha.le]
  have hsb : Real.sqrt (ssO (maskBy (rowOf L a) (estOf L b))) = b * Real.sqrt (ssO (rowOf L 1)) := by
    rw [maskBy_rowOf_estOf L a b hsub, ssO_rowOf, Real.sqrt_mul (sq_nonneg b), Real.sqrt_sq hb.le]
  have hq : Real.sqrt (ssO (rowOf L 1)) ≠ 0 := (Real.sqrt_pos.mpr hS).ne'
  unfold alignRow scaleO
  simp only [hasSqrt_real, hsa, hsb]
  generalize Real.sqrt (ssO (rowOf L 1)) = q at hq
  have ha' : a ≠ 0 := ha.ne'
  unfold rowOf
  rw [List.map_map, List.map_map]
  apply List.map_congr_left
  intro p _
  obtain ⟨m, u, t⟩ := p
  cases m
  · simp
  · simp only [Function.comp, if_true, Option.map_some]
    congr 1
    field_simp

example : (∀ p ∈ ([(true, true, 3), (false, true, 1), (true, true, 4)] : List (Bool × Bool × ℝ)),
      p.1 = true → p.2.1 = true) ∧
    0 < ssO (rowOf [(true, true, 3), (false, true, 1), (true, true, 4)] 1) := by
  constructor
  · intro p hp; simp at hp; rcases hp with rfl | rfl | rfl <;> simp
  · simp [ssO, nansum, rowOf]; norm_num

/-- the next estimate of one pass, entry-wise: when every RDM that has entry `k` carries the
    same aligned value `c` (as at the fixed point above, `c = b·t_k`) the weighted mean is `c`
    again for positive weights — so the estimate stays a multiple of `t` -/
theorem rescaleStep_estimate_of_proportional (col : List (Option ℝ × Option ℝ)) (a c : ℝ)
    (h : nanMeanEntry col = some a)
    (hpos : ∀ v w, (some v, some w) ∈ col → 0 < w)
    (hc : ∀ v w, (some v, some w) ∈ col → v = c) : a = c :=
  nanMeanEntry_const col a c h hpos hc

/-- **the whole algorithm, any threshold, any number of passes**: what `_rescale` returns is the
    alignment of the input to *some* estimate … -/
theorem rescaleLoop_output_is_alignment (thr : ℝ) (w dissim : List (List (Option ℝ))) (fuel k : ℕ)
    (est : List (Option ℝ)) :
    ∃ e, (rescaleLoop thr w dissim fuel k est).1 = dissim.map (alignRow e) := by
  induction fuel generalizing k est with
  | zero => exact ⟨est, rfl⟩
  | succ fuel ih =>
    have h1 : (rescaleStep w dissim est).1 = dissim.map (alignRow est) := rfl
    unfold rescaleLoop
    rcases hst : rescaleStep w dissim est with ⟨al, nxt⟩
    rw [hst] at h1
    simp only at h1 ⊢
    split_ifs with hc
    · exact ih _ _
    · exact ⟨est, h1⟩

/-- … hence **every returned RDM keeps the NaN pattern of its source**, for all inputs, methods,
    thresholds and iteration counts (not only for one pass) -/
theorem rescale_keeps_nan_pattern (m : RescaleMethod) (thr : ℝ) (fuel : ℕ)
    (dissim : List (List (Option ℝ))) :
    (rescale m thr fuel dissim).1.map maskOf = dissim.map maskOf := by
  obtain ⟨e, he⟩ := rescaleLoop_output_is_alignment thr (rescaleWeights m dissim) dissim fuel 0
    (scaleO (nanMean dissim (onesLike dissim)))
  have : (rescale m thr fuel dissim).1 = dissim.map (alignRow e) := by
    unfold rescale
    simp only
    rw [← he]
  rw [this, List.map_map]
  apply List.map_congr_left
  intro row _
  exact alignRow_mask e row


/-- the evidence weight *as generated from the source*: `max(d², 0.2²)` -/
theorem evidenceWeight_eq (d : ℝ) : Rsa.Gen.C13.evidenceWeight d = max (d ^ 2) (1 / 25) := by
  unfold Rsa.Gen.C13.evidenceWeight
  congr 1
  · ring
  · norm_num

/-- the set-size weight as generated from the source: `1 / #present` -/
theorem setsizeWeight_eq (c : ℝ) : Rsa.Gen.C13.setsizeWeight c = 1 / c := by
  simp [Rsa.Gen.C13.setsizeWeight]

/-- **the weights of all three methods are positive wherever they are defined** (the hypothesis of the
    weighted-mean theorems; depends on the generated leaves `evidenceWeight`, `setsizeWeight`) -/
theorem rescaleWeights_pos (m : RescaleMethod) (dissim : List (List (Option ℝ))) :
    ∀ wrow ∈ rescaleWeights m dissim, ∀ w, some w ∈ wrow → 0 < w := by
  intro wrow hwrow w hw
  unfold rescaleWeights at hwrow
  obtain ⟨row, hrow, rfl⟩ := List.mem_map.mp hwrow
  obtain ⟨o, ho, hmap⟩ := List.mem_map.mp hw
  cases o with
  | none => simp at hmap
  | some d =>
    simp only [Option.map_some, Option.some.injEq] at hmap
    subst hmap
    cases m with
    | evidence =>
      simp only [evidenceWeight_eq]
      exact lt_of_lt_of_le (by norm_num) (le_max_right _ _)
    | setsize =>
      simp only [setsizeWeight_eq]
      have : 0 < count row := count_pos_of_mem row d ho
      positivity
    | simple => exact one_pos

/-- **norm matching**: the aligned RDM has exactly the sum of squares the estimate has on that RDM's
    own entries -/
theorem alignRow_norm (est row : List (Option ℝ)) (h1 : 0 < ssO row) :
    ssO (alignRow est row) = ssO (maskBy row est) := by
  have hmul : alignRow est row = row.map (fun o => o.map (fun a =>
      a * (Real.sqrt (ssO (maskBy row est)) / Real.sqrt (ssO row)))) := by
    unfold alignRow scaleO
    rw [List.map_map]
    apply List.map_congr_left
    intro o _
    cases o with
    | none => rfl
    | some a =>
      simp only [Function.comp, Option.map_some, hasSqrt_real]
      congr 1
      have : Real.sqrt (ssO row) ≠ 0 := (Real.sqrt_pos.mpr h1).ne'
      field_simp
  rw [hmul, ssO_map_mul, div_pow, Real.sq_sqrt (ssO_nonneg _), Real.sq_sqrt h1.le]
  field_simp

theorem mem_colAt_zip_weight {β : Type} (A W : List (List β)) (k : Nat) (p : β × β)
    (h : p ∈ colAt k (List.zipWith List.zip A W)) : ∃ wrow ∈ W, p.2 ∈ wrow := by
  induction A generalizing W with
  | nil => simp [colAt] at h
  | cons a A ih =>
    cases W with
    | nil => simp [colAt] at h
    | cons w W =>
      simp only [colAt, List.zipWith_cons_cons, List.filterMap_cons] at h
      cases hz : (List.zip a w)[k]? with
      | none =>
        rw [hz] at h
        obtain ⟨wrow, hw, hp⟩ := ih W (by simpa [colAt] using h)
        exact ⟨wrow, by simp [hw], hp⟩
      | some q =>
        rw [hz] at h
        rcases List.mem_cons.mp h with rfl | h'
        · have hmem : p ∈ List.zip a w := List.mem_of_getElem? hz
          exact ⟨w, by simp, (List.of_mem_zip hmem).2⟩
        · obtain ⟨wrow, hw, hp⟩ := ih W (by simpa [colAt] using h')
          exact ⟨wrow, by simp [hw], hp⟩

/-- **the consensus half of every pass never increases the weighted squared error**: with the weights
    of any of the three methods, entry `k` of `_mean(aligned, weights)` minimises
    `Σ_{i has k} w_ik (aligned_ik − e)²` over all candidate values `e` (so replacing the previous
    estimate by it cannot increase the error).  The normalisation `_scale` and the norm-matching
    alignment (`alignRow_norm`) are *not* descent steps of this error — which is why the docstring
    warns that the iteration may not converge (see `rescale_converges_full`). -/
theorem rescale_pass_estimate_minimises (m : RescaleMethod) (dissim : List (List (Option ℝ)))
    (est : List (Option ℝ)) (k : ℕ) (a e : ℝ)
    (h : (nanMean (dissim.map (alignRow est)) (rescaleWeights m dissim))[k]? = some (some a)) :
    wsqErr (colAt k (List.zipWith List.zip (dissim.map (alignRow est)) (rescaleWeights m dissim))) a ≤
      wsqErr (colAt k (List.zipWith List.zip (dissim.map (alignRow est)) (rescaleWeights m dissim))) e := by
  have h' := nanMean_getElem?_some _ _ k _ h
  apply nanMeanEntry_minimises_weighted_sq_error _ a e h'.symm
  intro v w hmem
  obtain ⟨wrow, hw, hp⟩ := mem_colAt_zip_weight _ _ k _ hmem
  exact rescaleWeights_pos m dissim wrow hw w hp

example : (nanMean ([[some (3 : ℝ), some 4]].map (alignRow [some 1, some 1]))
    (rescaleWeights .simple [[some (3 : ℝ), some 4]]))[0]? =
      some (nanMeanEntry (colAt 0 (List.zipWith List.zip ([[some (3 : ℝ), some 4]].map (alignRow [some 1, some 1]))
        (rescaleWeights .simple [[some (3 : ℝ), some 4]])))) := by
  simp [nanMean, alignRow, scaleO]


theorem mem_colAt_zip_value {β : Type} (A W : List (List β)) (k : Nat) (p : β × β)
    (h : p ∈ colAt k (List.zipWith List.zip A W)) : ∃ arow ∈ A, arow[k]? = some p.1 := by
  induction A generalizing W with
  | nil => simp [colAt] at h
  | cons a A ih =>
    cases W with
    | nil => simp [colAt] at h
    | cons w W =>
      simp only [colAt, List.zipWith_cons_cons, List.filterMap_cons] at h
      cases hz : (List.zip a w)[k]? with
      | none =>
        rw [hz] at h
        obtain ⟨arow, ha, hp⟩ := ih W (by simpa [colAt] using h)
        exact ⟨arow, by simp [ha], hp⟩
      | some q =>
        rw [hz] at h
        rcases List.mem_cons.mp h with rfl | h'
        · exact ⟨a, by simp, (List.getElem?_zip_eq_some.mp hz).1⟩
        · obtain ⟨arow, ha, hp⟩ := ih W (by simpa [colAt] using h')
          exact ⟨arow, by simp [ha], hp⟩

/-- **the consensus half of a pass keeps a common scale**: if every aligned RDM is `b · t` on its own
    entries (`t = T`), then every defined entry of `_mean(aligned, weights)` is `b · t_k` again, for
    any positive weights (all three methods: `rescaleWeights_pos`) -/
theorem rescale_pass_consensus_common_scale (T : List ℝ) (b : ℝ) (aligned w : List (List (Option ℝ)))
    (hal : ∀ row ∈ aligned, ∀ (k : ℕ) (v : ℝ), row[k]? = some (some v) → ∃ t, T[k]? = some t ∧ v = b * t)
    (hw : ∀ wrow ∈ w, ∀ x, some x ∈ wrow → 0 < x)
    (k : ℕ) (a : ℝ) (h : (nanMean aligned w)[k]? = some (some a)) :
    ∃ t, T[k]? = some t ∧ a = b * t := by
  have h' := (nanMean_getElem?_some _ _ k _ h).symm
  have hne : ¬ ∀ vw ∈ colAt k (List.zipWith List.zip aligned w), vw.1 = none ∨ vw.2 = none := by
    intro hall
    rw [(nanMeanEntry_none_iff _).mpr hall] at h'
    cases h'
  push Not at hne
  obtain ⟨⟨v0, x0⟩, hmem0, hv0, hx0⟩ := hne
  obtain ⟨v0', rfl⟩ := Option.ne_none_iff_exists'.mp hv0
  obtain ⟨arow, harow, hk⟩ := mem_colAt_zip_value _ _ k _ hmem0
  obtain ⟨t, ht, -⟩ := hal arow harow k v0' hk
  refine ⟨t, ht, ?_⟩
  apply nanMeanEntry_const _ a (b * t) h'
  · intro v x hmem
    obtain ⟨wrow, hwrow, hp⟩ := mem_colAt_zip_weight _ _ k _ hmem
    exact hw wrow hwrow x hp
  · intro v x hmem
    obtain ⟨arow', harow', hk'⟩ := mem_colAt_zip_value _ _ k _ hmem
    obtain ⟨t', ht', hv⟩ := hal arow' harow' k v hk'
    rw [ht] at ht'
    cases ht'
    exact hv

theorem rowOf_getElem? (L : List (Bool × Bool × ℝ)) (c : ℝ) (k : ℕ) (v : ℝ)
    (h : (rowOf L c)[k]? = some (some v)) : ∃ p, L[k]? = some p ∧ p.1 = true ∧ v = c * p.2.2 := by
  unfold rowOf at h
  rw [List.getElem?_map] at h
  cases hL : L[k]? with
  | none => simp [hL] at h
  | some p =>
    refine ⟨p, rfl, ?_⟩
    rw [hL] at h
    simp only [Option.map_some, Option.some.injEq] at h
    by_cases hp : p.1 = true
    · simp [hp] at h
      exact ⟨hp, h.symm⟩
    · simp [hp] at h

/-- **a whole pass maps a common-scale estimate to a common-scale estimate and returns common-scale
    RDMs**: RDM `i` is `a_i · t` on its mask (`a_i > 0`), the current estimate is `b · t` (`b > 0`)
    wherever some RDM has a value.  Then (1) the aligned RDMs of the pass are `b · t` on their masks —
    one common factor — and (2) every defined entry of the new consensus `_mean(aligned, weights)` is
    `b · t_k` again (before `_scale`, which multiplies by one positive constant), for positive weights.
    So the set of common-scale estimates is invariant under the iteration. -/
theorem rescale_pass_keeps_common_scale (Ls : List (List (Bool × Bool × ℝ) × ℝ)) (T : List ℝ)
    (est : List (Option ℝ)) (b : ℝ) (hb : 0 < b) (w : List (List (Option ℝ)))
    (ha : ∀ La ∈ Ls, 0 < La.2)
    (hsub : ∀ La ∈ Ls, ∀ p ∈ La.1, p.1 = true → p.2.1 = true)
    (hS : ∀ La ∈ Ls, 0 < ssO (rowOf La.1 1))
    (hest : ∀ La ∈ Ls, estOf La.1 b = est)
    (hT : ∀ La ∈ Ls, ∀ (k : ℕ) (p : Bool × Bool × ℝ), La.1[k]? = some p → T[k]? = some p.2.2)
    (hw : ∀ wrow ∈ w, ∀ x, some x ∈ wrow → 0 < x) :
    (rescaleStep w (Ls.map (fun La => rowOf La.1 La.2)) est).1 = Ls.map (fun La => rowOf La.1 b) ∧
    ∀ (k : ℕ) (a : ℝ), (nanMean (rescaleStep w (Ls.map (fun La => rowOf La.1 La.2)) est).1 w)[k]? = some (some a) →
      ∃ t, T[k]? = some t ∧ a = b * t := by
  have h1 : (rescaleStep w (Ls.map (fun La => rowOf La.1 La.2)) est).1 = Ls.map (fun La => rowOf La.1 b) := by
    show (Ls.map (fun La => rowOf La.1 La.2)).map (alignRow est) = _
    rw [List.map_map]
    apply List.map_congr_left
    intro La hLa
    simp only [Function.comp]
    rw [← hest La hLa]
    exact rescale_fixedpoint_common_scale La.1 La.2 b (ha La hLa) hb (hsub La hLa) (hS La hLa)
  refine ⟨h1, ?_⟩
  intro k a h
  rw [h1] at h
  apply rescale_pass_consensus_common_scale T b _ w _ hw k a h
  intro row hrow k' v hk'
  obtain ⟨La, hLa, rfl⟩ := List.mem_map.mp hrow
  obtain ⟨p, hp, -, hv⟩ := rowOf_getElem? La.1 b k' v hk'
  exact ⟨p.2.2, hT La hLa k' p hp, hv⟩

example : (∀ La ∈ ([([(true, true, 3), (false, true, 1)], 2), ([(true, true, 3), (true, true, 1)], 5)] :
      List (List (Bool × Bool × ℝ) × ℝ)), estOf La.1 (1 / 2) = [some (3 / 2), some (1 / 2)]) ∧
    (∀ La ∈ ([([(true, true, 3), (false, true, 1)], 2), ([(true, true, 3), (true, true, 1)], 5)] :
      List (List (Bool × Bool × ℝ) × ℝ)), ∀ (k : ℕ) (p : Bool × Bool × ℝ), La.1[k]? = some p →
        ([3, 1] : List ℝ)[k]? = some p.2.2) := by
  constructor
  · intro La hLa
    simp at hLa
    rcases hLa with rfl | rfl <;> simp [estOf] <;> norm_num
  · intro La hLa k p hp
    simp at hLa
    rcases hLa with rfl | rfl <;>
    · match k with
      | 0 => simp at hp; subst hp; simp
      | 1 => simp at hp; subst hp; simp
      | (k + 2) => simp at hp

/-- NOT proved: the iteration started from `_scale(_mean(dissim))` reaches the fixed point
    (the docstring itself says it may not converge); checked numerically by the engine at
    thresholds 1e-8 and 1e-13. -/
def rescale_converges_full : Prop :=
  ∀ (m : RescaleMethod) (dissim : List (List (Option ℝ))) (thr : ℝ), 0 < thr →
    ∃ fuel, (rescale m thr fuel dissim).2.2.2 = true

end rescale

/-! ## 6. pooled / noise-ceiling RDMs commute with deleting a common set of missing entries -/

section pool

/-- `_nan_mean` never misaligns: an entry of the pooled RDM has a value iff *every* RDM has
    that entry, and then it is the mean of exactly those values -/
theorem nanMeanFirstEntry_some_iff (col : List (Option ℝ)) (a : ℝ) :
    nanMeanFirstEntry col = some a ↔
      col ≠ [] ∧ (∀ o ∈ col, o.isSome = true) ∧ a = mean (delete col) := by
  cases col with
  | nil => simp [nanMeanFirstEntry]
  | cons o l =>
    cases o with
    | none => simp [nanMeanFirstEntry]
    | some x =>
      by_cases hall : (some x :: l).all Option.isSome = true
      · have : ∀ o ∈ (some x :: l), o.isSome = true := by simpa [List.all_eq_true] using hall
        simp only [nanMeanFirstEntry, hall, if_true, Option.some.injEq, ne_eq, reduceCtorEq,
          not_false_eq_true, true_and]
        constructor
        · intro h; exact ⟨this, h.symm⟩
        · intro h; exact h.2.symm
      · have : ¬ ∀ o ∈ (some x :: l), o.isSome = true := by
          intro h; exact hall (by simpa [List.all_eq_true] using h)
        simp only [nanMeanFirstEntry, hall]
        constructor
        · intro h; simp at h
        · intro h; exact absurd h.2.1 this

/-- **`_nan_mean` on a common mask = column means of the reduced RDMs, at the mask** -/
theorem nanMeanFirst_common_mask (m : List Bool) (stack : List (List (Option ℝ))) (hne : stack ≠ [])
    (hm : ∀ r ∈ stack, maskOf r = m) :
    nanMeanFirst stack = scatter m (colMeans (stack.map delete)) :=
  nanMeanFirst_common m stack hne hm

/-- `_nan_rank_data`: ranks of the present values, put back -/
theorem nanRank_eq (v : List (Option ℝ)) : nanRank v = scatter (maskOf v) (avgRank (delete v)) := rfl

/-- the cosine normalisation `v / sqrt(nanmean(v²))` acts on the present values only -/
theorem normCosO_eq (v : List (Option ℝ)) : normCosO v = scatter (maskOf v) (normCos (delete v)) :=
  normCosO_liftDel v

/-- the correlation normalisation `(v - nanmean v) / nanstd` acts on the present values only -/
theorem normCorrO_eq (v : List (Option ℝ)) : normCorrO v = scatter (maskOf v) (normCorr (delete v)) :=
  normCorrO_liftDel v

/-! ### round 7: RDMs of one stack lacking *different* pairs (equal or unequal counts) -/
/-- column `k` of a stack is made of the RDMs' own entries **for pair `k`**, nothing else -/
theorem mem_colAt_iff {β : Type} (k : Nat) (rows : List (List β)) (o : β) :
    o ∈ colAt k rows ↔ ∃ r ∈ rows, r[k]? = some o := by
  simp [colAt, List.mem_filterMap]

/-- entry `k` of `_nan_mean`'s result is computed from column `k` of the stack alone -/
theorem nanMeanFirst_getElem? (v0 : List (Option ℝ)) (rest : List (List (Option ℝ))) (k : Nat)
    (hk : k < v0.length) :
    (nanMeanFirst (v0 :: rest))[k]? = some (nanMeanFirstEntry (colAt k (v0 :: rest))) := by
  simp [nanMeanFirst, List.getElem?_map, List.getElem?_range hk]

/-- **pooling RDMs that lack *different* pairs (any masks, equal or unequal counts) never shifts an
    entry**: pooled entry `k` has the value `a` iff `k` is a pair of the RDMs, every RDM of the stack
    has its entry `k`, and `a` is the mean of exactly the RDMs' entries `k` -/
theorem nanMeanFirst_differing_masks_entry (v0 : List (Option ℝ)) (rest : List (List (Option ℝ)))
    (k : Nat) (a : ℝ) :
    (nanMeanFirst (v0 :: rest))[k]? = some (some a) ↔
      k < v0.length ∧ (∀ r ∈ v0 :: rest, ∀ o, r[k]? = some o → o.isSome = true) ∧
        a = mean (delete (colAt k (v0 :: rest))) := by
  by_cases hk : k < v0.length
  · rw [nanMeanFirst_getElem? v0 rest k hk, Option.some.injEq, nanMeanFirstEntry_some_iff]
    have hne : colAt k (v0 :: rest) ≠ [] := by
      have : v0[k] ∈ colAt k (v0 :: rest) :=
        (mem_colAt_iff k _ _).2 ⟨v0, by simp, by simp [hk]⟩
      exact List.ne_nil_of_mem this
    constructor
    · rintro ⟨_, hall, ha⟩
      exact ⟨hk, fun r hr o ho => hall o ((mem_colAt_iff k _ _).2 ⟨r, hr, ho⟩), ha⟩
    · rintro ⟨_, hall, ha⟩
      refine ⟨hne, fun o ho => ?_, ha⟩
      obtain ⟨r, hr, hro⟩ := (mem_colAt_iff k _ _).1 ho
      exact hall r hr o hro
  · have : (nanMeanFirst (v0 :: rest))[k]? = none := by
      simp [nanMeanFirst]; omega
    simp [this, hk]

/-- non-vacuity: two RDMs lacking different pairs in equal number — the pooled RDM has a value only at
    the pair both have (the compacted rows `[1, 3]`, `[5, 7]` would give `[3, ·, 5]`) -/
example : nanMeanFirst [[some 1, none, some 3], [none, some 5, some 7]] =
    ([none, none, some 5] : List (Option ℚ)) := by decide +kernel

/-- the same for every pooling method that first normalises each RDM on its own present entries by a
    map `g` keeping the RDM's NaN pattern (cosine: `normCosO`, correlation: `normCorrO`, ranks:
    `nanRank`): pooled entry `k` has a value iff every RDM has its entry `k`, and it is the mean of
    the RDMs' normalised entries `k` — whatever the masks of the RDMs are -/
theorem pool_normalised_differing_masks_entry (g : List (Option ℝ) → List (Option ℝ))
    (hg : ∀ r, maskOf (g r) = maskOf r) (v0 : List (Option ℝ)) (rest : List (List (Option ℝ)))
    (k : Nat) (a : ℝ) :
    (nanMeanFirst ((v0 :: rest).map g))[k]? = some (some a) ↔
      k < v0.length ∧ (∀ r ∈ v0 :: rest, ∀ o, r[k]? = some o → o.isSome = true) ∧
        a = mean (delete (colAt k ((v0 :: rest).map g))) := by
  have hk : ∀ r, ((g r)[k]?).map Option.isSome = (r[k]?).map Option.isSome := by
    intro r
    have := congrArg (·[k]?) (hg r)
    simpa [maskOf, List.getElem?_map] using this
  have hlen : (g v0).length = v0.length := by
    have := congrArg List.length (hg v0)
    simpa using this
  rw [List.map_cons, nanMeanFirst_differing_masks_entry, hlen]
  refine and_congr_right (fun _ => and_congr_left (fun _ => ?_))
  constructor
  · intro h r hr o ho
    have h1 := hk r
    rw [ho] at h1
    cases hgr : (g r)[k]? with
    | none => rw [hgr] at h1; simp at h1
    | some o' =>
      rw [hgr] at h1
      have hmem : g r ∈ g v0 :: rest.map g := by
        rw [← List.map_cons]; exact List.mem_map_of_mem hr
      have := h (g r) hmem o' hgr
      simp at h1
      rw [← h1]; exact this
  · intro h r' hr' o' ho'
    rw [← List.map_cons] at hr'
    obtain ⟨r, hr, rfl⟩ := List.mem_map.1 hr'
    have h1 := hk r
    rw [ho'] at h1
    cases hrk : r[k]? with
    | none => rw [hrk] at h1; simp at h1
    | some o =>
      rw [hrk] at h1
      have := h r hr o hrk
      simp at h1
      rw [h1]; exact this

/-- the normalisers of `pool_rdm` keep each RDM's NaN pattern -/
theorem pool_normalisers_keep_mask (v : List (Option ℝ)) :
    maskOf (normCosO v) = maskOf v ∧ maskOf (normCorrO v) = maskOf v ∧ maskOf (nanRank v) = maskOf v := by
  refine ⟨?_, ?_, ?_⟩
  · rw [normCosO_eq]; exact maskOf_scatter _ _ (by simp [normCos, delete_length])
  · rw [normCorrO_eq]; exact maskOf_scatter _ _ (by simp [normCorr, delete_length])
  · rw [nanRank_eq]; exact maskOf_scatter _ _ (by simp [avgRank, delete_length])

/-- **`pool_rdm` (euclid / cosine / rank methods, either copy) on RDMs lacking different pairs**: the
    pooled entry of pair `k` exists iff every RDM has that pair and is then the mean of the RDMs'
    (normalised) entries for that very pair -/
theorem pool_differing_masks_entry (V : List (List ℝ)) (c : ℝ → ℝ → ℝ) (v0 : List (Option ℝ))
    (rest : List (List (Option ℝ))) (k : Nat) (a : ℝ) :
    ((pool .euclid V c (v0 :: rest))[k]? = some (some a) ↔
      k < v0.length ∧ (∀ r ∈ v0 :: rest, ∀ o, r[k]? = some o → o.isSome = true) ∧
        a = mean (delete (colAt k (v0 :: rest)))) ∧
    ((pool .cosine V c (v0 :: rest))[k]? = some (some a) ↔
      k < v0.length ∧ (∀ r ∈ v0 :: rest, ∀ o, r[k]? = some o → o.isSome = true) ∧
        a = mean (delete (colAt k ((v0 :: rest).map normCosO)))) ∧
    ((pool .rank V c (v0 :: rest))[k]? = some (some a) ↔
      k < v0.length ∧ (∀ r ∈ v0 :: rest, ∀ o, r[k]? = some o → o.isSome = true) ∧
        a = mean (delete (colAt k ((v0 :: rest).map nanRank)))) :=
  ⟨nanMeanFirst_differing_masks_entry v0 rest k a,
   pool_normalised_differing_masks_entry normCosO (fun r => (pool_normalisers_keep_mask r).1) v0 rest k a,
   pool_normalised_differing_masks_entry nanRank (fun r => (pool_normalisers_keep_mask r).2.2) v0 rest k a⟩

/-- **pooled RDM on a common mask = pooled RDM of the reduced RDMs, at the mask** for the
    `euclid` (also `neg_riem_dist`), `cosine`, `corr` (with the `- nanmin + c` shift) and rank
    (`spearman`, `rho-a`, `kendall`, `tau-a`, `tau-b`) methods of both `pool_rdm` copies.
    (The whitened methods follow in `pool_common_mask`.) -/
theorem pool_common_mask_plain (pm : PoolMethod)
    (hpm : pm = .euclid ∨ pm = .cosine ∨ pm = .corr ∨ pm = .rank)
    (V : List (List ℝ)) (c : ℝ → ℝ → ℝ) (m : List Bool) (stack : List (List (Option ℝ))) (hne : stack ≠ [])
    (hm : ∀ r ∈ stack, maskOf r = m) :
    pool pm V c stack = scatter m (poolRows pm (subBlock m V) c (stack.map delete)) := by
  have hcos : stack.map normCosO = stack.map (liftDel normCos) :=
    List.map_congr_left (fun r _ => normCosO_liftDel r)
  have hcor : stack.map normCorrO = stack.map (liftDel normCorr) :=
    List.map_congr_left (fun r _ => normCorrO_liftDel r)
  rcases hpm with rfl | rfl | rfl | rfl
  · simp only [pool, poolRows]
    exact nanMeanFirst_common m stack hne hm
  · simp only [pool, poolRows]
    rw [hcos]
    exact nanMeanFirst_liftDel normCos normCos_length m stack hne hm
  · simp only [pool, poolRows]
    rw [hcor, nanMeanFirst_liftDel normCorr normCorr_length m stack hne hm]
    obtain ⟨r1, rest, rfl⟩ := List.exists_cons_of_ne_nil hne
    have hlen : (colMeans (((r1 :: rest).map delete).map normCorr)).length = m.count true := by
      simp only [List.map_cons]
      rw [colMeans_length, normCorr_length, delete_length, hm r1 (by simp)]
    rw [shiftMinO_scatter c m _ hlen]
    congr 1
    generalize colMeans (((r1 :: rest).map delete).map normCorr) = vals
    cases vals <;> rfl
  · simp only [pool, poolRows]
    exact nanMeanFirst_liftDel avgRank avgRank_length m stack hne hm

example : pool .cosine ([] : List (List ℝ)) (fun a m => a - m) [[some 3, none, some 4], [some 6, none, some 8]] =
    scatter [true, false, true] (poolRows .cosine [] (fun a m => a - m) [[3, 4], [6, 8]]) :=
  pool_common_mask_plain .cosine (Or.inr (Or.inl rfl)) [] _ [true, false, true] _ (by simp)
    (by intro r hr; simp at hr; rcases hr with rfl | rfl <;> rfl)

/-- **the same for every pooling method, including the whitened ones of `util/pooling.py`**
    (`V` reduced to the rows and columns of the common mask) -/
theorem pool_common_mask (pm : PoolMethod) (V : List (List ℝ)) (c : ℝ → ℝ → ℝ) (m : List Bool)
    (stack : List (List (Option ℝ))) (hne : stack ≠ []) (hm : ∀ r ∈ stack, maskOf r = m) :
    pool pm V c stack = scatter m (poolRows pm (subBlock m V) c (stack.map delete)) := by
  cases pm with
  | euclid => exact pool_common_mask_plain .euclid (by simp) V c m stack hne hm
  | cosine => exact pool_common_mask_plain .cosine (by simp) V c m stack hne hm
  | corr => exact pool_common_mask_plain .corr (by simp) V c m stack hne hm
  | rank => exact pool_common_mask_plain .rank (by simp) V c m stack hne hm
  | cosineCov =>
    simp only [pool, poolRows]
    rw [okAll_common m stack hne hm]
    have : stack.map (normWhitenO (subBlock m V) m) = stack.map (liftDel (whitenRow (subBlock m V))) :=
      List.map_congr_left (fun r hr => by rw [← hm r hr]; exact normWhitenO_liftDel _ r)
    rw [this]
    exact nanMeanFirst_liftDel _ (whitenRow_length _) m stack hne hm
  | corrCov =>
    simp only [pool, poolRows]
    have hcm : ∀ r ∈ stack.map (fun v => v.map (fun o => o.map (fun a => a - nanmeanO v))), maskOf r = m := by
      intro r hr
      obtain ⟨r', hr', rfl⟩ := List.mem_map.mp hr
      rw [maskOf_map_map, hm r' hr']
    have hcne : stack.map (fun v => v.map (fun o => o.map (fun a => a - nanmeanO v))) ≠ [] := by
      simpa using hne
    rw [okAll_common m _ hcne hcm]
    have : (stack.map (fun v => v.map (fun o => o.map (fun a => a - nanmeanO v)))).map
          (normWhitenO (subBlock m V) m) =
        (stack.map (fun v => v.map (fun o => o.map (fun a => a - nanmeanO v)))).map
          (liftDel (whitenRow (subBlock m V))) :=
      List.map_congr_left (fun r hr => by rw [← hcm r hr]; exact normWhitenO_liftDel _ r)
    rw [this, nanMeanFirst_liftDel _ (whitenRow_length _) m _ hcne hcm]
    have hdel : (stack.map (fun v => v.map (fun o => o.map (fun a => a - nanmeanO v)))).map delete =
        (stack.map delete).map center := by
      rw [List.map_map, List.map_map]
      apply List.map_congr_left
      intro r _
      simp only [Function.comp, delete_map_map, nanmeanO_eq, center]
    rw [hdel]
    obtain ⟨r1, rest, rfl⟩ := List.exists_cons_of_ne_nil hne
    have hlen : (colMeans ((((r1 :: rest).map delete).map center).map
        (whitenRow (subBlock m V)))).length = m.count true := by
      simp only [List.map_cons]
      rw [colMeans_length, whitenRow_length]
      simp only [center, List.length_map]
      rw [delete_length, hm r1 (by simp)]
    rw [shiftMinO_scatter c m _ hlen]
    congr 1
    generalize hv : colMeans ((((r1 :: rest).map delete).map center).map
      (whitenRow (subBlock m V))) = vals
    have hv' : colMeans ((((r1 :: rest).map delete).map center).map
        (fun x => x.map (fun a => a / nonzero (HasSqrt.sqrt (dot x (solve (subBlock m V) x)))))) = vals := hv
    rw [hv']
    cases vals <;> rfl

end pool

/-! ## 6b. the two `pool_rdm` copies with the shift line *generated from the source* -/

section poolCopies

/-- `util/pooling.py`: the correlation-type pooled RDM is shifted by `- nanmin + 0.01`
    (depends on the generated leaves `poolShiftCorr`, `poolShiftCorrCov`) -/
theorem poolShift_pooling (m : PoolMethod) (a mn : ℝ) :
    poolShift .pooling m a mn = a - mn + 1 / 100 := by
  cases m <;> simp [poolShift, Rsa.Gen.C13.poolShiftCorr, Rsa.Gen.C13.poolShiftCorrCov]

/-- `util/inference_util.py`: shifted by `- nanmin` only (leaves `infShiftCorr`, `infShiftCorrCov`) -/
theorem poolShift_inferenceUtil (m : PoolMethod) (a mn : ℝ) :
    poolShift .inferenceUtil m a mn = a - mn := by
  cases m <;> simp [poolShift, Rsa.Gen.C13.infShiftCorr, Rsa.Gen.C13.infShiftCorrCov]

/-- the shift keeps the order of the entries and sends the minimum to the copy's constant, so
    the pooled correlation-type RDM is non-negative (positive for `util/pooling.py`) -/
theorem poolShift_monotone_min (copy : PoolCopy) (m : PoolMethod) (a b mn : ℝ) (hab : a ≤ b) :
    poolShift copy m a mn ≤ poolShift copy m b mn ∧
    poolShift copy m mn mn = (if copy = .pooling then 1 / 100 else 0) := by
  cases copy
  · simp only [poolShift_inferenceUtil]
    constructor
    · linarith
    · simp
  · simp only [poolShift_pooling]
    constructor
    · linarith
    · simp

/-- **`pool_rdm` of either copy, every method, on a common mask = the pooled RDM of the reduced
    RDMs put back at the mask** -/
theorem poolRdm_common_mask (copy : PoolCopy) (pm : PoolMethod) (V : List (List ℝ)) (m : List Bool)
    (stack : List (List (Option ℝ))) (hne : stack ≠ []) (hm : ∀ r ∈ stack, maskOf r = m) :
    poolRdm copy pm V stack =
      scatter m (poolRows (effMethod copy pm) (subBlock m V) (poolShift copy pm) (stack.map delete)) :=
  pool_common_mask (effMethod copy pm) V (poolShift copy pm) m stack hne hm

end poolCopies

/-! ## 7. regression fit: reduced model RDMs, reduced pooled data, reduced `V` -/

section regress

/-- **`fit_regress` on a common mask = the normal equations of the reduced vectors** (for the
    whitened methods with the matching rows and columns of `V` deleted) -/
theorem regress_common_mask (fm : FitMethod) (V : List (List ℝ)) (ridge : ℝ) (normalize : Bool)
    (A : List (List (Option ℝ))) (y : List (Option ℝ)) (m : List Bool) (hA : A ≠ [])
    (hAm : ∀ r ∈ A, maskOf r = m) (hy : maskOf y = m) :
    fitRegress fm V ridge normalize A y =
      .ok (let t := regressRows fm
              (if fm = .cosineCov ∨ fm = .corrCov then some (subBlock m V) else none)
              ridge (A.map delete) (delete y)
           if normalize then normalizeTheta t else t) := by
  unfold fitRegress
  rw [parseOf_eq_parseCoded, parse_common_mask A [y] m hA (by simp) hAm (by intro r hr; simp at hr; rw [hr, hy])]
  simp

/-- the pooled RDM of reduced rows has the length of the first reduced row -/
theorem poolRows_length (pm : PoolMethod) (V : List (List ℝ)) (sh : ℝ → ℝ → ℝ) (r1 : List ℝ)
    (rest : List (List ℝ)) : (poolRows pm V sh (r1 :: rest)).length = r1.length := by
  cases pm
  · simp [poolRows, colMeans]
  · simp [poolRows, colMeans, normCos]
  · simp only [poolRows]
    have hc : (colMeans ((r1 :: rest).map normCorr)).length = r1.length := by
      simp [colMeans, normCorr]
    generalize colMeans ((r1 :: rest).map normCorr) = vals at hc ⊢
    cases vals <;> simpa using hc
  · simp [poolRows, colMeans, avgRank]
  · simp [poolRows, colMeans]
  · simp only [poolRows]
    have hc : (colMeans (((r1 :: rest).map center).map
        (fun x => x.map (fun a => a / nonzero (HasSqrt.sqrt (dot x (solve V x))))))).length = r1.length := by
      simp [colMeans, center]
    generalize colMeans (((r1 :: rest).map center).map
        (fun x => x.map (fun a => a / nonzero (HasSqrt.sqrt (dot x (solve V x)))))) = vals at hc ⊢
    cases vals <;> simpa using hc

/-- **the whole `fit_regress` pipeline on a common mask** (HEAD: the training RDMs are pooled by
    `util/pooling.pool_rdm` with the *same* `sigma_k` as the fit): with model RDMs and data RDMs
    all lacking the same entries, theta is the regression of the reduced model RDMs on the pooled
    reduced data RDMs, `V` reduced to the kept rows and columns in both steps. -/
theorem fit_pipeline_common_mask (fm : FitMethod) (pm : PoolMethod) (V : List (List ℝ)) (ridge : ℝ)
    (normalize : Bool) (A data : List (List (Option ℝ))) (m : List Bool) (hA : A ≠ []) (hD : data ≠ [])
    (hAm : ∀ r ∈ A, maskOf r = m) (hDm : ∀ r ∈ data, maskOf r = m) :
    fitRegress fm V ridge normalize A (poolRdm .pooling pm V data) =
      .ok (let t := regressRows fm
              (if fm = .cosineCov ∨ fm = .corrCov then some (subBlock m V) else none) ridge
              (A.map delete)
              (poolRows (effMethod .pooling pm) (subBlock m V) (poolShift .pooling pm) (data.map delete))
           if normalize then normalizeTheta t else t) := by
  have hpool := poolRdm_common_mask .pooling pm V m data hD hDm
  obtain ⟨d1, drest, rfl⟩ := List.exists_cons_of_ne_nil hD
  have hlen : (poolRows (effMethod .pooling pm) (subBlock m V) (poolShift .pooling pm)
      ((d1 :: drest).map delete)).length = m.count true := by
    rw [List.map_cons, poolRows_length, delete_length, hDm d1 (by simp)]
  rw [regress_common_mask fm V ridge normalize A _ m hA hAm (by rw [hpool]; exact maskOf_scatter' m _ hlen)]
  rw [hpool, delete_scatter' m _ hlen]

/-- **model RDMs and pooled data lacking different entries ⇒ the fit raises** -/
theorem regress_rejects_differing (fm : FitMethod) (V : List (List ℝ)) (ridge : ℝ) (normalize : Bool)
    (a0 : List (Option ℝ)) (A' : List (List (Option ℝ))) (y : List (Option ℝ))
    (hlen : a0.length = y.length)
    (h : ∃ r ∈ (a0 :: A') ++ [y], maskOf r ≠ maskOf a0) :
    fitRegress fm V ridge normalize (a0 :: A') y = .error .nanpos := by
  unfold fitRegress
  rw [parseOf_eq_parseCoded, parse_rejects_differing a0 y A' [] hlen h]

example : ∃ r ∈ ([some (1 : ℝ), none, some 2] :: []) ++ [[none, some (1 : ℝ), some 2]],
    maskOf r ≠ maskOf [some (1 : ℝ), none, some 2] :=
  ⟨[none, some 1, some 2], by simp, by simp [maskOf]⟩

/-! ### the non-negative fit: same parser, same reduction, C08's active-set loop -/

/-- both fits work on the *same* normal equations `(X, b) = normalEq …` of the reduced vectors:
    `fit_regress` solves them, `fit_regress_nn` hands them to the active-set loop -/
theorem regress_ls_nn_same_equations (eps : ℝ) (fm : FitMethod) (V : Option (List (List ℝ))) (ridge : ℝ)
    (A : List (List ℝ)) (y : List ℝ) :
    regressRows fm V ridge A y = solve (normalEq fm V ridge A y).1 (normalEq fm V ridge A y).2 ∧
    regressRowsNN eps fm V ridge A y =
      ((Rsa.Fit.nnls eps (normalEq fm V ridge A y).1 (normalEq fm V ridge A y).2).1,
       (Rsa.Fit.nnls eps (normalEq fm V ridge A y).1 (normalEq fm V ridge A y).2).2.2) := ⟨rfl, rfl⟩

/-- **`fit_regress_nn` on a common mask = the non-negative least-squares loop on the reduced vectors**
    (whitened methods: matching rows and columns of `V` deleted) -/
theorem regressNN_common_mask (eps : ℝ) (fm : FitMethod) (V : List (List ℝ)) (ridge : ℝ) (normalize : Bool)
    (A : List (List (Option ℝ))) (y : List (Option ℝ)) (m : List Bool) (hA : A ≠ [])
    (hAm : ∀ r ∈ A, maskOf r = m) (hy : maskOf y = m) :
    fitRegressNN eps fm V ridge normalize A y =
      .ok (let t := regressRowsNN eps fm
              (if fm = .cosineCov ∨ fm = .corrCov then some (subBlock m V) else none)
              ridge (A.map delete) (delete y)
           (if normalize then normalizeTheta t.1 else t.1, t.2)) := by
  unfold fitRegressNN
  rw [parseOf_eq_parseCoded, parse_common_mask A [y] m hA (by simp) hAm (by intro r hr; simp at hr; rw [hr, hy])]
  simp

/-- the whole `fit_regress_nn` pipeline on a common mask (pooling with the same `sigma_k`) -/
theorem fitNN_pipeline_common_mask (eps : ℝ) (fm : FitMethod) (pm : PoolMethod) (V : List (List ℝ)) (ridge : ℝ)
    (normalize : Bool) (A data : List (List (Option ℝ))) (m : List Bool) (hA : A ≠ []) (hD : data ≠ [])
    (hAm : ∀ r ∈ A, maskOf r = m) (hDm : ∀ r ∈ data, maskOf r = m) :
    fitRegressNN eps fm V ridge normalize A (poolRdm .pooling pm V data) =
      .ok (let t := regressRowsNN eps fm
              (if fm = .cosineCov ∨ fm = .corrCov then some (subBlock m V) else none) ridge
              (A.map delete)
              (poolRows (effMethod .pooling pm) (subBlock m V) (poolShift .pooling pm) (data.map delete))
           (if normalize then normalizeTheta t.1 else t.1, t.2)) := by
  have hpool := poolRdm_common_mask .pooling pm V m data hD hDm
  obtain ⟨d1, drest, rfl⟩ := List.exists_cons_of_ne_nil hD
  have hlen : (poolRows (effMethod .pooling pm) (subBlock m V) (poolShift .pooling pm)
      ((d1 :: drest).map delete)).length = m.count true := by
    rw [List.map_cons, poolRows_length, delete_length, hDm d1 (by simp)]
  rw [regressNN_common_mask eps fm V ridge normalize A _ m hA hAm (by rw [hpool]; exact maskOf_scatter' m _ hlen)]
  rw [hpool, delete_scatter' m _ hlen]

/-- **model RDMs and pooled data lacking different entries ⇒ the non-negative fit raises too** -/
theorem regressNN_rejects_differing (eps : ℝ) (fm : FitMethod) (V : List (List ℝ)) (ridge : ℝ) (normalize : Bool)
    (a0 : List (Option ℝ)) (A' : List (List (Option ℝ))) (y : List (Option ℝ))
    (hlen : a0.length = y.length)
    (h : ∃ r ∈ (a0 :: A') ++ [y], maskOf r ≠ maskOf a0) :
    fitRegressNN eps fm V ridge normalize (a0 :: A') y = .error .nanpos := by
  unfold fitRegressNN
  rw [parseOf_eq_parseCoded, parse_rejects_differing a0 y A' [] hlen h]

end regress

/-! ## 8. bootstrap-induced NaNs: both resampled stacks get the same mask, so they are
       compared on the reduced vectors and never rejected -/

section bootstrap
variable {α γ : Type}

/-- `v` is a complete RDM vector over `n` conditions -/
def Complete (n : ℕ) (v : List (Option α)) : Prop :=
  ∀ i j, i < j → j < n → ∃ a, v[triIdx n i j]? = some (some a)

/-- **the mask produced by pattern resampling depends only on the drawn patterns**: NaN
    exactly at pairs of two copies of the same pattern -/
theorem subsample_mask (n : ℕ) (sel : List ℕ) (hsel : ∀ i ∈ sel, i < n) (v : List (Option α))
    (hv : Complete n v) : maskOf (subsampleVec n sel v) = subsampleMask sel := by
  unfold subsampleVec subsampleMask maskOf
  rw [List.map_map]
  apply List.map_congr_left
  intro p hp
  obtain ⟨h1, h2⟩ := mem_pairsOf hp
  have hp1 := hsel _ h1
  have hp2 := hsel _ h2
  simp only [Function.comp]
  by_cases heq : p.1 = p.2
  · simp [heq]
  · rcases Nat.lt_or_gt_of_ne heq with hlt | hgt
    · obtain ⟨a, ha⟩ := hv p.1 p.2 hlt hp2
      simp [heq, hlt, ha]
    · obtain ⟨a, ha⟩ := hv p.2 p.1 hgt hp1
      have : ¬ p.1 < p.2 := by omega
      simp [heq, this, ha]

/-- **resampled stacks are never rejected and are compared on their reduced vectors** -/
theorem bootstrap_compare_not_rejected (f : List α → List α → γ) (n : ℕ) (sel : List ℕ)
    (hsel : ∀ i ∈ sel, i < n) (xs ys : List (List (Option α))) (hx : xs ≠ []) (hy : ys ≠ [])
    (hcx : ∀ r ∈ xs, Complete n r) (hcy : ∀ r ∈ ys, Complete n r) :
    compareNan f (xs.map (subsampleVec n sel)) (ys.map (subsampleVec n sel)) =
      .ok (compareAll f ((xs.map (subsampleVec n sel)).map delete)
                        ((ys.map (subsampleVec n sel)).map delete)) := by
  apply measure_common_mask f _ _ (subsampleMask sel) (by simpa using hx) (by simpa using hy)
  · intro r hr
    obtain ⟨r', hr', rfl⟩ := List.mem_map.mp hr
    exact subsample_mask n sel hsel r' (hcx r' hr')
  · intro r hr
    obtain ⟨r', hr', rfl⟩ := List.mem_map.mp hr
    exact subsample_mask n sel hsel r' (hcy r' hr')

example : Complete 3 [some (5 : ℕ), some 6, some 7] := by
  intro i j hij hj
  interval_cases j <;> interval_cases i <;> simp [triIdx]

example : subsampleVec 3 [0, 1, 1] [some (5 : ℕ), some 6, some 7] = [some 5, some 5, none] := by decide

end bootstrap

end Rsa.Props.C13
