/-
  Property C06 — reported uncertainties and p-values are coherent with the evaluations.
  Property theorems only; helper lemmas live in Rsa/Lemmas.
-/
import Mathlib.Algebra.Order.Field.Basic
import Mathlib.Tactic.Linarith
import Mathlib.Tactic.FieldSimp
import Mathlib.Tactic.Ring
import Rsa.Gen.C06

namespace Rsa.Props.C06

open Rsa.Gen.C06

variable {K : Type} [Field K] [LinearOrder K] [IsStrictOrderedRing K]

/-- the dual-bootstrap combination never exceeds the two-factor bootstrap variance
    (`variances[0]`), whatever the three inputs are. -/
theorem dual_le_two_factor (v0 v1 v2 : K) : dualBootstrap v0 v1 v2 ≤ v0 := by
  unfold dualBootstrap
  exact min_le_right _ _

/-- … nor falls below a single-factor variance that is itself below the two-factor one. -/
theorem dual_ge_single (v0 v1 v2 : K) :
    (v1 ≤ v0 → v1 ≤ dualBootstrap v0 v1 v2) ∧ (v2 ≤ v0 → v2 ≤ dualBootstrap v0 v1 v2) := by
  unfold dualBootstrap
  constructor
  · intro h
    exact le_min (le_trans (le_max_right _ _) (le_max_left _ _)) h
  · intro h
    exact le_min (le_max_right _ _) h

/-- small-sample variant: same upper bound -/
theorem dualN_le_two_factor (v0 v1 v2 nr np : K) : dualBootstrapN v0 v1 v2 nr np ≤ v0 := by
  unfold dualBootstrapN
  exact min_le_right _ _

/-- small-sample variant: not below the *corrected* single-factor variances
    `n/(n-1)·v` when these are themselves below the two-factor variance. -/
theorem dualN_ge_single (v0 v1 v2 nr np : K) :
    (correct1dRdm v1 nr ≤ v0 → correct1dRdm v1 nr ≤ dualBootstrapN v0 v1 v2 nr np) ∧
    (correct1dPattern v2 np ≤ v0 → correct1dPattern v2 np ≤ dualBootstrapN v0 v1 v2 nr np) := by
  unfold dualBootstrapN correct1dRdm correct1dPattern
  constructor
  · intro h
    exact le_min (le_trans (le_max_right _ _) (le_max_left _ _)) h
  · intro h
    exact le_min (le_max_right _ _) h

/-- the documented factor: `n/(n-1)` with `n` the passed count, the smaller if both. -/
theorem correct1d_factor (v np nr : K) :
    correct1dBoth v np nr = (min nr np / (min nr np - 1)) * v ∧
    correct1dPattern v np = (np / (np - 1)) * v ∧
    correct1dRdm v nr = (nr / (nr - 1)) * v ∧
    correct1dNone v = v := by
  simp [correct1dBoth, correct1dPattern, correct1dRdm, correct1dNone]

-- non-vacuity: the hypotheses of `dual_ge_single` are met by concrete numbers
example : (2 : ℚ) ≤ 5 ∧ dualBootstrap (5 : ℚ) 2 1 = 2 := by
  unfold dualBootstrap; norm_num

end Rsa.Props.C06
