/-
  Property C06 — reported uncertainties and p-values are coherent with the evaluations.
  Property theorems only; helper lemmas live in Rsa/Lemmas/C06.lean.

  `K` is any linearly ordered field; `ℝ` (with `Real.sqrt`) is used where a square root occurs.
  The Student-t CDF is an arbitrary `F` satisfying the contract `IsCdf`; the Wilcoxon test an
  arbitrary symmetric function.
-/
import Mathlib.Algebra.Order.Field.Basic
import Mathlib.Analysis.Real.Sqrt
import Mathlib.Tactic.Linarith
import Mathlib.Tactic.FieldSimp
import Mathlib.Tactic.Ring
import Mathlib.Tactic.Positivity
import Rsa.Gen.C06
import Rsa.Core.Stats
import Rsa.Lemmas.C06
import Rsa.Lemmas.C06Rank

set_option linter.unusedSectionVars false
set_option linter.unusedVariables false
set_option linter.unusedSimpArgs false
set_option linter.style.longLine false

namespace Rsa.Props.C06

open Rsa Rsa.Gen.C06 Rsa.Stats Rsa.Lemmas.C06

variable {K : Type} [Field K] [LinearOrder K] [IsStrictOrderedRing K]

/-! ## 0. the generated formula leaves of the t-tests (quotient, clamp, p-value formulas) -/

/-- the three t statistics as coded are `effect / sqrt(max(variance, eps))`: against zero, for a
    pair difference, against the ceiling `c` — each through its own generated quotient and clamp
    leaf (`tQuot*`, `tClamp*`), so all three use the same clamp at `eps`. -/
theorem t_stat_formulas [HasSqrt K] (eps eff var c : K) :
    tStat eps eff var = eff / HasSqrt.sqrt (max var eps) ∧
    tStatPair eps eff var = eff / HasSqrt.sqrt (max var eps) ∧
    tStatNc eps eff c var = (eff - c) / HasSqrt.sqrt (max var eps) ∧
    tStatPair eps eff var = tStat eps eff var ∧ tStatNc eps eff c var = tStat eps (eff - c) var :=
  ⟨rfl, rfl, rfl, rfl, rfl⟩

/-- the p-value formulas around the (opaque) Student-t CDF `F`: one-sided `1 - F t` against zero,
    two-sided `2 (1 - F |t|)` for pairs and against the ceiling. -/
theorem p_value_formulas (F : K → K) (t : K) :
    pOne F t = 1 - F t ∧ pTwo F t = 2 * (1 - F |t|) ∧ pTwoNc F t = 2 * (1 - F |t|) ∧
    pTwoNc F t = pTwo F t := by
  simp [pOne, pTwo, pTwoNc, pOneSided, pTwoSidedPair, pTwoSidedNc, absG_eq_abs]

/-- every wrapper hands each t-test the variance that belongs to it (codes: 0 per-model variance,
    1 pair-difference variance, 2 model-versus-LOWER-ceiling variance), tests against the mean
    lower ceiling (code 0), forwards the degrees of freedom it was given, and `Result` passes its
    own `dof`, `model_var`, `diff_var`, `noise_ceil_var` — for `all_tests` and for the single
    wrappers `pair_tests` / `zero_tests` / `nc_tests` alike (call sites re-read from the source). -/
theorem routes_forward_dof_and_variances (d : Int) :
    allPairDof d = d ∧ allZeroDof d = d ∧ allNcDof d = d ∧
    singlePairDof d = d ∧ singleZeroDof d = d ∧ singleNcDof d = d ∧
    resultAllDof d = d ∧ resultPairDof d = d ∧ resultZeroDof d = d ∧ resultNcDof d = d ∧
    allPairVar = 1 ∧ allZeroVar = 0 ∧ allNcVar = 2 ∧ allNcCeil = 0 ∧
    singlePairVar = 1 ∧ singleZeroVar = 0 ∧ singleNcVar = 2 ∧ singleNcCeil = 0 ∧
    resultAllModelVar = 0 ∧ resultAllDiffVar = 1 ∧ resultAllNcVar = 4 ∧
    resultPairVar = 1 ∧ resultZeroVar = 0 ∧ resultNcVar = 4 := by
  refine ⟨rfl, rfl, rfl, rfl, rfl, rfl, rfl, rfl, rfl, rfl, rfl, rfl, rfl, rfl, rfl, rfl, rfl, rfl,
    rfl, rfl, rfl, rfl, rfl, rfl⟩

/-- dispatch on `test_type` (0 t-test, 1 bootstrap, 2 ranksum): `all_tests` and the single
    wrappers reach the same test for every type — `t_tests` / `t_test_0` / `t_test_nc` (codes
    10, 11, 12), the bootstrap pair test / the capped one-sided proportion (20, 21), the
    rank-sum pair / value test (30, 31). -/
theorem dispatch_coherent :
    (∀ tt, allPairDispatch tt = singlePairDispatch tt) ∧
    (∀ tt, allZeroDispatch tt = singleZeroDispatch tt) ∧
    (∀ tt, allNcDispatch tt = singleNcDispatch tt) ∧
    [allPairDispatch 0, allPairDispatch 1, allPairDispatch 2] = [10, 20, 30] ∧
    [allZeroDispatch 0, allZeroDispatch 1, allZeroDispatch 2] = [11, 21, 31] ∧
    [allNcDispatch 0, allNcDispatch 1, allNcDispatch 2] = [12, 21, 31] :=
  ⟨fun _ => rfl, fun _ => rfl, fun _ => rfl, by decide, by decide, by decide⟩

/-! ## 1. the generated leaves: dual-bootstrap clamp and the `n/(n-1)` factor -/

/-- the dual-bootstrap combination never exceeds the two-factor bootstrap variance
    (`variances[0]`), whatever the three inputs are. -/
theorem dual_le_two_factor (v0 v1 v2 : K) : dualBootstrap v0 v1 v2 ≤ v0 := by
  unfold dualBootstrap
  exact min_le_right _ _

/-- … nor falls below a single-factor variance that is itself below the two-factor one. -/
theorem dual_ge_single (v0 v1 v2 : K) :
    (v1 ≤ v0 → v1 ≤ dualBootstrap v0 v1 v2) ∧ (v2 ≤ v0 → v2 ≤ dualBootstrap v0 v1 v2) := by
  unfold dualBootstrap
  constructor
  · intro h
    exact le_min (le_trans (le_max_right _ _) (le_max_left _ _)) h
  · intro h
    exact le_min (le_max_right _ _) h

/-- small-sample variant: same upper bound -/
theorem dualN_le_two_factor (v0 v1 v2 nr np : K) : dualBootstrapN v0 v1 v2 nr np ≤ v0 := by
  unfold dualBootstrapN
  exact min_le_right _ _

/-- small-sample variant: not below the *corrected* single-factor variances
    `n/(n-1)·v` when these are themselves below the two-factor variance. -/
theorem dualN_ge_single (v0 v1 v2 nr np : K) :
    (correct1dRdm v1 nr ≤ v0 → correct1dRdm v1 nr ≤ dualBootstrapN v0 v1 v2 nr np) ∧
    (correct1dPattern v2 np ≤ v0 → correct1dPattern v2 np ≤ dualBootstrapN v0 v1 v2 nr np) := by
  unfold dualBootstrapN correct1dRdm correct1dPattern
  constructor
  · intro h
    exact le_min (le_trans (le_max_right _ _) (le_max_left _ _)) h
  · intro h
    exact le_min (le_max_right _ _) h

/-- the documented factor: `n/(n-1)` with `n` the passed count, the smaller if both. -/
theorem correct1d_factor (v np nr : K) :
    correct1dBoth v np nr = (min nr np / (min nr np - 1)) * v ∧
    correct1dPattern v np = (np / (np - 1)) * v ∧
    correct1dRdm v nr = (nr / (nr - 1)) * v ∧
    correct1dNone v = v := by
  simp [correct1dBoth, correct1dPattern, correct1dRdm, correct1dNone]

-- non-vacuity: the hypotheses of `dual_ge_single` are met by concrete numbers
example : (2 : ℚ) ≤ 5 ∧ dualBootstrap (5 : ℚ) 2 1 = 2 := by
  unfold dualBootstrap; norm_num

/-- the factor applied by `_correct_1d` for every combination of passed counts -/
def factor (np nr : Option K) : K :=
  match np, nr with
  | some np, some nr => min nr np / (min nr np - 1)
  | some np, none => np / (np - 1)
  | none, some nr => nr / (nr - 1)
  | none, none => 1

theorem correct_eq_factor (np nr : Option K) (v : K) : correct np nr v = factor np nr * v := by
  cases np <;> cases nr <;>
    simp [correct, factor, correct1dBoth, correct1dPattern, correct1dRdm, correct1dNone]

/-- the single-factor variances the dual bootstrap is compared with: corrected by `n/(n-1)`
    exactly when both counts are passed (the small-sample formula), else as they are -/
def singleRdm (nr np : Option K) (v1 : K) : K :=
  match nr, np with
  | some a, some _ => correct1dRdm v1 a
  | _, _ => v1

def singlePattern (nr np : Option K) (v2 : K) : K :=
  match nr, np with
  | some _, some b => correct1dPattern v2 b
  | _, _ => v2

/-- all four call patterns of `_dual_bootstrap` (none, one or both counts passed): never above
    the two-factor variance, never below a (corrected) single-factor variance that is itself
    not above the two-factor variance. -/
theorem dual_bounds_all_branches (nr np : Option K) (v0 v1 v2 : K) :
    dual nr np v0 v1 v2 ≤ v0 ∧
    (singleRdm nr np v1 ≤ v0 → singleRdm nr np v1 ≤ dual nr np v0 v1 v2) ∧
    (singlePattern nr np v2 ≤ v0 → singlePattern nr np v2 ≤ dual nr np v0 v1 v2) := by
  cases nr <;> cases np <;>
    simp only [dual, singleRdm, singlePattern, dualBootstrap, dualBootstrapR, dualBootstrapP,
      dualBootstrapN, correct1dRdm, correct1dPattern] <;>
    refine ⟨min_le_right _ _, fun h => le_min (le_trans (le_max_right _ _) (le_max_left _ _)) h,
      fun h => le_min (le_max_right _ _) h⟩

example : dual (some (4 : ℚ)) (some 3) 5 2 1 = 8 / 3 ∧ singleRdm (some (4 : ℚ)) (some (3 : ℚ)) 2 = 8 / 3 := by
  simp only [dual, singleRdm, dualBootstrapN, correct1dRdm]; norm_num

/-! ## 2. variances are contrasts of the stored covariance -/

/-- entry `p = (i, j)` of `diag(C V Cᵀ)` is `V_ii + V_jj - V_ij - V_ji`
    (`var_i + var_j - 2 cov_ij` for symmetric `V`), for every pair of the enumeration. -/
theorem diff_var_contrast (m : Nat) (V : Nat → Nat → K) (p : Nat × Nat) (hp : p ∈ pairs m) :
    rawDiff m V p = specDiff V p ∧
    (V p.1 p.2 = V p.2 p.1 → rawDiff m V p = V p.1 p.1 + V p.2 p.2 - 2 * V p.1 p.2) := by
  have h := mem_pairs hp
  have e : rawDiff m V p = specDiff V p := by
    unfold rawDiff specDiff
    exact quadForm_contrast m V p (by omega) h.2 (by omega)
  refine ⟨e, fun hs => ?_⟩
  rw [e, specDiff, ← hs]; ring

/-- the model-versus-ceiling variance `V_ii - 2 V_{i,nc} + V_{nc,nc}` is the variance of the
    contrast `e_i - e_nc` of the stored (symmetric) covariance, `nc = m + c` the ceiling row. -/
theorem nc_var_contrast (m : Nat) (V : Nat → Nat → K) (i c : Nat) (hi : i < m) (hc : c < 2)
    (hs : V i (m + c) = V (m + c) i) :
    rawNc m true V i c = quadForm (m + 2) (contrastEntry (i, m + c)) V := by
  rw [quadForm_contrast (m + 2) V (i, m + c) (by simp; omega) (by simp; omega) (by simp; omega)]
  simp only [rawNc, if_true]
  rw [← hs]; push_cast; ring

/-- 2-D input: per-model variance, pairwise-difference variance and model-versus-ceiling
    variance are the contrasts of the stored covariance times exactly the documented factor. -/
theorem extract2_spec (m : Nat) (nc : Bool) (V : Nat → Nat → K) (np nr : Option K) :
    (extract2 m nc V np nr).model = (List.range m).map (fun i => factor np nr * V i i) ∧
    (extract2 m nc V np nr).diff = (pairs m).map (fun p => factor np nr * specDiff V p) ∧
    (extract2 m nc V np nr).nc = (List.range m).map (fun i =>
      (factor np nr * rawNc m nc V i 0, factor np nr * rawNc m nc V i 1)) := by
  refine ⟨?_, ?_, ?_⟩
  · simp [extract2, rawModel, correct_eq_factor]
  · simp only [extract2]
    apply List.map_congr_left
    intro p hp
    rw [correct_eq_factor, (diff_var_contrast m V p hp).1]
  · simp [extract2, correct_eq_factor]

/-- 1-D input (independent evaluations): difference variance `var_i + var_j`,
    model-versus-ceiling variance `var_i + var_nc`, same factor. -/
theorem extract1_spec (m : Nat) (nc : Bool) (v : Nat → K) (np nr : Option K) :
    (extract1 m nc v np nr).model = (List.range m).map (fun i => factor np nr * v i) ∧
    (extract1 m nc v np nr).diff = (pairs m).map (fun p => factor np nr * (v p.1 + v p.2)) ∧
    (extract1 m nc v np nr).nc = (List.range m).map (fun i =>
      (factor np nr * (if nc then v i + v m else v i),
       factor np nr * (if nc then v i + v (m + 1) else v i))) := by
  refine ⟨?_, ?_, ?_⟩
  · simp [extract1, correct_eq_factor]
  · simp only [extract1]
    apply List.map_congr_left
    intro p hp
    have h := mem_pairs hp
    rw [correct_eq_factor, (diff_var_contrast m (diagMat v) p hp).1]
    have hne : p.1 ≠ p.2 := by omega
    simp [specDiff, diagMat, hne, Ne.symm hne]
  · simp [extract1, correct_eq_factor, rawNc1]

/-- 3-D input (dual bootstrap): every reported variance is the clamp applied to the three
    corresponding contrasts; hence it never exceeds the two-factor contrast and never falls
    below a (corrected) single-factor contrast that is itself not above the two-factor one. -/
theorem extract3_bounds (m : Nat) (nc : Bool) (V0 V1 V2 : Nat → Nat → K) (nr np : Option K) :
    List.Forall₂ (fun out i => out ≤ V0 i i ∧
        (singleRdm nr np (V1 i i) ≤ V0 i i → singleRdm nr np (V1 i i) ≤ out) ∧
        (singlePattern nr np (V2 i i) ≤ V0 i i → singlePattern nr np (V2 i i) ≤ out))
      (extract3 m nc V0 V1 V2 nr np).model (List.range m) ∧
    List.Forall₂ (fun out p => out ≤ specDiff V0 p ∧
        (singleRdm nr np (specDiff V1 p) ≤ specDiff V0 p → singleRdm nr np (specDiff V1 p) ≤ out) ∧
        (singlePattern nr np (specDiff V2 p) ≤ specDiff V0 p →
          singlePattern nr np (specDiff V2 p) ≤ out))
      (extract3 m nc V0 V1 V2 nr np).diff (pairs m) ∧
    List.Forall₂ (fun out i =>
        out.1 ≤ rawNc m nc V0 i 0 ∧ out.2 ≤ rawNc m nc V0 i 1 ∧
        (singleRdm nr np (rawNc m nc V1 i 0) ≤ rawNc m nc V0 i 0 →
          singleRdm nr np (rawNc m nc V1 i 0) ≤ out.1) ∧
        (singlePattern nr np (rawNc m nc V2 i 0) ≤ rawNc m nc V0 i 0 →
          singlePattern nr np (rawNc m nc V2 i 0) ≤ out.1))
      (extract3 m nc V0 V1 V2 nr np).nc (List.range m) := by
  refine ⟨?_, ?_, ?_⟩
  · simp only [extract3, List.forall₂_map_left_iff]
    exact List.forall₂_same.mpr (fun i _ => dual_bounds_all_branches nr np _ _ _)
  · simp only [extract3, List.forall₂_map_left_iff]
    refine List.forall₂_same.mpr (fun p hp => ?_)
    rw [(diff_var_contrast m V0 p hp).1, (diff_var_contrast m V1 p hp).1,
      (diff_var_contrast m V2 p hp).1]
    exact dual_bounds_all_branches nr np _ _ _
  · simp only [extract3, List.forall₂_map_left_iff]
    refine List.forall₂_same.mpr (fun i _ => ?_)
    have h0 := dual_bounds_all_branches nr np (rawNc m nc V0 i 0) (rawNc m nc V1 i 0) (rawNc m nc V2 i 0)
    have h1 := dual_bounds_all_branches nr np (rawNc m nc V0 i 1) (rawNc m nc V1 i 1) (rawNc m nc V2 i 1)
    exact ⟨h0.1, h1.1, h0.2.1, h0.2.2⟩

-- non-vacuity: a 2-model covariance with ceiling rows; (0,1) is a pair; V is symmetric
example : ((0, 1) : Nat × Nat) ∈ pairs 2 := by decide
example : rawDiff 2 (fun i j => if i = j then (2 : ℚ) else 1) (0, 1) = 2 := by
  rw [(diff_var_contrast 2 _ (0, 1) (by decide)).1]; simp [specDiff]; norm_num

/-- the evaluation functions correct with the count of the factor they resample: `n_rdm` for
    the fixed and the RDM-bootstrap evaluation whatever the number of conditions, `n_cond` for
    the pattern bootstrap whatever the number of RDMs, the smaller of the two when both factors
    are resampled. -/
theorem evaluator_factor (nRdm nCond : K) :
    (let ns := evaluatorNs Resampled.rdm nRdm nCond; factor ns.2 ns.1 = nRdm / (nRdm - 1)) ∧
    (let ns := evaluatorNs Resampled.pattern nRdm nCond; factor ns.2 ns.1 = nCond / (nCond - 1)) ∧
    (let ns := evaluatorNs Resampled.both nRdm nCond;
      factor ns.2 ns.1 = min nRdm nCond / (min nRdm nCond - 1)) ∧
    resampledOf "fixed" = some .rdm ∧ resampledOf "bootstrap_rdm" = some .rdm ∧
    resampledOf "bootstrap_pattern" = some .pattern ∧ resampledOf "bootstrap" = some .both ∧
    resampledOf "dual_bootstrap" = some .both := by
  refine ⟨rfl, rfl, rfl, by decide, by decide, by decide, by decide, by decide⟩

/-! ## 3. fixed evaluation: the classical across-subject statistics -/

/-- `eval_fixed` stores `cov(ddof=0)/n`; after the `n/(n-1)` correction (`n_rdm = n` passed,
    `n_pattern` not) the per-model variance is `s²/n` (`s²` the unbiased sample variance of the
    per-subject evaluations) and the pair variance is `s²_{x_i - x_j}/n`. -/
theorem fixed_sem_is_classical (n : Nat) (hn : 2 ≤ n) (x : Nat → Nat → K) (i j : Nat) :
    correct none (some (n : K)) (fixedCov n x i i) = sampleVar n (x i) / n ∧
    correct none (some (n : K)) (specDiff (fixedCov n x) (i, j))
      = sampleVar n (fun s => x i s - x j s) / n ∧
    meanN n (fun s => x i s - x j s) = meanN n (x i) - meanN n (x j) := by
  have hn0 : (n : K) ≠ 0 := by
    have : (0 : K) < n := by exact_mod_cast (by omega : 0 < n)
    exact ne_of_gt this
  have hn1 : (n : K) - 1 ≠ 0 := by
    have : (1 : K) < n := by exact_mod_cast (by omega : 1 < n)
    exact ne_of_gt (by linarith)
  have hmean : meanN n (fun s => x i s - x j s) = meanN n (x i) - meanN n (x j) := by
    simp only [meanN, sumRange_eq, Finset.sum_sub_distrib]; ring
  refine ⟨?_, ?_, hmean⟩
  · simp only [correct, correct1dRdm, fixedCov, sampleVar, Nat.cast_one]
    field_simp
  · simp only [correct, correct1dRdm, specDiff, fixedCov, sampleVar, hmean, Nat.cast_one]
    simp only [sumRange_eq]
    have e : ∑ s ∈ Finset.range n, (x i s - x j s - (meanN n (x i) - meanN n (x j))) *
          (x i s - x j s - (meanN n (x i) - meanN n (x j)))
        = ∑ s ∈ Finset.range n, (x i s - meanN n (x i)) * (x i s - meanN n (x i))
          + ∑ s ∈ Finset.range n, (x j s - meanN n (x j)) * (x j s - meanN n (x j))
          - ∑ s ∈ Finset.range n, (x i s - meanN n (x i)) * (x j s - meanN n (x j))
          - ∑ s ∈ Finset.range n, (x j s - meanN n (x j)) * (x i s - meanN n (x i)) := by
      rw [← Finset.sum_add_distrib, ← Finset.sum_sub_distrib, ← Finset.sum_sub_distrib]
      exact Finset.sum_congr rfl (fun s _ => by ring)
    rw [e]
    field_simp

/-- the variances `eval_fixed` reports (through `Result` / `extract_variances`) for `m ≥ 2`
    models: exactly the classical ones. -/
theorem fixed_vars_classical (m n : Nat) (hm : 2 ≤ m) (hn : 2 ≤ n) (x : Nat → Nat → K) :
    (fixedVars m n x).model = (List.range m).map (fun i => sampleVar n (x i) / n) ∧
    (fixedVars m n x).diff = (pairs m).map (fun p => sampleVar n (fun s => x p.1 s - x p.2 s) / n) ∧
    (fixedVars m n x).nc = (List.range m).map (fun i => (sampleVar n (x i) / n, sampleVar n (x i) / n)) := by
  have hm1 : ¬ m = 1 := by omega
  simp only [fixedVars, hm1, if_false]
  refine ⟨?_, ?_, ?_⟩
  · simp only [extract2, rawModel]
    exact List.map_congr_left (fun i _ => (fixed_sem_is_classical n hn x i i).1)
  · simp only [extract2]
    apply List.map_congr_left
    intro p hp
    rw [(diff_var_contrast m _ p hp).1]
    exact (fixed_sem_is_classical n hn x p.1 p.2).2.1
  · simp only [extract2, rawNc]
    apply List.map_congr_left
    intro i _
    simp [(fixed_sem_is_classical n hn x i i).1]

/-- a single model: `np.cov` is 0-d and goes through the 1-D branch — same classical variance,
    no pairs. -/
theorem fixed_vars_classical_one (n : Nat) (hn : 2 ≤ n) (x : Nat → Nat → K) :
    (fixedVars 1 n x).model = [sampleVar n (x 0) / n] ∧ (fixedVars 1 n x).diff = [] ∧
    (fixedVars 1 n x).nc = [(sampleVar n (x 0) / n, sampleVar n (x 0) / n)] := by
  have h := (fixed_sem_is_classical n hn x 0 0).1
  simp only [fixedVars, if_true, extract1, rawNc1]
  refine ⟨?_, ?_, ?_⟩
  · simp [List.range_succ, h]
  · simp [pairs, pairsOf, List.range_succ]
  · simp [List.range_succ, h]

/-- degrees of freedom of the fixed evaluation: number of subjects minus one (generated leaf) -/
theorem fixed_dof (n : Int) : fixedDof n = n - 1 := rfl

end Rsa.Props.C06

/-! the remaining sections use `Real.sqrt` for `HasSqrt ℝ` -/

namespace Rsa.Props.C06

open Rsa Rsa.Gen.C06 Rsa.Stats Rsa.Lemmas.C06

noncomputable instance c06SqrtReal : HasSqrt ℝ := ⟨Real.sqrt⟩

/-- textbook one-sample t statistic of `x_0 … x_{n-1}` against `μ` -/
noncomputable def classicalT (n : Nat) (x : Nat → ℝ) (μ : ℝ) : ℝ :=
  (meanN n x - μ) / Real.sqrt (sampleVar n x / n)

/-- hence the three t statistics of a fixed evaluation are the textbook one-sample statistic
    against 0, the one-sample statistic against the (mean lower) noise ceiling `c`, and the
    paired statistic — whenever the variance is not below the `eps` the code clamps at. -/
theorem fixed_t_is_classical (n : Nat) (hn : 2 ≤ n) (x : Nat → Nat → ℝ) (eps c : ℝ) (i j : Nat)
    (hi : eps ≤ sampleVar n (x i) / n)
    (hij : eps ≤ sampleVar n (fun s => x i s - x j s) / n) :
    tStat eps (meanN n (x i)) (correct none (some (n : ℝ)) (fixedCov n x i i))
      = classicalT n (x i) 0 ∧
    tStat eps (meanN n (x i) - c) (correct none (some (n : ℝ)) (fixedCov n x i i))
      = classicalT n (x i) c ∧
    tStat eps (meanN n (x i) - meanN n (x j))
        (correct none (some (n : ℝ)) (specDiff (fixedCov n x) (i, j)))
      = classicalT n (fun s => x i s - x j s) 0 := by
  obtain ⟨h1, h2, h3⟩ := fixed_sem_is_classical n hn x i j
  refine ⟨?_, ?_, ?_⟩
  · rw [h1, (t_stat_formulas _ _ _ 0).1]; simp [classicalT, HasSqrt.sqrt, max_eq_left hi]
  · rw [h1, (t_stat_formulas _ _ _ 0).1]; simp [classicalT, HasSqrt.sqrt, max_eq_left hi]
  · rw [h2, (t_stat_formulas _ _ _ 0).1]; simp [classicalT, HasSqrt.sqrt, max_eq_left hij, h3]

-- non-vacuity: two subjects with evaluations 0 and 1 have `s²/n = 1/4`, far above the clamp
example : (1 / 1000 : ℚ) ≤ sampleVar 2 (fun s => (s : ℚ)) / ((2 : Nat) : ℚ) := by
  norm_num [sampleVar, meanN, sumRange, fsum, List.range_succ]

/-! ## 4. p-values for an abstract CDF -/

section pvalues
variable {K : Type} [Field K] [LinearOrder K] [IsStrictOrderedRing K]

/-- the contract of the external `scipy.stats.t.cdf(·, dof)` -/
structure IsCdf (F : K → K) : Prop where
  mono : Monotone F
  half : F 0 = 1 / 2
  nonneg : ∀ t, 0 ≤ F t
  le_one : ∀ t, F t ≤ 1

/-- all three kinds of t-test p-values lie in `[0, 1]` -/
theorem p_range (F : K → K) (hF : IsCdf F) (t : K) :
    0 ≤ pTwo F t ∧ pTwo F t ≤ 1 ∧ 0 ≤ pOne F t ∧ pOne F t ≤ 1 := by
  have h1 : F 0 ≤ F (absG t) := hF.mono (by rw [absG_eq_abs]; exact abs_nonneg t)
  rw [hF.half] at h1
  have h2 := hF.le_one (absG t)
  have h3 := hF.nonneg t
  have h4 := hF.le_one t
  rw [pTwo_def, pOne_def]
  refine ⟨by nlinarith, by linarith, by linarith, by linarith⟩

/-- the pairwise t-test matrix is symmetric -/
theorem pairwise_symm [HasSqrt K] (F : K → K) (eps : K) (m : Nat) (e : Nat → K) (dv : List K)
    (i j : Nat) : pPairT F eps m e dv i j = pPairT F eps m e dv j i := by
  simp only [pPairT, tPairMat]
  rw [vecToMat_symm]

/-- … with unit diagonal -/
theorem pairwise_diag_one [HasSqrt K] (F : K → K) (hF : IsCdf F) (eps : K) (m : Nat)
    (e : Nat → K) (dv : List K) (i : Nat) : pPairT F eps m e dv i i = 1 := by
  simp only [pPairT, tPairMat, vecToMat, if_true, pTwo_def, absG, neg_zero, max_self, hF.half]
  norm_num

-- non-vacuity: a function satisfying the CDF contract
example : IsCdf (fun t : ℚ => max 0 (min 1 (1 / 2 + t))) where
  mono := fun a b h => max_le_max le_rfl (min_le_min le_rfl (by linarith))
  half := by norm_num
  nonneg := fun t => le_max_left _ _
  le_one := fun t => max_le (by norm_num) (min_le_left _ _)

end pvalues

/-- in the t-tests a larger effect at equal variance never yields a larger p-value:
    two-sided tests in `|effect|`, the one-sided test in the effect itself. -/
theorem p_antitone_in_effect (F : ℝ → ℝ) (hF : IsCdf F) (eps v e1 e2 : ℝ) (heps : 0 < eps) :
    (|e1| ≤ |e2| → pTwo F (tStat eps e2 v) ≤ pTwo F (tStat eps e1 v)) ∧
    (e1 ≤ e2 → pOne F (tStat eps e2 v) ≤ pOne F (tStat eps e1 v)) := by
  have hs : 0 < Real.sqrt (max v eps) := Real.sqrt_pos.mpr (lt_of_lt_of_le heps (le_max_right _ _))
  constructor
  · intro h
    have : absG (tStat eps e1 v) ≤ absG (tStat eps e2 v) := by
      simp only [absG_eq_abs, tStat_def, HasSqrt.sqrt, abs_div, abs_of_pos hs]
      exact div_le_div_of_nonneg_right h hs.le
    have := hF.mono this
    simp only [pTwo_def]
    linarith
  · intro h
    have : tStat eps e1 v ≤ tStat eps e2 v := by
      simp only [tStat_def, HasSqrt.sqrt]
      exact div_le_div_of_nonneg_right h hs.le
    have := hF.mono this
    simp only [pOne_def]
    linarith

example : |(1 : ℝ)| ≤ |(-2 : ℝ)| := by norm_num

/-! ## 5. bootstrap tests -/

section boot
variable {K : Type} [Field K] [LinearOrder K] [IsStrictOrderedRing K]

/-- from the counts: `lt` samples with `x_i < x_j`, `gt` with `x_i > x_j`, `eq` ties, not all
    ties.  The p-value lies in `[1/N, 1]` … -/
theorem bootstrap_p_range (N lt gt eq : Nat) (hN : lt + gt + eq = N) (hpos : 0 < lt + gt) :
    (1 : K) / N ≤ bootPairP N lt eq ∧ bootPairP (α := K) N lt eq ≤ 1 ∧ (0 : K) < 1 / N := by
  have hNpos : (0 : K) < N := by exact_mod_cast (by omega : 0 < N)
  have hden : (N : K) - eq = lt + gt := by
    have : (N : K) = lt + gt + eq := by exact_mod_cast hN.symm
    rw [this]; ring
  have hd : (0 : K) < (lt : K) + gt := by exact_mod_cast hpos
  have hlt : (0 : K) ≤ lt := Nat.cast_nonneg _
  have hgt : (0 : K) ≤ gt := Nat.cast_nonneg _
  have hp0 : (0 : K) ≤ (lt : K) / (lt + gt) := div_nonneg hlt hd.le
  have hp1 : (lt : K) / (lt + gt) ≤ 1 := by
    rw [div_le_one hd]; linarith
  set prop : K := (lt : K) / (lt + gt) with hprop
  have hm0 : 0 ≤ min prop (1 - prop) := le_min hp0 (by linarith)
  have hm1 : min prop (1 - prop) * 2 ≤ 1 := by
    rcases le_total prop (1 - prop) with h | h
    · rw [min_eq_left h]; linarith
    · rw [min_eq_right h]; linarith
  have hN1 : (1 : K) ≤ N := by exact_mod_cast (by omega : 1 ≤ N)
  simp only [bootPairP_def, hden]
  rw [← hprop]
  have hfrac : (0 : K) ≤ ((N : K) - 1) / N := div_nonneg (by linarith) hNpos.le
  refine ⟨?_, ?_, by positivity⟩
  · have : 0 ≤ ((N : K) - 1) / N * (min prop (1 - prop) * 2) := mul_nonneg hfrac (by linarith)
    linarith
  · have h1 : ((N : K) - 1) / N * (min prop (1 - prop) * 2) ≤ ((N : K) - 1) / N * 1 :=
      mul_le_mul_of_nonneg_left hm1 hfrac
    have h2 : ((N : K) - 1) / N * 1 + 1 / N = 1 := by field_simp; ring
    linarith

/-- … and does not depend on which of the two models is called the first -/
theorem bootPairP_swap (N lt gt eq : Nat) (hN : lt + gt + eq = N) :
    bootPairP (α := K) N lt eq = bootPairP N gt eq := by
  rcases Nat.eq_zero_or_pos (lt + gt) with h0 | hpos
  · have h1 : lt = 0 := by omega
    have h2 : gt = 0 := by omega
    rw [h1, h2]
  · have hden : (N : K) - eq = lt + gt := by
      have : (N : K) = lt + gt + eq := by exact_mod_cast hN.symm
      rw [this]; ring
    have hd : (0 : K) < (lt : K) + gt := by exact_mod_cast hpos
    have e1 : (gt : K) / (lt + gt) = 1 - (lt : K) / (lt + gt) := by field_simp; ring
    simp only [bootPairP_def, hden, e1, sub_sub_cancel]
    rw [min_comm]

/-- the bootstrap pair test computed for `(i, j)` equals the one computed for `(j, i)`:
    the counts are taken over the complete bootstrap samples, where `<`, `>`, `=` partition. -/
theorem bootstrap_pair_swap (nB m : Nat) (c : Nat → Nat → Option K) (i j : Nat)
    (hi : i < m) (hj : j < m) :
    bootPair (α := K) (fun a b => decide (a < b)) (fun a b => decide (a = b)) nB m c i j
      = bootPair (fun a b => decide (a < b)) (fun a b => decide (a = b)) nB m c j i := by
  simp only [bootPair]
  set rows := completeRows nB m c with hrows
  have hcomp : ∀ r ∈ rows, ∃ a b, c r i = some a ∧ c r j = some b := by
    intro r hr
    simp only [hrows, completeRows, List.mem_filter, List.all_eq_true, List.mem_range] at hr
    have h1 := hr.2 i hi
    have h2 := hr.2 j hj
    obtain ⟨a, ha⟩ := Option.isSome_iff_exists.mp h1
    obtain ⟨b, hb⟩ := Option.isSome_iff_exists.mp h2
    exact ⟨a, b, ha, hb⟩
  have hboth : ∀ (f : K → K → Bool) r a b, c r i = some a → c r j = some b →
      both c i j f r = f a b ∧ both c j i f r = f b a := by
    intro f r a b ha hb
    simp [both, ha, hb]
  -- ties are symmetric
  have heq : countRows rows (both c j i (fun a b => decide (a = b)))
      = countRows rows (both c i j (fun a b => decide (a = b))) := by
    apply countRows_congr
    intro r hr
    obtain ⟨a, b, ha, hb⟩ := hcomp r hr
    rw [(hboth _ r a b ha hb).1, (hboth _ r a b ha hb).2]
    simp [eq_comm]
  -- `<`, `>`, `=` partition the complete rows
  have htri := countRows_trichotomy rows
    (both c i j (fun a b => decide (a < b))) (both c j i (fun a b => decide (a < b)))
    (both c i j (fun a b => decide (a = b)))
    (by
      intro r hr
      obtain ⟨a, b, ha, hb⟩ := hcomp r hr
      rw [(hboth _ r a b ha hb).1, (hboth _ r a b ha hb).2, (hboth _ r a b ha hb).1]
      rcases lt_trichotomy a b with h | h | h
      · left; simp [h, not_lt_of_gt h, ne_of_lt h]
      · right; right; simp [h]
      · right; left; simp [h, not_lt_of_gt h, ne_of_gt h])
  rw [heq]
  exact bootPairP_swap _ _ _ _ htri

/-- the matrix the code fills (upper triangle, mirrored, diagonal 1) is symmetric with unit
    diagonal, and every off-diagonal entry is the test of that ordered pair itself. -/
theorem bootstrap_mat_symm_diag (nB m : Nat) (c : Nat → Nat → Option K) (i j : Nat)
    (hi : i < m) (hj : j < m) :
    let lt := fun (a b : K) => decide (a < b)
    let eq := fun (a b : K) => decide (a = b)
    bootPairMat lt eq nB m c i j = bootPairMat lt eq nB m c j i ∧
    bootPairMat (α := K) lt eq nB m c i i = 1 ∧
    (i ≠ j → bootPairMat lt eq nB m c i j = bootPair lt eq nB m c i j) := by
  intro lt eq
  refine ⟨?_, by simp [bootPairMat], ?_⟩
  · unfold bootPairMat
    rcases Nat.lt_trichotomy i j with h | h | h
    · have h1 : ¬ i = j := by omega
      have h2 : ¬ j = i := by omega
      have h3 : ¬ j < i := by omega
      simp [h1, h2, h3, h]
    · subst h; rfl
    · have h1 : ¬ i = j := by omega
      have h2 : ¬ j = i := by omega
      have h3 : ¬ i < j := by omega
      simp [h1, h2, h3, h]
  · intro hne
    unfold bootPairMat
    by_cases h : i < j
    · simp [hne, h]
    · simp only [hne, h, if_false]
      exact bootstrap_pair_swap nB m c j i hj hi

/-- permuting the models permutes the bootstrap pair tests: the test of `(i, j)` on the
    permuted columns is the test of `(σ i, σ j)`; `σ` a bijection of `{0..m-1}`. -/
theorem bootstrap_perm_equivariant (ltb eqb : K → K → Bool) (nB m : Nat)
    (c : Nat → Nat → Option K) (σ : Nat → Nat) (hσ : ∀ i, i < m → σ i < m)
    (hsurj : ∀ j, j < m → ∃ i, i < m ∧ σ i = j) (i j : Nat) :
    bootPair ltb eqb nB m (fun r k => c r (σ k)) i j = bootPair ltb eqb nB m c (σ i) (σ j) := by
  have hrows : completeRows nB m (fun r k => c r (σ k)) = completeRows nB m c := by
    unfold completeRows
    apply List.filter_congr
    intro r _
    rw [Bool.eq_iff_iff]
    simp only [List.all_eq_true, List.mem_range]
    constructor
    · intro h k hk
      obtain ⟨i, hi, rfl⟩ := hsurj k hk
      exact h i hi
    · intro h k hk
      exact h (σ k) (hσ k hk)
  simp only [bootPair, hrows]
  rfl

-- non-vacuity: the transposition of two models is such a `σ`
example : (∀ i, i < 2 → (fun k => 1 - k) i < 2) ∧ (∀ j, j < 2 → ∃ i, i < 2 ∧ (fun k => 1 - k) i = j) :=
  ⟨fun i h => by show 1 - i < 2; omega, fun j h => ⟨1 - j, by omega, by show 1 - (1 - j) = j; omega⟩⟩

/-- one-sided bootstrap p-values (against zero, against the ceiling) lie in `[0, 1]` -/
theorem bootstrap_one_sided_range (leb : K → K → Bool) (nB : Nat) (hN : 0 < nB)
    (x ref : Nat → Option K) :
    0 ≤ bootOneSided leb nB x ref ∧ bootOneSided leb nB x ref ≤ 1 := by
  have hNpos : (0 : K) < nB := by exact_mod_cast hN
  simp only [bootOneSided, bootZeroSingle_def]
  refine ⟨le_min (div_nonneg (by positivity) hNpos.le) zero_le_one, min_le_right _ _⟩

example : (3 : Nat) + 5 + 2 = 10 ∧ 0 < 3 + 5 := by decide

end boot

/-! ## 6. means, standard errors -/

section means
variable {K : Type} [Field K] [LinearOrder K] [IsStrictOrderedRing K]

/-- NaN-aware average: missing entries are skipped, the rest averaged; without missing
    entries it is the ordinary mean. -/
theorem means_nan_aware (l : List (Option K)) (xs : List K) :
    nanMean l = nanMean ((present l).map some) ∧
    (xs ≠ [] → nanMean (xs.map some) = some (xs.sum / xs.length)) ∧
    (nanMean l = none ↔ ∀ x ∈ l, x = none) := by
  have hp : ∀ ys : List K, present (ys.map some) = ys := by
    intro ys; simp [present, List.filterMap_map]
  refine ⟨by simp [nanMean, hp], ?_, ?_⟩
  · intro hne
    simp [nanMean, hp, hne, fsum_eq_sum]
  · simp [nanMean, present]

/-- `get_means` of a bootstrap-type result: the failed samples (rows whose value is NaN) are
    dropped and the remaining per-sample values averaged. -/
theorem means_drop_nan_rows (nB m : Nat) (shape : List Nat) (E : Evals K) (j : Nat) (hj : j < m)
    (val : Nat → K) (hval : ∀ r ∈ validRows nB shape E, cell shape E r j = some (val r))
    (hne : validRows nB shape E ≠ []) :
    (getMeansBoot nB m shape E)[j]? =
      some (some (((validRows nB shape E).map val).sum / (validRows nB shape E).length)) ∧
    (∀ r, r < nB → (r ∈ validRows nB shape E ↔ (cell shape E r 0).isSome)) := by
  constructor
  · simp only [getMeansBoot, List.getElem?_map, List.getElem?_range hj, Option.map_some]
    have e : (validRows nB shape E).map (fun r => cell shape E r j)
        = ((validRows nB shape E).map val).map some := by
      rw [List.map_map]
      exact List.map_congr_left (fun r hr => hval r hr)
    rw [e]
    simp [strictMean, present, List.filterMap_map, hne, fsum_eq_sum]
  · intro r hr
    simp [validRows, List.mem_filter, hr]

/-- `get_means` of a fixed / cross-validation result (one row): the NaN-aware average over
    subjects (folds) of that row. -/
theorem means_fixed_single_row (m n : Nat) (E : Evals K) :
    getMeansFixed 1 m n E
      = (List.range m).map (fun j => nanMean ((List.range n).map (fun s => E 0 j [s]))) := by
  have h1 : ∀ x : Option K, strictMean [x] = x := by
    intro x
    cases x <;> simp [strictMean, present, fsum]
  simp [getMeansFixed, List.range_succ, h1]

/-! ### round 7: the per-model specification of `get_means` (a model without values) -/

theorem nanMean_singleton (x : Option K) : nanMean [x] = x := by
  cases x <;> simp [nanMean, present, fsum]

/-- The mean reported for model `j` is the NaN-aware average of model `j`'s own per-sample values and
    of nothing else: two evaluation arrays that agree on model `j` give model `j` the same mean,
    whatever the other models hold (no value at all, values in some samples only). -/
theorem means_spec_model_local (nB m : Nat) (shape : List Nat) (E E' : Evals K) (j : Nat) (hj : j < m)
    (h : ∀ r idx, E r j idx = E' r j idx) :
    (getMeansSpec nB m shape E)[j]? = (getMeansSpec nB m shape E')[j]? ∧
    (getMeansSpec nB m shape E)[j]? =
      some (nanMean ((List.range nB).map (fun r => cell shape E r j))) := by
  have hc : ∀ r, cell shape E r j = cell shape E' r j := by
    intro r
    have : E r j = E' r j := funext (h r)
    simp only [cell, this]
  simp [getMeansSpec, List.getElem?_range hj, hc]

/-- the mean of model `j` is NaN exactly when model `j` has no value in any sample -/
theorem means_spec_nan_iff (nB m : Nat) (shape : List Nat) (E : Evals K) (j : Nat) (hj : j < m) :
    (getMeansSpec nB m shape E)[j]? = some none ↔ ∀ r, r < nB → cell shape E r j = none := by
  simp only [getMeansSpec, List.getElem?_map, List.getElem?_range hj, Option.map_some,
    Option.some.injEq, (means_nan_aware _ ([] : List K)).2.2]
  simp

-- non-vacuity: first model without values, second model with values 1 and 3: means NaN and 2
example : getMeansSpec 2 2 [] (fun r j _ => if j = 0 then none else some ((2 * r + 1 : Nat) : Rat))
    = [none, some 2] := by decide +kernel

/-- the coded bootstrap path on the same input loses every mean (the rows to keep are read off the
    first model): the whole-row hypothesis of `means_boot_eq_spec_of_whole_rows` is needed -/
example : getMeansBoot 2 2 [] (fun r j _ => if j = 0 then none else some ((2 * r + 1 : Nat) : Rat))
    = [none, none] := by decide +kernel

/-- `get_means` of a fixed / cross-validation result (one row) is the specification -/
theorem means_fixed_eq_spec (m n : Nat) (E : Evals K) :
    getMeansFixed 1 m n E = getMeansSpec 1 m [n] E := by
  rw [means_fixed_single_row]
  simp [getMeansSpec, cell, reduceTrailing, List.range_one, nanMean_singleton]

theorem strictMean_filter_isSome {ι : Type} (l : List ι) (f : ι → Option K) :
    strictMean ((l.filter (fun r => (f r).isSome)).map f) = nanMean (l.map f) := by
  have aux : ∃ xs : List K, (l.filter (fun r => (f r).isSome)).map f = xs.map some
      ∧ present (l.map f) = xs := by
    induction l with
    | nil => exact ⟨[], by simp [present]⟩
    | cons a t ih =>
      obtain ⟨xs, h1, h2⟩ := ih
      cases hfa : f a with
      | none =>
        refine ⟨xs, by simp [List.filter_cons, hfa, h1], ?_⟩
        simpa [present, hfa] using h2
      | some v =>
        refine ⟨v :: xs, by simp [List.filter_cons, hfa, h1], ?_⟩
        simpa [present, hfa] using h2
  obtain ⟨xs, h1, h2⟩ := aux
  have hp : present (xs.map some) = xs := by simp [present, List.filterMap_map]
  rw [h1]
  cases xs with
  | nil => simp [strictMean, nanMean, h2]
  | cons v t =>
    have hp' : present (some v :: List.map some t) = v :: t := by simpa using hp
    simp [strictMean, nanMean, h2, hp']

/-- On evaluations whose failed samples are whole rows (`hrows`: in every sample all models have a
    value or none has) the coded bootstrap path of `get_means` is the specification. -/
theorem means_boot_eq_spec_of_whole_rows (nB m : Nat) (shape : List Nat) (E : Evals K)
    (hrows : ∀ r j, r < nB → j < m → (cell shape E r j).isSome = (cell shape E r 0).isSome) :
    getMeansBoot nB m shape E = getMeansSpec nB m shape E := by
  simp only [getMeansBoot, getMeansSpec]
  apply List.map_congr_left
  intro j hj
  rw [List.mem_range] at hj
  have hv : validRows nB shape E = (List.range nB).filter (fun r => (cell shape E r j).isSome) := by
    simp only [validRows]
    apply List.filter_congr
    intro r hr
    rw [List.mem_range] at hr
    exact (hrows r j hr hj).symm
  rw [hv]
  exact strictMean_filter_isSome (List.range nB) (fun r => cell shape E r j)

-- non-vacuity: two samples, the second failed as a whole row
example : ∀ r j, r < 2 → j < 2 →
    (cell [] (fun r _ _ => if r = 0 then some (1 : Rat) else none) r j).isSome
      = (cell [] (fun r _ _ => if r = 0 then some (1 : Rat) else none) r 0).isSome :=
  fun _ _ _ _ => rfl

end means

/-- standard errors are non-negative, and their square is the (non-negative) model variance -/
theorem sem_nonneg (v : ℝ) : 0 ≤ getSem v ∧ (0 ≤ v → getSem v ^ 2 = v) := by
  refine ⟨Real.sqrt_nonneg _, fun h => ?_⟩
  simp [getSem, semClamp, HasSqrt.sqrt, max_eq_left h, Real.sq_sqrt h]

/-! ## 7. permuting the models permutes every output -/

section perm
variable {K : Type} [Field K] [LinearOrder K] [IsStrictOrderedRing K]

/-- the covariance input of the permuted model list: model indices through `σ`, the two
    noise-ceiling rows (indices `≥ m`) stay where they are -/
def permIdx (m : Nat) (σ : Nat → Nat) (i : Nat) : Nat := if i < m then σ i else i

def permCov (m : Nat) (σ : Nat → Nat) (V : Nat → Nat → K) : Nat → Nat → K :=
  fun i j => V (permIdx m σ i) (permIdx m σ j)

def permEvals (σ : Nat → Nat) (E : Evals K) : Evals K := fun r j idx => E r (σ j) idx

/-- p-value of the pair `(i, j)` as a function of the ordered pair (the specification the
    coded `squareform` matrix is compared with) -/
def pPairSpec [HasSqrt K] (F : K → K) (eps : K) (e : Nat → K) (D : Nat → Nat → K) (i j : Nat) : K :=
  pTwo F (tStat eps (e i - e j) (D i j))

/-- Means, effects, per-model / pair / ceiling variances of the permuted input are the
    permuted outputs.  `σ` maps `{0..m-1}` into itself injectively; bootstrap samples fail as
    whole rows (`hrows`), which is how every evaluator writes them. -/
theorem model_perm_equivariant (nB m : Nat) (shape : List Nat) (E : Evals K) (σ : Nat → Nat)
    (hσ : ∀ i, i < m → σ i < m) (hinj : ∀ i j, i < m → j < m → σ i = σ j → i = j)
    (hm : 0 < m)
    (hrows : ∀ r j j', j < m → j' < m → (cell shape E r j).isSome = (cell shape E r j').isSome)
    (V V0 V1 V2 : Nat → Nat → K) (nc : Bool) (np nr : Option K) :
    -- evaluations
    (∀ j, effect nB shape (permEvals σ E) j = effect nB shape E (σ j)) ∧
    getMeansBoot nB m shape (permEvals σ E)
      = (List.range m).map (fun j => strictMean ((validRows nB shape E).map (fun r => cell shape E r (σ j)))) ∧
    -- 2-D variances
    (extract2 m nc (permCov m σ V) np nr).model
      = (List.range m).map (fun i => factor np nr * V (σ i) (σ i)) ∧
    (extract2 m nc (permCov m σ V) np nr).diff
      = (pairs m).map (fun p => factor np nr * specDiff V (σ p.1, σ p.2)) ∧
    (∀ a b, specDiff V (a, b) = specDiff V (b, a)) ∧
    (extract2 m nc (permCov m σ V) np nr).nc = (List.range m).map (fun i =>
      (factor np nr * rawNc m nc V (σ i) 0, factor np nr * rawNc m nc V (σ i) 1)) ∧
    -- 3-D variances
    (extract3 m nc (permCov m σ V0) (permCov m σ V1) (permCov m σ V2) nr np).model
      = (List.range m).map (fun i => dual nr np (V0 (σ i) (σ i)) (V1 (σ i) (σ i)) (V2 (σ i) (σ i))) ∧
    (extract3 m nc (permCov m σ V0) (permCov m σ V1) (permCov m σ V2) nr np).diff
      = (pairs m).map (fun p => dual nr np (specDiff V0 (σ p.1, σ p.2)) (specDiff V1 (σ p.1, σ p.2))
          (specDiff V2 (σ p.1, σ p.2))) := by
  have hcell : ∀ r j, cell shape (permEvals σ E) r j = cell shape E r (σ j) := fun r j => rfl
  have hpi : ∀ i, i < m → permIdx m σ i = σ i := fun i hi => by simp [permIdx, hi]
  have hpn : ∀ c, permIdx m σ (m + c) = m + c := fun c => by simp [permIdx]
  have hdiff : ∀ (W : Nat → Nat → K) p, p ∈ pairs m →
      rawDiff m (permCov m σ W) p = specDiff W (σ p.1, σ p.2) := by
    intro W p hp
    have h := mem_pairs hp
    rw [(diff_var_contrast m _ p hp).1]
    simp [specDiff, permCov, hpi p.1 (by omega), hpi p.2 h.2]
  have hnc : ∀ (W : Nat → Nat → K) i c, i < m →
      rawNc m nc (permCov m σ W) i c = rawNc m nc W (σ i) c := by
    intro W i c hi
    simp [rawNc, permCov, hpi i hi, hpn c]
  refine ⟨fun j => rfl, ?_, ?_, ?_, ?_, ?_, ?_, ?_⟩
  · have hv : validRows nB shape (permEvals σ E) = validRows nB shape E := by
      simp only [validRows, hcell]
      apply List.filter_congr
      intro r _
      exact hrows r (σ 0) 0 (hσ 0 hm) hm
    simp only [getMeansBoot, hv, hcell]
  · simp only [extract2, rawModel, correct_eq_factor]
    exact List.map_congr_left (fun i hi => by
      rw [List.mem_range] at hi; simp [permCov, hpi i hi])
  · simp only [extract2, correct_eq_factor]
    exact List.map_congr_left (fun p hp => by rw [hdiff V p hp])
  · intro a b; simp only [specDiff]; ring
  · simp only [extract2, correct_eq_factor]
    exact List.map_congr_left (fun i hi => by
      rw [List.mem_range] at hi; rw [hnc V i 0 hi, hnc V i 1 hi])
  · simp only [extract3, rawModel]
    exact List.map_congr_left (fun i hi => by
      rw [List.mem_range] at hi; simp [permCov, hpi i hi])
  · simp only [extract3]
    exact List.map_congr_left (fun p hp => by rw [hdiff V0 p hp, hdiff V1 p hp, hdiff V2 p hp])

/-- round 7: the specified means of the permuted model list are the permuted means, for ANY
    evaluations (no whole-row hypothesis): a model without values may sit first, in the middle or
    last. -/
theorem means_spec_perm_equivariant (nB m : Nat) (shape : List Nat) (E : Evals K) (σ : Nat → Nat)
    (hσ : ∀ i, i < m → σ i < m) (j : Nat) (hj : j < m) :
    (getMeansSpec nB m shape (permEvals σ E))[j]? = (getMeansSpec nB m shape E)[σ j]? := by
  simp only [getMeansSpec, List.getElem?_map, List.getElem?_range hj, List.getElem?_range (hσ j hj),
    Option.map_some, cell]
  rfl

end perm

/-- the coded pairwise matrix (`squareform` of the pair vector) is, off the diagonal, the
    p-value of the ordered pair; therefore for the permuted model list it is the permuted
    matrix: `P' i j = P (σ i) (σ j)`. -/
theorem pairwise_perm_equivariant (F : ℝ → ℝ) (eps : ℝ) (m : Nat) (e : Nat → ℝ)
    (D : Nat → Nat → ℝ) (hD : ∀ a b, D a b = D b a) (σ : Nat → Nat)
    (hσ : ∀ i, i < m → σ i < m) (hinj : ∀ i j, i < m → j < m → σ i = σ j → i = j)
    (i j : Nat) (hi : i < m) (hj : j < m) (hne : i ≠ j) :
    pPairT F eps m e ((pairs m).map (fun p => D p.1 p.2)) i j = pPairSpec F eps e D i j ∧
    pPairT F eps m (fun k => e (σ k)) ((pairs m).map (fun p => D (σ p.1) (σ p.2))) i j
      = pPairT F eps m e ((pairs m).map (fun p => D p.1 p.2)) (σ i) (σ j) := by
  -- the coded matrix against the specification, for any effects / symmetric pair variances
  have key : ∀ (e' : Nat → ℝ) (D' : Nat → Nat → ℝ), (∀ a b, D' a b = D' b a) →
      ∀ a b, a < m → b < m → a ≠ b →
      pPairT F eps m e' ((pairs m).map (fun p => D' p.1 p.2)) a b = pPairSpec F eps e' D' a b := by
    intro e' D' hD' a b ha hb hab
    have up : ∀ a b, a < b → b < m →
        vecToMat m 0 0 (tPairVec eps m e' ((pairs m).map (fun p => D' p.1 p.2))) a b
          = tStat eps (e' a - e' b) (D' a b) := by
      intro a b hab hb
      have h1 : ¬ a = b := by omega
      simp only [vecToMat, h1, hab, if_true, if_false, tPairVec]
      rw [List.getD_eq_getElem?_getD, List.getElem?_zipWith, List.getElem?_map,
        pairs_getElem?_triIdx hab hb]
      simp only [Option.map_some, Option.getD_some]
      rw [contrast_dot m e' (a, b) (by simp; omega) (by simpa using hb) (by simp; omega), tStatPair_def]
    rcases Nat.lt_or_ge a b with h | h
    · simp only [pPairT, tPairMat, pPairSpec, up a b h hb]
    · have h' : b < a := by omega
      simp only [pPairT, tPairMat, pPairSpec]
      rw [vecToMat_symm, up b a h' ha, hD' a b]
      have : tStat eps (e' a - e' b) (D' b a) = - tStat eps (e' b - e' a) (D' b a) := by
        simp only [tStat_def]; ring
      rw [this]
      simp only [pTwo_def, absG, neg_neg, max_comm]
  have hσne : σ i ≠ σ j := fun h => hne (hinj i j hi hj h)
  refine ⟨key e D hD i j hi hj hne, ?_⟩
  rw [key (fun k => e (σ k)) (fun a b => D (σ a) (σ b)) (fun a b => hD _ _) i j hi hj hne,
    key e D hD (σ i) (σ j) (hσ i hi) (hσ j hj) hσne]
  rfl

/-! ## 8. rank-sum tests (partial: the Wilcoxon p-value itself is external) -/

/-- full statement (not proved here): with `w` the two-sided Wilcoxon signed-rank p-value, the
    matrix lies in `[0,1]`, is symmetric with unit diagonal and is permuted with the models. -/
def ranksum_full : Prop :=
  ∀ (w : List (Option ℝ) → List (Option ℝ) → ℝ), (∀ a b, 0 ≤ w a b ∧ w a b ≤ 1) →
    (∀ a b, w a b = w b a) → ∀ (nB n : Nat) (E : Evals ℝ) (σ : Nat → Nat) (i j : Nat),
      0 ≤ ranksumPairMat w nB n E i j ∧ ranksumPairMat w nB n E i j ≤ 1 ∧
      ranksumPairMat w nB n E i j = ranksumPairMat w nB n E j i ∧
      (σ i ≠ σ j → ranksumPairMat w nB n (permEvals σ E) i j = ranksumPairMat w nB n E (σ i) (σ j))

/-- proved part: the structure around the external test — symmetric, unit diagonal, range
    inherited from `w`.  (What `w` computes is the contract of `scipy.stats.wilcoxon`.) -/
theorem ranksum_mat_symm_diag_partial (w : List (Option ℝ) → List (Option ℝ) → ℝ)
    (hw : ∀ a b, 0 ≤ w a b ∧ w a b ≤ 1) (nB n : Nat) (E : Evals ℝ) (i j : Nat) :
    ranksumPairMat w nB n E i j = ranksumPairMat w nB n E j i ∧
    ranksumPairMat w nB n E i i = 1 ∧
    0 ≤ ranksumPairMat w nB n E i j ∧ ranksumPairMat w nB n E i j ≤ 1 := by
  refine ⟨?_, by simp [ranksumPairMat], ?_, ?_⟩
  · unfold ranksumPairMat
    rcases Nat.lt_trichotomy i j with h | h | h
    · have h1 : ¬ i = j := by omega
      have h2 : ¬ j = i := by omega
      have h3 : ¬ j < i := by omega
      simp [h1, h2, h3, h]
    · subst h; rfl
    · have h1 : ¬ i = j := by omega
      have h2 : ¬ j = i := by omega
      have h3 : ¬ i < j := by omega
      simp [h1, h2, h3, h]
  · unfold ranksumPairMat
    split
    · exact zero_le_one
    · split <;> exact (hw _ _).1
  · unfold ranksumPairMat
    split
    · exact le_refl _
    · split <;> exact (hw _ _).2

/-! ## 9. the Wilcoxon signed-rank statistic behind the rank-sum tests

  `ranksum_pair_test` / `ranksum_value_test` call `scipy.stats.wilcoxon` on the per-subject
  values.  The statistic is modelled (`Rsa.Stats.sr*`: differences, zero differences discarded,
  tie-averaged ranks of `|d|`, `W⁺`, `W⁻`, `min`); only the null distribution — the map from
  `(W⁺, W⁻, ranks)` to the p-value — stays a contract `IsSignedRankNull`. -/

section signedrank
variable {K : Type} [Field K] [LinearOrder K] [IsStrictOrderedRing K]

/-- contract of the external null distribution: a function of the two rank sums and the multiset
    of ranks, blind to which of the two sums is called `W⁺` (two-sided test), values in `[0,1]` -/
structure IsSignedRankNull (g : K → K → List K → K) : Prop where
  swap : ∀ a b r, g a b r = g b a r
  perm : ∀ a b r r', r.Perm r' → g a b r = g a b r'
  nonneg : ∀ a b r, 0 ≤ g a b r
  le_one : ∀ a b r, g a b r ≤ 1

/-- exchanging the two samples exchanges `W⁺` and `W⁻`, keeps the ranks and hence the two-sided
    statistic `min W⁺ W⁻`. -/
theorem signedrank_swap (x y : List K) :
    srPlus (srDiffs y x) = srMinus (srDiffs x y) ∧ srMinus (srDiffs y x) = srPlus (srDiffs x y) ∧
    srRanks (srDiffs y x) = srRanks (srDiffs x y) ∧ srStat (srDiffs y x) = srStat (srDiffs x y) := by
  rw [srDiffs_swap x y]
  refine ⟨srPlus_map_neg _, srMinus_map_neg _, srRanks_map_neg _, ?_⟩
  simp only [srStat, srPlus_map_neg, srMinus_map_neg, min_comm]

/-- `W⁺`, `W⁻`, the statistic and the multiset of ranks do not depend on the order of the
    subjects (any permutation of the list of pairs). -/
theorem signedrank_subject_perm (x y x' y' : List K) (h : (x.zip y).Perm (x'.zip y')) :
    srPlus (srDiffs x y) = srPlus (srDiffs x' y') ∧ srMinus (srDiffs x y) = srMinus (srDiffs x' y') ∧
    srStat (srDiffs x y) = srStat (srDiffs x' y') ∧
    (srRanks (srDiffs x y)).Perm (srRanks (srDiffs x' y')) := by
  have e : ∀ a b : List K, srDiffs a b = (a.zip b).map (fun p => p.1 - p.2) := by
    intro a b
    simp only [srDiffs]
    rw [List.map_zip_eq_zipWith]
    rfl
  have hd : (srDiffs x y).Perm (srDiffs x' y') := by
    rw [e, e]; exact h.map _
  refine ⟨srPlus_perm hd, srMinus_perm hd, ?_, srRanks_perm hd⟩
  simp only [srStat, srPlus_perm hd, srMinus_perm hd]

/-- the same for the one-sample test against a fixed value -/
theorem signedrank_value_perm (x x' : List K) (c : K) (h : x.Perm x') :
    srPlus (srDiffsValue x c) = srPlus (srDiffsValue x' c) ∧
    srMinus (srDiffsValue x c) = srMinus (srDiffsValue x' c) ∧
    (srRanks (srDiffsValue x c)).Perm (srRanks (srDiffsValue x' c)) := by
  have hd : (srDiffsValue x c).Perm (srDiffsValue x' c) := h.map _
  exact ⟨srPlus_perm hd, srMinus_perm hd, srRanks_perm hd⟩

/-- zero differences are discarded: appending a tied pair of observations changes nothing -/
theorem signedrank_zero_discarded (d : List K) :
    srPlus (0 :: d) = srPlus d ∧ srMinus (0 :: d) = srMinus d ∧ srRanks (0 :: d) = srRanks d := by
  have h : srNonzero ((0 : K) :: d) = srNonzero d := by simp [srNonzero]
  have hr : srRank ((0 : K) :: d) = srRank d := by
    funext v; simp only [srRank, srAbs, h]
  simp only [srPlus, srMinus, srRanks, h, hr, and_self]

-- non-vacuity: a concrete sample with a tie and a zero difference: d = [1, -1, 0, 2]
example : srPlus (srDiffs [(3 : ℚ), 1, 2, 5] [2, 2, 2, 3]) = 9 / 2 ∧
    srMinus (srDiffs [(3 : ℚ), 1, 2, 5] [2, 2, 2, 3]) = 3 / 2 ∧
    srRanks (srDiffs [(3 : ℚ), 1, 2, 5] [2, 2, 2, 3]) = [3 / 2, 3 / 2, 3] := by
  decide +kernel

/-- the rank-sum pair test with the modelled statistic: for every null distribution satisfying
    the contract the p-value does not depend on the order of the two models … -/
theorem wilcoxon_pair_symm (g : K → K → List K → K) (hg : IsSignedRankNull g)
    (a b : List (Option K)) : wilcoxonPair g a b = wilcoxonPair g b a := by
  unfold wilcoxonPair
  cases ha : allPresent a <;> cases hb : allPresent b <;> simp only []
  rename_i x y
  obtain ⟨h1, h2, h3, _⟩ := signedrank_swap x y
  simp only [srP, h1, h2, h3]
  rw [hg.swap]

/-- … nor on the order of the subjects, and lies in `[0, 1]` whenever it is defined. -/
theorem wilcoxon_pair_subject_perm (g : K → K → List K → K) (hg : IsSignedRankNull g)
    (x y x' y' : List K) (h : (x.zip y).Perm (x'.zip y')) :
    srP g (srDiffs x y) = srP g (srDiffs x' y') ∧
    0 ≤ srP g (srDiffs x y) ∧ srP g (srDiffs x y) ≤ 1 := by
  obtain ⟨h1, h2, _, h4⟩ := signedrank_subject_perm x y x' y' h
  refine ⟨?_, hg.nonneg _ _ _, hg.le_one _ _ _⟩
  simp only [srP, h1, h2]
  exact hg.perm _ _ _ _ h4

example : IsSignedRankNull (fun (a b : ℚ) (r : List ℚ) => min 1 (max 0 (min a b / (1 + r.sum)))) where
  swap := fun a b r => by rw [min_comm a b]
  perm := fun a b r r' h => by rw [h.sum_eq]
  nonneg := fun a b r => le_min zero_le_one (le_max_left _ _)
  le_one := fun a b r => min_le_left _ _

/-- the full rank-sum matrix statement (`ranksum_full` with the modelled statistic in place of an
    arbitrary `w`): defined entries in `[0,1]`, symmetric, unit diagonal, and permuting the models
    permutes the matrix. -/
theorem ranksum_mat_modelled (g : K → K → List K → K) (hg : IsSignedRankNull g)
    (nB n : Nat) (E : Evals K) (σ : Nat → Nat) (i j : Nat) :
    ranksumPairMatSR g nB n E i j = ranksumPairMatSR g nB n E j i ∧
    ranksumPairMatSR g nB n E i i = some 1 ∧
    (∀ p, ranksumPairMatSR g nB n E i j = some p → 0 ≤ p ∧ p ≤ 1) ∧
    (σ i ≠ σ j → i ≠ j →
      ranksumPairMatSR g nB n (fun r k idx => E r (σ k) idx) i j = ranksumPairMatSR g nB n E (σ i) (σ j)) ∧
    (∀ c, ranksumValueSR g nB n (fun r k idx => E r (σ k) idx) c i = ranksumValueSR g nB n E c (σ i)) := by
  have hdata : ∀ k, ranksumData nB n (fun r k idx => E r (σ k) idx) k = ranksumData nB n E (σ k) :=
    fun k => rfl
  have hsymm : ∀ (E' : Evals K) a b, a < b →
      ranksumPairMatSR g nB n E' b a = ranksumPairMatSR g nB n E' a b := by
    intro E' a b hab
    have h1 : ¬ b = a := by omega
    have h2 : ¬ b < a := by omega
    have h3 : ¬ a = b := by omega
    simp [ranksumPairMatSR, h1, h2, h3, hab]
  have hval : ∀ (E' : Evals K) a b, a ≠ b → ranksumPairMatSR g nB n E' a b
      = wilcoxonPair g (ranksumData nB n E' a) (ranksumData nB n E' b) := by
    intro E' a b hab
    rcases Nat.lt_or_ge a b with h | h
    · simp [ranksumPairMatSR, hab, h]
    · have h' : b < a := by omega
      have h2 : ¬ a < b := by omega
      simp only [ranksumPairMatSR, hab, h2, if_false]
      exact wilcoxon_pair_symm g hg _ _
  refine ⟨?_, by simp [ranksumPairMatSR], ?_, ?_, fun c => rfl⟩
  · rcases Nat.lt_trichotomy i j with h | h | h
    · exact (hsymm E i j h).symm
    · subst h; rfl
    · exact hsymm E j i h
  · intro p hp
    by_cases hij : i = j
    · subst hij
      simp only [ranksumPairMatSR, if_true, Option.some.injEq] at hp
      subst hp
      exact ⟨zero_le_one, le_refl _⟩
    · rw [hval E i j hij] at hp
      unfold wilcoxonPair at hp
      split at hp
      · simp only [Option.some.injEq] at hp
        subst hp
        exact ⟨hg.nonneg _ _ _, hg.le_one _ _ _⟩
      · simp at hp
  · intro hσ hij
    rw [hval _ i j hij, hval E (σ i) (σ j) hσ, hdata, hdata]

end signedrank

/-- over ℝ: the two rank sums add up to `n (n + 1) / 2`, `n` the number of non-zero differences;
    both are non-negative, so the statistic lies in `[0, n (n + 1) / 4]`. -/
theorem signedrank_total (d : List ℝ) :
    srPlus d + srMinus d = ((srNonzero d).length : ℝ) * ((srNonzero d).length + 1) / 2 ∧
    0 ≤ srStat d ∧ srStat d ≤ ((srNonzero d).length : ℝ) * ((srNonzero d).length + 1) / 4 := by
  have htot := srPlus_add_srMinus_real d
  have hp : 0 ≤ srPlus d := by
    unfold srPlus
    rw [fsum_eq_sum]
    apply List.sum_nonneg
    intro z hz
    obtain ⟨v, _, rfl⟩ := List.mem_map.mp hz
    split
    · exact srPlus_nonneg_aux _ _
    · exact le_refl _
  have hm : 0 ≤ srMinus d := by
    unfold srMinus
    rw [fsum_eq_sum]
    apply List.sum_nonneg
    intro z hz
    obtain ⟨v, _, rfl⟩ := List.mem_map.mp hz
    split
    · exact srPlus_nonneg_aux _ _
    · exact le_refl _
  refine ⟨htot, le_min hp hm, ?_⟩
  unfold srStat
  rcases le_total (srPlus d) (srMinus d) with h | h
  · rw [min_eq_left h]; linarith
  · rw [min_eq_right h]; linarith

example : srPlus ([1, -1, 0, 2] : List ℚ) + srMinus ([1, -1, 0, 2] : List ℚ) = 3 * (3 + 1) / 2 := by
  decide +kernel

/-! ## 10. confidence intervals, error bars, bootstrap leaves -/

section ci
variable {K : Type} [Field K] [LinearOrder K] [IsStrictOrderedRing K]

/-- the tail cut off on each side: `(1 - ci_percent) / 2`, in `[0, 1/2]` for a level in `[0, 1]`;
    `Result.get_errorbars('ci')` defaults to 95 %, `'ci<pct>'` means `pct / 100`, and the plotting
    helper `util.get_errorbars` cuts the same tail for the same level. -/
theorem ci_prop_cut (c pct : K) :
    ciPropCut c = (1 - c) / 2 ∧ (0 ≤ c → c ≤ 1 → 0 ≤ ciPropCut c ∧ ciPropCut c ≤ 1 / 2) ∧
    (ebCiDefault : K) = 95 / 100 ∧ ebCiPercent pct = pct / 100 ∧
    utilPropCut pct = ciPropCut (ebCiPercent pct) ∧
    utilPropCut (utilCiDefault : K) = ciPropCut ebCiDefault := by
  refine ⟨by simp [ciPropCut], fun h0 h1 => ?_, by norm_num [ebCiDefault], by simp [ebCiPercent],
    by simp [utilPropCut, ciPropCut, ebCiPercent], by norm_num [utilPropCut, ciPropCut, ebCiDefault, utilCiDefault]⟩
  simp only [ciPropCut, Nat.cast_one, Nat.cast_ofNat]
  constructor
  · apply div_nonneg <;> linarith
  · linarith

/-- `Result.get_ci` (t-test): with `q` the Student-t quantile at the lower tail (`q ≤ 0`, the
    contract of `tdist.ppf` at a probability `≤ 1/2`) and a non-negative standard error the two
    limits are ordered around the mean and symmetric, and `Result.get_errorbars('ci')` reports the
    same non-negative half-width `sem · |q|` for both sides. -/
theorem result_ci_ordered_symmetric (mean sem q : K) (hs : 0 ≤ sem) (hq : q ≤ 0) :
    (resultCi mean sem q).1 ≤ mean ∧ mean ≤ (resultCi mean sem q).2 ∧
    mean - (resultCi mean sem q).1 = (resultCi mean sem q).2 - mean ∧
    resultEbCi mean sem q = (sem * |q|, sem * |q|) ∧ 0 ≤ (resultEbCi mean sem q).1 := by
  have h : sem * q ≤ 0 := mul_nonpos_of_nonneg_of_nonpos hs hq
  have ha : |q| = -q := abs_of_nonpos hq
  simp only [resultCi, resultEbCi, ciLow, ciHigh, ebLow, ebHigh, ha]
  refine ⟨by linarith, by linarith, by ring, ?_, by nlinarith⟩
  ext <;> simp

example : (0 : ℚ) ≤ 3 ∧ (-2 : ℚ) ≤ 0 ∧ resultCi (1 : ℚ) 3 (-2) = (-5, 7) := by
  refine ⟨by norm_num, by norm_num, ?_⟩
  simp [resultCi, ciLow, ciHigh]; norm_num

/-- the four places that compute a one-sided bootstrap p-value (`all_tests` and `zero_tests` /
    `nc_tests`, against zero and against the ceiling) use the same formula `min((count+1)/N, 1)`;
    the pair test's proportion is `lt / (N - eq)` (ties leave the denominator). -/
theorem boot_leaves_agree (c n lt eq : K) :
    bootZeroAll c n = min ((c + 1) / n) 1 ∧ bootNcAll c n = min ((c + 1) / n) 1 ∧
    bootZeroSingle c n = min ((c + 1) / n) 1 ∧ bootNcSingle c n = min ((c + 1) / n) 1 ∧
    bootProp lt eq n = lt / (n - eq) := by
  simp [bootZeroAll, bootNcAll, bootZeroSingle, bootNcSingle, bootProp]

/-- bootstrap tests against zero / the ceiling on evaluation arrays of any dimension
    (cross-validated results): one p-value per model in `[0, 1]`, permuted with the models. -/
theorem bootstrap_nd_one_sided (leb : K → K → Bool) (nB : Nat) (hN : 0 < nB) (shape ncShape : List Nat)
    (E : Evals K) (nc : Nat → List Nat → Option K) (σ : Nat → Nat) (j : Nat) :
    (0 ≤ bootZeroNd leb nB shape E j ∧ bootZeroNd leb nB shape E j ≤ 1) ∧
    (0 ≤ bootNcNd leb nB shape ncShape E nc j ∧ bootNcNd leb nB shape ncShape E nc j ≤ 1) ∧
    bootZeroNd leb nB shape (fun r k idx => E r (σ k) idx) j = bootZeroNd leb nB shape E (σ j) ∧
    bootNcNd leb nB shape ncShape (fun r k idx => E r (σ k) idx) nc j
      = bootNcNd leb nB shape ncShape E nc (σ j) :=
  ⟨bootstrap_one_sided_range leb nB hN _ _, bootstrap_one_sided_range leb nB hN _ _, rfl, rfl⟩

end ci

/-- the plotting helper `util.inference_util.get_errorbars`: `'sem'` gives the standard error for
    both limits; `'ci'` (t-test) gives, for both limits, a number whose magnitude is the
    half-width `sem · |q|` that `Result.get_errorbars('ci')` reports.  (As coded on the pinned tree
    both limits carry the sign of `q`, i.e. are negative — see the notes; the statement is about
    the magnitude so that it holds for the coded and for the sign-repaired helper.) -/
theorem util_errorbars (v q mean : ℝ) :
    utilEbSem v = (getSem v, getSem v) ∧ 0 ≤ (utilEbSem v).1 ∧
    |(utilEbCi v q).1| = getSem v * |q| ∧ |(utilEbCi v q).2| = getSem v * |q| ∧
    (q ≤ 0 → |(utilEbCi v q).1| = (resultEbCi mean (getSem v) q).1) := by
  have hs : 0 ≤ Real.sqrt (max v 0) := Real.sqrt_nonneg _
  have h1 : |(utilEbCi v q).1| = getSem v * |q| := by
    simp [utilEbCi, utilEbLow, utilStdClamp, getSem, semClamp, HasSqrt.sqrt, abs_mul, abs_neg,
      neg_mul, abs_of_nonneg hs]
  have h2 : |(utilEbCi v q).2| = getSem v * |q| := by
    simp [utilEbCi, utilEbHigh, utilStdClamp, getSem, semClamp, HasSqrt.sqrt, abs_mul, abs_neg,
      neg_mul, abs_of_nonneg hs]
  refine ⟨by simp [utilEbSem, getSem, utilSemClampLow, utilSemClampHigh, semClamp],
    by simp [utilEbSem, HasSqrt.sqrt, Real.sqrt_nonneg], h1, h2, fun hq => ?_⟩
  rw [h1, (result_ci_ordered_symmetric mean (getSem v) q (sem_nonneg v).1 hq).2.2.2.1]

/-! ## 12. (round 4) sessions: one `Result` queried repeatedly through every public route -/

section sessions

/-- the in-place write counts read off the current source are zero: no statement of the tests, of
    `extract_variances`, of the error-bar helper, of any `Result` accessor, of `Result.__init__`, `to_dict`
    or `result_from_dict` stores into an array that may alias the caller's data (evaluations, noise ceiling,
    covariance input, the object's fields) — hence every route has write count 0 -/
theorem input_write_leaves (r : Route) :
    testInputWrites = 0 ∧ extractInputWrites = 0 ∧ errorbarInputWrites = 0 ∧ resultInputWrites = 0 ∧
    writesOf r = 0 := by
  refine ⟨rfl, rfl, rfl, rfl, ?_⟩
  cases r <;> rfl

/-- no value can survive a call outside the arguments: the anchored modules (and the modules they take
    callees from) have no memoising decorator, no `global`, no module- or class-level state, no mutable
    default, no store on a function object, and class `Result` stores / reads no attribute beyond its
    documented fields -/
theorem no_hidden_state_leaves :
    moduleStateCells = 0 ∧ resultExtraAttrs = 0 ∧ stateCells = 0 :=
  ⟨rfl, rfl, rfl⟩

/-- as coded, a call returns the stand-alone value on the content it finds and leaves content and caches
    exactly as they were — whatever the route, its arguments, and whatever is in the caches -/
theorem call_stateless {α ρ : Type} [Add α] [One α] (pure : Call → Content α → ρ) (c : Call)
    (s : SState α ρ) :
    callResult pure c s = pure c s.content ∧ callEffect pure c s = s := by
  have hw := (input_write_leaves c.route).2.2.2.2
  have hc := no_hidden_state_leaves.2.2
  unfold callResult callEffect resultW effW
  rw [hw, hc]
  simp

/-- **sessions**: when one `Result` is queried by any list of calls (any routes, any test types, levels,
    covariance kinds, any order, starting from any cache content), every call returns the value of the
    stand-alone call on the *original* content, and content and caches are unchanged after every call.
    Hence every statement of this file about a single call — classical t statistics of the fixed
    evaluation, contrasts of the stored covariance, range / symmetry / unit diagonal / monotonicity of the
    p-values, NaN-aware means, non-negative SEM, permutation equivariance — holds for every call of a
    session, whatever was asked of the object before. -/
theorem session_calls_independent {α ρ : Type} [Add α] [One α] (pure : Call → Content α → ρ)
    (calls : List Call) (s : SState α ρ) :
    runSession (callEffect pure) (callResult pure) calls s =
      calls.map (fun c => (pure c s.content, s)) := by
  induction calls with
  | nil => rfl
  | cons c cs ih =>
    simp only [runSession, List.map_cons, (call_stateless pure c s).1, (call_stateless pure c s).2]
    rw [ih]

/-- the `k`-th call of a session in particular -/
theorem session_call_at {α ρ : Type} [Add α] [One α] (pure : Call → Content α → ρ)
    (calls : List Call) (s : SState α ρ) (k : ℕ) (hk : k < calls.length) :
    (runSession (callEffect pure) (callResult pure) calls s)[k]? = some (pure calls[k] s.content, s) := by
  rw [session_calls_independent]
  simp [hk]

/-- the order of the queries is irrelevant: a reordered session returns the same answer for the same call -/
theorem session_order_irrelevant {α ρ : Type} [Add α] [One α] (pure : Call → Content α → ρ)
    (calls calls' : List Call) (h : calls.Perm calls') (s : SState α ρ) :
    (calls.zip ((runSession (callEffect pure) (callResult pure) calls s).map Prod.fst)).Perm
      (calls'.zip ((runSession (callEffect pure) (callResult pure) calls' s).map Prod.fst)) := by
  have hz : ∀ l : List Call, l.zip ((runSession (callEffect pure) (callResult pure) l s).map Prod.fst)
      = l.map (fun c => (c, pure c s.content)) := by
    intro l
    rw [session_calls_independent, List.map_map]
    induction l with
    | nil => rfl
    | cons a t ih => simp [List.zip_cons_cons, ih]
  rw [hz, hz]
  exact h.map _

/-- a concrete instance tying the sessions to the statistics: whatever was asked before, every `get_sem`
    of a session returns the square roots of the clamped stored model variances — non-negative, and
    squaring to the variance where that is non-negative (`sem_nonneg`) -/
theorem session_sem_nonneg (calls : List Call) (s : SState ℝ (List ℝ)) (k : ℕ) (hk : k < calls.length) :
    let pure : Call → Content ℝ → List ℝ := fun _ ct => ct.vars.map getSem
    ∃ st, (runSession (callEffect pure) (callResult pure) calls s)[k]? = some (s.content.vars.map getSem, st)
      ∧ st.content = s.content ∧ ∀ x ∈ s.content.vars.map getSem, 0 ≤ x := by
  intro pure
  refine ⟨s, session_call_at pure calls s k hk, rfl, ?_⟩
  intro x hx
  obtain ⟨v, _, rfl⟩ := List.mem_map.mp hx
  exact (sem_nonneg v).1

/-- non-vacuity: a two-call session on a concrete content -/
example :
    (runSession (callEffect (fun c ct => (c.arg, ct.evals.length)))
      (callResult (fun c ct => (c.arg, ct.evals.length)))
      [⟨.testNoise, 1, 3⟩, ⟨.getMeans, 0, 3⟩]
      (⟨⟨[some (2 : ℤ), none], [1], [some 0]⟩, []⟩ : SState ℤ (ℕ × ℕ))).map Prod.fst = [(1, 2), (0, 2)] := by
  rw [session_calls_independent]; rfl

/-- why the write counts matter (the hypothesis of `call_stateless` is not decoration): with a single
    in-place statement on the path of the first call, the second call of the session sees other
    evaluations than the ones the object was built with (the shape of an in-place centring of
    `result.evaluations` by the bootstrap test against the ceiling) -/
theorem inplace_write_breaks_later_call :
    let pure : Call → Content ℤ → List (Option ℤ) := fun _ ct => ct.evals
    let s : SState ℤ (List (Option ℤ)) := ⟨⟨[some 2, none, some 5], [1], [some 0]⟩, []⟩
    (runSession (effW 1 0 pure) (resultW 0 pure) [⟨.testNoise, 1, 3⟩, ⟨.getMeans, 0, 3⟩] s).map Prod.fst
      = [[some 2, none, some 5], [some 3, none, some 6]] := by
  decide

/-- why the state cells matter: with one memo cell and a key that is coarser than the argument (here: the
    model count `3` for two different confidence levels `95`, `90`), the second call is answered with the
    value of the first -/
theorem coarse_memo_goes_stale :
    let pure : Call → Content ℤ → ℕ := fun c _ => c.arg
    let s : SState ℤ ℕ := ⟨⟨[some 2], [1], [some 0]⟩, []⟩
    (runSession (effW 0 1 pure) (resultW 1 pure) [⟨.getCi, 95, 3⟩, ⟨.getCi, 90, 3⟩] s).map Prod.fst
      = [95, 95] := by
  decide

end sessions

end Rsa.Props.C06
