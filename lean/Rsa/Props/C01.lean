/-
  Property C01 — RDM estimators equal their formula on condition means, correctly labelled.
  Property theorems only; helper lemmas live in Rsa/Lemmas/C01*.lean.

  `K` is any linearly ordered field (ℚ, on which the driver executes the euclidean /
  mahalanobis model, is one; ℝ with `Real.sqrt` and `Real.log` is another).  `sqrt` and `lg`
  are arbitrary functions; correlation needs `IsSqrt sqrt`, poisson needs nothing of `lg`.
-/
import Mathlib.Analysis.Real.Sqrt
import Mathlib.Analysis.SpecialFunctions.Log.Basic
import Mathlib.Data.String.Basic
import Mathlib.Algebra.Order.Field.Rat
import Rsa.Lemmas.C01Label
import Rsa.Lemmas.C01Reorder
import Rsa.Lemmas.C01Calc
import Rsa.Lemmas.C01Scale
import Rsa.Lemmas.C01Build
import Rsa.Lemmas.C01Top

set_option linter.unusedSectionVars false
set_option linter.unusedVariables false
set_option linter.unusedSimpArgs false

namespace Rsa.Props.C01

open Rsa Rsa.Calc

variable {K : Type} [Field K] [LinearOrder K] [IsStrictOrderedRing K]
variable {L : Type} [DecidableEq L] {D : Type} [DecidableEq D]

/-! ### labels -/

/-- `get_unique_inverse`: no duplicates, same members, order of first occurrence, and
    `unique[inverse[k]] = l[k]` for every position `k`. -/
theorem uniqueFirst_spec (l : List L) :
    (uniqueFirst l).Nodup ∧ (∀ x, x ∈ uniqueFirst l ↔ x ∈ l) ∧
    (uniqueFirst l).Pairwise (fun a b => l.idxOf a < l.idxOf b) ∧
    (inverse l).length = l.length ∧
    ∀ (k : Nat) (x : L), l[k]? = some x →
      ∃ i : Nat, (inverse l)[k]? = some i ∧ (uniqueFirst l)[i]? = some x := by
  refine ⟨nodup_uniqueFirst l, fun x => mem_uniqueFirst, uniqueFirst_firstOrder l,
    inverse_length l, ?_⟩
  intro k x hk
  obtain ⟨hlt, rfl⟩ := List.getElem?_eq_some_iff.mp hk
  obtain ⟨h', e⟩ := inverse_spec l k hlt
  refine ⟨(inverse l)[k]'(by simpa [inverse_length] using hlt), ?_, ?_⟩
  · exact List.getElem?_eq_getElem _
  · rw [List.getElem?_eq_getElem h', e]

/-! ### condition means -/

/-- `average_dataset_by` (mask on the inverse index) returns, per unique label in order of
    first appearance, the mean of the rows carrying that label. -/
theorem condMeans_eq_meanOf (obs : List (L × Row K)) :
    condMeans obs = (uniqueFirst (obs.map (fun p => p.1))).map (meanOf obs) :=
  condMeans_eq obs

/-- the mean pattern of every condition depends only on the multiset of
    (label, observation) pairs: any reordering of the observations leaves it unchanged. -/
theorem meanOf_perm {obs₁ obs₂ : List (L × Row K)} (h : obs₁.Perm obs₂) (u : L) :
    meanOf obs₁ u = meanOf obs₂ u :=
  Rsa.Calc.meanOf_perm h u

/-! ### algorithm = formula, for all numbers of conditions and channels -/

/-- Gram-matrix form of the Euclidean estimator = squared distance / number of channels -/
theorem euclid_algo_eq_spec (P : Nat) (M : List (Row K)) :
    (extractTriu (euclidMat P M)).map (fun x => Rsa.Gen.C01.euclidNorm x P) =
      (pairsOf M).map (fun p => euclidSpec P p.1 p.2) := by
  unfold euclidMat
  rw [extractTriu_map, List.map_map]
  apply List.map_congr_left
  intro p _
  simp only [Function.comp_apply, Rsa.Gen.C01.euclidEntry, Rsa.Gen.C01.euclidNorm]
  exact euclid_entry P p.1 p.2

/-- kernel form of the Mahalanobis estimator = `(a-b)ᵀ N (a-b) / P`, for symmetric `N` -/
theorem mahal_algo_eq_spec (P : Nat) (N : Nat → Nat → K) (hN : ∀ i j, N i j = N j i)
    (M : List (Row K)) :
    (extractTriu (mahalMat P N M)).map (fun x => Rsa.Gen.C01.mahalNorm x P) =
      (pairsOf M).map (fun p => mahalSpec P N p.1 p.2) := by
  unfold mahalMat
  rw [extractTriu_map, List.map_map]
  apply List.map_congr_left
  intro p _
  simp only [Function.comp_apply, Rsa.Gen.C01.mahalEntry, Rsa.Gen.C01.mahalNorm]
  exact mahal_entry P N hN p.1 p.2

/-- kernel form of the Poisson estimator = `Σ (λa-λb)(lg λa - lg λb) / P`, for every `lg` -/
theorem poisson_algo_eq_spec (P : Nat) (lg : K → K) (M : List (Row K)) :
    (extractTriu (poissonMat P lg M)).map (fun x => Rsa.Gen.C01.poissonNorm x P) =
      (pairsOf M).map (fun p => poissonSpec P lg p.1 p.2) := by
  unfold poissonMat
  rw [extractTriu_map, List.map_map]
  apply List.map_congr_left
  intro p _
  simp only [Function.comp_apply, Rsa.Gen.C01.poissonEntry, Rsa.Gen.C01.poissonNorm]
  exact poisson_entry P lg p.1 p.2

/-- centre / normalise / `1 - M Mᵀ` = `1 -` Pearson correlation -/
theorem corr_algo_eq_spec (P : Nat) (hP : 0 < P) (sqrt : K → K) (hs : IsSqrt sqrt)
    (M : List (Row K)) :
    extractTriu (corrMat P sqrt M) = (pairsOf M).map (fun p => corrSpec P sqrt p.1 p.2) := by
  unfold corrMat
  rw [extractTriu_map, pairsOf_map, List.map_map]
  apply List.map_congr_left
  intro p _
  simp only [Function.comp_apply, Rsa.Gen.C01.corrEntry, Nat.cast_one]
  exact corr_entry P hP sqrt hs p.1 p.2

/-- the regularisation leaf translated from the source is `(m + λ₀ w)/(1 + w)` -/
theorem poissonPrior_eq_rateSpec (pl pw : K) (x : Row K) : rate pl pw x = rateSpec pl pw x := by
  funext c
  simp [rate, rateSpec, Rsa.Gen.C01.poissonPrior]

/-- what each method needs of its options -/
def MethodOK (P : Nat) (sqrt : K → K) : Method K → Prop
  | .mahalanobis (some N) => ∀ i j, N i j = N j i
  | .correlation => 0 < P ∧ IsSqrt sqrt
  | _ => True

/-- every estimator as coded (incl. `remove_mean`, priors, `noise=None`) = its formula -/
theorem distVec_eq_spec (P : Nat) (sqrt lg : K → K) (m : Method K) (hm : MethodOK P sqrt m)
    (rm : Bool) (M : List (Row K)) :
    distVec P sqrt lg m rm M = (pairsOf M).map (fun p => distSpec P sqrt lg m rm p.1 p.2) := by
  cases m with
  | euclidean =>
    cases rm <;>
      simp [distVec, distSpec, prep, euclid_algo_eq_spec, pairsOf_map, List.map_map,
        Function.comp_def, centreC_eq]
  | correlation =>
    simp only [distVec, distSpec]
    exact corr_algo_eq_spec P hm.1 sqrt hm.2 M
  | mahalanobis noise =>
    cases noise with
    | none =>
      cases rm <;>
        simp [distVec, distSpec, prep, euclid_algo_eq_spec, pairsOf_map, List.map_map,
          Function.comp_def, centreC_eq]
    | some N =>
      cases rm <;>
        simp [distVec, distSpec, prep, mahal_algo_eq_spec P N hm, pairsOf_map, List.map_map,
          Function.comp_def, centreC_eq]
  | poisson pl pw =>
    simp only [distVec, distSpec]
    rw [poisson_algo_eq_spec, pairsOf_map, List.map_map]
    apply List.map_congr_left
    intro p _
    simp [poissonPrior_eq_rateSpec]

/-- the specified dissimilarity is a function of the *unordered* pair -/
theorem distSpec_symm (P : Nat) (sqrt lg : K → K) (m : Method K) (rm : Bool) (a b : Row K) :
    distSpec P sqrt lg m rm a b = distSpec P sqrt lg m rm b a := by
  have he : ∀ x y : Row K, euclidSpec P x y = euclidSpec P y x := by
    intro x y
    unfold euclidSpec
    congr 1
    exact sumTo_congr (fun i _ => by ring)
  have hmh : ∀ (N : Nat → Nat → K) (x y : Row K), mahalSpec P N x y = mahalSpec P N y x := by
    intro N x y
    unfold mahalSpec
    congr 1
    exact sumTo_congr (fun i _ => sumTo_congr (fun j _ => by ring))
  cases m with
  | euclidean => cases rm <;> simp [distSpec, he]
  | correlation =>
    simp only [distSpec, corrSpec, covP]
    congr 2
    · congr 1
      exact sumTo_congr (fun i _ => by ring)
    · ring
  | mahalanobis noise =>
    cases noise with
    | none => cases rm <;> simp [distSpec, he]
    | some N => cases rm <;> simp [distSpec, hmh]
  | poisson pl pw =>
    simp only [distSpec, poissonSpec]
    congr 1
    exact sumTo_congr (fun i _ => by ring)

/-! ### value scales (round 5)

Data recorded in another unit (`smulRow s x`: every channel multiplied by `s`, e.g. tesla instead
of femtotesla) change the four dissimilarities by the law of the formula and by nothing else:
squared distances by `s²` (`t·s²` when the precision is multiplied by `t`), `1 - r` not at all,
the Poisson divergence by `s` (prior rate in the same unit).  An absolute constant inside an
estimator (an "epsilon") contradicts these laws. -/

/-- `remove_mean` commutes with a change of unit -/
theorem centre_scale (P : Nat) (s : K) (x : Row K) :
    centre P (smulRow s x) = smulRow s (centre P x) := centre_smul P s x

/-- scale laws of the four specified formulas (with or without `remove_mean`) -/
theorem distSpec_scale (P : Nat) (sqrt lg : K → K) (s : K) (rm : Bool) (a b : Row K) :
    distSpec P sqrt lg .euclidean rm (smulRow s a) (smulRow s b) =
        s * s * distSpec P sqrt lg .euclidean rm a b ∧
    (∀ (t : K) (N : Nat → Nat → K),
      distSpec P sqrt lg (.mahalanobis (some (fun i j => t * N i j))) rm
          (smulRow s a) (smulRow s b) =
        t * (s * s) * distSpec P sqrt lg (.mahalanobis (some N)) rm a b) ∧
    (IsSqrt sqrt → 0 < s →
      distSpec P sqrt lg .correlation rm (smulRow s a) (smulRow s b) =
        distSpec P sqrt lg .correlation rm a b) ∧
    (∀ pl pw : K,
      (∀ c, c < P → lg (s * rateSpec pl pw a c) - lg (s * rateSpec pl pw b c) =
          lg (rateSpec pl pw a c) - lg (rateSpec pl pw b c)) →
      distSpec P sqrt lg (.poisson (s * pl) pw) rm (smulRow s a) (smulRow s b) =
        s * distSpec P sqrt lg (.poisson pl pw) rm a b) := by
  refine ⟨?_, ?_, ?_, ?_⟩
  · cases rm <;> simp [distSpec, centre_smul, euclidSpec_smul]
  · intro t N
    cases rm <;> simp [distSpec, centre_smul, mahalSpec_smul]
  · intro hs hs0
    simp only [distSpec]
    exact corrSpec_smul P sqrt hs s hs0 a b
  · intro pl pw hlg
    simp only [distSpec, rateSpec_smul]
    exact poissonSpec_smul P lg s _ _ hlg

/-- the estimators *as coded* obey the laws: the euclidean Gram form returns `s²` times its
    value, the coded correlation (centre, divide by the row norm — leaf `corrUnit` —, `1 - M Mᵀ`)
    returns exactly what it returns on the unscaled data, for every positive `s` however small -/
theorem distVec_scale (P : Nat) (sqrt lg : K → K) (s : K) (rm : Bool) (M : List (Row K)) :
    distVec P sqrt lg .euclidean rm (M.map (smulRow s)) =
        (distVec P sqrt lg .euclidean rm M).map (fun d => s * s * d) ∧
    (0 < P → IsSqrt sqrt → 0 < s →
      distVec P sqrt lg .correlation rm (M.map (smulRow s)) =
        distVec P sqrt lg .correlation rm M) := by
  constructor
  · rw [distVec_eq_spec P sqrt lg .euclidean trivial, distVec_eq_spec P sqrt lg .euclidean trivial,
      pairsOf_map, List.map_map, List.map_map]
    apply List.map_congr_left
    intro p _
    exact (distSpec_scale P sqrt lg s rm p.1 p.2).1
  · intro hP hs hs0
    rw [distVec_eq_spec P sqrt lg .correlation ⟨hP, hs⟩,
      distVec_eq_spec P sqrt lg .correlation ⟨hP, hs⟩, pairsOf_map, List.map_map]
    apply List.map_congr_left
    intro p _
    exact (distSpec_scale P sqrt lg s rm p.1 p.2).2.2.1 hs hs0

/-- non-vacuity: `Real.log` has the property the Poisson law asks of `lg` (positive rates, `s > 0`) -/
example (s x y : ℝ) (hs : 0 < s) (hx : 0 < x) (hy : 0 < y) :
    Real.log (s * x) - Real.log (s * y) = Real.log x - Real.log y := by
  rw [Real.log_mul hs.ne' hx.ne', Real.log_mul hs.ne' hy.ne']
  ring

/-- non-vacuity: a tiny unit (2⁻⁶⁰) on concrete rational patterns -/
example : euclidSpec 2 (smulRow ((1 : ℚ) / 2 ^ 60) (fun c => (c : ℚ) + 1))
      (smulRow ((1 : ℚ) / 2 ^ 60) (fun c => 3 - (c : ℚ))) =
    (1 / 2 ^ 60) * (1 / 2 ^ 60) * euclidSpec 2 (fun c => (c : ℚ) + 1) (fun c => 3 - (c : ℚ)) :=
  euclidSpec_smul 2 _ _ _

/-! ### the whole call -/

/-- `calc_rdm(ds, method, descriptor=None)`: entry of the pair of observations (i, j) is the
    method's formula on the two observation rows (`pairsOf` = `triu` order). -/
theorem calcRdmNoDesc_correct (P : Nat) (sqrt lg : K → K) (m : Method K)
    (hm : MethodOK P sqrt m) (rm : Bool) (rows : List (Row K)) :
    calcRdmNoDesc P sqrt lg m rm rows =
      (pairsOf rows).map (fun p => distSpec P sqrt lg m rm p.1 p.2) :=
  distVec_eq_spec P sqrt lg m hm rm rows

/-- `calc_rdm(ds, method, descriptor)` for every dataset, labelling and method:
    the conditions of the result are exactly the distinct labels, each once, sorted;
    the condensed vector lists, for every unordered pair of labels in `triu` order, the
    method's formula applied to the two per-condition mean patterns. -/
theorem calcRdm_correct (P : Nat) (sqrt lg : K → K) (le : L → L → Bool)
    (htrans : ∀ a b c, le a b → le b c → le a c) (htotal : ∀ a b, le a b || le b a)
    (m : Method K) (hm : MethodOK P sqrt m) (rm : Bool) (obs : List (L × Row K))
    (descs : List (List D)) :
    let r := calcRdm P sqrt lg le m rm obs descs
    r.labels = (uniqueFirst (obs.map (fun p => p.1))).mergeSort le ∧
    r.labels.Pairwise (fun a b => le a b) ∧ r.labels.Nodup ∧
    (∀ u, u ∈ r.labels ↔ u ∈ obs.map (fun p => p.1)) ∧
    r.vec = (pairsOf r.labels).map
      (fun p => distSpec P sqrt lg m rm (meanOf obs p.1) (meanOf obs p.2)) := by
  intro r
  set us := uniqueFirst (obs.map (fun p => p.1)) with hus
  have hlab : r.labels = us.mergeSort le := by
    show reorderList (argsortBy le us) us = _
    rw [argsortBy_eq, reorderList_spec us _ (sortedPairs_mem le us), sortedPairs_fst]
  have hperm : (us.mergeSort le).Perm us := List.mergeSort_perm us le
  refine ⟨hlab, ?_, ?_, ?_, ?_⟩
  · rw [hlab]
    exact List.pairwise_mergeSort htrans htotal us
  · rw [hlab]
    exact hperm.nodup_iff.mpr (nodup_uniqueFirst _)
  · intro u
    rw [hlab, hperm.mem_iff, hus, mem_uniqueFirst]
  · have hv : distVec P sqrt lg m rm (condMeans obs) =
        (pairsOf us).map (fun p => distSpec P sqrt lg m rm (meanOf obs p.1) (meanOf obs p.2)) := by
      rw [distVec_eq_spec P sqrt lg m hm, condMeans_eq, pairsOf_map, List.map_map]
      rfl
    show reorderVec us.length (argsortBy le us) (distVec P sqrt lg m rm (condMeans obs)) = _
    rw [hv, argsortBy_eq,
      reorderVec_spec us (fun a b => distSpec P sqrt lg m rm (meanOf obs a) (meanOf obs b))
        (fun a b => distSpec_symm P sqrt lg m rm _ _) _ (sortedPairs_mem le us)
        (sortedPairs_snd_nodup le us)]
    rw [hlab, sortedPairs_fst]

/-- the result depends only on the multiset of (observation, label) pairs: for every
    permutation of the observations labels and values are identical. -/
theorem calcRdm_obs_perm (P : Nat) (sqrt lg : K → K) (le : L → L → Bool)
    (htrans : ∀ a b c, le a b → le b c → le a c) (htotal : ∀ a b, le a b || le b a)
    (hanti : ∀ a b, le a b → le b a → a = b)
    (m : Method K) (hm : MethodOK P sqrt m) (rm : Bool) {obs₁ obs₂ : List (L × Row K)}
    (h : obs₁.Perm obs₂) (d₁ d₂ : List (List D)) :
    (calcRdm P sqrt lg le m rm obs₁ d₁).labels = (calcRdm P sqrt lg le m rm obs₂ d₂).labels ∧
    (calcRdm P sqrt lg le m rm obs₁ d₁).vec = (calcRdm P sqrt lg le m rm obs₂ d₂).vec := by
  obtain ⟨l1, s1, _, _, v1⟩ := calcRdm_correct P sqrt lg le htrans htotal m hm rm obs₁ d₁
  obtain ⟨l2, s2, _, _, v2⟩ := calcRdm_correct P sqrt lg le htrans htotal m hm rm obs₂ d₂
  have hl : (calcRdm P sqrt lg le m rm obs₁ d₁).labels =
      (calcRdm P sqrt lg le m rm obs₂ d₂).labels := by
    apply List.Perm.eq_of_pairwise (le := fun a b => le a b = true) (fun a b _ _ => hanti a b) s1 s2
    rw [l1, l2]
    exact ((List.mergeSort_perm _ le).trans (uniqueFirst_perm (h.map _))).trans
      (List.mergeSort_perm _ le).symm
  refine ⟨hl, ?_⟩
  rw [v1, v2, hl]
  apply List.map_congr_left
  intro p _
  rw [Rsa.Calc.meanOf_perm h p.1, Rsa.Calc.meanOf_perm h p.2]

/-- `remove_mean`: the formula is applied to the row-centred condition means for
    euclidean / mahalanobis, and the flag has no effect on correlation and poisson. -/
theorem calcRdm_remove_mean (P : Nat) (sqrt lg : K → K) (a b : Row K) :
    distSpec P sqrt lg .euclidean true a b = euclidSpec P (centre P a) (centre P b) ∧
    (∀ N, distSpec P sqrt lg (.mahalanobis (some N)) true a b =
      mahalSpec P N (centre P a) (centre P b)) ∧
    distSpec P sqrt lg .correlation true a b = distSpec P sqrt lg .correlation false a b ∧
    (∀ pl pw, distSpec P sqrt lg (.poisson pl pw) true a b =
      distSpec P sqrt lg (.poisson pl pw) false a b) ∧
    (∀ (le : L → L → Bool) (obs : List (L × Row K)) (d : List (List D)),
      calcRdm P sqrt lg le .correlation true obs d = calcRdm P sqrt lg le .correlation false obs d) ∧
    (∀ (le : L → L → Bool) pl pw (obs : List (L × Row K)) (d : List (List D)),
      calcRdm P sqrt lg le (.poisson pl pw) true obs d =
        calcRdm P sqrt lg le (.poisson pl pw) false obs d) := by
  refine ⟨rfl, fun _ => rfl, rfl, fun _ _ => rfl, fun _ _ _ => rfl, fun _ _ _ _ _ => rfl⟩

/-! ### descriptors -/

/-- `_build_rdms`: a descriptor column is kept iff every condition is internally constant,
    and then entry `i` is the value shared by all observations of the `i`-th condition. -/
theorem propagate_spec (lab : List L) (dv : List D) (hlen : lab.length ≤ dv.length) :
    (∀ r, propagate lab dv = some r →
      r.length = (uniqueFirst lab).length ∧
      ∀ (i : Nat) (u : L), (uniqueFirst lab)[i]? = some u →
        ∀ p ∈ lab.zip dv, p.1 = u → r[i]? = some p.2) ∧
    ((∀ p ∈ lab.zip dv, ∀ q ∈ lab.zip dv, p.1 = q.1 → p.2 = q.2) →
      ∃ r, propagate lab dv = some r) := by
  constructor
  · intro r hr
    have h := propagate_eq_some.mp hr
    have hl : r.length = (uniqueFirst lab).length := by
      have := congrArg List.length h
      simpa using this.symm
    refine ⟨hl, ?_⟩
    intro i u hi p hp hpu
    have hi' : ((uniqueFirst lab).map (sharedValue lab dv))[i]? = some (sharedValue lab dv u) := by
      simp [hi]
    rw [h] at hi'
    simp only [List.getElem?_map, Option.map_eq_some_iff] at hi'
    obtain ⟨d, hd, hsd⟩ := hi'
    rw [hd, sharedValue_sound hsd.symm p hp hpu]
  · intro hconst
    have hex : ∀ u ∈ uniqueFirst lab, ∃ p ∈ lab.zip dv, p.1 = u := by
      intro u hu
      have hu' : u ∈ lab := mem_uniqueFirst.mp hu
      obtain ⟨k, hk⟩ := List.getElem?_of_mem hu'
      obtain ⟨hk1, hk2⟩ := List.getElem?_eq_some_iff.mp hk
      have hk3 : k < dv.length := Nat.lt_of_lt_of_le hk1 hlen
      refine ⟨(lab[k], dv[k]), ?_, hk2⟩
      exact List.mem_iff_getElem.mpr ⟨k, by simp [hk1, hk3], by simp⟩
    have hall : ∀ u ∈ uniqueFirst lab, ∃ d, sharedValue lab dv u = some d := by
      intro u hu
      obtain ⟨p, hp, hpu⟩ := hex u hu
      exact ⟨p.2, sharedValue_complete ⟨p, hp, hpu⟩
        (fun q hq hqu => hconst q hq p hp (hqu.trans hpu.symm))⟩
    have : ∃ r : List D, (uniqueFirst lab).map (sharedValue lab dv) = r.map some := by
      generalize uniqueFirst lab = us at hall
      induction us with
      | nil => exact ⟨[], rfl⟩
      | cons u us ih =>
        obtain ⟨d, hd⟩ := hall u List.mem_cons_self
        obtain ⟨r, hr⟩ := ih (fun v hv => hall v (List.mem_cons_of_mem _ hv))
        exact ⟨d :: r, by simp [hd, hr]⟩
    obtain ⟨r, hr⟩ := this
    exact ⟨r, propagate_eq_some.mpr hr⟩

/-- every pattern descriptor reported by `calc_rdm` for a condition is the value carried by
    all observations of that condition (also after the alphabetical re-sort). -/
theorem calcRdm_descs (P : Nat) (sqrt lg : K → K) (le : L → L → Bool) (m : Method K)
    (rm : Bool) (obs : List (L × Row K)) (descs : List (List D)) :
    let r := calcRdm P sqrt lg le m rm obs descs
    r.descs.length = descs.length ∧
    ∀ (k : Nat) (dv col : List D), descs[k]? = some dv → r.descs[k]? = some (some col) →
      (obs.map (fun p => p.1)).length ≤ dv.length →
      ∀ (i : Nat) (u : L), r.labels[i]? = some u →
        ∀ p ∈ (obs.map (fun p => p.1)).zip dv, p.1 = u → col[i]? = some p.2 := by
  intro r
  set lab := obs.map (fun p => p.1) with hlab
  set us := uniqueFirst lab with hus
  set ord := argsortBy le us with hord
  have hdescs : r.descs = descs.map (fun dv => (propagate lab dv).map (reorderList ord)) := by
    show (descs.map (propagate lab)).map (fun o => o.map (reorderList ord)) = _
    rw [List.map_map]
    rfl
  have hlabels : r.labels = reorderList ord us := rfl
  have hvalid : ∀ j ∈ ord, j < us.length := by
    intro j hj
    rw [hord, argsortBy_eq] at hj
    obtain ⟨p, hp, rfl⟩ := List.mem_map.mp hj
    exact (List.getElem?_eq_some_iff.mp (sortedPairs_mem le us p hp)).1
  refine ⟨by rw [hdescs]; simp, ?_⟩
  intro k dv col hk hcol hlen i u hu p hp hpu
  rw [hdescs, List.getElem?_map, hk] at hcol
  simp only [Option.map_some, Option.some.injEq, Option.map_eq_some_iff] at hcol
  obtain ⟨c0, hc0, rfl⟩ := hcol
  obtain ⟨hl0, hval⟩ := (propagate_spec lab dv hlen).1 c0 hc0
  rw [hlabels, reorderList_getElem? ord us hvalid] at hu
  rw [reorderList_getElem? ord c0 (fun j hj => by rw [hl0]; exact hvalid j hj)]
  cases hoi : ord[i]? with
  | none => rw [hoi] at hu; simp at hu
  | some j =>
    rw [hoi] at hu
    simp only [Option.bind_some] at hu ⊢
    exact hval j u hu p hp hpu

/-! ### lists of datasets -/

/-- `calc_rdm([ds₀, ds₁, …], descriptor)`: the conditions are the union of the datasets'
    labels; RDM `k` of the stack holds, for a pair of labels both present in `ds k`, the
    formula on the means of `ds k` (with that dataset's method options), and is missing
    (NaN) exactly for the pairs with a label absent from `ds k`. -/
theorem calcRdmList_entry (P : Nat) (sqrt lg : K → K) (le : L → L → Bool)
    (htrans : ∀ a b c, le a b → le b c → le a c) (htotal : ∀ a b, le a b || le b a)
    (ms : List (Method K)) (hms : ∀ m ∈ ms, MethodOK P sqrt m) (rm : Bool)
    (dss : List (List (L × Row K))) :
    let res := calcRdmList P sqrt lg le ms rm dss
    res.1.Nodup ∧
    (∀ u, u ∈ res.1 ↔ ∃ md ∈ ms.zip dss, u ∈ md.2.map (fun p => p.1)) ∧
    res.2.length = (ms.zip dss).length ∧
    ∀ (k : Nat) (m : Method K) (ds : List (L × Row K)), (ms.zip dss)[k]? = some (m, ds) →
      res.2[k]? = some ((pairsOf res.1).map (fun p =>
        if p.1 ∈ ds.map (fun q => q.1) ∧ p.2 ∈ ds.map (fun q => q.1) then
          some (distSpec P sqrt lg m rm (meanOf ds p.1) (meanOf ds p.2))
        else none)) := by
  intro res
  set rs := (ms.zip dss).map (fun p => calcRdm (D := Unit) P sqrt lg le p.1 rm p.2 []) with hrs
  have hres1 : res.1 = uniqueFirst (rs.flatMap (fun r => r.labels)) := rfl
  have hmemlab : ∀ md ∈ ms.zip dss, ∀ u,
      u ∈ (calcRdm (D := Unit) P sqrt lg le md.1 rm md.2 []).labels ↔ u ∈ md.2.map (fun p => p.1) := by
    intro md hmd u
    exact (calcRdm_correct P sqrt lg le htrans htotal md.1 (hms _ (List.of_mem_zip hmd).1) rm md.2
      []).2.2.2.1 u
  refine ⟨by rw [hres1]; exact nodup_uniqueFirst _, ?_, by simp [res, calcRdmList, fromPartials], ?_⟩
  · intro u
    rw [hres1, mem_uniqueFirst, List.mem_flatMap]
    constructor
    · rintro ⟨r, hr, hu⟩
      rw [hrs] at hr
      obtain ⟨md, hmd, rfl⟩ := List.mem_map.mp hr
      exact ⟨md, hmd, (hmemlab md hmd u).mp hu⟩
    · rintro ⟨md, hmd, hu⟩
      exact ⟨_, List.mem_map.mpr ⟨md, hmd, rfl⟩, (hmemlab md hmd u).mpr hu⟩
  · intro k m ds hk
    have hmd : (m, ds) ∈ ms.zip dss := List.mem_of_getElem? hk
    have hmok : MethodOK P sqrt m := hms _ (List.of_mem_zip hmd).1
    obtain ⟨_, _, hnd, hmem, hvec⟩ :=
      calcRdm_correct (D := Unit) P sqrt lg le htrans htotal m hmok rm ds []
    set r := calcRdm (D := Unit) P sqrt lg le m rm ds [] with hr
    have hk2 : res.2[k]? = some ((pairsOf res.1).map (fun p =>
        if p.1 ∈ r.labels ∧ p.2 ∈ r.labels then
          some (sqLookup r.labels.length r.vec (r.labels.idxOf p.1) (r.labels.idxOf p.2))
        else none)) := by
      show (rs.map _)[k]? = _
      rw [List.getElem?_map, hrs, List.getElem?_map, hk]
      rfl
    rw [hk2]
    congr 1
    apply List.map_congr_left
    intro p hp
    have hne : p.1 ≠ p.2 := pairsOf_ne_of_nodup (by rw [hres1]; exact nodup_uniqueFirst _) hp
    by_cases hc : p.1 ∈ r.labels ∧ p.2 ∈ r.labels
    · rw [if_pos hc, if_pos ⟨(hmem _).mp hc.1, (hmem _).mp hc.2⟩, hvec]
      congr 1
      have h1 : r.labels[r.labels.idxOf p.1]? = some p.1 := by
        rw [List.getElem?_eq_getElem (List.idxOf_lt_length_of_mem hc.1)]
        simp
      have h2 : r.labels[r.labels.idxOf p.2]? = some p.2 := by
        rw [List.getElem?_eq_getElem (List.idxOf_lt_length_of_mem hc.2)]
        simp
      have hidx : r.labels.idxOf p.1 ≠ r.labels.idxOf p.2 := by
        intro e
        rw [e, h2] at h1
        exact hne (Option.some.inj h1).symm
      exact sqLookup_spec r.labels
        (fun a b => distSpec P sqrt lg m rm (meanOf ds a) (meanOf ds b))
        (fun a b => distSpec_symm P sqrt lg m rm _ _) hidx h1 h2
    · rw [if_neg hc, if_neg (fun h => hc ⟨(hmem _).mpr h.1, (hmem _).mpr h.2⟩)]

/-- supplying a dataset singly or as a one-element list changes nothing: same labels,
    same values, nothing missing. -/
theorem calcRdmList_singleton (P : Nat) (sqrt lg : K → K) (le : L → L → Bool)
    (htrans : ∀ a b c, le a b → le b c → le a c) (htotal : ∀ a b, le a b || le b a)
    (m : Method K) (hm : MethodOK P sqrt m) (rm : Bool) (ds : List (L × Row K)) :
    calcRdmList P sqrt lg le [m] rm [ds] =
      ((calcRdm (D := Unit) P sqrt lg le m rm ds []).labels,
       [(calcRdm (D := Unit) P sqrt lg le m rm ds []).vec.map some]) := by
  obtain ⟨_, _, hnd, hmem, hvec⟩ :=
    calcRdm_correct (D := Unit) P sqrt lg le htrans htotal m hm rm ds []
  obtain ⟨_, _, hlen, hent⟩ := calcRdmList_entry P sqrt lg le htrans htotal [m]
    (fun m' hm' => by rw [List.mem_singleton.mp hm']; exact hm) rm [ds]
  have h1 : (calcRdmList P sqrt lg le [m] rm [ds]).1 =
      (calcRdm (D := Unit) P sqrt lg le m rm ds []).labels := by
    show uniqueFirst (List.flatMap _ [calcRdm (D := Unit) P sqrt lg le m rm ds []]) = _
    simp only [List.flatMap_cons, List.flatMap_nil, List.append_nil]
    exact uniqueFirst_of_nodup hnd
  have h0 := hent 0 m ds rfl
  have hl : (calcRdmList P sqrt lg le [m] rm [ds]).2.length = 1 := by simpa using hlen
  have h2 : (calcRdmList P sqrt lg le [m] rm [ds]).2 =
      [(calcRdm (D := Unit) P sqrt lg le m rm ds []).vec.map some] := by
    match hx : (calcRdmList P sqrt lg le [m] rm [ds]).2, hl with
    | [x], _ =>
      rw [hx] at h0
      simp only [List.getElem?_cons_zero, Option.some.injEq] at h0
      rw [h0, h1, hvec, List.map_map]
      congr 1
      apply List.map_congr_left
      intro p hp
      obtain ⟨hp1, hp2⟩ := mem_pairsOf hp
      simp [(hmem p.1).mp hp1, (hmem p.2).mp hp2]
  exact Prod.ext h1 h2

/-- `from_partials`: every expanded vector has the length the source computes
    (`int(n_patterns * (n_patterns-1) / 2)`, translated leaf) for the union of the labels. -/
theorem fromPartials_length {α : Type} [Zero α] (rs : List (Rdm α L D)) :
    ∀ v ∈ (fromPartials rs).2, v.length = Rsa.Gen.C01.vectorLen (fromPartials rs).1.length := by
  intro v hv
  simp only [fromPartials, List.mem_map] at hv
  obtain ⟨r, _, rfl⟩ := hv
  simp [fromPartials, Rsa.Gen.C01.vectorLen, pairsOf_length]

/-- lookup in a list built from its own keys -/
theorem lookup_map_self {V : Type} (us : List String) (f : String → V) (n : String) :
    (us.map (fun m => (m, f m))).lookup n = if n ∈ us then some (f n) else none := by
  induction us with
  | nil => simp
  | cons u us ih =>
    simp only [List.map_cons, List.lookup_cons, List.mem_cons]
    by_cases h : n = u
    · subst h; simp
    · have : (n == u) = false := by simpa using h
      rw [this, ih]
      simp [h]

theorem mem_keys_of_lookup {V : Type} {d : List (String × V)} {n : String} {v : V}
    (h : d.lookup n = some v) : n ∈ d.map (fun p => p.1) := by
  induction d with
  | nil => simp at h
  | cons p ps ih =>
    rw [List.lookup_cons] at h
    by_cases e : n = p.1
    · simp [e]
    · have : (n == p.1) = false := by simpa using e
      rw [this] at h
      exact List.mem_cons_of_mem _ (ih h)

/-- the dataset's descriptors are attached to the right RDM of the stack: every column of
    the merged rdm descriptors has one entry per dataset, entry `k` is dataset `k`'s own
    value (`none` if it has none), and every descriptor of dataset `k` has a column. -/
theorem mergeRdmDescs_spec {V : Type} (dss : List (List (String × V))) (k : Nat)
    (d : List (String × V)) (hk : dss[k]? = some d) (n : String) :
    (∀ col, (mergeRdmDescs dss).lookup n = some col →
      col.length = dss.length ∧ col[k]? = some (d.lookup n)) ∧
    (∀ v, d.lookup n = some v →
      ∃ col, (mergeRdmDescs dss).lookup n = some col ∧ col[k]? = some (some v)) := by
  unfold mergeRdmDescs
  rw [lookup_map_self]
  constructor
  · intro col hcol
    split at hcol
    · simp only [Option.some.injEq] at hcol
      subst hcol
      simp [hk]
    · simp at hcol
  · intro v hv
    have hmem : n ∈ uniqueFirst (dss.flatMap (fun d => d.map (fun p => p.1))) := by
      rw [mem_uniqueFirst, List.mem_flatMap]
      exact ⟨d, List.mem_of_getElem? hk, mem_keys_of_lookup hv⟩
    rw [if_pos hmem]
    exact ⟨_, rfl, by simp [hk, hv]⟩

/-! ### the call layer (round 3): dispatch, option forwarding, descriptors, input forms -/

section callLayer
variable {S : Type}

/-- method-name dispatch and option forwarding of `calc_rdm` (every decision a leaf derived
    from today's source): for each of the four method names the call reaches the estimator
    the name says, with the user's noise / priors (signature defaults 1 and 0.1) and with the
    `remove_mean` flag forwarded to euclidean / mahalanobis only, always-on for correlation
    and never for poisson — i.e. the call layer computes `distVec` of the options' meaning -/
theorem calcRdm_dispatch (P : Nat) (sqrt lg : K → K) (o : Opts K) (ho : o.method < 4)
    (M : List (Row K)) :
    topVec P sqrt lg o M = some (distVec P sqrt lg o.spec.1 o.spec.2 M) := by
  have h : o.method = 0 ∨ o.method = 1 ∨ o.method = 2 ∨ o.method = 3 := by omega
  rcases h with h | h | h | h
  · simp [topVec, h, Rsa.Gen.C01.dispatch, Rsa.Gen.C01.parseFlag, distVecF, Opts.spec, distVec,
      b2n_beq_one]
  · simp [topVec, h, Rsa.Gen.C01.dispatch, Rsa.Gen.C01.parseFlag, distVecF, Opts.spec, distVec,
      prep, corrMatRaw_centre]
  · cases hn : o.noise <;>
    simp [topVec, h, hn, Rsa.Gen.C01.dispatch, Rsa.Gen.C01.parseFlag, Rsa.Gen.C01.fwdNoise,
      Rsa.Gen.C01.mahalNoneFlag, distVecF, Opts.spec, distVec, b2n_beq_one]
  · simp [topVec, h, Rsa.Gen.C01.dispatch, Rsa.Gen.C01.parseFlag, Rsa.Gen.C01.fwdPrior, distVecF,
      Opts.spec, distVec, prep, Rsa.Gen.C01.defaultPriorLambda, Rsa.Gen.C01.defaultPriorWeight]

/-- the documented defaults: method codes mean what their names say and priors default to
    1 and 0.1 -/
theorem opts_spec_meaning (o : Opts K) :
    (o.method = 0 → o.spec = (.euclidean, o.removeMean)) ∧
    (o.method = 1 → o.spec = (.correlation, o.removeMean)) ∧
    (o.method = 2 → o.spec = (.mahalanobis o.noise, o.removeMean)) ∧
    (o.method = 3 → o.spec = (.poisson (o.pl.getD 1) (o.pw.getD (1 / 10)), o.removeMean)) := by
  refine ⟨fun h => ?_, fun h => ?_, fun h => ?_, fun h => ?_⟩ <;> simp [Opts.spec, h]

/-- the whole single-dataset call (`_parse_input`, estimator, `_build_rdms` with its
    `_averaging_occurred` shortcut, `sort_by`) is `calcRdm` of the options' meaning -/
theorem calcRdm_call (P : Nat) (sqrt lg : K → K) (le : L → L → Bool) (o : Opts K)
    (ho : o.method < 4) (obs : List (L × Row K)) (descs : List (List D))
    (hd : ∀ dv ∈ descs, dv.length = obs.length) :
    topRdm P sqrt lg le o obs descs =
      some (calcRdm P sqrt lg le o.spec.1 o.spec.2 obs descs) := by
  unfold topRdm
  simp only [calcRdm_dispatch P sqrt lg o ho, Option.map_some]
  have : descs.map (buildPat (obs.map (fun p => p.1))) =
      descs.map (propagate (obs.map (fun p => p.1))) :=
    List.map_congr_left (fun dv hdv => buildPat_eq_propagate _ dv (by simp [hd dv hdv]))
  rw [this]
  rfl

/-- list branch of `calc_rdm`: the per-dataset call gets the same method, priors and
    `remove_mean` as the list call, and the noise entry with the dataset's own index -/
theorem list_options_forwarded (o : ListOpts K) (k : Nat) :
    (o.optsFor k).method = o.method ∧ (o.optsFor k).spec = (o.specFor k).spec ∧
    (o.specFor k).spec.2 = o.removeMean ∧
    (o.specFor k).noise = (match o.noise with
      | .none => none | .one N => some N | .per Ns => (Ns[k]?).getD none) := by
  refine ⟨rfl, ?_, ?_, rfl⟩
  · simp only [ListOpts.optsFor, ListOpts.specFor, Opts.spec, Rsa.Gen.C01.listMethod,
      Rsa.Gen.C01.listNoiseIndex, Rsa.Gen.C01.listPriorLambda, Rsa.Gen.C01.listPriorWeight,
      Rsa.Gen.C01.listRemoveMean, Rsa.Gen.C01.defaultPriorLambda, Rsa.Gen.C01.defaultPriorWeight,
      b2n_beq_one, Option.getD_some]
  · simp only [ListOpts.specFor, Opts.spec]
    split <;> rfl


/-- `_build_rdms`: the one RDM's entry of a dataset descriptor is the value itself; a
    one-element vector cannot be told from its element (its entry is the element) -/
theorem rdmEntries_spec :
    (∀ s : S, rdmEntries (.scalar s) = [.scalar s]) ∧
    (∀ l : List S, l.length ≠ 1 → rdmEntries (.vec l) = [.vec l]) ∧
    (∀ x : S, rdmEntries (.vec [x]) = [.scalar x]) ∧
    (∀ v : DVal S, (rdmEntries v).length = 1) := by
  refine ⟨fun s => rfl, fun l h => ?_, fun x => ?_, fun v => ?_⟩
  · simp [rdmEntries, Rsa.Gen.C01.wrapVector, h]
  · simp [rdmEntries, Rsa.Gen.C01.wrapVector]
  · cases v with
    | scalar s => rfl
    | vec l =>
      by_cases h : l.length = 1
      · simp [rdmEntries, Rsa.Gen.C01.wrapVector, h]
      · simp [rdmEntries, Rsa.Gen.C01.wrapVector, h]

variable {τ : Type}

/-- single dataset: every dataset descriptor is an rdm descriptor of the one RDM, with the
    dataset's own value -/
theorem single_rdesc_attached (ddesc : List (String × DVal S)) (n : String) :
    (singleRdesc (τ := τ) ddesc).lookup n =
      (ddesc.lookup n).map (fun v => (rdmEntries v).map (fun e => some (Sum.inl e))) := by
  unfold singleRdesc
  exact lookup_map_snd ddesc (fun v => (rdmEntries v).map (fun e => some (Sum.inl e))) n

/-- `calc_rdm(ds, …)` through the call layer (dispatch, forwarding, `_build_rdms`): the RDM
    is `calcRdm` with the options' meaning, its rdm descriptors are the dataset's
    descriptors, its further pattern descriptors the propagated obs descriptors -/
theorem calcTop_one (P : Nat) (sqrt lg : K → K) (le : L → L → Bool) (o : ListOpts K)
    (ho : o.method < 4) (d : DSet K L D S) (hd : ∀ p ∈ d.odesc, p.2.length = d.obs.length) :
    calcTop (τ := τ) P sqrt lg le o (.one d) =
      some (let r := calcRdm P sqrt lg le (o.specFor 0).spec.1 o.removeMean d.obs
              (d.odesc.map (fun p => p.2))
            { labels := r.labels, vecs := [r.vec.map some], rdesc := singleRdesc d.ddesc,
              pdesc := (d.odesc.map (fun p => p.1)).zip r.descs }) := by
  have hd' : ∀ dv ∈ d.odesc.map (fun p => p.2), dv.length = d.obs.length := by
    intro dv hdv
    obtain ⟨p, hp, rfl⟩ := List.mem_map.mp hdv
    exact hd p hp
  simp only [calcTop, topSingle, calcRdm_call P sqrt lg le (o.specFor 0) ho d.obs _ hd',
    Option.map_some, stackOfSingle, (list_options_forwarded o 0).2.2.1]


/-- `calc_rdm([ds₀, ds₁, …], descriptor)` through the call layer: every dataset is computed with
    the call's options and its own noise entry; values and labels are `calcRdmList`; the rdm
    descriptors are the merged dataset descriptors; of the pattern descriptors only the label
    descriptor survives `from_partials` -/
theorem calcTop_many (P : Nat) (sqrt lg : K → K) (le : L → L → Bool) (o : ListOpts K)
    (ho : o.method < 4) (ds : List (DSet K L D S))
    (hd : ∀ d ∈ ds, ∀ p ∈ d.odesc, p.2.length = d.obs.length) :
    calcTop (τ := τ) P sqrt lg le o (.many ds) =
      some (let res := calcRdmList P sqrt lg le
                (ds.zipIdx.map (fun dk => (o.specFor dk.2).spec.1)) o.removeMean
                (ds.map (fun d => d.obs))
            { labels := res.1, vecs := res.2,
              rdesc := mergeStacks (ds.map (fun d => (1, singleRdesc d.ddesc))),
              pdesc := [] }) := by
  set g : DSet K L D S × Nat → Rdm K L D × List (String × List (Option (RVal S τ))) :=
    fun dk => (calcRdm P sqrt lg le (o.specFor dk.2).spec.1 o.removeMean dk.1.obs
      (dk.1.odesc.map (fun p => p.2)), singleRdesc dk.1.ddesc) with hg
  have hs : ds.zipIdx.map (fun dk => topSingle (τ := τ) P sqrt lg le (o.optsFor dk.2) dk.1) =
      (ds.zipIdx.map g).map some := by
    rw [List.map_map]
    apply List.map_congr_left
    intro dk hdk
    have hmem : dk.1 ∈ ds := mem_of_mem_zipIdx hdk
    have hd' : ∀ dv ∈ dk.1.odesc.map (fun p => p.2), dv.length = dk.1.obs.length := by
      intro dv hdv
      obtain ⟨p, hp, rfl⟩ := List.mem_map.mp hdv
      exact hd _ hmem p hp
    obtain ⟨hm, hsp, hrm, _⟩ := list_options_forwarded o dk.2
    simp only [topSingle, calcRdm_call P sqrt lg le (o.optsFor dk.2) (by rw [hm]; exact ho) _ _ hd',
      Option.map_some, Function.comp_apply, hsp, hrm, hg]
  simp only [calcTop, hs, allSome_eq_some.mpr rfl, Option.map_some]
  congr 1
  have hfp : fromPartials ((ds.zipIdx.map g).map (fun s => s.1)) =
      calcRdmList P sqrt lg le (ds.zipIdx.map (fun dk => (o.specFor dk.2).spec.1)) o.removeMean
        (ds.map (fun d => d.obs)) := by
    unfold calcRdmList
    apply fromPartials_congr
    rw [← map_zipIdx_fst (fun d : DSet K L D S => d.obs) ds, List.zip_map']
    simp only [List.map_map]
    apply List.map_congr_left
    intro dk _
    rfl
  have hrd : (ds.zipIdx.map g).map (fun s => ((1 : Nat), s.2)) =
      ds.map (fun d => (1, singleRdesc (τ := τ) d.ddesc)) := by
    rw [List.map_map, ← map_zipIdx_fst (fun d : DSet K L D S => ((1 : Nat), singleRdesc (τ := τ) d.ddesc)) ds]
    rfl
  rw [hfp, hrd]


/-- supplying a dataset singly or as a one-element list, at the call layer: same conditions,
    same values, the same rdm descriptors; only the further pattern descriptors are dropped
    by `from_partials` -/
theorem calcTop_singleton (P : Nat) (sqrt lg : K → K) (le : L → L → Bool)
    (htrans : ∀ a b c, le a b → le b c → le a c) (htotal : ∀ a b, le a b || le b a)
    (o : ListOpts K) (ho : o.method < 4) (hm : MethodOK P sqrt (o.specFor 0).spec.1)
    (d : DSet K L D S) (hd : ∀ p ∈ d.odesc, p.2.length = d.obs.length) :
    ∃ s₁ sₘ : Stack K L D S τ,
      calcTop P sqrt lg le o (.one d) = some s₁ ∧ calcTop P sqrt lg le o (.many [d]) = some sₘ ∧
      sₘ.labels = s₁.labels ∧ sₘ.vecs = s₁.vecs ∧
      (∀ n, sₘ.rdesc.lookup n = s₁.rdesc.lookup n) ∧ sₘ.pdesc = [] := by
  refine ⟨_, _, calcTop_one P sqrt lg le o ho d hd,
    calcTop_many P sqrt lg le o ho [d] (by simpa using hd), ?_, ?_, ?_, rfl⟩
  · simp only [List.zipIdx_cons, List.zipIdx_nil, List.map_cons, List.map_nil, Nat.zero_add]
    rw [calcRdmList_singleton P sqrt lg le htrans htotal _ hm]
    rfl
  · simp only [List.zipIdx_cons, List.zipIdx_nil, List.map_cons, List.map_nil, Nat.zero_add]
    rw [calcRdmList_singleton P sqrt lg le htrans htotal _ hm]
    rfl
  · intro n
    simp only [List.map_cons, List.map_nil]
    exact mergeStacks_single _ n


/-- list input: the rdm descriptors of the stack have one entry per dataset; entry `k` of
    the column `n` is dataset `k`'s own value of `n` (`none` = Python `None` if it has no such
    descriptor), and every descriptor of every dataset has a column -/
theorem list_rdesc_attached (ds : List (DSet K L D S)) (k : Nat) (d : DSet K L D S)
    (hk : ds[k]? = some d) (n : String) :
    (∀ col, (mergeStacks (ds.map (fun d => ((1 : Nat), singleRdesc (τ := τ) d.ddesc)))).lookup n =
        some col →
      col.length = ds.length ∧
      col[k]? = some ((d.ddesc.lookup n).bind
        (fun v => ((rdmEntries v).head?).map (fun e => Sum.inl e)))) ∧
    (∀ v, d.ddesc.lookup n = some v →
      ∃ col, (mergeStacks (ds.map (fun d => ((1 : Nat), singleRdesc (τ := τ) d.ddesc)))).lookup n =
        some col) := by
  set st := ds.map (fun d => ((1 : Nat), singleRdesc (τ := τ) d.ddesc)) with hst
  have hwf : StacksWF st := by
    intro s hs p hp
    rw [hst] at hs
    obtain ⟨d', _, rfl⟩ := List.mem_map.mp hs
    simp only [singleRdesc, List.mem_map] at hp
    obtain ⟨q, _, rfl⟩ := hp
    simp [(rdmEntries_spec (S := S)).2.2.2 q.2]
  have hk' : st[k]? = some ((1 : Nat), singleRdesc (τ := τ) d.ddesc) := by
    rw [hst, List.getElem?_map, hk]; rfl
  obtain ⟨h1, h2⟩ := mergeStacks_col st hwf k _ hk' 0 (by simp) n
  constructor
  · intro col hcol
    obtain ⟨hl, he⟩ := h1 col hcol
    have hs1 : (st.map (fun s => s.1)).sum = ds.length := by
      rw [hst, List.map_map]
      exact sum_map_const_one ds
    have hs2 : ((st.take k).map (fun s => s.1)).sum = k := by
      rw [hst, ← List.map_take, List.map_map]
      have hkl : k < ds.length := (List.getElem?_eq_some_iff.mp hk).1
      rw [show ((fun s : Nat × List (String × List (Option (RVal S τ))) => s.1) ∘
        fun d : DSet K L D S => ((1 : Nat), singleRdesc (τ := τ) d.ddesc)) = fun _ => 1 from rfl,
        sum_map_const_one, List.length_take]
      omega
    refine ⟨by rw [hl, hs1], ?_⟩
    rw [hs2, Nat.add_zero] at he
    rw [he, single_rdesc_attached]
    cases hl' : d.ddesc.lookup n with
    | none => rfl
    | some v =>
      have := (rdmEntries_spec (S := S)).2.2.2 v
      match hx : rdmEntries v, this with
      | [e], _ => simp [hx]
  · intro v hv
    exact h2 _ (by rw [single_rdesc_attached, hv]; rfl)


section movie2
variable [DecidableEq τ] [Add τ] [Zero τ] [Div τ] [NatCast τ]

/-- `calc_rdm_movie` calls `calc_rdm` on every frame with its own method and priors
    (signature defaults 1, 0.1) and without `remove_mean` -/
theorem movie_frame_options (o : MovieOpts K τ) (noise : Option (Nat → Nat → K)) :
    (o.frameOpts noise).method = o.method ∧ (o.frameOpts noise).spec = (o.frameSpec noise).spec ∧
    (o.frameSpec noise).spec.2 = false := by
  refine ⟨rfl, ?_, ?_⟩
  · simp only [MovieOpts.frameOpts, MovieOpts.frameSpec, Opts.spec, Rsa.Gen.C01.movieFrameMethod,
      Rsa.Gen.C01.movieFramePriorLambda, Rsa.Gen.C01.movieFramePriorWeight,
      Rsa.Gen.C01.movieFrameRemoveMean, Rsa.Gen.C01.movieDefaultPriorLambda,
      Rsa.Gen.C01.movieDefaultPriorWeight, Option.getD_some]
    split <;> simp
  · simp only [MovieOpts.frameSpec, Opts.spec]
    split <;> rfl

/-- helper for `topMovie_spec`, generic in the (binned or raw) data -/
theorem topMovie_aux (P : Nat) (sqrt lg : K → K) (le : L → L → Bool) (o : MovieOpts K τ)
    (ho : o.method < 4) (noise : Option (Nat → Nat → K)) (d : TSet K L S τ)
    (bt : List (L × TRow K) × List τ) (fr : List (τ × Rdm K L Unit))
    (h1 : topMovie P sqrt lg le o noise d =
      (allSome ((frames bt.1 bt.2).map (fun f => topSingle (D := Unit) (τ := τ) P sqrt lg le
        (o.frameOpts noise) { obs := f.2, odesc := [], ddesc := d.ddesc }))).map (fun ss =>
          { labels := ((ss.map (fun s => s.1.labels)).head?).getD []
            vecs := ss.map (fun s => s.1.vec.map some)
            rdesc := setCol (mergeStacks (ss.map (fun s => ((1 : Nat), s.2)))) o.tname
              ((uniqueFirst bt.2).map (fun t => some (Sum.inr t)))
            pdesc := [] }))
    (hfr : fr = (frames bt.1 bt.2).map
      (fun f => (f.1, calcRdm (D := Unit) P sqrt lg le (o.frameSpec noise).spec.1 false f.2 []))) :
    ∃ st, topMovie P sqrt lg le o noise d = some st ∧
      st.vecs = fr.map (fun f => f.2.vec.map some) ∧
      st.labels = ((fr.map (fun f => f.2.labels)).head?).getD [] ∧
      st.rdesc.lookup o.tname = some (fr.map (fun f => some (Sum.inr f.1))) ∧
      (∀ n v, n ≠ o.tname → d.ddesc.lookup n = some v → fr ≠ [] →
        st.rdesc.lookup n =
          some (fr.flatMap (fun _ => (rdmEntries v).map (fun e => some (Sum.inl e))))) := by
  obtain ⟨hm, hsp, hrm⟩ := movie_frame_options o noise
  set g : τ × List (L × Row K) → Rdm K L Unit × List (String × List (Option (RVal S τ))) :=
    fun f => (calcRdm (D := Unit) P sqrt lg le (o.frameSpec noise).spec.1 false f.2 [],
      singleRdesc d.ddesc) with hg
  have hs : (frames bt.1 bt.2).map (fun f => topSingle (D := Unit) (τ := τ) P sqrt lg le
      (o.frameOpts noise) { obs := f.2, odesc := [], ddesc := d.ddesc }) =
      ((frames bt.1 bt.2).map g).map some := by
    rw [List.map_map]
    apply List.map_congr_left
    intro f _
    simp only [topSingle, List.map_nil,
      calcRdm_call (D := Unit) P sqrt lg le (o.frameOpts noise) (by rw [hm]; exact ho) f.2 []
        (by intro dv hdv; simp at hdv),
      Option.map_some, Function.comp_apply, hsp, hrm, hg]
  have hfst : (frames bt.1 bt.2).map (fun f => f.1) = uniqueFirst bt.2 := by
    simp [frames, List.map_map, Function.comp_def]
  rw [h1, hs, allSome_eq_some.mpr rfl, Option.map_some]
  refine ⟨_, rfl, ?_, ?_, ?_, ?_⟩
  · simp only [hfr, List.map_map, Function.comp_def, hg]
  · simp only [hfr, List.map_map, Function.comp_def, hg]
  · rw [setCol_lookup_self, hfr, List.map_map, ← hfst, List.map_map]
    rfl
  · intro n v hn hv hne
    rw [setCol_lookup_ne _ _ _ _ hn]
    unfold mergeStacks
    rw [lookup_keys_map]
    have hX : (singleRdesc (τ := τ) d.ddesc).lookup n =
        some ((rdmEntries v).map (fun e => some (Sum.inl e))) := by
      rw [single_rdesc_attached, hv]; rfl
    have hne' : frames bt.1 bt.2 ≠ [] := by
      intro h0; apply hne; rw [hfr, h0]; rfl
    have hmem : n ∈ uniqueFirst ((((frames bt.1 bt.2).map g).map (fun s => ((1 : Nat), s.2))).flatMap
        (fun s => s.2.map (fun p => p.1))) := by
      rw [mem_uniqueFirst, List.mem_flatMap]
      obtain ⟨f, hf⟩ := List.exists_mem_of_ne_nil _ hne'
      refine ⟨(1, singleRdesc d.ddesc), ?_, mem_keys_of_lookup hX⟩
      simp only [List.map_map, List.mem_map, Function.comp_apply, hg]
      exact ⟨f, hf, trivial⟩
    rw [if_pos hmem, hfr]
    simp only [List.flatMap_map, hg, hX, Option.getD_some]

/-- `calc_rdm_movie` for one temporal dataset through the call layer: frame `i` of the stack
    is `calc_rdm` of the `i`-th (binned) time slice group, the `time_descriptor` entry of RDM
    `i` is exactly the time value of that frame, and every frame carries the dataset's
    descriptors -/
theorem topMovie_spec (P : Nat) (sqrt lg : K → K) (le : L → L → Bool) (o : MovieOpts K τ)
    (ho : o.method < 4) (noise : Option (Nat → Nat → K)) (d : TSet K L S τ) :
    let fr := calcMovie (D := Unit) P sqrt lg le (o.frameSpec noise).spec.1 d.obs d.times o.bins
    ∃ st, topMovie P sqrt lg le o noise d = some st ∧
      st.vecs = fr.map (fun f => f.2.vec.map some) ∧
      st.labels = ((fr.map (fun f => f.2.labels)).head?).getD [] ∧
      st.rdesc.lookup o.tname = some (fr.map (fun f => some (Sum.inr f.1))) ∧
      (∀ n v, n ≠ o.tname → d.ddesc.lookup n = some v → fr ≠ [] →
        st.rdesc.lookup n =
          some (fr.flatMap (fun _ => (rdmEntries v).map (fun e => some (Sum.inl e))))) := by
  intro fr
  obtain ⟨method, nz, pl, pw, tname, bins⟩ := o
  cases bins with
  | none =>
    exact topMovie_aux P sqrt lg le _ ho noise d (d.obs, d.times) fr
      (by simp [topMovie, Rsa.Gen.C01.movieSplitSource, Rsa.Gen.C01.movieTimeSource,
            Rsa.Gen.C01.movieTimeRule, movieTimeCol, b2n]) rfl
  | some bs =>
    exact topMovie_aux P sqrt lg le _ ho noise d (binTime d.obs d.times bs) fr
      (by simp [topMovie, Rsa.Gen.C01.movieSplitSource, Rsa.Gen.C01.movieTimeSource,
            Rsa.Gen.C01.movieTimeRule, movieTimeCol, b2n]) rfl


/-- list branch of `calc_rdm_movie`: bins, time descriptor, method and priors are forwarded
    unchanged; the noise entry is the one with the dataset's own index -/
theorem movie_list_options (o : MovieOpts K τ) (k : Nat) :
    (o.optsFor k).1.frameOpts = o.frameOpts ∧ (o.optsFor k).1.bins = o.bins ∧
    (o.optsFor k).1.tname = o.tname ∧ (o.optsFor k).2 = o.noiseFor k := by
  refine ⟨?_, ?_, ?_, ?_⟩
  · funext nz
    simp only [MovieOpts.optsFor, MovieOpts.frameOpts, Rsa.Gen.C01.movieListMethod,
      Rsa.Gen.C01.movieListPriorLambda, Rsa.Gen.C01.movieListPriorWeight, Option.getD_some]
  · simp [MovieOpts.optsFor, Rsa.Gen.C01.movieListBins]
  · simp [MovieOpts.optsFor, Rsa.Gen.C01.movieListTdesc]
  · simp only [MovieOpts.optsFor, MovieOpts.noiseFor, Rsa.Gen.C01.movieListNoiseIndex]

/-- supplying temporal datasets as a list = stacking the per-dataset movies, each computed
    with the call's own options (bins, time descriptor, priors, method) and *its own* noise
    entry; a single temporal dataset is the one-movie case -/
theorem movieTop_forms (P : Nat) (sqrt lg : K → K) (le : L → L → Bool) (o : MovieOpts K τ) :
    (∀ d : TSet K L S τ,
      movieTop P sqrt lg le o (.one d) = topMovie P sqrt lg le o (o.noiseFor 0) d) ∧
    (∀ ds : List (TSet K L S τ), movieTop P sqrt lg le o (.many ds) =
      (allSome (ds.zipIdx.map (fun dk => topMovie P sqrt lg le o (o.noiseFor dk.2) dk.1))).map
        (fun ms =>
          { labels := ((ms.map (fun m => m.labels)).head?).getD []
            vecs := ms.flatMap (fun m => m.vecs)
            rdesc := mergeStacks (ms.map (fun m => (m.vecs.length, m.rdesc)))
            pdesc := [] })) := by
  refine ⟨fun d => rfl, fun ds => ?_⟩
  have : ∀ (k : Nat) (d : TSet K L S τ),
      topMovie P sqrt lg le (o.optsFor k).1 (o.optsFor k).2 d =
        topMovie P sqrt lg le o (o.noiseFor k) d := by
    intro k d
    obtain ⟨h1, h2, h3, h4⟩ := movie_list_options o k
    simp only [topMovie, h1, h2, h3, h4]
  simp only [movieTop, this]
end movie2


/-! ### input forms -/

/-- int64 data are computed with as their float64 values -/
theorem parse_int_eq_float (X : List (List Int)) :
    (RawData.ints X : RawData K).rows =
      (RawData.floats (X.map (fun r => r.map (fun i => (Int.cast i : K))))).rows := by
  simp [RawData.rows, List.map_map, Function.comp_def]

/-- list and array descriptors denote the same column -/
theorem parse_container {β : Type} (l : List β) :
    (RawDesc.list l).parse = (RawDesc.array l).parse := rfl

/-- integer-typed measurements: the per-condition means as the code stores them (float64
    buffer, leaf `meanBufferFloat`) are the exact means of the integer rows -/
theorem condMeansInt_eq (lab : List L) (rows : List (List Int)) (hlen : rows.length = lab.length) :
    condMeansInt (α := K) lab rows = condMeans (lab.zip (RawData.ints rows : RawData K).rows) := by
  have hl : (RawData.ints rows : RawData K).rows.length = lab.length := by
    simp [RawData.rows, hlen]
  have h1 : (lab.zip (RawData.ints rows : RawData K).rows).map (fun p => p.1) = lab := by
    rw [List.map_fst_zip]; omega
  have h2 : (lab.zip (RawData.ints rows : RawData K).rows).map (fun p => p.2) =
      (rows.map intRow).map (fun r => fun c => (Int.cast (r c) : K)) := by
    rw [List.map_snd_zip (by omega)]
    simp only [RawData.rows, List.map_map]
    apply List.map_congr_left
    intro r _
    exact rowOfList_cast r
  unfold condMeansInt condMeans
  simp only [h1, h2, Rsa.Gen.C01.meanBufferFloat, if_true, selRows]
  apply List.map_congr_left
  intro i _
  simp only [zip_filterMap_map]


/-- `_merged_rdm_descriptors` on stacks of several RDMs (`concat` of movies, `from_partials`):
    RDM `j` of stack `k` sits at position `Σ_{i<k} size i + j` of every merged column and
    carries that stack's own entry (`none` if the stack has no such descriptor); every
    column has one entry per RDM; every descriptor of every stack has a column -/
theorem mergeStacks_spec {V : Type} (st : List (Nat × List (String × List (Option V))))
    (hwf : StacksWF st) (k : Nat) (s : Nat × List (String × List (Option V)))
    (hk : st[k]? = some s) (j : Nat) (hj : j < s.1) (n : String) :
    (∀ col, (mergeStacks st).lookup n = some col →
      col.length = (st.map (fun s => s.1)).sum ∧
      col[((st.take k).map (fun s => s.1)).sum + j]? =
        some (match s.2.lookup n with
          | none => none
          | some c => (c[j]?).getD none)) ∧
    (∀ c, s.2.lookup n = some c → ∃ col, (mergeStacks st).lookup n = some col) :=
  mergeStacks_col st hwf k s hk j hj n

/-! non-vacuity of the hypotheses of this section -/

/-- a poisson call without priors: `method < 4`, and the meaning is poisson with 1 and 0.1 -/
example : (⟨3, none, none, none, false⟩ : Opts ℚ).method < 4 ∧
    (⟨3, none, none, none, false⟩ : Opts ℚ).spec = (.poisson 1 (1 / 10), false) :=
  ⟨by decide, by simp [Opts.spec]⟩

/-- a dataset whose obs descriptors have one value per observation (hypothesis `hd`) -/
example : ∀ p ∈ (⟨[(1, fun _ => 0), (2, fun _ => 1)], [("run", [7, 8])],
    [("subj", .scalar 3)]⟩ : DSet ℚ Int Int Int).odesc, p.2.length = 2 := by
  intro p hp
  simp only [List.mem_singleton] at hp
  subst hp
  rfl

/-- two well-formed stacks (2 and 1 RDMs) for `mergeStacks_spec` -/
example : StacksWF ([(2, [("time", [some 0, some 1])]), (1, [("subj", [some 5])])] :
    List (Nat × List (String × List (Option Int)))) := by
  intro s hs p hp
  simp only [List.mem_cons, List.not_mem_nil, or_false] at hs
  rcases hs with rfl | rfl <;> simp only [List.mem_singleton] at hp <;> subst hp <;> rfl

/-- `calcTop_singleton` applies to euclidean on rational data with integer labels -/
example (d : DSet ℚ Int Int Int) (hd : ∀ p ∈ d.odesc, p.2.length = d.obs.length) :=
  calcTop_singleton (K := ℚ) (τ := ℚ) 2 id id (fun a b => decide (a ≤ b))
    (fun a b c h1 h2 => by simp only [decide_eq_true_eq] at *; omega)
    (fun a b => by simp only [Bool.or_eq_true, decide_eq_true_eq]; omega)
    ⟨0, .none, none, none, false⟩ (by decide) trivial d hd

/-! ### reuse: a call leaves the dataset object as it found it (round 4) -/

/-- `_parse_input` never hands out the dataset's own array after centring, and without centring
    it does not write: whatever branch, `dataset.measurements` is unchanged, and the working
    array is shared only in the `descriptor=None`, no-centring case (leaves `parseShares`,
    `centreInPlace` from today's source) -/
theorem parseInput_keeps_dataset (P : Nat) (hasDesc flag : Bool) (data means : List (Row K)) :
    (parseMem P hasDesc flag data means).2 = data ∧
    ((parseMem P hasDesc flag data means).1.shared = true → hasDesc = false ∧ flag = false) := by
  cases hasDesc <;> cases flag <;>
    simp [parseMem, Rsa.Gen.C01.parseShares, Rsa.Gen.C01.centreInPlace]

/-- one `calc_rdm` call, any of the four methods, with or without condition descriptor, any
    `remove_mean`: `dataset.measurements` afterwards is what it was before.  Unfolds the leaves
    `dispatch`, `parseFlag` (correlation always centres ⇒ its in-place normalisation `ma /= …`
    hits a fresh array), `estWrites`, `parseShares`, `centreInPlace`. -/
theorem call_keeps_dataset (P : Nat) (sqrt : K → K) (lab : List L) (c : Call K)
    (hm : c.opts.method < 4) (rows : List (Row K)) :
    c.after P sqrt lab rows = rows := by
  have h : c.opts.method = 0 ∨ c.opts.method = 1 ∨ c.opts.method = 2 ∨ c.opts.method = 3 := by
    omega
  rcases h with h | h | h | h <;> cases hd : c.hasDesc <;> cases hr : c.opts.removeMean <;>
    simp [Call.after, callMem, parseMem, h, hd, hr, b2n, Rsa.Gen.C01.dispatch,
      Rsa.Gen.C01.parseFlag, Rsa.Gen.C01.estWrites, Rsa.Gen.C01.parseShares,
      Rsa.Gen.C01.centreInPlace]

/-- **reuse sessions**: successive calls (any methods / options, with or without descriptor) on
    one dataset object return exactly what each call returns on the original data, and the
    object ends as it began — the value of a call does not depend on the object's history -/
theorem session_calls_independent (P : Nat) (sqrt lg : K → K) (lab : List L)
    (calls : List (Call K)) (hm : ∀ c ∈ calls, c.opts.method < 4) (rows : List (Row K)) :
    runSession P sqrt lg lab calls rows =
      (calls.map (fun c => c.result P sqrt lg lab rows), rows) := by
  induction calls with
  | nil => rfl
  | cons c cs ih =>
    have hc := call_keeps_dataset P sqrt lab c (hm c (by simp)) rows
    have := ih (fun c' hc' => hm c' (by simp [hc']))
    simp only [runSession, hc, this, List.map_cons]

/-- every call of a session is the formula on the condition means of the ORIGINAL data
    (`session_calls_independent` + `calcRdm_dispatch`) -/
theorem session_call_value (P : Nat) (sqrt lg : K → K) (lab : List L)
    (calls : List (Call K)) (hm : ∀ c ∈ calls, c.opts.method < 4) (rows : List (Row K))
    (i : Nat) (hi : i < calls.length) :
    (runSession P sqrt lg lab calls rows).1[i]? =
      some (some (distVec P sqrt lg calls[i].opts.spec.1 calls[i].opts.spec.2
        (if calls[i].hasDesc then condMeans (lab.zip rows) else rows))) := by
  rw [session_calls_independent P sqrt lg lab calls hm rows]
  simp only [List.getElem?_map, List.getElem?_eq_getElem hi, Option.map_some, Call.result]
  rw [calcRdm_dispatch P sqrt lg calls[i].opts (hm _ (List.getElem_mem hi))]

/-- non-vacuity: correlation without descriptor, then euclidean with `remove_mean` and a
    descriptor, then poisson — the session of the seeded change — meets the hypotheses -/
example (rows : List (Row ℚ)) :=
  session_calls_independent (K := ℚ) 2 id id [(0 : Int), 1, 0]
    [⟨⟨1, none, none, none, false⟩, false⟩, ⟨⟨0, none, none, none, true⟩, true⟩,
     ⟨⟨3, none, none, none, false⟩, false⟩]
    (by intro c hc; simp only [List.mem_cons, List.not_mem_nil, or_false] at hc
        rcases hc with rfl | rfl | rfl <;> decide) rows

end callLayer

/-! ### movies -/

variable {τ : Type} [DecidableEq τ] [Add τ] [Zero τ] [Div τ] [NatCast τ]

/-- an RDM movie is the stack of the RDMs computed separately at each time point: with
    distinct time values, frame `t` is `calc_rdm` of the slice `measurements[:, :, t]`,
    tagged with the time value; with bins, the same holds for the binned dataset. -/
theorem movie_eq_stack (P : Nat) (sqrt lg : K → K) (le : L → L → Bool) (m : Method K)
    (obs : List (L × TRow K)) (times : List τ) (hnd : times.Nodup) :
    calcMovie (D := D) P sqrt lg le m obs times none =
      times.zipIdx.map (fun vt => (vt.1, calcRdm P sqrt lg le m false (timeSlice obs vt.2) [])) ∧
    ∀ bins : List (List τ),
      calcMovie (D := D) P sqrt lg le m obs times (some bins) =
        calcMovie (D := D) P sqrt lg le m (binTime obs times bins).1 (binTime obs times bins).2 none := by
  constructor
  · show (frames obs times).map _ = _
    unfold frames
    rw [uniqueFirst_of_nodup hnd, List.map_map]
    have key : ∀ vt ∈ times.zipIdx,
        ((fun f : τ × List (L × Row K) => (f.1, calcRdm (D := D) P sqrt lg le m false f.2 [])) ∘
          (fun v => (v, (selTimes times v).flatMap (timeSlice obs)))) vt.1 =
        (vt.1, calcRdm P sqrt lg le m false (timeSlice obs vt.2) []) := by
      intro vt hvt
      have ht : times[vt.2]? = some vt.1 := List.mem_zipIdx_iff_getElem?.mp hvt
      simp only [Function.comp_apply, selTimes_of_nodup hnd ht, List.flatMap_cons,
        List.flatMap_nil, List.append_nil]
    have e : ∀ F : τ → τ × Rdm K L D, times.map F = (times.zipIdx.map Prod.fst).map F := by
      intro F; rw [List.zipIdx_map_fst]
    rw [e, List.map_map]
    exact List.map_congr_left key
  · intro bins
    rfl

/-- general time descriptors (values may repeat): there is one frame per distinct time
    value, in order of first appearance; its dataset consists of the slices at exactly the
    time indices carrying that value (all observations of the first such index, then of
    the next, …), and the frame is `calc_rdm` of that dataset. -/
theorem movie_frames_general (P : Nat) (sqrt lg : K → K) (le : L → L → Bool) (m : Method K)
    (obs : List (L × TRow K)) (times : List τ) :
    calcMovie (D := D) P sqrt lg le m obs times none =
      (uniqueFirst times).map (fun v =>
        (v, calcRdm P sqrt lg le m false ((selTimes times v).flatMap (timeSlice obs)) [])) ∧
    (∀ v t, t ∈ selTimes times v ↔ times[t]? = some v) ∧
    (∀ v, (selTimes times v).Pairwise (· < ·)) := by
  refine ⟨?_, ?_, ?_⟩
  · show (frames obs times).map _ = _
    unfold frames
    rw [List.map_map]
    rfl
  · intro v t
    unfold selTimes
    simp only [List.mem_map, List.mem_filter, decide_eq_true_eq, Prod.exists,
      exists_eq_right]
    exact List.mem_zipIdx_iff_getElem?
  · intro v
    unfold selTimes
    have hs : (times.zipIdx.map (fun p => p.2)).Pairwise (· < ·) := by
      have := List.zipIdx_map_snd 0 times
      rw [show (times.zipIdx.map fun p => p.2) = List.range' 0 times.length from this]
      exact List.pairwise_lt_range'
    exact hs.sublist (List.filter_sublist.map _)

/-- `bin_time`: a binned slice is the mean over exactly the bin's time points (those whose
    time value lies in the bin), and the binned time is the mean of their time values. -/
theorem binTime_spec (obs : List (L × TRow K)) (times : List τ) (bins : List (List τ)) :
    (binTime obs times bins).1 = obs.map (fun p => (p.1, fun c b =>
      ((selBin times (bins.getD b [])).map (fun t => p.2 c t)).sum /
        ((selBin times (bins.getD b [])).length : K))) ∧
    (binTime obs times bins).2 = bins.map (fun bin =>
      ((selBin times bin).filterMap (fun t => times[t]?)).sum / ((selBin times bin).length : τ)) ∧
    ∀ bin t, t ∈ selBin times bin ↔ ∃ v, times[t]? = some v ∧ v ∈ bin := by
  refine ⟨?_, ?_, fun bin t => mem_selBin⟩
  · unfold binTime
    simp only
    apply List.map_congr_left
    intro p _
    congr 1
    funext c b
    have : (bins.map (selBin times)).getD b [] = selBin times (bins.getD b []) := by
      simp only [List.getD_eq_getElem?_getD, List.getElem?_map]
      cases bins[b]? <;> simp [selBin]
    rw [this]
  · unfold binTime
    simp [List.map_map, Function.comp_def]

/-! ### the instantiation the driver executes -/

/-- the label order used by the driver (`Lbl.le`: integers numerically, strings by code
    point) is transitive, total and antisymmetric, i.e. it satisfies the hypotheses of
    `calcRdm_correct`, `calcRdm_obs_perm` and `calcRdmList_entry`. -/
theorem lbl_order_ok :
    (∀ a b c : Lbl, Lbl.le a b → Lbl.le b c → Lbl.le a c) ∧
    (∀ a b : Lbl, Lbl.le a b || Lbl.le b a) ∧
    (∀ a b : Lbl, Lbl.le a b → Lbl.le b a → a = b) := by
  refine ⟨?_, ?_, ?_⟩
  · intro a b c
    cases a <;> cases b <;> cases c <;> simp only [Lbl.le, decide_eq_true_eq] <;>
      first | exact fun h1 h2 => le_trans h1 h2 | simp
  · intro a b
    cases a <;> cases b <;> simp only [Lbl.le, Bool.or_eq_true, decide_eq_true_eq] <;>
      first | exact le_total _ _ | simp
  · intro a b
    cases a <;> cases b <;> simp only [Lbl.le, decide_eq_true_eq] <;>
      first | exact fun h1 h2 => by rw [le_antisymm h1 h2] | simp

/-- the arithmetic the driver runs on `Rat` is the field arithmetic of `ℚ` the theorems
    are instantiated at (`K := ℚ`) -/
example : (inferInstance : Add ℚ) = Rat.instAdd ∧ (inferInstance : Mul ℚ) = Rat.instMul ∧
    (inferInstance : Sub ℚ) = Rat.instSub ∧ (inferInstance : Div ℚ) = Rat.instDiv :=
  ⟨rfl, rfl, rfl, rfl⟩

/-! ### non-vacuity: the hypotheses are met by concrete objects -/

/-- `Real.sqrt` is a square root in the sense the correlation theorem needs -/
example : IsSqrt Real.sqrt := fun x hx => ⟨Real.sqrt_nonneg x, Real.mul_self_sqrt hx⟩

/-- integer labels with `≤`: transitive, total, antisymmetric -/
example : (∀ a b c : Int, decide (a ≤ b) → decide (b ≤ c) → decide (a ≤ c)) ∧
    (∀ a b : Int, decide (a ≤ b) || decide (b ≤ a)) ∧
    (∀ a b : Int, decide (a ≤ b) → decide (b ≤ a) → a = b) := by
  refine ⟨fun a b c h1 h2 => ?_, fun a b => ?_, fun a b h1 h2 => ?_⟩
  · simp only [decide_eq_true_eq] at *; omega
  · simp only [Bool.or_eq_true, decide_eq_true_eq]; omega
  · simp only [decide_eq_true_eq] at *; omega

/-- a symmetric precision (`AᵀA + I` for `A = [[1,2],[0,1]]`) satisfies `MethodOK` -/
example : MethodOK (K := ℚ) 2 id
    (.mahalanobis (some (fun i j => if i = j then (if i = 0 then 2 else 6) else 2))) := by
  intro i j
  by_cases h : i = j
  · subst h; rfl
  · have h' : ¬ j = i := fun e => h e.symm
    simp [h, h']

/-- the hypotheses of `calcRdm_correct` / `calcRdm_obs_perm` are met by integer labels with
    `≤`, rational data and the euclidean method, for every dataset -/
example (obs : List (Int × Row ℚ)) :=
  calcRdm_correct (K := ℚ) (D := Unit) 2 id id (fun a b => decide (a ≤ b))
    (fun a b c h1 h2 => by simp only [decide_eq_true_eq] at *; omega)
    (fun a b => by simp only [Bool.or_eq_true, decide_eq_true_eq]; omega)
    .euclidean trivial false obs []

end Rsa.Props.C01
