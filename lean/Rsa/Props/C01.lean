/-
  Property C01 — RDM estimators equal their formula on condition means, correctly labelled.
  Property theorems only; helper lemmas live in Rsa/Lemmas/C01*.lean.

  `K` is any linearly ordered field (ℚ, on which the driver executes the euclidean /
  mahalanobis model, is one; ℝ with `Real.sqrt` and `Real.log` is another).  `sqrt` and `lg`
  are arbitrary functions; correlation needs `IsSqrt sqrt`, poisson needs nothing of `lg`.
-/
import Mathlib.Analysis.Real.Sqrt
import Mathlib.Data.String.Basic
import Mathlib.Algebra.Order.Field.Rat
import Rsa.Lemmas.C01Label
import Rsa.Lemmas.C01Reorder
import Rsa.Lemmas.C01Calc
import Rsa.Lemmas.C01Build

set_option linter.unusedSectionVars false
set_option linter.unusedVariables false

namespace Rsa.Props.C01

open Rsa Rsa.Calc

variable {K : Type} [Field K] [LinearOrder K] [IsStrictOrderedRing K]
variable {L : Type} [DecidableEq L] {D : Type} [DecidableEq D]

/-! ### labels -/

/-- `get_unique_inverse`: no duplicates, same members, order of first occurrence, and
    `unique[inverse[k]] = l[k]` for every position `k`. -/
theorem uniqueFirst_spec (l : List L) :
    (uniqueFirst l).Nodup ∧ (∀ x, x ∈ uniqueFirst l ↔ x ∈ l) ∧
    (uniqueFirst l).Pairwise (fun a b => l.idxOf a < l.idxOf b) ∧
    (inverse l).length = l.length ∧
    ∀ (k : Nat) (x : L), l[k]? = some x →
      ∃ i : Nat, (inverse l)[k]? = some i ∧ (uniqueFirst l)[i]? = some x := by
  refine ⟨nodup_uniqueFirst l, fun x => mem_uniqueFirst, uniqueFirst_firstOrder l,
    inverse_length l, ?_⟩
  intro k x hk
  obtain ⟨hlt, rfl⟩ := List.getElem?_eq_some_iff.mp hk
  obtain ⟨h', e⟩ := inverse_spec l k hlt
  refine ⟨(inverse l)[k]'(by simpa [inverse_length] using hlt), ?_, ?_⟩
  · exact List.getElem?_eq_getElem _
  · rw [List.getElem?_eq_getElem h', e]

/-! ### condition means -/

/-- `average_dataset_by` (mask on the inverse index) returns, per unique label in order of
    first appearance, the mean of the rows carrying that label. -/
theorem condMeans_eq_meanOf (obs : List (L × Row K)) :
    condMeans obs = (uniqueFirst (obs.map (fun p => p.1))).map (meanOf obs) :=
  condMeans_eq obs

/-- the mean pattern of every condition depends only on the multiset of
    (label, observation) pairs: any reordering of the observations leaves it unchanged. -/
theorem meanOf_perm {obs₁ obs₂ : List (L × Row K)} (h : obs₁.Perm obs₂) (u : L) :
    meanOf obs₁ u = meanOf obs₂ u :=
  Rsa.Calc.meanOf_perm h u

/-! ### algorithm = formula, for all numbers of conditions and channels -/

/-- Gram-matrix form of the Euclidean estimator = squared distance / number of channels -/
theorem euclid_algo_eq_spec (P : Nat) (M : List (Row K)) :
    (extractTriu (euclidMat P M)).map (fun x => Rsa.Gen.C01.euclidNorm x P) =
      (pairsOf M).map (fun p => euclidSpec P p.1 p.2) := by
  unfold euclidMat
  rw [extractTriu_map, List.map_map]
  apply List.map_congr_left
  intro p _
  simp only [Function.comp_apply, Rsa.Gen.C01.euclidEntry, Rsa.Gen.C01.euclidNorm]
  exact euclid_entry P p.1 p.2

/-- kernel form of the Mahalanobis estimator = `(a-b)ᵀ N (a-b) / P`, for symmetric `N` -/
theorem mahal_algo_eq_spec (P : Nat) (N : Nat → Nat → K) (hN : ∀ i j, N i j = N j i)
    (M : List (Row K)) :
    (extractTriu (mahalMat P N M)).map (fun x => Rsa.Gen.C01.mahalNorm x P) =
      (pairsOf M).map (fun p => mahalSpec P N p.1 p.2) := by
  unfold mahalMat
  rw [extractTriu_map, List.map_map]
  apply List.map_congr_left
  intro p _
  simp only [Function.comp_apply, Rsa.Gen.C01.mahalEntry, Rsa.Gen.C01.mahalNorm]
  exact mahal_entry P N hN p.1 p.2

/-- kernel form of the Poisson estimator = `Σ (λa-λb)(lg λa - lg λb) / P`, for every `lg` -/
theorem poisson_algo_eq_spec (P : Nat) (lg : K → K) (M : List (Row K)) :
    (extractTriu (poissonMat P lg M)).map (fun x => Rsa.Gen.C01.poissonNorm x P) =
      (pairsOf M).map (fun p => poissonSpec P lg p.1 p.2) := by
  unfold poissonMat
  rw [extractTriu_map, List.map_map]
  apply List.map_congr_left
  intro p _
  simp only [Function.comp_apply, Rsa.Gen.C01.poissonEntry, Rsa.Gen.C01.poissonNorm]
  exact poisson_entry P lg p.1 p.2

/-- centre / normalise / `1 - M Mᵀ` = `1 -` Pearson correlation -/
theorem corr_algo_eq_spec (P : Nat) (hP : 0 < P) (sqrt : K → K) (hs : IsSqrt sqrt)
    (M : List (Row K)) :
    extractTriu (corrMat P sqrt M) = (pairsOf M).map (fun p => corrSpec P sqrt p.1 p.2) := by
  unfold corrMat
  rw [extractTriu_map, pairsOf_map, List.map_map]
  apply List.map_congr_left
  intro p _
  simp only [Function.comp_apply, Rsa.Gen.C01.corrEntry, Nat.cast_one]
  exact corr_entry P hP sqrt hs p.1 p.2

/-- the regularisation leaf translated from the source is `(m + λ₀ w)/(1 + w)` -/
theorem poissonPrior_eq_rateSpec (pl pw : K) (x : Row K) : rate pl pw x = rateSpec pl pw x := by
  funext c
  simp [rate, rateSpec, Rsa.Gen.C01.poissonPrior]

/-- what each method needs of its options -/
def MethodOK (P : Nat) (sqrt : K → K) : Method K → Prop
  | .mahalanobis (some N) => ∀ i j, N i j = N j i
  | .correlation => 0 < P ∧ IsSqrt sqrt
  | _ => True

/-- every estimator as coded (incl. `remove_mean`, priors, `noise=None`) = its formula -/
theorem distVec_eq_spec (P : Nat) (sqrt lg : K → K) (m : Method K) (hm : MethodOK P sqrt m)
    (rm : Bool) (M : List (Row K)) :
    distVec P sqrt lg m rm M = (pairsOf M).map (fun p => distSpec P sqrt lg m rm p.1 p.2) := by
  cases m with
  | euclidean =>
    cases rm <;>
      simp [distVec, distSpec, prep, euclid_algo_eq_spec, pairsOf_map, List.map_map,
        Function.comp_def, centreC_eq]
  | correlation =>
    simp only [distVec, distSpec]
    exact corr_algo_eq_spec P hm.1 sqrt hm.2 M
  | mahalanobis noise =>
    cases noise with
    | none =>
      cases rm <;>
        simp [distVec, distSpec, prep, euclid_algo_eq_spec, pairsOf_map, List.map_map,
          Function.comp_def, centreC_eq]
    | some N =>
      cases rm <;>
        simp [distVec, distSpec, prep, mahal_algo_eq_spec P N hm, pairsOf_map, List.map_map,
          Function.comp_def, centreC_eq]
  | poisson pl pw =>
    simp only [distVec, distSpec]
    rw [poisson_algo_eq_spec, pairsOf_map, List.map_map]
    apply List.map_congr_left
    intro p _
    simp [poissonPrior_eq_rateSpec]

/-- the specified dissimilarity is a function of the *unordered* pair -/
theorem distSpec_symm (P : Nat) (sqrt lg : K → K) (m : Method K) (rm : Bool) (a b : Row K) :
    distSpec P sqrt lg m rm a b = distSpec P sqrt lg m rm b a := by
  have he : ∀ x y : Row K, euclidSpec P x y = euclidSpec P y x := by
    intro x y
    unfold euclidSpec
    congr 1
    exact sumTo_congr (fun i _ => by ring)
  have hmh : ∀ (N : Nat → Nat → K) (x y : Row K), mahalSpec P N x y = mahalSpec P N y x := by
    intro N x y
    unfold mahalSpec
    congr 1
    exact sumTo_congr (fun i _ => sumTo_congr (fun j _ => by ring))
  cases m with
  | euclidean => cases rm <;> simp [distSpec, he]
  | correlation =>
    simp only [distSpec, corrSpec, covP]
    congr 2
    · congr 1
      exact sumTo_congr (fun i _ => by ring)
    · ring
  | mahalanobis noise =>
    cases noise with
    | none => cases rm <;> simp [distSpec, he]
    | some N => cases rm <;> simp [distSpec, hmh]
  | poisson pl pw =>
    simp only [distSpec, poissonSpec]
    congr 1
    exact sumTo_congr (fun i _ => by ring)

/-! ### the whole call -/

/-- `calc_rdm(ds, method, descriptor=None)`: entry of the pair of observations (i, j) is the
    method's formula on the two observation rows (`pairsOf` = `triu` order). -/
theorem calcRdmNoDesc_correct (P : Nat) (sqrt lg : K → K) (m : Method K)
    (hm : MethodOK P sqrt m) (rm : Bool) (rows : List (Row K)) :
    calcRdmNoDesc P sqrt lg m rm rows =
      (pairsOf rows).map (fun p => distSpec P sqrt lg m rm p.1 p.2) :=
  distVec_eq_spec P sqrt lg m hm rm rows

/-- `calc_rdm(ds, method, descriptor)` for every dataset, labelling and method:
    the conditions of the result are exactly the distinct labels, each once, sorted;
    the condensed vector lists, for every unordered pair of labels in `triu` order, the
    method's formula applied to the two per-condition mean patterns. -/
theorem calcRdm_correct (P : Nat) (sqrt lg : K → K) (le : L → L → Bool)
    (htrans : ∀ a b c, le a b → le b c → le a c) (htotal : ∀ a b, le a b || le b a)
    (m : Method K) (hm : MethodOK P sqrt m) (rm : Bool) (obs : List (L × Row K))
    (descs : List (List D)) :
    let r := calcRdm P sqrt lg le m rm obs descs
    r.labels = (uniqueFirst (obs.map (fun p => p.1))).mergeSort le ∧
    r.labels.Pairwise (fun a b => le a b) ∧ r.labels.Nodup ∧
    (∀ u, u ∈ r.labels ↔ u ∈ obs.map (fun p => p.1)) ∧
    r.vec = (pairsOf r.labels).map
      (fun p => distSpec P sqrt lg m rm (meanOf obs p.1) (meanOf obs p.2)) := by
  intro r
  set us := uniqueFirst (obs.map (fun p => p.1)) with hus
  have hlab : r.labels = us.mergeSort le := by
    show reorderList (argsortBy le us) us = _
    rw [argsortBy_eq, reorderList_spec us _ (sortedPairs_mem le us), sortedPairs_fst]
  have hperm : (us.mergeSort le).Perm us := List.mergeSort_perm us le
  refine ⟨hlab, ?_, ?_, ?_, ?_⟩
  · rw [hlab]
    exact List.pairwise_mergeSort htrans htotal us
  · rw [hlab]
    exact hperm.nodup_iff.mpr (nodup_uniqueFirst _)
  · intro u
    rw [hlab, hperm.mem_iff, hus, mem_uniqueFirst]
  · have hv : distVec P sqrt lg m rm (condMeans obs) =
        (pairsOf us).map (fun p => distSpec P sqrt lg m rm (meanOf obs p.1) (meanOf obs p.2)) := by
      rw [distVec_eq_spec P sqrt lg m hm, condMeans_eq, pairsOf_map, List.map_map]
      rfl
    show reorderVec us.length (argsortBy le us) (distVec P sqrt lg m rm (condMeans obs)) = _
    rw [hv, argsortBy_eq,
      reorderVec_spec us (fun a b => distSpec P sqrt lg m rm (meanOf obs a) (meanOf obs b))
        (fun a b => distSpec_symm P sqrt lg m rm _ _) _ (sortedPairs_mem le us)
        (sortedPairs_snd_nodup le us)]
    rw [hlab, sortedPairs_fst]

/-- the result depends only on the multiset of (observation, label) pairs: for every
    permutation of the observations labels and values are identical. -/
theorem calcRdm_obs_perm (P : Nat) (sqrt lg : K → K) (le : L → L → Bool)
    (htrans : ∀ a b c, le a b → le b c → le a c) (htotal : ∀ a b, le a b || le b a)
    (hanti : ∀ a b, le a b → le b a → a = b)
    (m : Method K) (hm : MethodOK P sqrt m) (rm : Bool) {obs₁ obs₂ : List (L × Row K)}
    (h : obs₁.Perm obs₂) (d₁ d₂ : List (List D)) :
    (calcRdm P sqrt lg le m rm obs₁ d₁).labels = (calcRdm P sqrt lg le m rm obs₂ d₂).labels ∧
    (calcRdm P sqrt lg le m rm obs₁ d₁).vec = (calcRdm P sqrt lg le m rm obs₂ d₂).vec := by
  obtain ⟨l1, s1, _, _, v1⟩ := calcRdm_correct P sqrt lg le htrans htotal m hm rm obs₁ d₁
  obtain ⟨l2, s2, _, _, v2⟩ := calcRdm_correct P sqrt lg le htrans htotal m hm rm obs₂ d₂
  have hl : (calcRdm P sqrt lg le m rm obs₁ d₁).labels =
      (calcRdm P sqrt lg le m rm obs₂ d₂).labels := by
    apply List.Perm.eq_of_pairwise (le := fun a b => le a b = true) (fun a b _ _ => hanti a b) s1 s2
    rw [l1, l2]
    exact ((List.mergeSort_perm _ le).trans (uniqueFirst_perm (h.map _))).trans
      (List.mergeSort_perm _ le).symm
  refine ⟨hl, ?_⟩
  rw [v1, v2, hl]
  apply List.map_congr_left
  intro p _
  rw [Rsa.Calc.meanOf_perm h p.1, Rsa.Calc.meanOf_perm h p.2]

/-- `remove_mean`: the formula is applied to the row-centred condition means for
    euclidean / mahalanobis, and the flag has no effect on correlation and poisson. -/
theorem calcRdm_remove_mean (P : Nat) (sqrt lg : K → K) (a b : Row K) :
    distSpec P sqrt lg .euclidean true a b = euclidSpec P (centre P a) (centre P b) ∧
    (∀ N, distSpec P sqrt lg (.mahalanobis (some N)) true a b =
      mahalSpec P N (centre P a) (centre P b)) ∧
    distSpec P sqrt lg .correlation true a b = distSpec P sqrt lg .correlation false a b ∧
    (∀ pl pw, distSpec P sqrt lg (.poisson pl pw) true a b =
      distSpec P sqrt lg (.poisson pl pw) false a b) ∧
    (∀ (le : L → L → Bool) (obs : List (L × Row K)) (d : List (List D)),
      calcRdm P sqrt lg le .correlation true obs d = calcRdm P sqrt lg le .correlation false obs d) ∧
    (∀ (le : L → L → Bool) pl pw (obs : List (L × Row K)) (d : List (List D)),
      calcRdm P sqrt lg le (.poisson pl pw) true obs d =
        calcRdm P sqrt lg le (.poisson pl pw) false obs d) := by
  refine ⟨rfl, fun _ => rfl, rfl, fun _ _ => rfl, fun _ _ _ => rfl, fun _ _ _ _ _ => rfl⟩

/-! ### descriptors -/

/-- `_build_rdms`: a descriptor column is kept iff every condition is internally constant,
    and then entry `i` is the value shared by all observations of the `i`-th condition. -/
theorem propagate_spec (lab : List L) (dv : List D) (hlen : lab.length ≤ dv.length) :
    (∀ r, propagate lab dv = some r →
      r.length = (uniqueFirst lab).length ∧
      ∀ (i : Nat) (u : L), (uniqueFirst lab)[i]? = some u →
        ∀ p ∈ lab.zip dv, p.1 = u → r[i]? = some p.2) ∧
    ((∀ p ∈ lab.zip dv, ∀ q ∈ lab.zip dv, p.1 = q.1 → p.2 = q.2) →
      ∃ r, propagate lab dv = some r) := by
  constructor
  · intro r hr
    have h := propagate_eq_some.mp hr
    have hl : r.length = (uniqueFirst lab).length := by
      have := congrArg List.length h
      simpa using this.symm
    refine ⟨hl, ?_⟩
    intro i u hi p hp hpu
    have hi' : ((uniqueFirst lab).map (sharedValue lab dv))[i]? = some (sharedValue lab dv u) := by
      simp [hi]
    rw [h] at hi'
    simp only [List.getElem?_map, Option.map_eq_some_iff] at hi'
    obtain ⟨d, hd, hsd⟩ := hi'
    rw [hd, sharedValue_sound hsd.symm p hp hpu]
  · intro hconst
    have hex : ∀ u ∈ uniqueFirst lab, ∃ p ∈ lab.zip dv, p.1 = u := by
      intro u hu
      have hu' : u ∈ lab := mem_uniqueFirst.mp hu
      obtain ⟨k, hk⟩ := List.getElem?_of_mem hu'
      obtain ⟨hk1, hk2⟩ := List.getElem?_eq_some_iff.mp hk
      have hk3 : k < dv.length := Nat.lt_of_lt_of_le hk1 hlen
      refine ⟨(lab[k], dv[k]), ?_, hk2⟩
      exact List.mem_iff_getElem.mpr ⟨k, by simp [hk1, hk3], by simp⟩
    have hall : ∀ u ∈ uniqueFirst lab, ∃ d, sharedValue lab dv u = some d := by
      intro u hu
      obtain ⟨p, hp, hpu⟩ := hex u hu
      exact ⟨p.2, sharedValue_complete ⟨p, hp, hpu⟩
        (fun q hq hqu => hconst q hq p hp (hqu.trans hpu.symm))⟩
    have : ∃ r : List D, (uniqueFirst lab).map (sharedValue lab dv) = r.map some := by
      generalize uniqueFirst lab = us at hall
      induction us with
      | nil => exact ⟨[], rfl⟩
      | cons u us ih =>
        obtain ⟨d, hd⟩ := hall u List.mem_cons_self
        obtain ⟨r, hr⟩ := ih (fun v hv => hall v (List.mem_cons_of_mem _ hv))
        exact ⟨d :: r, by simp [hd, hr]⟩
    obtain ⟨r, hr⟩ := this
    exact ⟨r, propagate_eq_some.mpr hr⟩

/-- every pattern descriptor reported by `calc_rdm` for a condition is the value carried by
    all observations of that condition (also after the alphabetical re-sort). -/
theorem calcRdm_descs (P : Nat) (sqrt lg : K → K) (le : L → L → Bool) (m : Method K)
    (rm : Bool) (obs : List (L × Row K)) (descs : List (List D)) :
    let r := calcRdm P sqrt lg le m rm obs descs
    r.descs.length = descs.length ∧
    ∀ (k : Nat) (dv col : List D), descs[k]? = some dv → r.descs[k]? = some (some col) →
      (obs.map (fun p => p.1)).length ≤ dv.length →
      ∀ (i : Nat) (u : L), r.labels[i]? = some u →
        ∀ p ∈ (obs.map (fun p => p.1)).zip dv, p.1 = u → col[i]? = some p.2 := by
  intro r
  set lab := obs.map (fun p => p.1) with hlab
  set us := uniqueFirst lab with hus
  set ord := argsortBy le us with hord
  have hdescs : r.descs = descs.map (fun dv => (propagate lab dv).map (reorderList ord)) := by
    show (descs.map (propagate lab)).map (fun o => o.map (reorderList ord)) = _
    rw [List.map_map]
    rfl
  have hlabels : r.labels = reorderList ord us := rfl
  have hvalid : ∀ j ∈ ord, j < us.length := by
    intro j hj
    rw [hord, argsortBy_eq] at hj
    obtain ⟨p, hp, rfl⟩ := List.mem_map.mp hj
    exact (List.getElem?_eq_some_iff.mp (sortedPairs_mem le us p hp)).1
  refine ⟨by rw [hdescs]; simp, ?_⟩
  intro k dv col hk hcol hlen i u hu p hp hpu
  rw [hdescs, List.getElem?_map, hk] at hcol
  simp only [Option.map_some, Option.some.injEq, Option.map_eq_some_iff] at hcol
  obtain ⟨c0, hc0, rfl⟩ := hcol
  obtain ⟨hl0, hval⟩ := (propagate_spec lab dv hlen).1 c0 hc0
  rw [hlabels, reorderList_getElem? ord us hvalid] at hu
  rw [reorderList_getElem? ord c0 (fun j hj => by rw [hl0]; exact hvalid j hj)]
  cases hoi : ord[i]? with
  | none => rw [hoi] at hu; simp at hu
  | some j =>
    rw [hoi] at hu
    simp only [Option.bind_some] at hu ⊢
    exact hval j u hu p hp hpu

/-! ### lists of datasets -/

/-- `calc_rdm([ds₀, ds₁, …], descriptor)`: the conditions are the union of the datasets'
    labels; RDM `k` of the stack holds, for a pair of labels both present in `ds k`, the
    formula on the means of `ds k` (with that dataset's method options), and is missing
    (NaN) exactly for the pairs with a label absent from `ds k`. -/
theorem calcRdmList_entry (P : Nat) (sqrt lg : K → K) (le : L → L → Bool)
    (htrans : ∀ a b c, le a b → le b c → le a c) (htotal : ∀ a b, le a b || le b a)
    (ms : List (Method K)) (hms : ∀ m ∈ ms, MethodOK P sqrt m) (rm : Bool)
    (dss : List (List (L × Row K))) :
    let res := calcRdmList P sqrt lg le ms rm dss
    res.1.Nodup ∧
    (∀ u, u ∈ res.1 ↔ ∃ md ∈ ms.zip dss, u ∈ md.2.map (fun p => p.1)) ∧
    res.2.length = (ms.zip dss).length ∧
    ∀ (k : Nat) (m : Method K) (ds : List (L × Row K)), (ms.zip dss)[k]? = some (m, ds) →
      res.2[k]? = some ((pairsOf res.1).map (fun p =>
        if p.1 ∈ ds.map (fun q => q.1) ∧ p.2 ∈ ds.map (fun q => q.1) then
          some (distSpec P sqrt lg m rm (meanOf ds p.1) (meanOf ds p.2))
        else none)) := by
  intro res
  set rs := (ms.zip dss).map (fun p => calcRdm (D := Unit) P sqrt lg le p.1 rm p.2 []) with hrs
  have hres1 : res.1 = uniqueFirst (rs.flatMap (fun r => r.labels)) := rfl
  have hmemlab : ∀ md ∈ ms.zip dss, ∀ u,
      u ∈ (calcRdm (D := Unit) P sqrt lg le md.1 rm md.2 []).labels ↔ u ∈ md.2.map (fun p => p.1) := by
    intro md hmd u
    exact (calcRdm_correct P sqrt lg le htrans htotal md.1 (hms _ (List.of_mem_zip hmd).1) rm md.2
      []).2.2.2.1 u
  refine ⟨by rw [hres1]; exact nodup_uniqueFirst _, ?_, by simp [res, calcRdmList, fromPartials], ?_⟩
  · intro u
    rw [hres1, mem_uniqueFirst, List.mem_flatMap]
    constructor
    · rintro ⟨r, hr, hu⟩
      rw [hrs] at hr
      obtain ⟨md, hmd, rfl⟩ := List.mem_map.mp hr
      exact ⟨md, hmd, (hmemlab md hmd u).mp hu⟩
    · rintro ⟨md, hmd, hu⟩
      exact ⟨_, List.mem_map.mpr ⟨md, hmd, rfl⟩, (hmemlab md hmd u).mpr hu⟩
  · intro k m ds hk
    have hmd : (m, ds) ∈ ms.zip dss := List.mem_of_getElem? hk
    have hmok : MethodOK P sqrt m := hms _ (List.of_mem_zip hmd).1
    obtain ⟨_, _, hnd, hmem, hvec⟩ :=
      calcRdm_correct (D := Unit) P sqrt lg le htrans htotal m hmok rm ds []
    set r := calcRdm (D := Unit) P sqrt lg le m rm ds [] with hr
    have hk2 : res.2[k]? = some ((pairsOf res.1).map (fun p =>
        if p.1 ∈ r.labels ∧ p.2 ∈ r.labels then
          some (sqLookup r.labels.length r.vec (r.labels.idxOf p.1) (r.labels.idxOf p.2))
        else none)) := by
      show (rs.map _)[k]? = _
      rw [List.getElem?_map, hrs, List.getElem?_map, hk]
      rfl
    rw [hk2]
    congr 1
    apply List.map_congr_left
    intro p hp
    have hne : p.1 ≠ p.2 := pairsOf_ne_of_nodup (by rw [hres1]; exact nodup_uniqueFirst _) hp
    by_cases hc : p.1 ∈ r.labels ∧ p.2 ∈ r.labels
    · rw [if_pos hc, if_pos ⟨(hmem _).mp hc.1, (hmem _).mp hc.2⟩, hvec]
      congr 1
      have h1 : r.labels[r.labels.idxOf p.1]? = some p.1 := by
        rw [List.getElem?_eq_getElem (List.idxOf_lt_length_of_mem hc.1)]
        simp
      have h2 : r.labels[r.labels.idxOf p.2]? = some p.2 := by
        rw [List.getElem?_eq_getElem (List.idxOf_lt_length_of_mem hc.2)]
        simp
      have hidx : r.labels.idxOf p.1 ≠ r.labels.idxOf p.2 := by
        intro e
        rw [e, h2] at h1
        exact hne (Option.some.inj h1).symm
      exact sqLookup_spec r.labels
        (fun a b => distSpec P sqrt lg m rm (meanOf ds a) (meanOf ds b))
        (fun a b => distSpec_symm P sqrt lg m rm _ _) hidx h1 h2
    · rw [if_neg hc, if_neg (fun h => hc ⟨(hmem _).mpr h.1, (hmem _).mpr h.2⟩)]

/-- supplying a dataset singly or as a one-element list changes nothing: same labels,
    same values, nothing missing. -/
theorem calcRdmList_singleton (P : Nat) (sqrt lg : K → K) (le : L → L → Bool)
    (htrans : ∀ a b c, le a b → le b c → le a c) (htotal : ∀ a b, le a b || le b a)
    (m : Method K) (hm : MethodOK P sqrt m) (rm : Bool) (ds : List (L × Row K)) :
    calcRdmList P sqrt lg le [m] rm [ds] =
      ((calcRdm (D := Unit) P sqrt lg le m rm ds []).labels,
       [(calcRdm (D := Unit) P sqrt lg le m rm ds []).vec.map some]) := by
  obtain ⟨_, _, hnd, hmem, hvec⟩ :=
    calcRdm_correct (D := Unit) P sqrt lg le htrans htotal m hm rm ds []
  obtain ⟨_, _, hlen, hent⟩ := calcRdmList_entry P sqrt lg le htrans htotal [m]
    (fun m' hm' => by rw [List.mem_singleton.mp hm']; exact hm) rm [ds]
  have h1 : (calcRdmList P sqrt lg le [m] rm [ds]).1 =
      (calcRdm (D := Unit) P sqrt lg le m rm ds []).labels := by
    show uniqueFirst (List.flatMap _ [calcRdm (D := Unit) P sqrt lg le m rm ds []]) = _
    simp only [List.flatMap_cons, List.flatMap_nil, List.append_nil]
    exact uniqueFirst_of_nodup hnd
  have h0 := hent 0 m ds rfl
  have hl : (calcRdmList P sqrt lg le [m] rm [ds]).2.length = 1 := by simpa using hlen
  have h2 : (calcRdmList P sqrt lg le [m] rm [ds]).2 =
      [(calcRdm (D := Unit) P sqrt lg le m rm ds []).vec.map some] := by
    match hx : (calcRdmList P sqrt lg le [m] rm [ds]).2, hl with
    | [x], _ =>
      rw [hx] at h0
      simp only [List.getElem?_cons_zero, Option.some.injEq] at h0
      rw [h0, h1, hvec, List.map_map]
      congr 1
      apply List.map_congr_left
      intro p hp
      obtain ⟨hp1, hp2⟩ := mem_pairsOf hp
      simp [(hmem p.1).mp hp1, (hmem p.2).mp hp2]
  exact Prod.ext h1 h2

/-- `from_partials`: every expanded vector has the length the source computes
    (`int(n_patterns * (n_patterns-1) / 2)`, translated leaf) for the union of the labels. -/
theorem fromPartials_length {α : Type} [Zero α] (rs : List (Rdm α L D)) :
    ∀ v ∈ (fromPartials rs).2, v.length = Rsa.Gen.C01.vectorLen (fromPartials rs).1.length := by
  intro v hv
  simp only [fromPartials, List.mem_map] at hv
  obtain ⟨r, _, rfl⟩ := hv
  simp [fromPartials, Rsa.Gen.C01.vectorLen, pairsOf_length]

/-- lookup in a list built from its own keys -/
theorem lookup_map_self {V : Type} (us : List String) (f : String → V) (n : String) :
    (us.map (fun m => (m, f m))).lookup n = if n ∈ us then some (f n) else none := by
  induction us with
  | nil => simp
  | cons u us ih =>
    simp only [List.map_cons, List.lookup_cons, List.mem_cons]
    by_cases h : n = u
    · subst h; simp
    · have : (n == u) = false := by simpa using h
      rw [this, ih]
      simp [h]

theorem mem_keys_of_lookup {V : Type} {d : List (String × V)} {n : String} {v : V}
    (h : d.lookup n = some v) : n ∈ d.map (fun p => p.1) := by
  induction d with
  | nil => simp at h
  | cons p ps ih =>
    rw [List.lookup_cons] at h
    by_cases e : n = p.1
    · simp [e]
    · have : (n == p.1) = false := by simpa using e
      rw [this] at h
      exact List.mem_cons_of_mem _ (ih h)

/-- the dataset's descriptors are attached to the right RDM of the stack: every column of
    the merged rdm descriptors has one entry per dataset, entry `k` is dataset `k`'s own
    value (`none` if it has none), and every descriptor of dataset `k` has a column. -/
theorem mergeRdmDescs_spec {V : Type} (dss : List (List (String × V))) (k : Nat)
    (d : List (String × V)) (hk : dss[k]? = some d) (n : String) :
    (∀ col, (mergeRdmDescs dss).lookup n = some col →
      col.length = dss.length ∧ col[k]? = some (d.lookup n)) ∧
    (∀ v, d.lookup n = some v →
      ∃ col, (mergeRdmDescs dss).lookup n = some col ∧ col[k]? = some (some v)) := by
  unfold mergeRdmDescs
  rw [lookup_map_self]
  constructor
  · intro col hcol
    split at hcol
    · simp only [Option.some.injEq] at hcol
      subst hcol
      simp [hk]
    · simp at hcol
  · intro v hv
    have hmem : n ∈ uniqueFirst (dss.flatMap (fun d => d.map (fun p => p.1))) := by
      rw [mem_uniqueFirst, List.mem_flatMap]
      exact ⟨d, List.mem_of_getElem? hk, mem_keys_of_lookup hv⟩
    rw [if_pos hmem]
    exact ⟨_, rfl, by simp [hk, hv]⟩

/-! ### movies -/

variable {τ : Type} [DecidableEq τ] [Add τ] [Zero τ] [Div τ] [NatCast τ]

/-- an RDM movie is the stack of the RDMs computed separately at each time point: with
    distinct time values, frame `t` is `calc_rdm` of the slice `measurements[:, :, t]`,
    tagged with the time value; with bins, the same holds for the binned dataset. -/
theorem movie_eq_stack (P : Nat) (sqrt lg : K → K) (le : L → L → Bool) (m : Method K)
    (obs : List (L × TRow K)) (times : List τ) (hnd : times.Nodup) :
    calcMovie (D := D) P sqrt lg le m obs times none =
      times.zipIdx.map (fun vt => (vt.1, calcRdm P sqrt lg le m false (timeSlice obs vt.2) [])) ∧
    ∀ bins : List (List τ),
      calcMovie (D := D) P sqrt lg le m obs times (some bins) =
        calcMovie (D := D) P sqrt lg le m (binTime obs times bins).1 (binTime obs times bins).2 none := by
  constructor
  · show (frames obs times).map _ = _
    unfold frames
    rw [uniqueFirst_of_nodup hnd, List.map_map]
    have key : ∀ vt ∈ times.zipIdx,
        ((fun f : τ × List (L × Row K) => (f.1, calcRdm (D := D) P sqrt lg le m false f.2 [])) ∘
          (fun v => (v, (selTimes times v).flatMap (timeSlice obs)))) vt.1 =
        (vt.1, calcRdm P sqrt lg le m false (timeSlice obs vt.2) []) := by
      intro vt hvt
      have ht : times[vt.2]? = some vt.1 := List.mem_zipIdx_iff_getElem?.mp hvt
      simp only [Function.comp_apply, selTimes_of_nodup hnd ht, List.flatMap_cons,
        List.flatMap_nil, List.append_nil]
    have e : ∀ F : τ → τ × Rdm K L D, times.map F = (times.zipIdx.map Prod.fst).map F := by
      intro F; rw [List.zipIdx_map_fst]
    rw [e, List.map_map]
    exact List.map_congr_left key
  · intro bins
    rfl

/-- general time descriptors (values may repeat): there is one frame per distinct time
    value, in order of first appearance; its dataset consists of the slices at exactly the
    time indices carrying that value (all observations of the first such index, then of
    the next, …), and the frame is `calc_rdm` of that dataset. -/
theorem movie_frames_general (P : Nat) (sqrt lg : K → K) (le : L → L → Bool) (m : Method K)
    (obs : List (L × TRow K)) (times : List τ) :
    calcMovie (D := D) P sqrt lg le m obs times none =
      (uniqueFirst times).map (fun v =>
        (v, calcRdm P sqrt lg le m false ((selTimes times v).flatMap (timeSlice obs)) [])) ∧
    (∀ v t, t ∈ selTimes times v ↔ times[t]? = some v) ∧
    (∀ v, (selTimes times v).Pairwise (· < ·)) := by
  refine ⟨?_, ?_, ?_⟩
  · show (frames obs times).map _ = _
    unfold frames
    rw [List.map_map]
    rfl
  · intro v t
    unfold selTimes
    simp only [List.mem_map, List.mem_filter, decide_eq_true_eq, Prod.exists,
      exists_eq_right]
    exact List.mem_zipIdx_iff_getElem?
  · intro v
    unfold selTimes
    have hs : (times.zipIdx.map (fun p => p.2)).Pairwise (· < ·) := by
      have := List.zipIdx_map_snd 0 times
      rw [show (times.zipIdx.map fun p => p.2) = List.range' 0 times.length from this]
      exact List.pairwise_lt_range'
    exact hs.sublist (List.filter_sublist.map _)

/-- `bin_time`: a binned slice is the mean over exactly the bin's time points (those whose
    time value lies in the bin), and the binned time is the mean of their time values. -/
theorem binTime_spec (obs : List (L × TRow K)) (times : List τ) (bins : List (List τ)) :
    (binTime obs times bins).1 = obs.map (fun p => (p.1, fun c b =>
      ((selBin times (bins.getD b [])).map (fun t => p.2 c t)).sum /
        ((selBin times (bins.getD b [])).length : K))) ∧
    (binTime obs times bins).2 = bins.map (fun bin =>
      ((selBin times bin).filterMap (fun t => times[t]?)).sum / ((selBin times bin).length : τ)) ∧
    ∀ bin t, t ∈ selBin times bin ↔ ∃ v, times[t]? = some v ∧ v ∈ bin := by
  refine ⟨?_, ?_, fun bin t => mem_selBin⟩
  · unfold binTime
    simp only
    apply List.map_congr_left
    intro p _
    congr 1
    funext c b
    have : (bins.map (selBin times)).getD b [] = selBin times (bins.getD b []) := by
      simp only [List.getD_eq_getElem?_getD, List.getElem?_map]
      cases bins[b]? <;> simp [selBin]
    rw [this]
  · unfold binTime
    simp [List.map_map, Function.comp_def]

/-! ### the instantiation the driver executes -/

/-- the label order used by the driver (`Lbl.le`: integers numerically, strings by code
    point) is transitive, total and antisymmetric, i.e. it satisfies the hypotheses of
    `calcRdm_correct`, `calcRdm_obs_perm` and `calcRdmList_entry`. -/
theorem lbl_order_ok :
    (∀ a b c : Lbl, Lbl.le a b → Lbl.le b c → Lbl.le a c) ∧
    (∀ a b : Lbl, Lbl.le a b || Lbl.le b a) ∧
    (∀ a b : Lbl, Lbl.le a b → Lbl.le b a → a = b) := by
  refine ⟨?_, ?_, ?_⟩
  · intro a b c
    cases a <;> cases b <;> cases c <;> simp only [Lbl.le, decide_eq_true_eq] <;>
      first | exact fun h1 h2 => le_trans h1 h2 | simp
  · intro a b
    cases a <;> cases b <;> simp only [Lbl.le, Bool.or_eq_true, decide_eq_true_eq] <;>
      first | exact le_total _ _ | simp
  · intro a b
    cases a <;> cases b <;> simp only [Lbl.le, decide_eq_true_eq] <;>
      first | exact fun h1 h2 => by rw [le_antisymm h1 h2] | simp

/-- the arithmetic the driver runs on `Rat` is the field arithmetic of `ℚ` the theorems
    are instantiated at (`K := ℚ`) -/
example : (inferInstance : Add ℚ) = Rat.instAdd ∧ (inferInstance : Mul ℚ) = Rat.instMul ∧
    (inferInstance : Sub ℚ) = Rat.instSub ∧ (inferInstance : Div ℚ) = Rat.instDiv :=
  ⟨rfl, rfl, rfl, rfl⟩

/-! ### non-vacuity: the hypotheses are met by concrete objects -/

/-- `Real.sqrt` is a square root in the sense the correlation theorem needs -/
example : IsSqrt Real.sqrt := fun x hx => ⟨Real.sqrt_nonneg x, Real.mul_self_sqrt hx⟩

/-- integer labels with `≤`: transitive, total, antisymmetric -/
example : (∀ a b c : Int, decide (a ≤ b) → decide (b ≤ c) → decide (a ≤ c)) ∧
    (∀ a b : Int, decide (a ≤ b) || decide (b ≤ a)) ∧
    (∀ a b : Int, decide (a ≤ b) → decide (b ≤ a) → a = b) := by
  refine ⟨fun a b c h1 h2 => ?_, fun a b => ?_, fun a b h1 h2 => ?_⟩
  · simp only [decide_eq_true_eq] at *; omega
  · simp only [Bool.or_eq_true, decide_eq_true_eq]; omega
  · simp only [decide_eq_true_eq] at *; omega

/-- a symmetric precision (`AᵀA + I` for `A = [[1,2],[0,1]]`) satisfies `MethodOK` -/
example : MethodOK (K := ℚ) 2 id
    (.mahalanobis (some (fun i j => if i = j then (if i = 0 then 2 else 6) else 2))) := by
  intro i j
  by_cases h : i = j
  · subst h; rfl
  · have h' : ¬ j = i := fun e => h e.symm
    simp [h, h']

/-- the hypotheses of `calcRdm_correct` / `calcRdm_obs_perm` are met by integer labels with
    `≤`, rational data and the euclidean method, for every dataset -/
example (obs : List (Int × Row ℚ)) :=
  calcRdm_correct (K := ℚ) (D := Unit) 2 id id (fun a b => decide (a ≤ b))
    (fun a b c h1 h2 => by simp only [decide_eq_true_eq] at *; omega)
    (fun a b => by simp only [Bool.or_eq_true, decide_eq_true_eq]; omega)
    .euclidean trivial false obs []

end Rsa.Props.C01
