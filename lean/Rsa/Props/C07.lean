/-
  Property C07 — upper noise ceiling is unbeatable; lower is leave-one-out and not above it.

  Objects (`Rsa.Core.Ceiling`): `poolD m` = `pool_rdm` on vectors without missing values,
  `poolO m` = the same as coded on vectors with missing values (`none` = NaN), `simV m V` =
  `compare` for one pair, `bootNoiseCeilingG pool sim rows o` = `boot_noise_ceiling` (leave-one-group-
  out folds of `Rsa.Folds`, C05), `candidateScore sim rows o c` = the score the same loop gives an
  arbitrary candidate RDM `c`, `cvPredTrain / cvPredTest` = the two predictions of
  `cv_noise_ceiling`.  "Every RDM its own group" is: `o.nR = rows.length`, `o.rdesc` injective on
  the RDM positions, at least two RDMs.

  The only data hypothesis is that all RDM vectors have the same length.  Zero (cosine) / constant
  (correlation) data RDMs are allowed: the model leaves them out of the pool (their similarity to
  anything is 0 by the guard of `_cosine`) — the *repaired* behaviour; the pinned tree divides by
  their zero RMS / standard deviation and raises (see notes/C07.md).
-/
import Rsa.Lemmas.C07Opt
import Rsa.Lemmas.C07Rank
import Rsa.Lemmas.C07Loo
import Rsa.Lemmas.C07White
import Rsa.Lemmas.C07Struct
import Rsa.Lemmas.C07Group
import Rsa.Lemmas.C07CvNan
import Rsa.Lemmas.C07Fast
import Mathlib.Tactic.IntervalCases

set_option linter.unusedSectionVars false
set_option linter.unusedVariables false
set_option linter.unusedSimpArgs false

namespace Rsa.Props.C07
open Rsa Rsa.Compare Rsa.Ceiling Rsa.Folds

/-- every data RDM forms its own group, and there are at least two -/
structure Singleton (o : Obj) (n : ℕ) : Prop where
  size : o.nR = n
  inj : ∀ i j, i < o.nR → j < o.nR → o.rdesc i = o.rdesc j → i = j
  two : 2 ≤ o.nR

/-! ## 1. the pooled RDM is optimal -/

/-- the mean cosine similarity of any non-zero candidate `c` to the data RDMs is its normalised
    inner product with the pooled RDM (times `1/√p`): all that matters about the data is the pool -/
theorem mean_sim_eq_sim_to_pool (c : List ℝ) (p : ℕ) (rows : List (List ℝ)) (hne : rows ≠ [])
    (hlen : ∀ r ∈ rows, r.length = p) (hc : 0 < dot c c) :
    (rows.map (cosine c)).sum / (rows.length : ℝ) =
      dot c (poolD .cosine rows) / (Real.sqrt p * Real.sqrt (dot c c)) := by
  rw [sum_cosine_eq c p rows hne hlen hc]
  have hn : (rows.length : ℝ) ≠ 0 := by
    have : rows.length ≠ 0 := fun h => hne (List.eq_nil_of_length_eq_zero h)
    exact_mod_cast this
  field_simp

/-- cosine: no candidate RDM (zero, negative, anything) has a larger summed similarity to the data
    RDMs than `pool_rdm(rdms, 'cosine')` (Cauchy–Schwarz) -/
theorem cosine_pool_optimal (c : List ℝ) (p : ℕ) (rows : List (List ℝ)) (hne : rows ≠ [])
    (hlen : ∀ r ∈ rows, r.length = p) :
    (rows.map (cosine c)).sum ≤ (rows.map (cosine (poolD .cosine rows))).sum :=
  sum_cosine_le_pool c p rows hne hlen

/-- Pearson correlation: the same for `pool_rdm(rdms, 'corr')` (z-score, mean, minus the minimum —
    the final shift is immaterial) -/
theorem corr_pool_optimal (c : List ℝ) (p : ℕ) (rows : List (List ℝ)) (hne : rows ≠ [])
    (hlen : ∀ r ∈ rows, r.length = p) :
    (rows.map (corr c)).sum ≤ (rows.map (corr (poolD .corr rows))).sum :=
  sum_corr_le_pool c p rows hne hlen

/-- rho-a: among all candidates — **ties in the candidate and in the data allowed** — the mean of
    the data rank vectors maximises the summed rho-a (pairwise rearrangement argument) -/
theorem rhoa_pool_optimal (c : List ℝ) (p : ℕ) (rows : List (List ℝ)) (hne : rows ≠ [])
    (hlen : ∀ r ∈ rows, r.length = p) (hc : c.length = p) :
    (rows.map (rhoA c)).sum ≤ (rows.map (rhoA (poolD .rhoA rows))).sum :=
  sum_rhoA_le_pool c p rows hne hlen hc

/-! ## 2. what `boot_noise_ceiling` computes when every RDM is its own group -/

/-- lower = mean over RDMs `i` of sim(pool of the *other* RDMs, RDM `i`); upper = mean over `i` of
    sim(pool of all RDMs, RDM `i`) — for every pooling rule and similarity -/
theorem singleton_groups_spec {β π : Type} (pool : List β → π) (sim : π → β → ℝ) (rows : List β)
    (o : Obj) (hs : Singleton o rows.length) :
    bootNoiseCeilingG pool sim rows o =
      bounds ((List.range rows.length).map fun i =>
        (meanSim sim (pool (rows.eraseIdx i)) (selectRows rows [i]),
         meanSim sim (pool rows) (selectRows rows [i]))) ∧
    (bootNoiseCeilingG pool sim rows o).2 = (rows.map (sim (pool rows))).sum / (rows.length : ℝ) ∧
    ∀ c, candidateScore sim rows o c = (rows.map (sim c)).sum / (rows.length : ℝ) :=
  ⟨boot_singleton_spec pool sim rows o hs.size hs.inj hs.two,
   upper_singleton pool sim rows o hs.size hs.inj hs.two,
   fun c => candidateScore_singleton sim rows o c hs.size hs.inj hs.two⟩

/-- the upper bound *is* the score of the pooled RDM (any grouping): it is attained -/
theorem upper_attained {β π : Type} (pool : List β → π) (sim : π → β → ℝ) (rows : List β) (o : Obj) :
    (bootNoiseCeilingG pool sim rows o).2 = candidateScore sim rows o (pool rows) := by
  rw [candidateScore_eq_boot]
  unfold bootNoiseCeilingG bounds bootTerms
  simp [List.map_map, Function.comp_def]

theorem div_le_div_nat (a b : ℝ) (n : ℕ) (h : a ≤ b) : a / (n : ℝ) ≤ b / (n : ℝ) :=
  div_le_div_of_nonneg_right h (Nat.cast_nonneg n)

/-- cosine, every RDM its own group: **no candidate RDM scores above the upper noise ceiling** -/
theorem upper_unbeatable_cosine (V : List (List ℝ)) (p : ℕ) (rows : List (List ℝ)) (o : Obj)
    (hs : Singleton o rows.length) (hlen : ∀ r ∈ rows, r.length = p) (c : List ℝ) :
    candidateScore (simV .cosine V) rows o c
      ≤ (bootNoiseCeilingG (poolD .cosine) (simV .cosine V) rows o).2 := by
  have hne : rows ≠ [] := by
    intro h; have := hs.two; rw [hs.size, h] at this; simp at this
  rw [candidateScore_singleton _ rows o c hs.size hs.inj hs.two,
    upper_singleton _ _ rows o hs.size hs.inj hs.two]
  exact div_le_div_nat _ _ _ (sum_cosine_le_pool c p rows hne hlen)

/-- Pearson correlation, every RDM its own group -/
theorem upper_unbeatable_corr (V : List (List ℝ)) (p : ℕ) (rows : List (List ℝ)) (o : Obj)
    (hs : Singleton o rows.length) (hlen : ∀ r ∈ rows, r.length = p) (c : List ℝ) :
    candidateScore (simV .corr V) rows o c
      ≤ (bootNoiseCeilingG (poolD .corr) (simV .corr V) rows o).2 := by
  have hne : rows ≠ [] := by
    intro h; have := hs.two; rw [hs.size, h] at this; simp at this
  rw [candidateScore_singleton _ rows o c hs.size hs.inj hs.two,
    upper_singleton _ _ rows o hs.size hs.inj hs.two]
  exact div_le_div_nat _ _ _ (sum_corr_le_pool c p rows hne hlen)

/-- rho-a, every RDM its own group, candidates and data with arbitrary ties -/
theorem upper_unbeatable_rhoa (V : List (List ℝ)) (p : ℕ) (rows : List (List ℝ)) (o : Obj)
    (hs : Singleton o rows.length) (hlen : ∀ r ∈ rows, r.length = p) (c : List ℝ)
    (hc : c.length = p) :
    candidateScore (simV .rhoA V) rows o c
      ≤ (bootNoiseCeilingG (poolD .rhoA) (simV .rhoA V) rows o).2 := by
  have hne : rows ≠ [] := by
    intro h; have := hs.two; rw [hs.size, h] at this; simp at this
  rw [candidateScore_singleton _ rows o c hs.size hs.inj hs.two,
    upper_singleton _ _ rows o hs.size hs.inj hs.two]
  exact div_le_div_nat _ _ _ (sum_rhoA_le_pool c p rows hne hlen hc)

/-! ## 3. lower ≤ upper -/

/-- for **every** symmetric positive semi-definite form `B` on the RDM entries (plain or whitened):
    the RMS-normalised pool without RDM `i` is no more `B`-similar to RDM `i` than the full pool -/
theorem loo_term_le {p : ℕ} {B : List ℝ → List ℝ → ℝ} (h : IPForm p B)
    (rows : List (List ℝ)) (i : ℕ) (hi : i < rows.length) (h2 : 2 ≤ rows.length)
    (hlen : ∀ r ∈ rows, r.length = p) (hpos : 0 < dot rows[i] rows[i]) (hB : 0 < B rows[i] rows[i]) :
    cosB B (poolD .cosine (rows.eraseIdx i)) rows[i] ≤ cosB B (poolD .cosine rows) rows[i] :=
  loo_cosine_pool_le h rows i hi h2 hlen hpos hB

theorem exists_ne_zero_of_dot_pos {r : List ℝ} (h : 0 < dot r r) : ∃ c ∈ r, c ≠ 0 := by
  by_contra hz
  push Not at hz
  have : dot r r = 0 := by
    rw [dot_self_eq_sum_sq]
    apply List.sum_eq_zero
    intro x hx
    obtain ⟨a, ha, rfl⟩ := List.mem_map.mp hx
    rw [hz a ha, mul_zero]
  linarith

/-- the whitened instance: `V` symmetric positive definite, any correct linear solver `sol`;
    the form is `xᵀV⁻¹y` -/
theorem loo_term_le_whitened {V : List (List ℝ)} {p : ℕ} (hV : SymPosDef V p)
    {sol : List ℝ → List ℝ} (hsol : IsSolver V p sol)
    (rows : List (List ℝ)) (i : ℕ) (hi : i < rows.length) (h2 : 2 ≤ rows.length)
    (hlen : ∀ r ∈ rows, r.length = p) (hpos : 0 < dot rows[i] rows[i]) :
    cosB (wform sol) (poolD .cosine (rows.eraseIdx i)) rows[i]
      ≤ cosB (wform sol) (poolD .cosine rows) rows[i] :=
  loo_cosine_pool_le (ipForm_whitened hV hsol) rows i hi h2 hlen hpos
    (wform_pos hV hsol _ (hlen _ (List.getElem_mem hi)) (exists_ne_zero_of_dot_pos hpos))

/-- the same for correlation-type pooling and comparison (everything mean-removed first) -/
theorem loo_corr_term_le {p : ℕ} {B : List ℝ → List ℝ → ℝ} (h : IPForm p B)
    (rows : List (List ℝ)) (i : ℕ) (hi : i < rows.length) (h2 : 2 ≤ rows.length)
    (hlen : ∀ r ∈ rows, r.length = p) (hpos : 0 < dot (center rows[i]) (center rows[i]))
    (hB : 0 < B (center rows[i]) (center rows[i])) :
    cosB B (center (poolD .corr (rows.eraseIdx i))) (center rows[i])
      ≤ cosB B (center (poolD .corr rows)) (center rows[i]) := by
  have hne : rows ≠ [] := by rintro rfl; simp at hi
  have hel : (rows.eraseIdx i).length = rows.length - 1 := List.length_eraseIdx_of_lt hi
  have hne' : rows.eraseIdx i ≠ [] := by
    intro hh; rw [hh] at hel; simp at hel; omega
  have hlen' : ∀ r ∈ rows.eraseIdx i, r.length = p := fun r hr => hlen r (List.mem_of_mem_eraseIdx hr)
  rw [center_poolD_corr p _ hne' hlen', center_poolD_corr p _ hne hlen, ← eraseIdx_map]
  have hi' : i < (rows.map center).length := by simpa using hi
  have hg : (rows.map center)[i] = center rows[i] := by simp
  have := loo_cosine_pool_le h (rows.map center) i hi' (by simpa using h2)
    (map_center_length p rows hlen) (by rw [hg]; exact hpos) (by rw [hg]; exact hB)
  rw [hg] at this
  exact this

theorem dot_eq_zero_of_self_zero {r : List ℝ} (h : ¬ 0 < dot r r) (y : List ℝ) : dot r y = 0 := by
  have hz : dot r r = 0 := le_antisymm (not_lt.mp h) (dot_self_nonneg r)
  have := dot_sq_le r y
  rw [hz, zero_mul] at this
  nlinarith [mul_self_nonneg (dot r y)]

theorem cosS_zero_right (b X : ℝ) : cosS b X 0 = 0 := by unfold cosS; simp

/-- a zero RDM (cosine) / constant RDM (correlation) is left out of the pool and has similarity 0
    to everything: it neither helps nor hurts any candidate -/
theorem degenerate_rdm_contributes_nothing (r : List ℝ) :
    (¬ 0 < dot r r → applyD cosF r = r.map (fun _ => 0) ∧ ∀ c, cosine c r = 0) ∧
    (¬ 0 < dot (center r) (center r) → applyD corrF r = r.map (fun _ => 0) ∧ ∀ c, corr c r = 0) := by
  have key : ∀ x : List ℝ, ¬ 0 < dot x x → applyD cosF x = x.map (fun _ => 0) ∧ ∀ c, cosine c x = 0 := by
    intro x h
    have hz : dot x x = 0 := le_antisymm (not_lt.mp h) (dot_self_nonneg x)
    constructor
    · rw [applyD_cosF, rms_eq, hz]; simp
    · intro c
      rw [cosine_eq_cosS, hz]; exact cosS_zero_right _ _
  refine ⟨key r, fun h => ?_⟩
  obtain ⟨h1, h2⟩ := key (center r) h
  refine ⟨?_, fun c => h2 (center c)⟩
  rw [applyD_corrF, h1]; simp [center, List.map_map, Function.comp_def, List.map_const']

/-- cosine, every RDM its own group: **lower bound ≤ upper bound** -/
theorem lower_le_upper_cosine (V : List (List ℝ)) (p : ℕ) (rows : List (List ℝ)) (o : Obj)
    (hs : Singleton o rows.length) (hlen : ∀ r ∈ rows, r.length = p) :
    (bootNoiseCeilingG (poolD .cosine) (simV .cosine V) rows o).1
      ≤ (bootNoiseCeilingG (poolD .cosine) (simV .cosine V) rows o).2 := by
  apply lower_le_upper_of_terms _ _ rows o hs.size hs.inj hs.two
  intro i hi
  have h2 : 2 ≤ rows.length := by rw [← hs.size]; exact hs.two
  by_cases hp : 0 < dot rows[i] rows[i]
  · exact loo_cosine_pool_le (ipForm_dot p) rows i hi h2 hlen hp hp
  · have hz : dot rows[i] rows[i] = 0 := le_antisymm (not_lt.mp hp) (dot_self_nonneg _)
    show cosine _ rows[i] ≤ cosine _ rows[i]
    rw [cosine_eq_cosS, cosine_eq_cosS, hz, cosS_zero_right, cosS_zero_right]

/-- Pearson correlation, every RDM its own group: lower ≤ upper -/
theorem lower_le_upper_corr (V : List (List ℝ)) (p : ℕ) (rows : List (List ℝ)) (o : Obj)
    (hs : Singleton o rows.length) (hlen : ∀ r ∈ rows, r.length = p) :
    (bootNoiseCeilingG (poolD .corr) (simV .corr V) rows o).1
      ≤ (bootNoiseCeilingG (poolD .corr) (simV .corr V) rows o).2 := by
  apply lower_le_upper_of_terms _ _ rows o hs.size hs.inj hs.two
  intro i hi
  have h2 : 2 ≤ rows.length := by rw [← hs.size]; exact hs.two
  by_cases hp : 0 < dot (center rows[i]) (center rows[i])
  · exact loo_corr_term_le (ipForm_dot p) rows i hi h2 hlen hp hp
  · have hz : dot (center rows[i]) (center rows[i]) = 0 :=
      le_antisymm (not_lt.mp hp) (dot_self_nonneg _)
    show cosine _ (center rows[i]) ≤ cosine _ (center rows[i])
    rw [cosine_eq_cosS, cosine_eq_cosS, hz, cosS_zero_right, cosS_zero_right]

/-- whitened cosine and whitened correlation (`cosine_cov`, `corr_cov`; the ceiling functions pool
    with the plain RMS / standard deviation and compare with `V⁻¹`): lower ≤ upper, for every
    symmetric positive definite `V` on which `Compare.solve` meets the solver contract -/
theorem lower_le_upper_whitened {V : List (List ℝ)} {p : ℕ} (hV : SymPosDef V p)
    (hsol : IsSolver V p (solve V)) (rows : List (List ℝ)) (o : Obj)
    (hs : Singleton o rows.length) (hlen : ∀ r ∈ rows, r.length = p) :
    (bootNoiseCeilingG (poolD .cosineCov) (simV .cosineCov V) rows o).1
        ≤ (bootNoiseCeilingG (poolD .cosineCov) (simV .cosineCov V) rows o).2 ∧
    (bootNoiseCeilingG (poolD .corrCov) (simV .corrCov V) rows o).1
        ≤ (bootNoiseCeilingG (poolD .corrCov) (simV .corrCov V) rows o).2 := by
  have h2 : 2 ≤ rows.length := by rw [← hs.size]; exact hs.two
  have hform := ipForm_whitened hV hsol
  have hdeg : ∀ a r : List ℝ, ¬ 0 < dot r r → wsim V a r = 0 := by
    intro a r hr
    rw [wsim_eq_cosB]
    unfold cosB wform
    rw [dot_eq_zero_of_self_zero hr (solve V r)]
    exact cosS_zero_right _ _
  constructor
  · apply lower_le_upper_of_terms _ _ rows o hs.size hs.inj hs.two
    intro i hi
    show wsim V (poolD .cosine (rows.eraseIdx i)) rows[i] ≤ wsim V (poolD .cosine rows) rows[i]
    by_cases hp : 0 < dot rows[i] rows[i]
    · rw [wsim_eq_cosB, wsim_eq_cosB]
      exact loo_term_le_whitened hV hsol rows i hi h2 hlen hp
    · rw [hdeg _ _ hp, hdeg _ _ hp]
  · apply lower_le_upper_of_terms _ _ rows o hs.size hs.inj hs.two
    intro i hi
    show wsim V (center (poolD .corr (rows.eraseIdx i))) (center rows[i])
      ≤ wsim V (center (poolD .corr rows)) (center rows[i])
    by_cases hp : 0 < dot (center rows[i]) (center rows[i])
    · rw [wsim_eq_cosB, wsim_eq_cosB]
      have hcl : (center rows[i]).length = p := by
        rw [center_length]; exact hlen _ (List.getElem_mem hi)
      exact loo_corr_term_le hform rows i hi h2 hlen hp
        (wform_pos hV hsol _ hcl (exists_ne_zero_of_dot_pos hp))
    · rw [hdeg _ _ hp, hdeg _ _ hp]

/-! ## 4. the lower-bound prediction is computed without the left-out group -/

/-- with at least two groups, every fold of `boot_noise_ceiling` leaves exactly one group `v` out:
    its test RDMs are the RDMs of group `v`, its training RDMs are *all and only* the RDMs of the
    other groups, and the prediction does not change when the data of group `v` change -/
theorem lower_excludes_left_out {β π : Type} (pool : List β → π) (o : Obj)
    (h2 : 1 < (uniq (descList o.nR o.rdesc)).length) (f : Fold) (hf : f ∈ looFolds o) :
    ∃ v, (∀ j, j ∈ f.test.rows ↔ j < o.nR ∧ o.rdesc j = v) ∧
      (∀ j, j ∈ f.train.rows ↔ j < o.nR ∧ o.rdesc j ≠ v) ∧
      ∀ rows rows' : List β, (∀ j, o.rdesc j ≠ v → rows[j]? = rows'[j]?) →
        bootPrediction pool rows f = bootPrediction pool rows' f := by
  rw [looFolds_eq o h2] at hf
  obtain ⟨v, _, rfl⟩ := List.mem_map.mp hf
  refine ⟨v, ?_, ?_, ?_⟩
  · intro j
    rw [looFoldOf_test_rows]
    simp [List.mem_filter]
  · intro j
    rw [looFoldOf_train_rows]
    simp [List.mem_filter]
  · intro rows rows' h
    unfold bootPrediction
    rw [selectRows_congr rows rows']
    intro j hj
    rw [looFoldOf_train_rows] at hj
    have := (List.mem_filter.mp hj).2
    exact h j (by simpa using this)

/-- cross-validation: the lower-bound prediction of a fold is a function of the ceiling-set RDMs
    (the training RDMs at the test conditions) only -/
theorem cv_prediction_uses_ceil_only {ε : Type} (pool : List (List ε) → List ε) (o : Obj)
    (rows rows' : List (List ε)) (f : CvFold) (h : ∀ j ∈ f.ceil.rows, rows[j]? = rows'[j]?) :
    cvPredTrain pool o rows f = cvPredTrain pool o rows' f := by
  unfold cvPredTrain partData
  rw [selectRows_congr rows rows' _ h]

/-- … and for the sets the generators build (training / test RDM groups with disjoint descriptor
    values, realised by `subset`/`subsample`, ceiling set = training RDMs at the test conditions):
    no test RDM is in the ceiling set, and changing the test RDMs leaves the prediction unchanged -/
theorem cv_prediction_excludes_test {ε : Type} (pool : List (List ε) → List ε) (o : Obj) (sub : Bool)
    (rtr rte : List ℕ) (pv : Option (List ℕ)) (hd : List.Disjoint rtr rte)
    (rows rows' : List (List ε)) (h : ∀ j, o.rdesc j ∉ rte → rows[j]? = rows'[j]?) :
    (∀ j ∈ (mkPart o sub (some rtr) pv).rows, j ∉ (mkPart o sub (some rte) pv).rows) ∧
    cvPredTrain pool o rows ⟨mkPart o sub (some rtr) pv, mkPart o sub (some rte) pv⟩
      = cvPredTrain pool o rows' ⟨mkPart o sub (some rtr) pv, mkPart o sub (some rte) pv⟩ := by
  have hmem : ∀ j ∈ (mkPart o sub (some rtr) pv).rows, o.rdesc j ∈ rtr := by
    intro j hj
    exact (mem_selRows.mp hj).2 rtr rfl
  constructor
  · intro j hj hj'
    have h1 := hmem j hj
    have h2 : o.rdesc j ∈ rte := (mem_selRows.mp hj').2 rte rfl
    exact hd h1 h2
  · apply cv_prediction_uses_ceil_only
    intro j hj
    exact h j (fun h2 => hd (hmem j hj) h2)

/-- cross-validation upper bound: its prediction is the pool of **all** RDMs, at the test
    conditions: if the pooled RDM has entry `e i j` for the pair `(i, j)`, the prediction is the RDM
    of the conditions whose pattern-descriptor value is a test value -/
theorem cv_upper_is_full_pool_at_test {ε : Type} (pool : List (List ε) → List ε) (o : Obj)
    (rows : List (List ε)) (f : CvFold) (e : ℕ → ℕ → ε)
    (hp : pool rows = (pairs o.nC).map (fun q => e q.1 q.2)) :
    cvPredTest pool o rows f =
      (pairsOf ((List.range o.nC).filter (fun i => f.test.pidx.contains (o.pdesc i)))).map
        (fun q => e q.1 q.2) := by
  unfold cvPredTest restrict
  rw [hp]
  exact maskVec_eq o.nC _ e

/-- round 7 — cross-validation, lower bound: when the ceiling part of a fold holds test conditions only
    (what `sets_k_fold` / `sets_random` / `sets_leave_one_out_pattern` hand out: the training RDMs
    restricted to the test conditions), the `subsample_pattern` step of `cv_noise_ceiling` selects
    everything, so the lower-bound prediction IS the pool of the training RDMs at the test conditions:
    every per-RDM normalisation inside `pool` (RMS, z-score, ranks) is computed from the test conditions
    only.  (`pool`, then select, is a different function: selecting does not commute with the
    normalisations — the hypothesis on the conditions cannot be dropped.) -/
theorem cv_lower_pools_train_at_test {ε : Type} (pool : List (List ε) → List ε) (o : Obj)
    (rows : List (List ε)) (f : CvFold) (e : ℕ → ℕ → ε)
    (hc : ∀ c ∈ f.ceil.conds, f.test.pidx.contains (o.pdesc c) = true)
    (hp : pool (partData o.nC rows f.ceil) = (pairs f.ceil.conds.length).map (fun q => e q.1 q.2)) :
    cvPredTrain pool o rows f = pool (partData o.nC rows f.ceil) := by
  unfold cvPredTrain subsampleAt
  rw [hp, maskVec_eq]
  have hall : (List.range f.ceil.conds.length).filter
      (fun a => match f.ceil.conds[a]? with
        | some c => f.test.pidx.contains (o.pdesc c) | none => false)
      = List.range f.ceil.conds.length := by
    apply List.filter_eq_self.mpr
    intro a ha
    have ha' : a < f.ceil.conds.length := List.mem_range.mp ha
    rw [List.getElem?_eq_getElem ha']
    exact hc _ (List.getElem_mem ha')
  exact congrArg (fun l => List.map (fun q => e q.1 q.2) (pairsOf l)) hall

/-- … and the ceiling part's data are the training RDMs at exactly those conditions: entry `(i, j)` of
    training RDM `r` for the pairs of the part's conditions -/
theorem cv_ceil_data_is_train_at_conds {ε : Type} (o : Obj) (p : Part) (d : ℕ → ℕ → ℕ → ε)
    (rows : List (List ε)) (hr : ∀ r ∈ p.rows, rows[r]? = some ((pairs o.nC).map (fun q => d r q.1 q.2))) :
    partData o.nC rows p
      = p.rows.map (fun r => (pairsOf ((List.range o.nC).filter (fun i => p.conds.contains i))).map
          (fun q => d r q.1 q.2)) := by
  unfold partData selectRows restrict
  have key : ∀ l : List ℕ, (∀ r ∈ l, rows[r]? = some ((pairs o.nC).map (fun q => d r q.1 q.2))) →
      (l.filterMap (fun i => rows[i]?)).map (maskVec o.nC (fun i => p.conds.contains i))
        = l.map (fun r => (pairsOf ((List.range o.nC).filter (fun i => p.conds.contains i))).map
            (fun q => d r q.1 q.2)) := by
    intro l
    induction l with
    | nil => intro _; rfl
    | cons x xs ih =>
      intro h
      have hx := h x List.mem_cons_self
      have hxs := ih (fun r hr' => h r (List.mem_cons_of_mem _ hr'))
      rw [List.filterMap_cons, hx]
      simp only [List.map_cons]
      rw [hxs, maskVec_eq]
  exact key p.rows hr

/-! ## 5. invariances -/

/-- cosine: multiplying every data RDM by its own positive constant changes neither bound
    (any grouping) -/
theorem ceiling_scale_invariant (V : List (List ℝ)) (rows rows' : List (List ℝ)) (o : Obj)
    (h : List.Forall₂ (fun r r' => ∃ k : ℝ, 0 < k ∧ r' = r.map (· * k)) rows rows') :
    bootNoiseCeilingG (poolD .cosine) (simV .cosine V) rows o
      = bootNoiseCeilingG (poolD .cosine) (simV .cosine V) rows' o := by
  apply bootG_congr (fun r r' => ∃ k : ℝ, 0 < k ∧ r' = r.map (· * k)) Eq _ _ _ _ _ _ rows rows' h
  · intro l l' hl
    show meanRows (l.map (applyD cosF)) = meanRows (l'.map (applyD cosF))
    congr 1
    apply map_eq_of_forall₂ hl
    rintro b b' ⟨k, hk, rfl⟩
    exact (applyD_cosF_scale b k hk).symm
  · rintro a a' b b' rfl ⟨k, hk, rfl⟩
    show cosine a b = cosine a (b.map (· * k))
    rw [cosine_scale_right a b k hk]

/-- correlation: replacing every data RDM `r` by `k·r + b` with its own `k > 0`, `b` changes neither
    bound (any grouping) -/
theorem ceiling_affine_invariant (V : List (List ℝ)) (rows rows' : List (List ℝ)) (o : Obj)
    (h : List.Forall₂ (fun r r' => ∃ k b : ℝ, 0 < k ∧ r' = r.map (fun a => k * a + b)) rows rows') :
    bootNoiseCeilingG (poolD .corr) (simV .corr V) rows o
      = bootNoiseCeilingG (poolD .corr) (simV .corr V) rows' o := by
  apply bootG_congr (fun r r' => ∃ k b : ℝ, 0 < k ∧ r' = r.map (fun a => k * a + b)) Eq
    _ _ _ _ _ _ rows rows' h
  · intro l l' hl
    show applyD shiftF (meanRows (l.map (applyD corrF))) = applyD shiftF (meanRows (l'.map (applyD corrF)))
    congr 2
    apply map_eq_of_forall₂ hl
    rintro r r' ⟨k, b, hk, rfl⟩
    rw [applyD_corrF, applyD_corrF, center_map_affine, applyD_cosF_scale _ k hk]
  · rintro a a' r r' rfl ⟨k, b, hk, rfl⟩
    show corr a r = corr a (r.map (fun x => k * x + b))
    unfold corr
    rw [center_map_affine, cosine_scale_right _ _ k hk]

/-! ## 6. entries missing from all RDMs -/

/-- **both bounds ignore entries missing from all RDMs**: on a stack whose RDMs all miss exactly the
    entries not flagged in `mask`, `boot_noise_ceiling` as coded (NaN-aware normalisation, `_nan_mean`,
    `compare` dropping the NaNs) returns the bounds of the stack with those entries deleted (for the
    whitened measures: with `V` restricted to the kept entries) — for every method and grouping -/
theorem ceiling_ignores_common_nan (m : Method) (o : Obj) (mask : List Bool)
    (denses : List (List ℝ)) (hne : denses ≠ []) (hlen : ∀ d ∈ denses, d.length = mask.count true) :
    bootNoiseCeilingO m o (denses.map (expand mask)) =
      some (bootNoiseCeilingG (poolD m) (simV m (vFor m o.nC mask)) denses o) := by
  obtain ⟨d, ds, rfl⟩ := List.exists_cons_of_ne_nil hne
  have hmask : ∀ x ∈ d :: ds, maskOf (expand mask x) = mask :=
    fun x hx => maskOf_expand mask x (hlen x hx)
  have hcm : commonMask ((d :: ds).map (expand mask)) = true := by
    simp only [commonMask, List.map_cons, List.all_eq_true, List.mem_map]
    rintro r' ⟨x, hx, rfl⟩
    rw [hmask x (List.mem_cons_of_mem _ hx), hmask d (List.mem_cons_self ..)]
    simp
  unfold bootNoiseCeilingO
  rw [if_pos hcm]
  have hhead : maskOf (((d :: ds).map (expand mask)).headD []) = mask := by
    simpa using hmask d (List.mem_cons_self ..)
  rw [hhead]
  have htake : List.take (Rsa.Gen.C07.bootLoopLen (looFolds o).length) (looFolds o) = looFolds o := by
    unfold Rsa.Gen.C07.bootLoopLen; exact List.take_length
  simp only [htake]
  congr 1
  change bootNoiseCeilingG (poolO m) (simO m (vFor m o.nC mask)) ((d :: ds).map (expand mask)) o = _
  apply bootG_congr (fun r r' => r = expand mask r' ∧ r'.length = mask.count true)
    (fun a a' => present a = a')
  · intro l l' hl
    have hl2 : ∀ x ∈ l', x.length = mask.count true := by
      induction hl with
      | nil => intro x hx; simp at hx
      | cons hab _ ih =>
        intro x hx
        rcases List.mem_cons.mp hx with rfl | hx
        · exact hab.2
        · exact ih x hx
    have hl1 : l = l'.map (expand mask) := by
      clear hl2
      induction hl with
      | nil => rfl
      | cons hab _ ih => rw [List.map_cons, ← hab.1, ← ih]
    by_cases hz : l' = []
    · subst hz; subst hl1; exact poolO_nil m
    · rw [hl1, poolO_expand m mask l' hz hl2]
      exact present_expand mask _ (poolD_length m _ l' hz hl2)
  · rintro a a' b b' rfl ⟨rfl, hb⟩
    show simV m _ (present a) (present (expand mask b')) = _
    rw [present_expand mask b' hb]
  · rw [List.forall₂_map_left_iff]
    apply List.forall₂_same.mpr
    intro x hx
    exact ⟨rfl, hlen x hx⟩

/-- RDMs that miss *different* entries are rejected (the library raises `ValueError`), never
    compared entry-shifted -/
theorem nan_mismatch_rejected (m : Method) (o : Obj) (rows : List (List (Option ℝ)))
    (folds : List CvFold) (h : commonMask rows = false) :
    bootNoiseCeilingO m o rows = none ∧ cvNoiseCeilingO m o rows folds = none := by
  unfold bootNoiseCeilingO cvNoiseCeilingO
  simp [h]

/-! ## 7. the generated leaves, the `_nonzero` guard, whitened invariance -/

/-- the scalar text of `pool_rdm` in `util/inference_util.py` and `util/pooling.py`, regenerated from
    the source on every run: division by the norm, mean removal, shift by the minimum (`+ 0.01` in
    `util/pooling.py`); the whitened branches repeat the plain text -/
theorem leaf_texts (x v : ℝ) :
    Rsa.Gen.C07.cosScale x v = x / v ∧ Rsa.Gen.C07.cosCovScale x v = x / v ∧
    Rsa.Gen.C07.corrCenter x v = x - v ∧ Rsa.Gen.C07.corrCovCenter x v = x - v ∧
    Rsa.Gen.C07.corrScale x v = x / v ∧ Rsa.Gen.C07.corrCovScale x v = x / v ∧
    Rsa.Gen.C07.corrShift x v = x - v ∧ Rsa.Gen.C07.corrCovShift x v = x - v ∧
    Rsa.Gen.C07.poolingCosScale x v = x / v ∧ Rsa.Gen.C07.poolingCorrCenter x v = x - v ∧
    Rsa.Gen.C07.poolingCorrScale x v = x / v ∧ Rsa.Gen.C07.poolingCorrShift x v = x - v + 1 / 100 ∧
    Rsa.Gen.C07.poolingCosCovScale x v = x / v ∧ Rsa.Gen.C07.poolingCorrCovScale x v = x / v ∧
    Rsa.Gen.C07.poolingCorrCovShift x v = x - v + 1 / 100 := by
  refine ⟨rfl, rfl, rfl, rfl, rfl, rfl, rfl, rfl, rfl, rfl, rfl, ?_, rfl, rfl, ?_⟩ <;>
  · simp [Rsa.Gen.C07.poolingCorrShift, Rsa.Gen.C07.poolingCorrCovShift]

/-- the shift of the correlation pools is a translation: immaterial for every correlation -/
theorem pool_shift_is_translation (x : List ℝ) (v : ℝ) :
    center (x.map (fun a => Rsa.Gen.C07.corrShift a v)) = center x ∧
    center (x.map (fun a => Rsa.Gen.C07.poolingCorrShift a v)) = center x := by
  constructor
  · exact center_map_sub_const x v
  · have : x.map (fun a => Rsa.Gen.C07.poolingCorrShift a v) = x.map (· - (v - 1 / 100)) := by
      apply List.map_congr_left; intro a _
      simp [Rsa.Gen.C07.poolingCorrShift]; ring
    rw [this]; exact center_map_sub_const x _

/-- **the `_nonzero` guard has no scale threshold**: every positive norm, however small, is used as
    it is, and the normalised RDM is the same for every positive rescaling (and shift, for the
    correlation normaliser) of the RDM — a data RDM in other units cannot drop out of the pool -/
theorem normaliser_has_no_scale_threshold (x : List ℝ) (k b : ℝ) (hk : 0 < k) :
    (∀ s : ℝ, 0 < s → nonzero s = s) ∧
    applyD cosF (x.map (· * k)) = applyD cosF x ∧
    applyD corrF (x.map (fun a => k * a + b)) = applyD corrF x := by
  refine ⟨fun s hs => nonzero_of_pos hs, applyD_cosF_scale x k hk, ?_⟩
  rw [applyD_corrF, applyD_corrF, center_map_affine, applyD_cosF_scale _ k hk]

theorem cosS_swap (b X Y : ℝ) : cosS b X Y = cosS b Y X := by
  unfold cosS
  by_cases h : 0 < Real.sqrt X ∧ 0 < Real.sqrt Y
  · rw [if_pos h, if_pos h.symm, div_right_comm]
  · rw [if_neg h, if_neg (fun h' => h h'.symm)]

theorem cosB_smul_right {p : ℕ} {B : List ℝ → List ℝ → ℝ} (h : IPForm p B) (x y : List ℝ) (k : ℝ)
    (hk : 0 < k) (hx : x.length = p) (hy : y.length = p) :
    cosB B x (y.map (· * k)) = cosB B x y := by
  have hl : (y.map (· * k)).length = p := by simpa using hy
  unfold cosB
  rw [h.smul_right y x k hy hx, h.smul_left y _ k hy hl, h.smul_right y y k hy hy, cosS_swap,
    cosS_swap (B x y)]
  have : k * (k * B y y) = k * k * B y y := by ring
  rw [this]
  exact cosS_scale _ _ _ k hk

theorem wsim_nil_left (V : List (List ℝ)) (y : List ℝ) : wsim V [] y = 0 := by
  rw [wsim_eq_cosB]
  unfold cosB cosS wform
  simp

theorem forall₂_left_length {ρ : List ℝ → List ℝ → Prop} {p : ℕ} {l l' : List (List ℝ)}
    (h : List.Forall₂ (fun r r' => r.length = p ∧ ρ r r') l l') : ∀ r ∈ l, r.length = p := by
  induction h with
  | nil => intro r hr; simp at hr
  | cons hab _ ih =>
    intro r hr
    rcases List.mem_cons.mp hr with rfl | hr
    · exact hab.1
    · exact ih r hr

/-- whitened cosine (`cosine_cov`): both bounds are invariant when every data RDM is multiplied by
    its own positive constant — for every symmetric positive definite `V` on which `Compare.solve`
    meets the solver contract (any grouping) -/
theorem ceiling_scale_invariant_whitened {V : List (List ℝ)} {p : ℕ} (hV : SymPosDef V p)
    (hsol : IsSolver V p (solve V)) (rows rows' : List (List ℝ)) (o : Obj)
    (h : List.Forall₂ (fun r r' => r.length = p ∧ ∃ k : ℝ, 0 < k ∧ r' = r.map (· * k)) rows rows') :
    bootNoiseCeilingG (poolD .cosineCov) (simV .cosineCov V) rows o
      = bootNoiseCeilingG (poolD .cosineCov) (simV .cosineCov V) rows' o := by
  have hform := ipForm_whitened hV hsol
  apply bootG_congr (fun r r' => r.length = p ∧ ∃ k : ℝ, 0 < k ∧ r' = r.map (· * k))
    (fun a a' => a = a' ∧ (a.length = p ∨ a = [])) _ _ _ _ _ _ rows rows' h
  · intro l l' hl
    have hlen := forall₂_left_length hl
    have heq : poolD .cosineCov l = poolD .cosineCov l' := by
      show meanRows (l.map (applyD cosF)) = meanRows (l'.map (applyD cosF))
      congr 1
      apply map_eq_of_forall₂ hl
      rintro b b' ⟨_, k, hk, rfl⟩
      exact (applyD_cosF_scale b k hk).symm
    refine ⟨heq, ?_⟩
    by_cases hz : l = []
    · right; subst hz; rfl
    · left; exact poolD_length _ p l hz hlen
  · rintro a a' b b' ⟨rfl, ha⟩ ⟨hb, k, hk, rfl⟩
    show wsim V a b = wsim V a (b.map (· * k))
    rcases ha with ha | rfl
    · rw [wsim_eq_cosB, wsim_eq_cosB, cosB_smul_right hform a b k hk ha hb]
    · rw [wsim_nil_left, wsim_nil_left]

/-- whitened correlation (`corr_cov`): invariance under `r ↦ k·r + b` with own `k > 0`, `b` per RDM -/
theorem ceiling_affine_invariant_whitened {V : List (List ℝ)} {p : ℕ} (hV : SymPosDef V p)
    (hsol : IsSolver V p (solve V)) (rows rows' : List (List ℝ)) (o : Obj)
    (h : List.Forall₂ (fun r r' => r.length = p ∧ ∃ k b : ℝ, 0 < k ∧ r' = r.map (fun a => k * a + b))
      rows rows') :
    bootNoiseCeilingG (poolD .corrCov) (simV .corrCov V) rows o
      = bootNoiseCeilingG (poolD .corrCov) (simV .corrCov V) rows' o := by
  have hform := ipForm_whitened hV hsol
  apply bootG_congr (fun r r' => r.length = p ∧ ∃ k b : ℝ, 0 < k ∧ r' = r.map (fun a => k * a + b))
    (fun a a' => a = a' ∧ (a.length = p ∨ a = [])) _ _ _ _ _ _ rows rows' h
  · intro l l' hl
    have hlen := forall₂_left_length hl
    have heq : poolD .corrCov l = poolD .corrCov l' := by
      show applyD shiftF (meanRows (l.map (applyD corrF)))
        = applyD shiftF (meanRows (l'.map (applyD corrF)))
      congr 2
      apply map_eq_of_forall₂ hl
      rintro r r' ⟨_, k, b, hk, rfl⟩
      rw [applyD_corrF, applyD_corrF, center_map_affine, applyD_cosF_scale _ k hk]
    refine ⟨heq, ?_⟩
    by_cases hz : l = []
    · right; subst hz; rfl
    · left; exact poolD_length _ p l hz hlen
  · rintro a a' r r' ⟨rfl, ha⟩ ⟨hr, k, b, hk, rfl⟩
    show wsim V (center a) (center r) = wsim V (center a) (center (r.map (fun x => k * x + b)))
    rw [center_map_affine]
    rcases ha with ha | rfl
    · rw [wsim_eq_cosB, wsim_eq_cosB, cosB_smul_right hform _ _ k hk
        (by rw [center_length]; exact ha) (by rw [center_length]; exact hr)]
    · have : center ([] : List ℝ) = [] := rfl
      rw [this, wsim_nil_left, wsim_nil_left]

/-! ## 8. (round 3) `rdm_descriptor` groups of any size: what the upper bound is then -/

/-- **any grouping with ≥ 2 groups**: the score of a candidate, and the coded upper bound (score of
    the equal-weight pool), are *weighted* sums of similarities: RDM `j` weighs
    `1 / (#groups · size of its group)` (mean within the left-out group, then mean over groups) -/
theorem grouped_score_is_weighted_sum (pool : List (List ℝ) → List ℝ) (sim : List ℝ → List ℝ → ℝ)
    (rows : List (List ℝ)) (o : Obj) (hn : o.nR = rows.length) (h2 : 1 < nGroups o) :
    (∀ c, candidateScore sim rows o c =
      ((List.range rows.length).map fun j => groupWeight o j * sim c (rows.getD j [])).sum) ∧
    (bootNoiseCeilingG pool sim rows o).2 =
      ((List.range rows.length).map fun j => groupWeight o j * sim (pool rows) (rows.getD j [])).sum :=
  ⟨fun c => candidateScore_grouped sim rows o c hn h2, upper_grouped pool sim rows o hn h2⟩

theorem wsum_const (w : ℕ → ℝ) (w0 : ℝ) (rows : List (List ℝ)) (g : List ℝ → ℝ)
    (hw : ∀ j, j < rows.length → w j = w0) :
    ((List.range rows.length).map fun j => w j * g (rows.getD j [])).sum = w0 * (rows.map g).sum := by
  have : (List.range rows.length).map (fun j => w j * g (rows.getD j []))
      = ((List.range rows.length).map (fun j => rows.getD j [])).map (fun r => w0 * g r) := by
    rw [List.map_map]
    apply List.map_congr_left
    intro j hj
    simp only [Function.comp_def]
    rw [hw j (List.mem_range.mp hj)]
  rw [this, range_map_getD, List.sum_map_mul_left]

/-- **balanced groups** (all groups of one size `k ≥ 1`, at least two groups — "every RDM its own
    group" is `k = 1`): the coded upper bound is still unbeatable, for cosine, Pearson and rho-a -/
theorem upper_unbeatable_balanced_groups (V : List (List ℝ)) (p k : ℕ) (rows : List (List ℝ)) (o : Obj)
    (hn : o.nR = rows.length) (h2 : 1 < nGroups o) (hk : ∀ j, j < o.nR → groupSize o j = k)
    (hlen : ∀ r ∈ rows, r.length = p) (c : List ℝ) :
    candidateScore (simV .cosine V) rows o c
        ≤ (bootNoiseCeilingG (poolD .cosine) (simV .cosine V) rows o).2 ∧
    candidateScore (simV .corr V) rows o c
        ≤ (bootNoiseCeilingG (poolD .corr) (simV .corr V) rows o).2 ∧
    (c.length = p → candidateScore (simV .rhoA V) rows o c
        ≤ (bootNoiseCeilingG (poolD .rhoA) (simV .rhoA V) rows o).2) := by
  have hne : rows ≠ [] := by
    rintro rfl
    have : nGroups o = 0 := by simp [nGroups, hn, descList, uniq]
    omega
  set w0 : ℝ := 1 / ((nGroups o : ℝ) * (k : ℝ)) with hw0
  have hw : ∀ j, j < rows.length → (groupWeight o j : ℝ) = w0 := by
    intro j hj
    unfold groupWeight
    rw [hk j (hn ▸ hj)]
  have hw0' : 0 ≤ w0 := by rw [hw0]; positivity
  refine ⟨?_, ?_, fun hc => ?_⟩
  · rw [upper_grouped _ _ rows o hn h2, candidateScore_grouped _ rows o c hn h2,
      wsum_const _ w0 rows _ hw, wsum_const _ w0 rows _ hw]
    exact mul_le_mul_of_nonneg_left (sum_cosine_le_pool c p rows hne hlen) hw0'
  · rw [upper_grouped _ _ rows o hn h2, candidateScore_grouped _ rows o c hn h2,
      wsum_const _ w0 rows _ hw, wsum_const _ w0 rows _ hw]
    exact mul_le_mul_of_nonneg_left (sum_corr_le_pool c p rows hne hlen) hw0'
  · rw [upper_grouped _ _ rows o hn h2, candidateScore_grouped _ rows o c hn h2,
      wsum_const _ w0 rows _ hw, wsum_const _ w0 rows _ hw]
    exact mul_le_mul_of_nonneg_left (sum_rhoA_le_pool c p rows hne hlen hc) hw0'

/-- **groups of unequal size**: the highest score any single RDM can achieve under the grouped loop is
    attained by the *weighted* pool `Σ_j w_j · r_j / rms(r_j)` (cosine; mean-removed for Pearson),
    `w_j = 1 / (#groups · size of the group of RDM j)`: every candidate — in particular the coded
    equal-weight pool, i.e. the reported upper bound — scores at most as high.  (With unequal groups
    the reported upper bound can be beaten: see the example below and the oracle claim
    `grouped-weighted-sup`; this is why the property says "every data RDM its own group".) -/
theorem grouped_sup_is_weighted_pool (V : List (List ℝ)) (p : ℕ) (rows : List (List ℝ)) (o : Obj)
    (hn : o.nR = rows.length) (h2 : 1 < nGroups o) (hlen : ∀ r ∈ rows, r.length = p) :
    (∀ c, candidateScore (simV .cosine V) rows o c
        ≤ candidateScore (simV .cosine V) rows o (poolWeighted cosF (groupWeight o) rows)) ∧
    (bootNoiseCeilingG (poolD .cosine) (simV .cosine V) rows o).2
        ≤ candidateScore (simV .cosine V) rows o (poolWeighted cosF (groupWeight o) rows) ∧
    (∀ c, candidateScore (simV .corr V) rows o c
        ≤ candidateScore (simV .corr V) rows o (poolWeighted corrF (groupWeight o) rows)) ∧
    (bootNoiseCeilingG (poolD .corr) (simV .corr V) rows o).2
        ≤ candidateScore (simV .corr V) rows o (poolWeighted corrF (groupWeight o) rows) := by
  have hne : rows ≠ [] := by
    rintro rfl
    have : nGroups o = 0 := by simp [nGroups, hn, descList, uniq]
    omega
  have h1 : ∀ c, candidateScore (simV .cosine V) rows o c
      ≤ candidateScore (simV .cosine V) rows o (poolWeighted cosF (groupWeight o) rows) := by
    intro c
    rw [candidateScore_grouped _ rows o c hn h2, candidateScore_grouped _ rows o _ hn h2]
    exact wsum_cosine_le_pool c (groupWeight o) p rows hne hlen
  have h3 : ∀ c, candidateScore (simV .corr V) rows o c
      ≤ candidateScore (simV .corr V) rows o (poolWeighted corrF (groupWeight o) rows) := by
    intro c
    rw [candidateScore_grouped _ rows o c hn h2, candidateScore_grouped _ rows o _ hn h2]
    exact wsum_corr_le_pool c (groupWeight o) p rows hne hlen
  refine ⟨h1, ?_, h3, ?_⟩
  · rw [upper_attained]; exact h1 _
  · rw [upper_attained]; exact h3 _

/-! ## 9. (round 3) entries missing from all RDMs: the cross-validated ceiling -/

/-- **the NaN bridge for `cv_noise_ceiling`** (was `cv_ignores_common_nan_full`): on a stack whose RDMs
    all miss exactly the entries not flagged in `mask`, `cv_noise_ceiling` as coded (NaN-aware
    normalisers, `_nan_mean`, `subset_pattern` / `subsample_pattern` on vectors with NaNs, `compare`
    dropping the NaNs) is — fold by fold, for every method and every fold structure, including which
    inputs are rejected — the function that pools the *non-missing entries only* (`poolDense`: no NaN
    enters any mean, standard deviation, rank or minimum) and compares the non-missing entries -/
theorem cv_ignores_common_nan (m : Method) (o : Obj) (mask : List Bool) (denses : List (List ℝ))
    (folds : List CvFold) (hlen : ∀ d ∈ denses, d.length = mask.count true) :
    cvNoiseCeilingO m o (denses.map (expand mask)) folds =
      if cvShapesOk (poolDense m) o (denses.map (expand mask)) folds then
        some (cvNoiseCeilingG (poolDense m)
          (fun k td a b => simV m (vFor m k (maskOf (td.headD []))) (present a) (present b))
          o (denses.map (expand mask)) folds)
      else none := by
  have hp := fun f => cvPred_eq_dense m o mask denses hlen f
  have hshape : cvShapesOk (poolO m) o (denses.map (expand mask)) folds
      = cvShapesOk (poolDense m) o (denses.map (expand mask)) folds := by
    unfold cvShapesOk
    congr 1
    funext f
    rw [(hp f).1, (hp f).2]
  have hterms : ∀ sim : ℕ → List (List (Option ℝ)) → List (Option ℝ) → List (Option ℝ) → ℝ,
      cvNoiseCeilingG (poolO m) sim o (denses.map (expand mask)) folds
        = cvNoiseCeilingG (poolDense m) sim o (denses.map (expand mask)) folds := by
    intro sim
    unfold cvNoiseCeilingG cvTerms
    congr 2
    funext f
    simp only [(hp f).1, (hp f).2]
  have htake : List.take (Rsa.Gen.C07.cvLoopLen folds.length) folds = folds := by
    unfold Rsa.Gen.C07.cvLoopLen; exact List.take_length
  unfold cvNoiseCeilingO
  simp only [htake]
  rw [commonMask_expand mask denses hlen, hshape, hterms]
  simp only [Bool.true_and]
  rfl

/-! ## 10. (round 3) the code path `compare` takes for the whitened measures -/

theorem forall₂_eq_left {l l' : List (List ℝ)} {q : List ℝ → Prop}
    (h : List.Forall₂ (fun r r' => r = r' ∧ q r) l l') : l = l' ∧ ∀ r ∈ l, q r := by
  induction h with
  | nil => exact ⟨rfl, fun r hr => by simp at hr⟩
  | cons hab _ ih =>
    refine ⟨by rw [hab.1, ih.1], fun r hr => ?_⟩
    rcases List.mem_cons.mp hr with rfl | hr
    · exact hab.2
    · exact ih.2 r hr

/-- **`compare(·, ·, 'cosine_cov' | 'corr_cov')` as coded** (`sigma_k=None`: linear-CKA shortcut
    `_cov_weighting` + `_cosine`, grand mean through C03's regenerated leaf) **is the cosine of the
    whitened form `xᵀV⁻¹y`**, `V = getV n none`, for every `n ≥ 1`, complete RDM vectors and *any*
    correct solver (C03's `dot_solution_eq_fast`) -/
theorem coded_shortcut_eq_V_form (n : ℕ) (hn : 0 < n) {sol : List ℝ → List ℝ}
    (hs : IsSolver (getV n (SigmaK.none : SigmaK ℝ)) (triLen n) sol) (x y : List ℝ)
    (hx : x.length = triLen n) (hy : y.length = triLen n) :
    simFast n .cosineCov x y = cosB (wform sol) x y ∧
    simFast n .corrCov x y = cosB (wform sol) (center x) (center y) :=
  ⟨fastCoded_eq_cosB n hn hs x y hx hy,
   fastCoded_eq_cosB n hn hs (center x) (center y) (by rw [center_length]; exact hx)
     (by rw [center_length]; exact hy)⟩

/-- both noise-ceiling bounds computed with the coded shortcut = computed with the `V⁻¹` form (any
    method, any grouping, complete RDMs of `n ≥ 1` conditions) -/
theorem ceiling_coded_shortcut_eq_V_form (n : ℕ) (hn : 0 < n)
    (hsol : IsSolver (getV n (SigmaK.none : SigmaK ℝ)) (triLen n) (solve (getV n SigmaK.none)))
    (m : Method) (rows : List (List ℝ)) (o : Obj) (hlen : ∀ r ∈ rows, r.length = triLen n) :
    bootNoiseCeilingG (poolD m) (simFast n m) rows o
      = bootNoiseCeilingG (poolD m) (simV m (getV n SigmaK.none)) rows o := by
  have hpool : ∀ l l' : List (List ℝ),
      List.Forall₂ (fun r r' => r = r' ∧ r.length = triLen n) l l' →
      poolD m l = poolD m l' ∧ ((poolD m l).length = triLen n ∨ poolD m l = []) := by
    intro l l' hl
    obtain ⟨rfl, hq⟩ := forall₂_eq_left hl
    refine ⟨rfl, ?_⟩
    by_cases hz : l = []
    · right; subst hz; cases m <;> rfl
    · left; exact poolD_length m _ l hz hq
  have hrows : List.Forall₂ (fun r r' => r = r' ∧ r.length = triLen n) rows rows :=
    List.forall₂_same.mpr (fun x hx => ⟨rfl, hlen x hx⟩)
  cases m with
  | cosine => rfl
  | corr => rfl
  | rhoA => rfl
  | spearman => rfl
  | cosineCov =>
    apply bootG_congr (fun r r' => r = r' ∧ r.length = triLen n)
      (fun a a' => a = a' ∧ (a.length = triLen n ∨ a = [])) _ _ _ _ hpool _ rows rows hrows
    rintro a a' b b' ⟨rfl, ha⟩ ⟨rfl, hb⟩
    show whitenedCosFastCoded n a b = wsim _ a b
    rcases ha with ha | rfl
    · rw [wsim_eq_cosB, fastCoded_eq_cosB n hn hsol a b ha hb]
    · rw [fastCoded_nil_left, wsim_nil_left]
  | corrCov =>
    apply bootG_congr (fun r r' => r = r' ∧ r.length = triLen n)
      (fun a a' => a = a' ∧ (a.length = triLen n ∨ a = [])) _ _ _ _ hpool _ rows rows hrows
    rintro a a' b b' ⟨rfl, ha⟩ ⟨rfl, hb⟩
    show whitenedCosFastCoded n (center a) (center b) = wsim _ (center a) (center b)
    rcases ha with ha | rfl
    · rw [wsim_eq_cosB, fastCoded_eq_cosB n hn hsol _ _ (by rw [center_length]; exact ha)
        (by rw [center_length]; exact hb)]
    · have : center ([] : List ℝ) = [] := rfl
      rw [this, fastCoded_nil_left, wsim_nil_left]

/-- **lower ≤ upper for `cosine_cov` and `corr_cov` on the coded fast path**, every number of conditions
    `n ≥ 1`, every RDM its own group: `V = getV n none` is symmetric positive definite for every `n`
    (C03's `symPosDef_getV_none`), so the only remaining contract is the linear solve -/
theorem lower_le_upper_whitened_coded (n : ℕ) (hn : 0 < n)
    (hsol : IsSolver (getV n (SigmaK.none : SigmaK ℝ)) (triLen n) (solve (getV n SigmaK.none)))
    (rows : List (List ℝ)) (o : Obj) (hs : Singleton o rows.length)
    (hlen : ∀ r ∈ rows, r.length = triLen n) :
    (bootNoiseCeilingG (poolD .cosineCov) (simFast n .cosineCov) rows o).1
        ≤ (bootNoiseCeilingG (poolD .cosineCov) (simFast n .cosineCov) rows o).2 ∧
    (bootNoiseCeilingG (poolD .corrCov) (simFast n .corrCov) rows o).1
        ≤ (bootNoiseCeilingG (poolD .corrCov) (simFast n .corrCov) rows o).2 := by
  rw [ceiling_coded_shortcut_eq_V_form n hn hsol .cosineCov rows o hlen,
    ceiling_coded_shortcut_eq_V_form n hn hsol .corrCov rows o hlen]
  exact lower_le_upper_whitened (symPosDef_getV_none n) hsol rows o hs hlen

/-- rescaling (cosine_cov) / affine (corr_cov) invariance of both bounds on the coded fast path -/
theorem ceiling_invariant_whitened_coded (n : ℕ) (hn : 0 < n)
    (hsol : IsSolver (getV n (SigmaK.none : SigmaK ℝ)) (triLen n) (solve (getV n SigmaK.none)))
    (rows rows' : List (List ℝ)) (o : Obj) :
    (List.Forall₂ (fun r r' => r.length = triLen n ∧ ∃ k : ℝ, 0 < k ∧ r' = r.map (· * k)) rows rows' →
      bootNoiseCeilingG (poolD .cosineCov) (simFast n .cosineCov) rows o
        = bootNoiseCeilingG (poolD .cosineCov) (simFast n .cosineCov) rows' o) ∧
    (List.Forall₂ (fun r r' => r.length = triLen n ∧ ∃ k b : ℝ, 0 < k ∧ r' = r.map (fun a => k * a + b))
        rows rows' →
      bootNoiseCeilingG (poolD .corrCov) (simFast n .corrCov) rows o
        = bootNoiseCeilingG (poolD .corrCov) (simFast n .corrCov) rows' o) := by
  have hV := symPosDef_getV_none n
  constructor
  · intro h
    have hl := forall₂_left_length h
    have hl' : ∀ r ∈ rows', r.length = triLen n := by
      clear hl
      induction h with
      | nil => intro r hr; simp at hr
      | cons hab _ ih =>
        intro r hr
        rcases List.mem_cons.mp hr with rfl | hr
        · obtain ⟨h1, k, _, rfl⟩ := hab; simpa using h1
        · exact ih r hr
    rw [ceiling_coded_shortcut_eq_V_form n hn hsol .cosineCov rows o hl,
      ceiling_coded_shortcut_eq_V_form n hn hsol .cosineCov rows' o hl']
    exact ceiling_scale_invariant_whitened hV hsol rows rows' o h
  · intro h
    have hl := forall₂_left_length h
    have hl' : ∀ r ∈ rows', r.length = triLen n := by
      clear hl
      induction h with
      | nil => intro r hr; simp at hr
      | cons hab _ ih =>
        intro r hr
        rcases List.mem_cons.mp hr with rfl | hr
        · obtain ⟨h1, k, b, _, rfl⟩ := hab; simpa using h1
        · exact ih r hr
    rw [ceiling_coded_shortcut_eq_V_form n hn hsol .corrCov rows o hl,
      ceiling_coded_shortcut_eq_V_form n hn hsol .corrCov rows' o hl']
    exact ceiling_affine_invariant_whitened hV hsol rows rows' o h

/-! ## 11. (round 3) leaves derived from the control flow of the anchored files -/

/-- the `_nonzero` guard of both files, regenerated from `np.where(norm == 0, 1, norm)` (a norm is `≥ 0`):
    exactly "zero → 1, every positive norm unchanged" — no threshold -/
theorem guard_leaves (s : ℝ) :
    nonzero s = (if 0 < s then s else 1) ∧ nonzeroP s = nonzero s ∧
    Rsa.Gen.C07.nonzeroGuard s = Rsa.Gen.C07.poolingNonzeroGuard s :=
  ⟨nonzero_def s, nonzeroP_eq s, by
    have h1 : Rsa.Gen.C07.nonzeroGuard s = nonzero s := rfl
    have h2 : Rsa.Gen.C07.poolingNonzeroGuard s = nonzeroP s := rfl
    rw [h1, h2, nonzeroP_eq]⟩

/-- the if/elif dispatch of `pool_rdm` on the method name, regenerated from both files: which
    normaliser each of the six methods gets (1 `/RMS`, 2 mean removal + `/std`, 3 ranks; in
    `util/pooling.py` 4 / 5 = the whitened norm for `cosine_cov` / `corr_cov`) and the **min-shift
    condition** (only the correlation-type pools are shifted) — the model's `normF`, `poolD`, `poolO`,
    `poolW` call these leaves -/
theorem dispatch_leaves (m : Method) :
    Rsa.Gen.C07.normKind m.code = (match m with
      | .cosine | .cosineCov => 1 | .corr | .corrCov => 2 | .rhoA | .spearman => 3) ∧
    Rsa.Gen.C07.hasShift m.code = (match m with | .corr | .corrCov => 1 | _ => 0) ∧
    Rsa.Gen.C07.poolingNormKind m.code = (match m with
      | .cosine => 1 | .corr => 2 | .rhoA | .spearman => 3 | .cosineCov => 4 | .corrCov => 5) ∧
    Rsa.Gen.C07.poolingHasShift m.code = Rsa.Gen.C07.hasShift m.code := by
  cases m <;> decide

/-- `for i in range(len(ceil_set))` visits every fold (both functions), and the defaults are
    `method='cosine'`, descriptor `'index'`; hence `boot_noise_ceiling` as coded is the generic loop
    over *all* leave-one-group-out folds the theorems above speak about -/
theorem loop_leaves (n : ℕ) (m : Method) (o : Obj) (rows : List (List (Option ℝ))) :
    Rsa.Gen.C07.bootLoopLen n = n ∧ Rsa.Gen.C07.cvLoopLen n = n ∧
    Rsa.Gen.C07.bootDefaults = 1 ∧ Rsa.Gen.C07.cvDefaults = 1 ∧
    bootNoiseCeilingO m o rows =
      (if commonMask rows then
        some (bootNoiseCeilingG (poolO m) (simO m (vFor m o.nC (maskOf (rows.headD [])))) rows o)
      else none) := by
  refine ⟨rfl, rfl, rfl, rfl, ?_⟩
  have htake : List.take (Rsa.Gen.C07.bootLoopLen (looFolds o).length) (looFolds o) = looFolds o := by
    unfold Rsa.Gen.C07.bootLoopLen; exact List.take_length
  unfold bootNoiseCeilingO
  simp only [htake]
  rfl

/-! ## 12. (round 4) sessions: one RDMs object analysed by several successive calls -/

/-- the in-place write counts read off the current source are zero: neither `pool_rdm` (either file, incl.
    the helpers it hands its data to) nor the two ceilings has a statement that writes into an array
    aliasing the caller's data — so every function that takes the caller's object has write count 0 -/
theorem input_write_leaves (f : Fn) :
    Rsa.Gen.C07.poolInputWrites = 0 ∧ Rsa.Gen.C07.poolingInputWrites = 0 ∧
    Rsa.Gen.C07.ceilingInputWrites = 0 ∧ writesOf f = 0 := by
  refine ⟨rfl, rfl, rfl, ?_⟩
  cases f <;> rfl

/-- as coded, a call (noise ceiling, pooling, `eval_fixed`, any method) leaves the data of the object it
    analyses exactly as they were -/
theorem call_leaves_data_unchanged (c : Call) (rows : List (List (Option ℝ))) :
    callEffect c rows = rows := by
  unfold callEffect callEffectW
  rw [(input_write_leaves c.fn).2.2.2]
  simp

/-- **sessions**: when one RDMs object is analysed by any sequence of calls (any functions, any methods,
    any order, any arguments `κ`), every call returns what it returns on the pristine data, and the object
    holds the pristine data after every call.  Hence every statement of this file about a single call —
    optimality of the upper bound, leave-one-out structure, lower ≤ upper, invariances — holds for every
    call of a session, whatever was computed on the object before. -/
theorem session_calls_independent {κ ρ : Type} (call : κ → Call)
    (result : κ → List (List (Option ℝ)) → ρ) (calls : List κ) (rows : List (List (Option ℝ))) :
    runSessionG (fun c => callEffect (call c)) result calls rows =
      calls.map (fun c => (result c rows, rows)) := by
  induction calls with
  | nil => rfl
  | cons c cs ih =>
    simp only [runSessionG, List.map_cons, call_leaves_data_unchanged]
    rw [ih]

/-- the `k`-th call of a session in particular: e.g. a `boot_noise_ceiling(…, 'cosine')` that comes after a
    `'corr'` ceiling on the same object returns `bootNoiseCeilingO .cosine o rows` of the original rows, the
    quantity `upper_unbeatable_cosine`, `lower_le_upper_cosine`, `ceiling_scale_invariant` … are about -/
theorem session_call_at {κ ρ : Type} (call : κ → Call) (result : κ → List (List (Option ℝ)) → ρ)
    (calls : List κ) (rows : List (List (Option ℝ))) (k : ℕ) (hk : k < calls.length) :
    (runSessionG (fun c => callEffect (call c)) result calls rows)[k]? = some (result calls[k] rows, rows) := by
  rw [session_calls_independent]
  simp [hk]

/-- why the write counts matter (the condition of `call_leaves_data_unchanged` is not decoration): a
    `pool_rdm` with a single in-place statement replaces the caller's data by their ranks / z-scores, after
    which a scale- or shift-sensitive analysis of the same object sees different data -/
theorem inplace_write_changes_data :
    callEffectW 1 ⟨.pool, .rhoA⟩ ([[some 5, some 3, some 9]] : List (List (Option ℝ)))
      = [[some 2, some 1, some 3]] := by
  simp [callEffectW, applyO, normF, Rsa.Gen.C07.normKind, Method.code, present, rankF, rankOf, cntLt, cntEq]
  norm_num

/-! ## non-vacuity -/

/-- three 3-condition RDMs (one with a tie), each its own group with unordered descriptor values -/
def exRows : List (List ℝ) := [[1, 2, 3], [2, 1, 4], [3, 3, 1]]
def exObj : Obj := { nR := 3, nC := 3, rdesc := fun j => [5, 2, 9].getD j 0, pdesc := id }

example : Singleton exObj exRows.length where
  size := rfl
  inj := by
    intro i j hi hj h
    have hi' : i < 3 := hi
    have hj' : j < 3 := hj
    interval_cases i <;> interval_cases j <;> simp_all [exObj]
  two := by decide

example : (∀ r ∈ exRows, r.length = 3) ∧ (∀ r ∈ exRows, 0 < dot r r) ∧
    (∀ r ∈ exRows, 0 < dot (center r) (center r)) ∧ exRows ≠ [] := by
  refine ⟨?_, ?_, ?_, by simp [exRows]⟩ <;>
  · intro r hr
    simp only [exRows, List.mem_cons, List.not_mem_nil, or_false] at hr
    rcases hr with rfl | rfl | rfl <;> norm_num [dot, center, mean]

-- a non-zero candidate
example : 0 < dot ([1, 0, 2] : List ℝ) [1, 0, 2] := by norm_num [dot]

-- at least two groups, and a fold of the loop
example : 1 < (uniq (descList exObj.nR exObj.rdesc)).length ∧ looFoldOf exObj 2 ∈ looFolds exObj ∧
    (looFoldOf exObj 2).test.rows = [1] ∧ (looFoldOf exObj 2).train.rows = [0, 2] := by
  refine ⟨by decide, ?_, by decide, by decide⟩
  rw [looFolds_eq exObj (by decide)]
  exact List.mem_map.mpr ⟨2, by decide, rfl⟩

-- rescaled / shifted stacks
example : List.Forall₂ (fun r r' => ∃ k : ℝ, 0 < k ∧ r' = r.map (· * k))
    ([[1, 2, 3], [2, 1, 4]] : List (List ℝ)) [[2, 4, 6], [1, 1 / 2, 2]] := by
  refine List.Forall₂.cons ⟨2, by norm_num, by norm_num⟩
    (List.Forall₂.cons ⟨1 / 2, by norm_num, by norm_num⟩ List.Forall₂.nil)

example : List.Forall₂ (fun r r' => ∃ k b : ℝ, 0 < k ∧ r' = r.map (fun a => k * a + b))
    ([[1, 2, 3], [2, 1, 4]] : List (List ℝ)) [[3, 5, 7], [5, 4, 7]] := by
  refine List.Forall₂.cons ⟨2, 1, by norm_num, by norm_num⟩
    (List.Forall₂.cons ⟨1, 3, by norm_num, by norm_num⟩ List.Forall₂.nil)

-- a stack with one entry missing from all RDMs, and one with mismatching missing entries
example : ([[1, 3], [2, 4]] : List (List ℝ)).map (expand [true, false, true])
    = [[some 1, none, some 3], [some 2, none, some 4]] ∧
    (∀ d ∈ ([[1, 3], [2, 4]] : List (List ℝ)), d.length = [true, false, true].count true) := by
  constructor
  · rfl
  · intro d hd
    simp only [List.mem_cons, List.not_mem_nil, or_false] at hd
    rcases hd with rfl | rfl <;> rfl

example : commonMask ([[some 1, none, some 3], [some 2, some 5, some 4]] : List (List (Option ℝ))) = false := by
  rfl

-- the whitened theorems: for three conditions `V = getV 3 none` is symmetric positive definite and
-- `Compare.solve` (Gauss–Jordan, as executed by the driver) meets the solver contract on it
theorem getV3_eq : getV 3 (SigmaK.none : SigmaK ℝ) = [[4, 1, 1], [1, 4, 1], [1, 1, 4]] := by
  simp [getV, xi, contrast, pairs, pairsOf, List.range_succ]
  norm_num

example : SymPosDef [[4, 1, 1], [1, 4, 1], [1, 1, 4]] 3 := by
  refine ⟨rfl, by simp, ?_, ?_⟩
  · intro i j hi hj
    interval_cases i <;> interval_cases j <;> simp [ent]
  · intro f hf
    have hq : Q [[4, 1, 1], [1, 4, 1], [1, 1, 4]] 3 f f
        = 3 * (f 0 * f 0 + f 1 * f 1 + f 2 * f 2) + (f 0 + f 1 + f 2) * (f 0 + f 1 + f 2) := by
      simp [Q, ent, Finset.sum_range_succ]; ring
    rw [hq]
    obtain ⟨i, hi, hne⟩ := hf
    have h0 := mul_self_nonneg (f 0)
    have h1 := mul_self_nonneg (f 1)
    have h2 := mul_self_nonneg (f 2)
    have h3 := mul_self_nonneg (f 0 + f 1 + f 2)
    have : 0 < f i * f i := mul_self_pos.mpr hne
    interval_cases i <;> nlinarith

theorem isSolver_getV3 : IsSolver [[4, 1, 1], [1, 4, 1], [1, 1, 4]] 3 (solve [[4, 1, 1], [1, 4, 1], [1, 1, 4]]) := by
  intro b hb
  match b, hb with
  | [x, y, z], _ =>
    constructor
    · simp [solve, elimStep, List.range_succ]
    · simp [solve, elimStep, List.range_succ, matVec, dot, List.getD]
      refine ⟨?_, ?_, ?_⟩ <;> ring

-- a stack with a constant RDM (degenerate for the correlation measures) and one with a zero RDM
example : ¬ 0 < dot (center ([4, 4, 4] : List ℝ)) (center [4, 4, 4]) ∧ ¬ 0 < dot ([0, 0, 0] : List ℝ) [0, 0, 0] := by
  constructor <;> norm_num [dot, center, mean]

-- round 3: unequal groups (sizes 2 and 1) and balanced groups (2 + 2)
def exObjU : Obj := { nR := 3, nC := 3, rdesc := fun j => [5, 5, 9].getD j 0, pdesc := id }

example : exObjU.nR = exRows.length ∧ 1 < nGroups exObjU ∧ groupSize exObjU 0 = 2 ∧
    groupSize exObjU 2 = 1 := ⟨rfl, by decide, by decide, by decide⟩

def exObjB : Obj := { nR := 4, nC := 3, rdesc := fun j => [5, 9, 9, 5].getD j 0, pdesc := id }

example : exObjB.nR = ([[1, 2, 3], [2, 1, 4], [3, 3, 1], [0, 1, 1]] : List (List ℝ)).length ∧
    1 < nGroups exObjB ∧ ∀ j, j < exObjB.nR → groupSize exObjB j = 2 := by
  refine ⟨rfl, by decide, ?_⟩
  intro j hj
  have hj' : j < 4 := hj
  interval_cases j <;> decide

-- round 3: a cross-validation fold on a stack with a commonly missing entry on which the shapes agree
-- (the `if` of `cv_ignores_common_nan` takes the `some` branch)
def exCvObj : Obj := { nR := 2, nC := 3, rdesc := id, pdesc := id }
def exCvFold : CvFold :=
  { ceil := { rows := [0], conds := [0, 1, 2], pidx := [0, 1, 2] },
    test := { rows := [1], conds := [0, 1, 2], pidx := [0, 1, 2] } }

example : cvShapesOk (poolDense .cosine) exCvObj
    (([[1, 3], [2, 4]] : List (List ℝ)).map (expand [true, false, true])) [exCvFold] = true := by
  simp [cvShapesOk, cvPredTrain, cvPredTest, partData, selectRows, restrict, subsampleAt, maskVec,
    poolDense, expand, maskOf, exCvObj, exCvFold, pairs, pairsOf, List.range_succ, triLen, present, poolD,
    meanRows, vsumP, applyD, vadd, normF, Rsa.Gen.C07.normKind, Rsa.Gen.C07.hasShift, Method.code]

-- round 3: the solver contract of the coded-shortcut theorems holds for three conditions
example : 0 < 3 ∧ IsSolver (getV 3 (SigmaK.none : SigmaK ℝ)) (triLen 3) (solve (getV 3 SigmaK.none)) := by
  refine ⟨by decide, ?_⟩
  rw [getV3_eq]
  exact isSolver_getV3

-- round 4: a session of three calls with different methods on a stack with a commonly missing entry
example : runSessionG (fun c => callEffect c) (fun (c : Call) rows => bootNoiseCeilingO c.m exObj rows)
    [⟨.boot, .corr⟩, ⟨.cv, .cosine⟩, ⟨.evalFixed, .rhoA⟩] ([[some 1, none, some 3], [some 2, none, some 4]] : List (List (Option ℝ)))
    = [⟨.boot, .corr⟩, ⟨.cv, .cosine⟩, ⟨.evalFixed, .rhoA⟩].map
        (fun (c : Call) => (bootNoiseCeilingO c.m exObj [[some 1, none, some 3], [some 2, none, some 4]],
          ([[some 1, none, some 3], [some 2, none, some 4]] : List (List (Option ℝ))))) :=
  session_calls_independent id _ _ _

-- round 7, non-vacuity: a fold of `sets_k_fold`-shape on 4 conditions testing conditions 1..3 (a proper subset) with
-- the ceiling part holding exactly those; any pool returning a full RDM of the 3 conditions qualifies
example : (∀ c ∈ ({ rows := [0], conds := [1, 2, 3], pidx := [1, 2, 3] } : Part).conds,
      ({ rows := [1], conds := [1, 2, 3], pidx := [1, 2, 3] } : Part).pidx.contains
        (({ nR := 2, nC := 4, rdesc := id, pdesc := id } : Obj).pdesc c) = true) ∧
    (fun (l : List (List ℚ)) => l.headD []) (partData 4 [[1, 2, 3, 4, 5, 6], [6, 5, 4, 3, 2, 1]]
        { rows := [0], conds := [1, 2, 3], pidx := [1, 2, 3] })
      = (pairs 3).map (fun q => ([[0, 4, 5], [4, 0, 6], [5, 6, 0]] : List (List ℚ)).getD q.1 [] |>.getD q.2 0) := by
  refine ⟨by decide, by decide⟩

end Rsa.Props.C07
