/-
  Property C07 — upper noise ceiling is unbeatable; lower is leave-one-out and not above it.

  Objects (`Rsa.Core.Ceiling`): `poolD m` = `pool_rdm` on vectors without missing values,
  `poolO m` = the same as coded on vectors with missing values (`none` = NaN), `simV m V` =
  `compare` for one pair, `bootNoiseCeilingG pool sim rows o` = `boot_noise_ceiling` (leave-one-group-
  out folds of `Rsa.Folds`, C05), `candidateScore sim rows o c` = the score the same loop gives an
  arbitrary candidate RDM `c`, `cvPredTrain / cvPredTest` = the two predictions of
  `cv_noise_ceiling`.  "Every RDM its own group" is: `o.nR = rows.length`, `o.rdesc` injective on
  the RDM positions, at least two RDMs.

  The only data hypothesis is that all RDM vectors have the same length.  Zero (cosine) / constant
  (correlation) data RDMs are allowed: the model leaves them out of the pool (their similarity to
  anything is 0 by the guard of `_cosine`) — the *repaired* behaviour; the pinned tree divides by
  their zero RMS / standard deviation and raises (see notes/C07.md).
-/
import Rsa.Lemmas.C07Opt
import Rsa.Lemmas.C07Rank
import Rsa.Lemmas.C07Loo
import Rsa.Lemmas.C07White
import Rsa.Lemmas.C07Struct
import Mathlib.Tactic.IntervalCases

set_option linter.unusedSectionVars false
set_option linter.unusedVariables false
set_option linter.unusedSimpArgs false

namespace Rsa.Props.C07
open Rsa Rsa.Compare Rsa.Ceiling Rsa.Folds

/-- every data RDM forms its own group, and there are at least two -/
structure Singleton (o : Obj) (n : ℕ) : Prop where
  size : o.nR = n
  inj : ∀ i j, i < o.nR → j < o.nR → o.rdesc i = o.rdesc j → i = j
  two : 2 ≤ o.nR

/-! ## 1. the pooled RDM is optimal -/

/-- the mean cosine similarity of any non-zero candidate `c` to the data RDMs is its normalised
    inner product with the pooled RDM (times `1/√p`): all that matters about the data is the pool -/
theorem mean_sim_eq_sim_to_pool (c : List ℝ) (p : ℕ) (rows : List (List ℝ)) (hne : rows ≠ [])
    (hlen : ∀ r ∈ rows, r.length = p) (hc : 0 < dot c c) :
    (rows.map (cosine c)).sum / (rows.length : ℝ) =
      dot c (poolD .cosine rows) / (Real.sqrt p * Real.sqrt (dot c c)) := by
  rw [sum_cosine_eq c p rows hne hlen hc]
  have hn : (rows.length : ℝ) ≠ 0 := by
    have : rows.length ≠ 0 := fun h => hne (List.eq_nil_of_length_eq_zero h)
    exact_mod_cast this
  field_simp

/-- cosine: no candidate RDM (zero, negative, anything) has a larger summed similarity to the data
    RDMs than `pool_rdm(rdms, 'cosine')` (Cauchy–Schwarz) -/
theorem cosine_pool_optimal (c : List ℝ) (p : ℕ) (rows : List (List ℝ)) (hne : rows ≠ [])
    (hlen : ∀ r ∈ rows, r.length = p) :
    (rows.map (cosine c)).sum ≤ (rows.map (cosine (poolD .cosine rows))).sum :=
  sum_cosine_le_pool c p rows hne hlen

/-- Pearson correlation: the same for `pool_rdm(rdms, 'corr')` (z-score, mean, minus the minimum —
    the final shift is immaterial) -/
theorem corr_pool_optimal (c : List ℝ) (p : ℕ) (rows : List (List ℝ)) (hne : rows ≠ [])
    (hlen : ∀ r ∈ rows, r.length = p) :
    (rows.map (corr c)).sum ≤ (rows.map (corr (poolD .corr rows))).sum :=
  sum_corr_le_pool c p rows hne hlen

/-- rho-a: among all candidates — **ties in the candidate and in the data allowed** — the mean of
    the data rank vectors maximises the summed rho-a (pairwise rearrangement argument) -/
theorem rhoa_pool_optimal (c : List ℝ) (p : ℕ) (rows : List (List ℝ)) (hne : rows ≠ [])
    (hlen : ∀ r ∈ rows, r.length = p) (hc : c.length = p) :
    (rows.map (rhoA c)).sum ≤ (rows.map (rhoA (poolD .rhoA rows))).sum :=
  sum_rhoA_le_pool c p rows hne hlen hc

/-! ## 2. what `boot_noise_ceiling` computes when every RDM is its own group -/

/-- lower = mean over RDMs `i` of sim(pool of the *other* RDMs, RDM `i`); upper = mean over `i` of
    sim(pool of all RDMs, RDM `i`) — for every pooling rule and similarity -/
theorem singleton_groups_spec {β π : Type} (pool : List β → π) (sim : π → β → ℝ) (rows : List β)
    (o : Obj) (hs : Singleton o rows.length) :
    bootNoiseCeilingG pool sim rows o =
      bounds ((List.range rows.length).map fun i =>
        (meanSim sim (pool (rows.eraseIdx i)) (selectRows rows [i]),
         meanSim sim (pool rows) (selectRows rows [i]))) ∧
    (bootNoiseCeilingG pool sim rows o).2 = (rows.map (sim (pool rows))).sum / (rows.length : ℝ) ∧
    ∀ c, candidateScore sim rows o c = (rows.map (sim c)).sum / (rows.length : ℝ) :=
  ⟨boot_singleton_spec pool sim rows o hs.size hs.inj hs.two,
   upper_singleton pool sim rows o hs.size hs.inj hs.two,
   fun c => candidateScore_singleton sim rows o c hs.size hs.inj hs.two⟩

/-- the upper bound *is* the score of the pooled RDM (any grouping): it is attained -/
theorem upper_attained {β π : Type} (pool : List β → π) (sim : π → β → ℝ) (rows : List β) (o : Obj) :
    (bootNoiseCeilingG pool sim rows o).2 = candidateScore sim rows o (pool rows) := by
  rw [candidateScore_eq_boot]
  unfold bootNoiseCeilingG bounds bootTerms
  simp [List.map_map, Function.comp_def]

theorem div_le_div_nat (a b : ℝ) (n : ℕ) (h : a ≤ b) : a / (n : ℝ) ≤ b / (n : ℝ) :=
  div_le_div_of_nonneg_right h (Nat.cast_nonneg n)

/-- cosine, every RDM its own group: **no candidate RDM scores above the upper noise ceiling** -/
theorem upper_unbeatable_cosine (V : List (List ℝ)) (p : ℕ) (rows : List (List ℝ)) (o : Obj)
    (hs : Singleton o rows.length) (hlen : ∀ r ∈ rows, r.length = p) (c : List ℝ) :
    candidateScore (simV .cosine V) rows o c
      ≤ (bootNoiseCeilingG (poolD .cosine) (simV .cosine V) rows o).2 := by
  have hne : rows ≠ [] := by
    intro h; have := hs.two; rw [hs.size, h] at this; simp at this
  rw [candidateScore_singleton _ rows o c hs.size hs.inj hs.two,
    upper_singleton _ _ rows o hs.size hs.inj hs.two]
  exact div_le_div_nat _ _ _ (sum_cosine_le_pool c p rows hne hlen)

/-- Pearson correlation, every RDM its own group -/
theorem upper_unbeatable_corr (V : List (List ℝ)) (p : ℕ) (rows : List (List ℝ)) (o : Obj)
    (hs : Singleton o rows.length) (hlen : ∀ r ∈ rows, r.length = p) (c : List ℝ) :
    candidateScore (simV .corr V) rows o c
      ≤ (bootNoiseCeilingG (poolD .corr) (simV .corr V) rows o).2 := by
  have hne : rows ≠ [] := by
    intro h; have := hs.two; rw [hs.size, h] at this; simp at this
  rw [candidateScore_singleton _ rows o c hs.size hs.inj hs.two,
    upper_singleton _ _ rows o hs.size hs.inj hs.two]
  exact div_le_div_nat _ _ _ (sum_corr_le_pool c p rows hne hlen)

/-- rho-a, every RDM its own group, candidates and data with arbitrary ties -/
theorem upper_unbeatable_rhoa (V : List (List ℝ)) (p : ℕ) (rows : List (List ℝ)) (o : Obj)
    (hs : Singleton o rows.length) (hlen : ∀ r ∈ rows, r.length = p) (c : List ℝ)
    (hc : c.length = p) :
    candidateScore (simV .rhoA V) rows o c
      ≤ (bootNoiseCeilingG (poolD .rhoA) (simV .rhoA V) rows o).2 := by
  have hne : rows ≠ [] := by
    intro h; have := hs.two; rw [hs.size, h] at this; simp at this
  rw [candidateScore_singleton _ rows o c hs.size hs.inj hs.two,
    upper_singleton _ _ rows o hs.size hs.inj hs.two]
  exact div_le_div_nat _ _ _ (sum_rhoA_le_pool c p rows hne hlen hc)

/-! ## 3. lower ≤ upper -/

/-- for **every** symmetric positive semi-definite form `B` on the RDM entries (plain or whitened):
    the RMS-normalised pool without RDM `i` is no more `B`-similar to RDM `i` than the full pool -/
theorem loo_term_le {p : ℕ} {B : List ℝ → List ℝ → ℝ} (h : IPForm p B)
    (rows : List (List ℝ)) (i : ℕ) (hi : i < rows.length) (h2 : 2 ≤ rows.length)
    (hlen : ∀ r ∈ rows, r.length = p) (hpos : 0 < dot rows[i] rows[i]) (hB : 0 < B rows[i] rows[i]) :
    cosB B (poolD .cosine (rows.eraseIdx i)) rows[i] ≤ cosB B (poolD .cosine rows) rows[i] :=
  loo_cosine_pool_le h rows i hi h2 hlen hpos hB

theorem exists_ne_zero_of_dot_pos {r : List ℝ} (h : 0 < dot r r) : ∃ c ∈ r, c ≠ 0 := by
  by_contra hz
  push Not at hz
  have : dot r r = 0 := by
    rw [dot_self_eq_sum_sq]
    apply List.sum_eq_zero
    intro x hx
    obtain ⟨a, ha, rfl⟩ := List.mem_map.mp hx
    rw [hz a ha, mul_zero]
  linarith

/-- the whitened instance: `V` symmetric positive definite, any correct linear solver `sol`;
    the form is `xᵀV⁻¹y` -/
theorem loo_term_le_whitened {V : List (List ℝ)} {p : ℕ} (hV : SymPosDef V p)
    {sol : List ℝ → List ℝ} (hsol : IsSolver V p sol)
    (rows : List (List ℝ)) (i : ℕ) (hi : i < rows.length) (h2 : 2 ≤ rows.length)
    (hlen : ∀ r ∈ rows, r.length = p) (hpos : 0 < dot rows[i] rows[i]) :
    cosB (wform sol) (poolD .cosine (rows.eraseIdx i)) rows[i]
      ≤ cosB (wform sol) (poolD .cosine rows) rows[i] :=
  loo_cosine_pool_le (ipForm_whitened hV hsol) rows i hi h2 hlen hpos
    (wform_pos hV hsol _ (hlen _ (List.getElem_mem hi)) (exists_ne_zero_of_dot_pos hpos))

/-- the same for correlation-type pooling and comparison (everything mean-removed first) -/
theorem loo_corr_term_le {p : ℕ} {B : List ℝ → List ℝ → ℝ} (h : IPForm p B)
    (rows : List (List ℝ)) (i : ℕ) (hi : i < rows.length) (h2 : 2 ≤ rows.length)
    (hlen : ∀ r ∈ rows, r.length = p) (hpos : 0 < dot (center rows[i]) (center rows[i]))
    (hB : 0 < B (center rows[i]) (center rows[i])) :
    cosB B (center (poolD .corr (rows.eraseIdx i))) (center rows[i])
      ≤ cosB B (center (poolD .corr rows)) (center rows[i]) := by
  have hne : rows ≠ [] := by rintro rfl; simp at hi
  have hel : (rows.eraseIdx i).length = rows.length - 1 := List.length_eraseIdx_of_lt hi
  have hne' : rows.eraseIdx i ≠ [] := by
    intro hh; rw [hh] at hel; simp at hel; omega
  have hlen' : ∀ r ∈ rows.eraseIdx i, r.length = p := fun r hr => hlen r (List.mem_of_mem_eraseIdx hr)
  rw [center_poolD_corr p _ hne' hlen', center_poolD_corr p _ hne hlen, ← eraseIdx_map]
  have hi' : i < (rows.map center).length := by simpa using hi
  have hg : (rows.map center)[i] = center rows[i] := by simp
  have := loo_cosine_pool_le h (rows.map center) i hi' (by simpa using h2)
    (map_center_length p rows hlen) (by rw [hg]; exact hpos) (by rw [hg]; exact hB)
  rw [hg] at this
  exact this

theorem dot_eq_zero_of_self_zero {r : List ℝ} (h : ¬ 0 < dot r r) (y : List ℝ) : dot r y = 0 := by
  have hz : dot r r = 0 := le_antisymm (not_lt.mp h) (dot_self_nonneg r)
  have := dot_sq_le r y
  rw [hz, zero_mul] at this
  nlinarith [mul_self_nonneg (dot r y)]

theorem cosS_zero_right (b X : ℝ) : cosS b X 0 = 0 := by unfold cosS; simp

/-- a zero RDM (cosine) / constant RDM (correlation) is left out of the pool and has similarity 0
    to everything: it neither helps nor hurts any candidate -/
theorem degenerate_rdm_contributes_nothing (r : List ℝ) :
    (¬ 0 < dot r r → applyD cosF r = r.map (fun _ => 0) ∧ ∀ c, cosine c r = 0) ∧
    (¬ 0 < dot (center r) (center r) → applyD corrF r = r.map (fun _ => 0) ∧ ∀ c, corr c r = 0) := by
  have key : ∀ x : List ℝ, ¬ 0 < dot x x → applyD cosF x = x.map (fun _ => 0) ∧ ∀ c, cosine c x = 0 := by
    intro x h
    have hz : dot x x = 0 := le_antisymm (not_lt.mp h) (dot_self_nonneg x)
    constructor
    · rw [applyD_cosF, rms_eq, hz]; simp
    · intro c
      rw [cosine_eq_cosS, hz]; exact cosS_zero_right _ _
  refine ⟨key r, fun h => ?_⟩
  obtain ⟨h1, h2⟩ := key (center r) h
  refine ⟨?_, fun c => h2 (center c)⟩
  rw [applyD_corrF, h1]; simp [center, List.map_map, Function.comp_def, List.map_const']

/-- cosine, every RDM its own group: **lower bound ≤ upper bound** -/
theorem lower_le_upper_cosine (V : List (List ℝ)) (p : ℕ) (rows : List (List ℝ)) (o : Obj)
    (hs : Singleton o rows.length) (hlen : ∀ r ∈ rows, r.length = p) :
    (bootNoiseCeilingG (poolD .cosine) (simV .cosine V) rows o).1
      ≤ (bootNoiseCeilingG (poolD .cosine) (simV .cosine V) rows o).2 := by
  apply lower_le_upper_of_terms _ _ rows o hs.size hs.inj hs.two
  intro i hi
  have h2 : 2 ≤ rows.length := by rw [← hs.size]; exact hs.two
  by_cases hp : 0 < dot rows[i] rows[i]
  · exact loo_cosine_pool_le (ipForm_dot p) rows i hi h2 hlen hp hp
  · have hz : dot rows[i] rows[i] = 0 := le_antisymm (not_lt.mp hp) (dot_self_nonneg _)
    show cosine _ rows[i] ≤ cosine _ rows[i]
    rw [cosine_eq_cosS, cosine_eq_cosS, hz, cosS_zero_right, cosS_zero_right]

/-- Pearson correlation, every RDM its own group: lower ≤ upper -/
theorem lower_le_upper_corr (V : List (List ℝ)) (p : ℕ) (rows : List (List ℝ)) (o : Obj)
    (hs : Singleton o rows.length) (hlen : ∀ r ∈ rows, r.length = p) :
    (bootNoiseCeilingG (poolD .corr) (simV .corr V) rows o).1
      ≤ (bootNoiseCeilingG (poolD .corr) (simV .corr V) rows o).2 := by
  apply lower_le_upper_of_terms _ _ rows o hs.size hs.inj hs.two
  intro i hi
  have h2 : 2 ≤ rows.length := by rw [← hs.size]; exact hs.two
  by_cases hp : 0 < dot (center rows[i]) (center rows[i])
  · exact loo_corr_term_le (ipForm_dot p) rows i hi h2 hlen hp hp
  · have hz : dot (center rows[i]) (center rows[i]) = 0 :=
      le_antisymm (not_lt.mp hp) (dot_self_nonneg _)
    show cosine _ (center rows[i]) ≤ cosine _ (center rows[i])
    rw [cosine_eq_cosS, cosine_eq_cosS, hz, cosS_zero_right, cosS_zero_right]

/-- whitened cosine and whitened correlation (`cosine_cov`, `corr_cov`; the ceiling functions pool
    with the plain RMS / standard deviation and compare with `V⁻¹`): lower ≤ upper, for every
    symmetric positive definite `V` on which `Compare.solve` meets the solver contract -/
theorem lower_le_upper_whitened {V : List (List ℝ)} {p : ℕ} (hV : SymPosDef V p)
    (hsol : IsSolver V p (solve V)) (rows : List (List ℝ)) (o : Obj)
    (hs : Singleton o rows.length) (hlen : ∀ r ∈ rows, r.length = p) :
    (bootNoiseCeilingG (poolD .cosineCov) (simV .cosineCov V) rows o).1
        ≤ (bootNoiseCeilingG (poolD .cosineCov) (simV .cosineCov V) rows o).2 ∧
    (bootNoiseCeilingG (poolD .corrCov) (simV .corrCov V) rows o).1
        ≤ (bootNoiseCeilingG (poolD .corrCov) (simV .corrCov V) rows o).2 := by
  have h2 : 2 ≤ rows.length := by rw [← hs.size]; exact hs.two
  have hform := ipForm_whitened hV hsol
  have hdeg : ∀ a r : List ℝ, ¬ 0 < dot r r → wsim V a r = 0 := by
    intro a r hr
    rw [wsim_eq_cosB]
    unfold cosB wform
    rw [dot_eq_zero_of_self_zero hr (solve V r)]
    exact cosS_zero_right _ _
  constructor
  · apply lower_le_upper_of_terms _ _ rows o hs.size hs.inj hs.two
    intro i hi
    show wsim V (poolD .cosine (rows.eraseIdx i)) rows[i] ≤ wsim V (poolD .cosine rows) rows[i]
    by_cases hp : 0 < dot rows[i] rows[i]
    · rw [wsim_eq_cosB, wsim_eq_cosB]
      exact loo_term_le_whitened hV hsol rows i hi h2 hlen hp
    · rw [hdeg _ _ hp, hdeg _ _ hp]
  · apply lower_le_upper_of_terms _ _ rows o hs.size hs.inj hs.two
    intro i hi
    show wsim V (center (poolD .corr (rows.eraseIdx i))) (center rows[i])
      ≤ wsim V (center (poolD .corr rows)) (center rows[i])
    by_cases hp : 0 < dot (center rows[i]) (center rows[i])
    · rw [wsim_eq_cosB, wsim_eq_cosB]
      have hcl : (center rows[i]).length = p := by
        rw [center_length]; exact hlen _ (List.getElem_mem hi)
      exact loo_corr_term_le hform rows i hi h2 hlen hp
        (wform_pos hV hsol _ hcl (exists_ne_zero_of_dot_pos hp))
    · rw [hdeg _ _ hp, hdeg _ _ hp]

/-! ## 4. the lower-bound prediction is computed without the left-out group -/

/-- with at least two groups, every fold of `boot_noise_ceiling` leaves exactly one group `v` out:
    its test RDMs are the RDMs of group `v`, its training RDMs are *all and only* the RDMs of the
    other groups, and the prediction does not change when the data of group `v` change -/
theorem lower_excludes_left_out {β π : Type} (pool : List β → π) (o : Obj)
    (h2 : 1 < (uniq (descList o.nR o.rdesc)).length) (f : Fold) (hf : f ∈ looFolds o) :
    ∃ v, (∀ j, j ∈ f.test.rows ↔ j < o.nR ∧ o.rdesc j = v) ∧
      (∀ j, j ∈ f.train.rows ↔ j < o.nR ∧ o.rdesc j ≠ v) ∧
      ∀ rows rows' : List β, (∀ j, o.rdesc j ≠ v → rows[j]? = rows'[j]?) →
        bootPrediction pool rows f = bootPrediction pool rows' f := by
  rw [looFolds_eq o h2] at hf
  obtain ⟨v, _, rfl⟩ := List.mem_map.mp hf
  refine ⟨v, ?_, ?_, ?_⟩
  · intro j
    rw [looFoldOf_test_rows]
    simp [List.mem_filter]
  · intro j
    rw [looFoldOf_train_rows]
    simp [List.mem_filter]
  · intro rows rows' h
    unfold bootPrediction
    rw [selectRows_congr rows rows']
    intro j hj
    rw [looFoldOf_train_rows] at hj
    have := (List.mem_filter.mp hj).2
    exact h j (by simpa using this)

/-- cross-validation: the lower-bound prediction of a fold is a function of the ceiling-set RDMs
    (the training RDMs at the test conditions) only -/
theorem cv_prediction_uses_ceil_only {ε : Type} (pool : List (List ε) → List ε) (o : Obj)
    (rows rows' : List (List ε)) (f : CvFold) (h : ∀ j ∈ f.ceil.rows, rows[j]? = rows'[j]?) :
    cvPredTrain pool o rows f = cvPredTrain pool o rows' f := by
  unfold cvPredTrain partData
  rw [selectRows_congr rows rows' _ h]

/-- … and for the sets the generators build (training / test RDM groups with disjoint descriptor
    values, realised by `subset`/`subsample`, ceiling set = training RDMs at the test conditions):
    no test RDM is in the ceiling set, and changing the test RDMs leaves the prediction unchanged -/
theorem cv_prediction_excludes_test {ε : Type} (pool : List (List ε) → List ε) (o : Obj) (sub : Bool)
    (rtr rte : List ℕ) (pv : Option (List ℕ)) (hd : List.Disjoint rtr rte)
    (rows rows' : List (List ε)) (h : ∀ j, o.rdesc j ∉ rte → rows[j]? = rows'[j]?) :
    (∀ j ∈ (mkPart o sub (some rtr) pv).rows, j ∉ (mkPart o sub (some rte) pv).rows) ∧
    cvPredTrain pool o rows ⟨mkPart o sub (some rtr) pv, mkPart o sub (some rte) pv⟩
      = cvPredTrain pool o rows' ⟨mkPart o sub (some rtr) pv, mkPart o sub (some rte) pv⟩ := by
  have hmem : ∀ j ∈ (mkPart o sub (some rtr) pv).rows, o.rdesc j ∈ rtr := by
    intro j hj
    exact (mem_selRows.mp hj).2 rtr rfl
  constructor
  · intro j hj hj'
    have h1 := hmem j hj
    have h2 : o.rdesc j ∈ rte := (mem_selRows.mp hj').2 rte rfl
    exact hd h1 h2
  · apply cv_prediction_uses_ceil_only
    intro j hj
    exact h j (fun h2 => hd (hmem j hj) h2)

/-- cross-validation upper bound: its prediction is the pool of **all** RDMs, at the test
    conditions: if the pooled RDM has entry `e i j` for the pair `(i, j)`, the prediction is the RDM
    of the conditions whose pattern-descriptor value is a test value -/
theorem cv_upper_is_full_pool_at_test {ε : Type} (pool : List (List ε) → List ε) (o : Obj)
    (rows : List (List ε)) (f : CvFold) (e : ℕ → ℕ → ε)
    (hp : pool rows = (pairs o.nC).map (fun q => e q.1 q.2)) :
    cvPredTest pool o rows f =
      (pairsOf ((List.range o.nC).filter (fun i => f.test.pidx.contains (o.pdesc i)))).map
        (fun q => e q.1 q.2) := by
  unfold cvPredTest restrict
  rw [hp]
  exact maskVec_eq o.nC _ e

/-! ## 5. invariances -/

/-- cosine: multiplying every data RDM by its own positive constant changes neither bound
    (any grouping) -/
theorem ceiling_scale_invariant (V : List (List ℝ)) (rows rows' : List (List ℝ)) (o : Obj)
    (h : List.Forall₂ (fun r r' => ∃ k : ℝ, 0 < k ∧ r' = r.map (· * k)) rows rows') :
    bootNoiseCeilingG (poolD .cosine) (simV .cosine V) rows o
      = bootNoiseCeilingG (poolD .cosine) (simV .cosine V) rows' o := by
  apply bootG_congr (fun r r' => ∃ k : ℝ, 0 < k ∧ r' = r.map (· * k)) Eq _ _ _ _ _ _ rows rows' h
  · intro l l' hl
    show meanRows (l.map (applyD cosF)) = meanRows (l'.map (applyD cosF))
    congr 1
    apply map_eq_of_forall₂ hl
    rintro b b' ⟨k, hk, rfl⟩
    exact (applyD_cosF_scale b k hk).symm
  · rintro a a' b b' rfl ⟨k, hk, rfl⟩
    show cosine a b = cosine a (b.map (· * k))
    rw [cosine_scale_right a b k hk]

/-- correlation: replacing every data RDM `r` by `k·r + b` with its own `k > 0`, `b` changes neither
    bound (any grouping) -/
theorem ceiling_affine_invariant (V : List (List ℝ)) (rows rows' : List (List ℝ)) (o : Obj)
    (h : List.Forall₂ (fun r r' => ∃ k b : ℝ, 0 < k ∧ r' = r.map (fun a => k * a + b)) rows rows') :
    bootNoiseCeilingG (poolD .corr) (simV .corr V) rows o
      = bootNoiseCeilingG (poolD .corr) (simV .corr V) rows' o := by
  apply bootG_congr (fun r r' => ∃ k b : ℝ, 0 < k ∧ r' = r.map (fun a => k * a + b)) Eq
    _ _ _ _ _ _ rows rows' h
  · intro l l' hl
    show applyD shiftF (meanRows (l.map (applyD corrF))) = applyD shiftF (meanRows (l'.map (applyD corrF)))
    congr 2
    apply map_eq_of_forall₂ hl
    rintro r r' ⟨k, b, hk, rfl⟩
    rw [applyD_corrF, applyD_corrF, center_map_affine, applyD_cosF_scale _ k hk]
  · rintro a a' r r' rfl ⟨k, b, hk, rfl⟩
    show corr a r = corr a (r.map (fun x => k * x + b))
    unfold corr
    rw [center_map_affine, cosine_scale_right _ _ k hk]

/-! ## 6. entries missing from all RDMs -/

/-- **both bounds ignore entries missing from all RDMs**: on a stack whose RDMs all miss exactly the
    entries not flagged in `mask`, `boot_noise_ceiling` as coded (NaN-aware normalisation, `_nan_mean`,
    `compare` dropping the NaNs) returns the bounds of the stack with those entries deleted (for the
    whitened measures: with `V` restricted to the kept entries) — for every method and grouping -/
theorem ceiling_ignores_common_nan (m : Method) (o : Obj) (mask : List Bool)
    (denses : List (List ℝ)) (hne : denses ≠ []) (hlen : ∀ d ∈ denses, d.length = mask.count true) :
    bootNoiseCeilingO m o (denses.map (expand mask)) =
      some (bootNoiseCeilingG (poolD m) (simV m (vFor m o.nC mask)) denses o) := by
  obtain ⟨d, ds, rfl⟩ := List.exists_cons_of_ne_nil hne
  have hmask : ∀ x ∈ d :: ds, maskOf (expand mask x) = mask :=
    fun x hx => maskOf_expand mask x (hlen x hx)
  have hcm : commonMask ((d :: ds).map (expand mask)) = true := by
    simp only [commonMask, List.map_cons, List.all_eq_true, List.mem_map]
    rintro r' ⟨x, hx, rfl⟩
    rw [hmask x (List.mem_cons_of_mem _ hx), hmask d (List.mem_cons_self ..)]
    simp
  unfold bootNoiseCeilingO
  rw [if_pos hcm]
  have hhead : maskOf (((d :: ds).map (expand mask)).headD []) = mask := by
    simpa using hmask d (List.mem_cons_self ..)
  rw [hhead]
  congr 1
  apply bootG_congr (fun r r' => r = expand mask r' ∧ r'.length = mask.count true)
    (fun a a' => present a = a')
  · intro l l' hl
    have hl2 : ∀ x ∈ l', x.length = mask.count true := by
      induction hl with
      | nil => intro x hx; simp at hx
      | cons hab _ ih =>
        intro x hx
        rcases List.mem_cons.mp hx with rfl | hx
        · exact hab.2
        · exact ih x hx
    have hl1 : l = l'.map (expand mask) := by
      clear hl2
      induction hl with
      | nil => rfl
      | cons hab _ ih => rw [List.map_cons, ← hab.1, ← ih]
    by_cases hz : l' = []
    · subst hz; subst hl1; exact poolO_nil m
    · rw [hl1, poolO_expand m mask l' hz hl2]
      exact present_expand mask _ (poolD_length m _ l' hz hl2)
  · rintro a a' b b' rfl ⟨rfl, hb⟩
    show simV m _ (present a) (present (expand mask b')) = _
    rw [present_expand mask b' hb]
  · rw [List.forall₂_map_left_iff]
    apply List.forall₂_same.mpr
    intro x hx
    exact ⟨rfl, hlen x hx⟩

/-- RDMs that miss *different* entries are rejected (the library raises `ValueError`), never
    compared entry-shifted -/
theorem nan_mismatch_rejected (m : Method) (o : Obj) (rows : List (List (Option ℝ)))
    (folds : List CvFold) (h : commonMask rows = false) :
    bootNoiseCeilingO m o rows = none ∧ cvNoiseCeilingO m o rows folds = none := by
  unfold bootNoiseCeilingO cvNoiseCeilingO
  simp [h]

/-! ## 7. the generated leaves, the `_nonzero` guard, whitened invariance -/

/-- the scalar text of `pool_rdm` in `util/inference_util.py` and `util/pooling.py`, regenerated from
    the source on every run: division by the norm, mean removal, shift by the minimum (`+ 0.01` in
    `util/pooling.py`); the whitened branches repeat the plain text -/
theorem leaf_texts (x v : ℝ) :
    Rsa.Gen.C07.cosScale x v = x / v ∧ Rsa.Gen.C07.cosCovScale x v = x / v ∧
    Rsa.Gen.C07.corrCenter x v = x - v ∧ Rsa.Gen.C07.corrCovCenter x v = x - v ∧
    Rsa.Gen.C07.corrScale x v = x / v ∧ Rsa.Gen.C07.corrCovScale x v = x / v ∧
    Rsa.Gen.C07.corrShift x v = x - v ∧ Rsa.Gen.C07.corrCovShift x v = x - v ∧
    Rsa.Gen.C07.poolingCosScale x v = x / v ∧ Rsa.Gen.C07.poolingCorrCenter x v = x - v ∧
    Rsa.Gen.C07.poolingCorrScale x v = x / v ∧ Rsa.Gen.C07.poolingCorrShift x v = x - v + 1 / 100 ∧
    Rsa.Gen.C07.poolingCosCovScale x v = x / v ∧ Rsa.Gen.C07.poolingCorrCovScale x v = x / v ∧
    Rsa.Gen.C07.poolingCorrCovShift x v = x - v + 1 / 100 := by
  refine ⟨rfl, rfl, rfl, rfl, rfl, rfl, rfl, rfl, rfl, rfl, rfl, ?_, rfl, rfl, ?_⟩ <;>
  · simp [Rsa.Gen.C07.poolingCorrShift, Rsa.Gen.C07.poolingCorrCovShift]

/-- the shift of the correlation pools is a translation: immaterial for every correlation -/
theorem pool_shift_is_translation (x : List ℝ) (v : ℝ) :
    center (x.map (fun a => Rsa.Gen.C07.corrShift a v)) = center x ∧
    center (x.map (fun a => Rsa.Gen.C07.poolingCorrShift a v)) = center x := by
  constructor
  · exact center_map_sub_const x v
  · have : x.map (fun a => Rsa.Gen.C07.poolingCorrShift a v) = x.map (· - (v - 1 / 100)) := by
      apply List.map_congr_left; intro a _
      simp [Rsa.Gen.C07.poolingCorrShift]; ring
    rw [this]; exact center_map_sub_const x _

/-- **the `_nonzero` guard has no scale threshold**: every positive norm, however small, is used as
    it is, and the normalised RDM is the same for every positive rescaling (and shift, for the
    correlation normaliser) of the RDM — a data RDM in other units cannot drop out of the pool -/
theorem normaliser_has_no_scale_threshold (x : List ℝ) (k b : ℝ) (hk : 0 < k) :
    (∀ s : ℝ, 0 < s → nonzero s = s) ∧
    applyD cosF (x.map (· * k)) = applyD cosF x ∧
    applyD corrF (x.map (fun a => k * a + b)) = applyD corrF x := by
  refine ⟨fun s hs => nonzero_of_pos hs, applyD_cosF_scale x k hk, ?_⟩
  rw [applyD_corrF, applyD_corrF, center_map_affine, applyD_cosF_scale _ k hk]

theorem cosS_swap (b X Y : ℝ) : cosS b X Y = cosS b Y X := by
  unfold cosS
  by_cases h : 0 < Real.sqrt X ∧ 0 < Real.sqrt Y
  · rw [if_pos h, if_pos h.symm, div_right_comm]
  · rw [if_neg h, if_neg (fun h' => h h'.symm)]

theorem cosB_smul_right {p : ℕ} {B : List ℝ → List ℝ → ℝ} (h : IPForm p B) (x y : List ℝ) (k : ℝ)
    (hk : 0 < k) (hx : x.length = p) (hy : y.length = p) :
    cosB B x (y.map (· * k)) = cosB B x y := by
  have hl : (y.map (· * k)).length = p := by simpa using hy
  unfold cosB
  rw [h.smul_right y x k hy hx, h.smul_left y _ k hy hl, h.smul_right y y k hy hy, cosS_swap,
    cosS_swap (B x y)]
  have : k * (k * B y y) = k * k * B y y := by ring
  rw [this]
  exact cosS_scale _ _ _ k hk

theorem wsim_nil_left (V : List (List ℝ)) (y : List ℝ) : wsim V [] y = 0 := by
  rw [wsim_eq_cosB]
  unfold cosB cosS wform
  simp

theorem forall₂_left_length {ρ : List ℝ → List ℝ → Prop} {p : ℕ} {l l' : List (List ℝ)}
    (h : List.Forall₂ (fun r r' => r.length = p ∧ ρ r r') l l') : ∀ r ∈ l, r.length = p := by
  induction h with
  | nil => intro r hr; simp at hr
  | cons hab _ ih =>
    intro r hr
    rcases List.mem_cons.mp hr with rfl | hr
    · exact hab.1
    · exact ih r hr

/-- whitened cosine (`cosine_cov`): both bounds are invariant when every data RDM is multiplied by
    its own positive constant — for every symmetric positive definite `V` on which `Compare.solve`
    meets the solver contract (any grouping) -/
theorem ceiling_scale_invariant_whitened {V : List (List ℝ)} {p : ℕ} (hV : SymPosDef V p)
    (hsol : IsSolver V p (solve V)) (rows rows' : List (List ℝ)) (o : Obj)
    (h : List.Forall₂ (fun r r' => r.length = p ∧ ∃ k : ℝ, 0 < k ∧ r' = r.map (· * k)) rows rows') :
    bootNoiseCeilingG (poolD .cosineCov) (simV .cosineCov V) rows o
      = bootNoiseCeilingG (poolD .cosineCov) (simV .cosineCov V) rows' o := by
  have hform := ipForm_whitened hV hsol
  apply bootG_congr (fun r r' => r.length = p ∧ ∃ k : ℝ, 0 < k ∧ r' = r.map (· * k))
    (fun a a' => a = a' ∧ (a.length = p ∨ a = [])) _ _ _ _ _ _ rows rows' h
  · intro l l' hl
    have hlen := forall₂_left_length hl
    have heq : poolD .cosineCov l = poolD .cosineCov l' := by
      show meanRows (l.map (applyD cosF)) = meanRows (l'.map (applyD cosF))
      congr 1
      apply map_eq_of_forall₂ hl
      rintro b b' ⟨_, k, hk, rfl⟩
      exact (applyD_cosF_scale b k hk).symm
    refine ⟨heq, ?_⟩
    by_cases hz : l = []
    · right; subst hz; rfl
    · left; exact poolD_length _ p l hz hlen
  · rintro a a' b b' ⟨rfl, ha⟩ ⟨hb, k, hk, rfl⟩
    show wsim V a b = wsim V a (b.map (· * k))
    rcases ha with ha | rfl
    · rw [wsim_eq_cosB, wsim_eq_cosB, cosB_smul_right hform a b k hk ha hb]
    · rw [wsim_nil_left, wsim_nil_left]

/-- whitened correlation (`corr_cov`): invariance under `r ↦ k·r + b` with own `k > 0`, `b` per RDM -/
theorem ceiling_affine_invariant_whitened {V : List (List ℝ)} {p : ℕ} (hV : SymPosDef V p)
    (hsol : IsSolver V p (solve V)) (rows rows' : List (List ℝ)) (o : Obj)
    (h : List.Forall₂ (fun r r' => r.length = p ∧ ∃ k b : ℝ, 0 < k ∧ r' = r.map (fun a => k * a + b))
      rows rows') :
    bootNoiseCeilingG (poolD .corrCov) (simV .corrCov V) rows o
      = bootNoiseCeilingG (poolD .corrCov) (simV .corrCov V) rows' o := by
  have hform := ipForm_whitened hV hsol
  apply bootG_congr (fun r r' => r.length = p ∧ ∃ k b : ℝ, 0 < k ∧ r' = r.map (fun a => k * a + b))
    (fun a a' => a = a' ∧ (a.length = p ∨ a = [])) _ _ _ _ _ _ rows rows' h
  · intro l l' hl
    have hlen := forall₂_left_length hl
    have heq : poolD .corrCov l = poolD .corrCov l' := by
      show applyD shiftF (meanRows (l.map (applyD corrF)))
        = applyD shiftF (meanRows (l'.map (applyD corrF)))
      congr 2
      apply map_eq_of_forall₂ hl
      rintro r r' ⟨_, k, b, hk, rfl⟩
      rw [applyD_corrF, applyD_corrF, center_map_affine, applyD_cosF_scale _ k hk]
    refine ⟨heq, ?_⟩
    by_cases hz : l = []
    · right; subst hz; rfl
    · left; exact poolD_length _ p l hz hlen
  · rintro a a' r r' ⟨rfl, ha⟩ ⟨hr, k, b, hk, rfl⟩
    show wsim V (center a) (center r) = wsim V (center a) (center (r.map (fun x => k * x + b)))
    rw [center_map_affine]
    rcases ha with ha | rfl
    · rw [wsim_eq_cosB, wsim_eq_cosB, cosB_smul_right hform _ _ k hk
        (by rw [center_length]; exact ha) (by rw [center_length]; exact hr)]
    · have : center ([] : List ℝ) = [] := rfl
      rw [this, wsim_nil_left, wsim_nil_left]

/-! ## what is not proved (kept as a statement) -/

/-- the NaN bridge for `cv_noise_ceiling` (pattern subsets of masked vectors): correspondence only -/
def cv_ignores_common_nan_full : Prop :=
  ∀ (m : Method) (o : Obj) (mask : List Bool) (denses : List (List ℝ)) (folds : List CvFold),
    denses ≠ [] → (∀ d ∈ denses, d.length = mask.count true) →
    ∃ lo up, cvNoiseCeilingO m o (denses.map (expand mask)) folds = some (lo, up)

/-! ## non-vacuity -/

/-- three 3-condition RDMs (one with a tie), each its own group with unordered descriptor values -/
def exRows : List (List ℝ) := [[1, 2, 3], [2, 1, 4], [3, 3, 1]]
def exObj : Obj := { nR := 3, nC := 3, rdesc := fun j => [5, 2, 9].getD j 0, pdesc := id }

example : Singleton exObj exRows.length where
  size := rfl
  inj := by
    intro i j hi hj h
    have hi' : i < 3 := hi
    have hj' : j < 3 := hj
    interval_cases i <;> interval_cases j <;> simp_all [exObj]
  two := by decide

example : (∀ r ∈ exRows, r.length = 3) ∧ (∀ r ∈ exRows, 0 < dot r r) ∧
    (∀ r ∈ exRows, 0 < dot (center r) (center r)) ∧ exRows ≠ [] := by
  refine ⟨?_, ?_, ?_, by simp [exRows]⟩ <;>
  · intro r hr
    simp only [exRows, List.mem_cons, List.not_mem_nil, or_false] at hr
    rcases hr with rfl | rfl | rfl <;> norm_num [dot, center, mean]

-- a non-zero candidate
example : 0 < dot ([1, 0, 2] : List ℝ) [1, 0, 2] := by norm_num [dot]

-- at least two groups, and a fold of the loop
example : 1 < (uniq (descList exObj.nR exObj.rdesc)).length ∧ looFoldOf exObj 2 ∈ looFolds exObj ∧
    (looFoldOf exObj 2).test.rows = [1] ∧ (looFoldOf exObj 2).train.rows = [0, 2] := by
  refine ⟨by decide, ?_, by decide, by decide⟩
  rw [looFolds_eq exObj (by decide)]
  exact List.mem_map.mpr ⟨2, by decide, rfl⟩

-- rescaled / shifted stacks
example : List.Forall₂ (fun r r' => ∃ k : ℝ, 0 < k ∧ r' = r.map (· * k))
    ([[1, 2, 3], [2, 1, 4]] : List (List ℝ)) [[2, 4, 6], [1, 1 / 2, 2]] := by
  refine List.Forall₂.cons ⟨2, by norm_num, by norm_num⟩
    (List.Forall₂.cons ⟨1 / 2, by norm_num, by norm_num⟩ List.Forall₂.nil)

example : List.Forall₂ (fun r r' => ∃ k b : ℝ, 0 < k ∧ r' = r.map (fun a => k * a + b))
    ([[1, 2, 3], [2, 1, 4]] : List (List ℝ)) [[3, 5, 7], [5, 4, 7]] := by
  refine List.Forall₂.cons ⟨2, 1, by norm_num, by norm_num⟩
    (List.Forall₂.cons ⟨1, 3, by norm_num, by norm_num⟩ List.Forall₂.nil)

-- a stack with one entry missing from all RDMs, and one with mismatching missing entries
example : ([[1, 3], [2, 4]] : List (List ℝ)).map (expand [true, false, true])
    = [[some 1, none, some 3], [some 2, none, some 4]] ∧
    (∀ d ∈ ([[1, 3], [2, 4]] : List (List ℝ)), d.length = [true, false, true].count true) := by
  constructor
  · rfl
  · intro d hd
    simp only [List.mem_cons, List.not_mem_nil, or_false] at hd
    rcases hd with rfl | rfl <;> rfl

example : commonMask ([[some 1, none, some 3], [some 2, some 5, some 4]] : List (List (Option ℝ))) = false := by
  rfl

-- the whitened theorems: for three conditions `V = getV 3 none` is symmetric positive definite and
-- `Compare.solve` (Gauss–Jordan, as executed by the driver) meets the solver contract on it
example : getV 3 (SigmaK.none : SigmaK ℝ) = [[4, 1, 1], [1, 4, 1], [1, 1, 4]] := by
  simp [getV, xi, contrast, pairs, pairsOf, List.range_succ]
  norm_num

example : SymPosDef [[4, 1, 1], [1, 4, 1], [1, 1, 4]] 3 := by
  refine ⟨rfl, by simp, ?_, ?_⟩
  · intro i j hi hj
    interval_cases i <;> interval_cases j <;> simp [ent]
  · intro f hf
    have hq : Q [[4, 1, 1], [1, 4, 1], [1, 1, 4]] 3 f f
        = 3 * (f 0 * f 0 + f 1 * f 1 + f 2 * f 2) + (f 0 + f 1 + f 2) * (f 0 + f 1 + f 2) := by
      simp [Q, ent, Finset.sum_range_succ]; ring
    rw [hq]
    obtain ⟨i, hi, hne⟩ := hf
    have h0 := mul_self_nonneg (f 0)
    have h1 := mul_self_nonneg (f 1)
    have h2 := mul_self_nonneg (f 2)
    have h3 := mul_self_nonneg (f 0 + f 1 + f 2)
    have : 0 < f i * f i := mul_self_pos.mpr hne
    interval_cases i <;> nlinarith

example : IsSolver [[4, 1, 1], [1, 4, 1], [1, 1, 4]] 3 (solve [[4, 1, 1], [1, 4, 1], [1, 1, 4]]) := by
  intro b hb
  match b, hb with
  | [x, y, z], _ =>
    constructor
    · simp [solve, elimStep, List.range_succ]
    · simp [solve, elimStep, List.range_succ, matVec, dot, List.getD]
      refine ⟨?_, ?_, ?_⟩ <;> ring

-- a stack with a constant RDM (degenerate for the correlation measures) and one with a zero RDM
example : ¬ 0 < dot (center ([4, 4, 4] : List ℝ)) (center [4, 4, 4]) ∧ ¬ 0 < dot ([0, 0, 0] : List ℝ) [0, 0, 0] := by
  constructor <;> norm_num [dot, center, mean]

end Rsa.Props.C07
