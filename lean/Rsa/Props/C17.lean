/-
  Property C17 — RDM transforms mean what they say; measures are invariant as theory dictates.
  Property theorems only; helper lemmas live in Rsa/Lemmas/C17*.lean (and C03*.lean).

  Model: `Rsa.Core.Transform` (+ the measures of `Rsa.Core.Compare`).  An RDM is its
  condensed vector, a missing dissimilarity (NaN) is `none`.  `K` is any linearly ordered
  field (the driver executes the same terms at `ℚ`); `ℝ` where a square root occurs.
-/
import Rsa.Lemmas.C17Rank
import Rsa.Lemmas.C17Inv
import Rsa.Lemmas.C17Map
import Rsa.Lemmas.C17Geo
import Rsa.Lemmas.C17Leaf
import Rsa.Lemmas.C17Quant
import Mathlib.Data.Finset.Card
import Mathlib.Analysis.SpecialFunctions.Pow.Real

set_option linter.unusedSectionVars false
set_option linter.unusedVariables false
set_option linter.unusedSimpArgs false
set_option linter.unnecessarySimpa false

namespace Rsa.Props.C17

open Rsa Rsa.Compare Rsa.Transform

variable {K : Type} [Field K] [LinearOrder K] [IsStrictOrderedRing K]

/-! ## 1. rank transform: ranks among the non-missing entries, NaN stays NaN -/

/-- the result has the length of the input and is missing exactly where the input is -/
theorem rankT_missing_stay_missing (m : RankMethod) (v : List (Option K)) :
    (rankT m v).length = v.length ∧
    ∀ i : ℕ, (rankT m v)[i]? = some none ↔ v[i]? = some none := by
  refine ⟨scatter_length _ _, fun i => ?_⟩
  exact scatter_none_iff v _ (rankList_length m _) i

/-- the non-missing entries are replaced, in order, by the ranks computed among the
    non-missing entries only (missing ones do not count) -/
theorem rankT_ranks_among_present (m : RankMethod) (v : List (Option K)) :
    present (rankT m v) = rankList m (present v) :=
  present_scatter v _ (rankList_length m _)

example : rankT .average ([some 1, some 2, some 2, none, some (-1), some 5] : List (Option ℚ)) =
    [some 2, some (7/2), some (7/2), none, some 1, some 5] := by decide +kernel

/-- method 'average': rank = #{smaller} + (#{equal} + 1)/2 -/
theorem rank_average_spec (x : List K) :
    rankList .average x =
      x.map (fun a => ((x.countP (· < a) : ℕ) : K) + (((x.countP (· = a) : ℕ) : K) + 1) / 2) := by
  simp only [rankList, avgRank]
  apply List.map_congr_left
  intro a _
  have h2 : cntEq x a = x.countP (· = a) := by
    unfold cntEq
    apply List.countP_congr
    intro b _
    simp only [Bool.and_eq_true, Bool.not_eq_true', decide_eq_false_iff_not, decide_eq_true_eq]
    exact ⟨fun h => le_antisymm (not_lt.mp h.2) (not_lt.mp h.1), fun h => by simp [h]⟩
  unfold rankOf
  rw [h2]
  simp [cntLt]

/-- methods 'min' and 'max': 1 + #{smaller} and #{smaller or equal}; 'average' is their mean -/
theorem rank_min_max_spec (x : List K) :
    rankList .min x = x.map (fun a => ((x.countP (· < a) + 1 : ℕ) : K)) ∧
    rankList .max x = x.map (fun a => ((x.countP (· ≤ a) : ℕ) : K)) ∧
    rankList .average x = x.map (fun a =>
      (((x.countP (· < a) + 1 : ℕ) : K) + ((x.countP (· ≤ a) : ℕ) : K)) / 2) := by
  have hle : ∀ a, cntLt x a + cntEq x a = x.countP (· ≤ a) := by
    intro a
    unfold cntLt cntEq
    induction x with
    | nil => simp
    | cons b t ih =>
      simp only [List.countP_cons]
      rcases lt_trichotomy b a with h | h | h
      · have h' : ¬ a < b := lt_asymm h
        simp [h, h', h.le]; omega
      · subst h; simp; omega
      · have h' : ¬ b < a := lt_asymm h
        have h'' : ¬ b ≤ a := not_le.mpr h
        simp [h, h', h'']; omega
  refine ⟨rfl, ?_, ?_⟩
  · simp only [rankList]
    apply List.map_congr_left
    intro a _
    rw [hle]
  · simp only [rankList, avgRank]
    apply List.map_congr_left
    intro a _
    rw [← hle a]
    unfold rankOf cntLt
    push_cast
    ring

/-- method 'dense': 1 + the number of *distinct* smaller values -/
theorem rank_dense_spec (x : List K) :
    rankList .dense x = x.map (fun a => (((x.toFinset.filter (· < a)).card + 1 : ℕ) : K)) := by
  simp only [rankList]
  apply List.map_congr_left
  intro a _
  have h1 : cntLt (dedup x) a = ((dedup x).filter (fun b => decide (b < a))).length := by
    unfold cntLt; exact List.countP_eq_length_filter
  have h2 : ((dedup x).filter (fun b => decide (b < a))).toFinset = x.toFinset.filter (· < a) := by
    ext b
    simp [List.mem_filter, mem_dedup_iff]
  rw [h1, ← h2, List.toFinset_card_of_nodup ((dedup_nodup x).filter _)]

example : rankList .dense ([3, 1, 3, 7, 1] : List ℚ) = [2, 1, 2, 3, 1] := by decide +kernel
example : rankList .ordinal ([3, 1, 3, 7, 1] : List ℚ) = [3, 1, 4, 5, 2] := by decide +kernel
example : rankList .min ([3, 1, 3, 7, 1] : List ℚ) = [3, 1, 3, 5, 1] := by decide +kernel
example : rankList .max ([3, 1, 3, 7, 1] : List ℚ) = [4, 2, 4, 5, 2] := by decide +kernel


/-- entry `k` of the ordinal ranks -/
theorem ordinal_getElem (x : List K) (k : ℕ) (hk : k < x.length) :
    (rankList .ordinal x)[k]? = some ((ordinalAt x x[k] k : ℕ) : K) := by
  simp [rankList, List.getElem?_map, List.getElem?_zipIdx, List.getElem?_eq_getElem hk]

/-- method 'ordinal': the ranks lie in `1..n`, follow the order of the values, and equal
    values are ranked in order of appearance (so all ranks are distinct) -/
theorem rank_ordinal_spec (x : List K) (i j : ℕ) (hij : i < j) (hj : j < x.length) :
    ∃ ri rj : ℕ, (rankList .ordinal x)[i]? = some (ri : K) ∧
      (rankList .ordinal x)[j]? = some (rj : K) ∧
      1 ≤ ri ∧ ri ≤ x.length ∧ 1 ≤ rj ∧ rj ≤ x.length ∧
      (x[i] ≤ x[j] → ri < rj) ∧ (x[j] < x[i] → rj < ri) := by
  have hi : i < x.length := lt_trans hij hj
  obtain ⟨a1, a2⟩ := ordinalAt_range x i hi
  obtain ⟨b1, b2⟩ := ordinalAt_range x j hj
  obtain ⟨c1, c2⟩ := ordinalAt_lt x hij hj
  exact ⟨_, _, ordinal_getElem x i hi, ordinal_getElem x j hj, a1, a2, b1, b2, c1, c2⟩

/-- order preservation and tie handling, every method: a larger value gets a strictly larger
    rank; equal values get equal ranks except under 'ordinal' -/
theorem rank_order_preserving (m : RankMethod) (x : List K) (i j : ℕ) (hi : i < x.length)
    (hj : j < x.length) :
    ∃ ri rj : K, (rankList m x)[i]? = some ri ∧ (rankList m x)[j]? = some rj ∧
      (x[i] < x[j] → ri < rj) ∧ (m ≠ .ordinal → x[i] = x[j] → ri = rj) := by
  have hmi : x[i] ∈ x := List.getElem_mem hi
  have hmj : x[j] ∈ x := List.getElem_mem hj
  cases m with
  | average =>
    refine ⟨rankOf x x[i], rankOf x x[j], by simp [rankList, avgRank, hi], by simp [rankList, avgRank, hj],
      fun h => ?_, fun _ h => by rw [h]⟩
    unfold rankOf
    have h1 : ((cntLt x x[i] + cntEq x x[i] : ℕ) : K) ≤ (cntLt x x[j] : K) := by
      exact_mod_cast cnt_step' x h
    have h2 : (1 : K) ≤ (cntEq x x[i] : K) := by exact_mod_cast cntEq_pos' hmi
    have h3 : (0 : K) ≤ (cntEq x x[j] : K) := by positivity
    push_cast at h1 ⊢
    linarith
  | min =>
    refine ⟨_, _, by simp [rankList, hi]; rfl, by simp [rankList, hj]; rfl, fun h => ?_, fun _ h => by rw [h]⟩
    have h1 := cnt_step' x h
    have h2 := cntEq_pos' hmi
    exact_mod_cast (show cntLt x x[i] + 1 < cntLt x x[j] + 1 by omega)
  | max =>
    refine ⟨_, _, by simp [rankList, hi]; rfl, by simp [rankList, hj]; rfl, fun h => ?_, fun _ h => by rw [h]⟩
    have h1 := cnt_step' x h
    have h2 := cntEq_pos' hmj
    exact_mod_cast (show cntLt x x[i] + cntEq x x[i] < cntLt x x[j] + cntEq x x[j] by omega)
  | dense =>
    refine ⟨_, _, by simp [rankList, hi]; rfl, by simp [rankList, hj]; rfl, fun h => ?_, fun _ h => by rw [h]⟩
    have h1 := cntLt_dedup_lt hmi h
    exact_mod_cast (show cntLt (dedup x) x[i] + 1 < cntLt (dedup x) x[j] + 1 by omega)
  | ordinal =>
    refine ⟨_, _, ordinal_getElem x i hi, ordinal_getElem x j hj, fun h => ?_, fun hne => absurd rfl hne⟩
    rcases Nat.lt_trichotomy i j with hij | hij | hij
    · exact_mod_cast (ordinalAt_lt x hij hj).1 h.le
    · subst hij; exact absurd h (lt_irrefl _)
    · exact_mod_cast (ordinalAt_lt x hij hi).2 h

/-! ## 2. invariance of ranks and of the measures -/

/-- every rank method is unchanged by a map that is strictly increasing on a set containing
    the non-missing entries (missing entries stay missing) -/
theorem rank_strictMono (m : RankMethod) {f : K → K} {s : Set K} (hf : StrictMonoOn f s)
    (v : List (Option K)) (hv : ∀ a ∈ present v, a ∈ s) :
    rankT m (v.map (Option.map f)) = rankT m v := by
  unfold rankT
  rw [scatter_map_left, present_map, rankList_map (ordEmbOn_of_strictMonoOn hf hv)]

example : StrictMonoOn (fun t : ℚ => 2 * t + 1) Set.univ := fun a _ b _ h => by
  show 2 * a + 1 < 2 * b + 1
  linarith


/-- Spearman is unchanged by a strictly increasing map of either RDM -/
theorem spearman_strictMono_invariant {f : ℝ → ℝ} {s : Set ℝ} (hf : StrictMonoOn f s)
    (x y : List ℝ) (hx : ∀ a ∈ x, a ∈ s) :
    spearman (x.map f) y = spearman x y ∧ spearman y (x.map f) = spearman y x := by
  have h := avgRank_map (ordEmbOn_of_strictMonoOn hf hx)
  unfold spearman
  rw [h]
  exact ⟨rfl, rfl⟩

/-- rho-a is unchanged by a strictly increasing map of either RDM -/
theorem rhoA_strictMono_invariant {f : ℝ → ℝ} {s : Set ℝ} (hf : StrictMonoOn f s)
    (x y : List ℝ) (hx : ∀ a ∈ x, a ∈ s) :
    rhoA (x.map f) y = rhoA x y ∧ rhoA y (x.map f) = rhoA y x := by
  have h := avgRank_map (ordEmbOn_of_strictMonoOn hf hx)
  unfold rhoA
  rw [h, List.length_map]
  exact ⟨rfl, rfl⟩

/-- Kendall tau-a is unchanged by a strictly increasing map of either RDM -/
theorem tauA_strictMono_invariant {f : K → K} {s : Set K} (hf : StrictMonoOn f s)
    (x y : List K) (hx : ∀ a ∈ x, a ∈ s) :
    tauA (x.map f) y = tauA x y ∧ tauA y (x.map f) = tauA y x :=
  ⟨tauA_map_left (ordEmbOn_of_strictMonoOn hf hx) y, tauA_map_right (ordEmbOn_of_strictMonoOn hf hx) y⟩

/-- Kendall tau-b is unchanged by a strictly increasing map of either RDM -/
theorem tauB_strictMono_invariant {f : ℝ → ℝ} {s : Set ℝ} (hf : StrictMonoOn f s)
    (x y : List ℝ) (hx : ∀ a ∈ x, a ∈ s) :
    tauB (x.map f) y = tauB x y ∧ tauB y (x.map f) = tauB y x :=
  ⟨tauB_map_left (ordEmbOn_of_strictMonoOn hf hx) y, tauB_map_right (ordEmbOn_of_strictMonoOn hf hx) y⟩

/-- cosine is unchanged by a positive scaling of either RDM -/
theorem cosine_scale_invariant {c : ℝ} (hc : 0 < c) (x y : List ℝ) :
    cosine (x.map (c * ·)) y = cosine x y ∧ cosine y (x.map (c * ·)) = cosine y x :=
  ⟨cosine_scale_left hc x y, cosine_scale_right hc y x⟩

/-- Pearson correlation is unchanged by a positive-slope affine map of either RDM -/
theorem corr_affine_invariant {a : ℝ} (ha : 0 < a) (b : ℝ) (x y : List ℝ) :
    corr (x.map (fun t => a * t + b)) y = corr x y ∧
    corr y (x.map (fun t => a * t + b)) = corr y x := by
  unfold corr
  rw [center_map_affine]
  exact ⟨cosine_scale_left ha _ _, cosine_scale_right ha _ _⟩

/-- the whitened cosine (`cosine_cov`): scaling `r₁` by `c > 0` scales the solution of
    `V s₁ = r₁` by `c` and leaves the similarity unchanged -/
theorem whitened_scale_invariant {c : ℝ} (hc : 0 < c) (V : List (List ℝ)) (r1 r2 s1 s2 : List ℝ)
    (h1 : matVec V s1 = r1) :
    matVec V (s1.map (c * ·)) = r1.map (c * ·) ∧
    wcosFrom (r1.map (c * ·)) r2 (s1.map (c * ·)) s2 = wcosFrom r1 r2 s1 s2 ∧
    wcosFrom r2 (r1.map (c * ·)) s2 (s1.map (c * ·)) = wcosFrom r2 r1 s2 s1 := by
  have hs : Real.sqrt (c * (c * dot r1 s1)) = c * Real.sqrt (dot r1 s1) := by
    rw [← mul_assoc, Real.sqrt_mul (mul_self_nonneg c), Real.sqrt_mul_self hc.le]
  have hpos : 0 < c * (c * dot r1 s1) ↔ 0 < dot r1 s1 := by
    constructor
    · intro h
      by_contra hn
      have : c * (c * dot r1 s1) ≤ 0 :=
        mul_nonpos_of_nonneg_of_nonpos hc.le (mul_nonpos_of_nonneg_of_nonpos hc.le (not_lt.mp hn))
      linarith
    · intro h; positivity
  refine ⟨?_, ?_, ?_⟩
  · subst h1
    simp only [matVec, List.map_map]
    apply List.map_congr_left
    intro r _
    simp [dot_map_mul_right]
  · unfold wcosFrom
    simp only [dot_map_mul_left, dot_map_mul_right, hasSqrt_real, hs]
    by_cases h : 0 < dot r1 s1 ∧ 0 < dot r2 s2
    · rw [if_pos ⟨hpos.mpr h.1, h.2⟩, if_pos h]
      have : Real.sqrt (dot r1 s1) ≠ 0 := (Real.sqrt_pos.mpr h.1).ne'
      congr 1
      field_simp
    · rw [if_neg (fun h' => h ⟨hpos.mp h'.1, h'.2⟩), if_neg h]
  · unfold wcosFrom
    simp only [dot_map_mul_left, dot_map_mul_right, hasSqrt_real, hs]
    by_cases h : 0 < dot r2 s2 ∧ 0 < dot r1 s1
    · rw [if_pos ⟨h.1, hpos.mpr h.2⟩, if_pos h]
      have : Real.sqrt (dot r1 s1) ≠ 0 := (Real.sqrt_pos.mpr h.2).ne'
      congr 1
      field_simp
    · rw [if_neg (fun h' => h ⟨h'.1, hpos.mp h'.2⟩), if_neg h]

/-- the whitened correlation (`corr_cov`) works on mean-removed vectors, on which a
    positive-slope affine map acts as the scaling by its slope (then `whitened_scale_invariant`) -/
theorem whitened_corr_affine_reduces_to_scale (a b : ℝ) (x : List ℝ) :
    center (x.map (fun t => a * t + b)) = (center x).map (a * ·) := center_map_affine a b x

/-- "sqrt_transform of non-negative RDMs never changes a rank-based evaluation" -/
theorem sqrt_on_nonneg_keeps_rank_measures (x y : List ℝ) (hx : ∀ a ∈ x, 0 ≤ a) :
    sqrtT (x.map some) = (x.map Real.sqrt).map some ∧
    (spearman (x.map Real.sqrt) y = spearman x y ∧ spearman y (x.map Real.sqrt) = spearman y x) ∧
    (rhoA (x.map Real.sqrt) y = rhoA x y ∧ rhoA y (x.map Real.sqrt) = rhoA y x) ∧
    (tauA (x.map Real.sqrt) y = tauA x y ∧ tauA y (x.map Real.sqrt) = tauA y x) ∧
    (tauB (x.map Real.sqrt) y = tauB x y ∧ tauB y (x.map Real.sqrt) = tauB y x) := by
  have hmono : StrictMonoOn Real.sqrt (Set.Ici (0 : ℝ)) :=
    fun a ha b _ hab => Real.sqrt_lt_sqrt ha hab
  have hmem : ∀ a ∈ x, a ∈ Set.Ici (0 : ℝ) := hx
  refine ⟨?_, spearman_strictMono_invariant hmono x y hmem, rhoA_strictMono_invariant hmono x y hmem,
    tauA_strictMono_invariant hmono x y hmem, tauB_strictMono_invariant hmono x y hmem⟩
  simp only [sqrtT, List.map_map]
  apply List.map_congr_left
  intro a ha
  have : ¬ a < 0 := not_lt.mpr (hx a ha)
  simp [clip0, this]

example : ∀ a ∈ ([0, 4, 4, 9, 1, 2] : List ℝ), 0 ≤ a := by
  intro a ha; simp at ha; rcases ha with rfl | rfl | rfl | rfl | rfl <;> norm_num

/-- the rank transform itself (tie-averaged ranks) keeps every rank-based measure -/
theorem rank_transform_keeps_rank_measures (x y : List ℝ) :
    spearman (avgRank x) y = spearman x y ∧ rhoA (avgRank x) y = rhoA x y ∧
    tauA (avgRank x) y = tauA x y ∧ tauB (avgRank x) y = tauB x y := by
  have h := ordEmbOn_rankOf x
  have e : avgRank x = x.map (rankOf x) := rfl
  have h2 : avgRank (avgRank x) = avgRank x := by
    conv_lhs => rw [e]
    exact avgRank_map h
  have h3 : (avgRank x).length = x.length := by simp [avgRank]
  refine ⟨?_, ?_, ?_, ?_⟩
  · unfold spearman; rw [h2]
  · unfold rhoA; rw [h2, h3]
  · rw [e]; exact tauA_map_left h y
  · rw [e]; exact tauB_map_left h y


/-! ## 3. the element-wise transforms -/

/-- `sqrt_transform` applies `√(max(x, 0))` to every non-missing entry -/
theorem sqrt_pointwise (v : List (Option ℝ)) :
    sqrtT v = v.map (Option.map (fun a => Real.sqrt (max a 0))) := by
  unfold sqrtT
  apply List.map_congr_left
  intro o _
  cases o with
  | none => rfl
  | some a =>
    by_cases h : a < 0
    · simp [clip0, h, max_eq_right h.le]
    · simp [clip0, h, max_eq_left (not_lt.mp h)]

/-- `positive_transform` applies `max(x, 0)` to every non-missing entry -/
theorem positive_pointwise (v : List (Option K)) :
    positiveT v = v.map (Option.map (fun a => max a 0)) := by
  unfold positiveT
  apply List.map_congr_left
  intro o _
  cases o with
  | none => rfl
  | some a =>
    by_cases h : a < 0
    · simp [clip0, h, max_eq_right h.le]
    · simp [clip0, h, max_eq_left (not_lt.mp h)]

/-- `minmax_transform`: whenever it is defined (the RDM is not constant) it is the affine map
    `x ↦ (x - min)/(max - min)` with positive slope, hence strictly increasing, into [0,1],
    and both 0 and 1 are attained -/
theorem minmax_affine_increasing_onto_unit (v r : List K) (h : minmaxT v = some r) :
    ∃ mn mx : K, mn ∈ v ∧ mx ∈ v ∧ (∀ a ∈ v, mn ≤ a ∧ a ≤ mx) ∧ mn < mx ∧
      r = v.map (fun a => (1 / (mx - mn)) * a + (-mn / (mx - mn))) ∧ 0 < 1 / (mx - mn) ∧
      (∀ a ∈ r, 0 ≤ a ∧ a ≤ 1) ∧ (0 : K) ∈ r ∧ (1 : K) ∈ r := by
  unfold minmaxT at h
  cases hmn : minL v with
  | none => simp [hmn] at h
  | some mn =>
    cases hmx : maxL v with
    | none => simp [hmn, hmx] at h
    | some mx =>
      simp only [hmn, hmx] at h
      by_cases hlt : mn < mx
      · simp only [hlt, ↓reduceIte, Option.some.injEq] at h
        obtain ⟨hm1, hm2⟩ := minL_spec hmn
        obtain ⟨hx1, hx2⟩ := maxL_spec hmx
        have hd : 0 < mx - mn := sub_pos.mpr hlt
        have hr : r = v.map (fun a => (a - mn) / (mx - mn)) := h.symm
        refine ⟨mn, mx, hm1, hx1, fun a ha => ⟨hm2 a ha, hx2 a ha⟩, hlt, ?_, by positivity, ?_, ?_, ?_⟩
        · rw [hr]
          apply List.map_congr_left
          intro a _
          field_simp
          ring
        · intro a ha
          rw [hr] at ha
          obtain ⟨b, hb, rfl⟩ := List.mem_map.mp ha
          constructor
          · exact div_nonneg (sub_nonneg.mpr (hm2 b hb)) hd.le
          · rw [div_le_one hd]; linarith [hx2 b hb]
        · rw [hr]; exact List.mem_map.mpr ⟨mn, hm1, by simp⟩
        · rw [hr]; exact List.mem_map.mpr ⟨mx, hx1, div_self hd.ne'⟩
      · simp [hlt] at h

example : minmaxT ([1, 3, 2, -1] : List ℚ) = some [1/2, 1, 3/4, 0] := by decide +kernel

/-- `minmax_transform` is undefined (NaN everywhere: 0/0) exactly for constant RDMs -/
theorem minmax_undefined_iff_constant (v : List K) :
    minmaxT v = none ↔ ∀ a ∈ v, ∀ b ∈ v, a = b := by
  unfold minmaxT
  cases hmn : minL v with
  | none => cases v <;> simp [minL] at hmn ⊢
  | some mn =>
    cases hmx : maxL v with
    | none => cases v <;> simp [maxL] at hmx hmn ⊢
    | some mx =>
      obtain ⟨hm1, hm2⟩ := minL_spec hmn
      obtain ⟨hx1, hx2⟩ := maxL_spec hmx
      by_cases hlt : mn < mx
      · simp only [hlt, ↓reduceIte, reduceCtorEq, false_iff]
        intro hc
        exact absurd (hc mn hm1 mx hx1) hlt.ne
      · simp only [hlt, ↓reduceIte, true_iff]
        intro a ha b hb
        have hle : mx ≤ mn := not_lt.mp hlt
        have h1 := hm2 a ha; have h2 := hx2 a ha; have h3 := hm2 b hb; have h4 := hx2 b hb
        exact le_antisymm (by linarith) (by linarith)

/-- a non-constant `minmax_transform` keeps correlation (positive affine map) and every
    rank-based measure (strictly increasing map) -/
theorem minmax_keeps_corr_and_rank_measures (x r y : List ℝ) (h : minmaxT x = some r) :
    corr r y = corr x y ∧ spearman r y = spearman x y ∧ rhoA r y = rhoA x y ∧
    tauA r y = tauA x y ∧ tauB r y = tauB x y := by
  obtain ⟨mn, mx, _, _, _, _, hr, hpos, _⟩ := minmax_affine_increasing_onto_unit x r h
  have hmono : StrictMonoOn (fun a => (1 / (mx - mn)) * a + (-mn / (mx - mn))) (Set.univ : Set ℝ) := by
    intro a _ b _ hab
    show 1 / (mx - mn) * a + -mn / (mx - mn) < 1 / (mx - mn) * b + -mn / (mx - mn)
    have := mul_lt_mul_of_pos_left hab hpos
    linarith
  have hu : ∀ a ∈ x, a ∈ (Set.univ : Set ℝ) := fun _ _ => Set.mem_univ _
  rw [hr]
  exact ⟨(corr_affine_invariant hpos _ x y).1, (spearman_strictMono_invariant hmono x y hu).1,
    (rhoA_strictMono_invariant hmono x y hu).1, (tauA_strictMono_invariant hmono x y hu).1,
    (tauB_strictMono_invariant hmono x y hu).1⟩

/-- the geo-topological transform is the clipped linear map between its two thresholds:
    `min(1, max(0, (x - lo)/(hi - lo)))`; it is monotone and maps into [0,1] -/
theorem geotop_clipped_linear (lo hi : K) (h : lo < hi) (a : K) :
    geotopVal lo hi a = some (min 1 (max 0 ((a - lo) / (hi - lo)))) ∧
    (∀ b, a ≤ b → ∃ u v, geotopVal lo hi a = some u ∧ geotopVal lo hi b = some v ∧ u ≤ v) := by
  have hd : 0 < hi - lo := sub_pos.mpr h
  have key : ∀ t : K, geotopVal lo hi t = some (min 1 (max 0 ((t - lo) / (hi - lo)))) := by
    intro t
    unfold geotopVal
    rw [if_pos (Or.inr (Or.inl h)), geotopEntry_eq]
    by_cases h1 : hi < t
    · have : 1 ≤ (t - lo) / (hi - lo) := by rw [le_div_iff₀ hd]; linarith
      simp [h1, min_eq_left (le_trans this (le_max_right _ _))]
    · by_cases h2 : t < lo
      · have : (t - lo) / (hi - lo) ≤ 0 := div_nonpos_of_nonpos_of_nonneg (by linarith) hd.le
        simp [h1, h2, max_eq_left this]
      · have h3 : 0 ≤ (t - lo) / (hi - lo) := div_nonneg (by linarith [not_lt.mp h2]) hd.le
        have h4 : (t - lo) / (hi - lo) ≤ 1 := by rw [div_le_one hd]; linarith [not_lt.mp h1]
        simp [h1, h2, max_eq_right h3, min_eq_right h4]
  refine ⟨key a, fun b hab => ⟨_, _, key a, key b, ?_⟩⟩
  have : (a - lo) / (hi - lo) ≤ (b - lo) / (hi - lo) :=
    div_le_div_of_nonneg_right (by linarith) hd.le
  exact min_le_min le_rfl (max_le_max le_rfl this)

example : geotopT (1 : ℚ) 3 [0, 1, 2, 3, 5, -4] = [some 0, some 0, some (1/2), some 1, some 1, some 0] := by
  decide +kernel


/-- the thresholds of `geotopological_transform` are the `low` / `up` quantiles of all
    entries of the stack (as coded: one pair of thresholds for the whole stack), and every RDM
    is mapped by the clipped linear map between them -/
theorem geotop_uses_stack_quantiles (low up : K) (vs : List (List K)) :
    let s := sortAsc vs.flatten
    geotopStack low up vs =
      (quantileLin s low, quantileLin s up, vs.map (geotopT (quantileLin s low) (quantileLin s up))) :=
  rfl

/-- the quantiles are taken from the ascending rearrangement of the entries; quantile 0 is
    its first (the minimum) and quantile 1 its last entry (the maximum) -/
theorem quantile_endpoints (l : List K) (hl : l ≠ []) :
    (sortAsc l).Perm l ∧ (sortAsc l).Pairwise (· ≤ ·) ∧
    quantileLin (sortAsc l) 0 = (sortAsc l).getD 0 0 ∧
    quantileLin (sortAsc l) 1 = (sortAsc l).getD ((sortAsc l).length - 1) 0 := by
  have hp : (sortAsc l).Perm l := List.mergeSort_perm _ _
  refine ⟨hp, ?_, quantileLin_zero _, quantileLin_one _ ?_⟩
  · have := List.pairwise_mergeSort (le := fun a b : K => !decide (b < a))
      (fun a b c h1 h2 => by
        simp only [Bool.not_eq_true', decide_eq_false_iff_not, not_lt] at h1 h2 ⊢
        exact le_trans h1 h2)
      (fun a b => by
        simp only [Bool.or_eq_true, Bool.not_eq_true', decide_eq_false_iff_not, not_lt]
        exact le_total a b) l
    refine this.imp ?_
    intro a b h
    simpa using h
  · intro h
    rw [h] at hp
    exact hl (List.perm_nil.mp hp.symm)

example : quantileLin ([1, 2, 3, 5] : List ℚ) (1/2) = 5/2 := by decide +kernel

/-- a custom transform applies the given function to the array of vectors -/
theorem transform_applies_f {β D R P : Type} (f : List (List β) → List (List β))
    (r : RDMs (List (List β)) D R P) :
    (applyT .custom (customT f) r).vecs = f r.vecs := rfl

/-- every transform returns the source's descriptors, RDM descriptors and pattern
    descriptors unchanged and the measure name prescribed for its kind -/
theorem descriptors_and_measure_propagate {V W D R P : Type} (k : Kind) (f : V → W)
    (r : RDMs V D R P) :
    (applyT k f r).descr = r.descr ∧ (applyT k f r).rdmDescr = r.rdmDescr ∧
    (applyT k f r).patDescr = r.patDescr ∧ (applyT k f r).measure = newMeasure k r.measure ∧
    (applyT k f r).vecs = f r.vecs := ⟨rfl, rfl, rfl, rfl, rfl⟩

/-- the measure names: unchanged only by `positive_transform`; `None` becomes a name that says
    the measure is unknown -/
theorem measure_names (m : Option String) :
    newMeasure .positive m = m ∧
    newMeasure .custom none = some "transformed unknown measure" ∧
    newMeasure .minmax none = some "minmax transformed unknown measure" ∧
    newMeasure .geotop none = some "geo-topological transformed unknown measure" ∧
    newMeasure .geodesic none = some "geodesic transformed unknown measure" ∧
    newMeasure .sqrt none = some "sqrt of unknown measure" ∧
    newMeasure .sqrt (some "squared euclidean") = some "euclidean" ∧
    newMeasure .sqrt (some "squared mahalanobis") = some "mahalanobis" ∧
    (∀ s, newMeasure .custom (some s) = some ("transformed " ++ s)) ∧
    (∀ s, newMeasure .minmax (some s) = some ("minmax transformed " ++ s)) ∧
    (∀ s, newMeasure .geotop (some s) = some ("geo-topological transformed " ++ s)) ∧
    (∀ s, newMeasure .geodesic (some s) = some ("geodesic transformed " ++ s)) := by
  refine ⟨rfl, rfl, rfl, rfl, rfl, rfl, ?_, ?_, fun _ => rfl, fun _ => rfl, fun _ => rfl, fun _ => rfl⟩
  · simp [newMeasure, sqrtName]
  · simp [newMeasure, sqrtName]


/-! ## 4. geodesic transform: shortest-path lengths in the min-max graph without its
       maximal (weight 1) edges -/

/-- the graph: for `i < j` the edge `{i,j}` carries the min-max value of the pair unless that
    value is 1; it is undirected and has no loops -/
theorem geoWeights_spec (n : ℕ) (mm : List K) (i j : ℕ) (hij : i < j) :
    geoWeights n mm i j =
      (match mm[triIdx n i j]? with
       | some x => if x = 1 then none else some x
       | none => none) ∧
    geoWeights n mm j i = geoWeights n mm i j ∧ geoWeights n mm i i = none := by
  have hg : (mm.map some).getD (triIdx n i j) none = mm[triIdx n i j]? := by
    rw [List.getD_eq_getElem?_getD, List.getElem?_map]
    cases mm[triIdx n i j]? <;> rfl
  have hne : ¬ j = i := by omega
  have hnlt : ¬ j < i := by omega
  refine ⟨?_, ?_, ?_⟩
  · simp only [geoWeights, vecToMat, hij.ne, hij, ↓reduceIte, hg]
    cases mm[triIdx n i j]? with
    | none => rfl
    | some x =>
      by_cases hx : x = 1
      · have : ¬ Rsa.Gen.C17.geoKeep x = 1 := fun hk => (geoKeep_eq_one_iff x).mp hk hx
        show (if Rsa.Gen.C17.geoKeep x = 1 then some x else none) = (if x = 1 then none else some x)
        rw [if_neg this, if_pos hx]
      · have : Rsa.Gen.C17.geoKeep x = 1 := (geoKeep_eq_one_iff x).mpr hx
        simp [hx, this]
  · simp only [geoWeights, vecToMat, hij.ne, hij, hne, hnlt, ↓reduceIte]
  · simp [geoWeights, vecToMat]

theorem geoWeights_mem {n : ℕ} {mm : List K} {i j : ℕ} {c : K} (h : geoWeights n mm i j = some c) :
    c ∈ mm ∧ c ≠ 1 := by
  have hmem : ∀ k x, (mm.map some).getD k none = some x → x ∈ mm := by
    intro k x hk
    rw [List.getD_eq_getElem?_getD, List.getElem?_map] at hk
    cases hq : mm[k]? with
    | none => simp [hq] at hk
    | some y =>
      simp only [hq, Option.map_some, Option.getD_some, Option.some.injEq] at hk
      rw [← hk]; exact List.mem_of_getElem? hq
  unfold geoWeights at h
  cases hv : vecToMat n none none (mm.map some) i j with
  | none => simp [hv] at h
  | some x =>
    simp only [hv] at h
    by_cases hx : Rsa.Gen.C17.geoKeep x = 1
    · simp only [hx, ↓reduceIte, Option.some.injEq] at h
      subst h
      refine ⟨?_, (geoKeep_eq_one_iff x).mp hx⟩
      unfold vecToMat at hv
      by_cases h1 : i = j
      · simp [h1] at hv
      · by_cases h2 : i < j
        · simp only [h1, h2, ↓reduceIte] at hv; exact hmem _ _ hv
        · simp only [h1, h2, ↓reduceIte] at hv; exact hmem _ _ hv
    · simp [hx] at h

/-- **the geodesic transform gives shortest-path lengths.**  For non-negative edge weights
    the computed entry for `(a, j)` is `some d` exactly when `d` is the weight of some walk
    from `a` to `j` and no walk from `a` to `j` is lighter; it is `none` (the code's `inf`)
    exactly when there is no walk at all. -/
theorem geodesic_shortest_path (n : ℕ) (w : ℕ → ℕ → Option K) (hw : NonNeg w) (a j : ℕ)
    (ha : a < n) (hj : j < n) :
    (∀ d, (distTo n w j).getD a none = some d →
      (∃ p, IsWalk n w p ∧ p.head? = some a ∧ p.getLast? = some j ∧ walkLen w p = d) ∧
      (∀ p, IsWalk n w p → p.head? = some a → p.getLast? = some j → d ≤ walkLen w p)) ∧
    ((distTo n w j).getD a none = none →
      ¬ ∃ p, IsWalk n w p ∧ p.head? = some a ∧ p.getLast? = some j) := by
  have hd : (distTo n w j).getD a none = dk n w j (n - 1) a := rfl
  have key : ∀ p, IsWalk n w p → p.head? = some a → p.getLast? = some j →
      ∃ y, dk n w j (n - 1) a = some y ∧ y ≤ walkLen w p := by
    intro p hp h1 h2
    obtain ⟨q, hq1, hq2, hq3, hq4, hq5⟩ := walk_shorten hw p hp
    have hlen : q.length ≤ (n - 1) + 1 := by
      have := nodup_walk_length_le hq1 hq4
      omega
    obtain ⟨y, hy1, hy2⟩ := dk_le_walk w hj (n - 1) q a hq1 (hq2.trans h1) (hq3.trans h2) hlen
    exact ⟨y, hy1, le_trans hy2 hq5⟩
  rw [hd]
  refine ⟨fun d hdd => ⟨dk_realised w hj (n - 1) a ha d hdd, ?_⟩, ?_⟩
  · intro p hp h1 h2
    obtain ⟨y, hy1, hy2⟩ := key p hp h1 h2
    rw [hdd] at hy1
    have : d = y := by simpa using hy1
    rw [this]; exact hy2
  · rintro hnone ⟨p, hp, h1, h2⟩
    obtain ⟨y, hy1, _⟩ := key p hp h1 h2
    rw [hnone] at hy1
    simp at hy1

/-- `geodesic_transform` of one RDM: defined iff the RDM is not constant; its entry for the
    pair `(i, j)` is the shortest-path length between `i` and `j` in the graph of
    `geoWeights` on the min-max values, whose weights are non-negative (so
    `geodesic_shortest_path` applies to every entry) -/
theorem geodesicT_spec (n : ℕ) (v : List K) (r : List (Option K)) (h : geodesicT n v = some r) :
    ∃ mm, minmaxT v = some mm ∧ NonNeg (geoWeights n mm) ∧
      r = (pairs n).map (fun p => (distTo n (geoWeights n mm) p.2).getD p.1 none) := by
  unfold geodesicT at h
  cases hm : minmaxT v with
  | none => simp [hm] at h
  | some mm =>
    simp only [hm, Option.some.injEq] at h
    obtain ⟨_, _, _, _, _, _, _, _, hr01, _, _⟩ := minmax_affine_increasing_onto_unit v mm hm
    refine ⟨mm, rfl, ?_, ?_⟩
    · intro a b c hc
      exact (hr01 c (geoWeights_mem hc).1).1
    · rw [← h]
      apply List.map_congr_left
      intro p hp
      have hp2 : p.2 < n := (mem_pairs_lt hp).2
      simp [List.getD_eq_getElem?_getD, hp2]

example : geodesicT 3 ([1, 2, 4] : List ℚ) = some [some 0, some (1/3), some (1/3)] := by
  decide +kernel

/-- non-vacuity of `geodesic_shortest_path`: a concrete non-negative graph and walk -/
example : NonNeg (geoWeights 3 ([0, 1/3, 1] : List ℚ)) ∧
    IsWalk 3 (geoWeights 3 ([0, 1/3, 1] : List ℚ)) [2, 0, 1] := by
  refine ⟨fun a b c h => ?_, by simp [IsWalk, geoWeights, vecToMat, triIdx, geoKeep_eq_one_iff]⟩
  have := (geoWeights_mem h).1
  simp at this
  rcases this with rfl | rfl | rfl <;> norm_num

/-! ## 5. `np.quantile` (default method 'linear') as modelled by `quantileLin` -/

/-- the index arithmetic: `k` with `k ≤ q·(n-1) < k+1` (capped at the last position) and the
    interpolation `s[k] + (q·(n-1) - k)·(s[k+1] - s[k])` -/
theorem quantile_index_spec (s : List K) (q : K) (h0 : 0 ≤ q) :
    ∃ k : ℕ, k ≤ s.length - 1 ∧ (k : K) ≤ q * ((s.length - 1 : ℕ) : K) ∧
      (k < s.length - 1 → q * ((s.length - 1 : ℕ) : K) < (k : K) + 1) ∧
      quantileLin s q =
        s.getD k 0 + (q * ((s.length - 1 : ℕ) : K) - k) * (s.getD (k + 1) (s.getD k 0) - s.getD k 0) := by
  refine ⟨qIdx (s.length - 1) (q * ((s.length - 1 : ℕ) : K)), qIdx_le _ _,
    qIdx_cast_le (mul_nonneg h0 (Nat.cast_nonneg _)), fun h => ?_, quantileLin_eq s q⟩
  have := lt_qIdx_succ (m := s.length - 1) (pos := q * ((s.length - 1 : ℕ) : K)) h
  push_cast at this
  exact this

/-- **contract of `np.quantile`, method 'linear'** (numpy's `_quantile`: `virtual_index = q·(n-1)`,
    `previous = floor(virtual_index)`, `next = previous + 1` clipped to `n-1`,
    `gamma = virtual_index - previous`, result `a[previous] + gamma·(a[next] - a[previous])` on the
    sorted data): the model computes exactly this -/
theorem quantile_numpy_linear [FloorSemiring K] (s : List K) (hne : s ≠ []) (q : K) (h0 : 0 ≤ q)
    (h1 : q ≤ 1) :
    quantileLin s q =
      s.getD ⌊q * ((s.length - 1 : ℕ) : K)⌋₊ 0 +
        (q * ((s.length - 1 : ℕ) : K) - (⌊q * ((s.length - 1 : ℕ) : K)⌋₊ : K)) *
        (s.getD (min (⌊q * ((s.length - 1 : ℕ) : K)⌋₊ + 1) (s.length - 1)) 0 -
          s.getD ⌊q * ((s.length - 1 : ℕ) : K)⌋₊ 0) := by
  have hn0 : (0 : K) ≤ ((s.length - 1 : ℕ) : K) := Nat.cast_nonneg _
  have hp0 : 0 ≤ q * ((s.length - 1 : ℕ) : K) := mul_nonneg h0 hn0
  have hple : q * ((s.length - 1 : ℕ) : K) ≤ ((s.length - 1 : ℕ) : K) := by
    calc q * ((s.length - 1 : ℕ) : K) ≤ 1 * ((s.length - 1 : ℕ) : K) :=
          mul_le_mul_of_nonneg_right h1 hn0
      _ = _ := one_mul _
  have hfl : ⌊q * ((s.length - 1 : ℕ) : K)⌋₊ ≤ s.length - 1 := Nat.floor_le_of_le hple
  have hk : qIdx (s.length - 1) (q * ((s.length - 1 : ℕ) : K)) = ⌊q * ((s.length - 1 : ℕ) : K)⌋₊ := by
    rw [qIdx_eq_floor _ hp0, min_eq_right hfl]
  rw [quantileLin_eq, hk, next_getD s _ hfl hne]

example : quantileLin ([1, 2, 4, 8] : List ℚ) (3/4) = 5 := by decide +kernel

/-- on ascending data the quantile lies between the two neighbouring order statistics, hence
    between the smallest and the largest entry -/
theorem quantile_between_neighbours {s : List K} (hs : s.Pairwise (· ≤ ·)) (hne : s ≠ []) {q : K}
    (h0 : 0 ≤ q) (h1 : q ≤ 1) :
    ∃ k : ℕ, k ≤ s.length - 1 ∧ s.getD k 0 ≤ quantileLin s q ∧
      quantileLin s q ≤ s.getD (min (k + 1) (s.length - 1)) 0 ∧
      s.getD 0 0 ≤ quantileLin s q ∧ quantileLin s q ≤ s.getD (s.length - 1) 0 := by
  have hpos := List.length_pos_iff.mpr hne
  obtain ⟨l, u⟩ := quantileLin_between hs hne h0 h1
  have hk := qIdx_le (s.length - 1) (q * ((s.length - 1 : ℕ) : K))
  refine ⟨_, hk, l, u, le_trans (sorted_getD_le hs (Nat.zero_le _) (by omega)) l,
    le_trans u (sorted_getD_le hs (min_le_right _ _) (by omega))⟩

/-- `np.quantile(data, q)` is monotone in `q` -/
theorem quantile_monotone {s : List K} (hs : s.Pairwise (· ≤ ·)) (hne : s ≠ []) {q1 q2 : K}
    (h0 : 0 ≤ q1) (h12 : q1 ≤ q2) (h1 : q2 ≤ 1) : quantileLin s q1 ≤ quantileLin s q2 :=
  quantileLin_mono hs hne h0 h12 h1

/-- on the grid `q = j/(n-1)` the quantile is the `j`-th order statistic -/
theorem quantile_grid (s : List K) (q : K) (j : ℕ) (hj : j ≤ s.length - 1)
    (hq : q * ((s.length - 1 : ℕ) : K) = (j : K)) : quantileLin s q = s.getD j 0 :=
  quantileLin_grid s q j hj hq

example : sortAsc ([3, 1, 2] : List ℚ) = [1, 2, 3] ∧ ([1, 2, 3] : List ℚ).Pairwise (· ≤ ·) := by
  refine ⟨by norm_num [sortAsc, List.mergeSort, List.MergeSort.Internal.splitInTwo, List.merge], ?_⟩
  norm_num [List.pairwise_cons]

/-- the two thresholds of `geotopological_transform` are ordered like the quantile levels and
    lie within the range of the stack: the transform is the clipped linear map *between* them -/
theorem geotop_thresholds_ordered (low up : K) (h0 : 0 ≤ low) (hlu : low ≤ up) (h1 : up ≤ 1)
    (vs : List (List K)) (hne : vs.flatten ≠ []) :
    (geotopStack low up vs).1 ≤ (geotopStack low up vs).2.1 ∧
    (∃ a ∈ vs.flatten, a ≤ (geotopStack low up vs).1) ∧
    (∃ b ∈ vs.flatten, (geotopStack low up vs).2.1 ≤ b) := by
  have hs := sortAsc_pairwise vs.flatten
  have hn := sortAsc_ne_nil hne
  have hpos := List.length_pos_iff.mpr hn
  have hmem : ∀ i, i < (sortAsc vs.flatten).length → (sortAsc vs.flatten).getD i 0 ∈ vs.flatten := by
    intro i hi
    rw [List.getD_eq_getElem _ _ hi]
    exact (sortAsc_perm vs.flatten).mem_iff.mp (List.getElem_mem hi)
  simp only [geotopStack, gtQa_eq, gtQb_eq]
  obtain ⟨_, _, _, _, l0, _⟩ := quantile_between_neighbours hs hn h0 (le_trans hlu h1)
  obtain ⟨_, _, _, _, _, u1⟩ := quantile_between_neighbours hs hn (le_trans h0 hlu) h1
  exact ⟨quantileLin_mono hs hn h0 hlu h1, ⟨_, hmem 0 hpos, l0⟩, ⟨_, hmem _ (by omega), u1⟩⟩

/-! ## 6. degenerate inputs, as coded: coinciding thresholds, NaN where it is not supported -/

/-- an entry becomes NaN exactly when it sits on two coinciding thresholds (0/0) -/
theorem geotop_undefined_iff (lo hi a : K) : geotopVal lo hi a = none ↔ lo = hi ∧ a = lo := by
  unfold geotopVal
  constructor
  · intro h
    by_cases hc : (hi < a ∨ a < lo) ∨ (lo < hi ∨ hi < lo)
    · rw [if_pos hc] at h
      exact absurd h (by simp)
    · push Not at hc
      obtain ⟨⟨h1, h2⟩, h3, h4⟩ := hc
      exact ⟨le_antisymm h4 h3, le_antisymm (by rw [le_antisymm h4 h3]; exact h1) h2⟩
  · rintro ⟨rfl, rfl⟩
    simp

/-- with coinciding thresholds (e.g. `low = up`, or a heavily tied stack) the transform is a
    step: 0 below, 1 above, NaN on the threshold; a constant stack becomes NaN everywhere -/
theorem geotop_coinciding_thresholds (t a : K) :
    geotopVal t t a = (if t < a then some 1 else if a < t then some 0 else none) := by
  unfold geotopVal
  rw [geotopEntry_eq]
  by_cases h1 : t < a
  · simp [h1]
  · by_cases h2 : a < t
    · simp [h1, h2]
    · simp [h1, h2]

example : geotopT (2 : ℚ) 2 [1, 2, 3] = [some 0, none, some 1] := by decide +kernel

/-- `minmax_transform` does not support NaN: an RDM with a missing entry becomes NaN
    everywhere (its max and min are NaN); a NaN-free RDM is transformed as `minmaxT` says -/
theorem minmax_nan_as_coded (v : List (Option K)) :
    (none ∈ v → minmaxNanT v = v.map (fun _ => none)) ∧
    (∀ x : List K, v = x.map some →
      minmaxNanT v = match minmaxT x with
                     | some r => r.map some
                     | none => v.map (fun _ => none)) := by
  constructor
  · intro h
    unfold minmaxNanT
    rw [all_isSome_eq_false h]
    simp
  · rintro x rfl
    unfold minmaxNanT
    rw [all_isSome_map_some, present_map_some]
    cases minmaxT x <;> simp

example : minmaxNanT ([some 1, none, some 3] : List (Option ℚ)) = [none, none, none] ∧
    minmaxNanT ([some 1, some 2, some 3] : List (Option ℚ)) = [some 0, some (1/2), some 1] := by
  decide +kernel

/-- `geotopological_transform` does not support NaN: one missing entry anywhere in the stack
    makes both thresholds NaN and with them every entry of every RDM; a NaN-free stack is
    transformed as `geotopStack` says -/
theorem geotop_nan_as_coded (low up : K) (vs : List (List (Option K))) :
    ((∃ v ∈ vs, none ∈ v) → geotopNanStack low up vs = vs.map (fun v => v.map (fun _ => none))) ∧
    (∀ xs : List (List K), vs = xs.map (fun x => x.map some) →
      geotopNanStack low up vs = (geotopStack low up xs).2.2) := by
  constructor
  · rintro ⟨v, hv, hn⟩
    unfold geotopNanStack
    have : vs.all (fun v => v.all Option.isSome) = false := by
      rw [List.all_eq_false]
      exact ⟨v, hv, by rw [all_isSome_eq_false hn]; simp⟩
    rw [this]
    simp
  · rintro xs rfl
    unfold geotopNanStack
    have h1 : (xs.map (fun x => x.map some)).all (fun v => v.all Option.isSome) = true := by
      rw [List.all_eq_true]
      intro v hv
      obtain ⟨x, _, rfl⟩ := List.mem_map.mp hv
      exact all_isSome_map_some x
    have h2 : (xs.map (fun x => x.map some)).map present = xs := by
      rw [List.map_map]
      conv_rhs => rw [← List.map_id xs]
      apply List.map_congr_left
      intro x _
      exact present_map_some x
    rw [h1, h2]
    simp

/-- `geodesic_transform` raises (for the whole stack) exactly when some RDM has a missing entry
    or is constant — "constant RDMs under geodesic" and "NaN where supported", as coded -/
theorem geodesic_raises_iff (n : ℕ) (vs : List (List (Option K))) :
    geodesicStack n vs = none ↔
      ∃ v ∈ vs, none ∈ v ∨ (∀ a ∈ present v, ∀ b ∈ present v, a = b) := by
  unfold geodesicStack
  rw [allSome_eq_none_iff, List.mem_map]
  have hg : ∀ x : List K, geodesicT n x = none ↔ ∀ a ∈ x, ∀ b ∈ x, a = b := by
    intro x
    rw [← minmax_undefined_iff_constant]
    unfold geodesicT
    cases minmaxT x <;> simp
  constructor
  · rintro ⟨v, hv, h⟩
    refine ⟨v, hv, ?_⟩
    unfold geodesicRow at h
    cases ha : allSome v with
    | none => exact Or.inl ((allSome_eq_none_iff v).mp ha)
    | some x =>
      rw [ha] at h
      have hx : v = x.map some := (allSome_eq_some_iff v x).mp ha
      right
      rw [hx, present_map_some]
      exact (hg x).mp h
  · rintro ⟨v, hv, h⟩
    refine ⟨v, hv, ?_⟩
    unfold geodesicRow
    cases ha : allSome v with
    | none => rfl
    | some x =>
      have hx : v = x.map some := (allSome_eq_some_iff v x).mp ha
      rcases h with h | h
      · rw [hx] at h; simp at h
      · rw [hx, present_map_some] at h
        exact (hg x).mpr h

/-- when `geodesic_transform` does not raise, no entry is missing and every RDM is
    transformed by `geodesicT` (to which `geodesicT_spec` applies) -/
theorem geodesic_stack_rows (n : ℕ) (vs : List (List (Option K))) (rs : List (List (Option K)))
    (h : geodesicStack n vs = some rs) :
    ∃ xs : List (List K), vs = xs.map (fun x : List K => x.map some) ∧
      xs.map (geodesicT n) = rs.map some := by
  unfold geodesicStack at h
  have h' := (allSome_eq_some_iff _ rs).mp h
  have hall : ∀ v ∈ vs, ∃ x : List K, v = x.map some := by
    intro v hv
    cases ha : allSome v with
    | none =>
      have hm : geodesicRow n v ∈ vs.map (geodesicRow n) := List.mem_map_of_mem hv
      rw [h'] at hm
      unfold geodesicRow at hm
      rw [ha] at hm
      simp at hm
    | some x => exact ⟨x, (allSome_eq_some_iff v x).mp ha⟩
  refine ⟨vs.map present, ?_, ?_⟩
  · rw [List.map_map]
    conv_lhs => rw [← List.map_id vs]
    apply List.map_congr_left
    intro v hv
    obtain ⟨x, rfl⟩ := hall v hv
    simp [present_map_some]
  · rw [← h', List.map_map]
    apply List.map_congr_left
    intro v hv
    obtain ⟨x, rfl⟩ := hall v hv
    have : allSome (x.map some) = some x := (allSome_eq_some_iff _ x).mpr rfl
    simp [present_map_some, geodesicRow, this]

example : geodesicStack 3 ([[some 1, some 2, some 4], [some 2, some 2, some 2]] : List (List (Option ℚ))) = none ∧
    geodesicStack 3 ([[some 1, some 2, some 4]] : List (List (Option ℚ))) =
      some [[some 0, some (1/3), some (1/3)]] := by
  decide +kernel

/-! ## 7. the boundary of the invariance claims; what the source text says (leaves) -/

/-- Kendall's tau-a and tau-b are unchanged when *both* RDMs are mapped by (different) strictly
    increasing maps -/
theorem kendall_strictMono_invariant_both {f g : ℝ → ℝ} {s t : Set ℝ} (hf : StrictMonoOn f s)
    (hg : StrictMonoOn g t) (x y : List ℝ) (hx : ∀ a ∈ x, a ∈ s) (hy : ∀ a ∈ y, a ∈ t) :
    tauA (x.map f) (y.map g) = tauA x y ∧ tauB (x.map f) (y.map g) = tauB x y := by
  constructor
  · rw [(tauA_strictMono_invariant hf x (y.map g) hx).1, (tauA_strictMono_invariant hg y x hy).2]
  · rw [(tauB_strictMono_invariant hf x (y.map g) hx).1, (tauB_strictMono_invariant hg y x hy).2]

/-- the whitened correlation (`corr_cov`) is unchanged by a positive-slope affine map: mean
    removal turns it into the scaling by the slope, which scales the solution of `V s = r` -/
theorem whitened_corr_affine_invariant {a : ℝ} (ha : 0 < a) (b : ℝ) (V : List (List ℝ))
    (x1 r2 s1 s2 : List ℝ) (h1 : matVec V s1 = center x1) :
    matVec V (s1.map (a * ·)) = center (x1.map (fun t => a * t + b)) ∧
    wcosFrom (center (x1.map (fun t => a * t + b))) r2 (s1.map (a * ·)) s2 =
      wcosFrom (center x1) r2 s1 s2 := by
  rw [center_map_affine]
  obtain ⟨e1, e2, _⟩ := whitened_scale_invariant ha V (center x1) r2 s1 s2 h1
  exact ⟨e1, e2⟩

/-- boundary: cosine-type measures are *not* invariant under a shift -/
theorem cosine_not_shift_invariant :
    ∃ (x y : List ℝ) (c : ℝ), cosine (x.map (· + c)) y ≠ cosine x y := by
  refine ⟨[1, 0], [0, 1], 1, ?_⟩
  have h0 : cosine ([1, 0] : List ℝ) [0, 1] = 0 := by
    simp [cosine, dot]
  have h1 : 0 < cosine (([1, 0] : List ℝ).map (· + 1)) [0, 1] := by
    have e : dot (([1, 0] : List ℝ).map (· + 1)) (([1, 0] : List ℝ).map (· + 1)) = 5 := by
      simp [dot]; norm_num
    have e2 : dot ([0, 1] : List ℝ) [0, 1] = 1 := by simp [dot]
    have e3 : dot (([1, 0] : List ℝ).map (· + 1)) [0, 1] = 1 := by simp [dot]
    unfold cosine
    simp only [e, e2, e3, hasSqrt_real]
    have p5 : 0 < Real.sqrt 5 := Real.sqrt_pos.mpr (by norm_num)
    have p1 : 0 < Real.sqrt 1 := Real.sqrt_pos.mpr (by norm_num)
    rw [if_pos ⟨p5, p1⟩]
    positivity
  rw [h0]
  exact h1.ne'

/-- boundary: correlation-type measures are *not* invariant under every strictly increasing
    map (only under positive affine ones): cubing changes Pearson's r -/
theorem corr_not_monotone_invariant :
    ∃ (f : ℝ → ℝ), StrictMono f ∧ ∃ x y : List ℝ, corr (x.map f) y ≠ corr x y := by
  refine ⟨fun t => t ^ 3, (Odd.strictMono_pow (by decide : Odd 3)), [0, 1, 2], [1, -2, 1], ?_⟩
  have h0 : corr ([0, 1, 2] : List ℝ) [1, -2, 1] = 0 := by
    have : dot (center ([0, 1, 2] : List ℝ)) (center ([1, -2, 1] : List ℝ)) = 0 := by
      simp [dot, center, mean]; norm_num
    unfold corr cosine
    rw [this]
    simp
  have h1 : 0 < corr (([0, 1, 2] : List ℝ).map (fun t => t ^ 3)) [1, -2, 1] := by
    have e1 : center (([0, 1, 2] : List ℝ).map (fun t => t ^ 3)) = [-3, -2, 5] := by
      simp [center, mean]; norm_num
    have e2 : center ([1, -2, 1] : List ℝ) = [1, -2, 1] := by
      simp [center, mean]; norm_num
    unfold corr cosine
    rw [e1, e2]
    have d1 : dot ([-3, -2, 5] : List ℝ) [-3, -2, 5] = 38 := by simp [dot]; norm_num
    have d2 : dot ([1, -2, 1] : List ℝ) [1, -2, 1] = 6 := by simp [dot]; norm_num
    have d3 : dot ([-3, -2, 5] : List ℝ) [1, -2, 1] = 6 := by simp [dot]; norm_num
    simp only [d1, d2, d3, hasSqrt_real]
    have p1 : 0 < Real.sqrt 38 := Real.sqrt_pos.mpr (by norm_num)
    have p2 : 0 < Real.sqrt 6 := Real.sqrt_pos.mpr (by norm_num)
    rw [if_pos ⟨p1, p2⟩]
    positivity
  rw [h0]
  exact h1.ne'

/-- the `nan_policy` the source passes to `rankdata` is 'omit': the coded rank transform is
    the rank among the non-missing entries (leaf `rankNanPolicy`) -/
theorem rankT_as_coded (m : RankMethod) (v : List (Option K)) : rankTCoded m v = rankT m v := by
  unfold rankTCoded
  rw [if_pos (by decide)]

/-- every transform hands the array it built and the three descriptor dicts of the source to
    the `RDMs` constructor (leaf `descrPass`, read off the source text) -/
theorem descriptors_as_coded (k : Kind) : passesDescriptors k = true := by
  cases k <;> decide

/-- the remaining names: `sqrt_transform` prepends 'sqrt of' (as coded: without a blank) to
    every name but the two squared ones; `rank_transform` appends ' (ranks)' once -/
theorem measure_names_sqrt_rank (s : String) (h0 : s ≠ "squared euclidean")
    (h1 : s ≠ "squared mahalanobis") :
    newMeasure .sqrt (some s) = some ("sqrt of" ++ s) ∧
    newMeasure .rank none = some "(ranks)" ∧
    newMeasure .rank (some "correlation") = some "correlation (ranks)" ∧
    newMeasure .rank (some "corr (ranks)") = some "corr (ranks)" := by
  refine ⟨?_, by decide, by decide, by decide⟩
  simp [newMeasure, sqrtName, h0, h1]

/-! ## 8. reuse sessions: the same object goes through comparisons and transforms -/

section session
variable {Obj Val : Type}

private theorem sessStep_prefix (st : List Obj) (s : Step Obj Val) : st <+: (sessStep st s).1 := by
  cases s with
  | tf src f =>
    simp only [sessStep]
    cases st[src]? with
    | none => exact List.prefix_refl _
    | some o => exact List.prefix_append _ _
  | cmp a b m =>
    simp only [sessStep]
    cases st[a]? <;> cases st[b]? <;> exact List.prefix_refl _

/-- no step of a session changes or removes an object that is already there: the store only
    grows at its end (transforms append their result, comparisons only read) -/
theorem session_store_prefix (st : List Obj) (steps : List (Step Obj Val)) :
    st <+: (sessRun st steps).1 := by
  induction steps generalizing st with
  | nil => exact List.prefix_refl _
  | cons s rest ih => exact (sessStep_prefix st s).trans (ih _)

/-- in particular every source object is, after any sequence of steps, what it was before -/
theorem session_sources_unchanged (st : List Obj) (steps : List (Step Obj Val)) (i : ℕ)
    (hi : i < st.length) : (sessRun st steps).1[i]? = st[i]? := by
  obtain ⟨t, ht⟩ := session_store_prefix st steps
  rw [← ht, List.getElem?_append_left hi]

private theorem sessStep_out_of_prefix {st st' : List Obj} (h : st <+: st') (s : Step Obj Val)
    (hr : ∀ r ∈ s.refs, r < st.length) : (sessStep st' s).2 = (sessStep st s).2 := by
  obtain ⟨t, rfl⟩ := h
  cases s with
  | tf src f =>
    have h1 : src < st.length := hr src (by simp [Step.refs])
    simp only [sessStep, List.getElem?_append_left h1, List.getElem?_eq_getElem h1]
  | cmp a b m =>
    have h1 : a < st.length := hr a (by simp [Step.refs])
    have h2 : b < st.length := hr b (by simp [Step.refs])
    simp only [sessStep, List.getElem?_append_left h1, List.getElem?_append_left h2,
      List.getElem?_eq_getElem h1, List.getElem?_eq_getElem h2]

/-- whatever went before, a step on source objects returns what the same step returns on the
    pristine store: the transform / the comparison of the ORIGINAL objects -/
theorem session_step_on_pristine (st : List Obj) (pre : List (Step Obj Val)) (s : Step Obj Val)
    (hr : ∀ r ∈ s.refs, r < st.length) :
    (sessStep (sessRun st pre).1 s).2 = (sessStep st s).2 :=
  sessStep_out_of_prefix (session_store_prefix st pre) s hr

/-- the `k`-th value a session returns, when that step refers to source objects, is the value
    of that single step on the pristine store -/
theorem session_outputs_pristine (st : List Obj) (steps : List (Step Obj Val)) (k : ℕ)
    (s : Step Obj Val) (hk : steps[k]? = some s) (hr : ∀ r ∈ s.refs, r < st.length) :
    (sessRun st steps).2[k]? = some (sessStep st s).2 := by
  suffices H : ∀ (st' : List Obj), st <+: st' →
      (sessRun st' steps).2[k]? = some (sessStep st s).2 from H st (List.prefix_refl _)
  induction steps generalizing k with
  | nil => simp at hk
  | cons s0 rest ih =>
    intro st' hp
    cases k with
    | zero =>
      simp only [List.getElem?_cons_zero, Option.some.injEq] at hk
      subst hk
      simp only [sessRun, List.getElem?_cons_zero, Option.some.injEq]
      exact sessStep_out_of_prefix hp s0 hr
    | succ k =>
      simp only [List.getElem?_cons_succ] at hk
      simp only [sessRun, List.getElem?_cons_succ]
      exact ih k hk _ (hp.trans (sessStep_prefix st' s0))

end session

/-- the session of the property text: a Pearson comparison, then `sqrt_transform` of the same
    (non-negative) RDM, then a rank-based and a cosine comparison — the transform is that of the
    original values, the rank measure that of the raw RDMs, the cosine still the cosine -/
theorem session_corr_sqrt_rank (x y : List ℝ) (hx : ∀ a ∈ x, 0 ≤ a) :
    (sessRun [x, y] [Step.cmp 0 1 corr, Step.tf 0 (fun v => v.map Real.sqrt),
        Step.cmp 2 1 spearman, Step.cmp 2 1 tauA, Step.cmp 0 1 cosine]) =
      ([x, y, x.map Real.sqrt],
       [Out.val (corr x y), Out.obj (x.map Real.sqrt), Out.val (spearman x y),
        Out.val (tauA x y), Out.val (cosine x y)]) := by
  obtain ⟨_, h1, _, h3, _⟩ := sqrt_on_nonneg_keeps_rank_measures x y hx
  simp [sessRun, sessStep, h1.1, h3.1]

example : (sessRun [([0, 4, 1] : List ℚ), [2, 1, 3]]
    [Step.cmp 0 1 (fun a b => (a.zip b).map (fun p => p.1 * p.2)), Step.tf 0 (List.map (· + 1)),
     Step.cmp 2 0 (fun a b => (a.zip b).map (fun p => p.1 * p.2)), Step.tf 5 id]).1 =
    [[0, 4, 1], [2, 1, 3], [1, 5, 2]] := by decide +kernel

example : ∀ r ∈ (Step.cmp 0 1 (fun (a b : List ℚ) => a.length + b.length) : Step (List ℚ) ℕ).refs,
    r < ([[0, 4, 1], [2, 1, 3]] : List (List ℚ)).length := by decide

/-! ## 9. Correlation on a large common offset: why the centred (two-pass) form is benign (round 7)

`compare_correlation` removes the means and then takes inner products.  In doubles the computed mean of
a row on a large offset carries a rounding error `d`; for rows whose differences `xᵢ - mean^` are exact
(the class the correspondence generates: one dyadic grid, exact sums, entries within a factor two) the
computed centred row is exactly `center x - d`.  `centred_moment_common_error` says such a common error
enters every centred moment only through the product of the two errors (`n·d·e`, for the variances
`n·d²`): second order, ≤ 2n(2⁻⁵³κ)² relative.  `centred_moment_eq_raw` says the one-pass raw-moment
form `Σxy − ΣxΣy/n` is the same number over a field — so no exact theorem separates the two codes;
only the correspondence on large offsets does (there the raw sums round at `n·b²·2⁻⁵²`, first order). -/

/-- a common error `d`, `e` in the two means changes the centred cross moment by exactly `n·d·e` -/
theorem centred_moment_common_error (d e : K) (x y : List K) (h : x.length = y.length) :
    dot ((center x).map (· - d)) ((center y).map (· - e)) =
      dot (center x) (center y) + x.length * (d * e) := by
  have hl : (center x).length = (center y).length := by simp [center, h]
  rw [dot_map_sub_sub d e _ _ hl, sum_center, sum_center]
  simp [center]

/-- the one-pass raw-moment form of the centred cross moment: equal over a field -/
theorem centred_moment_eq_raw (x y : List K) (h : x.length = y.length) (hx : x ≠ []) :
    dot (center x) (center y) = dot x y - x.sum * y.sum / x.length := by
  have hn : (x.length : K) ≠ 0 := by
    have : 0 < x.length := List.length_pos_iff.mpr hx
    positivity
  have := dot_map_sub_sub (mean x) (mean y) x y h
  unfold center
  rw [this]
  unfold mean
  rw [← h]
  field_simp
  ring

example : ([1, 2, 6] : List ℚ).length = ([0, 5, 1] : List ℚ).length ∧ ([1, 2, 6] : List ℚ) ≠ [] := by
  decide
example : dot ((center ([1, 2, 6] : List ℚ)).map (· - 1/8)) ((center ([0, 5, 1] : List ℚ)).map (· - 1/4)) =
    -2 + 3 * (1/8 * (1/4)) ∧ dot (center ([1, 2, 6] : List ℚ)) (center [0, 5, 1]) = -2 := by
  decide +kernel

end Rsa.Props.C17
