/-
  Property C11 — dataset operations keep every observation attached to its own descriptors.
  Property theorems only; helper lemmas live in Rsa/Lemmas/C11.lean and C11Inv.lean.

  Vocabulary (Rsa/Core/Dataset.lean): a dataset `DS α` holds measurements obs × chan × time
  and *separate* descriptor columns (as the Python objects do).  `cellAt d i j t` is the
  labelled view: the value at (i, j, t) together with the labels of observation i, channel j,
  time point t and the dataset.  `d.WF no nc nt` is what the constructors check (aligned
  lengths).  `gather idx l` is numpy fancy indexing `l[idx]`.
-/
import Mathlib.Data.String.Basic
import Mathlib.Algebra.Order.Ring.Rat
import Mathlib.Algebra.Order.Field.Basic
import Mathlib.Tactic.FieldSimp
import Mathlib.Tactic.Ring
import Rsa.Lemmas.C11Split
import Rsa.Lemmas.C11Bin
import Rsa.Lemmas.C11Frame

set_option linter.unusedSectionVars false
set_option linter.unusedVariables false
set_option linter.unusedSimpArgs false

namespace Rsa.Props.C11

open Rsa.Dataset Rsa.Lemmas.C11

variable {α β γ : Type}

/-! ### 1. descriptor-driven selection: exactly the matching items, in original order -/

/-- `np.where(mask)[0]` lists exactly the positions whose label satisfies `p`, ascending, and
    indexing any parallel array with it is filtering the labelled items in original order. -/
theorem indicesWhere_exact_in_order (p : β → Bool) (col : List β) :
    (indicesWhere p col).Pairwise (· < ·) ∧
    (∀ i, i ∈ indicesWhere p col ↔ ∃ x, col[i]? = some x ∧ p x = true) ∧
    (∀ rows : List γ, col.length = rows.length →
      gather (indicesWhere p col) rows = ((col.zip rows).filter (fun lr => p lr.1)).map (·.2)) :=
  ⟨indicesWhere_sorted p col, fun _ => mem_indicesWhere, fun rows h => gather_indicesWhere p col rows h⟩

/-- fancy indexing with in-range indices: entry k of `l[idx]` is `l[idx[k]]` -/
theorem gather_getElem {idx : List Nat} {l : List β} (h : ∀ i ∈ idx, i < l.length) (k : Nat) :
    (gather idx l)[k]? = (idx[k]?).bind (fun i => l[i]?) := gather_getElem? h k

/-- selecting / reordering observations by an index list: the result is aligned again and
    its labelled measurement at (k, j, t) is the labelled measurement (idx[k], j, t) of the
    source — value, observation labels, channel labels, time labels all move together. -/
theorem gatherObs_cell {d : DS α} {no nc nt : Nat} (h : d.WF no nc nt) {idx : List Nat}
    (hidx : ∀ i ∈ idx, i < no) :
    (gatherObs idx d).WF idx.length nc nt ∧
    ∀ k j t, cellAt (gatherObs idx d) k j t = (idx[k]?).bind (fun i => cellAt d i j t) :=
  ⟨gatherObs_wf h hidx, gatherObs_cellAt h hidx⟩

theorem gatherChan_cell {d : DS α} {no nc nt : Nat} (h : d.WF no nc nt) {idx : List Nat}
    (hidx : ∀ j ∈ idx, j < nc) :
    (gatherChan idx d).WF no idx.length nt ∧
    ∀ i k t, cellAt (gatherChan idx d) i k t = (idx[k]?).bind (fun j => cellAt d i j t) :=
  ⟨gatherChan_wf h hidx, gatherChan_cellAt h hidx⟩

theorem gatherTime_cell {d : DS α} {no nc nt : Nat} (h : d.WF no nc nt) {idx : List Nat}
    (hidx : ∀ t ∈ idx, t < nt) :
    (gatherTime idx d).WF no nc idx.length ∧
    ∀ i j k, cellAt (gatherTime idx d) i j k = (idx[k]?).bind (fun t => cellAt d i j t) :=
  ⟨gatherTime_wf h hidx, gatherTime_cellAt h hidx⟩

/-- the coded selection `np.where(inverse == i_v)` (via `get_unique_inverse`) is the set of
    positions holding the `i_v`-th distinct value -/
theorem selectionOf_eq [DecidableEq β] (col : List β) (iv : Nat) (h : iv < (uniqueFirst col).length) :
    selectionOf col iv = indicesWhere (fun x => x == (uniqueFirst col)[iv]) col :=
  Rsa.Lemmas.C11.selectionOf_eq col iv h

/-! ### 2. splits partition what they split -/

/-- `split_obs(by)`: one part per distinct value in order of first appearance; part `u`
    holds exactly the rows labelled `u` (measurements *and every descriptor column* filtered
    by the same label test, original order); the parts' index lists partition the rows. -/
theorem split_partitions {d : DS α} {no nc nt : Nat} (h : d.WF no nc nt) {by_ : String}
    {col : Col} {parts : List (DS α)} (hcol : d.obs.col by_ = some col)
    (hp : splitObs by_ d = some parts) :
    parts.map (·.meas) = (uniqueFirst col).map
        (fun u => ((col.zip d.meas).filter (fun lr => lr.1 == u)).map (·.2)) ∧
    parts.map (·.obs) = (uniqueFirst col).map
        (fun u => d.obs.map (fun kc => (kc.1, ((col.zip kc.2).filter (fun lr => lr.1 == u)).map (·.2)))) ∧
    (∀ p ∈ parts, p.chan = d.chan ∧ p.time = d.time) ∧
    ((uniqueFirst col).flatMap (fun u => indicesWhere (fun x => x == u) col)).Perm (List.range no) ∧
    (uniqueFirst col).Nodup ∧ (∀ u, u ∈ uniqueFirst col ↔ u ∈ col) := by
  have hcl : col.length = no := h.obsT _ (col_mem hcol)
  refine ⟨?_, ?_, fun p hpm => let ⟨a, b, _⟩ := splitObs_parts_same h hp p hpm; ⟨a, b⟩,
    hcl ▸ groups_perm_range col, nodup_uniqueFirst col, fun u => mem_uniqueFirst⟩
  · rw [splitObs_meas hcol hp]
    apply List.map_congr_left
    intro u _
    exact gather_indicesWhere _ col d.meas (by rw [hcl, h.obsLen])
  · rw [splitObs_obs hcol hp]
    apply List.map_congr_left
    intro u _
    unfold Tbl.gather
    apply List.map_congr_left
    intro kc hkc
    rw [gather_indicesWhere _ col kc.2 (by rw [hcl, h.obsT kc hkc])]

/-- `split_channel(by)`: the same along the channel axis — in every row the columns of part
    `u` are the positions labelled `u` in original order, the channel descriptors are gathered
    with the same index list, observation/time descriptors are untouched, and the index lists
    partition the channels. -/
theorem split_channel_partitions {d : DS α} {no nc nt : Nat} (h : d.WF no nc nt) {by_ : String}
    {col : Col} {parts : List (DS α)} (hcol : d.chan.col by_ = some col)
    (hp : splitChan by_ d = some parts) :
    parts.map (·.meas) = (uniqueFirst col).map (fun u => d.meas.map
        (fun r => ((col.zip r).filter (fun lr => lr.1 == u)).map (·.2))) ∧
    parts.map (·.chan) = (uniqueFirst col).map
        (fun u => d.chan.map (fun kc => (kc.1, ((col.zip kc.2).filter (fun lr => lr.1 == u)).map (·.2)))) ∧
    (∀ p ∈ parts, p.obs = d.obs ∧ p.time = d.time) ∧
    ((uniqueFirst col).flatMap (fun u => indicesWhere (fun x => x == u) col)).Perm (List.range nc) := by
  have hcl : col.length = nc := h.chanT _ (col_mem hcol)
  refine ⟨?_, ?_, splitChan_rest hp, hcl ▸ groups_perm_range col⟩
  · rw [splitChan_meas hcol hp]
    apply List.map_congr_left
    intro u _
    apply List.map_congr_left
    intro r hr
    exact gather_indicesWhere _ col r (by rw [hcl, h.chanLen r hr])
  · rw [splitChan_chan hcol hp]
    apply List.map_congr_left
    intro u _
    unfold Tbl.gather
    apply List.map_congr_left
    intro kc hkc
    rw [gather_indicesWhere _ col kc.2 (by rw [hcl, h.chanT kc hkc])]

/-- `split_time(by)`: one part per distinct value (first appearance), part `u` = the time points
    labelled `u` in original order (`gatherTime`, so `gatherTime_cell` applies); the index
    lists partition the time points. -/
theorem split_time_partitions {d : DS α} {no nc nt : Nat} (h : d.WF no nc nt) {by_ : String}
    {col : Col} {parts : List (DS α)} (hcol : d.time.col by_ = some col)
    (hp : splitTime by_ d = some parts) :
    parts = (uniqueFirst col).map (fun u => gatherTime (indicesWhere (fun x => x == u) col) d) ∧
    (∀ u, ∀ t ∈ indicesWhere (fun x => x == u) col, t < nt) ∧
    ((uniqueFirst col).flatMap (fun u => indicesWhere (fun x => x == u) col)).Perm (List.range nt) := by
  have hcl : col.length = nt := h.timeT _ (col_mem hcol)
  unfold splitTime at hp
  simp only [hcol, Option.some.injEq] at hp
  exact ⟨hp.symm, fun u t ht => hcl ▸ indicesWhere_lt t ht, hcl ▸ groups_perm_range col⟩

/-! ### 3. subsets: exactly the matching items in original order -/

theorem subset_exact_in_order {d d' : DS α} {no nc nt : Nat} (h : d.WF no nc nt) {by_ : String}
    {col : Col} {vals : List Lbl} (hcol : d.obs.col by_ = some col)
    (hs : subsetObs by_ vals d = some d') :
    d'.meas = ((col.zip d.meas).filter (fun lr => vals.contains lr.1)).map (·.2) ∧
    d'.obs = d.obs.map (fun kc =>
      (kc.1, ((col.zip kc.2).filter (fun lr => vals.contains lr.1)).map (·.2))) ∧
    d'.chan = d.chan ∧ d'.time = d.time ∧ d'.desc = d.desc := by
  have hcl : col.length = no := h.obsT _ (col_mem hcol)
  unfold subsetObs at hs
  simp only [hcol, Option.map_some, Option.some.injEq] at hs
  subst hs
  refine ⟨gather_indicesWhere _ col d.meas (by rw [hcl, h.obsLen]), ?_, rfl, rfl, rfl⟩
  simp only [gatherObs, Tbl.gather, numIndex]
  apply List.map_congr_left
  intro kc hkc
  rw [gather_indicesWhere _ col kc.2 (by rw [hcl, h.obsT kc hkc])]

/-- the same along the time axis: `subset_time(by, t_from, t_to)` keeps exactly the time
    points with `t_from ≤ t ≤ t_to`, in original order, with all their time descriptors -/
theorem subset_time_exact_in_order {d d' : DS α} {no nc nt : Nat} (h : d.WF no nc nt) {by_ : String}
    {col : Col} {lo hi : Lbl} (hcol : d.time.col by_ = some col)
    (hs : subsetTime by_ lo hi d = some d') :
    d' = gatherTime (indicesWhere (fun x => Lbl.le lo x && Lbl.le x hi) col) d ∧
    d'.time = d.time.map (fun kc =>
      (kc.1, ((col.zip kc.2).filter (fun lr => Lbl.le lo lr.1 && Lbl.le lr.1 hi)).map (·.2))) := by
  have hcl : col.length = nt := h.timeT _ (col_mem hcol)
  unfold subsetTime at hs
  simp only [hcol, Option.map_some, Option.some.injEq] at hs
  simp only [between_eq] at hs
  have hidx : numIndex col ((uniqueFirst col).filter (fun t => Lbl.le lo t && Lbl.le t hi))
      = indicesWhere (fun x => Lbl.le lo x && Lbl.le x hi) col := by
    unfold numIndex
    apply indicesWhere_congr
    intro x hx
    rw [Bool.eq_iff_iff]
    simp only [List.contains_iff_mem, List.mem_filter, mem_uniqueFirst]
    exact ⟨fun hh => hh.2, fun hh => ⟨hx, hh⟩⟩
  rw [hidx] at hs
  subst hs
  refine ⟨rfl, ?_⟩
  simp only [gatherTime, Tbl.gather]
  apply List.map_congr_left
  intro kc hkc
  rw [gather_indicesWhere _ col kc.2 (by rw [hcl, h.timeT kc hkc])]

/-! ### 4. sorting is a stable permutation -/

/-- `sort_by(by)` reorders rows *and all observation descriptors* by one permutation σ of the
    row positions; the `by` column comes out non-decreasing; rows with equal (or ordered)
    keys keep their relative order (stability). -/
theorem sort_stable_perm {d d' : DS α} {no nc nt : Nat} (h : d.WF no nc nt) {by_ : String}
    {col : Col} (hcol : d.obs.col by_ = some col) (hs : sortBy by_ d = some d') :
    d' = gatherObs (argsortStable Lbl.le col) d ∧
    (argsortStable Lbl.le col).Perm (List.range no) ∧
    (gather (argsortStable Lbl.le col) col).Pairwise (fun a b => Lbl.le a b = true) ∧
    (∀ i j (hij : i < j) (hj : j < col.length),
      Lbl.le (col[i]'(by omega)) col[j] = true → [i, j].Sublist (argsortStable Lbl.le col)) := by
  have hcl : col.length = no := h.obsT _ (col_mem hcol)
  unfold sortBy at hs
  simp only [hcol, Option.map_some, Option.some.injEq] at hs
  exact ⟨hs.symm, hcl ▸ argsort_perm Lbl.le col,
    argsort_sorted Lbl.le Lbl.le_trans' Lbl.le_total' col,
    fun i j hij hj hle => argsort_stable Lbl.le Lbl.le_trans' Lbl.le_total' col i j hij hj hle⟩


/-! ### 5. merging the parts of a split returns the original rows as a multiset -/

/-- `merge_datasets(ds.split_obs(by))`: the merged measurement rows are the original rows
    re-indexed by one permutation σ (so: the same multiset of rows), the result is aligned,
    has the channel / time descriptors of `d`, and every labelled measurement of it is a
    labelled measurement of `d` that carries no label it did not carry in `d`. -/
theorem merge_split_multiset {d m : DS α} {no nc nt : Nat} (h : d.WF no nc nt) {by_ : String}
    {col : Col} {parts : List (DS α)} (hcol : d.obs.col by_ = some col)
    (hp : splitObs by_ d = some parts) (hm : merge parts = some m) :
    let σ := (uniqueFirst col).flatMap (fun u => indicesWhere (fun x => x == u) col)
    σ.Perm (List.range no) ∧ m.meas = gather σ d.meas ∧ m.meas.Perm d.meas ∧
    m.chan = d.chan ∧ m.time = d.time ∧ (∃ no', m.WF no' nc nt) ∧
    (∀ c', IsCell m c' → ∃ c, IsCell d c ∧ Sub c' c) := by
  intro σ
  have hcl : col.length = no := h.obsT _ (col_mem hcol)
  have hσ : σ.Perm (List.range no) := hcl ▸ groups_perm_range col
  have hmeas : m.meas = gather σ d.meas := by
    rw [merge_meas hm, splitObs_meas hcol hp, ← List.flatMap_def, ← gather_flatMap]
  have hsame := merge_of_same hm (splitObs_same h hp)
  refine ⟨hσ, hmeas, ?_, hsame.chan, hsame.time, hsame.wf, hsame.cells⟩
  rw [hmeas]
  exact gather_perm (by rw [h.obsLen]; exact hσ)

/-- … and the descriptor columns travel with the rows: only `by` itself can be promoted from
    the parts' dataset descriptors, and every other observation descriptor column of `d`
    reappears in the merged dataset re-indexed by the *same* permutation σ as the measurement
    rows (keys of a descriptor dictionary are unique). -/
theorem merge_split_columns {d m : DS α} {no nc nt : Nat} (h : d.WF no nc nt) {by_ : String}
    {col : Col} {parts : List (DS α)} (hcol : d.obs.col by_ = some col)
    (hp : splitObs by_ d = some parts) (hm : merge parts = some m)
    (hnd : (d.obs.map (·.1)).Nodup) :
    (∀ k ∈ varyKeys parts, k = by_) ∧
    ∀ kc ∈ d.obs, kc.1 ∉ varyKeys parts →
      (kc.1, gather ((uniqueFirst col).flatMap (fun u => indicesWhere (fun x => x == u) col)) kc.2) ∈ m.obs :=
  ⟨varyKeys_sub hp, fun kc hkc hk => merge_split_column h hcol hp hm hnd (k := kc.1) (c := kc.2) hkc hk⟩

/-! ### 6. odd-even splits -/

/-- `odd_even_split(by)`: the groups (rows of one value of `by`, original order) with even
    list index go to the first dataset, those with odd index to the second; together they
    are the original rows as a multiset; both results are aligned and keep labels. -/
theorem odd_even_partition {d a b : DS α} {no nc nt : Nat} (h : d.WF no nc nt) {by_ : String}
    {col : Col} (hcol : d.obs.col by_ = some col) (hp : oddEven by_ d = some (a, b)) :
    let groups := (uniqueFirst col).map (fun u => gather (indicesWhere (fun x => x == u) col) d.meas)
    a.meas = (evens groups).flatten ∧ b.meas = (odds groups).flatten ∧
    (a.meas ++ b.meas).Perm d.meas ∧
    (∀ c', IsCell a c' → ∃ c, IsCell d c ∧ Sub c' c) ∧
    (∀ c', IsCell b c' → ∃ c, IsCell d c ∧ Sub c' c) ∧
    (∃ na, a.WF na nc nt) ∧ (∃ nb, b.WF nb nc nt) := by
  intro groups
  have hcl : col.length = no := h.obsT _ (col_mem hcol)
  have hsame := oddEven_same h hp
  rw [oddEven_eq_ref] at hp
  unfold oddEvenRef at hp
  cases hparts : splitObs by_ d with
  | none => simp [hparts] at hp
  | some parts =>
    simp only [hparts] at hp
    cases ha : merge (evens parts) with
    | none => simp [ha] at hp
    | some a' =>
      cases hb : merge (odds parts) with
      | none => simp [ha, hb] at hp
      | some b' =>
        simp only [ha, hb, Option.some.injEq, Prod.mk.injEq] at hp
        obtain ⟨rfl, rfl⟩ := hp
        have hg : parts.map (·.meas) = groups := splitObs_meas hcol hparts
        have h1 : a'.meas = (evens groups).flatten := by
          rw [merge_meas ha, ← evens_map, hg]
        have h2 : b'.meas = (odds groups).flatten := by
          rw [merge_meas hb, ← odds_map, hg]
        refine ⟨h1, h2, ?_, hsame.1.cells, hsame.2.cells, hsame.1.wf, hsame.2.wf⟩
        rw [h1, h2, ← List.flatten_append]
        have hall : groups.flatten.Perm d.meas := by
          show ((uniqueFirst col).map _).flatten.Perm d.meas
          rw [← List.flatMap_def, ← gather_flatMap]
          exact gather_perm (by rw [h.obsLen, ← hcl]; exact groups_perm_range col)
        exact ((evens_odds_perm groups).flatten).trans hall

/-! ### 7. time binning -/

/-- `bin_time(by, bins)`: the value of bin `b` at (observation i, channel j) is the mean of
    exactly the measurements of that observation and channel whose time label lies in the
    bin; observation and channel descriptors are untouched. -/
theorem bin_is_mean_of_bin [Add α] [Zero α] [Div α] [NatCast α] {d d' : DS α} {by_ : String}
    {col : Col} {bins : List (List Lbl)} (hcol : d.time.col by_ = some col)
    (hd' : binTime by_ bins d = some d') (i j b : Nat) (r : List (List α)) (cv : List α)
    (bin : List Lbl) (hr : d.meas[i]? = some r) (hcv : r[j]? = some cv) (hbin : bins[b]? = some bin)
    (hlen : col.length = cv.length) :
    (d'.meas[i]?).bind (fun r' => (r'[j]?).bind (fun c' => c'[b]?))
      = some (Rsa.mean (((col.zip cv).filter (fun lv => bin.contains lv.1)).map (·.2))) ∧
    d'.obs = d.obs ∧ d'.chan = d.chan ∧ d'.desc = d.desc := by
  unfold binTime at hd'
  simp only [hcol] at hd'
  split at hd'
  · simp only [Option.some.injEq] at hd'
    subst hd'
    refine ⟨?_, rfl, rfl, rfl⟩
    simp only [List.getElem?_map, hr, hcv, hbin, Option.map_some, Option.bind_some]
    rw [gather_indicesWhere _ col cv hlen]
  · simp at hd'

/-! ### 8. conversions between temporal and flat datasets -/

/-- `time_as_observations(by)`: the time points are visited grouped by value of `by`
    (each exactly once); in block `b` (time point `s`), row `b·n_obs + i`, column `j` holds the
    measurement (i, j, s) with the observation labels of `i`, the time labels of `s` and the
    channel labels of `j` — for all shapes, including n_obs = 1, n_chan = 1, n_time = 1. -/
theorem timeAsObs_entry {d d' : DS α} {no nc nt : Nat} (h : d.WF no nc nt) {by_ : String}
    {col : Col} (hcol : d.time.col by_ = some col) (hd' : timeAsObs by_ d = some d')
    (hdis : ∀ kc ∈ d.obs, kc.1 ∉ d.time.keys) :
    (taoOrder col).Perm (List.range nt) ∧ d'.WF ((taoOrder col).length * no) nc 1 ∧
    d'.temporal = false ∧
    ∀ b s i j c, (taoOrder col)[b]? = some s → cellAt d i j s = some c →
      cellAt d' (b * no + i) j 0 = some ⟨c.v, c.o ++ c.t, c.c, [], c.d⟩ := by
  have hcl : col.length = nt := h.timeT _ (col_mem hcol)
  refine ⟨hcl ▸ groups_perm_range col, timeAsObs_wf h hcol hd', ?_, ?_⟩
  · unfold timeAsObs at hd'
    simp only [hcol, Option.some.injEq] at hd'
    rw [← hd']
  · intro b s i j c hb hc
    have := timeAsObs_cellAt h hcol hd' b s i j hb c hc
    rw [Tbl.minus_of_disjoint hdis] at this
    obtain ⟨r, cv, v, _, _, _, rfl⟩ := cellAt_eq_some.1 hc
    exact this

/-- `time_as_channels()`: row `i`, column `j·n_time + t` holds the measurement (i, j, t) with
    the observation labels of `i` and the channel labels of `j` plus the time labels of `t`. -/
theorem timeAsChan_entry {d : DS α} {no nc nt : Nat} (h : d.WF no nc nt)
    (hdis : ∀ kc ∈ d.chan, kc.1 ∉ d.time.keys) :
    (timeAsChan d).WF no (d.nChan * d.nTime) 1 ∧ (timeAsChan d).temporal = false ∧
    ∀ i j t c, cellAt d i j t = some c →
      cellAt (timeAsChan d) i (j * nt + t) 0 = some ⟨c.v, c.o, c.c ++ c.t, [], c.d⟩ := by
  refine ⟨timeAsChan_wf h, rfl, ?_⟩
  intro i j t c hc
  have := timeAsChan_cellAt h i j t c hc
  rw [Tbl.minus_of_disjoint hdis] at this
  obtain ⟨r, cv, v, _, _, _, rfl⟩ := cellAt_eq_some.1 hc
  exact this

/-- helper: a labelled measurement exists only inside the shape -/
private theorem cell_bounds {d : DS α} {no nc nt : Nat} (h : d.WF no nc nt) {i j t : Nat} {c : Cell α}
    (hc : cellAt d i j t = some c) : i < no ∧ j < nc ∧ t < nt ∧ d.nTime = nt := by
  obtain ⟨r, cv, v, hr, hcv, hv, rfl⟩ := cellAt_eq_some.1 hc
  have hrm : r ∈ d.meas := List.mem_of_getElem? hr
  have hi : i < no := by rw [← h.obsLen]; exact (List.getElem?_eq_some_iff.1 hr).1
  have hj : j < nc := by rw [← h.chanLen r hrm]; exact (List.getElem?_eq_some_iff.1 hcv).1
  have ht : t < nt := by
    rw [← h.timeLen r hrm cv (List.mem_of_getElem? hcv)]; exact (List.getElem?_eq_some_iff.1 hv).1
  exact ⟨hi, hj, ht, nTime_eq h (by omega) (by omega)⟩

/-- **`time_as_channels()` flattens values and labels in the same index order** (round 5; depends on
    the generated leaves `tacFlat`, `tacChanOf`, `tacTimeOf`).  The values are flattened by
    `self.measurements.reshape(n_obs, -1)` — numpy's default `'C'` *index* order, which does not
    depend on the memory layout of the array (C, Fortran, a strided or reversed view, the transposed
    buffer `a[:, :, idx]` leaves behind) — the channel labels by `np.repeat(v, n_tps)` and the time
    labels by `np.tile(v, n_chans)`.  Then
    1. the column the reshape puts (channel `j`, time `t`) into is the column whose labels are those of
       channel `j` and time `t` (`tacChanOf (tacFlat j t) = j`, `tacTimeOf (tacFlat j t) = t`);
    2. that column of row `i` holds the measurement (i, j, t) with its observation, channel and time
       labels;
    3. conversely **every** column `q` of the result holds the measurement the source spells out for it
       (`tacSource`: observation `i`, channel `q // n_tps`, time `q % n_tps`) with exactly its labels.
    An `order=` other than `'C'` in the reshape (e.g. `'A'`, which follows the memory layout), a
    reshape of another array, or other repeat / tile arguments make the leaves underivable. -/
theorem timeAsChan_index_order {d : DS α} {no nc nt : Nat} (h : d.WF no nc nt)
    (hdis : ∀ kc ∈ d.chan, kc.1 ∉ d.time.keys) :
    (∀ i j t c, cellAt d i j t = some c →
      Rsa.Gen.C11.tacChanOf (tacColumn d j t) d.nTime = j ∧
      Rsa.Gen.C11.tacTimeOf (tacColumn d j t) d.nTime = t ∧
      cellAt (timeAsChan d) i (tacColumn d j t) 0 = some ⟨c.v, c.o, c.c ++ c.t, [], c.d⟩) ∧
    (∀ i q c, tacSource d i q = some c →
      cellAt (timeAsChan d) i q 0 = some ⟨c.v, c.o, c.c ++ c.t, [], c.d⟩) := by
  have hentry := (timeAsChan_entry h hdis).2.2
  constructor
  · intro i j t c hc
    obtain ⟨_, _, ht, hNT⟩ := cell_bounds h hc
    have hpos : 0 < nt := by omega
    simp only [tacColumn, Rsa.Gen.C11.tacFlat, Rsa.Gen.C11.tacChanOf, Rsa.Gen.C11.tacTimeOf, hNT]
    refine ⟨?_, ?_, hentry i j t c hc⟩
    · rw [Nat.add_comm, Nat.add_mul_div_right _ _ hpos, Nat.div_eq_of_lt ht, Nat.zero_add]
    · rw [Nat.add_comm, Nat.add_mul_mod_self_right, Nat.mod_eq_of_lt ht]
  · intro i q c hc
    unfold tacSource at hc
    obtain ⟨_, _, _, hNT⟩ := cell_bounds h hc
    simp only [Rsa.Gen.C11.tacChanOf, Rsa.Gen.C11.tacTimeOf, hNT] at hc
    have := hentry i (q / nt) (q % nt) c hc
    rwa [Nat.div_add_mod' q nt] at this

/-! ### 9. DataFrame round trip -/

/-- `Dataset.from_df(ds.to_df(key), channel_descriptor=key)`: measurements unchanged, channels
    named as before, the result is aligned and no row gets a label it did not carry (as
    observation or dataset label); conversely every dataset label and every observation label
    whose key is not also a dataset key is still carried by its row (possibly at the other
    level) — **also when descriptor columns hold missing values**: `from_df` counts distinct
    values with `unique()` (leaf `fromDfIsConst`), for which a missing entry is a value. -/
theorem df_roundtrip {d d' : DS α} {no nc nt : Nat} (h : d.WF no nc nt) {key : String} {names : Col}
    (hn : d.chan.col key = some names) (hd' : dfRoundTrip key d = some d') :
    d'.meas = d.meas ∧ d'.chan = [(key, names)] ∧ d'.time = d.time ∧
    (∃ no' nc' nt', d'.WF no' nc' nt') ∧
    (∀ c', IsCell d' c' → ∃ c, IsCell d c ∧ Sub c' c) ∧
    (∀ i, i < no → ∀ p ∈ d.desc, p ∈ d'.obs.row i ++ d'.desc) ∧
    (∀ i, i < no → ∀ p ∈ d.obs.row i, p.1 ∉ d.desc.map (·.1) → p ∈ d'.obs.row i ++ d'.desc) := by
  have hder := dfRoundTrip_derives ⟨no, nc, nt, h⟩ hd'
  unfold dfRoundTrip at hd'
  simp only [hn, Option.some.injEq] at hd'
  have keep : ∀ (k : String) (c : Col) (i : Nat) (x : Lbl), i < no → c.length = no → c[i]? = some x →
      (k, c) ∈ dfFrame d → (k, x) ∈ d'.obs.row i ++ d'.desc := by
    intro k c i x hi hlen hx hmem
    rw [← hd']
    simp only [List.mem_append]
    by_cases hu : isConstCol c = true
    · right
      have h0lt : 0 < c.length := by omega
      have h0 : c[0]? = some c[0] := List.getElem?_eq_getElem h0lt
      have : x = c[0] := isConstCol_all hu h0 x (List.mem_of_getElem? hx)
      subst this
      exact List.mem_filterMap.2 ⟨(k, c), hmem, by simp [hu, h0]⟩
    · left
      exact Tbl.mem_row.2 ⟨c, List.mem_filter.2 ⟨hmem, by simpa using hu⟩, hx⟩
  refine ⟨by rw [← hd'], by rw [← hd'], by rw [← hd'], hder.1, ?_, ?_, ?_⟩
  · intro c' hc'
    obtain ⟨x, hx, c, hc, hs⟩ := hder.2 c' hc'
    have : x = d := by simpa using hx
    subst this
    exact ⟨c, hc, hs⟩
  · intro i hi p hp
    obtain ⟨k, v⟩ := p
    apply keep k (List.replicate d.meas.length v) i v hi (by simp [h.obsLen])
      (by simp [List.getElem?_replicate, h.obsLen, hi])
    unfold dfFrame Tbl.update
    exact List.mem_append_right _ (List.mem_map.2 ⟨(k, v), hp, rfl⟩)
  · intro i hi p hp hk
    obtain ⟨k, x⟩ := p
    obtain ⟨c, hc, hx⟩ := Tbl.mem_row.1 hp
    apply keep k c i x hi (h.obsT _ hc) hx
    unfold dfFrame Tbl.update Tbl.minus
    apply List.mem_append_left
    apply List.mem_filter.2 ⟨hc, ?_⟩
    simpa [Tbl.keys, List.map_map, Function.comp] using hk

/-- **`from_df`'s classification of the descriptor columns, as coded**: a column of the frame
    becomes an observation descriptor — whole, in row order — iff it has more than one distinct
    value *counting a missing entry as a value*; otherwise it becomes a dataset descriptor with
    the value every row holds.  In particular a column that is constant except for missing
    entries (`['probe', None, 'probe']`) stays an observation descriptor. -/
theorem df_classification {d d' : DS α} {key : String} (hd' : dfRoundTrip key d = some d') :
    (∀ kc, kc ∈ d'.obs ↔ kc ∈ dfFrame d ∧ (uniqueFirst kc.2).length ≠ 1) ∧
    (∀ kc ∈ dfFrame d, (uniqueFirst kc.2).length = 1 → ∀ x, kc.2[0]? = some x →
        (kc.1, x) ∈ d'.desc ∧ ∀ y ∈ kc.2, y = x) ∧
    (∀ p ∈ d'.desc, ∃ c, (p.1, c) ∈ dfFrame d ∧ (uniqueFirst c).length = 1 ∧ ∀ y ∈ c, y = p.2) ∧
    (∀ kc ∈ dfFrame d, Lbl.na ∈ kc.2 → (∃ y ∈ kc.2, y ≠ Lbl.na) → kc ∈ d'.obs) := by
  unfold dfRoundTrip at hd'
  cases hn : d.chan.col key with
  | none => simp [hn] at hd'
  | some names =>
    simp only [hn, Option.some.injEq] at hd'
    subst hd'
    have hobs : ∀ kc, kc ∈ fromDfObs (dfFrame d) ↔ kc ∈ dfFrame d ∧ (uniqueFirst kc.2).length ≠ 1 := by
      intro kc
      unfold fromDfObs
      rw [List.mem_filter]
      constructor
      · rintro ⟨hm, hc⟩
        refine ⟨hm, fun hl => ?_⟩
        rw [isConstCol_iff.2 hl] at hc
        simp at hc
      · rintro ⟨hm, hc⟩
        refine ⟨hm, ?_⟩
        cases hcc : isConstCol kc.2 with
        | false => rfl
        | true => exact absurd (isConstCol_iff.1 hcc) hc
    refine ⟨hobs, ?_, ?_, ?_⟩
    · intro kc hkc hl x hx
      have hc := isConstCol_iff.2 hl
      exact ⟨List.mem_filterMap.2 ⟨kc, hkc, by simp [hc, hx]⟩, isConstCol_all hc hx⟩
    · intro p hp
      obtain ⟨kc, hkc, hkx⟩ := List.mem_filterMap.1 hp
      by_cases hc : isConstCol kc.2 = true
      · simp only [hc, if_true] at hkx
        cases h0 : kc.2[0]? with
        | none => simp [h0] at hkx
        | some x =>
          simp only [h0, Option.map_some, Option.some.injEq] at hkx
          subst hkx
          exact ⟨kc.2, hkc, isConstCol_iff.1 hc, isConstCol_all hc h0⟩
      · simp [hc] at hkx
    · intro kc hkc hna ⟨y, hy, hyn⟩
      apply (hobs kc).2 ⟨hkc, fun hl => ?_⟩
      have hc := isConstCol_iff.2 hl
      cases hcol : kc.2 with
      | nil => rw [hcol] at hna; simp at hna
      | cons x0 xs =>
        have h0 : kc.2[0]? = some x0 := by rw [hcol]; rfl
        have hall := isConstCol_all hc h0
        exact hyn ((hall y hy).trans (hall _ hna).symm)

/-- **the representable class of `Dataset.from_df(ds.to_df())` without a channel list** (the
    channels are then found by dtype: "float columns are interpreted as channels"), as a
    decidable predicate: `dfDefaultRepresentable` holds iff the round trip with explicit channels
    is representable (distinct channel names, none equal to a descriptor key) and **no
    descriptor column is float-typed** — a column is float-typed iff it is non-empty, holds only
    numbers / missing entries and at least one float-typed number or missing entry.  On that
    class the dtype scan returns exactly the measurement columns and the default round trip is
    the explicit one, so `df_roundtrip` and `df_classification` apply to it. -/
theorem df_default_class [Add α] [Zero α] [Div α] [NatCast α] {d : DS α} {key : String} {names : Col}
    (hn : d.chan.col key = some names) :
    (dfDefaultRepresentable key d = true ↔
      dfRepresentable key d = true ∧ ∀ kc ∈ dfFrame d, floatCol kc.2 = false) ∧
    (dfDefaultRepresentable key d = true → dfDefaultChannels names (dfFrame d) = names) ∧
    (∀ c : Col, floatCol c = true ↔
      c ≠ [] ∧ (∀ x ∈ c, x.isNumeric = true) ∧ ∃ x ∈ c, x.isFloaty = true) ∧
    (∀ (ws : List (DS α)) (i : Nat), ws[i]? = some d → dfDefaultRepresentable key d = true →
      applyOp ws (.dfDefault i key) = applyOp ws (.df i key) ∧
      applyOp ws (.df i key) = (dfRoundTrip key d).map (fun x => replaceAt ws i [x])) := by
  have hchan : dfDefaultChannels names (dfFrame d) = names ↔ ∀ kc ∈ dfFrame d, floatCol kc.2 = false := by
    unfold dfDefaultChannels
    rw [List.append_right_eq_self, List.map_eq_nil_iff, List.filter_eq_nil_iff]
    constructor
    · intro hh kc hkc
      simpa using hh kc hkc
    · intro hh kc hkc
      simp [hh kc hkc]
  have hiff : dfDefaultRepresentable key d = true ↔
      dfRepresentable key d = true ∧ ∀ kc ∈ dfFrame d, floatCol kc.2 = false := by
    unfold dfDefaultRepresentable
    simp only [hn, Bool.and_eq_true, beq_iff_eq]
    rw [hchan]
  refine ⟨hiff, fun hr => hchan.2 (hiff.1 hr).2, ?_, ?_⟩
  · intro c
    unfold floatCol
    simp only [Bool.and_eq_true, Bool.not_eq_true', List.isEmpty_eq_false_iff, List.all_eq_true,
      List.any_eq_true, ne_eq, and_assoc]
  · intro ws i hd hr
    have hr' := (hiff.1 hr).1
    simp only [applyOp, hd, Option.bind_some, hr, hr', if_true, and_self]

/-! ### 10. per-condition averages -/

/-- `average_dataset_by(ds, by)`: groups in order of first appearance; the average of group
    `u` in channel `j` is the mean of exactly the rows labelled `u`; the reported group size
    is their number. -/
theorem average_by_is_group_mean [Add α] [Zero α] [Div α] [NatCast α] {d : DS α} {by_ : String}
    {col : Col} {avg : List (List α)} {us : Col} {ns : List Nat}
    (hcol : d.obs.col by_ = some col) (hlen : col.length = d.meas.length)
    (ha : averageBy by_ d = some (avg, us, ns)) :
    us = uniqueFirst col ∧
    ∀ (a : Nat) (u : Lbl), us[a]? = some u → ∀ j, j < d.nChan →
      (avg[a]?).bind (fun row => row[j]?) = some (Rsa.mean
        ((((col.zip d.meas).filter (fun lr => lr.1 == u)).map (·.2)).filterMap
          (fun r => (r[j]?).bind (fun c => c[0]?)))) ∧
      ns[a]? = some (((col.zip d.meas).filter (fun lr => lr.1 == u)).length) := by
  unfold averageBy at ha
  simp only [hcol, Option.some.injEq, Prod.mk.injEq] at ha
  obtain ⟨havg, hus, hns⟩ := ha
  refine ⟨hus.symm, ?_⟩
  intro a u hu j hj
  rw [← hus] at hu
  have hlt : a < (uniqueFirst col).length := (List.getElem?_eq_some_iff.1 hu).1
  have hua : (uniqueFirst col)[a] = u := (List.getElem?_eq_some_iff.1 hu).2
  have hgrp : gather (selectionOf col a) d.meas
      = ((col.zip d.meas).filter (fun lr => lr.1 == u)).map (·.2) := by
    rw [selectionOf_eq col a hlt, hua]
    exact gather_indicesWhere _ col d.meas hlen
  simp only [selectionAvg_eq_selectionOf] at havg hns
  constructor
  · rw [← havg]
    simp only [List.getElem?_map, List.getElem?_zipIdx, hu, Option.map_some, Option.bind_some,
      Nat.zero_add, List.getElem?_range hj, hgrp]
  · rw [← hns]
    simp only [List.getElem?_map, List.getElem?_zipIdx, hu, Option.map_some, Nat.zero_add, hgrp,
      List.length_map]

/-- `get_measurements_tensor(by)`: slice `a` (the a-th distinct value `u`), channel `j` lists
    the measurements of exactly the rows labelled `u`, in original order. -/
theorem tensor_entry {d : DS α} {by_ : String} {col : Col} {t : List (List (List α))} {us : Col}
    (hcol : d.obs.col by_ = some col) (hlen : col.length = d.meas.length)
    (ht : tensorBy by_ d = some (t, us)) :
    us = uniqueFirst col ∧
    ∀ (a : Nat) (u : Lbl), us[a]? = some u → ∀ j, j < d.nChan →
      (t[a]?).bind (fun sl => sl[j]?) = some
        ((((col.zip d.meas).filter (fun lr => lr.1 == u)).map (·.2)).filterMap
          (fun r => (r[j]?).bind (fun c => c[0]?))) := by
  unfold tensorBy at ht
  simp only [hcol, Option.some.injEq, Prod.mk.injEq] at ht
  obtain ⟨htt, hus⟩ := ht
  refine ⟨hus.symm, ?_⟩
  intro a u hu j hj
  rw [← hus] at hu
  rw [← htt]
  simp only [List.getElem?_map, hu, Option.map_some, Option.bind_some, List.getElem?_range hj]
  rw [gather_indicesWhere _ col d.meas hlen]

/-! ### 11. the invariant over arbitrary operation sequences -/

/-- the hypothesis of the invariant is what the constructors check: an object that passes
    the executable alignment test `wfB` (descriptor lengths = axis lengths, rectangular
    array; the driver rejects every other initial object, as the real constructors do)
    is aligned. -/
theorem constructor_check_sound {d : DS α} (h : d.wfB = true) : WFex d :=
  ⟨_, _, _, wfB_sound h⟩


/-- For **every finite sequence** of the listed operations that keep measurement values
    (split / subset by observation, channel or time, sort_by, merge, odd-even and nested
    odd-even splits, time-as-observations / -channels, DataFrame round trip, copy, pick —
    everything except time binning, whose values are means, see `bin_is_mean_of_bin`) applied
    to a workspace that starts with one aligned dataset: every dataset of every reachable
    workspace is aligned (descriptor columns as long as their axis) and every labelled
    measurement in it is a measurement of the initial dataset with the same value that
    carries **no label it did not carry initially**. -/
theorem reachable_inv [Add α] [Zero α] [Div α] [NatCast α] (init : DS α) (hw : WFex init)
    (ops : List Op) (hops : ∀ o ∈ ops, keepsValues o) :
    ∀ d ∈ run [init] ops, WFex d ∧ ∀ c, IsCell d c → ∃ c0, IsCell init c0 ∧ Sub c c0 := by
  suffices H : ∀ (ops : List Op) (ws : List (DS α)), (∀ o ∈ ops, keepsValues o) →
      (∀ d ∈ ws, Derives [init] d) → ∀ d ∈ run ws ops, Derives [init] d by
    intro d hd
    have := H ops [init] hops (fun x hx => by
      have : x = init := by simpa using hx
      rw [this]; exact derives_self hw (by simp)) d hd
    refine ⟨this.1, fun c hc => ?_⟩
    obtain ⟨x, hx, c0, hc0, hs⟩ := this.2 c hc
    have : x = init := by simpa using hx
    subst this
    exact ⟨c0, hc0, hs⟩
  intro ops
  induction ops with
  | nil => intro ws _ hws d hd; exact hws d (by simpa [run] using hd)
  | cons o ops ih =>
    intro ws hk hws d hd
    simp only [run, List.foldl_cons] at hd
    have hk' : ∀ o' ∈ ops, keepsValues o' := fun o' ho' => hk o' (by simp [ho'])
    cases hstep : applyOp ws o with
    | none =>
      simp only [hstep, Option.getD_none] at hd
      exact ih ws hk' hws d hd
    | some ws' =>
      simp only [hstep, Option.getD_some] at hd
      apply ih ws' hk' ?_ d hd
      intro x hx
      have hder := applyOp_derives (fun y hy => (hws y hy).1) (hk o (by simp)) hstep x hx
      refine ⟨hder.1, fun c' hc' => ?_⟩
      obtain ⟨y, hy, c, hc, hs⟩ := hder.2 c' hc'
      obtain ⟨z, hz, c0, hc0, hs0⟩ := (hws y hy).2 c hc
      exact ⟨z, hz, c0, hc0, hs.trans hs0⟩


/-- The invariant for **every finite sequence of all listed operations, time binning included**.
    `Prov init E c` (Rsa/Lemmas/C11Bin.lean) is the "retained measurement or mean of cells" cell
    type: `c` is a measurement of the initial dataset with the same value and no label it did not
    carry (`Prov.kept`, the statement of `reachable_inv`), or (`Prov.mean`) its value is the mean
    of measurements `cs` that themselves have a provenance, and each of its labels is carried by
    **all** averaged measurements (observation, channel, dataset labels), or is a time-axis label
    of a measurement of the binned time series (first-of-bin descriptors), or has one of the keys
    `bin_time` writes synthetic values under (`binKeys ops`: `bins` and the `by` arguments of the
    binning steps of this very history).  Every dataset of every reachable workspace is aligned. -/
theorem reachable_inv_bin [Add α] [Zero α] [Div α] [NatCast α] (init : DS α) (hw : WFex init)
    (ops : List Op) :
    ∀ d ∈ run [init] ops, WFex d ∧ ∀ c, IsCell d c → Prov init (binKeys ops) c := by
  suffices H : ∀ (rest : List Op) (ws : List (DS α)), (∀ o ∈ rest, o ∈ ops) →
      (∀ d ∈ ws, WFex d ∧ ∀ c, IsCell d c → Prov init (binKeys ops) c) →
      ∀ d ∈ run ws rest, WFex d ∧ ∀ c, IsCell d c → Prov init (binKeys ops) c by
    apply H ops [init] (fun o ho => ho)
    intro x hx
    have : x = init := by simpa using hx
    subst this
    exact ⟨hw, fun c hc => Prov.kept c c hc (Sub.refl c)⟩
  intro rest
  induction rest with
  | nil => intro ws _ hws d hd; exact hws d (by simpa [run] using hd)
  | cons o rest ih =>
    intro ws hmem hws d hd
    simp only [run, List.foldl_cons] at hd
    have hmem' : ∀ o' ∈ rest, o' ∈ ops := fun o' ho' => hmem o' (by simp [ho'])
    cases hstep : applyOp ws o with
    | none =>
      simp only [hstep, Option.getD_none] at hd
      exact ih ws hmem' hws d hd
    | some ws' =>
      simp only [hstep, Option.getD_some] at hd
      apply ih ws' hmem' ?_ d hd
      exact applyOp_prov ⟨bins_mem_binKeys ops, fun i by_ bins ho =>
        by_mem_binKeys (ho ▸ hmem o (by simp))⟩ hws hstep

/-! ### frame: objects are values — an operation on one object leaves all others unchanged -/

/-- **Frame.**  An operation addressed to object `i` of the workspace (every operation except
    `merge` and `pick`, which consume the whole workspace) replaces that object by its `n` results
    and leaves **every other object `j ≠ i` exactly as it was** — measurements *and* every
    descriptor column: the objects before `i` keep their positions, the objects after `i` are
    shifted by `n - 1`.  In particular `sort_by` on one dataset (the only in-place operation of
    the library) cannot reorder the labels of the dataset it was derived from, nor of a sibling
    part, whatever the history that produced them: in the model objects are values.  The session
    correspondence re-reads every object of the real workspace after every step and compares all
    of them with the model's workspace, so shared mutable state on the real side (a descriptor
    dictionary handed on to a derived dataset and later written to) shows as a disagreement. -/
theorem applyOp_frame [Add α] [Zero α] [Div α] [NatCast α] {ws ws' : List (DS α)} {o : Op} {i : Nat}
    (ht : o.target = some i) (h : applyOp ws o = some ws') :
    ∃ n, ws'.length + 1 = ws.length + n ∧
      (∀ j, j < i → ws'[j]? = ws[j]?) ∧ (∀ j, i < j → ws'[j + n - 1]? = ws[j]?) := by
  rcases applyOp_shape ht h with rfl | ⟨d, new, hd, rfl⟩
  · exact ⟨1, rfl, fun _ _ => rfl, fun j _ => by simp⟩
  · have hi : i < ws.length := (List.getElem?_eq_some_iff.1 hd).1
    exact ⟨new.length, replaceAt_length hi, fun j hj => replaceAt_getElem?_lt hi hj,
      fun j hj => replaceAt_getElem?_gt hi hj⟩

/-- the in-place operation: `sort_by` on object `i` puts the stably sorted dataset at position `i`
    and every other object of the workspace is, position by position, what it was -/
theorem sortBy_frame [Add α] [Zero α] [Div α] [NatCast α] {ws ws' : List (DS α)} {i : Nat} {by_ : String}
    (h : applyOp ws (.sortBy i by_) = some ws') :
    ws'.length = ws.length ∧ (∀ j, j ≠ i → ws'[j]? = ws[j]?) ∧
      ∃ d, ws[i]? = some d ∧ ws'[i]? = sortBy by_ d := by
  simp only [applyOp] at h
  cases hd : ws[i]? with
  | none => simp [hd] at h
  | some d =>
    simp only [hd, Option.bind_some] at h
    cases hs : sortBy by_ d with
    | none => simp [hs] at h
    | some x =>
      simp only [hs, Option.map_some, Option.some.injEq] at h
      subst h
      have hi : i < ws.length := (List.getElem?_eq_some_iff.1 hd).1
      refine ⟨?_, fun j hj => ?_, d, rfl, ?_⟩
      · have := replaceAt_length (new := [x]) hi
        simp only [List.length_cons, List.length_nil] at this
        omega
      · rcases Nat.lt_or_gt_of_ne hj with hj | hj
        · exact replaceAt_getElem?_lt hi hj
        · simpa using replaceAt_getElem?_gt (new := [x]) hi hj
      · rw [hs]; simpa using replaceAt_getElem?_new (new := [x]) (k := 0) hi (by simp)

/-- a value-returning operation whose caller keeps the source (`applyKeep`: the session form of
    `parts = ds.split_channel(by)` with `ds` still in use): the source stays at position `i`
    unchanged, the `n` results follow it, and every other object is unchanged -/
theorem keep_frame [Add α] [Zero α] [Div α] [NatCast α] {ws ws' : List (DS α)} {o : Op} {i : Nat}
    (ht : o.target.isSome = true) (h : applyKeep ws i o = some ws') :
    ∃ d n, ws[i]? = some d ∧ ws'.length = ws.length + n ∧
      (∀ j, j ≤ i → ws'[j]? = ws[j]?) ∧ (∀ j, i < j → ws'[j + n]? = ws[j]?) := by
  unfold applyKeep at h
  simp only [applyOp] at h
  cases hd : ws[i]? with
  | none => simp [hd] at h
  | some d =>
    simp only [hd, Option.map_some, Option.bind_some] at h
    have hi : i < ws.length := (List.getElem?_eq_some_iff.1 hd).1
    have htt : (o.retarget (i + 1)).target = some (i + 1) := by
      cases o <;> simp_all [Op.target, Op.retarget]
    obtain ⟨n, hlen, hlt, hgt⟩ := applyOp_frame htt h
    have hwl := replaceAt_length (new := [d, d]) hi
    simp only [List.length_cons, List.length_nil] at hwl
    refine ⟨d, n, rfl, by omega, fun j hj => ?_, fun j hj => ?_⟩
    · rw [hlt j (by omega)]
      rcases Nat.lt_or_eq_of_le hj with hj | rfl
      · exact replaceAt_getElem?_lt hi hj
      · simpa [hd] using replaceAt_getElem?_new (new := [d, d]) (k := 0) hi (by simp)
    · have h1 := hgt (j + 1) (by omega)
      have h2 := replaceAt_getElem?_gt (new := [d, d]) hi hj
      simp only [List.length_cons, List.length_nil] at h2
      have e1 : j + 1 + n - 1 = j + n := by omega
      have e2 : j + (0 + 1 + 1) - 1 = j + 1 := by omega
      rw [e1] at h1
      rw [e2] at h2
      rw [h1, h2]


/-! ### non-vacuity: the hypotheses are met by concrete, non-trivial objects -/

/-- flat dataset, 4 observations (two conditions, duplicate labels) × 2 channels -/
def ex : DS Rat :=
  { temporal := false
    meas := [[[11], [12]], [[21], [22]], [[31], [32]], [[41], [42]]]
    desc := [("sub", .num 1)]
    obs := [("c", [.str "b", .str "a", .str "b", .str "a"]), ("r", [.num 2, .num 1, .num 1, .num 2])]
    chan := [("n", [.str "x", .str "y"])]
    time := [] }

/-- temporal dataset, 2 observations × 1 channel × 3 time points (a size-1 axis) -/
def exT : DS Rat :=
  { temporal := true
    meas := [[[111, 112, 113]], [[211, 212, 213]]]
    desc := [("sub", .num 2)]
    obs := [("c", [.num 1, .num 0])]
    chan := [("g", [.num 7])]
    time := [("time", [.num 0, .num 5, .num 10])] }

theorem ex_wf : ex.WF 4 2 1 := by
  refine ⟨rfl, ?_, ?_, ?_, ?_, ?_⟩ <;> simp [ex, Tbl.wf]
theorem exT_wf : exT.WF 2 1 3 := by
  refine ⟨rfl, ?_, ?_, ?_, ?_, ?_⟩ <;> simp [exT, Tbl.wf]

-- split_partitions / merge_split_multiset / odd_even_partition: two groups, four rows
example : ex.obs.col "c" = some [.str "b", .str "a", .str "b", .str "a"] := by decide
example : (splitObs "c" ex).map (·.length) = some 2 := by decide
example : ((splitObs "r" ex).bind merge).map (·.meas)
    = some [[[11], [12]], [[41], [42]], [[21], [22]], [[31], [32]]] := by decide
example : (oddEven "c" ex).map (fun p => (p.1.meas.length, p.2.meas.length)) = some (2, 2) := by decide
-- merge_split_columns: unique keys; split_channel_partitions / tensor_entry / constructor_check_sound
example : (ex.obs.map (·.1)).Nodup := by decide
example : (splitChan "n" ex).map (·.length) = some 2 := by decide
example : (tensorBy "c" ex).map (·.1) = some [[[11, 31], [12, 32]], [[21, 41], [22, 42]]] := by decide
example : ex.wfB = true ∧ exT.wfB = true := by decide
example : (splitTime "time" exT).map (·.length) = some 3 := by decide
-- subset_exact_in_order / sort_stable_perm
example : (subsetObs "c" [.str "a"] ex).map (·.meas) = some [[[21], [22]], [[41], [42]]] := by decide
example : (sortBy "c" ex).isSome = true := by decide
example : (subsetTime "time" (.num 5) (.num 10) exT).map (·.time) = some [("time", [.num 5, .num 10])] := by
  decide
-- bin_is_mean_of_bin (a bin of two time points and a bin of one)
example : (binTime "time" [[.num 0, .num 5], [.num 10]] exT).map (·.meas)
    = some [[[(223 : Rat) / 2, 113]], [[(423 : Rat) / 2, 213]]] := by decide +kernel
-- timeAsObs_entry / timeAsChan_entry on a single-channel dataset; key sets are disjoint
example : (timeAsObs "time" exT).map (·.meas)
    = some [[[111]], [[211]], [[112]], [[212]], [[113]], [[213]]] := by decide
example : ∀ kc ∈ exT.obs, kc.1 ∉ exT.time.keys := by decide
example : ∀ kc ∈ exT.chan, kc.1 ∉ exT.time.keys := by decide
example : (timeAsChan exT).meas = [[[111], [112], [113]], [[211], [212], [213]]] := by decide
/-- a single observation × 2 channels × 3 time points: the shape on which numpy's `a[:, :, idx]` leaves a
    Fortran-contiguous buffer -/
def exL : DS Rat :=
  { temporal := true
    meas := [[[1, 2, 3], [4, 5, 6]]]
    desc := []
    obs := [("c", [.num 0])]
    chan := [("n", [.str "x", .str "y"])]
    time := [("time", [.num 0, .num 1, .num 2])] }
-- timeAsChan_index_order on it: (channel 1, time 0) goes to column 3, which carries the labels y / 0
example : ∀ kc ∈ exL.chan, kc.1 ∉ exL.time.keys := by decide
example : tacColumn exL 1 0 = 3 ∧
    (tacSource exL 0 3).map (fun c => (c.v, c.c, c.t)) = some (4, [("n", .str "y")], [("time", .num 0)]) ∧
    (cellAt (timeAsChan exL) 0 3 0).map (fun c => (c.v, c.c))
      = some (4, [("n", .str "y"), ("time", .num 0)]) := by decide +kernel
-- timeAsChan_index_order: column 2 of the result is (channel 0, time 2) of the source, and back
example : tacColumn exT 0 2 = 2 ∧ (tacSource exT 1 2).map (·.v) = some 213 ∧
    (cellAt (timeAsChan exT) 1 2 0).map (·.v) = some 213 := by decide +kernel
-- df_roundtrip / average_by_is_group_mean
example : (dfRoundTrip "n" ex).map (·.desc) = some [("sub", .num 1)] := by decide
example : (averageBy "c" ex).map (·.1) = some [[21, 22], [31, 32]] := by decide +kernel
-- reachable_inv: an aligned initial dataset and a value-keeping history that really runs
example : WFex ex := ⟨4, 2, 1, ex_wf⟩
example : ∀ o ∈ [Op.splitObs 0 "c", .merge, .subsetObs 0 "c" [.str "a"], .df 0 "n"], keepsValues o := by
  simp [keepsValues]
example : (run [ex] [Op.splitObs 0 "c", .pick 1, .subsetObs 0 "r" [.num 1]]).map (·.meas)
    = [[[[21], [22]]]] := by decide

-- reachable_inv_bin: a history with a binning step that really runs (and is then converted)
example : (run [exT] [Op.binTime 0 "time" [[.num 0, .num 5], [.num 10]], .timeAsObs 0 "time"]).map (·.meas)
    = [[[[(223 : Rat) / 2]], [[(423 : Rat) / 2]], [[113]], [[213]]]] := by decide +kernel
example : binKeys [Op.binTime 0 "time" [[.num 0, .num 5], [.num 10]], .timeAsObs 0 "time"] = ["time", "bins"] := by
  decide

/-- flat dataset with a column that is constant except for a missing entry (`m`), a float-typed
    column (`f`) and an integer column -/
def exM : DS Rat :=
  { temporal := false
    meas := [[[11], [12]], [[21], [22]], [[31], [32]]]
    desc := [("sub", .num 1)]
    obs := [("m", [.str "probe", .na, .str "probe"]), ("f", [.flt (3 / 2), .flt 2, .flt 2]), ("i", [.num 0, .num 1, .num 2])]
    chan := [("n", [.str "x", .str "y"])]
    time := [] }

-- df_classification: `m` stays an observation descriptor, complete; `sub` stays a dataset descriptor
example : (dfRoundTrip "n" exM).map (fun d => (d.obs.map (·.1), d.desc))
    = some (["m", "f", "i"], [("sub", .num 1)]) := by decide +kernel
example : (dfRoundTrip "n" exM).bind (fun d => d.obs.col "m") = some [.str "probe", .na, .str "probe"] := by
  decide +kernel
-- df_default_class: the float column puts `exM` outside the class of the dtype-driven round trip,
-- without it (and also with the missing-value *string* column) the dataset is inside; an integral
-- float (2.0) is still a float
example : dfRepresentable "n" exM = true ∧ dfDefaultRepresentable "n" exM = false := by decide +kernel
example : dfDefaultRepresentable "n" { exM with obs := exM.obs.filter (fun kc => kc.1 ≠ "f") } = true := by decide +kernel
example : floatCol [.flt 2, .flt 2] = true ∧ floatCol [.num 2, .num 2] = false ∧
    floatCol [.str "a", .na] = false ∧ floatCol [.num 1, .na] = true := by decide +kernel
example : dfRepresentable "n" { exM with chan := [("n", [.str "x", .str "m"])] } = false := by decide +kernel

-- applyOp_frame / sortBy_frame / keep_frame: sorting one of two objects leaves the other as it
-- was; a channel split whose source is kept: source first, then the parts, the bystander last
example : (Op.sortBy 0 "c").target = some 0 ∧ (Op.splitChan 3 "n").target.isSome = true := by decide
example : (applyOp [exT, ex] (.sortBy 0 "c")).bind (fun w => w[1]?.map (fun d => (d.obs.col "c", d.meas.map (·.flatten))))
    = some (some [.str "b", .str "a", .str "b", .str "a"], [[11, 12], [21, 22], [31, 32], [41, 42]]) := by
  decide +kernel
example : (applyKeep [ex, exT] 0 (.splitChan 0 "n")).map (fun w => w.map (fun d => d.meas.map (·.flatten)))
    = some [[[11, 12], [21, 22], [31, 32], [41, 42]], [[11], [21], [31], [41]], [[12], [22], [32], [42]],
            [[111, 112, 113], [211, 212, 213]]] := by
  decide +kernel

/-! ### 14. non-finite measurements (round 7): the indicator argument

The model only gathers cells and takes means (positive weights).  Run on the INDICATOR of the cells
that hold a non-finite value (1 there, 0 elsewhere) -- the measurement values never decide what is
selected -- the group mean `Rsa.mean` of `average_by_is_group_mean` / `bin_is_mean_of_bin` is
positive exactly when one of the group's OWN cells is marked, and zero exactly when none is.  So
"a group's mean is NaN iff one of its own cells is NaN" is the proved group-mean statement read on
indicators (plus IEEE: a sum is NaN iff a summand is, or both infinities occur). -/

theorem sum_nonneg_of_nonneg {K : Type} [Field K] [LinearOrder K] [IsStrictOrderedRing K]
    (l : List K) (h : ∀ x ∈ l, 0 ≤ x) : 0 ≤ l.sum := by
  induction l with
  | nil => simp
  | cons a t ih =>
    rw [List.sum_cons]
    exact add_nonneg (h a (by simp)) (ih (fun x hx => h x (by simp [hx])))

theorem indicator_sum_pos_iff {K : Type} [Field K] [LinearOrder K] [IsStrictOrderedRing K]
    (l : List K) (h : ∀ x ∈ l, 0 ≤ x) : 0 < l.sum ↔ ∃ x ∈ l, 0 < x := by
  induction l with
  | nil => simp
  | cons a t ih =>
    have ht : ∀ x ∈ t, 0 ≤ x := fun x hx => h x (by simp [hx])
    have ha : 0 ≤ a := h a (by simp)
    have hs := sum_nonneg_of_nonneg t ht
    rw [List.sum_cons]
    constructor
    · intro hpos
      rcases lt_or_eq_of_le ha with hlt | heq
      · exact ⟨a, by simp, hlt⟩
      · rw [← heq, zero_add] at hpos
        obtain ⟨x, hx, hx0⟩ := (ih ht).1 hpos
        exact ⟨x, by simp [hx], hx0⟩
    · rintro ⟨x, hx, hx0⟩
      rcases List.mem_cons.1 hx with rfl | hxt
      · exact add_pos_of_pos_of_nonneg hx0 hs
      · exact add_pos_of_nonneg_of_pos ha ((ih ht).2 ⟨x, hxt, hx0⟩)

/-- the mean of a non-empty group of indicator values (each `0 ≤ x`) is positive iff one of the
    group's own members is marked; hence it is `0` iff none is -/
theorem indicator_mean_pos_iff {K : Type} [Field K] [LinearOrder K] [IsStrictOrderedRing K]
    (l : List K) (h : ∀ x ∈ l, 0 ≤ x) (hne : l ≠ []) : 0 < Rsa.mean l ↔ ∃ x ∈ l, 0 < x := by
  have hlen : (0 : K) < (l.length : K) := by
    have : 0 < l.length := List.length_pos_iff.2 hne
    exact_mod_cast this
  unfold Rsa.mean
  rw [div_pos_iff_of_pos_right hlen]
  exact indicator_sum_pos_iff l h

-- non-vacuity: a marked cell in the group makes the mean positive, a marked cell elsewhere does not
example : (0 : Rat) < Rsa.mean [0, 1, 0] ∧ ¬ (0 : Rat) < Rsa.mean [0, 0] := by
  constructor <;> decide +kernel

end Rsa.Props.C11
