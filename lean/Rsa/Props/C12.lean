/-
  Property C12 — value-returning operations neither modify nor alias their inputs.
  Property theorems only; the heap model is `Rsa/Core/Heap.lean`, helper lemmas are in
  `Rsa/Lemmas/C12.lean`.  (Core Lean suffices; no Mathlib import is needed.)

  Reading guide.  `reach h r` is everything readable through the object at `r`; `wr h r ⊆ reach h r`
  is the footprint the documented in-place operations (array write, `reorder`, `sort_by`,
  `append`, dataset `sort_by`) may write.  `Sep h as bs` says that no footprint location of one
  side is readable from the other side; `sepB` is its executable form, evaluated by the driver on
  the heap observed in the real interpreter.  `contentSide h bs` is the labelled content of the
  objects `bs`.
-/
import Rsa.Lemmas.C12

set_option linter.unusedSectionVars false
set_option linter.unusedVariables false

namespace Rsa.Props.C12

open Rsa.Heap

/-- every instruction writes only into the footprint of its receiver or into fresh locations -/
theorem exec_frame (h : Heap) (a : Loc) (i : Instr) (l : Loc) (hl : l < h.next)
    (hw : l ∉ wr h a) : (exec h a i).cells l = h.cells l :=
  Rsa.Heap.exec_frame h a i l hl hw

/-- … hence so does every documented in-place operation, whatever its arguments -/
theorem step_frame (h : Heap) (a : Loc) (op : Op) (l : Loc) (hl : l < h.next)
    (hw : l ∉ wr h a) : (step h a op).cells l = h.cells l :=
  execAll_frame h a (compile h a op) l hl hw

/-- one in-place operation on an object of one side leaves the labelled content of the other
    side unchanged and re-establishes separation (so the argument repeats) -/
theorem step_preserves_sep (h : Heap) (as bs : List Loc) (hi : Inv h as bs) (a : Loc)
    (ha : a ∈ as) (op : Op) :
    contentSide (step h a op) bs = contentSide h bs ∧ Inv (step h a op) as bs :=
  step_side h as bs hi a ha op

/-- **frame**: after *any finite sequence* of in-place operations on objects of side `as`, the
    labelled content of side `bs` is what it was, and the sides are still separated -/
theorem frame (h : Heap) (as bs : List Loc) (hi : Inv h as bs) (ops : List (Loc × Op))
    (hops : ∀ s ∈ ops, s.1 ∈ as) :
    contentSide (run h ops) bs = contentSide h bs ∧ Inv (run h ops) as bs := by
  induction ops generalizing h with
  | nil => exact ⟨rfl, hi⟩
  | cons s rest ih =>
    obtain ⟨a, op⟩ := s
    have ha : a ∈ as := hops (a, op) (by simp)
    obtain ⟨hc, hi'⟩ := step_side h as bs hi a ha op
    obtain ⟨hc2, hi2⟩ := ih (step h a op) hi' (fun s hs => hops s (by simp [hs]))
    exact ⟨by simp only [run]; rw [hc2, hc], by simpa only [run] using hi2⟩

/-- a step of an interleaved history: on which side, on which object, which operation -/
structure HStep where
  onA : Bool
  root : Loc
  op : Op

def runH (h : Heap) : List HStep → Heap
  | [] => h
  | s :: rest => runH (step h s.root s.op) rest

/-- the step operates on an object of the side it names -/
def ValidH (as bs : List Loc) (s : HStep) : Prop :=
  (s.onA = true → s.root ∈ as) ∧ (s.onA = false → s.root ∈ bs)

theorem runH_append (h : Heap) (pre : List HStep) (s : HStep) :
    runH h (pre ++ [s]) = step (runH h pre) s.root s.op := by
  induction pre generalizing h with
  | nil => rfl
  | cons t pre ih => simp only [List.cons_append, runH]; exact ih _

theorem inv_runH (h : Heap) (as bs : List Loc) (hi : Inv h as bs) (hist : List HStep)
    (hv : ∀ s ∈ hist, ValidH as bs s) : Inv (runH h hist) as bs := by
  induction hist generalizing h with
  | nil => exact hi
  | cons s rest ih =>
    simp only [runH]
    apply ih
    · cases hs : s.onA with
      | true => exact (step_side h as bs hi s.root ((hv s (by simp)).1 hs) s.op).2
      | false => exact (step_side h bs as hi.symm s.root ((hv s (by simp)).2 hs) s.op).2.symm
    · exact fun t ht => hv t (by simp [ht])

/-- **non-interference for every later history**: in any interleaving of in-place operations
    on the two sides, a step on one side never alters the labelled content of the other -/
theorem frame_history (h : Heap) (as bs : List Loc) (hi : Inv h as bs) (pre : List HStep)
    (s : HStep) (hv : ∀ t ∈ pre ++ [s], ValidH as bs t) :
    (s.onA = true → contentSide (runH h (pre ++ [s])) bs = contentSide (runH h pre) bs) ∧
    (s.onA = false → contentSide (runH h (pre ++ [s])) as = contentSide (runH h pre) as) := by
  have hpre : Inv (runH h pre) as bs :=
    inv_runH h as bs hi pre (fun t ht => hv t (by simp [ht]))
  have hs := hv s (by simp)
  rw [runH_append]
  exact ⟨fun e => (step_side _ as bs hpre s.root (hs.1 e) s.op).1,
         fun e => (step_side _ bs as hpre.symm s.root (hs.2 e) s.op).1⟩

/-! ### producers -/

theorem buildFields_fresh (src : List (String × Field)) (specs : List (String × FieldSpec))
    (hf : specs.all (fun q => q.2.isFresh) = true) (c : Loc → Cell) (n : Nat) :
    ∃ c' n' fs, buildFields src c n specs = (c', n', fs) ∧ n ≤ n' ∧
      (∀ l, l < n → c' l = c l) ∧ (∀ p ∈ fs, ∀ x ∈ fieldLocs p.2, n ≤ x ∧ x < n') := by
  induction specs generalizing c n with
  | nil => exact ⟨c, n, [], rfl, Nat.le_refl n, fun _ _ => rfl, by simp⟩
  | cons q rest ih =>
    obtain ⟨name, spec⟩ := q
    simp only [List.all_cons, Bool.and_eq_true] at hf
    cases spec with
    | share sf => simp [FieldSpec.isFresh] at hf
    | freshArr shape vals =>
      obtain ⟨c', n', fs, heq, h1, h2, h3⟩ :=
        ih hf.2 (writeVals c (List.range' n vals.length) vals) (n + vals.length)
      refine ⟨c', n', (name, .arr shape (List.range' n vals.length)) :: fs, ?_, by omega, ?_, ?_⟩
      · simp only [buildFields, heq]
      · intro l hl
        rw [h2 l (by omega)]
        apply writeVals_other
        simp only [List.mem_range'_1]
        omega
      · intro p hp x hx
        simp only [List.mem_cons] at hp
        rcases hp with hp | hp
        · subst hp
          simp only [fieldLocs, List.mem_range'_1] at hx
          omega
        · have := h3 p hp x hx
          omega
    | freshDict d =>
      obtain ⟨c', n', fs, heq, h1, h2, h3⟩ := ih hf.2 (upd c n (.dict d)) (n + 1)
      refine ⟨c', n', (name, .dict n) :: fs, ?_, by omega, ?_, ?_⟩
      · simp only [buildFields, heq]
      · intro l hl
        rw [h2 l (by omega)]
        exact upd_other (by omega)
      · intro p hp x hx
        simp only [List.mem_cons] at hp
        rcases hp with hp | hp
        · subst hp
          simp only [fieldLocs, List.mem_singleton] at hx
          omega
        · have := h3 p hp x hx
          omega

/-- a producer that allocates every attribute of its result freshly and executes no write on
    its source leaves the source's labelled content unchanged and returns an object separated
    from it -/
theorem fresh_producer_sep (h : Heap) (a : Loc) (hc : Closed h [a]) (p : Producer)
    (hp : p.fresh = true) :
    content (produce h a p).1 a = content h a ∧ Inv (produce h a p).1 [a] [(produce h a p).2] := by
  simp only [Producer.fresh, Bool.and_eq_true, List.isEmpty_iff] at hp
  obtain ⟨hw, hf⟩ := hp
  have hclosed : ∀ l ∈ reach h a, l < h.next := by
    intro l hl; exact hc l (by simp [reachSide, hl])
  obtain ⟨c, n, fs, hbf, b1, b2, b3⟩ :=
    buildFields_fresh (fieldsOf (h.cells a)) p.fields hf h.cells h.next
  have hprod : produce h a p = ({ cells := upd c n (.obj fs), next := n + 1 }, n) := by
    simp [produce, hw, execAll, hbf]
  rw [hprod]
  simp only
  have hold : ∀ l, l < h.next → upd c n (.obj fs) l = h.cells l := by
    intro l hl
    rw [upd_other (by omega), b2 l hl]
  obtain ⟨hca, hra, hwa⟩ := content_congr h { cells := upd c n (.obj fs), next := n + 1 } a
    (fun l hl => hold l (hclosed l hl))
  have hrb : ∀ l ∈ reach { cells := upd c n (.obj fs), next := n + 1 } n, h.next ≤ l ∧ l < n + 1 := by
    intro l hl
    simp only [reach, upd_same, List.mem_cons, cellReach, fieldsOf, List.mem_flatMap] at hl
    rcases hl with hl | ⟨q, hq, hl⟩
    · omega
    · have := b3 q hq l hl
      omega
  refine ⟨hca, ⟨?_, ?_⟩, ?_, ?_⟩
  · intro l hl
    simp only [wrSide, List.flatMap_cons, List.flatMap_nil, List.append_nil, hwa] at hl
    simp only [reachSide, List.flatMap_cons, List.flatMap_nil, List.append_nil]
    intro hc2
    have := hclosed l (wr_subset_reach h a l hl)
    have := hrb l hc2
    omega
  · intro l hl
    simp only [wrSide, List.flatMap_cons, List.flatMap_nil, List.append_nil] at hl
    simp only [reachSide, List.flatMap_cons, List.flatMap_nil, List.append_nil, hra]
    intro hc2
    have := hclosed l hc2
    have := hrb l (wr_subset_reach _ n l hl)
    omega
  · intro l hl
    simp only [reachSide, List.flatMap_cons, List.flatMap_nil, List.append_nil, hra] at hl
    have := hclosed l hl
    show l < n + 1
    omega
  · intro l hl
    simp only [reachSide, List.flatMap_cons, List.flatMap_nil, List.append_nil] at hl
    exact (hrb l hl).2

/-- **the property for a conforming producer**: the call leaves its argument unchanged, and in
    every later interleaved history of in-place operations on the argument and on the result,
    no step on one alters the labelled content of the other -/
theorem fresh_producer_safe (h : Heap) (a : Loc) (hc : Closed h [a]) (p : Producer)
    (hp : p.fresh = true) (pre : List HStep) (s : HStep)
    (hv : ∀ t ∈ pre ++ [s], ValidH [a] [(produce h a p).2] t) :
    content (produce h a p).1 a = content h a ∧
    (s.onA = true → contentSide (runH (produce h a p).1 (pre ++ [s])) [(produce h a p).2]
        = contentSide (runH (produce h a p).1 pre) [(produce h a p).2]) ∧
    (s.onA = false → contentSide (runH (produce h a p).1 (pre ++ [s])) [a]
        = contentSide (runH (produce h a p).1 pre) [a]) := by
  obtain ⟨h1, h2⟩ := fresh_producer_sep h a hc p hp
  exact ⟨h1, frame_history _ [a] [(produce h a p).2] h2 pre s hv⟩

/-- the model of `RDMs.copy()` / `deepcopy`: every attribute re-allocated with the same content -/
def copyProducer (c : List (String × Content)) : Producer :=
  { srcWrites := [],
    fields := c.map (fun q => (q.1, match q.2 with
      | .arr shape vals => FieldSpec.freshArr shape vals
      | .dict d => FieldSpec.freshDict d)) }

theorem copy_is_fresh (c : List (String × Content)) : (copyProducer c).fresh = true := by
  simp only [copyProducer, Producer.fresh, List.isEmpty_nil, Bool.true_and, List.all_map,
    List.all_eq_true]
  intro q _
  obtain ⟨n, x⟩ := q
  cases x <;> simp [Function.comp, FieldSpec.isFresh]

/-! ### witnesses: the sharing the pinned tree has, and what it does -/

/-- a parent `RDMs` object: 1 RDM over 3 conditions labelled b, a, c -/
def parentHeap : Heap :=
  { cells := fun l => match l with
      | 0 => .obj [("dissimilarities", .arr [1, 3] [1, 2, 3]), ("descriptors", .dict 4),
                   ("rdm_descriptors", .dict 5), ("pattern_descriptors", .dict 6)]
      | 1 => .val "1.0" | 2 => .val "2.0" | 3 => .val "-3.0"
      | 4 => .dict [("subj", ["7"])]
      | 5 => .dict [("name", ["r0"]), ("index", ["0"])]
      | 6 => .dict [("cond", ["b", "a", "c"]), ("index", ["0", "1", "2"])]
      | _ => .free,
    next := 7 }

/-- `RDMs.subset` / `__getitem__` as coded on the pinned tree: new vectors and rdm descriptors,
    but the parent's `descriptors` and `pattern_descriptors` dictionaries handed to the child -/
def subsetAsCoded : Producer :=
  { srcWrites := [],
    fields := [("dissimilarities", .freshArr [1, 3] ["1.0", "2.0", "-3.0"]),
               ("descriptors", .share "descriptors"),
               ("rdm_descriptors", .freshDict [("name", ["r0"]), ("index", ["0"])]),
               ("pattern_descriptors", .share "pattern_descriptors")] }

/-- the same operation with the repair (own copies of the dictionaries) -/
def subsetRepaired : Producer := copyProducer (content parentHeap 0)

/-- with the sharing of the pinned tree, sorting the *child* relabels the *parent*:
    a concrete two-step history (replayed on the implementation by the corpus witness) -/
theorem shared_dict_counterexample :
    let hc := produce parentHeap 0 subsetAsCoded
    subsetAsCoded.fresh = false ∧ sepB hc.1 [0] [hc.2] = false ∧
    content (step hc.1 hc.2 (.sortBy "cond" ["a", "b", "c"] true)) 0 ≠ content hc.1 0 ∧
    readDict (step hc.1 hc.2 (.sortBy "cond" ["a", "b", "c"] true)) 0 "pattern_descriptors"
      = [("cond", ["a", "b", "c"]), ("index", ["0", "1", "2"])] ∧
    (readArr (step hc.1 hc.2 (.sortBy "cond" ["a", "b", "c"] true)) 0 "dissimilarities").2
      = ["1.0", "2.0", "-3.0"] := by
  decide +kernel

/-- … and with the repair the same history leaves the parent alone (non-vacuity of
    `fresh_producer_safe`: a concrete object satisfies its hypotheses) -/
example :
    let hc := produce parentHeap 0 subsetRepaired
    subsetRepaired.fresh = true ∧ sepB hc.1 [0] [hc.2] = true ∧
    content hc.1 hc.2 = content parentHeap 0 ∧
    content (step hc.1 hc.2 (.sortBy "cond" ["a", "b", "c"] true)) 0 = content parentHeap 0 ∧
    readDict (step hc.1 hc.2 (.sortBy "cond" ["a", "b", "c"] true)) hc.2 "pattern_descriptors"
      = [("cond", ["a", "b", "c"]), ("index", ["0", "1", "2"])] ∧
    (readArr (step hc.1 hc.2 (.sortBy "cond" ["a", "b", "c"] true)) hc.2 "dissimilarities").2
      = ["1.0", "-3.0", "2.0"] := by
  decide +kernel

theorem parent_closed : Closed parentHeap [0] := by
  intro l hl
  have : l ∈ [0, 1, 2, 3, 4, 5, 6] := by simpa [reachSide, reach, cellReach, fieldsOf, parentHeap, fieldLocs] using hl
  simp only [List.mem_cons, List.mem_nil_iff, or_false] at this
  show l < 7
  omega

/-- non-vacuity of `frame` / `frame_history` / `fresh_producer_safe`: the repaired `subset` of the
    concrete parent satisfies their hypothesis `Inv` (3 conditions, 1 RDM, shared nothing) -/
example : Inv (produce parentHeap 0 subsetRepaired).1 [0] [(produce parentHeap 0 subsetRepaired).2] :=
  (fresh_producer_sep parentHeap 0 parent_closed subsetRepaired (copy_is_fresh _)).2

/-- `sqrt_transform` / `positive_transform` as they were coded before the repair: the clamp
    `dissimilarities[dissimilarities < 0] = 0` is an element write into the *source's* array,
    and (`positive_transform`) the result is built on that very array -/
def positiveTransformAsCoded : Producer :=
  { srcWrites := [.setEls "dissimilarities" ["1.0", "2.0", "0.0"]],
    fields := [("dissimilarities", .share "dissimilarities"),
               ("descriptors", .freshDict [("subj", ["7"])]),
               ("rdm_descriptors", .freshDict [("name", ["r0"]), ("index", ["0"])]),
               ("pattern_descriptors", .freshDict [("cond", ["b", "a", "c"]), ("index", ["0", "1", "2"])])] }

/-- the un-repaired transform changes its argument, and its result aliases the argument's array -/
theorem transform_inplace_counterexample :
    let hc := produce parentHeap 0 positiveTransformAsCoded
    positiveTransformAsCoded.fresh = false ∧
    content hc.1 0 ≠ content parentHeap 0 ∧ sepB hc.1 [0] [hc.2] = false ∧
    content (step hc.1 hc.2 (.fill "dissimilarities" ["9.0", "9.0", "9.0"])) 0 ≠ content hc.1 0 := by
  decide +kernel

/-- `concat` as it was coded before the repair ran `reorder` on its second *argument*: that is
    an in-place operation on the source side, so the argument's labelled content changes -/
theorem concat_reorders_argument :
    content (step parentHeap 0 (.reorder [1, 0, 2])) 0 ≠ content parentHeap 0 ∧
    readDict (step parentHeap 0 (.reorder [1, 0, 2])) 0 "pattern_descriptors"
      = [("cond", ["a", "b", "c"]), ("index", ["1", "0", "2"])] ∧
    (readArr (step parentHeap 0 (.reorder [1, 0, 2])) 0 "dissimilarities").2
      = ["1.0", "-3.0", "2.0"] := by
  decide +kernel

/-- separation is not only sufficient but necessary: whenever an array element written by an
    array write on `a` is listed by an array attribute of `b` (and `b`'s own cell is not
    overwritten), that write changes the labelled content of `b` -/
theorem shared_write_interferes (h : Heap) (a b : Loc) (f g : String) (sh sh' : List Nat)
    (l : Loc) (v : Val) (fsb : List (String × Field))
    (ha : lookupField (fieldsOf (h.cells a)) f = some (.arr sh [l])) (hheld : heldInDict f = false)
    (hb : h.cells b = .obj fsb) (hg : (g, Field.arr sh' [l]) ∈ fsb) (hbl : b ≠ l)
    (hv : valOf (h.cells l) ≠ v) :
    content (step h a (.fill f [v])) b ≠ content h b := by
  have hcells : (step h a (.fill f [v])).cells = upd h.cells l (.val v) := by
    simp [step, compile, execAll, exec, ha, hheld, writeVals]
  intro he
  have hb' : (step h a (.fill f [v])).cells b = .obj fsb := by
    rw [hcells, upd_other hbl, hb]
  simp only [content, hb', hb, fieldsOf] at he
  have := List.map_inj_left.mp he (g, .arr sh' [l]) hg
  simp only [readField, hcells, upd_same, valOf, List.map_cons, List.map_nil, Prod.mk.injEq,
    Content.arr.injEq, List.cons.injEq, and_true, true_and] at this
  exact hv this.symm

end Rsa.Props.C12
