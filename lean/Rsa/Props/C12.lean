/-
  Property C12 — value-returning operations neither modify nor alias their inputs.
  Property theorems only; the heap model is `Rsa/Core/Heap.lean`, helper lemmas are in
  `Rsa/Lemmas/C12.lean`.  (Core Lean suffices; no Mathlib import is needed.)

  Reading guide.  `reach h r` is everything readable through the object at `r`; `wr h r ⊆ reach h r`
  is the footprint the documented in-place operations (array write, `reorder`, `sort_by`,
  `append`, dataset `sort_by`) may write.  `Sep h as bs` says that no footprint location of one
  side is readable from the other side; `sepB` is its executable form, evaluated by the driver on
  the heap observed in the real interpreter.  `contentSide h bs` is the labelled content of the
  objects `bs`.  Every statement is for *both* write disciplines `d : Disc` of
  `RDMs.reorder / sort_by / append` (`assignInto` = the tree before commits 886ec151 / 453f6048,
  `rebind` = the current tree); the footprint `wr d` and hence `Sep d` depend on it: under `rebind`
  no dictionary object is ever written, so a shared dictionary does not break separation.
-/
import Rsa.Lemmas.C12

set_option linter.unusedSectionVars false
set_option linter.unusedVariables false

namespace Rsa.Props.C12

open Rsa.Heap

/-- every instruction writes only into the footprint of its receiver or into fresh locations -/
theorem exec_frame (d : Disc) (h : Heap) (a : Loc) (i : Instr) (hok : i.ok d = true) (l : Loc)
    (hl : l < h.next) (hw : l ∉ wr d h a) : (exec h a i).cells l = h.cells l :=
  Rsa.Heap.exec_frame d h a i hok l hl hw

/-- … hence so does every documented in-place operation, whatever its arguments -/
theorem step_frame (d : Disc) (h : Heap) (a : Loc) (op : Op) (l : Loc) (hl : l < h.next)
    (hw : l ∉ wr d h a) : (step d h a op).cells l = h.cells l :=
  execAll_frame d h a (compile d h a op) (compile_ok d h a op) l hl hw

/-- one in-place operation on an object of one side leaves the labelled content of the other
    side unchanged and re-establishes separation (so the argument repeats) -/
theorem step_preserves_sep (d : Disc) (h : Heap) (as bs : List Loc) (hi : Inv d h as bs) (a : Loc)
    (ha : a ∈ as) (op : Op) :
    contentSide (step d h a op) bs = contentSide h bs ∧ Inv d (step d h a op) as bs :=
  step_side d h as bs hi a ha op

/-- **frame**: after *any finite sequence* of in-place operations on objects of side `as`, the
    labelled content of side `bs` is what it was, and the sides are still separated -/
theorem frame (d : Disc) (h : Heap) (as bs : List Loc) (hi : Inv d h as bs) (ops : List (Loc × Op))
    (hops : ∀ s ∈ ops, s.1 ∈ as) :
    contentSide (run d h ops) bs = contentSide h bs ∧ Inv d (run d h ops) as bs := by
  induction ops generalizing h with
  | nil => exact ⟨rfl, hi⟩
  | cons s rest ih =>
    obtain ⟨a, op⟩ := s
    have ha : a ∈ as := hops (a, op) (by simp)
    obtain ⟨hc, hi'⟩ := step_side d h as bs hi a ha op
    obtain ⟨hc2, hi2⟩ := ih (step d h a op) hi' (fun s hs => hops s (by simp [hs]))
    exact ⟨by simp only [run]; rw [hc2, hc], by simpa only [run] using hi2⟩

/-- a step of an interleaved history: on which side, on which object, which operation -/
structure HStep where
  onA : Bool
  root : Loc
  op : Op

def runH (d : Disc) (h : Heap) : List HStep → Heap
  | [] => h
  | s :: rest => runH d (step d h s.root s.op) rest

/-- the step operates on an object of the side it names -/
def ValidH (as bs : List Loc) (s : HStep) : Prop :=
  (s.onA = true → s.root ∈ as) ∧ (s.onA = false → s.root ∈ bs)

theorem runH_append (d : Disc) (h : Heap) (pre : List HStep) (s : HStep) :
    runH d h (pre ++ [s]) = step d (runH d h pre) s.root s.op := by
  induction pre generalizing h with
  | nil => rfl
  | cons t pre ih => simp only [List.cons_append, runH]; exact ih _

theorem inv_runH (d : Disc) (h : Heap) (as bs : List Loc) (hi : Inv d h as bs) (hist : List HStep)
    (hv : ∀ s ∈ hist, ValidH as bs s) : Inv d (runH d h hist) as bs := by
  induction hist generalizing h with
  | nil => exact hi
  | cons s rest ih =>
    simp only [runH]
    apply ih
    · cases hs : s.onA with
      | true => exact (step_side d h as bs hi s.root ((hv s (by simp)).1 hs) s.op).2
      | false => exact (step_side d h bs as hi.symm s.root ((hv s (by simp)).2 hs) s.op).2.symm
    · exact fun t ht => hv t (by simp [ht])

/-- **non-interference for every later history**: in any interleaving of in-place operations
    on the two sides, a step on one side never alters the labelled content of the other -/
theorem frame_history (d : Disc) (h : Heap) (as bs : List Loc) (hi : Inv d h as bs)
    (pre : List HStep) (s : HStep) (hv : ∀ t ∈ pre ++ [s], ValidH as bs t) :
    (s.onA = true → contentSide (runH d h (pre ++ [s])) bs = contentSide (runH d h pre) bs) ∧
    (s.onA = false → contentSide (runH d h (pre ++ [s])) as = contentSide (runH d h pre) as) := by
  have hpre : Inv d (runH d h pre) as bs :=
    inv_runH d h as bs hi pre (fun t ht => hv t (by simp [ht]))
  have hs := hv s (by simp)
  rw [runH_append]
  exact ⟨fun e => (step_side d _ as bs hpre s.root (hs.1 e) s.op).1,
         fun e => (step_side d _ bs as hpre.symm s.root (hs.2 e) s.op).1⟩

/-! ### producers -/

theorem buildFields_fresh (src : List (String × Field)) (specs : List (String × FieldSpec))
    (hf : specs.all (fun q => q.2.isFresh) = true) (c : Loc → Cell) (n : Nat) :
    ∃ c' n' fs, buildFields src c n specs = (c', n', fs) ∧ n ≤ n' ∧
      (∀ l, l < n → c' l = c l) ∧ (∀ p ∈ fs, ∀ x ∈ fieldLocs p.2, n ≤ x ∧ x < n') := by
  induction specs generalizing c n with
  | nil => exact ⟨c, n, [], rfl, Nat.le_refl n, fun _ _ => rfl, by simp⟩
  | cons q rest ih =>
    obtain ⟨name, spec⟩ := q
    simp only [List.all_cons, Bool.and_eq_true] at hf
    cases spec with
    | share sf => simp [FieldSpec.isFresh] at hf
    | freshArr shape vals =>
      obtain ⟨c', n', fs, heq, h1, h2, h3⟩ :=
        ih hf.2 (writeVals c (List.range' n vals.length) vals) (n + vals.length)
      refine ⟨c', n', (name, .arr shape (List.range' n vals.length)) :: fs, ?_, by omega, ?_, ?_⟩
      · simp only [buildFields, heq]
      · intro l hl
        rw [h2 l (by omega)]
        apply writeVals_other
        simp only [List.mem_range'_1]
        omega
      · intro p hp x hx
        simp only [List.mem_cons] at hp
        rcases hp with hp | hp
        · subst hp
          simp only [fieldLocs, List.mem_range'_1] at hx
          omega
        · have := h3 p hp x hx
          omega
    | freshDict d =>
      obtain ⟨c', n', fs, heq, h1, h2, h3⟩ := ih hf.2 (upd c n (.dict d)) (n + 1)
      refine ⟨c', n', (name, .dict n) :: fs, ?_, by omega, ?_, ?_⟩
      · simp only [buildFields, heq]
      · intro l hl
        rw [h2 l (by omega)]
        exact upd_other (by omega)
      · intro p hp x hx
        simp only [List.mem_cons] at hp
        rcases hp with hp | hp
        · subst hp
          simp only [fieldLocs, List.mem_singleton] at hx
          omega
        · have := h3 p hp x hx
          omega

/-- a producer that allocates every attribute of its result freshly and executes no write on
    its source leaves the source's labelled content unchanged and returns an object separated
    from it -/
theorem fresh_producer_sep (d : Disc) (h : Heap) (a : Loc) (hc : Closed h [a]) (p : Producer)
    (hp : p.fresh = true) :
    content (produce h a p).1 a = content h a ∧ Inv d (produce h a p).1 [a] [(produce h a p).2] := by
  simp only [Producer.fresh, Bool.and_eq_true, List.isEmpty_iff] at hp
  obtain ⟨hw, hf⟩ := hp
  have hclosed : ∀ l ∈ reach h a, l < h.next := by
    intro l hl; exact hc l (by simp [reachSide, hl])
  obtain ⟨c, n, fs, hbf, b1, b2, b3⟩ :=
    buildFields_fresh (fieldsOf (h.cells a)) p.fields hf h.cells h.next
  have hprod : produce h a p = ({ cells := upd c n (.obj fs), next := n + 1 }, n) := by
    simp [produce, hw, execAll, hbf]
  rw [hprod]
  simp only
  have hold : ∀ l, l < h.next → upd c n (.obj fs) l = h.cells l := by
    intro l hl
    rw [upd_other (by omega), b2 l hl]
  obtain ⟨hca, hra, hwa⟩ := content_congr d h { cells := upd c n (.obj fs), next := n + 1 } a
    (fun l hl => hold l (hclosed l hl))
  have hrb : ∀ l ∈ reach { cells := upd c n (.obj fs), next := n + 1 } n, h.next ≤ l ∧ l < n + 1 := by
    intro l hl
    simp only [reach, upd_same, List.mem_cons, cellReach, fieldsOf, List.mem_flatMap] at hl
    rcases hl with hl | ⟨q, hq, hl⟩
    · omega
    · have := b3 q hq l hl
      omega
  refine ⟨hca, ⟨?_, ?_⟩, ?_, ?_⟩
  · intro l hl
    simp only [wrSide, List.flatMap_cons, List.flatMap_nil, List.append_nil, hwa] at hl
    simp only [reachSide, List.flatMap_cons, List.flatMap_nil, List.append_nil]
    intro hc2
    have := hclosed l (wr_subset_reach d h a l hl)
    have := hrb l hc2
    omega
  · intro l hl
    simp only [wrSide, List.flatMap_cons, List.flatMap_nil, List.append_nil] at hl
    simp only [reachSide, List.flatMap_cons, List.flatMap_nil, List.append_nil, hra]
    intro hc2
    have := hclosed l hc2
    have := hrb l (wr_subset_reach d _ n l hl)
    omega
  · intro l hl
    simp only [reachSide, List.flatMap_cons, List.flatMap_nil, List.append_nil, hra] at hl
    have := hclosed l hl
    show l < n + 1
    omega
  · intro l hl
    simp only [reachSide, List.flatMap_cons, List.flatMap_nil, List.append_nil] at hl
    exact (hrb l hl).2

/-- **the property for a conforming producer**: the call leaves its argument unchanged, and in
    every later interleaved history of in-place operations on the argument and on the result,
    no step on one alters the labelled content of the other -/
theorem fresh_producer_safe (d : Disc) (h : Heap) (a : Loc) (hc : Closed h [a]) (p : Producer)
    (hp : p.fresh = true) (pre : List HStep) (s : HStep)
    (hv : ∀ t ∈ pre ++ [s], ValidH [a] [(produce h a p).2] t) :
    content (produce h a p).1 a = content h a ∧
    (s.onA = true → contentSide (runH d (produce h a p).1 (pre ++ [s])) [(produce h a p).2]
        = contentSide (runH d (produce h a p).1 pre) [(produce h a p).2]) ∧
    (s.onA = false → contentSide (runH d (produce h a p).1 (pre ++ [s])) [a]
        = contentSide (runH d (produce h a p).1 pre) [a]) := by
  obtain ⟨h1, h2⟩ := fresh_producer_sep d h a hc p hp
  exact ⟨h1, frame_history d _ [a] [(produce h a p).2] h2 pre s hv⟩

/-- the model of `RDMs.copy()` / `deepcopy`: every attribute re-allocated with the same content -/
def copyProducer (c : List (String × Content)) : Producer :=
  { srcWrites := [],
    fields := c.map (fun q => (q.1, match q.2 with
      | .arr shape vals => FieldSpec.freshArr shape vals
      | .dict d => FieldSpec.freshDict d)) }

theorem copy_is_fresh (c : List (String × Content)) : (copyProducer c).fresh = true := by
  simp only [copyProducer, Producer.fresh, List.isEmpty_nil, Bool.true_and, List.all_map,
    List.all_eq_true]
  intro q _
  obtain ⟨n, x⟩ := q
  cases x <;> simp [Function.comp, FieldSpec.isFresh]

/-! ### witnesses

History of the tree.  At the pinned commit derived objects (`subset`, `__getitem__`, …) were built
on their parent's dictionaries *and* `reorder / sort_by / append` assigned into the existing
dictionaries (`Disc.assignInto`); together that let a child's `sort_by` relabel the parent.  The
tree has since been repaired twice: derived objects own their dictionaries (0b8b9fbf), and the
in-place operations bind new dictionaries (`Disc.rebind`, 886ec151 / 453f6048).  The witnesses
below are explicit about which combination they speak of. -/

/-- a parent `RDMs` object: 1 RDM over 3 conditions labelled b, a, c -/
def parentHeap : Heap :=
  { cells := fun l => match l with
      | 0 => .obj [("dissimilarities", .arr [1, 3] [1, 2, 3]), ("descriptors", .dict 4),
                   ("rdm_descriptors", .dict 5), ("pattern_descriptors", .dict 6)]
      | 1 => .val "1.0" | 2 => .val "2.0" | 3 => .val "-3.0"
      | 4 => .dict [("subj", ["7"])]
      | 5 => .dict [("name", ["r0"]), ("index", ["0"])]
      | 6 => .dict [("cond", ["b", "a", "c"]), ("index", ["0", "1", "2"])]
      | _ => .free,
    next := 7 }

/-- `RDMs.subset` / `__getitem__` **as coded at the pinned commit** (before 0b8b9fbf): new vectors
    and rdm descriptors, but the parent's `descriptors` and `pattern_descriptors` dictionaries
    handed to the child -/
def subsetSharingDicts : Producer :=
  { srcWrites := [],
    fields := [("dissimilarities", .freshArr [1, 3] ["1.0", "2.0", "-3.0"]),
               ("descriptors", .share "descriptors"),
               ("rdm_descriptors", .freshDict [("name", ["r0"]), ("index", ["0"])]),
               ("pattern_descriptors", .share "pattern_descriptors")] }

/-- the same operation as coded now (own copies of the dictionaries) -/
def subsetRepaired : Producer := copyProducer (content parentHeap 0)

/-- **old tree** (shared dictionaries + `assignInto` operations): sorting the *child* relabels
    the *parent* — its labels turn from b,a,c into a,b,c while its vectors stay.  A statement
    about the old write set; the current tree has neither ingredient -/
theorem shared_dict_counterexample :
    let hc := produce parentHeap 0 subsetSharingDicts
    let d := Disc.assignInto
    subsetSharingDicts.fresh = false ∧ sepB d hc.1 [0] [hc.2] = false ∧
    content (step d hc.1 hc.2 (.sortBy "cond" ["a", "b", "c"] true)) 0 ≠ content hc.1 0 ∧
    readDict (step d hc.1 hc.2 (.sortBy "cond" ["a", "b", "c"] true)) 0 "pattern_descriptors"
      = [("cond", ["a", "b", "c"]), ("index", ["0", "1", "2"])] ∧
    (readArr (step d hc.1 hc.2 (.sortBy "cond" ["a", "b", "c"] true)) 0 "dissimilarities").2
      = ["1.0", "2.0", "-3.0"] := by
  decide +kernel

/-- **current write discipline** (`rebind`): even with the *old* sharing of dictionaries the
    two objects are separated (`sepB` true: no dictionary is ever written), and the same
    `sort_by` / `reorder` / `append` on the child leave the parent's content untouched while
    the child is sorted — re-binding alone already removes the interference -/
theorem rebind_makes_shared_dict_harmless :
    let hc := produce parentHeap 0 subsetSharingDicts
    let d := Disc.rebind
    sepB d hc.1 [0] [hc.2] = true ∧
    content (step d hc.1 hc.2 (.sortBy "cond" ["a", "b", "c"] true)) 0 = content parentHeap 0 ∧
    content (step d hc.1 hc.2 (.reorder [2, 0, 1])) 0 = content parentHeap 0 ∧
    content (step d hc.1 hc.2 (.append 1 ["4.0", "5.0", "6.0"] [("name", ["x"]), ("index", ["9"])])) 0
      = content parentHeap 0 ∧
    readDict (step d hc.1 hc.2 (.sortBy "cond" ["a", "b", "c"] true)) hc.2 "pattern_descriptors"
      = [("cond", ["a", "b", "c"]), ("index", ["0", "1", "2"])] ∧
    (readArr (step d hc.1 hc.2 (.sortBy "cond" ["a", "b", "c"] true)) hc.2 "dissimilarities").2
      = ["1.0", "-3.0", "2.0"] := by
  decide +kernel

/-- with own dictionaries the history leaves the parent alone under either discipline
    (non-vacuity of `fresh_producer_safe`: a concrete object satisfies its hypotheses) -/
example :
    let hc := produce parentHeap 0 subsetRepaired
    subsetRepaired.fresh = true ∧ sepB .assignInto hc.1 [0] [hc.2] = true ∧
    sepB .rebind hc.1 [0] [hc.2] = true ∧
    content hc.1 hc.2 = content parentHeap 0 ∧
    content (step .assignInto hc.1 hc.2 (.sortBy "cond" ["a", "b", "c"] true)) 0 = content parentHeap 0 ∧
    content (step .rebind hc.1 hc.2 (.sortBy "cond" ["a", "b", "c"] true)) 0 = content parentHeap 0 ∧
    (readArr (step .rebind hc.1 hc.2 (.sortBy "cond" ["a", "b", "c"] true)) hc.2 "dissimilarities").2
      = ["1.0", "-3.0", "2.0"] := by
  decide +kernel

theorem parent_closed : Closed parentHeap [0] := by
  intro l hl
  have : l ∈ [0, 1, 2, 3, 4, 5, 6] := by simpa [reachSide, reach, cellReach, fieldsOf, parentHeap, fieldLocs] using hl
  simp only [List.mem_cons, List.mem_nil_iff, or_false] at this
  show l < 7
  omega

/-- non-vacuity of `frame` / `frame_history` / `fresh_producer_safe`: the repaired `subset` of the
    concrete parent satisfies their hypothesis `Inv` (3 conditions, 1 RDM), for both disciplines -/
example (d : Disc) :
    Inv d (produce parentHeap 0 subsetRepaired).1 [0] [(produce parentHeap 0 subsetRepaired).2] :=
  (fresh_producer_sep d parentHeap 0 parent_closed subsetRepaired (copy_is_fresh _)).2

/-- `sqrt_transform` / `positive_transform` **as they were coded before c916aa86**: the clamp
    `dissimilarities[dissimilarities < 0] = 0` is an element write into the *source's* array,
    and (`positive_transform`) the result is built on that very array -/
def positiveTransformAsWasCoded : Producer :=
  { srcWrites := [.setEls "dissimilarities" ["1.0", "2.0", "0.0"]],
    fields := [("dissimilarities", .share "dissimilarities"),
               ("descriptors", .freshDict [("subj", ["7"])]),
               ("rdm_descriptors", .freshDict [("name", ["r0"]), ("index", ["0"])]),
               ("pattern_descriptors", .freshDict [("cond", ["b", "a", "c"]), ("index", ["0", "1", "2"])])] }

/-- **old tree**: the un-repaired transform changes its argument, and its result aliases the
    argument's array (array writes do not depend on the dictionary discipline) -/
theorem transform_inplace_counterexample (d : Disc) :
    let hc := produce parentHeap 0 positiveTransformAsWasCoded
    positiveTransformAsWasCoded.fresh = false ∧
    content hc.1 0 ≠ content parentHeap 0 ∧ sepB d hc.1 [0] [hc.2] = false ∧
    content (step d hc.1 hc.2 (.fill "dissimilarities" ["9.0", "9.0", "9.0"])) 0 ≠ content hc.1 0 := by
  cases d <;> decide +kernel

/-- **old tree**: `concat` before 04874f43 ran `reorder` on its second *argument*: an in-place
    operation on the source side, so the argument's own labelled content changes (under either
    discipline — the receiver of an in-place operation is of course modified) -/
theorem concat_reorders_argument (d : Disc) :
    content (step d parentHeap 0 (.reorder [1, 0, 2])) 0 ≠ content parentHeap 0 ∧
    readDict (step d parentHeap 0 (.reorder [1, 0, 2])) 0 "pattern_descriptors"
      = [("cond", ["a", "b", "c"]), ("index", ["1", "0", "2"])] ∧
    (readArr (step d parentHeap 0 (.reorder [1, 0, 2])) 0 "dissimilarities").2
      = ["1.0", "-3.0", "2.0"] := by
  cases d <;> decide +kernel

/-- separation is not only sufficient but necessary: whenever an array element written by an
    array write on `a` is listed by an array attribute of `b` (and `b`'s own cell is not
    overwritten), that write changes the labelled content of `b` -/
theorem shared_write_interferes (h : Heap) (a b : Loc) (f g : String) (sh sh' : List Nat)
    (l : Loc) (v : Val) (fsb : List (String × Field))
    (ha : lookupField (fieldsOf (h.cells a)) f = some (.arr sh [l])) (hheld : heldInDict f = false)
    (hb : h.cells b = .obj fsb) (hg : (g, Field.arr sh' [l]) ∈ fsb) (hbl : b ≠ l)
    (hv : valOf (h.cells l) ≠ v) (d : Disc) :
    content (step d h a (.fill f [v])) b ≠ content h b := by
  have hcells : (step d h a (.fill f [v])).cells = upd h.cells l (.val v) := by
    simp [step, compile, execAll, exec, ha, hheld, writeVals]
  intro he
  have hb' : (step d h a (.fill f [v])).cells b = .obj fsb := by
    rw [hcells, upd_other hbl, hb]
  simp only [content, hb', hb, fieldsOf] at he
  have := List.map_inj_left.mp he (g, .arr sh' [l]) hg
  simp only [readField, hcells, upd_same, valOf, List.map_cons, List.map_nil, Prod.mk.injEq,
    Content.arr.injEq, List.cons.injEq, and_true, true_and] at this
  exact hv this.symm

/-! ### ndarray-valued descriptors: a label array handed out instead of a copy (round 4) -/

/-- an RDMs object whose pattern descriptor `stim` is an **ndarray** (ascending, repeat-free): the
    elements of the array are heap cells, listed by the attribute `pattern_descriptors[stim]` that is
    held inside the dictionary (a list-valued descriptor has no such cells: `np.asarray` copies it) -/
def labelHeap : Heap :=
  { cells := fun l => match l with
      | 0 => .obj [("dissimilarities", .arr [1, 3] [1, 2, 3]), ("descriptors", .dict 4),
                   ("rdm_descriptors", .dict 5), ("pattern_descriptors", .dict 6),
                   ("pattern_descriptors[stim]", .arr [3] [7, 8, 9])]
      | 1 => .val "1.0" | 2 => .val "2.0" | 3 => .val "-3.0"
      | 4 => .dict [("subj", ["7"])]
      | 5 => .dict [("name", ["r0"]), ("index", ["0"])]
      | 6 => .dict [("index", ["0", "1", "2"])]
      | 7 => .val "10" | 8 => .val "11" | 9 => .val "12"
      | _ => .free,
    next := 10 }

/-- `util.rdm_utils.add_pattern_index` with a "the descriptor is already ascending and repeat-free:
    skip `np.unique`" fast path (seeded change C12-8): the `pattern_select` it returns *is* the
    argument's descriptor array -/
def patternSelectFastPath : Producer :=
  { srcWrites := [], fields := [("pattern_select", .share "pattern_descriptors[stim]")] }

/-- as coded: `np.unique` allocates -/
def patternSelectAsCoded : Producer :=
  { srcWrites := [], fields := [("pattern_select", .freshArr [3] ["10", "11", "12"])] }

/-- **ndarray-valued descriptor handed out**: the fast path is not `fresh`, its result is not
    separated from the argument, and the in-place shuffle that `sets_k_fold_pattern(random=True)` /
    `sets_random` apply to what they were handed (an array write on the *result*) relabels the
    *argument* — the dissimilarities stay put.  As coded (`np.unique` allocates) the producer is
    fresh, separated, and the very same shuffle leaves the argument's labelled content unchanged.
    Under either dictionary discipline: array writes do not depend on it. -/
theorem label_array_alias_counterexample (d : Disc) :
    (let hc := produce labelHeap 0 patternSelectFastPath
     patternSelectFastPath.fresh = false ∧ sepB d hc.1 [0] [hc.2] = false ∧
     content hc.1 0 = content labelHeap 0 ∧
     content (step d hc.1 hc.2 (.fill "pattern_select" ["12", "10", "11"])) 0 ≠ content labelHeap 0 ∧
     readArr (step d hc.1 hc.2 (.fill "pattern_select" ["12", "10", "11"])) 0 "pattern_descriptors[stim]"
       = ([3], ["12", "10", "11"]) ∧
     readArr (step d hc.1 hc.2 (.fill "pattern_select" ["12", "10", "11"])) 0 "dissimilarities"
       = ([1, 3], ["1.0", "2.0", "-3.0"])) ∧
    (let hk := produce labelHeap 0 patternSelectAsCoded
     patternSelectAsCoded.fresh = true ∧ sepB d hk.1 [0] [hk.2] = true ∧
     content (step d hk.1 hk.2 (.fill "pattern_select" ["12", "10", "11"])) 0 = content labelHeap 0) := by
  cases d <;> decide +kernel

/-- the general theorem behind the witness, instantiated: `shared_write_interferes` applies to a
    *held* label array on the argument side (its hypotheses are satisfiable with `g` held) -/
example (d : Disc) :
    let hc := produce labelHeap 0 patternSelectFastPath
    heldInDict "pattern_descriptors[stim]" = true ∧ heldInDict "pattern_select" = false ∧
    lookupField (fieldsOf (hc.1.cells hc.2)) "pattern_select" = some (.arr [3] [7, 8, 9]) := by
  decide +kernel

/-! ### "nothing to do" fast paths: a normalisation step that is the identity on its input (round 6) -/

/-- a Dataset whose two patterns are **centred already** (every row mean exactly 0) and handed to an
    estimator without a descriptor: `np.asarray(dataset.measurements, dtype=float)` *is* the
    caller's float64 array -/
def centredHeap : Heap :=
  { cells := fun l => match l with
      | 0 => .obj [("measurements", .arr [2, 2] [1, 2, 3, 4]), ("descriptors", .dict 5),
                   ("obs_descriptors", .dict 6), ("channel_descriptors", .dict 7)]
      | 1 => .val "3.0" | 2 => .val "-3.0" | 3 => .val "-0.5" | 4 => .val "0.5"
      | 5 => .dict [("subj", ["3"])]
      | 6 => .dict [("trial", ["0", "1"])]
      | 7 => .dict [("vox", ["v0", "v1"])]
      | _ => .free,
    next := 8 }

/-- the RDM object `calc_rdm_correlation` returns for `centredHeap` (always newly built) -/
def correlationResult : List (String × FieldSpec) :=
  [("dissimilarities", .freshArr [1, 1] ["2.0"]),
   ("descriptors", .freshDict [("subj", ["3"])]),
   ("rdm_descriptors", .freshDict [("index", ["0"])]),
   ("pattern_descriptors", .freshDict [("trial", ["0", "1"]), ("index", ["0", "1"])])]

/-- `calc_rdm_correlation` with a centring helper that **returns its argument when there is nothing
    to remove** (seeded change C12-10).  `nothingToDo` is the outcome of the helper's test
    (`not np.any(pattern_means)`): when it holds, the array the in-place normalisation `ma /= norms`
    writes is the source's own `measurements`; otherwise (`measurements - means` allocates, as
    coded) the division works on a temporary and nothing is written to the source. -/
def correlationFastPath (nothingToDo : Bool) : Producer :=
  { srcWrites := if nothingToDo then [.setEls "measurements" ["0.70710678", "-0.70710678", "-0.70710678", "0.70710678"]]
                 else [],
    fields := correlationResult }

/-- **identity fast path + in-place step**: the returned RDM object is freshly allocated and
    separated from the argument in both cases — no later history can tell the two programs apart —
    yet on input for which the fast path's test holds the producer is not `fresh` and the *call
    itself* rescales the caller's rows to unit length; for every other input (and as coded, for
    every input) it is fresh and the argument's labelled content is unchanged.  Hence only data on
    which the normalisation step is the identity distinguish the two programs: the generator must
    contain such data. -/
theorem identity_fast_path_counterexample (d : Disc) :
    (let hc := produce centredHeap 0 (correlationFastPath true)
     (correlationFastPath true).fresh = false ∧ sepB d hc.1 [0] [hc.2] = true ∧
     content hc.1 0 ≠ content centredHeap 0 ∧
     readArr hc.1 0 "measurements" = ([2, 2], ["0.70710678", "-0.70710678", "-0.70710678", "0.70710678"])) ∧
    (let hk := produce centredHeap 0 (correlationFastPath false)
     (correlationFastPath false).fresh = true ∧ sepB d hk.1 [0] [hk.2] = true ∧
     content hk.1 0 = content centredHeap 0 ∧
     content hk.1 hk.2 = content (produce centredHeap 0 (correlationFastPath true)).1
                           (produce centredHeap 0 (correlationFastPath true)).2) := by
  cases d <;> decide +kernel

/-- for *every* outcome of the test: the program is `fresh` exactly when the fast path is not taken,
    and then the general theorem applies (non-vacuity of `fresh_producer_sep` on a Dataset) -/
theorem identity_fast_path_fresh_iff (nothingToDo : Bool) :
    (correlationFastPath nothingToDo).fresh = !nothingToDo := by
  cases nothingToDo <;> decide

theorem centred_closed : Closed centredHeap [0] := by
  intro l hl
  have : l ∈ [0, 1, 2, 3, 4, 5, 6, 7] := by
    simpa [reachSide, reach, cellReach, fieldsOf, centredHeap, fieldLocs] using hl
  simp only [List.mem_cons, List.mem_nil_iff, or_false] at this
  show l < 8
  omega

example (d : Disc) :
    Inv d (produce centredHeap 0 (correlationFastPath false)).1 [0]
      [(produce centredHeap 0 (correlationFastPath false)).2] :=
  (fresh_producer_sep d centredHeap 0 centred_closed _ (identity_fast_path_fresh_iff false)).2

/-! ### helpers that write normalised entries back into the caller's container (round 7) -/

/-- the caller's per-fold `noise` list: two 2 × 2 precision matrices as `np.linalg.inv` hands them
    out — entry 0 symmetric only up to rounding (`0.30000000000000004` above, `0.3` below the
    diagonal), entry 1 exactly symmetric.  The container is the argument object; its entries are
    its array attributes. -/
def noiseListHeap : Heap :=
  { cells := fun l => match l with
      | 0 => .obj [("noise_0", .arr [2, 2] [1, 2, 3, 4]), ("noise_1", .arr [2, 2] [5, 6, 7, 8])]
      | 1 => .val "2.0" | 2 => .val "0.30000000000000004" | 3 => .val "0.3" | 4 => .val "2.0"
      | 5 => .val "1.5" | 6 => .val "0.25" | 7 => .val "0.25" | 8 => .val "1.5"
      | _ => .free,
    next := 9 }

/-- the crossnobis RDM object built from the per-fold noise (always newly built) -/
def crossnobisResult : List (String × FieldSpec) :=
  [("dissimilarities", .freshArr [1, 1] ["2.0"]),
   ("descriptors", .freshDict [("noise", ["deepcopy"])]),
   ("rdm_descriptors", .freshDict [("index", ["0"])]),
   ("pattern_descriptors", .freshDict [("conds", ["c0", "c1"]), ("index", ["0", "1"])])]

/-- `calc_rdm_crossnobis` whose checking helper `_check_noise` does `noise[idx] = _check_noise(noise_i)`
    on the caller's list.  As coded the helper returns the entry itself (`storeBack = none`: a
    self-assignment, nothing is written).  With a helper that returns a *normalised copy*
    (`(noise + noise.T) / 2`, seeded change C12-11) the assignment binds a new array into the
    caller's container: `some k` = entry `k` is replaced by its symmetric part. -/
def crossnobisCheckNoise (storeBack : Option Nat) : Producer :=
  { srcWrites := match storeBack with
      | none => []
      | some 0 => [.newArr "noise_0" [2, 2] ["2.0", "0.30000000000000002", "0.30000000000000002", "2.0"]]
      | some _ => [.newArr "noise_1" [2, 2] ["1.5", "0.25", "0.25", "1.5"]],
    fields := crossnobisResult }

/-- **write-back into the caller's container**: in all three programs the returned RDM object is
    freshly allocated, separated from the argument and has the same content — neither the result nor
    any later history tells them apart.  Storing the symmetric part of a *not exactly symmetric*
    entry changes the argument's content (by one unit in the last place); storing the symmetric part
    of an *exactly symmetric* entry leaves the content of the argument identical — a value
    fingerprint, however exact, sees nothing — but the entry is **another array** (its cells are
    new locations): `container[1] is original_1` fails.  As coded (`none`) the producer is fresh,
    content and identity of every entry are unchanged.  Hence the generator needs per-fold containers
    with entries that are not exactly symmetric *and* the fingerprint must include the identity of
    the entries. -/
theorem container_writeback_counterexample (d : Disc) :
    (let ha := produce noiseListHeap 0 (crossnobisCheckNoise (some 0))
     (crossnobisCheckNoise (some 0)).fresh = false ∧ sepB d ha.1 [0] [ha.2] = true ∧
     content ha.1 0 ≠ content noiseListHeap 0) ∧
    (let hs := produce noiseListHeap 0 (crossnobisCheckNoise (some 1))
     (crossnobisCheckNoise (some 1)).fresh = false ∧ sepB d hs.1 [0] [hs.2] = true ∧
     content hs.1 0 = content noiseListHeap 0 ∧
     lookupField (fieldsOf (hs.1.cells 0)) "noise_1" ≠ lookupField (fieldsOf (noiseListHeap.cells 0)) "noise_1") ∧
    (let hk := produce noiseListHeap 0 (crossnobisCheckNoise none)
     (crossnobisCheckNoise none).fresh = true ∧ sepB d hk.1 [0] [hk.2] = true ∧
     content hk.1 0 = content noiseListHeap 0 ∧
     fieldsOf (hk.1.cells 0) = fieldsOf (noiseListHeap.cells 0) ∧
     content hk.1 hk.2 = content (produce noiseListHeap 0 (crossnobisCheckNoise (some 0))).1
                           (produce noiseListHeap 0 (crossnobisCheckNoise (some 0))).2 ∧
     content hk.1 hk.2 = content (produce noiseListHeap 0 (crossnobisCheckNoise (some 1))).1
                           (produce noiseListHeap 0 (crossnobisCheckNoise (some 1))).2) := by
  cases d <;> decide +kernel

/-- the helper is `fresh` exactly when it stores nothing back, for every entry it could store -/
theorem container_writeback_fresh_iff (storeBack : Option Nat) :
    (crossnobisCheckNoise storeBack).fresh = storeBack.isNone := by
  rcases storeBack with _ | k
  · decide
  · cases k <;> simp [crossnobisCheckNoise, Producer.fresh]

theorem noise_list_closed : Closed noiseListHeap [0] := by
  intro l hl
  have : l ∈ [0, 1, 2, 3, 4, 5, 6, 7, 8] := by
    simpa [reachSide, reach, cellReach, fieldsOf, noiseListHeap, fieldLocs] using hl
  simp only [List.mem_cons, List.mem_nil_iff, or_false] at this
  show l < 9
  omega

/-- non-vacuity: the general theorem applies to the program as coded, on the noise container -/
example (d : Disc) :
    Inv d (produce noiseListHeap 0 (crossnobisCheckNoise none)).1 [0]
      [(produce noiseListHeap 0 (crossnobisCheckNoise none)).2] :=
  (fresh_producer_sep d noiseListHeap 0 noise_list_closed _ (container_writeback_fresh_iff none)).2

/-! ### derived-object constructors of `RDMs` (heap programs `ctorProducer`) -/

/-- the multi-source form of `fresh_producer_sep`: a fresh producer leaves the labelled content
    of *every* closed set of objects `srcs` unchanged (all arguments of `concat`, the receiver and
    a sibling result, …) and its result is separated from all of them -/
theorem fresh_producer_sep_side (d : Disc) (h : Heap) (a : Loc) (srcs : List Loc) (hc : Closed h srcs)
    (p : Producer) (hp : p.fresh = true) :
    contentSide (produce h a p).1 srcs = contentSide h srcs ∧
    Inv d (produce h a p).1 srcs [(produce h a p).2] := by
  simp only [Producer.fresh, Bool.and_eq_true, List.isEmpty_iff] at hp
  obtain ⟨hw, hf⟩ := hp
  obtain ⟨c, n, fs, hbf, b1, b2, b3⟩ :=
    buildFields_fresh (fieldsOf (h.cells a)) p.fields hf h.cells h.next
  have hprod : produce h a p = ({ cells := upd c n (.obj fs), next := n + 1 }, n) := by
    simp [produce, hw, execAll, hbf]
  rw [hprod]
  simp only
  have hold : ∀ l, l < h.next → upd c n (.obj fs) l = h.cells l := by
    intro l hl
    rw [upd_other (by omega), b2 l hl]
  have hsrc : ∀ r ∈ srcs, content { cells := upd c n (.obj fs), next := n + 1 } r = content h r ∧
      reach { cells := upd c n (.obj fs), next := n + 1 } r = reach h r ∧
      wr d { cells := upd c n (.obj fs), next := n + 1 } r = wr d h r := by
    intro r hr
    apply content_congr
    intro l hl
    exact hold l (hc l (mem_reachSide.mpr ⟨r, hr, hl⟩))
  have hreach : reachSide { cells := upd c n (.obj fs), next := n + 1 } srcs = reachSide h srcs := by
    simp only [reachSide]
    exact flatMap_congr_mem _ _ _ (fun r hr => (hsrc r hr).2.1)
  have hwr : wrSide d { cells := upd c n (.obj fs), next := n + 1 } srcs = wrSide d h srcs := by
    simp only [wrSide]
    exact flatMap_congr_mem _ _ _ (fun r hr => (hsrc r hr).2.2)
  have hrb : ∀ l ∈ reach { cells := upd c n (.obj fs), next := n + 1 } n, h.next ≤ l ∧ l < n + 1 := by
    intro l hl
    simp only [reach, upd_same, List.mem_cons, cellReach, fieldsOf, List.mem_flatMap] at hl
    rcases hl with hl | ⟨q, hq, hl⟩
    · omega
    · have := b3 q hq l hl
      omega
  have hwrsub : ∀ l ∈ wrSide d h srcs, l ∈ reachSide h srcs := by
    intro l hl
    obtain ⟨r, hr, hl⟩ := mem_wrSide.mp hl
    exact mem_reachSide.mpr ⟨r, hr, wr_subset_reach d h r l hl⟩
  refine ⟨?_, ⟨?_, ?_⟩, ?_, ?_⟩
  · simp only [contentSide]
    exact List.map_congr_left (fun r hr => (hsrc r hr).1)
  · intro l hl
    rw [hwr] at hl
    simp only [reachSide, List.flatMap_cons, List.flatMap_nil, List.append_nil]
    intro hc2
    have := hc l (hwrsub l hl)
    have := hrb l hc2
    omega
  · intro l hl
    simp only [wrSide, List.flatMap_cons, List.flatMap_nil, List.append_nil] at hl
    rw [hreach]
    intro hc2
    have := hc l hc2
    have := hrb l (wr_subset_reach d _ n l hl)
    omega
  · intro l hl
    rw [hreach] at hl
    have := hc l hl
    show l < n + 1
    omega
  · intro l hl
    simp only [reachSide, List.flatMap_cons, List.flatMap_nil, List.append_nil] at hl
    exact (hrb l hl).2

theorem heldCopies_fresh (h : Heap) (a : Loc) : ∀ q ∈ heldCopies h a, q.2.isFresh = true := by
  intro q hq
  simp only [heldCopies, List.mem_filterMap] at hq
  obtain ⟨p, _, hq⟩ := hq
  cases hf : p.2 with
  | dict l => simp [hf] at hq
  | arr shape els =>
    simp only [hf] at hq
    split at hq
    · simp only [Option.some.injEq] at hq
      subst hq
      rfl
    · simp at hq

/-- **derived sharing graph**: whatever the source object, the selection, the other arguments —
    every constructor of the family compiles to a producer that allocates each attribute of the
    new object and writes nothing to a source (`Producer.fresh`) -/
theorem ctor_fresh (h : Heap) (a : Loc) (c : Ctor) : (ctorProducer h a c).fresh = true := by
  have hh := heldCopies_fresh h a
  simp only [ctorProducer, Producer.fresh, List.isEmpty_nil, Bool.true_and, List.all_eq_true]
  intro q hq
  cases c <;>
    simp only [ctorFields, rowSelect, patSelect, List.mem_append, List.mem_cons, List.mem_nil_iff,
      or_false] at hq
  all_goals first
    | (rcases hq with (rfl | rfl | rfl | rfl) | hq
       · rfl
       · rfl
       · rfl
       · rfl
       · exact hh q hq)
    | (rcases hq with rfl | rfl | rfl | rfl <;> rfl)

/-- **the property for the constructor family**: the call leaves the labelled content of the
    receiver and of every other source object (`srcs`: the further arguments of `concat`, a
    sibling result, …) unchanged, and in every later interleaved history of in-place operations
    on the sources and on the new object no step on one side alters the other -/
theorem ctor_safe (d : Disc) (h : Heap) (a : Loc) (c : Ctor) (srcs : List Loc) (hc : Closed h srcs)
    (pre : List HStep) (s : HStep)
    (hv : ∀ t ∈ pre ++ [s], ValidH srcs [(produce h a (ctorProducer h a c)).2] t) :
    contentSide (produce h a (ctorProducer h a c)).1 srcs = contentSide h srcs ∧
    (s.onA = true →
      contentSide (runH d (produce h a (ctorProducer h a c)).1 (pre ++ [s])) [(produce h a (ctorProducer h a c)).2]
        = contentSide (runH d (produce h a (ctorProducer h a c)).1 pre) [(produce h a (ctorProducer h a c)).2]) ∧
    (s.onA = false →
      contentSide (runH d (produce h a (ctorProducer h a c)).1 (pre ++ [s])) srcs
        = contentSide (runH d (produce h a (ctorProducer h a c)).1 pre) srcs) := by
  obtain ⟨h1, h2⟩ := fresh_producer_sep_side d h a srcs hc (ctorProducer h a c) (ctor_fresh h a c)
  exact ⟨h1, frame_history d _ srcs [(produce h a (ctorProducer h a c)).2] h2 pre s hv⟩

/-! ### what a fresh producer's result holds -/

/-- the content a fresh attribute specification asks for -/
def specContent : FieldSpec → Content
  | .freshArr shape vals => .arr shape vals
  | .freshDict d => .dict d
  | .share _ => .dict []

theorem writeVals_read (f : Loc → Cell) (n : Nat) (vals : List Val) :
    (List.range' n vals.length).map (fun l => valOf (writeVals f (List.range' n vals.length) vals l))
      = vals := by
  induction vals generalizing f n with
  | nil => simp
  | cons v vs ih =>
    simp only [List.length_cons, List.range'_succ, writeVals, List.map_cons, List.cons.injEq]
    constructor
    · rw [writeVals_other _ _ _ _ (by simp only [List.mem_range'_1]; omega), upd_same]
      rfl
    · exact ih (upd f n (.val v)) (n + 1)

theorem readField_congr (c c' : Loc → Cell) (n n' : Nat) (f : Field)
    (hc : ∀ x ∈ fieldLocs f, c' x = c x) :
    readField { cells := c', next := n' } f = readField { cells := c, next := n } f := by
  cases f with
  | arr shape els =>
    simp only [readField, Content.arr.injEq, true_and]
    apply List.map_congr_left
    intro l hl
    rw [hc l (by simpa [fieldLocs] using hl)]
  | dict l0 =>
    simp only [readField, Content.dict.injEq]
    rw [hc l0 (by simp [fieldLocs])]

theorem buildFields_content (src : List (String × Field)) (specs : List (String × FieldSpec))
    (hf : specs.all (fun q => q.2.isFresh) = true) (c : Loc → Cell) (n : Nat) :
    ∃ c' n' fs, buildFields src c n specs = (c', n', fs) ∧ n ≤ n' ∧
      (∀ l, l < n → c' l = c l) ∧ (∀ p ∈ fs, ∀ x ∈ fieldLocs p.2, n ≤ x ∧ x < n') ∧
      fs.map (fun p => (p.1, readField { cells := c', next := n' } p.2))
        = specs.map (fun q => (q.1, specContent q.2)) := by
  induction specs generalizing c n with
  | nil => exact ⟨c, n, [], rfl, Nat.le_refl n, fun _ _ => rfl, by simp, rfl⟩
  | cons q rest ih =>
    obtain ⟨name, spec⟩ := q
    simp only [List.all_cons, Bool.and_eq_true] at hf
    cases spec with
    | share sf => simp [FieldSpec.isFresh] at hf
    | freshArr shape vals =>
      obtain ⟨c', n', fs, heq, h1, h2, h3, h4⟩ :=
        ih hf.2 (writeVals c (List.range' n vals.length) vals) (n + vals.length)
      refine ⟨c', n', (name, .arr shape (List.range' n vals.length)) :: fs, ?_, by omega, ?_, ?_, ?_⟩
      · simp only [buildFields, heq]
      · intro l hl
        rw [h2 l (by omega)]
        apply writeVals_other
        simp only [List.mem_range'_1]
        omega
      · intro p hp x hx
        simp only [List.mem_cons] at hp
        rcases hp with hp | hp
        · subst hp
          simp only [fieldLocs, List.mem_range'_1] at hx
          omega
        · have := h3 p hp x hx
          omega
      · rw [List.map_cons, List.map_cons, h4]
        congr 1
        simp only [readField, specContent, Prod.mk.injEq, Content.arr.injEq, true_and]
        refine Eq.trans ?_ (writeVals_read c n vals)
        apply List.map_congr_left
        intro l hl
        simp only [List.mem_range'_1] at hl
        rw [h2 l (by omega)]
    | freshDict d =>
      obtain ⟨c', n', fs, heq, h1, h2, h3, h4⟩ := ih hf.2 (upd c n (.dict d)) (n + 1)
      refine ⟨c', n', (name, .dict n) :: fs, ?_, by omega, ?_, ?_, ?_⟩
      · simp only [buildFields, heq]
      · intro l hl
        rw [h2 l (by omega)]
        exact upd_other (by omega)
      · intro p hp x hx
        simp only [List.mem_cons] at hp
        rcases hp with hp | hp
        · subst hp
          simp only [fieldLocs, List.mem_singleton] at hx
          omega
        · have := h3 p hp x hx
          omega
      · rw [List.map_cons, List.map_cons, h4]
        congr 1
        simp only [readField, specContent, Prod.mk.injEq, Content.dict.injEq, true_and]
        rw [h2 n (by omega), upd_same]
        rfl

/-- **the result holds exactly what was specified**: the labelled content of the object a fresh
    producer returns is, attribute by attribute, the content its specification lists — so for the
    constructor family the content computed by `ctorFields` *is* what a reader of the new object
    sees (the driver sends it to the harness, which compares it with the real result) -/
theorem produce_content_fresh (h : Heap) (a : Loc) (p : Producer) (hp : p.fresh = true) :
    content (produce h a p).1 (produce h a p).2 = p.fields.map (fun q => (q.1, specContent q.2)) := by
  simp only [Producer.fresh, Bool.and_eq_true, List.isEmpty_iff] at hp
  obtain ⟨hw, hf⟩ := hp
  obtain ⟨c, n, fs, hbf, b1, b2, b3, b4⟩ :=
    buildFields_content (fieldsOf (h.cells a)) p.fields hf h.cells h.next
  have hprod : produce h a p = ({ cells := upd c n (.obj fs), next := n + 1 }, n) := by
    simp [produce, hw, execAll, hbf]
  rw [hprod]
  simp only [content, upd_same, fieldsOf]
  rw [← b4]
  apply List.map_congr_left
  intro q hq
  simp only [Prod.mk.injEq, true_and]
  apply readField_congr
  intro x hx
  have := b3 q hq x hx
  exact upd_other (by omega)

theorem ctor_content (h : Heap) (a : Loc) (c : Ctor) :
    content (produce h a (ctorProducer h a c)).1 (produce h a (ctorProducer h a c)).2
      = (ctorFields h a c).map (fun q => (q.1, specContent q.2)) :=
  produce_content_fresh h a (ctorProducer h a c) (ctor_fresh h a c)

/-- two objects (a first argument and a second one with the conditions in another order) -/
def twoHeap : Heap :=
  { cells := fun l => match l with
      | 0 => .obj [("dissimilarities", .arr [2, 3] [1, 2, 3, 14, 15, 16]), ("descriptors", .dict 4),
                   ("rdm_descriptors", .dict 5), ("pattern_descriptors", .dict 6)]
      | 1 => .val "1.0" | 2 => .val "2.0" | 3 => .val "-3.0"
      | 14 => .val "4.0" | 15 => .val "5.0" | 16 => .val "6.0"
      | 4 => .dict [("subj", ["7"])]
      | 5 => .dict [("name", ["r0", "r1"]), ("index", ["0", "1"])]
      | 6 => .dict [("cond", ["b", "a", "c"]), ("cat", ["0", "1", "0"]), ("index", ["0", "1", "2"])]
      | 7 => .obj [("dissimilarities", .arr [1, 3] [8, 9, 10]), ("descriptors", .dict 11),
                   ("rdm_descriptors", .dict 12), ("pattern_descriptors", .dict 13)]
      | 8 => .val "7.0" | 9 => .val "8.0" | 10 => .val "9.0"
      | 11 => .dict []
      | 12 => .dict [("name", ["x"]), ("index", ["0"])]
      | 13 => .dict [("cond", ["a", "b", "c"]), ("cat", ["1", "0", "0"]), ("index", ["0", "1", "2"])]
      | _ => .free,
    next := 17 }

theorem twoHeap_closed : Closed twoHeap [0, 7] := by
  intro l hl
  have : l ∈ [0, 1, 2, 3, 14, 15, 16, 4, 5, 6, 7, 8, 9, 10, 11, 12, 13] := by
    simpa [reachSide, reach, cellReach, fieldsOf, twoHeap, fieldLocs] using hl
  simp only [List.mem_cons, List.mem_nil_iff, or_false] at this
  show l < 17
  omega

/-- non-vacuity of `ctor_safe` and a check of the content arithmetic on concrete objects:
    `rdms[[1]]`, `subset_pattern('cond', ['c','b'])` (b–c is the third pair of b,a,c),
    `subsample_pattern('cond', ['b','b','c'])` (NaN where a pattern meets itself) and
    `concat(first, second)` (the second argument's vectors re-ordered a,b,c → b,a,c: its pairs
    (a,b),(a,c),(b,c) = 7,8,9 become (b,a),(b,c),(a,c) = 7,9,8) -/
example :
    let g := produce twoHeap 0 (ctorProducer twoHeap 0 (.getitem [1]))
    let sp := produce twoHeap 0 (ctorProducer twoHeap 0 (.subsetPattern "cond" ["c", "b"]))
    let ss := produce twoHeap 0 (ctorProducer twoHeap 0 (.subsamplePattern "cond" ["b", "b", "c"]))
    let cc := produce twoHeap 0 (ctorProducer twoHeap 0
      (.concat [7] none [] [("name", ["r0", "r1", "x"]), ("index", ["0", "1", "2"])]))
    readArr g.1 g.2 "dissimilarities" = ([1, 3], ["4.0", "5.0", "6.0"]) ∧
    readDict g.1 g.2 "rdm_descriptors" = [("name", ["r1"]), ("index", ["1"])] ∧
    readArr sp.1 sp.2 "dissimilarities" = ([2, 1], ["2.0", "5.0"]) ∧
    readDict sp.1 sp.2 "pattern_descriptors" = [("cond", ["b", "c"]), ("cat", ["0", "0"]), ("index", ["0", "2"])] ∧
    readArr ss.1 ss.2 "dissimilarities" = ([2, 3], ["nan", "2.0", "2.0", "nan", "5.0", "5.0"]) ∧
    readArr cc.1 cc.2 "dissimilarities"
      = ([3, 3], ["1.0", "2.0", "-3.0", "4.0", "5.0", "6.0", "7.0", "9.0", "8.0"]) ∧
    sepB .rebind cc.1 [0, 7] [cc.2] = true ∧ sepB .assignInto cc.1 [0, 7] [cc.2] = true ∧
    contentSide cc.1 [0, 7] = contentSide twoHeap [0, 7] := by
  decide +kernel

example (d : Disc) (c : Ctor) :
    Inv d (produce twoHeap 0 (ctorProducer twoHeap 0 c)).1 [0, 7] [(produce twoHeap 0 (ctorProducer twoHeap 0 c)).2] :=
  (fresh_producer_sep_side d twoHeap 0 [0, 7] twoHeap_closed _ (ctor_fresh twoHeap 0 c)).2

end Rsa.Props.C12
