/-
  Property C08 — fitted model parameters maximise the training criterion within constraints.

  Theorems about the executable model `Rsa.Core.Fit` (namespace `Rsa.Fit`), for every size,
  basis, training stack, competitor and (for the external solvers) every result satisfying the
  stated contract.  Helper lemmas live in `Rsa/Lemmas/C08*.lean`.

  Sentences of the property ↦ theorems
    * weighted-sum fits attain the maximal mean similarity, plain or whitened, cosine or corr:
      `ols_maximises` (any symmetric psd bilinear form), `_cosine`, `_corr`, `_whitened`,
      `_whitened_corr`, `_corr_coded`, with `mean_sim_eq_sim_to_pool`, `gram_matVec`,
      `ip_cauchy_schwarz`; the four coded poolings are pooled targets: `pool_cosine_is_pool`,
      `pool_corr_is_pool`, `pool_cosine_cov_is_pool`, `pool_corr_cov_is_pool`;
    * non-negative variants: `kkt_maximises_nonneg`, `_cosine`, `kktOk_sound`; the active-set
      loop under the linear-solve contract: `nnls_exit_is_kkt` (full KKT at exit; the older
      `nnls_exit_is_kkt_partial` is kept), `nnls_result_feasible`, `nnls_inner_terminates`,
      end to end `fit_regress_nn_maximises`, `fit_regress_nn_maximises_cosine`;
    * optimising fitters: `loss_is_minus_score`, `loss_value_spec`, `optimize_minimiser_maximises`,
      `optimize_positive_minimiser_maximises` (θ² reparametrisation), `optimize_picks_least_loss`,
      `fit_optimize_maximises` (the optimiser itself stays a contract);
    * selection models: `select_is_argmax`, `select_first`;
    * interpolation models: `interpolate_shape`, `fitInterpolate_shape`,
      `interpolate_best_of_segments` (optimality from the contract of the scalar search),
      `interpolate_assembly_matches_objective`, `interpolate_segments`;
    * normalised fits: `normalised_unit_norm`, `normalise_pos_scale`, `score_scale_invariant`,
      `leaf_norm_entries_agree`;
    * only the named conditions, with multiplicity: `subsample_length`,
      `subsample_uses_selected_only`, `fit_uses_selected_only`, `subsample_multiplicity`,
      `selection_sorted`, `selection_perm`;
    * predictions: `predict_length`, `predict_entry`, `predict_linear`,
      `predict_eq_predict_rdm`, `predict_descriptors`, `from_dict_same_prediction`
      (`interpolate_clamp_noted`, `interpolate_predict_rdm_clamps`, `interpolate_default_spec`:
      outside the admissible parameters the two differ), `default_fitter_dispatch`;
    * text of the source (generated leaves): `leaf_nnls_tests`, `leaf_nnls_bounds`, `leaf_nnls_step`.
  Partial (numerical convergence, outside the model): that BFGS / the bounded scalar search
  reach the characterised maximum — `optimiser_reaches_maximum_full`.
-/
import Mathlib.Tactic.IntervalCases
import Rsa.Lemmas.C08Leaf

set_option linter.unusedSectionVars false
set_option linter.unusedVariables false
set_option linter.unusedSimpArgs false

namespace Rsa.Props.C08
open Rsa Rsa.Compare Rsa.Fit

/-! ## predictions -/

section predictK
variable {K : Type} [Field K]

/-- the prediction has the length of the basis vectors -/
theorem predict_length (m : ℕ) (B : List (List K)) (θ : List K) (hB : ∀ b ∈ B, b.length = m) :
    (predict m B θ).length = m := predict_length' m B θ hB

/-- entry `k` of the prediction is `Σ_i θ_i · B_i[k]` -/
theorem predict_entry (m : ℕ) (B : List (List K)) (θ : List K) (hB : ∀ b ∈ B, b.length = m)
    (k : ℕ) (hk : k < m) :
    (predict m B θ).getD k 0 = dot θ (B.map (fun b => b.getD k 0)) := predict_getD m B θ hB k hk

/-- the prediction is linear in the weights -/
theorem predict_linear (m : ℕ) (B : List (List K)) (θ₁ θ₂ : List K) (a b : K)
    (hB : ∀ b ∈ B, b.length = m) (hθ : θ₁.length = θ₂.length) :
    predict m B (vadd (vscale a θ₁) (vscale b θ₂)) =
      vadd (vscale a (predict m B θ₁)) (vscale b (predict m B θ₂)) := by
  apply list_ext_getD
  · rw [predict_length' m B _ hB, vadd_length, vscale_length, vscale_length,
      predict_length' m B _ hB, predict_length' m B _ hB]; simp
  · intro k hk
    rw [predict_length' m B _ hB] at hk
    rw [predict_getD m B _ hB k hk,
      vadd_getD _ _ _ (by rw [vscale_length, predict_length' m B _ hB]; exact hk)
        (by rw [vscale_length, predict_length' m B _ hB]; exact hk),
      vscale_getD, vscale_getD, predict_getD m B _ hB k hk, predict_getD m B _ hB k hk,
      dot_vadd_left' _ _ _ (by rw [vscale_length, vscale_length, hθ]), dot_vscale_left,
      dot_vscale_left]

example : predict 3 [[1, 2, 3], [0, 1, 0]] (vadd (vscale 2 [1, 0]) (vscale 3 [0, 1])) =
    ([2, 7, 6] : List ℚ) := by decide +kernel

end predictK

section classes
variable {K : Type} [Field K] [LinearOrder K] [IsStrictOrderedRing K]

/-- the parameters for which `predict` and `predict_rdm` are meant to agree: a fixed model of
    one RDM; an index of a candidate; any weights for a weighted sum; non-negative weights
    for an interpolation model (`predict_rdm` clamps at 0 and has another `None` default) -/
def Admissible (M : Model K) (p : Param K) : Prop :=
  match M.kind with
  | .fixed => ∃ v, M.obj = [v] ∧ v.length = vecLen M
  | .select =>
    match p with
    | .none => 0 < M.obj.length
    | .idx i => i < M.obj.length
    | .vec _ => False
  | .weighted =>
    match p with
    | .idx _ => False
    | _ => True
  | .interpolate =>
    match p with
    | .vec θ => ∀ t ∈ θ, 0 ≤ t
    | _ => False

theorem colMeans_single (m : ℕ) (v : List K) (hv : v.length = m) : colMeans m [v] = v := by
  apply list_ext_getD
  · simp [colMeans, hv]
  · intro k hk
    have hk' : k < m := by simpa [colMeans] using hk
    rw [List.getD_eq_getElem _ _ hk]
    simp [colMeans]

theorem clampNonneg_id (θ : List K) (h : ∀ t ∈ θ, 0 ≤ t) : clampNonneg θ = θ := by
  unfold clampNonneg
  conv_rhs => rw [← List.map_id θ]
  apply List.map_congr_left
  intro t ht
  simp [Rsa.Gen.C08.interpClamp, h t ht]

/-- vector prediction and RDM-object prediction agree for the same admissible parameters -/
theorem predict_eq_predict_rdm (M : Model K) (p : Param K) (h : Admissible M p) :
    ∃ v, predictVec M p = some v ∧ (predictRdm M p).map (fun r => r.1) = some [v] := by
  obtain ⟨kind, name, n, obj, desc⟩ := M
  cases kind with
  | fixed =>
    obtain ⟨v, hv, hl⟩ := h
    simp only at hv
    subst hv
    refine ⟨v, ?_, ?_⟩
    · simp only [predictVec]
      rw [colMeans_single _ v hl]
    · simp [predictRdm]
  | select =>
    cases p with
    | none =>
      have h0 : 0 < obj.length := h
      refine ⟨obj[0], ?_, ?_⟩
      · simp [predictVec, List.getElem?_eq_getElem h0]
      · simp [predictRdm, List.getElem?_eq_getElem h0]
    | idx i =>
      have h0 : i < obj.length := h
      refine ⟨obj[i], ?_, ?_⟩
      · simp [predictVec, List.getElem?_eq_getElem h0]
      · simp [predictRdm, List.getElem?_eq_getElem h0]
    | vec θ => exact absurd h (by simp [Admissible])
  | weighted =>
    cases p with
    | none => exact ⟨_, rfl, rfl⟩
    | idx i => exact absurd h (by simp [Admissible])
    | vec θ => exact ⟨_, rfl, rfl⟩
  | interpolate =>
    cases p with
    | none => exact absurd h (by simp [Admissible])
    | idx i => exact absurd h (by simp [Admissible])
    | vec θ =>
      have hθ : ∀ t ∈ θ, 0 ≤ t := h
      refine ⟨_, rfl, ?_⟩
      simp [predictRdm, clampNonneg_id θ hθ]

/-- the RDM-object prediction carries the model's pattern descriptors -/
theorem predict_descriptors (M : Model K) (p : Param K) (r : List (List K) × Desc)
    (h : predictRdm M p = some r) : r.2 = M.desc := by
  obtain ⟨kind, name, n, obj, desc⟩ := M
  cases kind <;> cases p <;> simp [predictRdm] at h <;>
    first
    | (obtain ⟨_, rfl⟩ := h; rfl)
    | (rw [← h])
    | (obtain ⟨_, _, rfl⟩ := h; rfl)

theorem setIndex_idem (n : ℕ) (d : Desc) : setIndex n (setIndex n d) = setIndex n d := by
  unfold setIndex
  simp [List.filter_append, List.filter_filter]

/-- a model rebuilt from its dictionary form is the same model, hence predicts identically -/
theorem from_dict_same_prediction (kind : Kind) (name : String) (n : ℕ) (obj : List (List K))
    (d : Desc) (p : Param K) :
    ∃ M', fromDict (toDict (mkModel kind name n obj d)) = some M' ∧
      predictVec M' p = predictVec (mkModel kind name n obj d) p ∧
      predictRdm M' p = predictRdm (mkModel kind name n obj d) p := by
  refine ⟨mkModel kind name n obj d, ?_, rfl, rfl⟩
  cases kind <;> simp [toDict, fromDict, mkModel, kindName, setIndex_idem]

/-- noted, not claimed: with a negative weight `ModelInterpolate.predict_rdm` (which clamps
    at 0) differs from `predict` -/
theorem interpolate_clamp_noted :
    predictVec (mkModel .interpolate "m" 2 [[1], [1]] [] : Model ℚ) (.vec [-1, 0]) = some [-1] ∧
    (predictRdm (mkModel .interpolate "m" 2 [[1], [1]] [] : Model ℚ) (.vec [-1, 0])).map
      (fun r => r.1) = some [[0]] := by
  constructor <;> decide +kernel

example : Admissible (mkModel .weighted "m" 3 [[1, 2, 3], [0, 1, 0]] [] : Model ℚ) (.vec [2, -1]) :=
  trivial

end classes

/-! ## weighted sums: the regression fit attains the maximum -/

/-- Cauchy–Schwarz for any symmetric positive semi-definite bilinear form on lists -/
theorem ip_cauchy_schwarz {m : ℕ} {ip : List ℝ → List ℝ → ℝ} (h : IsIP m ip) (a b : List ℝ)
    (ha : a.length = m) (hb : b.length = m) : ip a b * ip a b ≤ ip a a * ip b b := h.cs a b ha hb

/-- the mean similarity with the training RDMs is the similarity with their pooled RDM
    (up to the positive factor `κ · R`) -/
theorem mean_sim_eq_sim_to_pool {m : ℕ} {ip : List ℝ → List ℝ → ℝ} (h : IsIP m ip)
    (data : List (List ℝ)) (y : List ℝ) (κ : ℝ) (hp : IsPool m ip data y κ)
    (hd : ∀ d ∈ data, 0 < ip d d) (a : List ℝ) (ha : a.length = m) :
    meanSimIp ip a data =
      if 0 < ip a a then ip a y / (κ * (data.length : ℝ) * Real.sqrt (ip a a)) else 0 :=
  meanSimIp_eq_pool h data y κ hp hd a ha

/-- the coded cosine pooling is such a pooled RDM -/
theorem pool_cosine_is_pool (m : ℕ) (hm : 0 < m) (sol : List ℝ → List ℝ) (data : List (List ℝ))
    (hne : data ≠ []) (hlen : ∀ d ∈ data, d.length = m) (hpos : ∀ d ∈ data, 0 < dot d d) :
    IsPool m dot data (pool .cosine sol data) (Real.sqrt m / (data.length : ℝ)) :=
  pool_cosine_isPool m hm sol data hne hlen hpos

/-- `X θ` of the coded normal equations: row `a` is `ip a (prediction)` -/
theorem gram_matVec {m : ℕ} {ip : List ℝ → List ℝ → ℝ} (h : IsIP m ip) (B : List (List ℝ))
    (θ : List ℝ) (hB : ∀ b ∈ B, b.length = m) :
    matVec (B.map (fun a => B.map (fun b => ip a b))) θ = B.map (fun a => ip a (predict m B θ)) :=
  gram_matVec_ip h B θ hB

/-- **Optimality of the least-squares fit.**  If `θ*` solves the normal equations (residual
    orthogonal to every basis RDM — the contract of `np.linalg.solve`), then no weight vector
    has a higher mean similarity with the training RDMs.  `ip` is arbitrary: plain or
    whitened, with or without mean removal. -/
theorem ols_maximises {m : ℕ} {ip : List ℝ → List ℝ → ℝ} (h : IsIP m ip) (B : List (List ℝ))
    (data : List (List ℝ)) (y : List ℝ) (κ : ℝ) (hB : ∀ b ∈ B, b.length = m)
    (hp : IsPool m ip data y κ) (hd : ∀ d ∈ data, 0 < ip d d) (θs : List ℝ)
    (hne : ∀ b ∈ B, ip b (predict m B θs) = ip b y) (θ : List ℝ) :
    meanSimIp ip (predict m B θ) data ≤ meanSimIp ip (predict m B θs) data := by
  have hps := predict_length' m B θs hB
  have key : ∀ θ' : List ℝ, ip (predict m B θ') y = ip (predict m B θ') (predict m B θs) := by
    intro θ'
    rw [h.predict_left B θ' y hB hp.len, h.predict_left B θ' _ hB hps]
    congr 1
    apply List.map_congr_left
    intro b hb
    exact (hne b hb).symm
  exact meanSim_le_of h data y κ hp hd _ _ (predict_length' m B θ hB) hps (key θ).le (key θs)

/-- non-vacuity of the hypotheses of `ols_maximises`: two basis RDMs, one training RDM, its
    pooled target, a solution of the normal equations -/
example : ∃ (B data : List (List ℝ)) (y θs : List ℝ) (κ : ℝ),
    (∀ b ∈ B, b.length = 2) ∧ IsPool 2 dot data y κ ∧ (∀ d ∈ data, 0 < dot d d) ∧
    (∀ b ∈ B, dot b (predict 2 B θs) = dot b y) ∧ 2 ≤ B.length := by
  refine ⟨[[1, 0], [0, 1]], [[3, 4]], [3, 4], [3, 4], 5, ?_, ?_, ?_, ?_, ?_⟩
  · intro b hb
    simp only [List.mem_cons, List.not_mem_nil, or_false] at hb
    rcases hb with rfl | rfl <;> rfl
  · refine ⟨by norm_num, rfl, ?_⟩
    intro a _
    have h25 : Real.sqrt (dot ([3, 4] : List ℝ) [3, 4]) = 5 := by
      have : dot ([3, 4] : List ℝ) [3, 4] = 5 ^ 2 := by norm_num [dot]
      rw [this, Real.sqrt_sq (by norm_num)]
    simp only [List.map_cons, List.map_nil, List.sum_cons, List.sum_nil, h25]
    ring
  · intro d hd
    simp only [List.mem_cons, List.not_mem_nil, or_false] at hd
    subst hd; norm_num [dot]
  · intro b hb
    simp only [List.mem_cons, List.not_mem_nil, or_false] at hb
    rcases hb with rfl | rfl <;> norm_num [predict, vadd, vscale, dot, List.replicate]
  · simp

/-- cosine criterion, in terms of the coded normal equations `X θ* = rhs` and the coded score -/
theorem ols_maximises_cosine (m : ℕ) (A : List (List ℝ)) (data : List (List ℝ)) (y : List ℝ)
    (κ : ℝ) (V : List (List ℝ)) (hA : ∀ b ∈ A, b.length = m) (hp : IsPool m dot data y κ)
    (hd : ∀ d ∈ data, 0 < dot d d) (θs : List ℝ)
    (hsolve : matVec (gramOf id A) θs = rhsOf id A y) (θ : List ℝ) (s ss : ℝ)
    (h1 : Fit.meanSim .cosine V (predict m A θ) data = some s)
    (h2 : Fit.meanSim .cosine V (predict m A θs) data = some ss) : s ≤ ss := by
  rw [meanSim_cosine] at h1 h2
  cases h1; cases h2
  apply ols_maximises (isIP_dot m) A data y κ hA hp hd θs
  have e := gram_matVec_ip (isIP_dot m) A θs hA
  have e' : matVec (gramOf id A) θs = A.map (fun a => dot a (predict m A θs)) := e
  rw [e'] at hsolve
  intro b hb
  have := List.map_inj_left.mp hsolve b hb
  simpa using this

/-- Pearson criterion: the same with mean-removed vectors -/
theorem ols_maximises_corr (m : ℕ) (B : List (List ℝ)) (data : List (List ℝ)) (y : List ℝ)
    (κ : ℝ) (V : List (List ℝ)) (hB : ∀ b ∈ B, b.length = m)
    (hp : IsPool m (fun a b => dot (center a) (center b)) data y κ)
    (hd : ∀ d ∈ data, 0 < dot (center d) (center d)) (θs : List ℝ)
    (hne : ∀ b ∈ B, dot (center b) (center (predict m B θs)) = dot (center b) (center y))
    (θ : List ℝ) (s ss : ℝ)
    (h1 : Fit.meanSim .corr V (predict m B θ) data = some s)
    (h2 : Fit.meanSim .corr V (predict m B θs) data = some ss) : s ≤ ss := by
  rw [meanSim_corr] at h1 h2
  cases h1; cases h2
  exact ols_maximises (isIP_center m) B data y κ hB hp hd θs hne θ

/-- whitened criteria: the same for the inner product `aᵀ W b` of a symmetric positive
    definite precision matrix `W = V⁻¹` (for which `_cosine_cov_weighted_slow` is the
    guarded similarity, `wcosFrom_eq_simIp`) -/
theorem ols_maximises_whitened (m : ℕ) (W : List (List ℝ)) (hW : SymPosDef W m)
    (B : List (List ℝ)) (data : List (List ℝ)) (y : List ℝ) (κ : ℝ)
    (hB : ∀ b ∈ B, b.length = m) (hp : IsPool m (ipW W) data y κ)
    (hd : ∀ d ∈ data, 0 < ipW W d d) (θs : List ℝ)
    (hne : ∀ b ∈ B, ipW W b (predict m B θs) = ipW W b y) (θ : List ℝ) :
    meanSimIp (ipW W) (predict m B θ) data ≤ meanSimIp (ipW W) (predict m B θs) data :=
  ols_maximises (isIP_W hW) B data y κ hB hp hd θs hne θ

/-- non-vacuity for the whitened criteria: `V` of three conditions with `sigma_k = I` is
    symmetric positive definite (so is its inverse); here directly a precision-like matrix -/
example : SymPosDef [[4, 1, 1], [1, 4, 1], [1, 1, 4]] 3 := by
  refine ⟨rfl, by simp, ?_, ?_⟩
  · intro i j hi hj
    interval_cases i <;> interval_cases j <;> simp [ent]
  · intro f hf
    have hq : Q [[4, 1, 1], [1, 4, 1], [1, 1, 4]] 3 f f
        = 3 * (f 0 * f 0 + f 1 * f 1 + f 2 * f 2) + (f 0 + f 1 + f 2) * (f 0 + f 1 + f 2) := by
      simp [Q, ent, Finset.sum_range_succ]; ring
    rw [hq]
    obtain ⟨i, hi, hne⟩ := hf
    have h0 := mul_self_nonneg (f 0)
    have h1 := mul_self_nonneg (f 1)
    have h2 := mul_self_nonneg (f 2)
    have h3 := mul_self_nonneg (f 0 + f 1 + f 2)
    have : 0 < f i * f i := mul_self_pos.mpr hne
    interval_cases i <;> nlinarith

/-! ## non-negative weights -/

/-- **Optimality under the sign constraint.**  If `θ* ≥ 0`, the gradient
    `w_b = ip b y − ip b (prediction)` is `≤ 0` for every basis RDM and `θ*·w = 0`
    (Karush–Kuhn–Tucker), then no non-negative weight vector scores higher. -/
theorem kkt_maximises_nonneg {m : ℕ} {ip : List ℝ → List ℝ → ℝ} (h : IsIP m ip)
    (B : List (List ℝ)) (data : List (List ℝ)) (y : List ℝ) (κ : ℝ)
    (hB : ∀ b ∈ B, b.length = m) (hp : IsPool m ip data y κ) (hd : ∀ d ∈ data, 0 < ip d d)
    (θs : List ℝ)
    (hdual : ∀ b ∈ B, ip b y - ip b (predict m B θs) ≤ 0)
    (hcs : dot θs (B.map (fun b => ip b y - ip b (predict m B θs))) = 0)
    (θ : List ℝ) (hθ : ∀ t ∈ θ, 0 ≤ t) :
    meanSimIp ip (predict m B θ) data ≤ meanSimIp ip (predict m B θs) data := by
  have hps := predict_length' m B θs hB
  have split : ∀ θ' : List ℝ, ip (predict m B θ') y =
      ip (predict m B θ') (predict m B θs) +
        dot θ' (B.map (fun b => ip b y - ip b (predict m B θs))) := by
    intro θ'
    rw [h.predict_left B θ' y hB hp.len, h.predict_left B θ' _ hB hps, ← dot_map_add]
    congr 1
    apply List.map_congr_left
    intro b _
    ring
  apply meanSim_le_of h data y κ hp hd _ _ (predict_length' m B θ hB) hps
  · rw [split θ]
    have := dot_nonpos θ (B.map (fun b => ip b y - ip b (predict m B θs))) hθ
      (by
        intro v hv
        obtain ⟨b, hb, rfl⟩ := List.mem_map.mp hv
        exact hdual b hb)
    linarith
  · rw [split θs, hcs, add_zero]

/-- non-vacuity of the KKT hypotheses: the constraint is active for the second basis RDM -/
example : ∃ (B : List (List ℝ)) (y θs : List ℝ),
    (∀ t ∈ θs, 0 ≤ t) ∧ (∀ b ∈ B, dot b y - dot b (predict 2 B θs) ≤ 0) ∧
    dot θs (B.map (fun b => dot b y - dot b (predict 2 B θs))) = 0 ∧
    ∃ b ∈ B, dot b y - dot b (predict 2 B θs) < 0 := by
  refine ⟨[[1, 0], [0, 1]], [3, -4], [3, 0], ?_, ?_, ?_, ⟨[0, 1], by simp, ?_⟩⟩
  · intro t ht
    simp only [List.mem_cons, List.not_mem_nil, or_false] at ht
    rcases ht with rfl | rfl <;> norm_num
  · intro b hb
    simp only [List.mem_cons, List.not_mem_nil, or_false] at hb
    rcases hb with rfl | rfl <;> norm_num [predict, vadd, vscale, dot, List.replicate]
  · norm_num [predict, vadd, vscale, dot, List.replicate]
  · norm_num [predict, vadd, vscale, dot, List.replicate]

/-- the executable KKT predicate with zero slack gives exactly those hypotheses -/
theorem kktOk_sound (G : List (List ℝ)) (c x : List ℝ) (h : kktOk 0 G c x = true) :
    (∀ t ∈ x, 0 ≤ t) ∧ (∀ v ∈ vsub c (matVec G x), v ≤ 0) ∧ dot x (vsub c (matVec G x)) = 0 :=
  kktOk_zero_sound G c x h

/-- cosine criterion with the coded `ATA`, `Aᵀy`: a point passing the KKT predicate is
    optimal among the non-negative weights -/
theorem kkt_maximises_nonneg_cosine (m : ℕ) (A : List (List ℝ)) (data : List (List ℝ))
    (y : List ℝ) (κ : ℝ) (V : List (List ℝ)) (hA : ∀ b ∈ A, b.length = m)
    (hp : IsPool m dot data y κ) (hd : ∀ d ∈ data, 0 < dot d d) (θs : List ℝ)
    (hk : kktOk 0 (gramOf id A) (rhsOf id A y) θs = true)
    (θ : List ℝ) (hθ : ∀ t ∈ θ, 0 ≤ t) (s ss : ℝ)
    (h1 : Fit.meanSim .cosine V (predict m A θ) data = some s)
    (h2 : Fit.meanSim .cosine V (predict m A θs) data = some ss) :
    (∀ t ∈ θs, 0 ≤ t) ∧ s ≤ ss := by
  rw [meanSim_cosine] at h1 h2
  cases h1; cases h2
  obtain ⟨hx, hw, hc⟩ := kktOk_zero_sound _ _ _ hk
  have e : matVec (gramOf id A) θs = A.map (fun a => dot a (predict m A θs)) :=
    gram_matVec_ip (isIP_dot m) A θs hA
  have ew : vsub (rhsOf id A y) (matVec (gramOf id A) θs) =
      A.map (fun b => dot b y - dot b (predict m A θs)) := by
    rw [e]
    show vsub (A.map (fun a => dot (id a) y)) _ = _
    exact vsub_map A _ _
  rw [ew] at hw hc
  refine ⟨hx, ?_⟩
  apply kkt_maximises_nonneg (isIP_dot m) A data y κ hA hp hd θs
  · intro b hb
    exact hw _ (List.mem_map.mpr ⟨b, hb, rfl⟩)
  · exact hc
  · exact hθ

/-- **partial**: when the active-set loop ends through its test, every coefficient still
    fixed at zero has a gradient not above the threshold in force at the returned point (dual
    feasibility; the threshold is loop state, re-set by `tolNext` after every iteration, round 5).
    Missing for the full KKT statement: `x ≥ 0`, `x = 0` off the passive set and zero gradient on
    it — they rest on the linear-solve contract inside the loop; the harness evaluates the
    executable predicate `kktOk` on every result of the model and of the library instead. -/
theorem nnls_exit_is_kkt_partial (tolNext : List ℝ → ℝ) (G : List (List ℝ)) (c : List ℝ) (fuel : ℕ)
    (tol : ℝ) (x : List ℝ) (p : List Bool) (w : List ℝ) (htol : tol ≤ tolNext x)
    (hexit : (nnlsOuter tolNext G c fuel tol x p w).2.2.2 = true) :
    ∀ i, i < (nnlsOuter tolNext G c fuel tol x p w).2.2.1.length →
      (nnlsOuter tolNext G c fuel tol x p w).2.1.getD i false = false →
      (nnlsOuter tolNext G c fuel tol x p w).2.2.1.getD i 0 ≤
        tolNext (nnlsOuter tolNext G c fuel tol x p w).1 :=
  nnlsOuter_exit tolNext G c fuel tol x p w hexit htol

/-- the full statement the partial theorem falls short of: under the contract of the linear
    solves (`SolveOK`: every inner solve — `np.linalg.lstsq` since round 5 — on a passive-set
    sub-matrix returns a solution of its equations) a run that ends through its loop tests returns a
    point passing the executable KKT predicate with the coded threshold at that point,
    `100·eps·max(max|Aᵀy|, max(|ATA|·x))` -/
def nnls_exit_is_kkt_full : Prop :=
  ∀ (eps : ℝ) (G : List (List ℝ)) (c : List ℝ), 0 ≤ eps → G.length = c.length →
    (∀ r ∈ G, r.length = c.length) → SolveOK G c → (nnls eps G c).2.2 = true →
    kktOk (nnlsTolAt eps G c (nnls eps G c).1) G c (nnls eps G c).1 = true

/-- **closed in round 3**: primal feasibility, zero gradient on the passive set and
    `x = 0` off it are invariants of both loops given the solve contract; with the dual
    feasibility at exit this is the whole KKT predicate -/
theorem nnls_exit_is_kkt : nnls_exit_is_kkt_full :=
  fun eps G c heps hG hrows hsolve hexit => nnls_exit_kkt eps G c heps hG hrows hsolve hexit

/-- … and the result is feasible, of the right length, with `w` the gradient at `x` -/
theorem nnls_result_feasible (eps : ℝ) (G : List (List ℝ)) (c : List ℝ)
    (hG : G.length = c.length) (hrows : ∀ r ∈ G, r.length = c.length)
    (hsolve : SolveOK G c) (hexit : (nnls eps G c).2.2 = true) :
    (nnls eps G c).1.length = c.length ∧ (∀ t ∈ (nnls eps G c).1, 0 ≤ t) ∧
      (nnls eps G c).2.1 = vsub c (matVec G (nnls eps G c).1) :=
  ⟨nnls_exit_length eps G c hG hrows hsolve hexit, nnls_exit_nonneg eps G c hG hrows hsolve hexit,
    nnls_exit_w eps G c hG hrows hsolve hexit⟩

/-- the feasibility loop (`while np.any(s_p < 0)`) always ends through its test: every
    pass moves one coefficient out of the passive set, so `k + 1` passes suffice -/
theorem nnls_inner_terminates (G : List (List ℝ)) (c : List ℝ) (hsolve : SolveOK G c)
    (fuel : ℕ) (x : List ℝ) (p : List Bool) (hp : p.length = c.length)
    (hfuel : (whereTrue p).length ≤ fuel) :
    (nnlsInner G c fuel x p (solve (subMat (whereTrue p) G) (gather (whereTrue p) c))).2.2.2 = true :=
  nnlsInner_fuel_suffices G c hsolve fuel x p _ hp rfl hfuel

/-- non-vacuity of the contract and of the exit hypothesis (2 × 2, one active constraint) -/
example : SolveOK [[2, 1], [1, 2]] [1, -1] ∧
    (nnls (0 : ℝ) [[2, 1], [1, 2]] [1, -1]).2.2 = true := by
  constructor
  · intro p hp
    match p, hp with
    | [a, b], _ =>
      cases a <;> cases b <;>
        norm_num [solve, elimStep, subMat, gather, whereTrue, matVec, dot, List.range_succ,
          List.getD_cons_zero, List.getD_cons_succ]
  · norm_num [nnls, nnlsOuter, nnlsInner, argmaxActive, blocking, maxAbs, scatter, vsub, nnlsTolAt,
      Rsa.Gen.C08.nnlsTol, Rsa.Gen.C08.nnlsTolIter, Rsa.Gen.C08.nnlsIterBound, Rsa.Gen.C08.nnlsStepLen,
      Rsa.Gen.C08.nnlsStepUpdate, solve, elimStep, subMat, gather, whereTrue, matVec, dot,
      List.range_succ, List.getD_cons_zero, List.getD_cons_succ, List.replicate_succ,
      List.set_cons_zero, List.set_cons_succ]

/-- **end to end, any criterion**: run the modelled active-set solver on the Gram matrix
    `G_ab = ip a b` and right-hand side `c_a = ip a y` of an inner product `ip` (plain, centred,
    whitened) in exact arithmetic (`eps = 0`, threshold 0).  If the linear solves honour their
    contract and the loop ends through its tests, the returned weights are non-negative and no
    non-negative weight vector has a higher mean similarity with the training RDMs. -/
theorem fit_regress_nn_maximises {m : ℕ} {ip : List ℝ → List ℝ → ℝ} (h : IsIP m ip)
    (B : List (List ℝ)) (data : List (List ℝ)) (y : List ℝ) (κ : ℝ)
    (hB : ∀ b ∈ B, b.length = m) (hp : IsPool m ip data y κ) (hd : ∀ d ∈ data, 0 < ip d d)
    (hsolve : SolveOK (B.map (fun a => B.map (fun b => ip a b))) (B.map (fun a => ip a y)))
    (hexit : (nnls 0 (B.map (fun a => B.map (fun b => ip a b))) (B.map (fun a => ip a y))).2.2 = true)
    (θ : List ℝ) (hθ : ∀ t ∈ θ, 0 ≤ t) :
    let θs := (nnls 0 (B.map (fun a => B.map (fun b => ip a b))) (B.map (fun a => ip a y))).1
    (∀ t ∈ θs, 0 ≤ t) ∧ meanSimIp ip (predict m B θ) data ≤ meanSimIp ip (predict m B θs) data := by
  intro θs
  have hG : (B.map (fun a => B.map (fun b => ip a b))).length = (B.map (fun a => ip a y)).length := by
    simp
  have hrows : ∀ r ∈ B.map (fun a => B.map (fun b => ip a b)),
      r.length = (B.map (fun a => ip a y)).length := by
    intro r hr
    obtain ⟨a, _, rfl⟩ := List.mem_map.mp hr
    simp
  have hk := nnls_exit_kkt 0 _ _ (le_refl _) hG hrows hsolve hexit
  rw [nnlsTolAt_zero] at hk
  obtain ⟨hx, hw, hc⟩ := kktOk_zero_sound _ _ _ hk
  have e : matVec (B.map (fun a => B.map (fun b => ip a b))) θs =
      B.map (fun a => ip a (predict m B θs)) := gram_matVec_ip h B θs hB
  have ew : vsub (B.map (fun a => ip a y)) (matVec (B.map (fun a => B.map (fun b => ip a b))) θs) =
      B.map (fun b => ip b y - ip b (predict m B θs)) := by
    rw [e]; exact vsub_map B _ _
  rw [ew] at hw hc
  refine ⟨hx, ?_⟩
  apply kkt_maximises_nonneg h B data y κ hB hp hd θs
  · intro b hb
    exact hw _ (List.mem_map.mpr ⟨b, hb, rfl⟩)
  · exact hc
  · exact hθ

/-- round 5 — **a linearly dependent basis RDM never enters**: for any inner product (plain,
    centred, whitened), if an RDM is a linear combination `Σ αᵢ Bᵢ` of basis RDMs whose gradient
    `ip Bᵢ y − ip Bᵢ (Σ xⱼ Bⱼ)` at the current point vanishes wherever `αᵢ ≠ 0` (the fitted, passive
    ones), then its own gradient is exactly 0 — not above any threshold `tol ≥ 0`, so the outer loop
    of `_nn_least_squares` (which releases a coefficient only on `gradient > tol`) cannot release
    it.  In floating point that gradient is the rounding error of `Aᵀy − ATA·x`, a difference of
    products; the repaired threshold `100·eps·max(max|Aᵀy|, max(|ATA|·x))` is what keeps it out. -/
theorem nnls_dependent_gradient_zero {m : ℕ} {ip : List ℝ → List ℝ → ℝ} (h : IsIP m ip)
    (B : List (List ℝ)) (y x α : List ℝ) (hB : ∀ b ∈ B, b.length = m) (hy : y.length = m)
    (hzero : ∀ a ∈ List.zipWith (fun gi ai => gi * ai)
      (B.map (fun b => ip b y - ip b (predict m B x))) α, a = 0) :
    ip (predict m B α) y - ip (predict m B α) (predict m B x) = 0 ∧
      ∀ tol : ℝ, 0 ≤ tol → ¬ tol < ip (predict m B α) y - ip (predict m B α) (predict m B x) := by
  have hsub : ∀ (L : List (List ℝ)) (a : List ℝ) (f g : List ℝ → ℝ),
      dot a (L.map f) - dot a (L.map g) = dot a (L.map (fun b => f b - g b)) := by
    intro L
    induction L with
    | nil => intro a f g; simp
    | cons b L ih =>
      intro a f g
      cases a with
      | nil => simp
      | cons t a =>
        simp only [List.map_cons, dot_cons_cons]
        rw [← ih a f g]; ring
  have key : ip (predict m B α) y - ip (predict m B α) (predict m B x) = 0 := by
    rw [h.predict_left B α y hB hy,
      h.predict_left B α (predict m B x) hB (predict_length m B x hB), hsub]
    exact dot_zero_of_products α _ hzero
  exact ⟨key, fun tol htol hlt => by rw [key] at hlt; exact absurd hlt (not_lt.mpr htol)⟩

/-- non-vacuity: `B₂ = 2·B₀ + B₁`, `x = (1, 1, 0)` fits `y = B₀ + B₁` exactly — the gradients of
    `B₀`, `B₁` vanish, and so does the one of the dependent `B₂` -/
example : dot [2, 1, 3] [1, 1, 2] - dot [2, 1, 3] (predict 3 [[1, 0, 1], [0, 1, 1], [2, 1, 3]] [1, 1, (0 : ℝ)]) = 0 := by
  norm_num [predict, vadd, vscale, dot, List.replicate_succ]

/-- the same for the coded cosine problem: `ATA = gramOf id A`, `Aᵀy = rhsOf id A y`, coded score -/
theorem fit_regress_nn_maximises_cosine (m : ℕ) (A : List (List ℝ)) (data : List (List ℝ))
    (y : List ℝ) (κ : ℝ) (V : List (List ℝ)) (hA : ∀ b ∈ A, b.length = m)
    (hp : IsPool m dot data y κ) (hd : ∀ d ∈ data, 0 < dot d d)
    (hsolve : SolveOK (gramOf id A) (rhsOf id A y))
    (hexit : (nnls 0 (gramOf id A) (rhsOf id A y)).2.2 = true)
    (θ : List ℝ) (hθ : ∀ t ∈ θ, 0 ≤ t) (s ss : ℝ)
    (h1 : Fit.meanSim .cosine V (predict m A θ) data = some s)
    (h2 : Fit.meanSim .cosine V (predict m A (nnls 0 (gramOf id A) (rhsOf id A y)).1) data = some ss) :
    (∀ t ∈ (nnls 0 (gramOf id A) (rhsOf id A y)).1, 0 ≤ t) ∧ s ≤ ss := by
  rw [meanSim_cosine] at h1 h2
  cases h1; cases h2
  have eG : gramOf id A = A.map (fun a => A.map (fun b => dot a b)) := rfl
  have ec : rhsOf id A y = A.map (fun a => dot a y) := rfl
  rw [eG, ec] at hsolve hexit ⊢
  exact fit_regress_nn_maximises (isIP_dot m) A data y κ hA hp hd hsolve hexit θ hθ

/-- not provable in the model: the numerical optimisers reach the characterised maximum -/
def optimiser_reaches_maximum_full : Prop :=
  ∀ (m : ℕ) (B data : List (List ℝ)) (θ_bfgs θs : List ℝ),
    (∀ θ, meanSimIp dot (predict m B θ) data ≤ meanSimIp dot (predict m B θs) data) →
    meanSimIp dot (predict m B θ_bfgs) data = meanSimIp dot (predict m B θs) data

/-! ## selection and interpolation models -/

/-- `fit_select` returns a candidate whose evaluation no other candidate exceeds -/
theorem select_is_argmax (evals : List ℝ) (hne : evals ≠ []) :
    fitSelect evals < evals.length ∧
      ∀ j, j < evals.length → evals.getD j 0 ≤ evals.getD (fitSelect evals) 0 := by
  cases evals with
  | nil => exact absurd rfl hne
  | cons a r =>
    obtain ⟨h1, h2, h3, _⟩ := argmaxFirst_spec a r
    unfold fitSelect
    refine ⟨h1, ?_⟩
    intro j hj
    rw [h2]; exact h3 j hj

/-- … and it is the first such candidate -/
theorem select_first (evals : List ℝ) (hne : evals ≠ []) :
    ∀ j, j < fitSelect evals → evals.getD j 0 < evals.getD (fitSelect evals) 0 := by
  cases evals with
  | nil => exact absurd rfl hne
  | cons a r =>
    obtain ⟨_, h2, _, h4⟩ := argmaxFirst_spec a r
    unfold fitSelect
    intro j hj
    rw [h2]; exact h4 j hj

example : fitSelect [(1 : ℚ), 3, 2, 3] = 1 := by decide +kernel

/-- θ of an interpolation fit: `w` and `1 − w` on two adjacent RDMs, zero elsewhere, summing
    to one, within `[0,1]` -/
theorem interpolate_shape (k i : ℕ) (w : ℝ) (hi : i + 1 < k) (h0 : 0 ≤ w) (h1 : w ≤ 1) :
    (interpTheta k i w).length = k ∧
    (∀ j, j < k → (interpTheta k i w).getD j 0 =
      if j = i then w else if j = i + 1 then 1 - w else 0) ∧
    (interpTheta k i w).sum = 1 ∧
    (∀ t ∈ interpTheta k i w, 0 ≤ t ∧ t ≤ 1) := by
  refine ⟨interpTheta_length k i w, interpTheta_getD k i w, interpTheta_sum k i w hi, ?_⟩
  intro t ht
  rw [interpTheta_spec] at ht
  obtain ⟨j, _, rfl⟩ := List.mem_map.mp ht
  by_cases hj : j = i
  · simp [hj, h0, h1]
  · by_cases hj2 : j = i + 1
    · simp [hj2, h0, h1]
    · simp [hj, hj2]

/-- if every per-segment result of the bounded scalar search is a minimiser of the loss on
    its segment (its contract), the returned (segment, weight) minimises the loss over all
    convex mixtures of adjacent RDMs -/
theorem interpolate_best_of_segments (loss : ℕ → ℝ → ℝ) (ws losses : List ℝ)
    (hne : losses ≠ [])
    (hval : ∀ i, i < losses.length → losses.getD i 0 = loss i (ws.getD i 0))
    (hmin : ∀ i, i < losses.length → ∀ w, 0 ≤ w → w ≤ 1 → losses.getD i 0 ≤ loss i w) :
    let i0 := (argminFirst losses).1
    i0 < losses.length ∧
      ∀ i, i < losses.length → ∀ w, 0 ≤ w → w ≤ 1 → loss i0 (ws.getD i0 0) ≤ loss i w := by
  cases losses with
  | nil => exact absurd rfl hne
  | cons a r =>
    obtain ⟨h1, h2, h3, _⟩ := argminFirst_spec a r
    refine ⟨h1, ?_⟩
    intro i hi w hw0 hw1
    rw [← hval _ h1, h2]
    exact le_trans (h3 i hi) (hmin i hi w hw0 hw1)

/-- the θ returned by `fit_interpolate` has the shape above whenever the scalar search
    stayed within its bounds -/
theorem fitInterpolate_shape (k : ℕ) (ws losses : List ℝ) (hne : losses ≠ [])
    (hk : losses.length + 1 = k)
    (hb : ∀ i, i < losses.length → 0 ≤ ws.getD i 0 ∧ ws.getD i 0 ≤ 1) :
    (fitInterpolate k ws losses).sum = 1 ∧ ∀ t ∈ fitInterpolate k ws losses, 0 ≤ t ∧ t ≤ 1 := by
  cases losses with
  | nil => exact absurd rfl hne
  | cons a r =>
    obtain ⟨h1, _, _, _⟩ := argminFirst_spec a r
    have hi : (argminFirst (a :: r)).1 + 1 < k := by omega
    obtain ⟨hw0, hw1⟩ := hb _ h1
    obtain ⟨_, _, hs, hr⟩ := interpolate_shape k _ _ hi hw0 hw1
    unfold fitInterpolate
    simp only [interpThetaRes_eq]
    exact ⟨hs, hr⟩

example : fitInterpolate 3 [(1 : ℚ) / 4, 1 / 2] [-3, -5] = [0, 1 / 2, 1 / 2] := by decide +kernel

/-! ## normalisation -/

/-- a normalised fit has unit norm -/
theorem normalised_unit_norm (θ : List ℝ) (h : 0 < dot θ θ) :
    dot (normalise θ) (normalise θ) = 1 := by
  rw [normalise_spec, if_pos h, dot_map_div, Real.mul_self_sqrt h.le]
  exact div_self h.ne'

/-- normalising is a positive rescaling -/
theorem normalise_pos_scale (θ : List ℝ) (h : 0 < dot θ θ) :
    ∃ t : ℝ, 0 < t ∧ normalise θ = vscale t θ := by
  refine ⟨1 / Real.sqrt (dot θ θ), by positivity, ?_⟩
  rw [normalise_spec, if_pos h, map_div_eq_vscale]

/-- … and a positive rescaling of the weights does not change the score ("up to scale") -/
theorem score_scale_invariant {m : ℕ} {ip : List ℝ → List ℝ → ℝ} (h : IsIP m ip)
    (B : List (List ℝ)) (data : List (List ℝ)) (hB : ∀ b ∈ B, b.length = m)
    (hd : ∀ d ∈ data, d.length = m) (θ : List ℝ) (t : ℝ) (ht : 0 < t) :
    meanSimIp ip (predict m B (vscale t θ)) data = meanSimIp ip (predict m B θ) data := by
  unfold meanSimIp
  congr 1
  apply List.map_congr_left
  intro d hdm
  rw [predict_vscale m B θ t hB]
  exact simIp_scale h t ht _ d (predict_length' m B θ hB) (hd d hdm)

/-! ## only the named conditions enter, with their multiplicity -/

/-- the subsampled vector has one entry per pair of selected positions -/
theorem subsample_length {β : Type} (n : ℕ) (sel : List ℕ) (v : List β) :
    (subsample n sel v).length = triLen sel.length := subsample_length' n sel v

/-- entries involving a condition outside the selection do not matter -/
theorem subsample_uses_selected_only {β : Type} (n : ℕ) (sel : List ℕ) (v v' : List β)
    (h : ∀ i ∈ sel, ∀ j ∈ sel, entryNan n v i j = entryNan n v' i j) :
    subsample n sel v = subsample n sel v' := subsample_congr n sel v v' h

/-- two bases that agree on all pairs of selected conditions (`Forall₂` over the RDMs) -/
def AgreeOn {β : Type} (n : ℕ) (sel : List ℕ) (B B' : List (List β)) : Prop :=
  List.Forall₂ (fun b b' => ∀ i ∈ sel, ∀ j ∈ sel, entryNan n b i j = entryNan n b' i j) B B'

theorem selectedRows_congr (n : ℕ) (desc v : List ℕ) (B B' : List (List (Option ℝ)))
    (h : AgreeOn n (selection desc v) B B') :
    selectedRows n desc (some v) B = selectedRows n desc (some v) B' := by
  unfold selectedRows
  simp only
  congr 1
  induction h with
  | nil => rfl
  | cons hb _ ih =>
    simp only [List.map_cons]
    rw [ih, subsample_congr n _ _ _ hb]

/-- the regression fits and the score depend on the basis only through the entries of pairs
    of selected conditions: changing any other entry changes nothing -/
theorem fit_uses_selected_only (meth : Method) (n : ℕ) (desc v : List ℕ)
    (B B' : List (List (Option ℝ))) (data : List (List (Option ℝ))) (sg : SigmaK ℝ)
    (norm : Bool) (eps : ℝ) (θ : List ℝ) (h : AgreeOn n (selection desc v) B B') :
    fitRegressCall meth n desc (some v) B data sg norm =
      fitRegressCall meth n desc (some v) B' data sg norm ∧
    fitRegressNNCall eps meth n desc (some v) B data sg norm =
      fitRegressNNCall eps meth n desc (some v) B' data sg norm ∧
    scoreCall meth n desc (some v) B data sg θ = scoreCall meth n desc (some v) B' data sg θ := by
  have e := selectedRows_congr n desc v B B' h
  have ep : prepare meth n desc (some v) B data sg = prepare meth n desc (some v) B' data sg := by
    unfold prepare; rw [e]
  refine ⟨?_, ?_, ?_⟩
  · unfold fitRegressCall; rw [ep]
  · unfold fitRegressNNCall; rw [ep]
  · unfold scoreCall; rw [ep]

example : AgreeOn 3 [0, 2] [[some (1 : ℝ), some 2, some 3]] [[some 7, some 2, some 9]] := by
  refine List.Forall₂.cons ?_ List.Forall₂.nil
  intro i hi j hj
  simp only [List.mem_cons, List.not_mem_nil, or_false] at hi hj
  rcases hi with rfl | rfl <;> rcases hj with rfl | rfl <;> simp [entryNan, triIdx]

/-- bootstrap multiplicity: the pair of conditions `a ≠ b` occurs among the pairs of the
    selection exactly (multiplicity of `a`) × (multiplicity of `b`) times -/
theorem subsample_multiplicity (sel : List ℕ) (a b : ℕ) (hab : a ≠ b) :
    (pairsOf sel).countP (fun p => (p.1 == a && p.2 == b) || (p.1 == b && p.2 == a)) =
      sel.count a * sel.count b := count_pairs_mult sel a b hab

/-- the selection lists positions in ascending order … -/
theorem selection_sorted (desc value : List ℕ) :
    (selection desc value).Pairwise (fun a b => a ≤ b) := selection_sorted' desc value

/-- … and contains, with multiplicity, exactly the positions carrying a requested label -/
theorem selection_perm (desc value : List ℕ) :
    (selection desc value).Perm
      (value.flatMap (fun v => (List.range desc.length).filter (fun i => desc.getD i 0 == v))) :=
  selection_perm' desc value

example : subsample 3 [0, 2, 2] [(10 : ℚ), 20, 30] = [some 20, some 20, none] := by
  decide +kernel


/-! ## round 3: pooled targets for the other criteria -/

/-- the coded correlation pooling is a pooled target for the centred inner product -/
theorem pool_corr_is_pool (m : ℕ) (hm : 0 < m) (sol : List ℝ → List ℝ) (data : List (List ℝ))
    (hne : data ≠ []) (hlen : ∀ d ∈ data, d.length = m)
    (hpos : ∀ d ∈ data, 0 < dot (center d) (center d)) :
    IsPool m (fun a b => dot (center a) (center b)) data (pool .corr sol data)
      (Real.sqrt m / (data.length : ℝ)) := pool_corr_isPool m hm sol data hne hlen hpos

/-- the coded whitened-cosine pooling is a pooled target for `aᵀWb` when the solves return `W·` -/
theorem pool_cosine_cov_is_pool (m : ℕ) {W : List (List ℝ)} (hW : SymPosDef W m)
    (sol : List ℝ → List ℝ) (hsol : ∀ v, v.length = m → sol v = matVec W v)
    (data : List (List ℝ)) (hne : data ≠ []) (hlen : ∀ d ∈ data, d.length = m) :
    IsPool m (ipW W) data (pool .cosineCov sol data) (1 / (data.length : ℝ)) :=
  pool_cosineCov_isPool m hW sol hsol data hne hlen

/-- the coded whitened-correlation pooling is a pooled target for `ãᵀWb̃` -/
theorem pool_corr_cov_is_pool (m : ℕ) {W : List (List ℝ)} (hW : SymPosDef W m)
    (sol : List ℝ → List ℝ) (hsol : ∀ v, v.length = m → sol v = matVec W v)
    (data : List (List ℝ)) (hne : data ≠ []) (hlen : ∀ d ∈ data, d.length = m) :
    IsPool m (ipCW W) data (pool .corrCov sol data) (1 / (data.length : ℝ)) :=
  pool_corrCov_isPool m hW sol hsol data hne hlen

/-- whitened correlation: the least-squares fit in the centred, `W`-weighted inner product
    attains the maximum (with the coded pooled target) -/
theorem ols_maximises_whitened_corr (m : ℕ) {W : List (List ℝ)} (hW : SymPosDef W m)
    (sol : List ℝ → List ℝ) (hsol : ∀ v, v.length = m → sol v = matVec W v)
    (B : List (List ℝ)) (data : List (List ℝ)) (hB : ∀ b ∈ B, b.length = m)
    (hne : data ≠ []) (hlen : ∀ d ∈ data, d.length = m) (hd : ∀ d ∈ data, 0 < ipCW W d d)
    (θs : List ℝ)
    (hnorm : ∀ b ∈ B, ipCW W b (predict m B θs) = ipCW W b (pool .corrCov sol data)) (θ : List ℝ) :
    meanSimIp (ipCW W) (predict m B θ) data ≤ meanSimIp (ipCW W) (predict m B θs) data :=
  ols_maximises (isIP_centerW hW) B data _ _ hB
    (pool_corrCov_isPool m hW sol hsol data hne hlen) hd θs hnorm θ

/-- plain correlation with the coded pooled target -/
theorem ols_maximises_corr_coded (m : ℕ) (hm : 0 < m) (sol : List ℝ → List ℝ) (B : List (List ℝ))
    (data : List (List ℝ)) (hB : ∀ b ∈ B, b.length = m) (hne : data ≠ [])
    (hlen : ∀ d ∈ data, d.length = m) (hd : ∀ d ∈ data, 0 < dot (center d) (center d)) (θs : List ℝ)
    (hnorm : ∀ b ∈ B, dot (center b) (center (predict m B θs)) =
      dot (center b) (center (pool .corr sol data))) (θ : List ℝ) :
    meanSimIp (fun a b => dot (center a) (center b)) (predict m B θ) data ≤
      meanSimIp (fun a b => dot (center a) (center b)) (predict m B θs) data :=
  ols_maximises (isIP_center m) B data _ _ hB (pool_corr_isPool m hm sol data hne hlen hd) hd θs hnorm θ

example : ∀ d ∈ [[(1 : ℝ), 2, 4]], 0 < dot (center d) (center d) := by
  intro d hd
  simp only [List.mem_cons, List.not_mem_nil, or_false] at hd
  subst hd
  norm_num [center, mean, dot]

/-! ## round 3: the optimising fitters hand scipy an objective whose minimisers are maximisers -/

/-- `_loss` with ridge weight 0 is minus the mean similarity (generated leaf) -/
theorem loss_is_minus_score (score : List ℝ → ℝ) (θ : List ℝ) : lossOf score 0 θ = - score θ :=
  lossOf_zero_ridge score θ

/-- the coded objective in general: minus the mean similarity plus `ridge_weight · Σθ²` -/
theorem loss_value_spec (score : List ℝ → ℝ) (ridge : ℝ) (θ : List ℝ) :
    lossOf score ridge θ = - score θ + ridge * dot θ θ := by
  unfold lossOf Rsa.Gen.C08.lossValue
  ring

/-- `fit_optimize`: a minimiser of the coded objective maximises the criterion -/
theorem optimize_minimiser_maximises (score : List ℝ → ℝ) (θs : List ℝ)
    (hmin : ∀ θ, lossOf score 0 θs ≤ lossOf score 0 θ) : ∀ θ, score θ ≤ score θs := by
  intro θ
  have := hmin θ
  rw [lossOf_zero_ridge, lossOf_zero_ridge] at this
  linarith

/-- `fit_optimize_positive`: the objective is evaluated at `theta ** 2`; a minimiser `φ*` of
    it gives weights `φ*²` that are non-negative and that no non-negative weight vector beats -/
theorem optimize_positive_minimiser_maximises (score : List ℝ → ℝ) (φs : List ℝ)
    (hmin : ∀ φ, lossPos score 0 φs ≤ lossPos score 0 φ) :
    (∀ t ∈ squareParam φs, 0 ≤ t) ∧
      ∀ θ : List ℝ, (∀ t ∈ θ, 0 ≤ t) → score θ ≤ score (squareParam φs) := by
  refine ⟨squareParam_nonneg φs, ?_⟩
  intro θ hθ
  have := hmin (θ.map Real.sqrt)
  unfold lossPos at this
  rw [lossOf_zero_ridge, lossOf_zero_ridge, squareParam_sqrt θ hθ] at this
  linarith

/-- the restart with the least loss is returned (`np.argmin`, first minimum) -/
theorem optimize_picks_least_loss (thetas : List (List ℝ)) (losses : List ℝ) (hne : losses ≠ []) :
    (argminFirst losses).1 < losses.length ∧
      pickBest thetas losses = thetas.getD (argminFirst losses).1 [] ∧
      ∀ j, j < losses.length → losses.getD (argminFirst losses).1 0 ≤ losses.getD j 0 := by
  cases losses with
  | nil => exact absurd rfl hne
  | cons a r =>
    obtain ⟨h1, h2, h3, _⟩ := argminFirst_spec a r
    refine ⟨h1, rfl, ?_⟩
    intro j hj
    rw [h2]; exact h3 j hj

/-- if the best restart is a global minimiser of the objective, the value returned by
    `fit_optimize` (normalised or not) scores at least as high as every weight vector,
    for any score that does not depend on the positive scale of the weights -/
theorem fit_optimize_maximises (score : List ℝ → ℝ)
    (hscale : ∀ (θ : List ℝ) (t : ℝ), 0 < t → score (vscale t θ) = score θ)
    (thetas : List (List ℝ)) (losses : List ℝ) (norm : Bool)
    (hmin : ∀ θ, lossOf score 0 (pickBest thetas losses) ≤ lossOf score 0 θ) (θ : List ℝ) :
    score θ ≤ score (fitOptimize thetas losses norm) := by
  have hopt := optimize_minimiser_maximises score _ hmin θ
  unfold fitOptimize
  cases norm with
  | false => simpa using hopt
  | true =>
    simp only [if_true]
    by_cases hpos : 0 < dot (pickBest thetas losses) (pickBest thetas losses)
    · obtain ⟨t, ht, e⟩ := normalise_pos_scale _ hpos
      rw [e, hscale _ t ht]; exact hopt
    · rw [normalise_spec, if_neg hpos]; exact hopt

example : ∃ (score : List ℝ → ℝ) (φs : List ℝ), (∀ φ, lossPos score 0 φs ≤ lossPos score 0 φ) ∧
    squareParam φs = [4] := by
  refine ⟨fun θ => - (θ.getD 0 0 - 4) ^ 2, [2], ?_, ?_⟩
  · intro φ
    unfold lossPos
    rw [lossOf_zero_ridge, lossOf_zero_ridge, squareParam_getD, squareParam_getD]
    simp only [List.map_cons, List.map_nil, List.getD_cons_zero, neg_neg]
    have : ((2 : ℝ) * 2 - 4) ^ 2 = 0 := by norm_num
    rw [this]
    positivity
  · rw [squareParam_getD]; norm_num

/-! ## round 3: what the generated leaves of `fitter.py` / `model.py` say -/

/-- `fit_interpolate` assembles its result exactly as its objective `loss_opt` builds the
    parameter vector it evaluates: the returned θ is the one whose loss was minimised -/
theorem interpolate_assembly_matches_objective (k i : ℕ) (w : ℝ) :
    interpThetaRes k i w = interpTheta k i w ∧
      interpTheta k i w =
        (List.range k).map (fun j => if j = i then w else if j = i + 1 then 1 - w else 0) :=
  ⟨interpThetaRes_eq k i w, interpTheta_spec k i w⟩

/-- one segment per adjacent pair -/
theorem interpolate_segments (k : ℕ) : Rsa.Gen.C08.interpSegments k = k - 1 := rfl

/-- the four weighted-sum fitters normalise by the same formula `θ / √(Σθ²)` -/
theorem leaf_norm_entries_agree (t s : ℝ) :
    Rsa.Gen.C08.normEntryRegressNN t s = Rsa.Gen.C08.normEntryRegress t s ∧
    Rsa.Gen.C08.normEntryOptimize t s = Rsa.Gen.C08.normEntryRegress t s ∧
    Rsa.Gen.C08.normEntryOptimizePositive t s = Rsa.Gen.C08.normEntryRegress t s ∧
    Rsa.Gen.C08.normEntryRegress t s = t / s := normEntries_agree t s

/-- the loop tests of `_nn_least_squares` are the ones of the model: a coefficient enters iff
    its gradient is strictly above the threshold, the feasibility loop runs while some passive
    coefficient is strictly negative, exactly the non-negative ones never block a step -/
theorem leaf_nnls_tests (wmax tol s : ℝ) :
    (Rsa.Gen.C08.nnlsEnter wmax tol = 1 ↔ tol < wmax) ∧
    (Rsa.Gen.C08.nnlsInnerTest s = 1 ↔ s < 0) ∧
    (Rsa.Gen.C08.nnlsStepFree s = 1 ↔ ¬ s < 0) :=
  ⟨nnlsEnter_iff wmax tol, nnlsInnerTest_iff s, nnlsStepFree_iff s⟩

/-- threshold `100·eps·max|Aᵀy|` and iteration bound `3n` -/
theorem leaf_nnls_bounds (eps a : ℝ) (k : ℕ) :
    Rsa.Gen.C08.nnlsTol eps a = 100 * eps * a ∧ Rsa.Gen.C08.nnlsIterBound k = 3 * k := by
  constructor
  · simp [Rsa.Gen.C08.nnlsTol]
  · rfl

/-- round 5 — the threshold re-set at the end of every outer iteration is
    `100·eps·max(max|Aᵀy|, max(|ATA|·x))`: never below the threshold set before the loop, equal to
    it as long as the products stay below the scale of `Aᵀy` (in particular at `x = 0`), monotone
    in the size of the products, and 0 in exact arithmetic (`eps = 0`) -/
theorem leaf_nnls_tol_iter (eps a q q' : ℝ) (heps : 0 ≤ eps) :
    Rsa.Gen.C08.nnlsTolIter eps a q = 100 * eps * max a q ∧
    Rsa.Gen.C08.nnlsTol eps a ≤ Rsa.Gen.C08.nnlsTolIter eps a q ∧
    (q ≤ a → Rsa.Gen.C08.nnlsTolIter eps a q = Rsa.Gen.C08.nnlsTol eps a) ∧
    (q ≤ q' → Rsa.Gen.C08.nnlsTolIter eps a q ≤ Rsa.Gen.C08.nnlsTolIter eps a q') ∧
    Rsa.Gen.C08.nnlsTolIter 0 a q = 0 := by
  have h100 : (0 : ℝ) ≤ ((100 : ℕ) : ℝ) * eps := mul_nonneg (by norm_num) heps
  refine ⟨by simp [Rsa.Gen.C08.nnlsTolIter], nnlsTol_le_iter heps, ?_, ?_, by simp [Rsa.Gen.C08.nnlsTolIter]⟩
  · intro h
    simp [Rsa.Gen.C08.nnlsTolIter, Rsa.Gen.C08.nnlsTol, max_eq_left h]
  · intro h
    unfold Rsa.Gen.C08.nnlsTolIter
    exact mul_le_mul_of_nonneg_left (max_le_max (le_refl a) h) h100

/-- the model's threshold at the start point `x = 0` is the one the code sets before the loop:
    `|ATA|·0 = 0 ≤ max|Aᵀy|` -/
theorem nnls_tol_at_start (eps : ℝ) (G : List (List ℝ)) (c : List ℝ) (k : ℕ) :
    nnlsTolAt eps G c (List.replicate k 0) = Rsa.Gen.C08.nnlsTol eps (maxAbs c) := by
  have hz : prodLevel G (List.replicate k (0 : ℝ)) = 0 := by
    unfold prodLevel matVec
    have : ∀ r : List ℝ, dot r (List.replicate k (0 : ℝ)) = 0 := fun r => by
      rw [dot_comm', dot_replicate_zero]
    simp only [this]
    unfold maxAbs
    generalize (absMat G) = M
    induction M with
    | nil => rfl
    | cons r M ih => simpa using ih
  unfold nnlsTolAt
  rw [hz]
  simp [Rsa.Gen.C08.nnlsTolIter, Rsa.Gen.C08.nnlsTol, max_eq_left (maxAbs_nonneg c)]

/-- the step `x + α(s − x)` with `α ≤ x/(x − s)` keeps every coefficient non-negative and
    puts the blocking coefficient on zero -/
theorem leaf_nnls_step (x s a : ℝ) (hx : 0 ≤ x) :
    (s < 0 → a ≤ Rsa.Gen.C08.nnlsStepLen x s → 0 ≤ Rsa.Gen.C08.nnlsStepUpdate x a s) ∧
    (s < 0 → Rsa.Gen.C08.nnlsStepUpdate x (Rsa.Gen.C08.nnlsStepLen x s) s = 0) ∧
    (0 ≤ s → 0 ≤ a → a ≤ 1 → 0 ≤ Rsa.Gen.C08.nnlsStepUpdate x a s) :=
  ⟨fun hs ha => step_keeps_nonneg x s a hx hs ha, fun hs => step_blocking_zero x s hx hs,
    fun hs h0 h1 => step_free_nonneg x s a hx hs h0 h1⟩

section classes3
variable {K : Type} [Field K] [LinearOrder K] [IsStrictOrderedRing K]

/-- `ModelInterpolate.predict_rdm` clamps the weights at zero (`np.maximum(theta, 0)`):
    the clamped vector is non-negative, equals θ where θ ≥ 0, and the prediction is the
    weighted sum for the clamped weights -/
theorem interpolate_predict_rdm_clamps (name : String) (n : ℕ) (obj : List (List K)) (d : Desc)
    (θ : List K) :
    (predictRdm (mkModel .interpolate name n obj d) (.vec θ)).map (fun r => r.1) =
        some [predict (vecLen (mkModel .interpolate name n obj d)) obj (clampNonneg θ)] ∧
      clampNonneg θ = θ.map (fun t => max t 0) ∧ (∀ t ∈ clampNonneg θ, 0 ≤ t) ∧
      clampNonneg (clampNonneg θ) = clampNonneg θ := by
  have hspec : clampNonneg θ = θ.map (fun t => max t 0) := by
    unfold clampNonneg
    apply List.map_congr_left
    intro t _
    simp [Rsa.Gen.C08.interpClamp]
  have hnn : ∀ t ∈ clampNonneg θ, 0 ≤ t := by
    rw [hspec]
    intro t ht
    obtain ⟨u, _, rfl⟩ := List.mem_map.mp ht
    exact le_max_right _ _
  exact ⟨rfl, hspec, hnn, clampNonneg_id _ hnn⟩

/-- the `None` default of `ModelInterpolate.predict`: ½, ½ on the first two RDMs -/
theorem interpolate_default_spec (j : ℕ) :
    (Rsa.Gen.C08.interpDefault j : K) = if j < 2 then 1 / 2 else 0 := by
  unfold Rsa.Gen.C08.interpDefault
  by_cases h0 : j = 0
  · subst h0; simp
  · by_cases h1 : j = 1
    · subst h1; simp
    · have : ¬ j < 2 := by omega
      simp [h0, h1, this]

/-- `Model.fit` dispatches on the class: fixed ↦ `fit_mock` (no parameters, zeros), select ↦
    `fit_select`, weighted ↦ `fit_optimize`, interpolate ↦ `fit_interpolate`; the arguments
    are passed through unchanged -/
theorem default_fitter_dispatch {Args Res : Type} (fitters : Fitter → Model K → Args → Res)
    (M : Model K) (a : Args) :
    defaultFitter .fixed = .mock ∧ defaultFitter .select = .select ∧
    defaultFitter .weighted = .optimize ∧ defaultFitter .interpolate = .interpolate ∧
    modelFit fitters M a = fitters (defaultFitter M.kind) M a ∧
    (M.kind = .fixed → fitMock M = []) ∧
    (M.kind = .select → nParam M = 1) ∧
    (M.kind = .weighted ∨ M.kind = .interpolate → nParam M = M.obj.length) := by
  refine ⟨rfl, rfl, rfl, rfl, rfl, ?_, ?_, ?_⟩
  · intro h; simp [fitMock, nParam, h, Kind.code, Rsa.Gen.C08.nParam]
  · intro h; simp [nParam, h, Kind.code, Rsa.Gen.C08.nParam]
  · intro h
    rcases h with h | h <;> simp [nParam, h, Kind.code, Rsa.Gen.C08.nParam]

end classes3

/-! ## reuse sessions (round 4): nothing survives a call

One model / data / `sigma_k` object is fitted and asked for predictions several times in
succession.  `Rsa.Fit.runSession` runs a list of steps through the model with an explicit state:
the content of the objects plus whatever the modules or objects keep on the side.  A call consults
and updates that side state exactly when today's source has a place to keep it, and scribbles into
its arguments exactly when today's source has a statement that can do so (leaves `moduleState`,
`inputWrites`, counted from `model/fitter.py`, `util/pooling.py`, the `predict` / `predict_rdm` /
`fit` methods of `model/model.py`, `_parse_nan_vectors`, `get_v`, `RDMs.get_vectors` /
`subsample_pattern` / `__getitem__` / `copy` on every run).  An in-place edit or a cache therefore
breaks `inputs_not_written` / `no_module_state`, and with them everything below. -/

section sessions
variable {K σ : Type} [Field K] [LinearOrder K] [IsStrictOrderedRing K] [HasSqrt K]

/-- today's fitters, poolings, predictions and RDM accessors contain no statement that stores into
    (a view of) an argument or into `self` (leaf `inputWrites`) -/
theorem inputs_not_written : Rsa.Gen.C08.inputWrites = 0 := by decide

/-- … and no place to keep something between calls: no module-level statement besides imports and
    definitions, no class-level attribute, no `global` / `nonlocal`, no decorator, no mutable
    default, no store through a name that is not local to the call (leaf `moduleState`) -/
theorem no_module_state : Rsa.Gen.C08.moduleState = 0 := by decide

/-- one call, whatever a write statement or a cache *would* do (`h` arbitrary): the value is that of
    the stand-alone call on the current content; content and side state are left as they were -/
theorem call_stateless (h : Hidden σ K) (c : FitCall K) (st : σ × FitArgs K) :
    stepCall h c st = (c.value st.2, st) := by
  unfold stepCall
  rw [if_pos no_module_state, if_pos no_module_state, if_pos inputs_not_written]

/-- **reuse sessions**: any list of calls and caller edits, run in one process on the same objects
    from any side state: every call returns exactly what the stand-alone call returns on the
    content the caller has established at that moment (`specSession`), the side state ends as it
    began and the objects hold what the caller's own edits put there — induction over the steps -/
theorem session_calls_independent (h : Hidden σ K) (steps : List (FitStep K)) (s0 : σ)
    (a0 : FitArgs K) :
    runSession h steps (s0, a0) = ((specSession steps a0).1, (s0, (specSession steps a0).2)) := by
  induction steps generalizing a0 with
  | nil => rfl
  | cons st rest ih =>
    cases st with
    | call c => simp only [runSession, specSession, call_stateless, ih]
    | edit f => simp only [runSession, specSession, ih]

/-- without caller edits: every call of the session has the value of the stand-alone call on the
    ORIGINAL content, and the content is unchanged at the end -/
theorem session_calls_only (h : Hidden σ K) (calls : List (FitCall K)) (s0 : σ) (a0 : FitArgs K) :
    runSession h (calls.map FitStep.call) (s0, a0) = (calls.map (fun c => c.value a0), (s0, a0)) := by
  rw [session_calls_independent]
  have : ∀ cs : List (FitCall K), specSession (cs.map FitStep.call) a0
      = (cs.map (fun c => c.value a0), a0) := by
    intro cs
    induction cs with
    | nil => rfl
    | cons c cs ih => simp only [List.map_cons, specSession, ih]
  rw [this]

theorem specSession_append (pre post : List (FitStep K)) (a : FitArgs K) :
    specSession (pre ++ post) a
      = ((specSession pre a).1 ++ (specSession post (specSession pre a).2).1,
         (specSession post (specSession pre a).2).2) := by
  induction pre generalizing a with
  | nil => rfl
  | cons st rest ih =>
    cases st with
    | call c => simp only [List.cons_append, specSession, ih]
    | edit f => simp only [List.cons_append, specSession, ih]

/-- **every fit of a session is judged by its own moment.**  Whatever `good c a r` says about a
    stand-alone call (`r` is a maximiser of the criterion of call `c` on content `a` within the
    constraints — the optimality theorems above), if every stand-alone call has it, then the call
    `c` placed anywhere in a session (after any earlier calls with other criteria and fitters on
    the same objects, and any caller edits `pre`) returns a result that has it for the content the
    caller established — not for what an earlier call left behind -/
theorem session_call_good (good : FitCall K → FitArgs K → FitRes K → Prop)
    (hgood : ∀ c a, good c a (c.value a))
    (h : Hidden σ K) (pre post : List (FitStep K)) (c : FitCall K) (s0 : σ) (a0 : FitArgs K) :
    ∃ r, (runSession h (pre ++ FitStep.call c :: post) (s0, a0)).1
        = (specSession pre a0).1 ++ r :: (specSession post (specSession pre a0).2).1 ∧
      good c (specSession pre a0).2 r := by
  refine ⟨c.value (specSession pre a0).2, ?_, hgood _ _⟩
  rw [session_calls_independent, specSession_append]
  simp only [specSession]

/-- a prediction asked for twice with the same parameters in a session (with any fits in between)
    is the same both times, and for admissible parameters the vector form (`predict`) and the
    RDM-object form (`predict_rdm`) of the same session agree -/
theorem session_predictions_agree (h : Hidden σ K) (mid : List (FitCall K)) (slot : ℕ)
    (p : Param K) (s0 : σ) (a0 : FitArgs K) (M : Model K) (hM : a0.models[slot]? = some M)
    (hadm : Admissible M p) :
    ∃ v, (runSession h ((FitCall.predict slot p :: mid ++
              [FitCall.predictRdm slot p, FitCall.predict slot p]).map FitStep.call) (s0, a0)).1
        = FitRes.vec (some v) :: mid.map (fun c => c.value a0)
            ++ [FitRes.rdm ((Rsa.Fit.predictRdm M p)), FitRes.vec (some v)] ∧
      (Rsa.Fit.predictRdm M p).map (fun r => r.1) = some [v] := by
  obtain ⟨v, hv, hr⟩ := predict_eq_predict_rdm M p hadm
  refine ⟨v, ?_, hr⟩
  rw [session_calls_only]
  simp [FitCall.value, hM, hv]

end sessions

section sessionExamples

/-- a weighted model of two RDMs over three conditions, data of two RDMs -/
def exArgs : FitArgs ℚ :=
  { models := [mkModel .weighted "m" 3 [[1, 2, 3], [0, 1, 4]] [("cond", [5, 7, 9])],
               mkModel .weighted "m" 3 [[3, 1, 1], [2, 0, 5]] [("cond", [5, 7, 9])]],
    present := [true, true, true], desc := [5, 7, 9],
    data := [[some 1, some 3, some 7], [some 2, some 2, some 9]], sigma := .none }

local instance : HasSqrt ℚ := ⟨fun x => x⟩

/-- a "tree with hidden state": the side state counts calls, a stale view zeroes the data, the
    write statements would overwrite the first model — none of it can happen -/
def exHidden : Hidden ℕ ℚ :=
  { stale := fun _ a => { a with data := [] }, remember := fun n _ => n + 1,
    scribble := fun a => { a with models := a.models.drop 1 } }

-- `session_calls_independent` on a concrete session: predict – (caller writes new data) – predict
-- on the other model of the same name: each value is the stand-alone value
example : (runSession exHidden
      [.call (.predict 0 (.vec [1, 2])), .edit (fun a => { a with data := [[some 1, some 1, some 1]] }),
       .call (.predict 1 (.vec [1, 2]))] (0, exArgs)).1
    = [.vec (some [1, 4, 11]), .vec (some [7, 1, 11])] := by
  rw [session_calls_independent]; decide +kernel

example := session_predictions_agree (K := ℚ) exHidden [.predict 1 .none] 0 (.vec [1, 2]) 0 exArgs
  (mkModel .weighted "m" 3 [[1, 2, 3], [0, 1, 4]] [("cond", [5, 7, 9])]) rfl

end sessionExamples

end Rsa.Props.C08
