/-
  Property C08 — fitted model parameters maximise the training criterion within constraints.

  Theorems about the executable model `Rsa.Core.Fit` (namespace `Rsa.Fit`), for every size,
  basis, training stack, competitor and (for the external solvers) every result satisfying the
  stated contract.  Helper lemmas live in `Rsa/Lemmas/C08*.lean`.

  Sentences of the property ↦ theorems
    * weighted-sum fits attain the maximal mean similarity, plain or whitened, cosine or corr:
      `ols_maximises` (any symmetric psd bilinear form), `_cosine`, `_corr`, `_whitened`,
      with `mean_sim_eq_sim_to_pool`, `pool_cosine_is_pool`, `gram_matVec`, `ip_cauchy_schwarz`;
    * non-negative variants: `kkt_maximises_nonneg`, `_cosine`, `kktOk_sound`,
      `nnls_exit_is_kkt_partial` (full statement: `nnls_exit_is_kkt_full`);
    * selection models: `select_is_argmax`, `select_first`;
    * interpolation models: `interpolate_shape`, `fitInterpolate_shape`,
      `interpolate_best_of_segments` (optimality from the contract of the scalar search);
    * normalised fits: `normalised_unit_norm`, `normalise_pos_scale`, `score_scale_invariant`;
    * only the named conditions, with multiplicity: `subsample_length`,
      `subsample_uses_selected_only`, `fit_uses_selected_only`, `subsample_multiplicity`,
      `selection_sorted`, `selection_perm`;
    * predictions: `predict_length`, `predict_entry`, `predict_linear`,
      `predict_eq_predict_rdm`, `predict_descriptors`, `from_dict_same_prediction`
      (`interpolate_clamp_noted`: outside the admissible parameters the two differ).
  Partial (numerical convergence, outside the model): that BFGS / the bounded scalar search
  reach the characterised maximum — `optimiser_reaches_maximum_full`.
-/
import Mathlib.Tactic.IntervalCases
import Rsa.Lemmas.C08Pool

set_option linter.unusedSectionVars false
set_option linter.unusedVariables false
set_option linter.unusedSimpArgs false

namespace Rsa.Props.C08
open Rsa Rsa.Compare Rsa.Fit

/-! ## predictions -/

section predictK
variable {K : Type} [Field K]

/-- the prediction has the length of the basis vectors -/
theorem predict_length (m : ℕ) (B : List (List K)) (θ : List K) (hB : ∀ b ∈ B, b.length = m) :
    (predict m B θ).length = m := predict_length' m B θ hB

/-- entry `k` of the prediction is `Σ_i θ_i · B_i[k]` -/
theorem predict_entry (m : ℕ) (B : List (List K)) (θ : List K) (hB : ∀ b ∈ B, b.length = m)
    (k : ℕ) (hk : k < m) :
    (predict m B θ).getD k 0 = dot θ (B.map (fun b => b.getD k 0)) := predict_getD m B θ hB k hk

/-- the prediction is linear in the weights -/
theorem predict_linear (m : ℕ) (B : List (List K)) (θ₁ θ₂ : List K) (a b : K)
    (hB : ∀ b ∈ B, b.length = m) (hθ : θ₁.length = θ₂.length) :
    predict m B (vadd (vscale a θ₁) (vscale b θ₂)) =
      vadd (vscale a (predict m B θ₁)) (vscale b (predict m B θ₂)) := by
  apply list_ext_getD
  · rw [predict_length' m B _ hB, vadd_length, vscale_length, vscale_length,
      predict_length' m B _ hB, predict_length' m B _ hB]; simp
  · intro k hk
    rw [predict_length' m B _ hB] at hk
    rw [predict_getD m B _ hB k hk,
      vadd_getD _ _ _ (by rw [vscale_length, predict_length' m B _ hB]; exact hk)
        (by rw [vscale_length, predict_length' m B _ hB]; exact hk),
      vscale_getD, vscale_getD, predict_getD m B _ hB k hk, predict_getD m B _ hB k hk,
      dot_vadd_left' _ _ _ (by rw [vscale_length, vscale_length, hθ]), dot_vscale_left,
      dot_vscale_left]

example : predict 3 [[1, 2, 3], [0, 1, 0]] (vadd (vscale 2 [1, 0]) (vscale 3 [0, 1])) =
    ([2, 7, 6] : List ℚ) := by decide +kernel

end predictK

section classes
variable {K : Type} [Field K] [LinearOrder K] [IsStrictOrderedRing K]

/-- the parameters for which `predict` and `predict_rdm` are meant to agree: a fixed model of
    one RDM; an index of a candidate; any weights for a weighted sum; non-negative weights
    for an interpolation model (`predict_rdm` clamps at 0 and has another `None` default) -/
def Admissible (M : Model K) (p : Param K) : Prop :=
  match M.kind with
  | .fixed => ∃ v, M.obj = [v] ∧ v.length = vecLen M
  | .select =>
    match p with
    | .none => 0 < M.obj.length
    | .idx i => i < M.obj.length
    | .vec _ => False
  | .weighted =>
    match p with
    | .idx _ => False
    | _ => True
  | .interpolate =>
    match p with
    | .vec θ => ∀ t ∈ θ, 0 ≤ t
    | _ => False

theorem colMeans_single (m : ℕ) (v : List K) (hv : v.length = m) : colMeans m [v] = v := by
  apply list_ext_getD
  · simp [colMeans, hv]
  · intro k hk
    have hk' : k < m := by simpa [colMeans] using hk
    rw [List.getD_eq_getElem _ _ hk]
    simp [colMeans]

theorem clampNonneg_id (θ : List K) (h : ∀ t ∈ θ, 0 ≤ t) : clampNonneg θ = θ := by
  unfold clampNonneg
  conv_rhs => rw [← List.map_id θ]
  apply List.map_congr_left
  intro t ht
  simp [not_lt.mpr (h t ht)]

/-- vector prediction and RDM-object prediction agree for the same admissible parameters -/
theorem predict_eq_predict_rdm (M : Model K) (p : Param K) (h : Admissible M p) :
    ∃ v, predictVec M p = some v ∧ (predictRdm M p).map (fun r => r.1) = some [v] := by
  obtain ⟨kind, name, n, obj, desc⟩ := M
  cases kind with
  | fixed =>
    obtain ⟨v, hv, hl⟩ := h
    simp only at hv
    subst hv
    refine ⟨v, ?_, ?_⟩
    · simp only [predictVec]
      rw [colMeans_single _ v hl]
    · simp [predictRdm]
  | select =>
    cases p with
    | none =>
      have h0 : 0 < obj.length := h
      refine ⟨obj[0], ?_, ?_⟩
      · simp [predictVec, List.getElem?_eq_getElem h0]
      · simp [predictRdm, List.getElem?_eq_getElem h0]
    | idx i =>
      have h0 : i < obj.length := h
      refine ⟨obj[i], ?_, ?_⟩
      · simp [predictVec, List.getElem?_eq_getElem h0]
      · simp [predictRdm, List.getElem?_eq_getElem h0]
    | vec θ => exact absurd h (by simp [Admissible])
  | weighted =>
    cases p with
    | none => exact ⟨_, rfl, rfl⟩
    | idx i => exact absurd h (by simp [Admissible])
    | vec θ => exact ⟨_, rfl, rfl⟩
  | interpolate =>
    cases p with
    | none => exact absurd h (by simp [Admissible])
    | idx i => exact absurd h (by simp [Admissible])
    | vec θ =>
      have hθ : ∀ t ∈ θ, 0 ≤ t := h
      refine ⟨_, rfl, ?_⟩
      simp [predictRdm, clampNonneg_id θ hθ]

/-- the RDM-object prediction carries the model's pattern descriptors -/
theorem predict_descriptors (M : Model K) (p : Param K) (r : List (List K) × Desc)
    (h : predictRdm M p = some r) : r.2 = M.desc := by
  obtain ⟨kind, name, n, obj, desc⟩ := M
  cases kind <;> cases p <;> simp [predictRdm] at h <;>
    first
    | (obtain ⟨_, rfl⟩ := h; rfl)
    | (rw [← h])
    | (obtain ⟨_, _, rfl⟩ := h; rfl)

theorem setIndex_idem (n : ℕ) (d : Desc) : setIndex n (setIndex n d) = setIndex n d := by
  unfold setIndex
  simp [List.filter_append, List.filter_filter]

/-- a model rebuilt from its dictionary form is the same model, hence predicts identically -/
theorem from_dict_same_prediction (kind : Kind) (name : String) (n : ℕ) (obj : List (List K))
    (d : Desc) (p : Param K) :
    ∃ M', fromDict (toDict (mkModel kind name n obj d)) = some M' ∧
      predictVec M' p = predictVec (mkModel kind name n obj d) p ∧
      predictRdm M' p = predictRdm (mkModel kind name n obj d) p := by
  refine ⟨mkModel kind name n obj d, ?_, rfl, rfl⟩
  cases kind <;> simp [toDict, fromDict, mkModel, kindName, setIndex_idem]

/-- noted, not claimed: with a negative weight `ModelInterpolate.predict_rdm` (which clamps
    at 0) differs from `predict` -/
theorem interpolate_clamp_noted :
    predictVec (mkModel .interpolate "m" 2 [[1], [1]] [] : Model ℚ) (.vec [-1, 0]) = some [-1] ∧
    (predictRdm (mkModel .interpolate "m" 2 [[1], [1]] [] : Model ℚ) (.vec [-1, 0])).map
      (fun r => r.1) = some [[0]] := by
  constructor <;> decide +kernel

example : Admissible (mkModel .weighted "m" 3 [[1, 2, 3], [0, 1, 0]] [] : Model ℚ) (.vec [2, -1]) :=
  trivial

end classes

/-! ## weighted sums: the regression fit attains the maximum -/

/-- Cauchy–Schwarz for any symmetric positive semi-definite bilinear form on lists -/
theorem ip_cauchy_schwarz {m : ℕ} {ip : List ℝ → List ℝ → ℝ} (h : IsIP m ip) (a b : List ℝ)
    (ha : a.length = m) (hb : b.length = m) : ip a b * ip a b ≤ ip a a * ip b b := h.cs a b ha hb

/-- the mean similarity with the training RDMs is the similarity with their pooled RDM
    (up to the positive factor `κ · R`) -/
theorem mean_sim_eq_sim_to_pool {m : ℕ} {ip : List ℝ → List ℝ → ℝ} (h : IsIP m ip)
    (data : List (List ℝ)) (y : List ℝ) (κ : ℝ) (hp : IsPool m ip data y κ)
    (hd : ∀ d ∈ data, 0 < ip d d) (a : List ℝ) (ha : a.length = m) :
    meanSimIp ip a data =
      if 0 < ip a a then ip a y / (κ * (data.length : ℝ) * Real.sqrt (ip a a)) else 0 :=
  meanSimIp_eq_pool h data y κ hp hd a ha

/-- the coded cosine pooling is such a pooled RDM -/
theorem pool_cosine_is_pool (m : ℕ) (hm : 0 < m) (sol : List ℝ → List ℝ) (data : List (List ℝ))
    (hne : data ≠ []) (hlen : ∀ d ∈ data, d.length = m) (hpos : ∀ d ∈ data, 0 < dot d d) :
    IsPool m dot data (pool .cosine sol data) (Real.sqrt m / (data.length : ℝ)) :=
  pool_cosine_isPool m hm sol data hne hlen hpos

/-- `X θ` of the coded normal equations: row `a` is `ip a (prediction)` -/
theorem gram_matVec {m : ℕ} {ip : List ℝ → List ℝ → ℝ} (h : IsIP m ip) (B : List (List ℝ))
    (θ : List ℝ) (hB : ∀ b ∈ B, b.length = m) :
    matVec (B.map (fun a => B.map (fun b => ip a b))) θ = B.map (fun a => ip a (predict m B θ)) :=
  gram_matVec_ip h B θ hB

/-- **Optimality of the least-squares fit.**  If `θ*` solves the normal equations (residual
    orthogonal to every basis RDM — the contract of `np.linalg.solve`), then no weight vector
    has a higher mean similarity with the training RDMs.  `ip` is arbitrary: plain or
    whitened, with or without mean removal. -/
theorem ols_maximises {m : ℕ} {ip : List ℝ → List ℝ → ℝ} (h : IsIP m ip) (B : List (List ℝ))
    (data : List (List ℝ)) (y : List ℝ) (κ : ℝ) (hB : ∀ b ∈ B, b.length = m)
    (hp : IsPool m ip data y κ) (hd : ∀ d ∈ data, 0 < ip d d) (θs : List ℝ)
    (hne : ∀ b ∈ B, ip b (predict m B θs) = ip b y) (θ : List ℝ) :
    meanSimIp ip (predict m B θ) data ≤ meanSimIp ip (predict m B θs) data := by
  have hps := predict_length' m B θs hB
  have key : ∀ θ' : List ℝ, ip (predict m B θ') y = ip (predict m B θ') (predict m B θs) := by
    intro θ'
    rw [h.predict_left B θ' y hB hp.len, h.predict_left B θ' _ hB hps]
    congr 1
    apply List.map_congr_left
    intro b hb
    exact (hne b hb).symm
  exact meanSim_le_of h data y κ hp hd _ _ (predict_length' m B θ hB) hps (key θ).le (key θs)

/-- non-vacuity of the hypotheses of `ols_maximises`: two basis RDMs, one training RDM, its
    pooled target, a solution of the normal equations -/
example : ∃ (B data : List (List ℝ)) (y θs : List ℝ) (κ : ℝ),
    (∀ b ∈ B, b.length = 2) ∧ IsPool 2 dot data y κ ∧ (∀ d ∈ data, 0 < dot d d) ∧
    (∀ b ∈ B, dot b (predict 2 B θs) = dot b y) ∧ 2 ≤ B.length := by
  refine ⟨[[1, 0], [0, 1]], [[3, 4]], [3, 4], [3, 4], 5, ?_, ?_, ?_, ?_, ?_⟩
  · intro b hb
    simp only [List.mem_cons, List.not_mem_nil, or_false] at hb
    rcases hb with rfl | rfl <;> rfl
  · refine ⟨by norm_num, rfl, ?_⟩
    intro a _
    have h25 : Real.sqrt (dot ([3, 4] : List ℝ) [3, 4]) = 5 := by
      have : dot ([3, 4] : List ℝ) [3, 4] = 5 ^ 2 := by norm_num [dot]
      rw [this, Real.sqrt_sq (by norm_num)]
    simp only [List.map_cons, List.map_nil, List.sum_cons, List.sum_nil, h25]
    ring
  · intro d hd
    simp only [List.mem_cons, List.not_mem_nil, or_false] at hd
    subst hd; norm_num [dot]
  · intro b hb
    simp only [List.mem_cons, List.not_mem_nil, or_false] at hb
    rcases hb with rfl | rfl <;> norm_num [predict, vadd, vscale, dot, List.replicate]
  · simp

/-- cosine criterion, in terms of the coded normal equations `X θ* = rhs` and the coded score -/
theorem ols_maximises_cosine (m : ℕ) (A : List (List ℝ)) (data : List (List ℝ)) (y : List ℝ)
    (κ : ℝ) (V : List (List ℝ)) (hA : ∀ b ∈ A, b.length = m) (hp : IsPool m dot data y κ)
    (hd : ∀ d ∈ data, 0 < dot d d) (θs : List ℝ)
    (hsolve : matVec (gramOf id A) θs = rhsOf id A y) (θ : List ℝ) (s ss : ℝ)
    (h1 : Fit.meanSim .cosine V (predict m A θ) data = some s)
    (h2 : Fit.meanSim .cosine V (predict m A θs) data = some ss) : s ≤ ss := by
  rw [meanSim_cosine] at h1 h2
  cases h1; cases h2
  apply ols_maximises (isIP_dot m) A data y κ hA hp hd θs
  have e := gram_matVec_ip (isIP_dot m) A θs hA
  have e' : matVec (gramOf id A) θs = A.map (fun a => dot a (predict m A θs)) := e
  rw [e'] at hsolve
  intro b hb
  have := List.map_inj_left.mp hsolve b hb
  simpa using this

/-- Pearson criterion: the same with mean-removed vectors -/
theorem ols_maximises_corr (m : ℕ) (B : List (List ℝ)) (data : List (List ℝ)) (y : List ℝ)
    (κ : ℝ) (V : List (List ℝ)) (hB : ∀ b ∈ B, b.length = m)
    (hp : IsPool m (fun a b => dot (center a) (center b)) data y κ)
    (hd : ∀ d ∈ data, 0 < dot (center d) (center d)) (θs : List ℝ)
    (hne : ∀ b ∈ B, dot (center b) (center (predict m B θs)) = dot (center b) (center y))
    (θ : List ℝ) (s ss : ℝ)
    (h1 : Fit.meanSim .corr V (predict m B θ) data = some s)
    (h2 : Fit.meanSim .corr V (predict m B θs) data = some ss) : s ≤ ss := by
  rw [meanSim_corr] at h1 h2
  cases h1; cases h2
  exact ols_maximises (isIP_center m) B data y κ hB hp hd θs hne θ

/-- whitened criteria: the same for the inner product `aᵀ W b` of a symmetric positive
    definite precision matrix `W = V⁻¹` (for which `_cosine_cov_weighted_slow` is the
    guarded similarity, `wcosFrom_eq_simIp`) -/
theorem ols_maximises_whitened (m : ℕ) (W : List (List ℝ)) (hW : SymPosDef W m)
    (B : List (List ℝ)) (data : List (List ℝ)) (y : List ℝ) (κ : ℝ)
    (hB : ∀ b ∈ B, b.length = m) (hp : IsPool m (ipW W) data y κ)
    (hd : ∀ d ∈ data, 0 < ipW W d d) (θs : List ℝ)
    (hne : ∀ b ∈ B, ipW W b (predict m B θs) = ipW W b y) (θ : List ℝ) :
    meanSimIp (ipW W) (predict m B θ) data ≤ meanSimIp (ipW W) (predict m B θs) data :=
  ols_maximises (isIP_W hW) B data y κ hB hp hd θs hne θ

/-- non-vacuity for the whitened criteria: `V` of three conditions with `sigma_k = I` is
    symmetric positive definite (so is its inverse); here directly a precision-like matrix -/
example : SymPosDef [[4, 1, 1], [1, 4, 1], [1, 1, 4]] 3 := by
  refine ⟨rfl, by simp, ?_, ?_⟩
  · intro i j hi hj
    interval_cases i <;> interval_cases j <;> simp [ent]
  · intro f hf
    have hq : Q [[4, 1, 1], [1, 4, 1], [1, 1, 4]] 3 f f
        = 3 * (f 0 * f 0 + f 1 * f 1 + f 2 * f 2) + (f 0 + f 1 + f 2) * (f 0 + f 1 + f 2) := by
      simp [Q, ent, Finset.sum_range_succ]; ring
    rw [hq]
    obtain ⟨i, hi, hne⟩ := hf
    have h0 := mul_self_nonneg (f 0)
    have h1 := mul_self_nonneg (f 1)
    have h2 := mul_self_nonneg (f 2)
    have h3 := mul_self_nonneg (f 0 + f 1 + f 2)
    have : 0 < f i * f i := mul_self_pos.mpr hne
    interval_cases i <;> nlinarith

/-! ## non-negative weights -/

/-- **Optimality under the sign constraint.**  If `θ* ≥ 0`, the gradient
    `w_b = ip b y − ip b (prediction)` is `≤ 0` for every basis RDM and `θ*·w = 0`
    (Karush–Kuhn–Tucker), then no non-negative weight vector scores higher. -/
theorem kkt_maximises_nonneg {m : ℕ} {ip : List ℝ → List ℝ → ℝ} (h : IsIP m ip)
    (B : List (List ℝ)) (data : List (List ℝ)) (y : List ℝ) (κ : ℝ)
    (hB : ∀ b ∈ B, b.length = m) (hp : IsPool m ip data y κ) (hd : ∀ d ∈ data, 0 < ip d d)
    (θs : List ℝ)
    (hdual : ∀ b ∈ B, ip b y - ip b (predict m B θs) ≤ 0)
    (hcs : dot θs (B.map (fun b => ip b y - ip b (predict m B θs))) = 0)
    (θ : List ℝ) (hθ : ∀ t ∈ θ, 0 ≤ t) :
    meanSimIp ip (predict m B θ) data ≤ meanSimIp ip (predict m B θs) data := by
  have hps := predict_length' m B θs hB
  have split : ∀ θ' : List ℝ, ip (predict m B θ') y =
      ip (predict m B θ') (predict m B θs) +
        dot θ' (B.map (fun b => ip b y - ip b (predict m B θs))) := by
    intro θ'
    rw [h.predict_left B θ' y hB hp.len, h.predict_left B θ' _ hB hps, ← dot_map_add]
    congr 1
    apply List.map_congr_left
    intro b _
    ring
  apply meanSim_le_of h data y κ hp hd _ _ (predict_length' m B θ hB) hps
  · rw [split θ]
    have := dot_nonpos θ (B.map (fun b => ip b y - ip b (predict m B θs))) hθ
      (by
        intro v hv
        obtain ⟨b, hb, rfl⟩ := List.mem_map.mp hv
        exact hdual b hb)
    linarith
  · rw [split θs, hcs, add_zero]

/-- non-vacuity of the KKT hypotheses: the constraint is active for the second basis RDM -/
example : ∃ (B : List (List ℝ)) (y θs : List ℝ),
    (∀ t ∈ θs, 0 ≤ t) ∧ (∀ b ∈ B, dot b y - dot b (predict 2 B θs) ≤ 0) ∧
    dot θs (B.map (fun b => dot b y - dot b (predict 2 B θs))) = 0 ∧
    ∃ b ∈ B, dot b y - dot b (predict 2 B θs) < 0 := by
  refine ⟨[[1, 0], [0, 1]], [3, -4], [3, 0], ?_, ?_, ?_, ⟨[0, 1], by simp, ?_⟩⟩
  · intro t ht
    simp only [List.mem_cons, List.not_mem_nil, or_false] at ht
    rcases ht with rfl | rfl <;> norm_num
  · intro b hb
    simp only [List.mem_cons, List.not_mem_nil, or_false] at hb
    rcases hb with rfl | rfl <;> norm_num [predict, vadd, vscale, dot, List.replicate]
  · norm_num [predict, vadd, vscale, dot, List.replicate]
  · norm_num [predict, vadd, vscale, dot, List.replicate]

/-- the executable KKT predicate with zero slack gives exactly those hypotheses -/
theorem kktOk_sound (G : List (List ℝ)) (c x : List ℝ) (h : kktOk 0 G c x = true) :
    (∀ t ∈ x, 0 ≤ t) ∧ (∀ v ∈ vsub c (matVec G x), v ≤ 0) ∧ dot x (vsub c (matVec G x)) = 0 :=
  kktOk_zero_sound G c x h

/-- cosine criterion with the coded `ATA`, `Aᵀy`: a point passing the KKT predicate is
    optimal among the non-negative weights -/
theorem kkt_maximises_nonneg_cosine (m : ℕ) (A : List (List ℝ)) (data : List (List ℝ))
    (y : List ℝ) (κ : ℝ) (V : List (List ℝ)) (hA : ∀ b ∈ A, b.length = m)
    (hp : IsPool m dot data y κ) (hd : ∀ d ∈ data, 0 < dot d d) (θs : List ℝ)
    (hk : kktOk 0 (gramOf id A) (rhsOf id A y) θs = true)
    (θ : List ℝ) (hθ : ∀ t ∈ θ, 0 ≤ t) (s ss : ℝ)
    (h1 : Fit.meanSim .cosine V (predict m A θ) data = some s)
    (h2 : Fit.meanSim .cosine V (predict m A θs) data = some ss) :
    (∀ t ∈ θs, 0 ≤ t) ∧ s ≤ ss := by
  rw [meanSim_cosine] at h1 h2
  cases h1; cases h2
  obtain ⟨hx, hw, hc⟩ := kktOk_zero_sound _ _ _ hk
  have e : matVec (gramOf id A) θs = A.map (fun a => dot a (predict m A θs)) :=
    gram_matVec_ip (isIP_dot m) A θs hA
  have ew : vsub (rhsOf id A y) (matVec (gramOf id A) θs) =
      A.map (fun b => dot b y - dot b (predict m A θs)) := by
    rw [e]
    show vsub (A.map (fun a => dot (id a) y)) _ = _
    exact vsub_map A _ _
  rw [ew] at hw hc
  refine ⟨hx, ?_⟩
  apply kkt_maximises_nonneg (isIP_dot m) A data y κ hA hp hd θs
  · intro b hb
    exact hw _ (List.mem_map.mpr ⟨b, hb, rfl⟩)
  · exact hc
  · exact hθ

/-- **partial**: when the active-set loop ends through its test, every coefficient still
    fixed at zero has a gradient not above the threshold (dual feasibility).  Missing for the
    full KKT statement: `x ≥ 0`, `x = 0` off the passive set and zero gradient on it — they
    rest on the linear-solve contract inside the loop; the harness evaluates the executable
    predicate `kktOk` on every result of the model and of the library instead. -/
theorem nnls_exit_is_kkt_partial (tol : ℝ) (G : List (List ℝ)) (c : List ℝ) (fuel : ℕ)
    (x : List ℝ) (p : List Bool) (w : List ℝ)
    (hexit : (nnlsOuter tol G c fuel x p w).2.2.2 = true) :
    ∀ i, i < (nnlsOuter tol G c fuel x p w).2.2.1.length →
      (nnlsOuter tol G c fuel x p w).2.1.getD i false = false →
      (nnlsOuter tol G c fuel x p w).2.2.1.getD i 0 ≤ tol :=
  nnlsOuter_exit tol G c fuel x p w hexit

/-- the full statement the partial theorem falls short of -/
def nnls_exit_is_kkt_full : Prop :=
  ∀ (eps : ℝ) (G : List (List ℝ)) (c : List ℝ), 0 ≤ eps → (nnls eps G c).2.2 = true →
    kktOk (eps * maxAbs c) G c (nnls eps G c).1 = true

/-- not provable in the model: the numerical optimisers reach the characterised maximum -/
def optimiser_reaches_maximum_full : Prop :=
  ∀ (m : ℕ) (B data : List (List ℝ)) (θ_bfgs θs : List ℝ),
    (∀ θ, meanSimIp dot (predict m B θ) data ≤ meanSimIp dot (predict m B θs) data) →
    meanSimIp dot (predict m B θ_bfgs) data = meanSimIp dot (predict m B θs) data

/-! ## selection and interpolation models -/

/-- `fit_select` returns a candidate whose evaluation no other candidate exceeds -/
theorem select_is_argmax (evals : List ℝ) (hne : evals ≠ []) :
    fitSelect evals < evals.length ∧
      ∀ j, j < evals.length → evals.getD j 0 ≤ evals.getD (fitSelect evals) 0 := by
  cases evals with
  | nil => exact absurd rfl hne
  | cons a r =>
    obtain ⟨h1, h2, h3, _⟩ := argmaxFirst_spec a r
    unfold fitSelect
    refine ⟨h1, ?_⟩
    intro j hj
    rw [h2]; exact h3 j hj

/-- … and it is the first such candidate -/
theorem select_first (evals : List ℝ) (hne : evals ≠ []) :
    ∀ j, j < fitSelect evals → evals.getD j 0 < evals.getD (fitSelect evals) 0 := by
  cases evals with
  | nil => exact absurd rfl hne
  | cons a r =>
    obtain ⟨_, h2, _, h4⟩ := argmaxFirst_spec a r
    unfold fitSelect
    intro j hj
    rw [h2]; exact h4 j hj

example : fitSelect [(1 : ℚ), 3, 2, 3] = 1 := by decide +kernel

/-- θ of an interpolation fit: `w` and `1 − w` on two adjacent RDMs, zero elsewhere, summing
    to one, within `[0,1]` -/
theorem interpolate_shape (k i : ℕ) (w : ℝ) (hi : i + 1 < k) (h0 : 0 ≤ w) (h1 : w ≤ 1) :
    (interpTheta k i w).length = k ∧
    (∀ j, j < k → (interpTheta k i w).getD j 0 =
      if j = i then w else if j = i + 1 then 1 - w else 0) ∧
    (interpTheta k i w).sum = 1 ∧
    (∀ t ∈ interpTheta k i w, 0 ≤ t ∧ t ≤ 1) := by
  refine ⟨interpTheta_length k i w, interpTheta_getD k i w, interpTheta_sum k i w hi, ?_⟩
  intro t ht
  unfold interpTheta at ht
  obtain ⟨j, _, rfl⟩ := List.mem_map.mp ht
  by_cases hj : j = i
  · simp [hj, h0, h1]
  · by_cases hj2 : j = i + 1
    · simp [hj2, h0, h1]
    · simp [hj, hj2]

/-- if every per-segment result of the bounded scalar search is a minimiser of the loss on
    its segment (its contract), the returned (segment, weight) minimises the loss over all
    convex mixtures of adjacent RDMs -/
theorem interpolate_best_of_segments (loss : ℕ → ℝ → ℝ) (ws losses : List ℝ)
    (hne : losses ≠ [])
    (hval : ∀ i, i < losses.length → losses.getD i 0 = loss i (ws.getD i 0))
    (hmin : ∀ i, i < losses.length → ∀ w, 0 ≤ w → w ≤ 1 → losses.getD i 0 ≤ loss i w) :
    let i0 := (argminFirst losses).1
    i0 < losses.length ∧
      ∀ i, i < losses.length → ∀ w, 0 ≤ w → w ≤ 1 → loss i0 (ws.getD i0 0) ≤ loss i w := by
  cases losses with
  | nil => exact absurd rfl hne
  | cons a r =>
    obtain ⟨h1, h2, h3, _⟩ := argminFirst_spec a r
    refine ⟨h1, ?_⟩
    intro i hi w hw0 hw1
    rw [← hval _ h1, h2]
    exact le_trans (h3 i hi) (hmin i hi w hw0 hw1)

/-- the θ returned by `fit_interpolate` has the shape above whenever the scalar search
    stayed within its bounds -/
theorem fitInterpolate_shape (k : ℕ) (ws losses : List ℝ) (hne : losses ≠ [])
    (hk : losses.length + 1 = k)
    (hb : ∀ i, i < losses.length → 0 ≤ ws.getD i 0 ∧ ws.getD i 0 ≤ 1) :
    (fitInterpolate k ws losses).sum = 1 ∧ ∀ t ∈ fitInterpolate k ws losses, 0 ≤ t ∧ t ≤ 1 := by
  cases losses with
  | nil => exact absurd rfl hne
  | cons a r =>
    obtain ⟨h1, _, _, _⟩ := argminFirst_spec a r
    have hi : (argminFirst (a :: r)).1 + 1 < k := by omega
    obtain ⟨hw0, hw1⟩ := hb _ h1
    obtain ⟨_, _, hs, hr⟩ := interpolate_shape k _ _ hi hw0 hw1
    exact ⟨hs, hr⟩

example : fitInterpolate 3 [(1 : ℚ) / 4, 1 / 2] [-3, -5] = [0, 1 / 2, 1 / 2] := by decide +kernel

/-! ## normalisation -/

/-- a normalised fit has unit norm -/
theorem normalised_unit_norm (θ : List ℝ) (h : 0 < dot θ θ) :
    dot (normalise θ) (normalise θ) = 1 := by
  unfold normalise
  simp only [hasSqrt_real]
  rw [if_pos h, dot_map_div, Real.mul_self_sqrt h.le]
  exact div_self h.ne'

/-- normalising is a positive rescaling -/
theorem normalise_pos_scale (θ : List ℝ) (h : 0 < dot θ θ) :
    ∃ t : ℝ, 0 < t ∧ normalise θ = vscale t θ := by
  refine ⟨1 / Real.sqrt (dot θ θ), by positivity, ?_⟩
  unfold normalise
  simp only [hasSqrt_real]
  rw [if_pos h, map_div_eq_vscale]

/-- … and a positive rescaling of the weights does not change the score ("up to scale") -/
theorem score_scale_invariant {m : ℕ} {ip : List ℝ → List ℝ → ℝ} (h : IsIP m ip)
    (B : List (List ℝ)) (data : List (List ℝ)) (hB : ∀ b ∈ B, b.length = m)
    (hd : ∀ d ∈ data, d.length = m) (θ : List ℝ) (t : ℝ) (ht : 0 < t) :
    meanSimIp ip (predict m B (vscale t θ)) data = meanSimIp ip (predict m B θ) data := by
  unfold meanSimIp
  congr 1
  apply List.map_congr_left
  intro d hdm
  rw [predict_vscale m B θ t hB]
  exact simIp_scale h t ht _ d (predict_length' m B θ hB) (hd d hdm)

/-! ## only the named conditions enter, with their multiplicity -/

/-- the subsampled vector has one entry per pair of selected positions -/
theorem subsample_length {β : Type} (n : ℕ) (sel : List ℕ) (v : List β) :
    (subsample n sel v).length = triLen sel.length := subsample_length' n sel v

/-- entries involving a condition outside the selection do not matter -/
theorem subsample_uses_selected_only {β : Type} (n : ℕ) (sel : List ℕ) (v v' : List β)
    (h : ∀ i ∈ sel, ∀ j ∈ sel, entryNan n v i j = entryNan n v' i j) :
    subsample n sel v = subsample n sel v' := subsample_congr n sel v v' h

/-- two bases that agree on all pairs of selected conditions (`Forall₂` over the RDMs) -/
def AgreeOn {β : Type} (n : ℕ) (sel : List ℕ) (B B' : List (List β)) : Prop :=
  List.Forall₂ (fun b b' => ∀ i ∈ sel, ∀ j ∈ sel, entryNan n b i j = entryNan n b' i j) B B'

theorem selectedRows_congr (n : ℕ) (desc v : List ℕ) (B B' : List (List (Option ℝ)))
    (h : AgreeOn n (selection desc v) B B') :
    selectedRows n desc (some v) B = selectedRows n desc (some v) B' := by
  unfold selectedRows
  simp only
  congr 1
  induction h with
  | nil => rfl
  | cons hb _ ih =>
    simp only [List.map_cons]
    rw [ih, subsample_congr n _ _ _ hb]

/-- the regression fits and the score depend on the basis only through the entries of pairs
    of selected conditions: changing any other entry changes nothing -/
theorem fit_uses_selected_only (meth : Method) (n : ℕ) (desc v : List ℕ)
    (B B' : List (List (Option ℝ))) (data : List (List (Option ℝ))) (sg : SigmaK ℝ)
    (norm : Bool) (eps : ℝ) (θ : List ℝ) (h : AgreeOn n (selection desc v) B B') :
    fitRegressCall meth n desc (some v) B data sg norm =
      fitRegressCall meth n desc (some v) B' data sg norm ∧
    fitRegressNNCall eps meth n desc (some v) B data sg norm =
      fitRegressNNCall eps meth n desc (some v) B' data sg norm ∧
    scoreCall meth n desc (some v) B data sg θ = scoreCall meth n desc (some v) B' data sg θ := by
  have e := selectedRows_congr n desc v B B' h
  have ep : prepare meth n desc (some v) B data sg = prepare meth n desc (some v) B' data sg := by
    unfold prepare; rw [e]
  refine ⟨?_, ?_, ?_⟩
  · unfold fitRegressCall; rw [ep]
  · unfold fitRegressNNCall; rw [ep]
  · unfold scoreCall; rw [ep]

example : AgreeOn 3 [0, 2] [[some (1 : ℝ), some 2, some 3]] [[some 7, some 2, some 9]] := by
  refine List.Forall₂.cons ?_ List.Forall₂.nil
  intro i hi j hj
  simp only [List.mem_cons, List.not_mem_nil, or_false] at hi hj
  rcases hi with rfl | rfl <;> rcases hj with rfl | rfl <;> simp [entryNan, triIdx]

/-- bootstrap multiplicity: the pair of conditions `a ≠ b` occurs among the pairs of the
    selection exactly (multiplicity of `a`) × (multiplicity of `b`) times -/
theorem subsample_multiplicity (sel : List ℕ) (a b : ℕ) (hab : a ≠ b) :
    (pairsOf sel).countP (fun p => (p.1 == a && p.2 == b) || (p.1 == b && p.2 == a)) =
      sel.count a * sel.count b := count_pairs_mult sel a b hab

/-- the selection lists positions in ascending order … -/
theorem selection_sorted (desc value : List ℕ) :
    (selection desc value).Pairwise (fun a b => a ≤ b) := selection_sorted' desc value

/-- … and contains, with multiplicity, exactly the positions carrying a requested label -/
theorem selection_perm (desc value : List ℕ) :
    (selection desc value).Perm
      (value.flatMap (fun v => (List.range desc.length).filter (fun i => desc.getD i 0 == v))) :=
  selection_perm' desc value

example : subsample 3 [0, 2, 2] [(10 : ℚ), 20, 30] = [some 20, some 20, none] := by
  decide +kernel

end Rsa.Props.C08
