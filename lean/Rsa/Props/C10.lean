/-
  Property C10 — RDM container operations never change which value belongs to which pair.
  Property theorems only; helper lemmas live in Rsa/Lemmas/C10*.lean.

  Reading guide.  `Rsa.Rdm.Obj` / `stepE` / `run` model the container and its operations as
  coded (vectors, masks over the pair enumeration, square-form fancy indexing, the generated
  size-recovery leaf).  `GObj` / `gstep` / `grun` say what each operation *requests*: which
  initial RDM every row is and which initial condition every position holds.  `ObjInv` is the
  property: vectors are the rendering of the provenance (initial entry at the provenance pair,
  NaN for two copies of a condition or a padded position), pattern descriptors are the initial
  ones at the provenance, aligned rows sit under their own labels.
-/
import Rsa.Lemmas.C10Sort
import Rsa.Lemmas.C10RKeys
import Rsa.Lemmas.C10Meas
import Rsa.Lemmas.C10Order

set_option linter.unusedSectionVars false
set_option linter.unusedVariables false
set_option linter.unusedSimpArgs false

namespace Rsa.Props.C10

open Rsa Rsa.Rdm Rsa.Gen.C10

variable {α : Type} [Zero α]

/-! ## 1. vector form, square form, size recovery (for every size) -/

/-- the number of conditions is recovered from the vector length, for every `n ≥ 1`
    (`_get_n_from_reduced_vectors`, regenerated from the source on every run) -/
theorem nFromReduced_triangular (n : Nat) (hn : 1 ≤ n) : nFromReduced (n * (n - 1) / 2) = n :=
  nFromReduced_triLen n hn

/-- `_get_n_from_length` recovers every `n` except 1 (length 0 is read as `n = 0`; its only
    caller `compare_kendall_tau_a`-style code never has a single condition) -/
theorem nFromLength_triangular (n : Nat) (hn : n ≠ 1) : nFromLength (n * (n - 1) / 2) = n :=
  nFromLength_triLen n hn

/-- `triIdx` is the position of pair `(i, j)` in the `np.triu_indices` enumeration -/
theorem pairs_getElem (n i j : Nat) (hij : i < j) (hj : j < n) :
    (pairs n)[triIdx n i j]? = some (i, j) := pairs_getElem? n i j hij hj

theorem pairs_length (n : Nat) : (pairs n).length = n * (n - 1) / 2 := Rsa.pairs_length n

/-- vector → square → vector is the identity on vectors of length `n(n-1)/2` -/
theorem matToVec_vecToMat (n : Nat) (diag dflt : α) (v : List α) (hv : v.length = triLen n) :
    matToVec n (vecToMat n diag dflt v) = v := Rsa.matToVec_vecToMat n diag dflt v hv

/-- square → vector → square is the identity off the diagonal of a symmetric matrix -/
theorem vecToMat_matToVec (n : Nat) (diag dflt : α) (m : Nat → Nat → α)
    (hsym : ∀ i j, m i j = m j i) (i j : Nat) (hi : i < n) (hj : j < n) (hne : i ≠ j) :
    vecToMat n diag dflt (matToVec n m) i j = m i j :=
  Rsa.vecToMat_matToVec n diag dflt m hsym i j hi hj hne

/-- the square form is symmetric … -/
theorem vecToMat_symm (n : Nat) (diag dflt : α) (v : List α) (i j : Nat) :
    vecToMat n diag dflt v i j = vecToMat n diag dflt v j i := Rsa.vecToMat_symm n diag dflt v i j

/-- … with the prescribed (zero) diagonal -/
theorem vecToMat_diag (n : Nat) (diag dflt : α) (v : List α) (i : Nat) :
    vecToMat n diag dflt v i i = diag := Rsa.vecToMat_diag n diag dflt v i

/-! ## 2. each vector algorithm = the requested re-indexing of the provenance -/

/-- `subset_pattern`: masking the pair enumeration is selecting the conditions -/
theorem maskVec_render (e : Nat → Nat → Option α) (col vals : List Lbl) (cp : List (Option Nat))
    (hlen : col.length = cp.length) :
    maskVec (col.map (fun x => vals.contains x)) (renderVec e cp)
      = renderVec e (pick none cp (selSubset col vals)) := by
  rw [Rsa.Rdm.maskVec_render _ _ _ (by simpa using hlen), selSubset, pick_idxWhere _ _ _ _ hlen]

/-- `subsample_pattern` (NaN diagonal): fancy indexing with repetitions; pairs of two copies
    of one condition come out NaN -/
theorem reindexVec_render (e : Nat → Nat → Option α) (hs : ∀ x y, e x y = e y x)
    (cp : List (Option Nat)) (ord : List Nat) (hord : ∀ a ∈ ord, a < cp.length) :
    reindexVec cp.length none ord (renderVec e cp) = renderVec e (pick none cp ord) :=
  Rsa.Rdm.reindexVec_render e hs cp none ord hord (Or.inl rfl)

/-- `reorder` / `sort_by` / `permute_rdms` (zero diagonal): fancy indexing by a permutation -/
theorem reindexVec_render_perm (e : Nat → Nat → Option α) (hs : ∀ x y, e x y = e y x)
    (cp : List (Option Nat)) (ord : List Nat) (hp : isPermOfRange ord cp.length = true) :
    reindexVec cp.length (some 0) ord (renderVec e cp) = renderVec e (pick none cp ord) :=
  Rsa.Rdm.reindexVec_render e hs cp (some 0) ord (isPermOfRange_facts hp).2.2
    (Or.inr (isPermOfRange_facts hp).2.1)

/-- `from_partials`: pairs the partial RDM lacks are NaN, the others keep their value -/
theorem scatterVec_render (e : Nat → Nat → Option α) (hs : ∀ x y, e x y = e y x)
    (cp : List (Option Nat)) (bigN : Nat) (pidx : List Nat) (hlen : pidx.length = cp.length) :
    scatterVec cp.length bigN pidx (renderVec e cp) = renderVec e (scatterCp bigN pidx cp) :=
  Rsa.Rdm.scatterVec_render e hs cp bigN pidx hlen

/-- the buffer length `from_partials` allocates (`vector_len`, regenerated from the source) is the
    number of pairs, and every scattered row has exactly that length: the write never fails -/
theorem fpVectorLen_triangular (n : Nat) : fpVectorLen n = n * (n - 1) / 2 := rfl

theorem scatterVec_length (n bigN : Nat) (pidx : List Nat) (v : List (Option α)) :
    (scatterVec n bigN pidx v).length = fpVectorLen bigN := by
  simp [scatterVec, matToVec, Rsa.pairs_length, triLen, fpVectorLen]

/-! ## 3. exactly the requested RDMs / conditions, with the requested multiplicity -/

/-- `subset` / `subset_pattern` select position `i` iff its value is requested, once -/
theorem selSubset_spec (col vals : List Lbl) :
    (selSubset col vals).Nodup ∧
    ∀ i, i ∈ selSubset col vals ↔ ∃ x, col[i]? = some x ∧ x ∈ vals := by
  refine ⟨nodup_idxWhereFrom _ 0 col, fun i => ?_⟩
  simp [selSubset, mem_idxWhere]

/-- `subsample` selects position `i` as often as its value is requested -/
theorem selSubsample_count (col vals : List Lbl) (i : Nat) (x : Lbl) (hx : col[i]? = some x) :
    (selSubsample col vals).count i = vals.count x := by
  unfold selSubsample
  rw [List.count_flatMap]
  induction vals with
  | nil => simp
  | cons v vs ih =>
    simp only [List.map_cons, List.sum_cons, Function.comp, ih, List.count_cons]
    have hnd := nodup_idxWhereFrom (fun y : Lbl => y == v) 0 col
    rw [← idxWhere] at hnd
    by_cases hv : x = v
    · subst hv
      have hm : i ∈ idxWhere (fun y : Lbl => y == x) col := (mem_idxWhere _ col i).mpr ⟨x, hx, by simp⟩
      rw [List.count_eq_one_of_mem hnd hm]
      simp; omega
    · have hm : i ∉ idxWhere (fun y : Lbl => y == v) col := by
        rw [mem_idxWhere]
        rintro ⟨y, hy, hyv⟩
        rw [hx] at hy
        simp only [Option.some.injEq] at hy
        subst hy
        exact hv (by simpa using hyv)
      rw [List.count_eq_zero_of_not_mem hm]
      have : (x == v) = false := by simpa using hv
      simp [this, show ¬ v = x from fun h => hv h.symm]

/-- `sort_by(desc='alpha')` always yields a permutation of the positions: no condition is lost
    or duplicated, whatever the descriptor holds (duplicates included) -/
theorem argsortStable_perm (col : List Lbl) : isPermOfRange (argsortStable col) col.length = true :=
  isPermOfRange_of_perm (argsortStable_perm' col)

/-- `sort_by(desc=[…])` (repaired) yields a permutation of the positions as soon as every
    descriptor value is listed — also when the descriptor has repeated values -/
theorem selSortList_perm (col method : List Lbl) (hall : ∀ x ∈ col, x ∈ method) :
    isPermOfRange (selSortList col method) col.length = true :=
  isPermOfRange_of_perm (selSortList_perm' col method hall)

/-! ## 4. the invariant over all operation sequences -/

/-- the constructor guarantees well-formedness (hypothesis of the theorems below) -/
theorem mk2d_wf {vecs : List (List (Option α))} {od : ODesc} {rd pd : Desc} {o : Obj α}
    (h : mk2d vecs od rd pd = some o) (hlen : ∃ n, 1 ≤ n ∧ ∀ v ∈ vecs, v.length = triLen n) : o.WF :=
  Rsa.Rdm.mk2d_wf h hlen

/-- initial objects satisfy the invariant with the identity provenance -/
theorem init_inv (s0 : Store α) (hwf : ∀ o ∈ s0, o.WF) : StoreInv s0 s0 (ginit s0) :=
  init_inv' hwf

/-- every operation (accepted or rejected), with every argument, preserves the invariant of
    every object in the store; `cm` = whether `concat` re-aligns its arguments in place -/
theorem step_inv (s0 s : Store α) (g : List GObj) (cm : Bool) (h : StoreInv s0 s g) (op : Op) :
    StoreInv s0 (step cm s op) (gstep cm s g op) := step_inv' cm h op

/-- **main theorem**: after every finite sequence of operations from well-formed initial
    objects, every object of the store satisfies the invariant -/
theorem reachable_inv (s0 : Store α) (hwf : ∀ o ∈ s0, o.WF) (cm : Bool) (ops : List Op) :
    StoreInv s0 (run cm s0 ops) (grun cm s0 (ginit s0) ops) :=
  run_inv' cm ops (init_inv' hwf)

/-- what the invariant means entry by entry.  In any reachable store, for object `k`, RDM
    row `q` with ghost `r`, and two different positions `i, j`:
    * the square-form entry is the initial entry of RDM `r.src` at the provenance pair, or NaN
      when both positions hold the same initial condition / one is padded;
    * if the row is aligned, both positions carry, for every pattern descriptor other than
      `index`, exactly the value the initial object has for that initial condition;
    * the vector form is the condensed square form. -/
theorem reachable_entry (s0 : Store α) (hwf : ∀ o ∈ s0, o.WF) (cm : Bool) (ops : List Op)
    (k : Nat) (o : Obj α) (go : GObj) (hk : (run cm s0 ops)[k]? = some o)
    (hg : (grun cm s0 (ginit s0) ops)[k]? = some go)
    (q : Nat) (r : GRow) (hr : go.rows[q]? = some r) (i j : Nat) (hi : i < o.nCond) (hj : j < o.nCond)
    (hne : i ≠ j) :
    o.matrix q i j = entryOf (initEntry s0 r.src) (r.cp.getD i none) (r.cp.getD j none) ∧
    (r.al = true → ∀ p, r.cp[i]? = some (some p) → ∀ kv ∈ o.pdesc, kv.1 ≠ "index" →
        ∃ v, kv.2[i]? = some v ∧ PVal s0 (r.src.1, p) kv.1 v) ∧
    matToVec o.nCond (o.matrix q) = o.vecs.getD q [] := by
  have hinv := (reachable_inv s0 hwf cm ops).2 k o go hk hg
  have hq : q < go.rows.length := by
    by_contra hc; rw [List.getElem?_eq_none (by omega)] at hr; simp at hr
  have hrm : r ∈ go.rows := List.mem_of_getElem? hr
  have hcp := hinv.cpLen r hrm
  have hvq : o.vecs.getD q [] = renderVec (initEntry s0 r.src) r.cp := by
    rw [hinv.vecs, List.getD_eq_getElem?_getD, List.getElem?_map, hr]
    rfl
  refine ⟨?_, ?_, ?_⟩
  · unfold Obj.matrix
    rw [hvq, ← hcp]
    exact matOf_render _ (initEntry_symm s0 r.src) r.cp (some 0) i j (by omega) (by omega) hne
  · intro hal p hp kv hkv hk'
    exact hinv.pvals kv hkv hk' i (r.src.1, p) (hinv.aligned r hrm hal i p hp)
  · unfold Obj.matrix matOf
    exact Rsa.matToVec_vecToMat _ _ _ _ (by rw [hvq, renderVec_length, hcp])


/-! ## 4b. rdm descriptors follow their RDMs -/

/-- The sentence "every retained RDM keeps all its descriptor values" read literally: whenever
    an object has an rdm descriptor `key` that the initial object of row `q` also had, the
    value at row `q` is the initial one.
    * It **holds** for every operation sequence without `append` (`reachable_rdesc_noappend`).
    * With `append` it holds for every key the row still tracks (`reachable_rdesc`: the keys
      `r.rk`, from which only an `append` into a receiver lacking the key removes one,
      `append_drops_exactly`).
    * In this literal generality it is **false** as coded (`reachable_rdesc_full_false`, a
      three-object witness): `append` keeps only the receiver's keys, so an appended row loses
      `key`, and a later `concat` with an object that has `key` fills that row with `None`. -/
def reachable_rdesc_full (α : Type) [Zero α] : Prop :=
  ∀ (s0 : Store α), (∀ o ∈ s0, o.WF) → ∀ (cm : Bool) (ops : List Op) (k : Nat) (o : Obj α) (go : GObj),
    (run cm s0 ops)[k]? = some o → (grun cm s0 (ginit s0) ops)[k]? = some go →
    ∀ key col, o.rdesc.get key = some col → key ≠ "index" →
    ∀ (q : Nat) (r : GRow), go.rows[q]? = some r →
    ∀ o0 col0, s0[r.src.1]? = some o0 → o0.rdesc.get key = some col0 → col[q]? = col0[r.src.2]?

/-- object-level part (kept from round 2; `reachable_rdesc` below is the row-level, stronger
    statement): for the *tracked* keys `go.rk` — every rdm descriptor of the initial object,
    carried through every operation; after `append`, `concat` and `from_partials` the keys
    tracked in *all* the objects involved (`tracked_keys_merge`) — the descriptor is present and
    row `q` holds exactly the value initial RDM `r.src` had.  Still outside: object-level
    descriptors demoted to rdm descriptors by a merge, and keys that only some of the merged /
    appended objects have (filled with `None`, resp. dropped, as coded). -/
theorem reachable_rdesc_partial (s0 : Store α) (hwf : ∀ o ∈ s0, o.WF) (cm : Bool) (ops : List Op)
    (k : Nat) (o : Obj α) (go : GObj) (hk : (run cm s0 ops)[k]? = some o)
    (hg : (grun cm s0 (ginit s0) ops)[k]? = some go)
    (key : String) (hkey : key ∈ go.rk) (hne : key ≠ "index")
    (q : Nat) (r : GRow) (hr : go.rows[q]? = some r) :
    ∃ col v, o.rdesc.get key = some col ∧ col[q]? = some v ∧ RVal s0 r.src key v := by
  have hinv := (reachable_inv s0 hwf cm ops).2 k o go hk hg
  obtain ⟨col, hc, _, hv⟩ := hinv.rvals.1 key hkey hne
  obtain ⟨v, hv1, hv2⟩ := hv q r hr
  exact ⟨col, v, hc, hv1, hv2⟩

/-- single-source operations keep every tracked key (definitional in the ghost step; shown
    here for the two selection shapes) -/
theorem tracked_keys_kept (g : GObj) (sel : List Nat) :
    (g.pickRows sel).rk = g.rk ∧ (g.pickConds sel).rk = g.rk := ⟨rfl, rfl⟩

/-- `concat` / `from_partials` track exactly the keys tracked in every argument; `append` those
    tracked in receiver and argument -/
theorem tracked_keys_merge (gfirst : GObj) (aligned gs : List GObj) (labs : List (List Lbl))
    (all : List Lbl) (go gr : GObj) (keys : List String) :
    (gconcat gfirst aligned).rk = commonKeys (gfirst :: aligned) ∧
    (gfromPartials gs labs all).rk = commonKeys gs ∧
    (gappend keys go gr).rk = go.rk.filter (fun k => gr.rk.contains k) := ⟨rfl, rfl, rfl⟩

/-- a key is common iff it is tracked in every object -/
theorem mem_commonKeys_iff (g : GObj) (gs : List GObj) (k : String) :
    k ∈ commonKeys (g :: gs) ↔ k ∈ g.rk ∧ ∀ g' ∈ gs, k ∈ g'.rk := by
  simp [commonKeys]

/-- `_merged_rdm_descriptors` never fails: a descriptor an object lacks is filled with `None` -/
theorem mergedRDesc_total (objs : List (Obj α)) : (mergedRDesc objs).isSome = true := rfl


/-! ### 4c. rdm descriptors, row by row (closes `reachable_rdesc_partial`) -/

/-- **Every retained RDM keeps its descriptor values**, row level, for *every* operation
    sequence: in any reachable object, row `q` with ghost `r` has, for every rdm-descriptor key
    it still tracks (`r.rk`), that descriptor present with exactly the value the initial RDM
    `r.src` had — through indexing, subset / subsample, the pattern operations, `append`,
    `concat` and `from_partials` (including merges where other objects lack the key and are
    filled with `None`, and object-level descriptors demoted to rdm descriptors). -/
theorem reachable_rdesc (s0 : Store α) (hwf : ∀ o ∈ s0, o.WF) (cm : Bool) (ops : List Op)
    (k : Nat) (o : Obj α) (go : GObj) (hk : (run cm s0 ops)[k]? = some o)
    (hg : (grun cm s0 (ginit s0) ops)[k]? = some go)
    (q : Nat) (r : GRow) (hr : go.rows[q]? = some r)
    (key : String) (hkey : key ∈ r.rk) (hne : key ≠ "index") :
    ∃ col v, o.rdesc.get key = some col ∧ col[q]? = some v ∧ RVal s0 r.src key v :=
  ((reachable_inv s0 hwf cm ops).2 k o go hk hg).rvals.2.2 q r hr key hkey hne

/-- every rdm-descriptor column of a reachable object has exactly one value per RDM -/
theorem reachable_rdesc_shape (s0 : Store α) (hwf : ∀ o ∈ s0, o.WF) (cm : Bool) (ops : List Op)
    (k : Nat) (o : Obj α) (go : GObj) (hk : (run cm s0 ops)[k]? = some o)
    (hg : (grun cm s0 (ginit s0) ops)[k]? = some go) :
    ∀ kv ∈ o.rdesc, kv.2.length = o.nRdm := by
  have hinv := (reachable_inv s0 hwf cm ops).2 k o go hk hg
  intro kv hkv
  rw [hinv.rvals.2.1 kv hkv, nRdm_eq hinv]

/-- which keys a row tracks: all keys of its initial object at the start … -/
theorem row_keys_init (k nr n : Nat) (keys : List String) :
    ∀ r ∈ (GObj.init k nr n keys).rows, r.rk = keys := by
  intro r hr
  simp only [GObj.init, List.mem_map] at hr
  obtain ⟨q, _, rfl⟩ := hr
  rfl

/-- … kept by every selection of RDMs / conditions … -/
theorem row_keys_kept (r : GRow) (sel : List Nat) : (r.pickC sel).rk = r.rk ∧ r.unaligned.rk = r.rk :=
  ⟨rfl, rfl⟩

/-- … and reduced only by `append`: a row attached to a receiver with rdm-descriptor keys `keys`
    keeps exactly those of its keys the receiver has (the receiver's own rows keep theirs) -/
theorem append_drops_exactly (keys : List String) (go gr : GObj) :
    (gappend keys go gr).rows
      = go.rows ++ gr.rows.map (fun r => { r with al := false, rk := r.rk.filter (fun k => keys.contains k) }) :=
  rfl

/-- in an `append`-free operation sequence every row tracks every rdm-descriptor key of its
    initial object -/
theorem row_keys_full_noappend (s0 : Store α) (hwf : ∀ o ∈ s0, o.WF) (cm : Bool) (ops : List Op)
    (hna : ∀ op ∈ ops, op.isAppend = false)
    (k : Nat) (go : GObj) (hg : (grun cm s0 (ginit s0) ops)[k]? = some go)
    (r : GRow) (hr : r ∈ go.rows) (o0 : Obj α) (h0 : s0[r.src.1]? = some o0) :
    ∀ key ∈ o0.rdesc.keys, key ∈ r.rk :=
  run_full cm ops hna (init_inv' hwf) (gfull_init s0) go (List.mem_of_getElem? hg) r hr o0 h0

/-- a dict has one entry per key -/
def KeysNodup (s0 : Store α) : Prop := ∀ o ∈ s0, o.rdesc.keys.Nodup

/-- **The literal sentence for rdm descriptors**, for every `append`-free operation sequence
    (this is `reachable_rdesc_full` restricted to such sequences): whenever a reachable object
    has an rdm descriptor `key` that the initial object of row `q` also had, the value at row
    `q` is the initial RDM's value. -/
theorem reachable_rdesc_noappend (s0 : Store α) (hwf : ∀ o ∈ s0, o.WF) (hnd : KeysNodup s0)
    (cm : Bool) (ops : List Op) (hna : ∀ op ∈ ops, op.isAppend = false)
    (k : Nat) (o : Obj α) (go : GObj) (hk : (run cm s0 ops)[k]? = some o)
    (hg : (grun cm s0 (ginit s0) ops)[k]? = some go)
    (key : String) (col : List Lbl) (hcol : o.rdesc.get key = some col) (hne : key ≠ "index")
    (q : Nat) (r : GRow) (hr : go.rows[q]? = some r)
    (o0 : Obj α) (col0 : List Lbl) (h0 : s0[r.src.1]? = some o0) (hc0 : o0.rdesc.get key = some col0) :
    col[q]? = col0[r.src.2]? := by
  have hkey : key ∈ r.rk :=
    row_keys_full_noappend s0 hwf cm ops hna k go hg r (List.mem_of_getElem? hr) o0 h0 key
      (Desc.mem_keys_of_get hc0)
  obtain ⟨col', v, hc', hv1, o0', col0', h0', hm, hv2⟩ :=
    reachable_rdesc s0 hwf cm ops k o go hk hg q r hr key hkey hne
  rw [hcol] at hc'
  simp only [Option.some.injEq] at hc'
  subst hc'
  rw [h0] at h0'
  simp only [Option.some.injEq] at h0'
  subst h0'
  have := Desc.get_of_mem_nodup (hnd o0 (List.mem_of_getElem? h0)) hm
  rw [hc0] at this
  simp only [Option.some.injEq] at this
  subst this
  rw [hv1, hv2]

/-! #### the witness: with `append` the literal sentence is false as coded -/

/-- `A` (keys `subj`), `B` (keys `subj`, `extra`): `A.append(B)` drops `extra` of B's RDM, then
    `concat(A, B)` has `extra = [None, None, 7]`: the second row *is* B's RDM, whose `extra` was 7 -/
def cexStore : Store Nat :=
  [ { nCond := 2, vecs := [[some 1]], odesc := [],
      rdesc := [("subj", [Lbl.str "s1"]), ("index", [Lbl.int 0])],
      pdesc := [("index", [Lbl.int 0, Lbl.int 1])] },
    { nCond := 2, vecs := [[some 2]], odesc := [],
      rdesc := [("subj", [Lbl.str "s2"]), ("extra", [Lbl.int 7]), ("index", [Lbl.int 0])],
      pdesc := [("index", [Lbl.int 0, Lbl.int 1])] } ]

def cexOps : List Op := [.append 0 1, .concat [0, 1] none]

/-- what the witness shows, as a decidable check on the model's run -/
def cexCheck : Bool :=
  match (run false cexStore cexOps)[2]?, (grun false cexStore (ginit cexStore) cexOps)[2]? with
  | some o, some go =>
    match o.rdesc.get "extra", go.rows[1]? with
    | some col, some r => r.src == (1, 0) && col[1]? == some Lbl.none
    | _, _ => false
  | _, _ => false

theorem cexStore_wf : ∀ o ∈ cexStore, o.WF := by
  intro o ho
  simp only [cexStore, List.mem_cons, List.mem_nil_iff, or_false] at ho
  rcases ho with rfl | rfl
  · exact { ncond := by decide, nrdm := by simp, vlen := by intro v hv; simp at hv; subst hv; rfl
            pshape := by intro kv hkv; simp at hkv; subst hkv; rfl
            rshape := by intro kv hkv; simp at hkv; rcases hkv with rfl | rfl <;> rfl }
  · exact { ncond := by decide, nrdm := by simp, vlen := by intro v hv; simp at hv; subst hv; rfl
            pshape := by intro kv hkv; simp at hkv; subst hkv; rfl
            rshape := by intro kv hkv; simp at hkv; rcases hkv with rfl | rfl | rfl <;> rfl }

/-- **Where the literal sentence cannot hold**: `reachable_rdesc_full` is false (two initial
    objects, `append` then `concat`).  By `reachable_rdesc_noappend` every counterexample needs
    an `append`. -/
theorem reachable_rdesc_full_false : ¬ reachable_rdesc_full Nat := by
  intro h
  have hc : cexCheck = true := by decide +kernel
  unfold cexCheck at hc
  split at hc
  · rename_i o go ho hgo
    split at hc
    · rename_i col r hcol hr
      simp only [Bool.and_eq_true, beq_iff_eq] at hc
      obtain ⟨hsrc, hval⟩ := hc
      have h0 : cexStore[r.src.1]? = some
          { nCond := 2, vecs := [[some 2]], odesc := [],
            rdesc := [("subj", [Lbl.str "s2"]), ("extra", [Lbl.int 7]), ("index", [Lbl.int 0])],
            pdesc := [("index", [Lbl.int 0, Lbl.int 1])] } := by rw [hsrc]; rfl
      have := h cexStore cexStore_wf false cexOps 2 o go ho hgo "extra" col hcol (by decide) 1 r hr
        _ [Lbl.int 7] h0 rfl
      rw [hval, hsrc] at this
      simp at this
    · simp at hc
  · simp at hc

/-! ## 5. in-place operations change only their receiver; the others change nothing -/

/-- the receiver of an in-place operation (`reorder`, `sort_by`, `append`) -/
def receiver : Op → Option Nat
  | .reorder i _ => some i
  | .sortAlpha i _ _ => some i
  | .sortList i _ _ _ => some i
  | .append i _ => some i
  | _ => none

def isConcat : Op → Bool
  | .concat _ _ => true
  | _ => false

/-- every object other than the receiver of an in-place operation is left exactly as it was,
    and every value-returning operation leaves all existing objects as they were (for `concat`
    when it works on copies, `cm = false`) -/
theorem inplace_frame (cm : Bool) (s : Store α) (op : Op) (hc : isConcat op = true → cm = false)
    (j : Nat) (hj : j < s.length) (hrec : receiver op ≠ some j) :
    (step cm s op)[j]? = s[j]? := by
  unfold step
  cases hs : stepE cm s op with
  | none => rfl
  | some s' =>
    simp only [Option.getD_some]
    cases op <;>
      simp only [stepE, Option.bind_eq_bind, Option.bind_eq_some_iff, bindNew, replaceAt,
        Option.map_eq_some_iff, Option.pure_def] at hs
    case getitem => obtain ⟨_, _, _, _, rfl⟩ := hs; exact List.getElem?_append_left hj
    case subset => obtain ⟨_, _, _, _, rfl⟩ := hs; exact List.getElem?_append_left hj
    case subsample => obtain ⟨_, _, _, _, rfl⟩ := hs; exact List.getElem?_append_left hj
    case subsetPattern => obtain ⟨_, _, _, _, rfl⟩ := hs; exact List.getElem?_append_left hj
    case subsamplePattern => obtain ⟨_, _, _, _, rfl⟩ := hs; exact List.getElem?_append_left hj
    case copy => obtain ⟨_, _, _, _, rfl⟩ := hs; exact List.getElem?_append_left hj
    case permute => obtain ⟨_, _, _, _, rfl⟩ := hs; exact List.getElem?_append_left hj
    case inversePermute => obtain ⟨_, _, _, _, rfl⟩ := hs; exact List.getElem?_append_left hj
    case fromPartials => obtain ⟨_, _, _, _, rfl⟩ := hs; exact List.getElem?_append_left hj
    case reorder i _ =>
      obtain ⟨_, _, _, _, rfl⟩ := hs
      exact List.getElem?_set_ne (by intro h; subst h; exact hrec rfl)
    case sortAlpha i _ _ =>
      obtain ⟨_, _, _, _, rfl⟩ := hs
      exact List.getElem?_set_ne (by intro h; subst h; exact hrec rfl)
    case sortList i _ _ _ =>
      obtain ⟨_, _, _, _, rfl⟩ := hs
      exact List.getElem?_set_ne (by intro h; subst h; exact hrec rfl)
    case append i _ =>
      obtain ⟨_, _, _, _, _, _, rfl⟩ := hs
      exact List.getElem?_set_ne (by intro h; subst h; exact hrec rfl)
    case concat =>
      obtain ⟨_, _, ⟨res, args⟩, _, hs⟩ := hs
      simp only [Option.some.injEq] at hs
      subst hs
      have := hc rfl
      subst this
      simp only [Bool.false_eq_true, if_false]
      exact List.getElem?_append_left hj

/-! ## 6. long-form export -/

/-- `to_df`: one row per (RDM, pair) in stack-major `triu_indices` order; its value is the
    square-form entry of that RDM at that pair, with that RDM's and the two conditions'
    descriptor values -/
theorem toDf_rows (o : Obj α) (hwf : o.WF) :
    o.toDf = (List.range o.nRdm).flatMap (fun q => (pairs o.nCond).map (fun p =>
      ({ value := o.matrix q p.1 p.2, rdm := o.rdesc.row q,
         c1 := o.pdesc.row p.1, c2 := o.pdesc.row p.2 } : DfRow α))) := by
  unfold Obj.toDf
  apply List.flatMap_congr
  intro q hq
  have hq' : q < o.vecs.length := by simpa [Obj.nRdm] using hq
  have hlen : (o.vecs.getD q []).length = triLen o.nCond := by
    rw [List.getD_eq_getElem?_getD, List.getElem?_eq_getElem hq']
    exact hwf.vlen _ (List.getElem_mem hq')
  have hv : o.vecs.getD q [] = (pairs o.nCond).map (fun p => o.matrix q p.1 p.2) := by
    conv_lhs => rw [← Rsa.matToVec_vecToMat o.nCond (some 0) none (o.vecs.getD q []) hlen]
    rfl
  have hz : ∀ (l : List (Nat × Nat)) (f : Nat × Nat → Option α),
      l.zip (l.map f) = l.map (fun a => (a, f a)) := by
    intro l f
    induction l with
    | nil => rfl
    | cons a t ih => simp [ih]
  rw [hv, hz, List.map_map]
  rfl

/-- the label a later argument of `concat` shows after re-alignment is the first argument's -/
theorem concat_aligns (other auth : List Lbl) (d : Lbl) (hall : ∀ x ∈ auth, x ∈ other) :
    pick d other (auth.map (fun x => other.idxOf x)) = auth := by
  unfold pick
  rw [List.map_map]
  conv_rhs => rw [← List.map_id auth]
  apply List.map_congr_left
  intro x hx
  have hlt := List.idxOf_lt_length_of_mem (hall x hx)
  simp [List.getD_eq_getElem?_getD, List.getElem?_eq_getElem hlt]


/-! ## 7. `dissimilarity_measure` (kept beside the store, `Rsa.Core.C10Meas`), as coded -/

/-- a combined step keeps the measure list parallel to the store and never changes the
    measure of an existing object (in particular in-place operations keep the receiver's) -/
theorem meas_parallel_frame (pk cm : Bool) (s s' : Store α) (m m' : MStore) (op : Op)
    (h : stepME pk cm (s, m) op = some (s', m')) (hlen : m.length = s.length) :
    m'.length = s'.length ∧ ∀ j, j < m.length → m'[j]? = m[j]? := by
  simp only [stepME, Option.bind_eq_bind, Option.bind_eq_some_iff, Option.pure_def,
    Option.some.injEq, Prod.mk.injEq] at h
  obtain ⟨s1, hs, m1, hm, rfl, rfl⟩ := h
  exact ⟨by rw [measStep_length hm, stepE_length hs, hlen], measStep_frame hm⟩

/-- the operations that hand the source's measure to their result -/
def passesOn : Op → Option Nat
  | .getitem i _ => some i
  | .subset i _ _ => some i
  | .subsample i _ _ => some i
  | .subsetPattern i _ _ => some i
  | .subsamplePattern i _ _ => some i
  | .copy i => some i
  | _ => none

/-- indexing, subset / subsample of RDMs or conditions, copy / dict round trip: the result has
    the source's measure -/
theorem meas_passed_on (pk : Bool) (m m' : MStore) (op : Op) (i : Nat) (hi : passesOn op = some i)
    (h : measStep pk m op = some m') : ∃ x, m[i]? = some x ∧ m' = m ++ [x] := by
  cases op <;> simp only [passesOn, Option.some.injEq] at hi <;> try (exact absurd hi (by simp))
  all_goals
    subst hi
    simp only [measStep, Option.bind_eq_bind, Option.bind_eq_some_iff, Option.pure_def,
      Option.some.injEq] at h
    obtain ⟨x, hx, rfl⟩ := h
    exact ⟨x, hx, rfl⟩

/-- `append` is accepted only between equal measures and changes none -/
theorem meas_append_equal (pk : Bool) (m m' : MStore) (i j : Nat)
    (h : measStep pk m (.append i j) = some m') : m[i]? = m[j]? ∧ m[i]?.isSome ∧ m' = m := by
  simp only [measStep, Option.bind_eq_bind, Option.bind_eq_some_iff, Option.pure_def] at h
  obtain ⟨a, ha, b, hb, h⟩ := h
  split at h
  · rename_i hab
    simp only [Option.some.injEq] at h
    subst h hab
    exact ⟨by rw [ha, hb], by simp [ha], rfl⟩
  · simp at h

/-- `concat` is accepted only if all arguments have one measure, which the result gets -/
theorem meas_concat_equal (pk : Bool) (m m' : MStore) (is : List Nat) (t : Option String)
    (h : measStep pk m (.concat is t) = some m') :
    ∃ x, (∀ i ∈ is, m[i]? = some x) ∧ is ≠ [] ∧ m' = m ++ [x] := by
  simp only [measStep, Option.bind_eq_bind, Option.bind_eq_some_iff] at h
  obtain ⟨ms, hms, h⟩ := h
  have hf := measOf_forall₂ hms
  split at h
  · simp at h
  · rename_i a rest
    split at h
    · rename_i hall
      simp only [Option.pure_def, Option.some.injEq] at h
      subst h
      refine ⟨a, ?_, ?_, rfl⟩
      · intro i hi
        obtain ⟨x, hx, hix⟩ := forall₂_mem_left hf hi
        rw [hix]
        rcases List.mem_cons.mp hx with rfl | hx
        · rfl
        · simp only [List.all_eq_true, beq_iff_eq] at hall
          rw [hall x hx]
      · intro he; subst he; cases hf
    · simp at h

/-- `from_partials` gives its result the measure of the *last* argument, whatever the others have
    (as coded: `measure = rdms.dissimilarity_measure` inside the loop, never compared) -/
theorem meas_fromPartials_last (pk : Bool) (m m' : MStore) (is : List Nat) (a : Option (List Lbl))
    (d : String) (h : measStep pk m (.fromPartials is a d) = some m') :
    ∃ ms x, measOf m is = some ms ∧ ms.getLast? = some x ∧ m' = m ++ [x] := by
  simp only [measStep, Option.bind_eq_bind, Option.bind_eq_some_iff] at h
  obtain ⟨ms, hms, h⟩ := h
  split at h
  · rename_i x hx
    simp only [Option.pure_def, Option.some.injEq] at h
    exact ⟨ms, x, hms, hx, h.symm⟩
  · simp at h

/-- mixed measures: rows of an object measured as "a" end up in an object labelled "b" -/
example : measStep false [some "a", some "b"] (.fromPartials [0, 1] none "conds")
    = some [some "a", some "b", some "b"] := by decide

/-- `permute_rdms` / `inverse_permute_rdms`: the measure is passed on iff `pk`; on the pinned
    tree (`pk = false`) the result has `None` -/
theorem meas_permute (pk : Bool) (m m' : MStore) (i : Nat) (p : List Nat)
    (h : measStep pk m (.permute i p) = some m') :
    ∃ x, m[i]? = some x ∧ m' = m ++ [if pk then x else none] := by
  simp only [measStep, Option.bind_eq_bind, Option.bind_eq_some_iff, Option.pure_def,
    Option.some.injEq] at h
  obtain ⟨x, hx, rfl⟩ := h
  exact ⟨x, hx, rfl⟩

/-- no operation invents a measure: every measure after a step is one that was there before, or
    `None`; if `permute_rdms` passes the measure on, it is always one that was there before -/
theorem meas_no_invention (pk : Bool) (m m' : MStore) (op : Op) (h : measStep pk m op = some m') :
    ∀ x ∈ m', x ∈ m ∨ (pk = false ∧ x = none) := by
  have hnew : ∀ (y : Option String), y ∈ m ∨ (pk = false ∧ y = none) → m' = m ++ [y] →
      ∀ x ∈ m', x ∈ m ∨ (pk = false ∧ x = none) := by
    intro y hy he x hx
    subst he
    rcases List.mem_append.mp hx with hx | hx
    · exact Or.inl hx
    · simp only [List.mem_singleton] at hx; subst hx; exact hy
  have hsame : m' = m → ∀ x ∈ m', x ∈ m ∨ (pk = false ∧ x = none) := by
    intro he x hx; subst he; exact Or.inl hx
  cases op with
  | getitem i _ => obtain ⟨x, hx, he⟩ := meas_passed_on pk m m' _ i rfl h
                   exact hnew x (Or.inl (List.mem_of_getElem? hx)) he
  | subset i _ _ => obtain ⟨x, hx, he⟩ := meas_passed_on pk m m' _ i rfl h
                    exact hnew x (Or.inl (List.mem_of_getElem? hx)) he
  | subsample i _ _ => obtain ⟨x, hx, he⟩ := meas_passed_on pk m m' _ i rfl h
                       exact hnew x (Or.inl (List.mem_of_getElem? hx)) he
  | subsetPattern i _ _ => obtain ⟨x, hx, he⟩ := meas_passed_on pk m m' _ i rfl h
                           exact hnew x (Or.inl (List.mem_of_getElem? hx)) he
  | subsamplePattern i _ _ => obtain ⟨x, hx, he⟩ := meas_passed_on pk m m' _ i rfl h
                              exact hnew x (Or.inl (List.mem_of_getElem? hx)) he
  | copy i => obtain ⟨x, hx, he⟩ := meas_passed_on pk m m' _ i rfl h
              exact hnew x (Or.inl (List.mem_of_getElem? hx)) he
  | reorder i _ =>
    simp only [measStep, Option.bind_eq_bind, Option.bind_eq_some_iff, Option.pure_def,
      Option.some.injEq] at h
    obtain ⟨_, _, rfl⟩ := h; exact hsame rfl
  | sortAlpha i _ _ =>
    simp only [measStep, Option.bind_eq_bind, Option.bind_eq_some_iff, Option.pure_def,
      Option.some.injEq] at h
    obtain ⟨_, _, rfl⟩ := h; exact hsame rfl
  | sortList i _ _ _ =>
    simp only [measStep, Option.bind_eq_bind, Option.bind_eq_some_iff, Option.pure_def,
      Option.some.injEq] at h
    obtain ⟨_, _, rfl⟩ := h; exact hsame rfl
  | append i j => exact hsame (meas_append_equal pk m m' i j h).2.2
  | concat is t =>
    obtain ⟨x, hx, hne, he⟩ := meas_concat_equal pk m m' is t h
    cases is with
    | nil => exact absurd rfl hne
    | cons i0 _ => exact hnew x (Or.inl (List.mem_of_getElem? (hx i0 List.mem_cons_self))) he
  | fromPartials is a d =>
    obtain ⟨ms, x, hms, hx, he⟩ := meas_fromPartials_last pk m m' is a d h
    exact hnew x (Or.inl (measOf_mem hms x (List.mem_of_getLast? hx))) he
  | permute i p =>
    obtain ⟨x, hx, he⟩ := meas_permute pk m m' i p h
    refine hnew _ ?_ he
    cases pk
    · exact Or.inr ⟨rfl, rfl⟩
    · exact Or.inl (List.mem_of_getElem? hx)
  | inversePermute i =>
    simp only [measStep, Option.bind_eq_bind, Option.bind_eq_some_iff, Option.pure_def,
      Option.some.injEq] at h
    obtain ⟨x, hx, rfl⟩ := h
    refine hnew _ ?_ rfl
    cases pk
    · exact Or.inr ⟨rfl, rfl⟩
    · exact Or.inl (List.mem_of_getElem? hx)

/-- over every operation sequence: if all initial objects are measured as `μ`, every object ever
    present is measured as `μ` — or carries `None` if `permute_rdms` drops the measure -/
theorem reachable_meas_uniform (pk cm : Bool) (s0 : Store α) (m0 : MStore) (μ : Option String)
    (h0 : ∀ x ∈ m0, x = μ) (ops : List Op) :
    ∀ x ∈ (runM pk cm (s0, m0) ops).2, x = μ ∨ (pk = false ∧ x = none) := by
  suffices hgen : ∀ (ops : List Op) (sm : Store α × MStore),
      (∀ x ∈ sm.2, x = μ ∨ (pk = false ∧ x = none)) →
      ∀ x ∈ (runM pk cm sm ops).2, x = μ ∨ (pk = false ∧ x = none) from
    hgen ops (s0, m0) (fun x hx => Or.inl (h0 x hx))
  intro ops
  induction ops with
  | nil => intro sm h; simpa [runM] using h
  | cons op ops ih =>
    intro sm h
    simp only [runM, List.foldl_cons]
    apply ih
    unfold stepM
    cases hst : stepME pk cm sm op with
    | none => simpa using h
    | some sm' =>
      simp only [Option.getD_some]
      simp only [stepME, Option.bind_eq_bind, Option.bind_eq_some_iff, Option.pure_def,
        Option.some.injEq] at hst
      obtain ⟨s1, _, m1, hm, rfl⟩ := hst
      intro x hx
      rcases meas_no_invention pk sm.2 m1 op hm x hx with hx' | hx'
      · exact h x hx'
      · exact Or.inr hx'

/-! ## 8. the index forms of `rdms[idx]` -/

/-- whatever the index form (int, negative int, list / tuple / array with negative entries,
    slice, boolean mask), the resolved row positions are rows of the object — so `getitem` is
    never rejected for them, and `reachable_inv` / `reachable_rdesc` apply to the result -/
theorem resolveIdx_lt (n : Nat) (idx : Idx) (sel : List Nat) (h : resolveIdx n idx = some sel) :
    ∀ a ∈ sel, a < n := by
  cases idx with
  | int i =>
    simp only [resolveIdx, Option.map_eq_some_iff] at h
    obtain ⟨a, ha, rfl⟩ := h
    intro b hb
    simp only [List.mem_singleton] at hb
    subst hb
    exact normIdx_lt ha
  | list l => exact mapM_normIdx_lt (by simpa [resolveIdx] using h)
  | mask l =>
    simp only [resolveIdx] at h
    split at h
    · rename_i hl
      simp only [Option.some.injEq] at h
      subst h
      intro a ha
      rw [← hl]
      exact idxWhere_lt _ l a ha
    · simp at h
  | slice start stop step =>
    simp only [resolveIdx] at h
    split at h
    · simp at h
    · split at h
      · simp only [Option.some.injEq] at h
        subst h
        intro a ha
        have hlt := upFrom_lt _ _ _ _ a ha
        cases stop with
        | none => exact hlt
        | some b => exact Nat.lt_of_lt_of_le hlt (clampPos_le n b)
      · split at h
        · simp only [Option.some.injEq] at h; subst h; simp
        · rename_i hn
          split at h
          · simp only [Option.some.injEq] at h; subst h; simp
          · rename_i a0 ha0
            simp only [Option.some.injEq] at h
            subst h
            intro a ha
            have hle := downFrom_le _ _ _ _ a ha
            have ha0n : a0 < n := by
              cases start with
              | none => simp only [Option.some.injEq] at ha0; omega
              | some b => exact clampNeg_lt hn ha0
            omega

theorem getitem_resolved (o : Obj α) (idx : Idx) (sel : List Nat) (h : resolveIdx o.nRdm idx = some sel) :
    inRange sel o.nRdm = true :=
  (inRange_iff sel o.nRdm).mpr (resolveIdx_lt o.nRdm idx sel h)

/-- a negative int counts from the end: `rdms[-k]` is row `n - k` -/
theorem resolveIdx_neg (n k : Nat) (hk : 1 ≤ k) (hkn : k ≤ n) :
    resolveIdx n (.int (-(k : Int))) = some [n - k] := by
  simp only [resolveIdx, normIdx]
  rw [if_neg (by omega)]
  simp only [Int.neg_neg, Int.toNat_natCast]
  rw [if_pos hkn]
  rfl

/-- a boolean mask of the right length selects exactly the rows marked true, each once, in
    their order (a mask of another length is rejected) -/
theorem resolveIdx_mask (l : List Bool) :
    resolveIdx l.length (.mask l) = some (idxWhere id l) ∧ (idxWhere id l).Nodup ∧
    ∀ i, i ∈ idxWhere id l ↔ l[i]? = some true := by
  refine ⟨by simp [resolveIdx], nodup_idxWhereFrom _ 0 l, fun i => ?_⟩
  rw [mem_idxWhere]
  constructor
  · rintro ⟨x, hx, hxt⟩
    simp only [id] at hxt
    rw [hx, hxt]
  · intro h; exact ⟨true, h, rfl⟩

/-- the full slice is the identity selection -/
theorem resolveIdx_slice_all (n : Nat) : resolveIdx n (.slice none none 1) = some (List.range n) := by
  simp only [resolveIdx]
  rw [if_neg (by decide), if_pos (by decide)]
  have := upFrom_range' n 0
  simp only [Nat.zero_add] at this
  simp only [Int.toNat_one, this, List.range_eq_range']

/-! ## 9. what `append`, `concat`, `from_partials` do with pattern / object-level descriptors
    (documented behaviour, as coded — not part of the label-level claims) -/

/-- `append`: values are stacked; pattern and object-level descriptors are the receiver's, the
    argument's are ignored; no rdm-descriptor key of the argument is adopted, and every key of
    the receiver must exist in the argument -/
theorem append_desc_rules (o r o' : Obj α) (h : o.append r = some o') :
    o'.pdesc = o.pdesc ∧ o'.odesc = o.odesc ∧ o'.nCond = o.nCond ∧ o'.vecs = o.vecs ++ r.vecs ∧
    (∀ kv ∈ o'.rdesc, kv.1 = "index" ∨ kv.1 ∈ o.rdesc.keys) ∧
    (∀ k ∈ o.rdesc.keys, r.rdesc.has k = true) := by
  unfold Obj.append at h
  split at h
  · rename_i hc
    simp only [Option.some.injEq] at h
    subst h
    simp only [Bool.and_eq_true, beq_iff_eq, List.all_eq_true] at hc
    refine ⟨rfl, rfl, rfl, rfl, ?_, hc.2⟩
    intro kv hkv
    rcases Desc.mem_set hkv with h1 | rfl
    · right
      simp only [List.mem_map] at h1
      obtain ⟨kv0, h0, rfl⟩ := h1
      simp only [Desc.keys, List.mem_map]
      exact ⟨kv0, h0, rfl⟩
    · exact Or.inl rfl
  · simp at h

/-- `concat`: pattern descriptors are the first argument's; an object-level descriptor is kept
    exactly when the first argument has it and every later argument has it with the same value -/
theorem concat_desc_rules (first : Obj α) (rest : List (Obj α)) (tgt : Option String) (res : Obj α)
    (args : List (Obj α)) (h : concatObjs (first :: rest) tgt = some (res, args)) :
    res.pdesc = first.pdesc.addIndex res.nCond ∧ res.odesc = mergedODesc (first :: rest) ∧
    (∀ kv ∈ res.odesc, kv ∈ first.odesc ∧ ∀ r ∈ rest, r.odesc.lookup kv.1 = some kv.2) := by
  simp only [concatObjs, Option.bind_eq_bind, Option.bind_eq_some_iff] at h
  obtain ⟨rd, _, ot, _, h⟩ := h
  split at h
  · simp at h
  · simp only [Option.bind_eq_some_iff, Option.pure_def, Option.some.injEq, Prod.mk.injEq] at h
    obtain ⟨aligned, _, res', hres, rfl, _⟩ := h
    obtain ⟨_, _, _, _, _, hod, _, hpd, _⟩ := mk2d_some hres
    refine ⟨hpd, hod, ?_⟩
    intro kv hkv
    rw [hod] at hkv
    simp only [mergedODesc, List.mem_filter, List.all_eq_true, beq_iff_eq] at hkv
    exact hkv

/-- no object-level descriptor is lost by a merge: it is kept, or demoted to an rdm descriptor
    (whose value for each row of an object is that object's value, `mergedVal`) -/
theorem odesc_kept_or_demoted (objs : List (Obj α)) (o : Obj α) (ho : o ∈ objs)
    (kv : String × Lbl) (hkv : kv ∈ o.odesc) :
    kv.1 ∈ (mergedODesc objs).map (·.1) ∨ kv.1 ∈ mergedNames objs := by
  by_cases hk : kv.1 ∈ (mergedODesc objs).map (·.1)
  · exact Or.inl hk
  · right
    simp only [mergedNames, dedupStr]
    rw [mem_uniq]
    simp only [List.mem_append, List.mem_filter, List.mem_flatMap, List.mem_map]
    right
    refine ⟨⟨o, ho, kv, hkv, rfl⟩, ?_⟩
    simpa using hk

/-- `from_partials`: the only pattern descriptor of the result is the expanding one (plus `index`) -/
theorem fromPartials_desc_rules (objs : List (Obj α)) (labs : List (List Lbl)) (all : List Lbl)
    (d : String) (res : Obj α) (h : fromPartialsWith objs labs all d = some res) :
    res.pdesc = Desc.addIndex [(d, all)] res.nCond ∧ res.odesc = mergedODesc objs := by
  unfold fromPartialsWith at h
  split at h
  · simp at h
  split at h
  · simp at h
  split at h
  · simp at h
  · simp only at h
    split at h
    · obtain ⟨_, _, _, _, _, hod, _, hpd, _⟩ := mk2d_some h
      exact ⟨hpd, hod⟩
    · simp at h


/-! ## 10. leaves regenerated from the source on every run (round 3) -/

/-- `batch_to_vectors` (3-D input): the row length it allocates is the number of pairs; `mk3d`
    checks every condensed row against it -/
theorem b2vLen_triangular (n : Nat) : b2vLen n = n * (n - 1) / 2 := rfl

/-- `subset_pattern`: the operator combining the two mask bits of a pair (`&` in the source) is
    the conjunction; `maskVec` calls this leaf, `maskVec_render` depends on it -/
theorem pairSelected_and (a b : Bool) : (pairSelected a.toNat b.toNat == 1) = (a && b) :=
  Rsa.Rdm.pairSelected_spec a b

/-- the diagonal offset of `triu_indices` in `subset_pattern` and `rdms_to_df` is 1: the pair
    enumeration of the model (`pairs`) is the strictly upper triangle -/
theorem triuOffset_strict : triuOffset = 1 ∧ ∀ n, ∀ p ∈ pairs n, p.1 + triuOffset ≤ p.2 ∧ p.2 < n := by
  refine ⟨rfl, ?_⟩
  intro n p hp
  have := mem_pairs hp
  simp only [triuOffset]
  omega

/-- the comparison that selects positions in `subsample`, `subsample_pattern`, `bool_index`
    (`==` in the source) is equality of the values -/
theorem selCmp_eq (d v : Int) : (selCmp d v == 1) = (Lbl.int d == Lbl.int v) := by
  unfold selCmp
  by_cases h : d = v
  · subst h; simp
  · have : ¬ Lbl.int d = Lbl.int v := by intro e; injection e with e; exact h e
    simp [h, this]

/-! ## non-vacuity: concrete objects satisfy the hypotheses -/

/-- a concrete initial object: 2 RDMs over 3 conditions with a NaN, str / int descriptors with a
    repeated value -/
def demo : Option (Obj Rat) :=
  mk2d [[some 1, some 2, none], [some 4, some 5, some 6]] [("task", Lbl.str "t")]
    [("subj", [Lbl.str "s1", Lbl.str "s1"])]
    [("conds", [Lbl.str "b", Lbl.str "a", Lbl.str "ab"]), ("cat", [Lbl.int 1, Lbl.int 0, Lbl.int 1])]

example : demo.map (fun o => (o.nCond, o.nRdm)) = some (3, 2) := by decide +kernel

/-- the constructor's guarantee applies to it (hypothesis `hwf` of `reachable_inv`) -/
example (o : Obj Rat) (h : demo = some o) : o.WF :=
  mk2d_wf h ⟨3, by decide, by intro v hv; simp at hv; rcases hv with rfl | rfl <;> rfl⟩

/-- hypotheses of `reindexVec_render_perm`, `selSortList_perm`, `selSubsample_count` are met -/
example : isPermOfRange [2, 0, 1] 3 = true := by decide
example : ∀ x ∈ [Lbl.int 1, Lbl.int 0, Lbl.int 1], x ∈ [Lbl.int 0, Lbl.int 1] := by decide
example : selSortList [Lbl.int 1, Lbl.int 0, Lbl.int 1] [Lbl.int 0, Lbl.int 1] = [1, 0, 2] := by
  decide +kernel
example : selSubsample [Lbl.int 1, Lbl.int 0, Lbl.int 1] [Lbl.int 1, Lbl.int 1] = [0, 2, 0, 2] := by
  decide +kernel


/-! ### round 3 -/

/-- hypotheses of `reachable_rdesc_noappend` are met by the witness store and an `append`-free
    sequence, and its conclusion is not trivial there: `concat(A, B)` alone keeps B's `extra` -/
example : KeysNodup cexStore := by
  intro o ho
  simp only [cexStore, List.mem_cons, List.mem_nil_iff, or_false] at ho
  rcases ho with rfl | rfl <;> decide
example : ∀ op ∈ [Op.concat [0, 1] none, Op.getitem 2 [1]], op.isAppend = false := by decide
example : ((run false cexStore [Op.concat [0, 1] none, Op.getitem 2 [1]])[3]?).bind (fun o => o.rdesc.get "extra")
    = some [Lbl.int 7] := by decide +kernel
/-- a row of the witness that still tracks a key (hypothesis `hkey` of `reachable_rdesc`) -/
example : ((grun false cexStore (ginit cexStore) cexOps)[2]?).bind (fun go => go.rows[2]?.map (·.rk))
    = some ["subj", "extra", "index"] := by decide +kernel
example : ((grun false cexStore (ginit cexStore) cexOps)[2]?).bind (fun go => go.rows[1]?.map (·.rk))
    = some ["subj", "index"] := by decide +kernel
/-- hypotheses of the measure theorems: an accepted combined step -/
example : (stepME false false (cexStore, [some "euclidean", some "euclidean"]) (.concat [0, 1] none)).map (·.2)
    = some [some "euclidean", some "euclidean", some "euclidean"] := by decide +kernel
example : (stepME false false (cexStore, [some "euclidean", some "corr"]) (.append 0 1)).isNone = true := by
  decide +kernel
/-- index forms: hypotheses of `resolveIdx_lt` / `resolveIdx_neg` are met -/
example : resolveIdx 5 (.slice (some 3) (some 0) (-2)) = some [3, 1] := by decide +kernel
example : resolveIdx 3 (.mask [true, false, true]) = some [0, 2] := by decide +kernel
example : resolveIdx 4 (.list [-1, 0]) = some [3, 0] := by decide +kernel
/-- descriptor rules: an accepted `append` / `concat` exists -/
example : ((cexStore[0]?).bind (fun a => (cexStore[1]?).bind (fun b => a.append b))).isSome = true := by
  decide +kernel
example : (concatObjs cexStore none).isSome = true := by decide +kernel

/-! ## 10. round 6 — descriptor dictionaries are finite maps: `append` does not see the insertion
    order of either dictionary (`util/descriptor_utils.py: append_descriptor`) -/

/-- the generated leaf: `append_descriptor` reads the appended dictionary as `desc_new[k]` for the
    receiver's key `k` — by name (derived from the source on every run, fails closed) -/
theorem appendByName_spec : Rsa.Gen.C10.appendByName = 1 := by decide

/-- as coded (through the leaf), the column stacked under the receiver's key `k` is the appended
    object's column of the same NAME -/
theorem appendGet_by_name (recv arg : Desc) (k : String) : appendGet recv arg k = arg.get k := by
  unfold appendGet
  rw [if_pos appendByName_spec]

/-- the rdm descriptors of an accepted `append` are the ones `append_descriptor` computes as coded
    (`appendDesc`, which calls the leaf): the session model and the leaf cannot drift apart -/
theorem append_rdesc_coded (o r o' : Obj α) (h : o.append r = some o') :
    o'.rdesc = appendDesc o.rdesc r.rdesc (o.nRdm + r.nRdm) := by
  unfold Obj.append at h
  split at h
  · simp only [Option.some.injEq] at h
    subst h
    simp only [appendDesc, appendGet_by_name]
  · simp at h

/-- `append`'s merged descriptors as a finite map: `index` is renumbered, every other key of the
    receiver holds the receiver's column followed by the argument's column of the same name, and
    no other key exists -/
theorem appendDesc_lookup (recv arg : Desc) (total : Nat) (k : String) :
    (appendDesc recv arg total).lookup k =
      if k = "index" then some (rangeLbl total)
      else (recv.lookup k).map (· ++ (arg.lookup k).getD []) := by
  unfold appendDesc
  rw [lookup_set]
  have : (fun kv : String × List Lbl => (kv.1, kv.2 ++ (appendGet recv arg kv.1).getD []))
      = (fun kv => (kv.1, kv.2 ++ (fun k => (arg.lookup k).getD []) kv.1)) := by
    funext kv
    simp only [appendGet_by_name, Desc.get]
  rw [this, lookup_map_ext recv (fun k => (arg.lookup k).getD []) k]

theorem keys_set (d : Desc) (k : String) (col : List Lbl) :
    (d.set k col).keys = if d.has k then d.keys else d.keys ++ [k] := by
  unfold Desc.set
  split
  · simp only [Desc.keys, List.map_map]
    apply List.map_congr_left
    intro kv _
    simp only [Function.comp]
    split
    · rename_i h; exact h.symm
    · rfl
  · simp [Desc.keys]

/-- **`append_desc_order_free`** — dictionaries are finite maps: permuting the insertion order of
    the receiver's dictionary, of the appended object's dictionary, or of both, changes neither
    the column found under any name after `append` nor the set of names (keys unique, as in a
    `dict`).  Depends on the generated leaf `appendByName` (through `appendDesc_lookup`): a
    positional pairing of the two dictionaries breaks this proof. -/
theorem append_desc_order_free (recv recv' arg arg' : Desc) (total : Nat)
    (pr : recv.Perm recv') (pa : arg.Perm arg') (nr : recv.keys.Nodup) (na : arg.keys.Nodup) :
    (∀ k, (appendDesc recv' arg' total).lookup k = (appendDesc recv arg total).lookup k) ∧
    (appendDesc recv' arg' total).keys.Perm (appendDesc recv arg total).keys := by
  constructor
  · intro k
    rw [appendDesc_lookup, appendDesc_lookup, lookup_perm k pr nr, lookup_perm k pa na]
  · unfold appendDesc
    rw [keys_set, keys_set]
    simp only [Desc.has, keys_map_ext]
    have hk : recv.keys.Perm recv'.keys := pr.map _
    have hc : recv'.keys.contains "index" = recv.keys.contains "index" := by
      simp only [List.contains_eq_mem]
      exact decide_eq_decide.mpr (hk.mem_iff).symm
    rw [hc]
    split
    · exact hk.symm
    · exact hk.symm.append_right _

/-- the same on objects: two accepted `append`s whose receivers / arguments differ only in the
    insertion order of their rdm-descriptor dictionaries leave the same descriptors, name by name -/
theorem append_obj_order_free (o o2 r r2 res res2 : Obj α)
    (pr : o.rdesc.Perm o2.rdesc) (pa : r.rdesc.Perm r2.rdesc) (nr : o.rdesc.keys.Nodup)
    (na : r.rdesc.keys.Nodup) (hn : o.nRdm + r.nRdm = o2.nRdm + r2.nRdm)
    (h : o.append r = some res) (h2 : o2.append r2 = some res2) (k : String) :
    res2.rdesc.get k = res.rdesc.get k := by
  rw [append_rdesc_coded o r res h, append_rdesc_coded o2 r2 res2 h2, ← hn]
  exact (append_desc_order_free o.rdesc o2.rdesc r.rdesc r2.rdesc _ pr pa nr na).1 k

/-- non-vacuity: dictionaries with the same names in another order (an explicit `index` first),
    and what a positional pairing would have produced instead -/
example :
    let recv : Desc := [("subj", [.str "s7"]), ("roi", [.str "V1"]), ("index", [.int 0])]
    let arg : Desc := [("index", [.int 0]), ("roi", [.str "V4"]), ("extra", [.int 1]), ("subj", [.str "s12"])]
    recv.keys.Nodup ∧ arg.keys.Nodup ∧
    (appendDesc recv arg 2).lookup "subj" = some [.str "s7", .str "s12"] ∧
    (appendDesc recv arg 2).lookup "roi" = some [.str "V1", .str "V4"] ∧
    (appendDesc recv arg 2).lookup "index" = some [.int 0, .int 1] ∧
    (appendDesc recv arg 2).lookup "extra" = none ∧
    ((arg[recv.keys.idxOf "subj"]?).map (·.2)) = some [.int 0] := by decide +kernel
example : [("a", [Lbl.int 1]), ("b", [Lbl.int 2])].Perm [("b", [Lbl.int 2]), ("a", [Lbl.int 1])] :=
  List.Perm.swap _ _ _

end Rsa.Props.C10
