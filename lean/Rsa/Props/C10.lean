/-
  Property C10 — RDM container operations never change which value belongs to which pair.
  Property theorems only; helper lemmas live in Rsa/Lemmas/C10*.lean.

  Reading guide.  `Rsa.Rdm.Obj` / `stepE` / `run` model the container and its operations as
  coded (vectors, masks over the pair enumeration, square-form fancy indexing, the generated
  size-recovery leaf).  `GObj` / `gstep` / `grun` say what each operation *requests*: which
  initial RDM every row is and which initial condition every position holds.  `ObjInv` is the
  property: vectors are the rendering of the provenance (initial entry at the provenance pair,
  NaN for two copies of a condition or a padded position), pattern descriptors are the initial
  ones at the provenance, aligned rows sit under their own labels.
-/
import Rsa.Lemmas.C10Sort

set_option linter.unusedSectionVars false
set_option linter.unusedVariables false
set_option linter.unusedSimpArgs false

namespace Rsa.Props.C10

open Rsa Rsa.Rdm Rsa.Gen.C10

variable {α : Type} [Zero α]

/-! ## 1. vector form, square form, size recovery (for every size) -/

/-- the number of conditions is recovered from the vector length, for every `n ≥ 1`
    (`_get_n_from_reduced_vectors`, regenerated from the source on every run) -/
theorem nFromReduced_triangular (n : Nat) (hn : 1 ≤ n) : nFromReduced (n * (n - 1) / 2) = n :=
  nFromReduced_triLen n hn

/-- `_get_n_from_length` recovers every `n` except 1 (length 0 is read as `n = 0`; its only
    caller `compare_kendall_tau_a`-style code never has a single condition) -/
theorem nFromLength_triangular (n : Nat) (hn : n ≠ 1) : nFromLength (n * (n - 1) / 2) = n :=
  nFromLength_triLen n hn

/-- `triIdx` is the position of pair `(i, j)` in the `np.triu_indices` enumeration -/
theorem pairs_getElem (n i j : Nat) (hij : i < j) (hj : j < n) :
    (pairs n)[triIdx n i j]? = some (i, j) := pairs_getElem? n i j hij hj

theorem pairs_length (n : Nat) : (pairs n).length = n * (n - 1) / 2 := Rsa.pairs_length n

/-- vector → square → vector is the identity on vectors of length `n(n-1)/2` -/
theorem matToVec_vecToMat (n : Nat) (diag dflt : α) (v : List α) (hv : v.length = triLen n) :
    matToVec n (vecToMat n diag dflt v) = v := Rsa.matToVec_vecToMat n diag dflt v hv

/-- square → vector → square is the identity off the diagonal of a symmetric matrix -/
theorem vecToMat_matToVec (n : Nat) (diag dflt : α) (m : Nat → Nat → α)
    (hsym : ∀ i j, m i j = m j i) (i j : Nat) (hi : i < n) (hj : j < n) (hne : i ≠ j) :
    vecToMat n diag dflt (matToVec n m) i j = m i j :=
  Rsa.vecToMat_matToVec n diag dflt m hsym i j hi hj hne

/-- the square form is symmetric … -/
theorem vecToMat_symm (n : Nat) (diag dflt : α) (v : List α) (i j : Nat) :
    vecToMat n diag dflt v i j = vecToMat n diag dflt v j i := Rsa.vecToMat_symm n diag dflt v i j

/-- … with the prescribed (zero) diagonal -/
theorem vecToMat_diag (n : Nat) (diag dflt : α) (v : List α) (i : Nat) :
    vecToMat n diag dflt v i i = diag := Rsa.vecToMat_diag n diag dflt v i

/-! ## 2. each vector algorithm = the requested re-indexing of the provenance -/

/-- `subset_pattern`: masking the pair enumeration is selecting the conditions -/
theorem maskVec_render (e : Nat → Nat → Option α) (col vals : List Lbl) (cp : List (Option Nat))
    (hlen : col.length = cp.length) :
    maskVec (col.map (fun x => vals.contains x)) (renderVec e cp)
      = renderVec e (pick none cp (selSubset col vals)) := by
  rw [Rsa.Rdm.maskVec_render _ _ _ (by simpa using hlen), selSubset, pick_idxWhere _ _ _ _ hlen]

/-- `subsample_pattern` (NaN diagonal): fancy indexing with repetitions; pairs of two copies
    of one condition come out NaN -/
theorem reindexVec_render (e : Nat → Nat → Option α) (hs : ∀ x y, e x y = e y x)
    (cp : List (Option Nat)) (ord : List Nat) (hord : ∀ a ∈ ord, a < cp.length) :
    reindexVec cp.length none ord (renderVec e cp) = renderVec e (pick none cp ord) :=
  Rsa.Rdm.reindexVec_render e hs cp none ord hord (Or.inl rfl)

/-- `reorder` / `sort_by` / `permute_rdms` (zero diagonal): fancy indexing by a permutation -/
theorem reindexVec_render_perm (e : Nat → Nat → Option α) (hs : ∀ x y, e x y = e y x)
    (cp : List (Option Nat)) (ord : List Nat) (hp : isPermOfRange ord cp.length = true) :
    reindexVec cp.length (some 0) ord (renderVec e cp) = renderVec e (pick none cp ord) :=
  Rsa.Rdm.reindexVec_render e hs cp (some 0) ord (isPermOfRange_facts hp).2.2
    (Or.inr (isPermOfRange_facts hp).2.1)

/-- `from_partials`: pairs the partial RDM lacks are NaN, the others keep their value -/
theorem scatterVec_render (e : Nat → Nat → Option α) (hs : ∀ x y, e x y = e y x)
    (cp : List (Option Nat)) (bigN : Nat) (pidx : List Nat) (hlen : pidx.length = cp.length) :
    scatterVec cp.length bigN pidx (renderVec e cp) = renderVec e (scatterCp bigN pidx cp) :=
  Rsa.Rdm.scatterVec_render e hs cp bigN pidx hlen

/-- the buffer length `from_partials` allocates (`vector_len`, regenerated from the source) is the
    number of pairs, and every scattered row has exactly that length: the write never fails -/
theorem fpVectorLen_triangular (n : Nat) : fpVectorLen n = n * (n - 1) / 2 := rfl

theorem scatterVec_length (n bigN : Nat) (pidx : List Nat) (v : List (Option α)) :
    (scatterVec n bigN pidx v).length = fpVectorLen bigN := by
  simp [scatterVec, matToVec, Rsa.pairs_length, triLen, fpVectorLen]

/-! ## 3. exactly the requested RDMs / conditions, with the requested multiplicity -/

/-- `subset` / `subset_pattern` select position `i` iff its value is requested, once -/
theorem selSubset_spec (col vals : List Lbl) :
    (selSubset col vals).Nodup ∧
    ∀ i, i ∈ selSubset col vals ↔ ∃ x, col[i]? = some x ∧ x ∈ vals := by
  refine ⟨nodup_idxWhereFrom _ 0 col, fun i => ?_⟩
  simp [selSubset, mem_idxWhere]

/-- `subsample` selects position `i` as often as its value is requested -/
theorem selSubsample_count (col vals : List Lbl) (i : Nat) (x : Lbl) (hx : col[i]? = some x) :
    (selSubsample col vals).count i = vals.count x := by
  unfold selSubsample
  rw [List.count_flatMap]
  induction vals with
  | nil => simp
  | cons v vs ih =>
    simp only [List.map_cons, List.sum_cons, Function.comp, ih, List.count_cons]
    have hnd := nodup_idxWhereFrom (fun y : Lbl => y == v) 0 col
    rw [← idxWhere] at hnd
    by_cases hv : x = v
    · subst hv
      have hm : i ∈ idxWhere (fun y : Lbl => y == x) col := (mem_idxWhere _ col i).mpr ⟨x, hx, by simp⟩
      rw [List.count_eq_one_of_mem hnd hm]
      simp; omega
    · have hm : i ∉ idxWhere (fun y : Lbl => y == v) col := by
        rw [mem_idxWhere]
        rintro ⟨y, hy, hyv⟩
        rw [hx] at hy
        simp only [Option.some.injEq] at hy
        subst hy
        exact hv (by simpa using hyv)
      rw [List.count_eq_zero_of_not_mem hm]
      have : (x == v) = false := by simpa using hv
      simp [this, show ¬ v = x from fun h => hv h.symm]

/-- `sort_by(desc='alpha')` always yields a permutation of the positions: no condition is lost
    or duplicated, whatever the descriptor holds (duplicates included) -/
theorem argsortStable_perm (col : List Lbl) : isPermOfRange (argsortStable col) col.length = true :=
  isPermOfRange_of_perm (argsortStable_perm' col)

/-- `sort_by(desc=[…])` (repaired) yields a permutation of the positions as soon as every
    descriptor value is listed — also when the descriptor has repeated values -/
theorem selSortList_perm (col method : List Lbl) (hall : ∀ x ∈ col, x ∈ method) :
    isPermOfRange (selSortList col method) col.length = true :=
  isPermOfRange_of_perm (selSortList_perm' col method hall)

/-! ## 4. the invariant over all operation sequences -/

/-- the constructor guarantees well-formedness (hypothesis of the theorems below) -/
theorem mk2d_wf {vecs : List (List (Option α))} {od : ODesc} {rd pd : Desc} {o : Obj α}
    (h : mk2d vecs od rd pd = some o) (hlen : ∃ n, 1 ≤ n ∧ ∀ v ∈ vecs, v.length = triLen n) : o.WF :=
  Rsa.Rdm.mk2d_wf h hlen

/-- initial objects satisfy the invariant with the identity provenance -/
theorem init_inv (s0 : Store α) (hwf : ∀ o ∈ s0, o.WF) : StoreInv s0 s0 (ginit s0) :=
  init_inv' hwf

/-- every operation (accepted or rejected), with every argument, preserves the invariant of
    every object in the store; `cm` = whether `concat` re-aligns its arguments in place -/
theorem step_inv (s0 s : Store α) (g : List GObj) (cm : Bool) (h : StoreInv s0 s g) (op : Op) :
    StoreInv s0 (step cm s op) (gstep cm s g op) := step_inv' cm h op

/-- **main theorem**: after every finite sequence of operations from well-formed initial
    objects, every object of the store satisfies the invariant -/
theorem reachable_inv (s0 : Store α) (hwf : ∀ o ∈ s0, o.WF) (cm : Bool) (ops : List Op) :
    StoreInv s0 (run cm s0 ops) (grun cm s0 (ginit s0) ops) :=
  run_inv' cm ops (init_inv' hwf)

/-- what the invariant means entry by entry.  In any reachable store, for object `k`, RDM
    row `q` with ghost `r`, and two different positions `i, j`:
    * the square-form entry is the initial entry of RDM `r.src` at the provenance pair, or NaN
      when both positions hold the same initial condition / one is padded;
    * if the row is aligned, both positions carry, for every pattern descriptor other than
      `index`, exactly the value the initial object has for that initial condition;
    * the vector form is the condensed square form. -/
theorem reachable_entry (s0 : Store α) (hwf : ∀ o ∈ s0, o.WF) (cm : Bool) (ops : List Op)
    (k : Nat) (o : Obj α) (go : GObj) (hk : (run cm s0 ops)[k]? = some o)
    (hg : (grun cm s0 (ginit s0) ops)[k]? = some go)
    (q : Nat) (r : GRow) (hr : go.rows[q]? = some r) (i j : Nat) (hi : i < o.nCond) (hj : j < o.nCond)
    (hne : i ≠ j) :
    o.matrix q i j = entryOf (initEntry s0 r.src) (r.cp.getD i none) (r.cp.getD j none) ∧
    (r.al = true → ∀ p, r.cp[i]? = some (some p) → ∀ kv ∈ o.pdesc, kv.1 ≠ "index" →
        ∃ v, kv.2[i]? = some v ∧ PVal s0 (r.src.1, p) kv.1 v) ∧
    matToVec o.nCond (o.matrix q) = o.vecs.getD q [] := by
  have hinv := (reachable_inv s0 hwf cm ops).2 k o go hk hg
  have hq : q < go.rows.length := by
    by_contra hc; rw [List.getElem?_eq_none (by omega)] at hr; simp at hr
  have hrm : r ∈ go.rows := List.mem_of_getElem? hr
  have hcp := hinv.cpLen r hrm
  have hvq : o.vecs.getD q [] = renderVec (initEntry s0 r.src) r.cp := by
    rw [hinv.vecs, List.getD_eq_getElem?_getD, List.getElem?_map, hr]
    rfl
  refine ⟨?_, ?_, ?_⟩
  · unfold Obj.matrix
    rw [hvq, ← hcp]
    exact matOf_render _ (initEntry_symm s0 r.src) r.cp (some 0) i j (by omega) (by omega) hne
  · intro hal p hp kv hkv hk'
    exact hinv.pvals kv hkv hk' i (r.src.1, p) (hinv.aligned r hrm hal i p hp)
  · unfold Obj.matrix matOf
    exact Rsa.matToVec_vecToMat _ _ _ _ (by rw [hvq, renderVec_length, hcp])


/-! ## 4b. rdm descriptors follow their RDMs -/

/-- The sentence "every retained RDM keeps all its descriptor values" read literally: whenever
    an object has an rdm descriptor `key` that the initial object of row `q` also had, the
    value at row `q` is the initial one.  Not proved in this generality — and false in one
    corner of the behaviour as coded and documented: `append` keeps only the receiver's keys,
    so an appended row can lose `key`, and a later `concat` that demotes an object-level
    descriptor of the same name then fills that row with the object's value. -/
def reachable_rdesc_full (α : Type) [Zero α] : Prop :=
  ∀ (s0 : Store α), (∀ o ∈ s0, o.WF) → ∀ (cm : Bool) (ops : List Op) (k : Nat) (o : Obj α) (go : GObj),
    (run cm s0 ops)[k]? = some o → (grun cm s0 (ginit s0) ops)[k]? = some go →
    ∀ key col, o.rdesc.get key = some col → key ≠ "index" →
    ∀ (q : Nat) (r : GRow), go.rows[q]? = some r →
    ∀ o0 col0, s0[r.src.1]? = some o0 → o0.rdesc.get key = some col0 → col[q]? = col0[r.src.2]?

/-- proved part: for the *tracked* keys `go.rk` — every rdm descriptor of the initial object,
    carried through every operation; after `append`, `concat` and `from_partials` the keys
    tracked in *all* the objects involved (`tracked_keys_merge`) — the descriptor is present and
    row `q` holds exactly the value initial RDM `r.src` had.  Still outside: object-level
    descriptors demoted to rdm descriptors by a merge, and keys that only some of the merged /
    appended objects have (filled with `None`, resp. dropped, as coded). -/
theorem reachable_rdesc_partial (s0 : Store α) (hwf : ∀ o ∈ s0, o.WF) (cm : Bool) (ops : List Op)
    (k : Nat) (o : Obj α) (go : GObj) (hk : (run cm s0 ops)[k]? = some o)
    (hg : (grun cm s0 (ginit s0) ops)[k]? = some go)
    (key : String) (hkey : key ∈ go.rk) (hne : key ≠ "index")
    (q : Nat) (r : GRow) (hr : go.rows[q]? = some r) :
    ∃ col v, o.rdesc.get key = some col ∧ col[q]? = some v ∧ RVal s0 r.src key v := by
  have hinv := (reachable_inv s0 hwf cm ops).2 k o go hk hg
  obtain ⟨col, hc, _, hv⟩ := hinv.rvals key hkey hne
  obtain ⟨v, hv1, hv2⟩ := hv q r hr
  exact ⟨col, v, hc, hv1, hv2⟩

/-- single-source operations keep every tracked key (definitional in the ghost step; shown
    here for the two selection shapes) -/
theorem tracked_keys_kept (g : GObj) (sel : List Nat) :
    (g.pickRows sel).rk = g.rk ∧ (g.pickConds sel).rk = g.rk := ⟨rfl, rfl⟩

/-- `concat` / `from_partials` track exactly the keys tracked in every argument; `append` those
    tracked in receiver and argument -/
theorem tracked_keys_merge (gfirst : GObj) (aligned gs : List GObj) (labs : List (List Lbl))
    (all : List Lbl) (go gr : GObj) :
    (gconcat gfirst aligned).rk = commonKeys (gfirst :: aligned) ∧
    (gfromPartials gs labs all).rk = commonKeys gs ∧
    (gappend go gr).rk = go.rk.filter (fun k => gr.rk.contains k) := ⟨rfl, rfl, rfl⟩

/-- a key is common iff it is tracked in every object -/
theorem mem_commonKeys_iff (g : GObj) (gs : List GObj) (k : String) :
    k ∈ commonKeys (g :: gs) ↔ k ∈ g.rk ∧ ∀ g' ∈ gs, k ∈ g'.rk := by
  simp [commonKeys]

/-- `_merged_rdm_descriptors` never fails: a descriptor an object lacks is filled with `None` -/
theorem mergedRDesc_total (objs : List (Obj α)) : (mergedRDesc objs).isSome = true := rfl

/-! ## 5. in-place operations change only their receiver; the others change nothing -/

/-- the receiver of an in-place operation (`reorder`, `sort_by`, `append`) -/
def receiver : Op → Option Nat
  | .reorder i _ => some i
  | .sortAlpha i _ _ => some i
  | .sortList i _ _ _ => some i
  | .append i _ => some i
  | _ => none

def isConcat : Op → Bool
  | .concat _ _ => true
  | _ => false

/-- every object other than the receiver of an in-place operation is left exactly as it was,
    and every value-returning operation leaves all existing objects as they were (for `concat`
    when it works on copies, `cm = false`) -/
theorem inplace_frame (cm : Bool) (s : Store α) (op : Op) (hc : isConcat op = true → cm = false)
    (j : Nat) (hj : j < s.length) (hrec : receiver op ≠ some j) :
    (step cm s op)[j]? = s[j]? := by
  unfold step
  cases hs : stepE cm s op with
  | none => rfl
  | some s' =>
    simp only [Option.getD_some]
    cases op <;>
      simp only [stepE, Option.bind_eq_bind, Option.bind_eq_some_iff, bindNew, replaceAt,
        Option.map_eq_some_iff, Option.pure_def] at hs
    case getitem => obtain ⟨_, _, _, _, rfl⟩ := hs; exact List.getElem?_append_left hj
    case subset => obtain ⟨_, _, _, _, rfl⟩ := hs; exact List.getElem?_append_left hj
    case subsample => obtain ⟨_, _, _, _, rfl⟩ := hs; exact List.getElem?_append_left hj
    case subsetPattern => obtain ⟨_, _, _, _, rfl⟩ := hs; exact List.getElem?_append_left hj
    case subsamplePattern => obtain ⟨_, _, _, _, rfl⟩ := hs; exact List.getElem?_append_left hj
    case copy => obtain ⟨_, _, _, _, rfl⟩ := hs; exact List.getElem?_append_left hj
    case permute => obtain ⟨_, _, _, _, rfl⟩ := hs; exact List.getElem?_append_left hj
    case inversePermute => obtain ⟨_, _, _, _, rfl⟩ := hs; exact List.getElem?_append_left hj
    case fromPartials => obtain ⟨_, _, _, _, rfl⟩ := hs; exact List.getElem?_append_left hj
    case reorder i _ =>
      obtain ⟨_, _, _, _, rfl⟩ := hs
      exact List.getElem?_set_ne (by intro h; subst h; exact hrec rfl)
    case sortAlpha i _ _ =>
      obtain ⟨_, _, _, _, rfl⟩ := hs
      exact List.getElem?_set_ne (by intro h; subst h; exact hrec rfl)
    case sortList i _ _ _ =>
      obtain ⟨_, _, _, _, rfl⟩ := hs
      exact List.getElem?_set_ne (by intro h; subst h; exact hrec rfl)
    case append i _ =>
      obtain ⟨_, _, _, _, _, _, rfl⟩ := hs
      exact List.getElem?_set_ne (by intro h; subst h; exact hrec rfl)
    case concat =>
      obtain ⟨_, _, ⟨res, args⟩, _, hs⟩ := hs
      simp only [Option.some.injEq] at hs
      subst hs
      have := hc rfl
      subst this
      simp only [Bool.false_eq_true, if_false]
      exact List.getElem?_append_left hj

/-! ## 6. long-form export -/

/-- `to_df`: one row per (RDM, pair) in stack-major `triu_indices` order; its value is the
    square-form entry of that RDM at that pair, with that RDM's and the two conditions'
    descriptor values -/
theorem toDf_rows (o : Obj α) (hwf : o.WF) :
    o.toDf = (List.range o.nRdm).flatMap (fun q => (pairs o.nCond).map (fun p =>
      ({ value := o.matrix q p.1 p.2, rdm := o.rdesc.row q,
         c1 := o.pdesc.row p.1, c2 := o.pdesc.row p.2 } : DfRow α))) := by
  unfold Obj.toDf
  apply List.flatMap_congr
  intro q hq
  have hq' : q < o.vecs.length := by simpa [Obj.nRdm] using hq
  have hlen : (o.vecs.getD q []).length = triLen o.nCond := by
    rw [List.getD_eq_getElem?_getD, List.getElem?_eq_getElem hq']
    exact hwf.vlen _ (List.getElem_mem hq')
  have hv : o.vecs.getD q [] = (pairs o.nCond).map (fun p => o.matrix q p.1 p.2) := by
    conv_lhs => rw [← Rsa.matToVec_vecToMat o.nCond (some 0) none (o.vecs.getD q []) hlen]
    rfl
  have hz : ∀ (l : List (Nat × Nat)) (f : Nat × Nat → Option α),
      l.zip (l.map f) = l.map (fun a => (a, f a)) := by
    intro l f
    induction l with
    | nil => rfl
    | cons a t ih => simp [ih]
  rw [hv, hz, List.map_map]
  rfl

/-- the label a later argument of `concat` shows after re-alignment is the first argument's -/
theorem concat_aligns (other auth : List Lbl) (d : Lbl) (hall : ∀ x ∈ auth, x ∈ other) :
    pick d other (auth.map (fun x => other.idxOf x)) = auth := by
  unfold pick
  rw [List.map_map]
  conv_rhs => rw [← List.map_id auth]
  apply List.map_congr_left
  intro x hx
  have hlt := List.idxOf_lt_length_of_mem (hall x hx)
  simp [List.getD_eq_getElem?_getD, List.getElem?_eq_getElem hlt]

/-! ## non-vacuity: concrete objects satisfy the hypotheses -/

/-- a concrete initial object: 2 RDMs over 3 conditions with a NaN, str / int descriptors with a
    repeated value -/
def demo : Option (Obj Rat) :=
  mk2d [[some 1, some 2, none], [some 4, some 5, some 6]] [("task", Lbl.str "t")]
    [("subj", [Lbl.str "s1", Lbl.str "s1"])]
    [("conds", [Lbl.str "b", Lbl.str "a", Lbl.str "ab"]), ("cat", [Lbl.int 1, Lbl.int 0, Lbl.int 1])]

example : demo.map (fun o => (o.nCond, o.nRdm)) = some (3, 2) := by decide +kernel

/-- the constructor's guarantee applies to it (hypothesis `hwf` of `reachable_inv`) -/
example (o : Obj Rat) (h : demo = some o) : o.WF :=
  mk2d_wf h ⟨3, by decide, by intro v hv; simp at hv; rcases hv with rfl | rfl <;> rfl⟩

/-- hypotheses of `reindexVec_render_perm`, `selSortList_perm`, `selSubsample_count` are met -/
example : isPermOfRange [2, 0, 1] 3 = true := by decide
example : ∀ x ∈ [Lbl.int 1, Lbl.int 0, Lbl.int 1], x ∈ [Lbl.int 0, Lbl.int 1] := by decide
example : selSortList [Lbl.int 1, Lbl.int 0, Lbl.int 1] [Lbl.int 0, Lbl.int 1] = [1, 0, 2] := by
  decide +kernel
example : selSubsample [Lbl.int 1, Lbl.int 0, Lbl.int 1] [Lbl.int 1, Lbl.int 1] = [0, 2, 0, 2] := by
  decide +kernel

end Rsa.Props.C10
