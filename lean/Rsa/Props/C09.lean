/-
  Property C09 — bootstrap samples are faithful with-replacement resamples of whole groups.
  Property theorems only; helper lemmas live in Rsa/Lemmas/C09.lean.

  Every theorem is about the executable model `Rsa.Core.Boot` (the functions the driver runs
  against the real rsatoolbox on every check) and holds for every stack, every descriptor,
  every label type with decidable equality, every comparison function used by the sort, and
  every list of draws.  "Valid draws" (`ValidDraws`) is exactly what the request
  `np.random.randint(0, len(select), size=len(select))` can return; the harness checks that
  request on every recorded call.
-/
import Mathlib.Data.Finset.Card
import Mathlib.Data.Fintype.Pi
import Mathlib.Data.List.OfFn
import Mathlib.Data.List.FinRange
import Mathlib.Algebra.BigOperators.Group.Finset.Basic
import Mathlib.Logic.Equiv.Basic
import Mathlib.Data.Rat.Defs
import Mathlib.Algebra.Order.Field.Rat
import Mathlib.Data.Fintype.BigOperators
import Mathlib.Tactic.Ring
import Mathlib.Tactic.NormNum
import Mathlib.Algebra.BigOperators.Ring.Finset
import Rsa.Lemmas.C09
import Rsa.Lemmas.C09Rdm
import Rsa.Gen.C09

set_option linter.unusedSectionVars false
set_option linter.unusedVariables false
set_option linter.unusedSimpArgs false

namespace Rsa.Props.C09

open Rsa Rsa.Boot

variable {L α : Type} [DecidableEq L]

/-- the possible return values of the `randint` request the code makes for a descriptor -/
def ValidDraws (le : L → L → Bool) (desc : List L) (draws : List Nat) : Prop :=
  draws.length = (drawSpec le desc).1 ∧ ∀ d ∈ draws, d < (drawSpec le desc).2

/-! ### the draw: as many groups as there are distinct groups, each a descriptor value -/

/-- the number of drawn indices equals the number of distinct descriptor values (groups) -/
theorem draw_size (le : L → L → Bool) (desc : List L) (draws : List Nat)
    (h : ValidDraws le desc draws) :
    (bootIdx (uniq le desc) draws).length = desc.toFinset.card := by
  obtain ⟨hlen, hr⟩ := h
  rw [bootIdx_eq_pick, pick_length _ _ hr, hlen]
  show (uniq le desc).length = _
  rw [← List.toFinset_card_of_nodup (nodup_uniq le desc)]
  congr 1
  ext x
  simp [mem_uniq]

/-- every drawn index is a value of the grouping descriptor (for any draws at all) -/
theorem idx_are_groups (le : L → L → Bool) (desc : List L) (draws : List Nat) :
    ∀ g ∈ bootIdx (uniq le desc) draws, g ∈ desc :=
  fun g hg => mem_uniq.mp (mem_of_mem_bootIdx hg)

/-- draw number ↦ group is a bijection between `{0,…,m-1}` and the set of groups: distinct
    numbers select distinct groups and every group is reachable.  (Hence uniform integer draws
    select every group with the same probability.) -/
theorem select_bijective (le : L → L → Bool) (desc : List L) :
    Function.Bijective
      (fun d : Fin (uniq le desc).length =>
        (⟨(uniq le desc)[d], mem_uniq.mp (List.getElem_mem d.isLt)⟩ : {g : L // g ∈ desc})) := by
  constructor
  · intro a b hab
    have h : (uniq le desc)[a] = (uniq le desc)[b] := congrArg Subtype.val hab
    exact Fin.ext ((List.Nodup.getElem_inj_iff (nodup_uniq le desc)).mp h)
  · rintro ⟨g, hg⟩
    obtain ⟨i, hi, hgi⟩ := List.getElem_of_mem (mem_uniq (le := le).mpr hg)
    exact ⟨⟨i, hi⟩, Subtype.ext hgi⟩

/-- number of times group `g` is selected when the `m` draws come out as `f` -/
def selections (le : L → L → Bool) (desc : List L)
    (f : Fin (uniq le desc).length → Fin (uniq le desc).length) (g : L) : Nat :=
  (bootIdx (uniq le desc) (List.ofFn fun t => (f t).val)).count g

/-- summed over *all* `m^m` outcomes of the draw, every group is selected exactly as often as
    every other group -/
theorem equal_selection_counts (le : L → L → Bool) (desc : List L) (g g' : L)
    (hg : g ∈ desc) (hg' : g' ∈ desc) :
    ∑ f, selections le desc f g = ∑ f, selections le desc f g' := by
  have hnd := nodup_uniq le desc
  obtain ⟨ia, hia, hga⟩ := List.getElem_of_mem (mem_uniq (le := le).mpr hg)
  obtain ⟨ib, hib, hgb⟩ := List.getElem_of_mem (mem_uniq (le := le).mpr hg')
  have e1 : ∀ f, selections le desc f g =
      (List.finRange _).countP (fun t => decide (f t = ⟨ia, hia⟩)) := fun f => by
    rw [← count_bootIdx_ofFn _ hnd ⟨ia, hia⟩ f]; simp only [selections, Fin.getElem_fin, hga]
  have e2 : ∀ f, selections le desc f g' =
      (List.finRange _).countP (fun t => decide (f t = ⟨ib, hib⟩)) := fun f => by
    rw [← count_bootIdx_ofFn _ hnd ⟨ib, hib⟩ f]; simp only [selections, Fin.getElem_fin, hgb]
  simp only [e1, e2]
  exact sum_countP_swap _ _

/-- … namely `m^m` times in `m^m` outcomes: exactly once per outcome on average -/
theorem mean_selection_one (le : L → L → Bool) (desc : List L) (g : L) (hg : g ∈ desc) :
    ∑ f, selections le desc f g = (uniq le desc).length ^ (uniq le desc).length := by
  have hnd := nodup_uniq le desc
  obtain ⟨ia, hia, hga⟩ := List.getElem_of_mem (mem_uniq (le := le).mpr hg)
  have e1 : ∀ f, selections le desc f g =
      (List.finRange _).countP (fun t => decide (f t = ⟨ia, hia⟩)) := fun f => by
    rw [← count_bootIdx_ofFn _ hnd ⟨ia, hia⟩ f]; simp only [selections, Fin.getElem_fin, hga]
  simp only [e1]
  exact sum_countP_total _

/-- FULL statement of the last sentence of the property, with the distribution of the draws made
    explicit: under *any* uniform weighting `P` of the `m^m` outcomes (what an ideal
    `randint(0, m, size=m)` produces) the expected number of selections of every group is 1. -/
def equal_frequency_full : Prop :=
  ∀ (le : L → L → Bool) (desc : List L)
    (P : (Fin (uniq le desc).length → Fin (uniq le desc).length) → ℚ),
    (∀ f f', P f = P f') → ∑ f, P f = 1 →
    ∀ g ∈ desc, ∑ f, P f * (selections le desc f g : ℚ) = 1

/-- PARTIAL only in that the hypothesis "numpy's generator weights all outcomes equally" is
    trusted (sanity-checked by the harness's 6-sigma frequency cases), not proved: the statement
    itself is proved in full. -/
theorem equal_frequency_partial : equal_frequency_full (L := L) := by
  intro le desc P hunif hone g hg
  have hmean := mean_selection_one le desc g hg
  obtain ⟨ia, hia, _⟩ := List.getElem_of_mem (mem_uniq (le := le).mpr hg)
  let f0 : Fin (uniq le desc).length → Fin (uniq le desc).length := fun _ => ⟨ia, hia⟩
  have hP : ∀ f, P f = P f0 := fun f => hunif f f0
  have hcard : (P f0) * ((uniq le desc).length ^ (uniq le desc).length : ℕ) = 1 := by
    have : ∑ f : Fin (uniq le desc).length → Fin (uniq le desc).length, P f
        = ∑ _f : Fin (uniq le desc).length → Fin (uniq le desc).length, P f0 :=
      Finset.sum_congr rfl (fun f _ => hP f)
    rw [this, Finset.sum_const, Finset.card_univ, Fintype.card_fun, Fintype.card_fin] at hone
    rw [nsmul_eq_mul] at hone
    rw [mul_comm]; exact hone
  calc ∑ f, P f * (selections le desc f g : ℚ)
      = ∑ f, P f0 * (selections le desc f g : ℚ) :=
        Finset.sum_congr rfl (fun f _ => by rw [hP f])
    _ = P f0 * ((∑ f, selections le desc f g : ℕ) : ℚ) := by
        rw [← Finset.mul_sum]; push_cast; rfl
    _ = 1 := by rw [hmean]; exact hcard

/-! ### resampling RDMs (`RDMs.subsample`) -/

/-- The sample of `subsample(by, value)` consists exactly of the RDMs at the selected source
    positions `sel`, in that order: vector and *every* rdm descriptor of sample RDM `p` are
    those of source RDM `sel[p]`; conditions and pattern descriptors are untouched. -/
theorem rdm_sample_contents (s : Stack L α) (hwf : s.WF) (by_ : String) (desc : List L)
    (hd : s.rdmDesc.lookup by_ = some desc) (value : List L) :
    ∃ s', s.subsample by_ value = some s' ∧ s'.WF ∧
      s'.nCond = s.nCond ∧ s'.patDesc = s.patDesc ∧
      s'.vecs.length = (rdmSelection desc value).length ∧
      (∀ (p j : Nat), (rdmSelection desc value)[p]? = some j → j < s.vecs.length ∧ s'.vecs[p]? = s.vecs[j]?) ∧
      s'.rdmDesc.map (·.1) = s.rdmDesc.map (·.1) ∧
      (∀ k d, (k, d) ∈ s.rdmDesc → ∃ d', (k, d') ∈ s'.rdmDesc ∧
        d'.length = (rdmSelection desc value).length ∧
        ∀ (p j : Nat), (rdmSelection desc value)[p]? = some j → d'[p]? = d[j]?) := by
  have hdl : desc.length = s.vecs.length := hwf.rdm_len _ (mem_of_lookup hd)
  have hsel : ∀ i ∈ rdmSelection desc value, i < s.vecs.length := fun i hi => by
    have := lt_of_mem_rdmSelection hi; omega
  refine ⟨{ s with vecs := pick s.vecs (rdmSelection desc value),
                   rdmDesc := extract s.rdmDesc (rdmSelection desc value) }, ?_, ?_, rfl, rfl,
          pick_length _ _ hsel, ?_, extract_keys _ _, ?_⟩
  · simp [Stack.subsample, hd]
  · refine ⟨?_, ?_, hwf.pat_len⟩
    · intro v hv
      simp only [pick, List.mem_filterMap] at hv
      obtain ⟨i, _, hi⟩ := hv
      exact hwf.vec_len v (List.mem_of_getElem? hi)
    · rintro ⟨k, d'⟩ hkd
      obtain ⟨d, hmem, rfl⟩ := mem_extract.mp hkd
      have hl : d.length = s.vecs.length := hwf.rdm_len _ hmem
      simp only
      rw [pick_length _ _ (fun i hi => by have := hsel i hi; omega), pick_length _ _ hsel]
  · intro p j hpj
    have hj : j < s.vecs.length := hsel j (List.mem_of_getElem? hpj)
    refine ⟨hj, ?_⟩
    simp only
    rw [pick_getElem? _ _ hsel, hpj]
    rfl
  · intro k d hmem
    have hl : d.length = s.vecs.length := hwf.rdm_len _ hmem
    have hsel' : ∀ i ∈ rdmSelection desc value, i < d.length := fun i hi => by
      have := hsel i hi; omega
    refine ⟨pick d (rdmSelection desc value), mem_extract.mpr ⟨d, hmem, rfl⟩,
      pick_length _ _ hsel', ?_⟩
    intro p j hpj
    rw [pick_getElem? _ _ hsel', hpj]
    rfl

/-- every source RDM occurs in the sample exactly as often as its group was drawn, and only
    existing RDMs are selected -/
theorem rdm_sample_multiplicity (desc value : List L) :
    (∀ j (hj : j < desc.length), (rdmSelection desc value).count j = value.count desc[j]) ∧
    (∀ j ∈ rdmSelection desc value, j < desc.length) :=
  ⟨fun j hj => count_rdmSelection desc value j hj, fun j hj => lt_of_mem_rdmSelection hj⟩

/-- grouped RDMs are in or out together, and with the same multiplicity -/
theorem rdm_groups_together (desc value : List L) (j j' : Nat) (hj : j < desc.length)
    (hj' : j' < desc.length) (hg : desc[j] = desc[j']) :
    (rdmSelection desc value).count j = (rdmSelection desc value).count j' ∧
    (j ∈ rdmSelection desc value ↔ j' ∈ rdmSelection desc value) := by
  have hc : (rdmSelection desc value).count j = (rdmSelection desc value).count j' := by
    rw [count_rdmSelection _ _ j hj, count_rdmSelection _ _ j' hj', hg]
  refine ⟨hc, ?_⟩
  rw [← List.count_pos_iff, ← List.count_pos_iff, hc]

/-! ### resampling conditions (`RDMs.subsample_pattern`) -/

/-- The sample of `subsample_pattern(by, value)` has exactly the conditions at the selected
    source positions `sel` (ascending, so the source order is kept and copies are adjacent):
    *every* pattern descriptor of sample condition `p` is that of source condition `sel[p]`;
    RDMs and rdm descriptors are untouched. -/
theorem pattern_sample_contents (s : Stack L α) (hwf : s.WF) (by_ : String) (desc : List L)
    (hd : s.patDesc.lookup by_ = some desc) (value : List L) :
    ∃ s', s.subsamplePattern by_ value = some s' ∧ s'.WF ∧
      s'.nCond = (patSelection desc value).length ∧ s'.rdmDesc = s.rdmDesc ∧
      s'.vecs.length = s.vecs.length ∧
      (patSelection desc value).Pairwise (· ≤ ·) ∧
      s'.patDesc.map (·.1) = s.patDesc.map (·.1) ∧
      (∀ k d, (k, d) ∈ s.patDesc → ∃ d', (k, d') ∈ s'.patDesc ∧
        d'.length = (patSelection desc value).length ∧
        ∀ (p j : Nat), (patSelection desc value)[p]? = some j → j < s.nCond ∧ d'[p]? = d[j]?) := by
  have hdl : desc.length = s.nCond := hwf.pat_len _ (mem_of_lookup hd)
  have hsel : ∀ i ∈ patSelection desc value, i < s.nCond := fun i hi => by
    have := lt_of_mem_patSelection hi; omega
  refine ⟨{ nCond := (patSelection desc value).length,
            vecs := s.vecs.map (subVec s.nCond (patSelection desc value)),
            rdmDesc := s.rdmDesc,
            patDesc := extract s.patDesc (patSelection desc value) }, ?_, ?_, rfl, rfl,
          by simp, patSelection_sorted desc value, extract_keys _ _, ?_⟩
  · simp [Stack.subsamplePattern, hd]
  · refine ⟨?_, ?_, ?_⟩
    · intro v hv
      simp only [List.mem_map] at hv
      obtain ⟨w, _, rfl⟩ := hv
      exact subVec_length _ _ _
    · intro kv hkv
      simpa using hwf.rdm_len kv hkv
    · rintro ⟨k, d'⟩ hkd
      obtain ⟨d, hmem, rfl⟩ := mem_extract.mp hkd
      have hl : d.length = s.nCond := hwf.pat_len _ hmem
      exact pick_length _ _ (fun i hi => by have := hsel i hi; omega)
  · intro k d hmem
    have hl : d.length = s.nCond := hwf.pat_len _ hmem
    have hsel' : ∀ i ∈ patSelection desc value, i < d.length := fun i hi => by
      have := hsel i hi; omega
    refine ⟨pick d (patSelection desc value), mem_extract.mpr ⟨d, hmem, rfl⟩,
      pick_length _ _ hsel', ?_⟩
    intro p j hpj
    refine ⟨hsel j (List.mem_of_getElem? hpj), ?_⟩
    rw [pick_getElem? _ _ hsel', hpj]
    rfl

/-- every source condition occurs in the sample exactly as often as its group was drawn -/
theorem pattern_sample_multiplicity (desc value : List L) :
    (∀ j (hj : j < desc.length), (patSelection desc value).count j = value.count desc[j]) ∧
    (∀ j ∈ patSelection desc value, j < desc.length) :=
  ⟨fun j hj => count_patSelection desc value j hj, fun j hj => lt_of_mem_patSelection hj⟩

/-- grouped conditions are in or out together, and with the same multiplicity -/
theorem pattern_groups_together (desc value : List L) (j j' : Nat) (hj : j < desc.length)
    (hj' : j' < desc.length) (hg : desc[j] = desc[j']) :
    (patSelection desc value).count j = (patSelection desc value).count j' ∧
    (j ∈ patSelection desc value ↔ j' ∈ patSelection desc value) := by
  have hc : (patSelection desc value).count j = (patSelection desc value).count j' := by
    rw [count_patSelection _ _ j hj, count_patSelection _ _ j' hj', hg]
  refine ⟨hc, ?_⟩
  rw [← List.count_pos_iff, ← List.count_pos_iff, hc]

/-- Entry `(r, i, j)`, `i < j`, of the pattern-resampled stack: with `a ≤ b` the original
    conditions of sample conditions `i` and `j`, it is NaN if `a = b` (two copies of one
    condition) and otherwise *is* the source entry of RDM `r` for the pair `(a, b)` (at its
    condensed position `triIdx n a b`, which exists). -/
theorem sample_entry (s : Stack L α) (hwf : s.WF) (by_ : String) (desc : List L)
    (hd : s.patDesc.lookup by_ = some desc) (value : List L) (s' : Stack L α)
    (hs : s.subsamplePattern by_ value = some s')
    (r : Nat) (w : List (Option α)) (hw : s.vecs[r]? = some w)
    (i j : Nat) (hij : i < j) (hj : j < s'.nCond) :
    ∃ w' a b, s'.vecs[r]? = some w' ∧
      (patSelection desc value)[i]? = some a ∧ (patSelection desc value)[j]? = some b ∧
      a ≤ b ∧ b < s.nCond ∧
      (a ≠ b → triIdx s.nCond a b < w.length) ∧
      w'[triIdx s'.nCond i j]? = if a = b then some none else w[triIdx s.nCond a b]? := by
  simp only [Stack.subsamplePattern, hd, Option.some.injEq] at hs
  subst hs
  simp only at hj ⊢
  set sel := patSelection desc value with hsel
  have hdl : desc.length = s.nCond := hwf.pat_len _ (mem_of_lookup hd)
  have hi : i < sel.length := by omega
  have hsorted : sel.Pairwise (· ≤ ·) := patSelection_sorted desc value
  have hb : sel[j] < s.nCond := by
    have := lt_of_mem_patSelection (List.getElem_mem hj : sel[j] ∈ patSelection desc value)
    omega
  have hle : sel[i] ≤ sel[j] := List.pairwise_iff_getElem.mp hsorted i j hi hj hij
  have hwl : w.length = triLen s.nCond := hwf.vec_len w (List.mem_of_getElem? hw)
  refine ⟨subVec s.nCond sel w, sel[i], sel[j], ?_, List.getElem?_eq_getElem hi,
    List.getElem?_eq_getElem hj, hle, hb, ?_, ?_⟩
  · rw [List.getElem?_map, hw]; rfl
  · intro hne
    rw [hwl]
    exact triIdx_lt _ _ _ (by omega) hb
  · rw [subVec_getElem? s.nCond sel w hsorted i j hij hj]
    by_cases he : sel[i] = sel[j]
    · simp [he]
    · have hlt : triIdx s.nCond sel[i] sel[j] < w.length := by
        rw [hwl]; exact triIdx_lt _ _ _ (by omega) hb
      simp [he, List.getD_eq_getElem?_getD, List.getElem?_eq_getElem hlt]

/-- an entry of the sample is NaN exactly when it pairs two copies of one condition or the
    source entry already was NaN — no other entry becomes NaN -/
theorem sample_nan_iff (s : Stack L α) (hwf : s.WF) (by_ : String) (desc : List L)
    (hd : s.patDesc.lookup by_ = some desc) (value : List L) (s' : Stack L α)
    (hs : s.subsamplePattern by_ value = some s')
    (r : Nat) (w : List (Option α)) (hw : s.vecs[r]? = some w)
    (i j : Nat) (hij : i < j) (hj : j < s'.nCond) :
    ∃ w' a b, s'.vecs[r]? = some w' ∧
      (patSelection desc value)[i]? = some a ∧ (patSelection desc value)[j]? = some b ∧
      (w'[triIdx s'.nCond i j]? = some none ↔
        (a = b ∨ w[triIdx s.nCond a b]? = some none)) := by
  obtain ⟨w', a, b, h1, h2, h3, _, _, _, h7⟩ :=
    sample_entry s hwf by_ desc hd value s' hs r w hw i j hij hj
  refine ⟨w', a, b, h1, h2, h3, ?_⟩
  rw [h7]
  by_cases he : a = b
  · simp [he]
  · simp [he]

/-- Resampling any other RDMs object (a model prediction) that carries the same condition
    descriptor with the returned indices selects the *same* original conditions in the *same*
    order as in the sample: equal size, and every descriptor the two objects share comes out
    identical (in particular the grouping descriptor itself). -/
theorem sample_pred_aligned (s m : Stack L α) (hs : s.WF) (hm : m.WF) (by_ : String)
    (desc : List L) (hds : s.patDesc.lookup by_ = some desc)
    (hdm : m.patDesc.lookup by_ = some desc) (value : List L) :
    ∃ s' m', s.subsamplePattern by_ value = some s' ∧ m.subsamplePattern by_ value = some m' ∧
      s'.nCond = m'.nCond ∧
      s'.patDesc.lookup by_ = m'.patDesc.lookup by_ ∧
      (∀ k d, (k, d) ∈ s.patDesc → (k, d) ∈ m.patDesc →
        ∃ d', (k, d') ∈ s'.patDesc ∧ (k, d') ∈ m'.patDesc) ∧
      s'.patDesc = extract s.patDesc (patSelection desc value) ∧
      m'.patDesc = extract m.patDesc (patSelection desc value) := by
  refine ⟨{ nCond := (patSelection desc value).length,
            vecs := s.vecs.map (subVec s.nCond (patSelection desc value)),
            rdmDesc := s.rdmDesc,
            patDesc := extract s.patDesc (patSelection desc value) },
          { nCond := (patSelection desc value).length,
            vecs := m.vecs.map (subVec m.nCond (patSelection desc value)),
            rdmDesc := m.rdmDesc,
            patDesc := extract m.patDesc (patSelection desc value) },
          by simp [Stack.subsamplePattern, hds], by simp [Stack.subsamplePattern, hdm],
          rfl, ?_, ?_, rfl, rfl⟩
  · simp only [lookup_extract, hds, hdm]
  · intro k d h1 h2
    exact ⟨pick d (patSelection desc value), mem_extract.mpr ⟨d, h1, rfl⟩,
      mem_extract.mpr ⟨d, h2, rfl⟩⟩

/-! ### the three library entry points -/

/-- `bootstrap_sample_rdm` = draw indices `select[draws]`, then `subsample` with them
    (so `draw_size`, `idx_are_groups`, `rdm_sample_*`, `rdm_groups_together` describe it) -/
theorem bootstrap_sample_rdm_spec (le : L → L → Bool) (s : Stack L α) (hwf : s.WF)
    (rdmBy : String) (desc : List L) (hd : s.rdmDesc.lookup rdmBy = some desc)
    (draws : List Nat) :
    ∃ s', bootstrapSampleRdm le s rdmBy draws = some (s', bootIdx (uniq le desc) draws) ∧
      s.subsample rdmBy (bootIdx (uniq le desc) draws) = some s' ∧ s'.WF := by
  obtain ⟨s', h1, h2, _⟩ :=
    rdm_sample_contents s hwf rdmBy desc hd (bootIdx (uniq le desc) draws)
  exact ⟨s', by simp [bootstrapSampleRdm, hd, h1], h1, h2⟩

/-- `bootstrap_sample_pattern` = draw indices, then `subsample_pattern` with them -/
theorem bootstrap_sample_pattern_spec (le : L → L → Bool) (s : Stack L α) (hwf : s.WF)
    (patBy : String) (desc : List L) (hd : s.patDesc.lookup patBy = some desc)
    (draws : List Nat) :
    ∃ s', bootstrapSamplePattern le s patBy draws = some (s', bootIdx (uniq le desc) draws) ∧
      s.subsamplePattern patBy (bootIdx (uniq le desc) draws) = some s' ∧ s'.WF := by
  obtain ⟨s', h1, h2, _⟩ :=
    pattern_sample_contents s hwf patBy desc hd (bootIdx (uniq le desc) draws)
  exact ⟨s', by simp [bootstrapSamplePattern, hd, h1], h1, h2⟩

/-- `bootstrap_sample` = RDM resampling (which leaves the conditions and their descriptors
    alone) followed by condition resampling of the intermediate stack; both index arrays are
    returned.  All theorems above therefore apply to the two steps `s → s1 → s2`. -/
theorem bootstrap_sample_spec (le : L → L → Bool) (s : Stack L α) (hwf : s.WF)
    (rdmBy patBy : String) (rdesc pdesc : List L)
    (hr : s.rdmDesc.lookup rdmBy = some rdesc) (hp : s.patDesc.lookup patBy = some pdesc)
    (drawsR drawsP : List Nat) :
    ∃ s1 s2,
      bootstrapSample le s rdmBy patBy drawsR drawsP =
        some (s2, bootIdx (uniq le rdesc) drawsR, bootIdx (uniq le pdesc) drawsP) ∧
      s.subsample rdmBy (bootIdx (uniq le rdesc) drawsR) = some s1 ∧ s1.WF ∧
      s1.nCond = s.nCond ∧ s1.patDesc.lookup patBy = some pdesc ∧
      s1.subsamplePattern patBy (bootIdx (uniq le pdesc) drawsP) = some s2 ∧ s2.WF := by
  obtain ⟨s1, h1, hwf1, hn1, hpd1, _⟩ :=
    rdm_sample_contents s hwf rdmBy rdesc hr (bootIdx (uniq le rdesc) drawsR)
  have hp1 : s1.patDesc.lookup patBy = some pdesc := by rw [hpd1]; exact hp
  obtain ⟨s2, h2, hwf2, _⟩ :=
    pattern_sample_contents s1 hwf1 patBy pdesc hp1 (bootIdx (uniq le pdesc) drawsP)
  refine ⟨s1, s2, ?_, h1, hwf1, hn1, hp1, h2, hwf2⟩
  simp [bootstrapSample, hr, hp, h1, h2]

/-- Entry `(p, i, j)` of the sample of `bootstrap_sample`: with `q` the source RDM of sample RDM
    `p` and `a ≤ b` the original conditions of sample conditions `i < j`, it is NaN if `a = b`
    and the source entry `(q, a, b)` otherwise. -/
theorem bootstrap_sample_entry (le : L → L → Bool) (s : Stack L α) (hwf : s.WF)
    (rdmBy patBy : String) (rdesc pdesc : List L)
    (hr : s.rdmDesc.lookup rdmBy = some rdesc) (hp : s.patDesc.lookup patBy = some pdesc)
    (drawsR drawsP : List Nat) (s2 : Stack L α) (ridx pidx : List L)
    (hres : bootstrapSample le s rdmBy patBy drawsR drawsP = some (s2, ridx, pidx))
    (p q : Nat) (hq : (rdmSelection rdesc ridx)[p]? = some q)
    (i j : Nat) (hij : i < j) (hj : j < s2.nCond) :
    ∃ w w' a b, s.vecs[q]? = some w ∧ s2.vecs[p]? = some w' ∧
      (patSelection pdesc pidx)[i]? = some a ∧ (patSelection pdesc pidx)[j]? = some b ∧
      a ≤ b ∧ b < s.nCond ∧ (a ≠ b → triIdx s.nCond a b < w.length) ∧
      w'[triIdx s2.nCond i j]? = if a = b then some none else w[triIdx s.nCond a b]? := by
  obtain ⟨s1, s2', hb, h1, hwf1, hn1, hp1, h2, hwf2⟩ :=
    bootstrap_sample_spec le s hwf rdmBy patBy rdesc pdesc hr hp drawsR drawsP
  rw [hb] at hres
  simp only [Option.some.injEq, Prod.mk.injEq] at hres
  obtain ⟨rfl, rfl, rfl⟩ := hres
  obtain ⟨s1', h1', _, _, _, _, hvec, _⟩ :=
    rdm_sample_contents s hwf rdmBy rdesc hr (bootIdx (uniq le rdesc) drawsR)
  rw [h1] at h1'
  obtain rfl : s1 = s1' := Option.some.inj h1'
  obtain ⟨hqlt, hpq⟩ := hvec p q hq
  have hw : s1.vecs[p]? = some s.vecs[q] := by rw [hpq, List.getElem?_eq_getElem hqlt]
  obtain ⟨w', a, b, e1, e2, e3, e4, e5, e6, e7⟩ :=
    sample_entry s1 hwf1 patBy pdesc hp1 _ s2' h2 p s.vecs[q] hw i j hij hj
  rw [hn1] at e5 e6 e7
  exact ⟨s.vecs[q], w', a, b, List.getElem?_eq_getElem hqlt, e1, e2, e3, e4, e5, e6, e7⟩

/-! ### non-vacuity: a concrete stack meets every hypothesis used above -/

section examples

/-- 2 RDMs (one subject group), 3 conditions in two categories (5, 4, 5), one source NaN -/
def exStack : Stack Nat Nat :=
  { nCond := 3, vecs := [[some 1, some 2, some 3], [some 4, none, some 6]],
    rdmDesc := [("index", [0, 1]), ("subj", [7, 7])],
    patDesc := [("index", [0, 1, 2]), ("cat", [5, 4, 5])] }

def natLe : Nat → Nat → Bool := fun a b => decide (a ≤ b)

example : exStack.WF := ⟨by decide, by decide, by decide⟩
example : exStack.patDesc.lookup "cat" = some [5, 4, 5] := by decide
example : exStack.rdmDesc.lookup "subj" = some [7, 7] := by decide

theorem ex_uniq : uniq natLe [5, 4, 5] = [4, 5] :=
  uniq_nat_eq_of [5, 4, 5] [4, 5] (by decide) (by decide)

/-- drawing group number 1 (category 5) twice is a valid outcome of the request -/
example : ValidDraws natLe [5, 4, 5] [1, 1] := by
  unfold ValidDraws drawSpec
  rw [ex_uniq]; decide

theorem ex_sel : patSelection [5, 4, 5] [5, 5] = [0, 0, 2, 2] :=
  patSelection_eq_of _ _ _ (by decide) (by decide)

/-- the model's sample for that draw: conditions 0,0,2,2; NaN exactly between copies and where
    the source was NaN (second RDM, pair (0,2)) -/
example : (bootstrapSamplePattern natLe exStack "cat" [1, 1]).map
      (fun r => (r.1.nCond, r.1.vecs, r.1.patDesc, r.2)) =
    some (4, [[none, some 2, some 2, some 2, some 2, none],
              [none, none, none, none, none, none]],
          [("index", [0, 0, 2, 2]), ("cat", [5, 5, 5, 5])], [5, 5]) := by
  have hb : bootIdx [4, 5] [1, 1] = [5, 5] := by decide
  have hl : exStack.patDesc.lookup "cat" = some [5, 4, 5] := by decide
  simp only [bootstrapSamplePattern, Stack.subsamplePattern, hl, ex_uniq, hb, ex_sel]
  rfl

/-- `rdm_groups_together` / `pattern_groups_together` have satisfiable hypotheses -/
example : (0 : Nat) < [5, 4, 5].length ∧ 2 < [5, 4, 5].length ∧ [5, 4, 5][0] = [5, 4, 5][2] := by
  decide

/-- the hypotheses of `equal_frequency_full` are met: the uniform weighting exists for every
    descriptor -/
example (le : L → L → Bool) (desc : List L) :
    (∀ f f' : Fin (uniq le desc).length → Fin (uniq le desc).length,
      (fun _ => 1 / (((uniq le desc).length ^ (uniq le desc).length : ℕ) : ℚ)) f =
      (fun _ => 1 / (((uniq le desc).length ^ (uniq le desc).length : ℕ) : ℚ)) f') ∧
    ∑ _f : Fin (uniq le desc).length → Fin (uniq le desc).length,
      1 / (((uniq le desc).length ^ (uniq le desc).length : ℕ) : ℚ) = 1 := by
  refine ⟨fun _ _ => rfl, ?_⟩
  have hpos : (((uniq le desc).length ^ (uniq le desc).length : ℕ) : ℚ) ≠ 0 := by
    have : 0 < (uniq le desc).length ^ (uniq le desc).length := by
      rcases Nat.eq_zero_or_pos (uniq le desc).length with h | h
      · rw [h]; norm_num
      · exact pow_pos h _
    exact_mod_cast this.ne'
  rw [Finset.sum_const, Finset.card_univ, Fintype.card_fun, Fintype.card_fin, nsmul_eq_mul]
  exact mul_one_div_cancel hpos

end examples


/-! ### tie to the source text: size recovery of the RDM-resampled sample -/

/-- `RDMs.subsample` hands 2-d vectors to the `RDMs` constructor, which *recovers* the number of
    conditions from the vector length with `_get_n_from_reduced_vectors` (regenerated from the
    source on every run as `Rsa.Gen.C09.nFromReduced`).  For every RDM-resampled sample of a stack
    with at least one condition the recovered number is the source's number of conditions — so
    the conditions (and the pattern descriptors' length check) survive RDM resampling. -/
theorem rdm_sample_size_recovered (s : Stack L α) (hwf : s.WF) (hn : 1 ≤ s.nCond)
    (by_ : String) (desc : List L) (hd : s.rdmDesc.lookup by_ = some desc) (value : List L)
    (s' : Stack L α) (hs : s.subsample by_ value = some s') :
    ∀ w ∈ s'.vecs, Rsa.Gen.C09.nFromReduced w.length = s.nCond := by
  obtain ⟨s'', h1, hwf', hn', _⟩ := rdm_sample_contents s hwf by_ desc hd value
  rw [hs] at h1
  obtain rfl : s' = s'' := Option.some.inj h1
  intro w hw
  rw [hwf'.vec_len w hw, hn']
  exact Rsa.Rdm.nFromReduced_triLen s.nCond hn

/-- the hypotheses are met by the example stack (3 conditions) -/
example : 1 ≤ exStack.nCond := by decide

/-! ### agreement with the RDM container model of property C10 (`Rsa.Core.Rdm`)

C10 models the same two methods inside its container (`Obj.subsample`, `Obj.subsamplePattern`,
with the constructor checks of `RDMs.__init__`).  On every well-formed object on which C10's
operation succeeds, the C09 model computes the same stack — so the theorems of this file hold
for C10's operations as well and the two models cannot drift apart. -/

section rdm_model

open Rsa.Rdm (Obj)

variable {β : Type} [Zero β]

/-- C10's `subsample_pattern` = C09's, on the shared representation -/
theorem rdm_model_subsamplePattern_agrees (o o' : Obj β) (hwf : o.WF)
    (hri : o.rdesc.has "index" = true) (hpi : o.pdesc.has "index" = true)
    (by_ : String) (vals : List Rsa.Rdm.Lbl)
    (h : o.subsamplePattern by_ vals = some o') :
    (ofObj o).subsamplePattern by_ vals = some (ofObj o') := by
  cases hcol : o.pdesc.lookup by_ with
  | none => simp [Obj.subsamplePattern, Rsa.Rdm.Desc.get, hcol] at h
  | some col =>
    simp only [Obj.subsamplePattern, Rsa.Rdm.Desc.get, hcol, Option.bind_eq_bind,
      Option.bind_some] at h
    obtain ⟨hn, _, _, hv, _, hrd, hpd, _, _, _⟩ := Rsa.Rdm.mk3d_some h
    rw [sortNat_selSubsample_eq_patSelection] at hn hv hpd
    have hcl : col.length = o.nCond := hwf.pshape _ (Rsa.Rdm.Desc.get_mem hcol)
    have hsel : ∀ i ∈ patSelection col vals, i < o.nCond := fun i hi => by
      have := lt_of_mem_patSelection hi; omega
    have hpick : Rsa.Rdm.Desc.pick o.pdesc (patSelection col vals)
        = extract o.pdesc (patSelection col vals) :=
      descPick_eq_extract _ _ o.nCond hwf.pshape hsel
    rw [hpick, addIndex_of_has _ _ (by rw [has_extract]; exact hpi)] at hpd
    rw [addIndex_of_has _ _ hri] at hrd
    simp only [Stack.subsamplePattern, ofObj, hcol, Option.some.injEq]
    rw [hn, hv, hrd, hpd]
    rfl

/-- C10's `subsample` = C09's, on the shared representation -/
theorem rdm_model_subsample_agrees (o o' : Obj β) (hwf : o.WF)
    (hri : o.rdesc.has "index" = true) (hpi : o.pdesc.has "index" = true)
    (by_ : String) (vals : List Rsa.Rdm.Lbl)
    (h : o.subsample by_ vals = some o') :
    (ofObj o).subsample by_ vals = some (ofObj o') := by
  cases hcol : o.rdesc.lookup by_ with
  | none => simp [Obj.subsample, Rsa.Rdm.Desc.get, hcol] at h
  | some col =>
    simp only [Obj.subsample, Rsa.Rdm.Desc.get, hcol, Option.bind_eq_bind,
      Option.bind_some, Obj.getitem] at h
    rw [selSubsample_eq_rdmSelection] at h
    have hcl : col.length = o.vecs.length := hwf.rshape _ (Rsa.Rdm.Desc.get_mem hcol)
    have hsel : ∀ i ∈ rdmSelection col vals, i < o.vecs.length := fun i hi => by
      have := lt_of_mem_rdmSelection hi; omega
    split at h
    · have hvp : Rsa.Rdm.pick [] o.vecs (rdmSelection col vals)
          = pick o.vecs (rdmSelection col vals) := rdmPick_eq_pick _ _ _ hsel
      have hlen : ∀ v ∈ Rsa.Rdm.pick [] o.vecs (rdmSelection col vals),
          v.length = triLen o.nCond := by
        intro v hv
        rw [hvp] at hv
        simp only [pick, List.mem_filterMap] at hv
        obtain ⟨i, _, hi⟩ := hv
        exact hwf.vlen v (List.mem_of_getElem? hi)
      obtain ⟨hn, hv, _, hpd, _, hrd⟩ := Rsa.Rdm.mk2d_ncond h o.nCond hwf.ncond hlen
      have hpick : Rsa.Rdm.Desc.pick o.rdesc (rdmSelection col vals)
          = extract o.rdesc (rdmSelection col vals) :=
        descPick_eq_extract _ _ o.vecs.length hwf.rshape hsel
      rw [hpick, addIndex_of_has _ _ (by rw [has_extract]; exact hri)] at hrd
      rw [addIndex_of_has _ _ hpi] at hpd
      rw [hvp] at hv
      simp only [Stack.subsample, ofObj, hcol, Option.some.injEq]
      rw [hn, hv, hrd, hpd]
    · simp at h

/-- … and C10's `subsample_pattern` is defined whenever the key exists and at least one
    condition is selected (so the agreement theorem is not vacuous; with an empty selection the
    `RDMs` constructor of C10 rejects the 0-condition result while the bare C09 stack is empty) -/
theorem rdm_model_subsamplePattern_defined (o : Obj β) (hwf : o.WF) (by_ : String)
    (col : List Rsa.Rdm.Lbl) (hcol : o.pdesc.lookup by_ = some col) (vals : List Rsa.Rdm.Lbl)
    (hne : patSelection col vals ≠ []) :
    ∃ o', o.subsamplePattern by_ vals = some o' := by
  simp only [Obj.subsamplePattern, Rsa.Rdm.Desc.get, hcol, Option.bind_eq_bind,
    Option.bind_some, sortNat_selSubsample_eq_patSelection]
  unfold Rsa.Rdm.mk3d
  rw [if_pos]
  · exact ⟨_, rfl⟩
  · simp only [Bool.and_eq_true, decide_eq_true_eq, List.all_eq_true, beq_iff_eq,
      Rsa.Rdm.Desc.wellShaped_iff]
    refine ⟨⟨⟨⟨?_, ?_⟩, ?_⟩, ?_⟩, ?_⟩
    · exact List.length_pos_iff.mpr hne
    · rw [List.length_map]; exact List.length_pos_iff.mpr hwf.nrdm
    · intro w hw
      simp only [List.mem_map] at hw
      obtain ⟨v, _, rfl⟩ := hw
      rw [reindexVec_eq_subVec]; exact subVec_length _ _ _
    · intro kv hkv
      rw [List.length_map]; exact hwf.rshape kv hkv
    · intro kv hkv
      obtain ⟨kv0, _, rfl⟩ := Rsa.Rdm.Desc.mem_pick hkv
      exact Rsa.Rdm.pick_length _ _ _

/-- a selection is non-empty as soon as one requested value occurs in the descriptor -/
example : patSelection [Rsa.Rdm.Lbl.int 5, Rsa.Rdm.Lbl.int 4] [Rsa.Rdm.Lbl.int 5] ≠ [] := by
  intro h
  have := count_patSelection [Rsa.Rdm.Lbl.int 5, Rsa.Rdm.Lbl.int 4] [Rsa.Rdm.Lbl.int 5] 0 (by decide)
  rw [h] at this
  simp at this

end rdm_model

end Rsa.Props.C09
