/-
  Property C09 — bootstrap samples are faithful with-replacement resamples of whole groups.
  Property theorems only; helper lemmas live in Rsa/Lemmas/C09.lean.

  Every theorem is about the executable model `Rsa.Core.Boot` (the functions the driver runs
  against the real rsatoolbox on every check) and holds for every stack, every descriptor,
  every label type with decidable equality, every comparison function used by the sort, and
  every list of draws.  "Valid draws" (`ValidDraws`) is exactly what the request
  `np.random.randint(0, len(select), size=len(select))` can return; the harness checks that
  request on every recorded call.
-/
import Mathlib.Data.Finset.Card
import Mathlib.Data.Fintype.Pi
import Mathlib.Data.List.OfFn
import Mathlib.Data.List.FinRange
import Mathlib.Algebra.BigOperators.Group.Finset.Basic
import Mathlib.Logic.Equiv.Basic
import Mathlib.Data.Rat.Defs
import Mathlib.Algebra.Order.Field.Rat
import Mathlib.Data.Fintype.BigOperators
import Mathlib.Tactic.Ring
import Mathlib.Tactic.NormNum
import Mathlib.Algebra.BigOperators.Ring.Finset
import Rsa.Lemmas.C09
import Rsa.Lemmas.C09Rdm
import Rsa.Lemmas.C09R3
import Rsa.Lemmas.C09R4
import Rsa.Lemmas.C09R6
import Rsa.Gen.C09

set_option linter.unusedSectionVars false
set_option linter.unusedVariables false
set_option linter.unusedSimpArgs false

namespace Rsa.Props.C09

open Rsa Rsa.Boot

variable {L α : Type} [DecidableEq L]

/-- the possible return values of the `randint` request the code makes for a descriptor -/
def ValidDraws (le : L → L → Bool) (desc : List L) (draws : List Nat) : Prop :=
  draws.length = (drawSpec le desc).1 ∧ ∀ d ∈ draws, d < (drawSpec le desc).2

/-! ### the draw: as many groups as there are distinct groups, each a descriptor value -/

/-- the number of drawn indices equals the number of distinct descriptor values (groups) -/
theorem draw_size (le : L → L → Bool) (desc : List L) (draws : List Nat)
    (h : ValidDraws le desc draws) :
    (bootIdx (uniq le desc) draws).length = desc.toFinset.card := by
  obtain ⟨hlen, hr⟩ := h
  rw [bootIdx_eq_pick, pick_length _ _ hr, hlen]
  show (uniq le desc).length = _
  rw [← List.toFinset_card_of_nodup (nodup_uniq le desc)]
  congr 1
  ext x
  simp [mem_uniq]

/-- every drawn index is a value of the grouping descriptor (for any draws at all) -/
theorem idx_are_groups (le : L → L → Bool) (desc : List L) (draws : List Nat) :
    ∀ g ∈ bootIdx (uniq le desc) draws, g ∈ desc :=
  fun g hg => mem_uniq.mp (mem_of_mem_bootIdx hg)

/-- draw number ↦ group is a bijection between `{0,…,m-1}` and the set of groups: distinct
    numbers select distinct groups and every group is reachable.  (Hence uniform integer draws
    select every group with the same probability.) -/
theorem select_bijective (le : L → L → Bool) (desc : List L) :
    Function.Bijective
      (fun d : Fin (uniq le desc).length =>
        (⟨(uniq le desc)[d], mem_uniq.mp (List.getElem_mem d.isLt)⟩ : {g : L // g ∈ desc})) := by
  constructor
  · intro a b hab
    have h : (uniq le desc)[a] = (uniq le desc)[b] := congrArg Subtype.val hab
    exact Fin.ext ((List.Nodup.getElem_inj_iff (nodup_uniq le desc)).mp h)
  · rintro ⟨g, hg⟩
    obtain ⟨i, hi, hgi⟩ := List.getElem_of_mem (mem_uniq (le := le).mpr hg)
    exact ⟨⟨i, hi⟩, Subtype.ext hgi⟩

/-- number of times group `g` is selected when the `m` draws come out as `f` -/
def selections (le : L → L → Bool) (desc : List L)
    (f : Fin (uniq le desc).length → Fin (uniq le desc).length) (g : L) : Nat :=
  (bootIdx (uniq le desc) (List.ofFn fun t => (f t).val)).count g

/-- summed over *all* `m^m` outcomes of the draw, every group is selected exactly as often as
    every other group -/
theorem equal_selection_counts (le : L → L → Bool) (desc : List L) (g g' : L)
    (hg : g ∈ desc) (hg' : g' ∈ desc) :
    ∑ f, selections le desc f g = ∑ f, selections le desc f g' := by
  have hnd := nodup_uniq le desc
  obtain ⟨ia, hia, hga⟩ := List.getElem_of_mem (mem_uniq (le := le).mpr hg)
  obtain ⟨ib, hib, hgb⟩ := List.getElem_of_mem (mem_uniq (le := le).mpr hg')
  have e1 : ∀ f, selections le desc f g =
      (List.finRange _).countP (fun t => decide (f t = ⟨ia, hia⟩)) := fun f => by
    rw [← count_bootIdx_ofFn _ hnd ⟨ia, hia⟩ f]; simp only [selections, Fin.getElem_fin, hga]
  have e2 : ∀ f, selections le desc f g' =
      (List.finRange _).countP (fun t => decide (f t = ⟨ib, hib⟩)) := fun f => by
    rw [← count_bootIdx_ofFn _ hnd ⟨ib, hib⟩ f]; simp only [selections, Fin.getElem_fin, hgb]
  simp only [e1, e2]
  exact sum_countP_swap _ _

/-- … namely `m^m` times in `m^m` outcomes: exactly once per outcome on average -/
theorem mean_selection_one (le : L → L → Bool) (desc : List L) (g : L) (hg : g ∈ desc) :
    ∑ f, selections le desc f g = (uniq le desc).length ^ (uniq le desc).length := by
  have hnd := nodup_uniq le desc
  obtain ⟨ia, hia, hga⟩ := List.getElem_of_mem (mem_uniq (le := le).mpr hg)
  have e1 : ∀ f, selections le desc f g =
      (List.finRange _).countP (fun t => decide (f t = ⟨ia, hia⟩)) := fun f => by
    rw [← count_bootIdx_ofFn _ hnd ⟨ia, hia⟩ f]; simp only [selections, Fin.getElem_fin, hga]
  simp only [e1]
  exact sum_countP_total _

/-- FULL statement of the last sentence of the property, with the distribution of the draws made
    explicit: under *any* uniform weighting `P` of the `m^m` outcomes (what an ideal
    `randint(0, m, size=m)` produces) the expected number of selections of every group is 1. -/
def equal_frequency_full : Prop :=
  ∀ (le : L → L → Bool) (desc : List L)
    (P : (Fin (uniq le desc).length → Fin (uniq le desc).length) → ℚ),
    (∀ f f', P f = P f') → ∑ f, P f = 1 →
    ∀ g ∈ desc, ∑ f, P f * (selections le desc f g : ℚ) = 1

/-- PARTIAL only in that the hypothesis "numpy's generator weights all outcomes equally" is
    trusted (sanity-checked by the harness's 6-sigma frequency cases), not proved: the statement
    itself is proved in full. -/
theorem equal_frequency_partial : equal_frequency_full (L := L) := by
  intro le desc P hunif hone g hg
  have hmean := mean_selection_one le desc g hg
  obtain ⟨ia, hia, _⟩ := List.getElem_of_mem (mem_uniq (le := le).mpr hg)
  let f0 : Fin (uniq le desc).length → Fin (uniq le desc).length := fun _ => ⟨ia, hia⟩
  have hP : ∀ f, P f = P f0 := fun f => hunif f f0
  have hcard : (P f0) * ((uniq le desc).length ^ (uniq le desc).length : ℕ) = 1 := by
    have : ∑ f : Fin (uniq le desc).length → Fin (uniq le desc).length, P f
        = ∑ _f : Fin (uniq le desc).length → Fin (uniq le desc).length, P f0 :=
      Finset.sum_congr rfl (fun f _ => hP f)
    rw [this, Finset.sum_const, Finset.card_univ, Fintype.card_fun, Fintype.card_fin] at hone
    rw [nsmul_eq_mul] at hone
    rw [mul_comm]; exact hone
  calc ∑ f, P f * (selections le desc f g : ℚ)
      = ∑ f, P f0 * (selections le desc f g : ℚ) :=
        Finset.sum_congr rfl (fun f _ => by rw [hP f])
    _ = P f0 * ((∑ f, selections le desc f g : ℕ) : ℚ) := by
        rw [← Finset.mul_sum]; push_cast; rfl
    _ = 1 := by rw [hmean]; exact hcard

/-! ### resampling RDMs (`RDMs.subsample`) -/

/-- The sample of `subsample(by, value)` consists exactly of the RDMs at the selected source
    positions `sel`, in that order: vector and *every* rdm descriptor of sample RDM `p` are
    those of source RDM `sel[p]`; conditions and pattern descriptors are untouched. -/
theorem rdm_sample_contents (s : Stack L α) (hwf : s.WF) (by_ : String) (desc : List L)
    (hd : s.rdmDesc.lookup by_ = some desc) (value : List L) :
    ∃ s', s.subsample by_ value = some s' ∧ s'.WF ∧
      s'.nCond = s.nCond ∧ s'.patDesc = s.patDesc ∧
      s'.vecs.length = (rdmSelection desc value).length ∧
      (∀ (p j : Nat), (rdmSelection desc value)[p]? = some j → j < s.vecs.length ∧ s'.vecs[p]? = s.vecs[j]?) ∧
      s'.rdmDesc.map (·.1) = s.rdmDesc.map (·.1) ∧
      (∀ k d, (k, d) ∈ s.rdmDesc → ∃ d', (k, d') ∈ s'.rdmDesc ∧
        d'.length = (rdmSelection desc value).length ∧
        ∀ (p j : Nat), (rdmSelection desc value)[p]? = some j → d'[p]? = d[j]?) := by
  have hdl : desc.length = s.vecs.length := hwf.rdm_len _ (mem_of_lookup hd)
  have hsel : ∀ i ∈ rdmSelection desc value, i < s.vecs.length := fun i hi => by
    have := lt_of_mem_rdmSelection hi; omega
  refine ⟨{ s with vecs := pick s.vecs (rdmSelection desc value),
                   rdmDesc := extract s.rdmDesc (rdmSelection desc value) }, ?_, ?_, rfl, rfl,
          pick_length _ _ hsel, ?_, extract_keys _ _, ?_⟩
  · simp [Stack.subsample, hd]
  · refine ⟨?_, ?_, hwf.pat_len⟩
    · intro v hv
      simp only [pick, List.mem_filterMap] at hv
      obtain ⟨i, _, hi⟩ := hv
      exact hwf.vec_len v (List.mem_of_getElem? hi)
    · rintro ⟨k, d'⟩ hkd
      obtain ⟨d, hmem, rfl⟩ := mem_extract.mp hkd
      have hl : d.length = s.vecs.length := hwf.rdm_len _ hmem
      simp only
      rw [pick_length _ _ (fun i hi => by have := hsel i hi; omega), pick_length _ _ hsel]
  · intro p j hpj
    have hj : j < s.vecs.length := hsel j (List.mem_of_getElem? hpj)
    refine ⟨hj, ?_⟩
    simp only
    rw [pick_getElem? _ _ hsel, hpj]
    rfl
  · intro k d hmem
    have hl : d.length = s.vecs.length := hwf.rdm_len _ hmem
    have hsel' : ∀ i ∈ rdmSelection desc value, i < d.length := fun i hi => by
      have := hsel i hi; omega
    refine ⟨pick d (rdmSelection desc value), mem_extract.mpr ⟨d, hmem, rfl⟩,
      pick_length _ _ hsel', ?_⟩
    intro p j hpj
    rw [pick_getElem? _ _ hsel', hpj]
    rfl

/-- every source RDM occurs in the sample exactly as often as its group was drawn, and only
    existing RDMs are selected -/
theorem rdm_sample_multiplicity (desc value : List L) :
    (∀ j (hj : j < desc.length), (rdmSelection desc value).count j = value.count desc[j]) ∧
    (∀ j ∈ rdmSelection desc value, j < desc.length) :=
  ⟨fun j hj => count_rdmSelection desc value j hj, fun j hj => lt_of_mem_rdmSelection hj⟩

/-- grouped RDMs are in or out together, and with the same multiplicity -/
theorem rdm_groups_together (desc value : List L) (j j' : Nat) (hj : j < desc.length)
    (hj' : j' < desc.length) (hg : desc[j] = desc[j']) :
    (rdmSelection desc value).count j = (rdmSelection desc value).count j' ∧
    (j ∈ rdmSelection desc value ↔ j' ∈ rdmSelection desc value) := by
  have hc : (rdmSelection desc value).count j = (rdmSelection desc value).count j' := by
    rw [count_rdmSelection _ _ j hj, count_rdmSelection _ _ j' hj', hg]
  refine ⟨hc, ?_⟩
  rw [← List.count_pos_iff, ← List.count_pos_iff, hc]

/-! ### resampling conditions (`RDMs.subsample_pattern`) -/

/-- The sample of `subsample_pattern(by, value)` has exactly the conditions at the selected
    source positions `sel` (ascending, so the source order is kept and copies are adjacent):
    *every* pattern descriptor of sample condition `p` is that of source condition `sel[p]`;
    RDMs and rdm descriptors are untouched. -/
theorem pattern_sample_contents (s : Stack L α) (hwf : s.WF) (by_ : String) (desc : List L)
    (hd : s.patDesc.lookup by_ = some desc) (value : List L) :
    ∃ s', s.subsamplePattern by_ value = some s' ∧ s'.WF ∧
      s'.nCond = (patSelection desc value).length ∧ s'.rdmDesc = s.rdmDesc ∧
      s'.vecs.length = s.vecs.length ∧
      (patSelection desc value).Pairwise (· ≤ ·) ∧
      s'.patDesc.map (·.1) = s.patDesc.map (·.1) ∧
      (∀ k d, (k, d) ∈ s.patDesc → ∃ d', (k, d') ∈ s'.patDesc ∧
        d'.length = (patSelection desc value).length ∧
        ∀ (p j : Nat), (patSelection desc value)[p]? = some j → j < s.nCond ∧ d'[p]? = d[j]?) := by
  have hdl : desc.length = s.nCond := hwf.pat_len _ (mem_of_lookup hd)
  have hsel : ∀ i ∈ patSelection desc value, i < s.nCond := fun i hi => by
    have := lt_of_mem_patSelection hi; omega
  refine ⟨{ nCond := (patSelection desc value).length,
            vecs := s.vecs.map (subVec s.nCond (patSelection desc value)),
            rdmDesc := s.rdmDesc,
            patDesc := extract s.patDesc (patSelection desc value) }, ?_, ?_, rfl, rfl,
          by simp, patSelection_sorted desc value, extract_keys _ _, ?_⟩
  · simp [Stack.subsamplePattern, hd]
  · refine ⟨?_, ?_, ?_⟩
    · intro v hv
      simp only [List.mem_map] at hv
      obtain ⟨w, _, rfl⟩ := hv
      exact subVec_length _ _ _
    · intro kv hkv
      simpa using hwf.rdm_len kv hkv
    · rintro ⟨k, d'⟩ hkd
      obtain ⟨d, hmem, rfl⟩ := mem_extract.mp hkd
      have hl : d.length = s.nCond := hwf.pat_len _ hmem
      exact pick_length _ _ (fun i hi => by have := hsel i hi; omega)
  · intro k d hmem
    have hl : d.length = s.nCond := hwf.pat_len _ hmem
    have hsel' : ∀ i ∈ patSelection desc value, i < d.length := fun i hi => by
      have := hsel i hi; omega
    refine ⟨pick d (patSelection desc value), mem_extract.mpr ⟨d, hmem, rfl⟩,
      pick_length _ _ hsel', ?_⟩
    intro p j hpj
    refine ⟨hsel j (List.mem_of_getElem? hpj), ?_⟩
    rw [pick_getElem? _ _ hsel', hpj]
    rfl

/-- every source condition occurs in the sample exactly as often as its group was drawn -/
theorem pattern_sample_multiplicity (desc value : List L) :
    (∀ j (hj : j < desc.length), (patSelection desc value).count j = value.count desc[j]) ∧
    (∀ j ∈ patSelection desc value, j < desc.length) :=
  ⟨fun j hj => count_patSelection desc value j hj, fun j hj => lt_of_mem_patSelection hj⟩

/-- grouped conditions are in or out together, and with the same multiplicity -/
theorem pattern_groups_together (desc value : List L) (j j' : Nat) (hj : j < desc.length)
    (hj' : j' < desc.length) (hg : desc[j] = desc[j']) :
    (patSelection desc value).count j = (patSelection desc value).count j' ∧
    (j ∈ patSelection desc value ↔ j' ∈ patSelection desc value) := by
  have hc : (patSelection desc value).count j = (patSelection desc value).count j' := by
    rw [count_patSelection _ _ j hj, count_patSelection _ _ j' hj', hg]
  refine ⟨hc, ?_⟩
  rw [← List.count_pos_iff, ← List.count_pos_iff, hc]

/-- Entry `(r, i, j)`, `i < j`, of the pattern-resampled stack: with `a ≤ b` the original
    conditions of sample conditions `i` and `j`, it is NaN if `a = b` (two copies of one
    condition) and otherwise *is* the source entry of RDM `r` for the pair `(a, b)` (at its
    condensed position `triIdx n a b`, which exists). -/
theorem sample_entry (s : Stack L α) (hwf : s.WF) (by_ : String) (desc : List L)
    (hd : s.patDesc.lookup by_ = some desc) (value : List L) (s' : Stack L α)
    (hs : s.subsamplePattern by_ value = some s')
    (r : Nat) (w : List (Option α)) (hw : s.vecs[r]? = some w)
    (i j : Nat) (hij : i < j) (hj : j < s'.nCond) :
    ∃ w' a b, s'.vecs[r]? = some w' ∧
      (patSelection desc value)[i]? = some a ∧ (patSelection desc value)[j]? = some b ∧
      a ≤ b ∧ b < s.nCond ∧
      (a ≠ b → triIdx s.nCond a b < w.length) ∧
      w'[triIdx s'.nCond i j]? = if a = b then some none else w[triIdx s.nCond a b]? := by
  simp only [Stack.subsamplePattern, hd, Option.some.injEq] at hs
  subst hs
  simp only at hj ⊢
  set sel := patSelection desc value with hsel
  have hdl : desc.length = s.nCond := hwf.pat_len _ (mem_of_lookup hd)
  have hi : i < sel.length := by omega
  have hsorted : sel.Pairwise (· ≤ ·) := patSelection_sorted desc value
  have hb : sel[j] < s.nCond := by
    have := lt_of_mem_patSelection (List.getElem_mem hj : sel[j] ∈ patSelection desc value)
    omega
  have hle : sel[i] ≤ sel[j] := List.pairwise_iff_getElem.mp hsorted i j hi hj hij
  have hwl : w.length = triLen s.nCond := hwf.vec_len w (List.mem_of_getElem? hw)
  refine ⟨subVec s.nCond sel w, sel[i], sel[j], ?_, List.getElem?_eq_getElem hi,
    List.getElem?_eq_getElem hj, hle, hb, ?_, ?_⟩
  · rw [List.getElem?_map, hw]; rfl
  · intro hne
    rw [hwl]
    exact triIdx_lt _ _ _ (by omega) hb
  · rw [subVec_getElem? s.nCond sel w hsorted i j hij hj]
    by_cases he : sel[i] = sel[j]
    · simp [he]
    · have hlt : triIdx s.nCond sel[i] sel[j] < w.length := by
        rw [hwl]; exact triIdx_lt _ _ _ (by omega) hb
      simp [he, List.getD_eq_getElem?_getD, List.getElem?_eq_getElem hlt]

/-- an entry of the sample is NaN exactly when it pairs two copies of one condition or the
    source entry already was NaN — no other entry becomes NaN -/
theorem sample_nan_iff (s : Stack L α) (hwf : s.WF) (by_ : String) (desc : List L)
    (hd : s.patDesc.lookup by_ = some desc) (value : List L) (s' : Stack L α)
    (hs : s.subsamplePattern by_ value = some s')
    (r : Nat) (w : List (Option α)) (hw : s.vecs[r]? = some w)
    (i j : Nat) (hij : i < j) (hj : j < s'.nCond) :
    ∃ w' a b, s'.vecs[r]? = some w' ∧
      (patSelection desc value)[i]? = some a ∧ (patSelection desc value)[j]? = some b ∧
      (w'[triIdx s'.nCond i j]? = some none ↔
        (a = b ∨ w[triIdx s.nCond a b]? = some none)) := by
  obtain ⟨w', a, b, h1, h2, h3, _, _, _, h7⟩ :=
    sample_entry s hwf by_ desc hd value s' hs r w hw i j hij hj
  refine ⟨w', a, b, h1, h2, h3, ?_⟩
  rw [h7]
  by_cases he : a = b
  · simp [he]
  · simp [he]

/-- Resampling any other RDMs object (a model prediction) that carries the same condition
    descriptor with the returned indices selects the *same* original conditions in the *same*
    order as in the sample: equal size, and every descriptor the two objects share comes out
    identical (in particular the grouping descriptor itself). -/
theorem sample_pred_aligned (s m : Stack L α) (hs : s.WF) (hm : m.WF) (by_ : String)
    (desc : List L) (hds : s.patDesc.lookup by_ = some desc)
    (hdm : m.patDesc.lookup by_ = some desc) (value : List L) :
    ∃ s' m', s.subsamplePattern by_ value = some s' ∧ m.subsamplePattern by_ value = some m' ∧
      s'.nCond = m'.nCond ∧
      s'.patDesc.lookup by_ = m'.patDesc.lookup by_ ∧
      (∀ k d, (k, d) ∈ s.patDesc → (k, d) ∈ m.patDesc →
        ∃ d', (k, d') ∈ s'.patDesc ∧ (k, d') ∈ m'.patDesc) ∧
      s'.patDesc = extract s.patDesc (patSelection desc value) ∧
      m'.patDesc = extract m.patDesc (patSelection desc value) := by
  refine ⟨{ nCond := (patSelection desc value).length,
            vecs := s.vecs.map (subVec s.nCond (patSelection desc value)),
            rdmDesc := s.rdmDesc,
            patDesc := extract s.patDesc (patSelection desc value) },
          { nCond := (patSelection desc value).length,
            vecs := m.vecs.map (subVec m.nCond (patSelection desc value)),
            rdmDesc := m.rdmDesc,
            patDesc := extract m.patDesc (patSelection desc value) },
          by simp [Stack.subsamplePattern, hds], by simp [Stack.subsamplePattern, hdm],
          rfl, ?_, ?_, rfl, rfl⟩
  · simp only [lookup_extract, hds, hdm]
  · intro k d h1 h2
    exact ⟨pick d (patSelection desc value), mem_extract.mpr ⟨d, h1, rfl⟩,
      mem_extract.mpr ⟨d, h2, rfl⟩⟩

/-! ### the three library entry points -/

/-- `bootstrap_sample_rdm` = draw indices `select[draws]`, then `subsample` with them
    (so `draw_size`, `idx_are_groups`, `rdm_sample_*`, `rdm_groups_together` describe it) -/
theorem bootstrap_sample_rdm_spec (le : L → L → Bool) (s : Stack L α) (hwf : s.WF)
    (rdmBy : String) (desc : List L) (hd : s.rdmDesc.lookup rdmBy = some desc)
    (draws : List Nat) :
    ∃ s', bootstrapSampleRdm le s rdmBy draws = some (s', bootIdx (uniq le desc) draws) ∧
      s.subsample rdmBy (bootIdx (uniq le desc) draws) = some s' ∧ s'.WF := by
  obtain ⟨s', h1, h2, _⟩ :=
    rdm_sample_contents s hwf rdmBy desc hd (bootIdx (uniq le desc) draws)
  exact ⟨s', by simp [bootstrapSampleRdm, hd, h1], h1, h2⟩

/-- `bootstrap_sample_pattern` = draw indices, then `subsample_pattern` with them -/
theorem bootstrap_sample_pattern_spec (le : L → L → Bool) (s : Stack L α) (hwf : s.WF)
    (patBy : String) (desc : List L) (hd : s.patDesc.lookup patBy = some desc)
    (draws : List Nat) :
    ∃ s', bootstrapSamplePattern le s patBy draws = some (s', bootIdx (uniq le desc) draws) ∧
      s.subsamplePattern patBy (bootIdx (uniq le desc) draws) = some s' ∧ s'.WF := by
  obtain ⟨s', h1, h2, _⟩ :=
    pattern_sample_contents s hwf patBy desc hd (bootIdx (uniq le desc) draws)
  exact ⟨s', by simp [bootstrapSamplePattern, hd, h1], h1, h2⟩

/-- `bootstrap_sample` = RDM resampling (which leaves the conditions and their descriptors
    alone) followed by condition resampling of the intermediate stack; both index arrays are
    returned.  All theorems above therefore apply to the two steps `s → s1 → s2`. -/
theorem bootstrap_sample_spec (le : L → L → Bool) (s : Stack L α) (hwf : s.WF)
    (rdmBy patBy : String) (rdesc pdesc : List L)
    (hr : s.rdmDesc.lookup rdmBy = some rdesc) (hp : s.patDesc.lookup patBy = some pdesc)
    (drawsR drawsP : List Nat) :
    ∃ s1 s2,
      bootstrapSample le s rdmBy patBy drawsR drawsP =
        some (s2, bootIdx (uniq le rdesc) drawsR, bootIdx (uniq le pdesc) drawsP) ∧
      s.subsample rdmBy (bootIdx (uniq le rdesc) drawsR) = some s1 ∧ s1.WF ∧
      s1.nCond = s.nCond ∧ s1.patDesc.lookup patBy = some pdesc ∧
      s1.subsamplePattern patBy (bootIdx (uniq le pdesc) drawsP) = some s2 ∧ s2.WF := by
  obtain ⟨s1, h1, hwf1, hn1, hpd1, _⟩ :=
    rdm_sample_contents s hwf rdmBy rdesc hr (bootIdx (uniq le rdesc) drawsR)
  have hp1 : s1.patDesc.lookup patBy = some pdesc := by rw [hpd1]; exact hp
  obtain ⟨s2, h2, hwf2, _⟩ :=
    pattern_sample_contents s1 hwf1 patBy pdesc hp1 (bootIdx (uniq le pdesc) drawsP)
  refine ⟨s1, s2, ?_, h1, hwf1, hn1, hp1, h2, hwf2⟩
  simp [bootstrapSample, hr, hp, h1, h2]

/-- Entry `(p, i, j)` of the sample of `bootstrap_sample`: with `q` the source RDM of sample RDM
    `p` and `a ≤ b` the original conditions of sample conditions `i < j`, it is NaN if `a = b`
    and the source entry `(q, a, b)` otherwise. -/
theorem bootstrap_sample_entry (le : L → L → Bool) (s : Stack L α) (hwf : s.WF)
    (rdmBy patBy : String) (rdesc pdesc : List L)
    (hr : s.rdmDesc.lookup rdmBy = some rdesc) (hp : s.patDesc.lookup patBy = some pdesc)
    (drawsR drawsP : List Nat) (s2 : Stack L α) (ridx pidx : List L)
    (hres : bootstrapSample le s rdmBy patBy drawsR drawsP = some (s2, ridx, pidx))
    (p q : Nat) (hq : (rdmSelection rdesc ridx)[p]? = some q)
    (i j : Nat) (hij : i < j) (hj : j < s2.nCond) :
    ∃ w w' a b, s.vecs[q]? = some w ∧ s2.vecs[p]? = some w' ∧
      (patSelection pdesc pidx)[i]? = some a ∧ (patSelection pdesc pidx)[j]? = some b ∧
      a ≤ b ∧ b < s.nCond ∧ (a ≠ b → triIdx s.nCond a b < w.length) ∧
      w'[triIdx s2.nCond i j]? = if a = b then some none else w[triIdx s.nCond a b]? := by
  obtain ⟨s1, s2', hb, h1, hwf1, hn1, hp1, h2, hwf2⟩ :=
    bootstrap_sample_spec le s hwf rdmBy patBy rdesc pdesc hr hp drawsR drawsP
  rw [hb] at hres
  simp only [Option.some.injEq, Prod.mk.injEq] at hres
  obtain ⟨rfl, rfl, rfl⟩ := hres
  obtain ⟨s1', h1', _, _, _, _, hvec, _⟩ :=
    rdm_sample_contents s hwf rdmBy rdesc hr (bootIdx (uniq le rdesc) drawsR)
  rw [h1] at h1'
  obtain rfl : s1 = s1' := Option.some.inj h1'
  obtain ⟨hqlt, hpq⟩ := hvec p q hq
  have hw : s1.vecs[p]? = some s.vecs[q] := by rw [hpq, List.getElem?_eq_getElem hqlt]
  obtain ⟨w', a, b, e1, e2, e3, e4, e5, e6, e7⟩ :=
    sample_entry s1 hwf1 patBy pdesc hp1 _ s2' h2 p s.vecs[q] hw i j hij hj
  rw [hn1] at e5 e6 e7
  exact ⟨s.vecs[q], w', a, b, List.getElem?_eq_getElem hqlt, e1, e2, e3, e4, e5, e6, e7⟩

/-! ### non-vacuity: a concrete stack meets every hypothesis used above -/

section examples

/-- 2 RDMs (one subject group), 3 conditions in two categories (5, 4, 5), one source NaN -/
def exStack : Stack Nat Nat :=
  { nCond := 3, vecs := [[some 1, some 2, some 3], [some 4, none, some 6]],
    rdmDesc := [("index", [0, 1]), ("subj", [7, 7])],
    patDesc := [("index", [0, 1, 2]), ("cat", [5, 4, 5])] }

def natLe : Nat → Nat → Bool := fun a b => decide (a ≤ b)

example : exStack.WF := ⟨by decide, by decide, by decide⟩
example : exStack.patDesc.lookup "cat" = some [5, 4, 5] := by decide
example : exStack.rdmDesc.lookup "subj" = some [7, 7] := by decide

theorem ex_uniq : uniq natLe [5, 4, 5] = [4, 5] :=
  uniq_nat_eq_of [5, 4, 5] [4, 5] (by decide) (by decide)

/-- drawing group number 1 (category 5) twice is a valid outcome of the request -/
example : ValidDraws natLe [5, 4, 5] [1, 1] := by
  unfold ValidDraws drawSpec
  rw [ex_uniq]; decide

theorem ex_sel : patSelection [5, 4, 5] [5, 5] = [0, 0, 2, 2] :=
  patSelection_eq_of _ _ _ (by decide) (by decide)

/-- the model's sample for that draw: conditions 0,0,2,2; NaN exactly between copies and where
    the source was NaN (second RDM, pair (0,2)) -/
example : (bootstrapSamplePattern natLe exStack "cat" [1, 1]).map
      (fun r => (r.1.nCond, r.1.vecs, r.1.patDesc, r.2)) =
    some (4, [[none, some 2, some 2, some 2, some 2, none],
              [none, none, none, none, none, none]],
          [("index", [0, 0, 2, 2]), ("cat", [5, 5, 5, 5])], [5, 5]) := by
  have hb : bootIdx [4, 5] [1, 1] = [5, 5] := by decide
  have hl : exStack.patDesc.lookup "cat" = some [5, 4, 5] := by decide
  simp only [bootstrapSamplePattern, Stack.subsamplePattern, hl, ex_uniq, hb, ex_sel]
  rfl

/-- `rdm_groups_together` / `pattern_groups_together` have satisfiable hypotheses -/
example : (0 : Nat) < [5, 4, 5].length ∧ 2 < [5, 4, 5].length ∧ [5, 4, 5][0] = [5, 4, 5][2] := by
  decide

/-- the hypotheses of `equal_frequency_full` are met: the uniform weighting exists for every
    descriptor -/
example (le : L → L → Bool) (desc : List L) :
    (∀ f f' : Fin (uniq le desc).length → Fin (uniq le desc).length,
      (fun _ => 1 / (((uniq le desc).length ^ (uniq le desc).length : ℕ) : ℚ)) f =
      (fun _ => 1 / (((uniq le desc).length ^ (uniq le desc).length : ℕ) : ℚ)) f') ∧
    ∑ _f : Fin (uniq le desc).length → Fin (uniq le desc).length,
      1 / (((uniq le desc).length ^ (uniq le desc).length : ℕ) : ℚ) = 1 := by
  refine ⟨fun _ _ => rfl, ?_⟩
  have hpos : (((uniq le desc).length ^ (uniq le desc).length : ℕ) : ℚ) ≠ 0 := by
    have : 0 < (uniq le desc).length ^ (uniq le desc).length := by
      rcases Nat.eq_zero_or_pos (uniq le desc).length with h | h
      · rw [h]; norm_num
      · exact pow_pos h _
    exact_mod_cast this.ne'
  rw [Finset.sum_const, Finset.card_univ, Fintype.card_fun, Fintype.card_fin, nsmul_eq_mul]
  exact mul_one_div_cancel hpos

end examples


/-! ### tie to the source text: size recovery of the RDM-resampled sample -/

/-- `RDMs.subsample` hands 2-d vectors to the `RDMs` constructor, which *recovers* the number of
    conditions from the vector length with `_get_n_from_reduced_vectors` (regenerated from the
    source on every run as `Rsa.Gen.C09.nFromReduced`).  For every RDM-resampled sample of a stack
    with at least one condition the recovered number is the source's number of conditions — so
    the conditions (and the pattern descriptors' length check) survive RDM resampling. -/
theorem rdm_sample_size_recovered (s : Stack L α) (hwf : s.WF) (hn : 1 ≤ s.nCond)
    (by_ : String) (desc : List L) (hd : s.rdmDesc.lookup by_ = some desc) (value : List L)
    (s' : Stack L α) (hs : s.subsample by_ value = some s') :
    ∀ w ∈ s'.vecs, Rsa.Gen.C09.nFromReduced w.length = s.nCond := by
  obtain ⟨s'', h1, hwf', hn', _⟩ := rdm_sample_contents s hwf by_ desc hd value
  rw [hs] at h1
  obtain rfl : s' = s'' := Option.some.inj h1
  intro w hw
  rw [hwf'.vec_len w hw, hn']
  exact Rsa.Rdm.nFromReduced_triLen s.nCond hn

/-- the hypotheses are met by the example stack (3 conditions) -/
example : 1 ≤ exStack.nCond := by decide

/-! ### agreement with the RDM container model of property C10 (`Rsa.Core.Rdm`)

C10 models the same two methods inside its container (`Obj.subsample`, `Obj.subsamplePattern`,
with the constructor checks of `RDMs.__init__`).  On every well-formed object on which C10's
operation succeeds, the C09 model computes the same stack — so the theorems of this file hold
for C10's operations as well and the two models cannot drift apart. -/

section rdm_model

open Rsa.Rdm (Obj)

variable {β : Type} [Zero β]

/-- C10's `subsample_pattern` = C09's, on the shared representation -/
theorem rdm_model_subsamplePattern_agrees (o o' : Obj β) (hwf : o.WF)
    (hri : o.rdesc.has "index" = true) (hpi : o.pdesc.has "index" = true)
    (by_ : String) (vals : List Rsa.Rdm.Lbl)
    (h : o.subsamplePattern by_ vals = some o') :
    (ofObj o).subsamplePattern by_ vals = some (ofObj o') := by
  cases hcol : o.pdesc.lookup by_ with
  | none => simp [Obj.subsamplePattern, Rsa.Rdm.Desc.get, hcol] at h
  | some col =>
    simp only [Obj.subsamplePattern, Rsa.Rdm.Desc.get, hcol, Option.bind_eq_bind,
      Option.bind_some] at h
    obtain ⟨hn, _, _, hv, _, hrd, hpd, _, _, _⟩ := Rsa.Rdm.mk3d_some h
    rw [sortNat_selSubsample_eq_patSelection] at hn hv hpd
    have hcl : col.length = o.nCond := hwf.pshape _ (Rsa.Rdm.Desc.get_mem hcol)
    have hsel : ∀ i ∈ patSelection col vals, i < o.nCond := fun i hi => by
      have := lt_of_mem_patSelection hi; omega
    have hpick : Rsa.Rdm.Desc.pick o.pdesc (patSelection col vals)
        = extract o.pdesc (patSelection col vals) :=
      descPick_eq_extract _ _ o.nCond hwf.pshape hsel
    rw [hpick, addIndex_of_has _ _ (by rw [has_extract]; exact hpi)] at hpd
    rw [addIndex_of_has _ _ hri] at hrd
    simp only [Stack.subsamplePattern, ofObj, hcol, Option.some.injEq]
    rw [hn, hv, hrd, hpd]
    rfl

/-- C10's `subsample` = C09's, on the shared representation -/
theorem rdm_model_subsample_agrees (o o' : Obj β) (hwf : o.WF)
    (hri : o.rdesc.has "index" = true) (hpi : o.pdesc.has "index" = true)
    (by_ : String) (vals : List Rsa.Rdm.Lbl)
    (h : o.subsample by_ vals = some o') :
    (ofObj o).subsample by_ vals = some (ofObj o') := by
  cases hcol : o.rdesc.lookup by_ with
  | none => simp [Obj.subsample, Rsa.Rdm.Desc.get, hcol] at h
  | some col =>
    simp only [Obj.subsample, Rsa.Rdm.Desc.get, hcol, Option.bind_eq_bind,
      Option.bind_some, Obj.getitem] at h
    rw [selSubsample_eq_rdmSelection] at h
    have hcl : col.length = o.vecs.length := hwf.rshape _ (Rsa.Rdm.Desc.get_mem hcol)
    have hsel : ∀ i ∈ rdmSelection col vals, i < o.vecs.length := fun i hi => by
      have := lt_of_mem_rdmSelection hi; omega
    split at h
    · have hvp : Rsa.Rdm.pick [] o.vecs (rdmSelection col vals)
          = pick o.vecs (rdmSelection col vals) := rdmPick_eq_pick _ _ _ hsel
      have hlen : ∀ v ∈ Rsa.Rdm.pick [] o.vecs (rdmSelection col vals),
          v.length = triLen o.nCond := by
        intro v hv
        rw [hvp] at hv
        simp only [pick, List.mem_filterMap] at hv
        obtain ⟨i, _, hi⟩ := hv
        exact hwf.vlen v (List.mem_of_getElem? hi)
      obtain ⟨hn, hv, _, hpd, _, hrd⟩ := Rsa.Rdm.mk2d_ncond h o.nCond hwf.ncond hlen
      have hpick : Rsa.Rdm.Desc.pick o.rdesc (rdmSelection col vals)
          = extract o.rdesc (rdmSelection col vals) :=
        descPick_eq_extract _ _ o.vecs.length hwf.rshape hsel
      rw [hpick, addIndex_of_has _ _ (by rw [has_extract]; exact hri)] at hrd
      rw [addIndex_of_has _ _ hpi] at hpd
      rw [hvp] at hv
      simp only [Stack.subsample, ofObj, hcol, Option.some.injEq]
      rw [hn, hv, hrd, hpd]
    · simp at h

/-- … and C10's `subsample_pattern` is defined whenever the key exists and at least one
    condition is selected (so the agreement theorem is not vacuous; with an empty selection the
    `RDMs` constructor of C10 rejects the 0-condition result while the bare C09 stack is empty) -/
theorem rdm_model_subsamplePattern_defined (o : Obj β) (hwf : o.WF) (by_ : String)
    (col : List Rsa.Rdm.Lbl) (hcol : o.pdesc.lookup by_ = some col) (vals : List Rsa.Rdm.Lbl)
    (hne : patSelection col vals ≠ []) :
    ∃ o', o.subsamplePattern by_ vals = some o' := by
  simp only [Obj.subsamplePattern, Rsa.Rdm.Desc.get, hcol, Option.bind_eq_bind,
    Option.bind_some, sortNat_selSubsample_eq_patSelection]
  unfold Rsa.Rdm.mk3d
  rw [if_pos]
  · exact ⟨_, rfl⟩
  · simp only [Bool.and_eq_true, decide_eq_true_eq, List.all_eq_true, beq_iff_eq,
      Rsa.Rdm.Desc.wellShaped_iff]
    refine ⟨⟨⟨⟨?_, ?_⟩, ?_⟩, ?_⟩, ?_⟩
    · exact List.length_pos_iff.mpr hne
    · rw [List.length_map]; exact List.length_pos_iff.mpr hwf.nrdm
    · intro w hw
      simp only [List.mem_map] at hw
      obtain ⟨v, _, rfl⟩ := hw
      rw [reindexVec_eq_subVec]; exact subVec_length _ _ _
    · intro kv hkv
      rw [List.length_map]; exact hwf.rshape kv hkv
    · intro kv hkv
      obtain ⟨kv0, _, rfl⟩ := Rsa.Rdm.Desc.mem_pick hkv
      exact Rsa.Rdm.pick_length _ _ _

/-- a selection is non-empty as soon as one requested value occurs in the descriptor -/
example : patSelection [Rsa.Rdm.Lbl.int 5, Rsa.Rdm.Lbl.int 4] [Rsa.Rdm.Lbl.int 5] ≠ [] := by
  intro h
  have := count_patSelection [Rsa.Rdm.Lbl.int 5, Rsa.Rdm.Lbl.int 4] [Rsa.Rdm.Lbl.int 5] 0 (by decide)
  rw [h] at this
  simp at this

end rdm_model

/-! ## Round 3 -/

/-! ### the `randint` requests, read from the source text -/

/-- At each of the four call sites of `np.random.randint` in inference/bootstrap.py the request —
    `(low, high, size)` as *regenerated from the source text on every run* — is
    `(0, number of groups, number of groups)`, i.e. exactly the request `drawSpec` describes and
    `ValidDraws` is an answer to.  (Breaks when an argument of a request or the construction of
    the select array changes.) -/
theorem draw_request_tied (site : Site) (le : L → L → Bool) (desc : List L) :
    drawRequest site le desc = (0, (drawSpec le desc).2, (drawSpec le desc).1) := by
  cases site <;> rfl

/-- `ValidDraws` is precisely "a possible return value of the request in the source" -/
theorem draw_request_valid (site : Site) (le : L → L → Bool) (desc : List L) (draws : List Nat) :
    ValidDraws le desc draws ↔
      (draws.length = (drawRequest site le desc).2.2 ∧
       ∀ d ∈ draws, (drawRequest site le desc).1 ≤ d ∧ d < (drawRequest site le desc).2.1) := by
  rw [draw_request_tied]
  simp [ValidDraws]

example : drawRequest Site.bothP natLe [5, 4, 5] = (0, 2, 2) := by
  rw [draw_request_tied]; unfold drawSpec; rw [ex_uniq]; rfl

/-! ### the NaN rule, read from the source text -/

/-- `subsample_pattern` with the NaN decision taken by the generated leaf (the model the driver
    runs) is the `subsamplePattern` all theorems above are about, on every descriptor of one
    kind.  (Breaks when the diagonal is no longer filled with NaN before the selection.) -/
theorem nan_rule_tied (s : Stack Lbl α) (by_ : String) (desc : List Lbl)
    (hd : s.patDesc.lookup by_ = some desc) (hom : Homog desc) (value : List Lbl) :
    s.subsamplePatternNp by_ value = s.subsamplePattern by_ value := by
  have hv : (subVecTied s.nCond (patSelection desc value) : List (Option α) → _)
      = subVec s.nCond (patSelection desc value) := funext (subVecTied_eq _ _)
  simp only [Stack.subsamplePatternNp, Stack.subsamplePattern, hd, npCoerce_homog desc hom, hv]

example : Homog [Lbl.int 5, Lbl.int 4, Lbl.int 5] := Or.inr (by decide)
example : Homog [Lbl.str "a", Lbl.str "b"] := Or.inl (by decide)

/-! ### numpy's coercion of mixed int / str descriptors -/

/-- On descriptors of one kind (all ints or all strings — the property's quantifier) the entry
    points *as coded*, including numpy's coercion in `np.unique` / `np.array` and the generated
    NaN leaf, are the plain model: all theorems of this file apply to what the driver runs. -/
theorem np_model_agrees (fixed : Bool) (s : Stack Lbl α) (rdmBy patBy : String)
    (rdesc pdesc : List Lbl)
    (hr : s.rdmDesc.lookup rdmBy = some rdesc) (hp : s.patDesc.lookup patBy = some pdesc)
    (homr : Homog rdesc) (homp : Homog pdesc) (drawsR drawsP : List Nat) :
    bootstrapSampleRdmNp fixed s rdmBy drawsR = bootstrapSampleRdm Lbl.le s rdmBy drawsR ∧
    bootstrapSamplePatternNp s patBy drawsP = bootstrapSamplePattern Lbl.le s patBy drawsP ∧
    bootstrapSampleNp fixed s rdmBy patBy drawsR drawsP
      = bootstrapSample Lbl.le s rdmBy patBy drawsR drawsP ∧
    drawRequestNp Site.bothR rdesc = drawRequest Site.bothR Lbl.le rdesc := by
  have h1 : bootstrapSampleRdmNp fixed s rdmBy drawsR = bootstrapSampleRdm Lbl.le s rdmBy drawsR := by
    simp [bootstrapSampleRdmNp, bootstrapSampleRdm, Stack.subsample, hr, npCoerce_homog rdesc homr]
  refine ⟨h1, ?_, ?_, ?_⟩
  · simp only [bootstrapSamplePatternNp, bootstrapSamplePattern, hp, npCoerce_homog pdesc homp]
    rw [nan_rule_tied s patBy pdesc hp homp]
  · unfold bootstrapSampleNp
    rw [h1]
    simp only [bootstrapSampleRdm, bootstrapSample, hr, hp, Stack.subsample, Option.map_some,
      npCoerce_homog pdesc homp]
    congr 1
    have key : ∀ (s1 : Stack Lbl α), s1.patDesc = s.patDesc → ∀ v,
        s1.subsamplePatternNp patBy v = s1.subsamplePattern patBy v :=
      fun s1 h v => nan_rule_tied s1 patBy pdesc (by rw [h]; exact hp) homp v
    apply key
    rfl
  · simp [drawRequestNp, npCoerce_homog rdesc homr]

/-- Characterisation of the library on a *mixed* int / str descriptor (outside the property's
    quantifier): `np.unique` turns every group label into a string, `RDMs.subsample` then compares
    the python ints of the descriptor with those strings — so an RDM labelled by an int is in
    **no** bootstrap sample, whatever the draws.  (With the repaired comparison, `fixed = true`,
    `np_rdm_sample_multiplicity` holds instead.) -/
theorem mixed_rdm_int_never_sampled (desc : List Lbl) (hmix : ∃ x ∈ desc, x.isStr = true)
    (draws : List Nat) (j : Nat) (hj : j < desc.length) (hint : desc[j].isStr = false) :
    (rdmSelection desc (bootIdx (uniq Lbl.le (npCoerce desc)) draws)).count j = 0 := by
  rw [count_rdmSelection _ _ j hj, List.count_eq_zero]
  intro hmem
  have h1 : desc[j] ∈ npCoerce desc := mem_uniq.mp (mem_of_mem_bootIdx hmem)
  have := npCoerce_mixed_isStr desc hmix _ h1
  rw [hint] at this; cases this

example : ∃ x ∈ [Lbl.int 1, Lbl.str "a", Lbl.int 1], x.isStr = true := ⟨Lbl.str "a", by decide, rfl⟩

/-- With comparison on the coerced descriptor (what `subsample_pattern` does, and `subsample`
    after the proposed repair) the sample is faithful for *every* descriptor, mixed or not, with
    numpy's groups (`str(x)`): item `j` occurs as often as its coerced label was drawn. -/
theorem np_sample_multiplicity (desc value : List Lbl) (j : Nat) (hj : j < desc.length) :
    (patSelection (npCoerce desc) value).count j
        = value.count ((npCoerce desc)[j]'(by rw [npCoerce_length]; exact hj)) ∧
    (rdmSelection (npCoerce desc) value).count j
        = value.count ((npCoerce desc)[j]'(by rw [npCoerce_length]; exact hj)) :=
  ⟨count_patSelection _ _ j (by rw [npCoerce_length]; exact hj),
   count_rdmSelection _ _ j (by rw [npCoerce_length]; exact hj)⟩

/-! ### cross-object sessions: one draw, the data and several model predictions -/

/-- The pattern indices returned for the data, applied to *every* model prediction of a session
    (any number of predictions, each with its own number of RDMs and its own extra descriptors,
    sharing the grouping descriptor): each resampled prediction exists, is well formed, has the
    sample's number of conditions, the sample's grouping column, all its own descriptors re-indexed
    by the *same* selection, and each of its entries `(r, i, j)` is its own source entry for the
    same pair of original conditions `(a, b)` as in the data sample (NaN iff `a = b`). -/
theorem session_aligned (s : Stack L α) (ms : List (Stack L α)) (hs : s.WF)
    (hms : ∀ m ∈ ms, m.WF) (by_ : String) (desc : List L)
    (hds : s.patDesc.lookup by_ = some desc)
    (hdm : ∀ m ∈ ms, m.patDesc.lookup by_ = some desc) (value : List L) :
    ∃ s', s.subsamplePattern by_ value = some s' ∧
      (resampleAll ms by_ value).length = ms.length ∧
      ∀ (k : Nat) (m : Stack L α), ms[k]? = some m →
        ∃ m', (resampleAll ms by_ value)[k]? = some (some m') ∧ m'.WF ∧
          m'.nCond = s'.nCond ∧
          m'.patDesc = extract m.patDesc (patSelection desc value) ∧
          s'.patDesc = extract s.patDesc (patSelection desc value) ∧
          m'.patDesc.lookup by_ = s'.patDesc.lookup by_ ∧
          ∀ (r : Nat) (w : List (Option α)), m.vecs[r]? = some w →
            ∀ (i j : Nat), i < j → j < m'.nCond →
              ∃ w' a b, m'.vecs[r]? = some w' ∧
                (patSelection desc value)[i]? = some a ∧ (patSelection desc value)[j]? = some b ∧
                a ≤ b ∧ b < m.nCond ∧
                w'[triIdx m'.nCond i j]? = if a = b then some none else w[triIdx m.nCond a b]? := by
  obtain ⟨s', hs', _, hn, _⟩ := pattern_sample_contents s hs by_ desc hds value
  refine ⟨s', hs', by simp [resampleAll], ?_⟩
  intro k m hk
  have hmem : m ∈ ms := List.mem_of_getElem? hk
  obtain ⟨s'', m', e1, e2, e3, e4, _, e6, e7⟩ :=
    sample_pred_aligned s m hs (hms m hmem) by_ desc hds (hdm m hmem) value
  rw [hs'] at e1
  obtain rfl : s' = s'' := Option.some.inj e1
  obtain ⟨m'', e2', hwf', _⟩ := pattern_sample_contents m (hms m hmem) by_ desc (hdm m hmem) value
  rw [e2] at e2'
  obtain rfl : m' = m'' := Option.some.inj e2'
  refine ⟨m', ?_, hwf', e3.symm, e7, e6, e4.symm, ?_⟩
  · simp [resampleAll, List.getElem?_map, hk, e2]
  · intro r w hw i j hij hj
    obtain ⟨w', a, b, f1, f2, f3, f4, f5, _, f7⟩ :=
      sample_entry m (hms m hmem) by_ desc (hdm m hmem) value m' e2 r w hw i j hij hj
    exact ⟨w', a, b, f1, f2, f3, f4, f5, f7⟩

/-- a session with two predictions of different size on the example stack's conditions -/
def exPreds : List (Stack Nat Nat) :=
  [{ nCond := 3, vecs := [[some 7, some 8, some 9]],
     rdmDesc := [("index", [0])], patDesc := [("index", [0, 1, 2]), ("cat", [5, 4, 5])] },
   { nCond := 3, vecs := [[some 1, some 1, some 2], [some 3, some 3, some 4]],
     rdmDesc := [("index", [0, 1]), ("model", [9, 9])],
     patDesc := [("cat", [5, 4, 5]), ("index", [0, 1, 2])] }]

example : (∀ m ∈ exPreds, m.WF) ∧ ∀ m ∈ exPreds, m.patDesc.lookup "cat" = some [5, 4, 5] := by
  refine ⟨?_, ?_⟩ <;> intro m hm <;> simp only [exPreds, List.mem_cons, List.not_mem_nil, or_false] at hm <;>
    rcases hm with rfl | rfl
  · exact ⟨by decide, by decide, by decide⟩
  · exact ⟨by decide, by decide, by decide⟩
  · decide
  · decide

/-! ### `boot_testset.py`: the groups that were not drawn -/

/-- `np.setdiff1d(descriptor, drawn)` as test-set indices: a source item is in the test set exactly
    once if its group was not drawn and not at all if it was; it is in the bootstrap sample iff its
    group was drawn.  So training sample and test set never share an item and together cover all. -/
theorem testset_partition (le : L → L → Bool) (desc idx : List L) (j : Nat) (hj : j < desc.length) :
    (patSelection desc (testIdx le desc idx)).count j = (if desc[j] ∈ idx then 0 else 1) ∧
    (rdmSelection desc (testIdx le desc idx)).count j = (if desc[j] ∈ idx then 0 else 1) ∧
    ((patSelection desc idx).count j = 0 ↔ desc[j] ∉ idx) ∧
    ((rdmSelection desc idx).count j = 0 ↔ desc[j] ∉ idx) := by
  have hc : (testIdx le desc idx).count desc[j] = (if desc[j] ∈ idx then 0 else 1) := by
    rw [(nodup_testIdx le desc idx).count]
    by_cases h : desc[j] ∈ idx
    · simp [mem_testIdx, h]
    · simp [mem_testIdx, h]
  refine ⟨?_, ?_, ?_, ?_⟩
  · rw [count_patSelection _ _ j hj, hc]
  · rw [count_rdmSelection _ _ j hj, hc]
  · rw [count_patSelection _ _ j hj, List.count_eq_zero]
  · rw [count_rdmSelection _ _ j hj, List.count_eq_zero]

/-- the number of test groups reported by `bootstrap_testset*` (`n_pattern`, `n_rdm`) is the number
    of groups minus the number of distinct drawn groups -/
theorem testset_size (le : L → L → Bool) (desc idx : List L) (hidx : ∀ g ∈ idx, g ∈ desc) :
    (testIdx le desc idx).length + idx.toFinset.card = desc.toFinset.card := by
  have h1 : (testIdx le desc idx).length = (desc.toFinset \ idx.toFinset).card := by
    rw [← List.toFinset_card_of_nodup (nodup_testIdx le desc idx)]
    congr 1
    ext g
    simp [mem_testIdx]
  have hsub : idx.toFinset ⊆ desc.toFinset := by
    intro g hg
    simp only [List.mem_toFinset] at hg ⊢
    exact hidx g hg
  rw [h1, Finset.card_sdiff_of_subset hsub]
  have := Finset.card_le_card hsub
  omega

example : testIdx natLe [5, 4, 5] [5, 5] = [4] := by
  unfold testIdx; rw [ex_uniq]; decide

/-! ### the two resampling steps commute (evaluate.py resamples the data in both orders) -/

/-- resampling RDMs then conditions gives the same stack as conditions then RDMs -/
theorem resample_commute (s : Stack L α) (rdmBy patBy : String) (vr vp : List L) :
    (s.subsample rdmBy vr).bind (fun s1 => s1.subsamplePattern patBy vp) =
    (s.subsamplePattern patBy vp).bind (fun s2 => s2.subsample rdmBy vr) := by
  cases hr : s.rdmDesc.lookup rdmBy <;> cases hp : s.patDesc.lookup patBy <;>
    simp [Stack.subsample, Stack.subsamplePattern, hr, hp, pick_map]

/-- both descriptors exist on the example stack, so both sides are a stack (`some`) there -/
example : exStack.rdmDesc.lookup "subj" = some [7, 7] ∧
    exStack.patDesc.lookup "cat" = some [5, 4, 5] := by decide

/-! ### `bootstrap_testset_pattern`, one iteration -/

/-- the thresholds "enough groups left out" are those of the source text -/
theorem testset_thresholds_tied (p r : Nat) :
    (TestFn.both.hasTest p r = true ↔ 3 ≤ p ∧ 1 ≤ r) ∧
    (TestFn.pattern.hasTest p r = true ↔ 3 ≤ p) ∧
    (TestFn.rdm.hasTest p r = true ↔ 1 ≤ r) := by
  refine ⟨?_, ?_, ?_⟩
  · simp only [TestFn.hasTest, Rsa.Gen.C09.hasTestBoth, decide_eq_true_eq]
    split <;> simp_all
  · simp only [TestFn.hasTest, Rsa.Gen.C09.hasTestPattern, decide_eq_true_eq]
    split <;> simp_all
  · simp only [TestFn.hasTest, Rsa.Gen.C09.hasTestRdm, decide_eq_true_eq]
    split <;> simp_all

/-- One iteration of `bootstrap_testset_pattern` on a descriptor of one kind: the training sample is
    the bootstrap sample for the drawn indices, the test indices are the groups that were not
    drawn, and the test set — present iff at least 3 groups are left out — is the source stack
    restricted to those groups (so `testset_partition` describes its conditions and
    `sample_entry` its entries). -/
theorem boot_testset_pattern_spec (s : Stack Lbl α) (rdmBy patBy : String) (desc : List Lbl)
    (hd : s.patDesc.lookup patBy = some desc) (hom : Homog desc) (drawsR draws : List Nat) :
    ∃ r, bootTestset TestFn.pattern s rdmBy patBy drawsR draws = some r ∧
      r.patIdx = some (bootIdx (uniq Lbl.le desc) draws) ∧
      bootstrapSamplePattern Lbl.le s patBy draws
        = some (r.sample, bootIdx (uniq Lbl.le desc) draws) ∧
      r.testP = some (testIdx Lbl.le desc (bootIdx (uniq Lbl.le desc) draws)) ∧
      r.test = (if 3 ≤ (testIdx Lbl.le desc (bootIdx (uniq Lbl.le desc) draws)).length
                then s.subsamplePattern patBy (testIdx Lbl.le desc (bootIdx (uniq Lbl.le desc) draws))
                else none) := by
  have hnp : ∀ v, s.subsamplePatternNp patBy v = s.subsamplePattern patBy v :=
    fun v => nan_rule_tied s patBy desc hd hom v
  have hthr := (testset_thresholds_tied
    (testIdx Lbl.le desc (bootIdx (uniq Lbl.le desc) draws)).length 0).2.1
  cases hsp : s.subsamplePattern patBy (bootIdx (uniq Lbl.le desc) draws) with
  | none => simp [Stack.subsamplePattern, hd] at hsp
  | some s' =>
    refine ⟨⟨s', none, some (bootIdx (uniq Lbl.le desc) draws), none,
      some (testIdx Lbl.le desc (bootIdx (uniq Lbl.le desc) draws)),
      (if 3 ≤ (testIdx Lbl.le desc (bootIdx (uniq Lbl.le desc) draws)).length
       then s.subsamplePattern patBy (testIdx Lbl.le desc (bootIdx (uniq Lbl.le desc) draws))
       else none)⟩, ?_, rfl, ?_, rfl, rfl⟩
    · simp only [bootTestset, bootstrapSamplePatternNp, hd, npCoerce_homog desc hom, hnp, hsp,
        Option.map_some]
      congr 2
      by_cases h3 : 3 ≤ (testIdx Lbl.le desc (bootIdx (uniq Lbl.le desc) draws)).length
      · rw [if_pos (hthr.mpr h3), if_pos h3]
      · rw [if_neg (fun h => h3 (hthr.mp h)), if_neg h3]
    · simp [bootstrapSamplePattern, hd, hsp]

/-! ### equal frequency from symmetry alone -/

/-- FULL statement of the symmetric-group argument: under *any* distribution `P` of the `m`
    draws that does not depend on how the draw numbers are labelled (`P (σ ∘ f) = P f` for every
    permutation `σ` of `{0,…,m-1}` — independent uniform draws are one example, "all draws equal,
    uniformly chosen" another) every group is selected once per draw in expectation. -/
theorem equal_frequency_symmetric (le : L → L → Bool) (desc : List L)
    (P : (Fin (uniq le desc).length → Fin (uniq le desc).length) → ℚ)
    (hsym : ∀ (σ : Equiv.Perm (Fin (uniq le desc).length)) f, P (fun t => σ (f t)) = P f)
    (hone : ∑ f, P f = 1) :
    ∀ g ∈ desc, ∑ f, P f * (selections le desc f g : ℚ) = 1 := by
  intro g hg
  have hnd := nodup_uniq le desc
  obtain ⟨ia, hia, hga⟩ := List.getElem_of_mem (mem_uniq (le := le).mpr hg)
  have e1 : ∀ f, selections le desc f g =
      (List.finRange _).countP (fun t => decide (f t = ⟨ia, hia⟩)) := fun f => by
    rw [← count_bootIdx_ofFn _ hnd ⟨ia, hia⟩ f]; simp only [selections, Fin.getElem_fin, hga]
  simp only [e1]
  exact weighted_countP_one P hsym hone ⟨ia, hia⟩

/-- the uniform weighting is symmetric, so `equal_frequency_partial` is the special case -/
theorem equal_frequency_of_uniform (le : L → L → Bool) (desc : List L)
    (P : (Fin (uniq le desc).length → Fin (uniq le desc).length) → ℚ)
    (hunif : ∀ f f', P f = P f') (hone : ∑ f, P f = 1) :
    ∀ g ∈ desc, ∑ f, P f * (selections le desc f g : ℚ) = 1 :=
  equal_frequency_symmetric le desc P (fun _ _ => hunif _ _) hone

/-- a symmetric weighting that is *not* uniform: two groups, both draws equal, the common value
    chosen evenly (outcomes (0,0) and (1,1) with weight 1/2 each) -/
def exSymP : (Fin 2 → Fin 2) → ℚ := fun f => if f 0 = f 1 then 1 / 2 else 0

example : (∀ (σ : Equiv.Perm (Fin 2)) f, exSymP (fun t => σ (f t)) = exSymP f) ∧
    ∑ f, exSymP f = 1 ∧ ¬ (∀ f f', exSymP f = exSymP f') := by
  refine ⟨?_, ?_, ?_⟩
  · intro σ f
    simp only [exSymP, σ.injective.eq_iff]
  · rw [show (∑ f, exSymP f) = ∑ f : Fin 2 → Fin 2, exSymP f from rfl]
    decide +kernel
  · intro h
    have := h (fun _ => 0) (fun t => t)
    simp [exSymP] at this


/-! ## Round 4 — no hidden state: in-place operations between draws

An `RDMs` object can be changed in place between two bootstrap draws (`reorder`, `sort_by`,
assignments to `pattern_descriptors`, writes to `.dissimilarities`).  The property speaks about the
object *as it is at the time of the draw*: a sample is a function of the current labelled content
and of the draws, of nothing else. -/

/-- `subsample_pattern` is the gathering of the sorted selection: the sample is determined by the
    current content (vectors, descriptors) of the stack alone -/
theorem subsamplePattern_eq_gather (s : Stack L α) (by_ : String) (desc : List L)
    (hd : s.patDesc.lookup by_ = some desc) (value : List L) :
    s.subsamplePattern by_ value = some (s.gather (patSelection desc value)) := by
  simp [Stack.subsamplePattern, hd, Stack.gather]

/-- entries of a stack gathered at *arbitrary* (unsorted, repeated) source positions `sel`: entry
    `(r, i, j)` is NaN iff both positions are the same source condition and otherwise the source
    entry of RDM `r` for that (unordered) pair of source conditions -/
theorem gather_entry (s : Stack L α) (sel : List Nat) (r : Nat) (w : List (Option α))
    (hw : s.vecs[r]? = some w) (i j : Nat) (hij : i < j) (hj : j < sel.length) :
    ∃ w', (s.gather sel).vecs[r]? = some w' ∧
      w'[triIdx (s.gather sel).nCond i j]? =
        some (if sel[i]'(by omega) = sel[j] then none
              else w.getD (triIdx s.nCond (min (sel[i]'(by omega)) sel[j])
                                          (max (sel[i]'(by omega)) sel[j])) none) := by
  refine ⟨subVec s.nCond sel w, ?_, ?_⟩
  · simp only [Stack.gather]
    rw [List.getElem?_map, hw]; rfl
  · simp only [Stack.gather]
    rw [gatherVec_getElem? s.nCond sel w i j hij hj]
    congr 1
    unfold vecToMat
    by_cases he : sel[i]'(by omega) = sel[j]
    · simp [he]
    · by_cases hlt : sel[i]'(by omega) < sel[j]
      · have h1 : min (sel[i]'(by omega)) sel[j] = sel[i]'(by omega) := by omega
        have h2 : max (sel[i]'(by omega)) sel[j] = sel[j] := by omega
        simp [he, hlt, h1, h2]
      · have h1 : min (sel[i]'(by omega)) sel[j] = sel[j] := by omega
        have h2 : max (sel[i]'(by omega)) sel[j] = sel[i]'(by omega) := by omega
        simp [he, hlt, h1, h2]

/-- **Sampling after an in-place reordering.**  For any re-indexing `p` of the conditions applied in
    place (`reorder(p)`, `sort_by`), sampling the reordered object is gathering the *original* at
    the selected positions mapped through `p`: sample condition `i` is original condition
    `p[sel'[i]]` where `sel'` is the selection computed on the reordered descriptor, every pattern
    descriptor value is that original condition's, and (`gather_entry`) every entry is the original
    entry of the two original conditions, NaN exactly between copies.  Nothing of the object's
    earlier state (an earlier order, an earlier draw) enters. -/
theorem sample_after_inplace (s : Stack L α) (hwf : s.WF) (p : List Nat)
    (hp : ∀ i ∈ p, i < s.nCond) (by_ : String) (desc : List L)
    (hd : s.patDesc.lookup by_ = some desc) (value : List L) :
    (s.reorder p).subsamplePattern by_ value =
      some (s.gather ((patSelection (pick desc p) value).map (fun a => p.getD a 0))) := by
  have hdl : desc.length = s.nCond := hwf.pat_len _ (mem_of_lookup hd)
  have hpl : (pick desc p).length = p.length :=
    pick_length _ _ (fun i hi => by rw [hdl]; exact hp i hi)
  have hsel : ∀ a ∈ patSelection (pick desc p) value, a < p.length := fun a ha => by
    have := lt_of_mem_patSelection ha; omega
  have hl : (s.reorder p).patDesc.lookup by_ = some (pick desc p) := by
    simp [Stack.reorder, Stack.gather, lookup_extract, hd]
  have hv : ((s.vecs.map (subVec s.nCond p)).map
        (subVec p.length (patSelection (pick desc p) value)))
      = s.vecs.map (subVec s.nCond ((patSelection (pick desc p) value).map (fun a => p.getD a 0))) := by
    rw [List.map_map]
    apply List.map_congr_left
    intro v _
    exact subVec_comp _ _ _ _ hsel
  have he := extract_extract s.patDesc s.nCond hwf.pat_len p
    (patSelection (pick desc p) value) hp hsel
  rw [subsamplePattern_eq_gather _ by_ _ hl]
  simp only [Stack.reorder, Stack.gather, hv, he, List.length_map]

/-- … and when `p` is a permutation of the conditions, the original conditions in the sample after
    the in-place reordering are — with multiplicity — exactly those a sample of the original object
    with the same drawn values contains (members of the drawn groups, drawn multiplicity);
    only their order follows the new order of the object. -/
theorem inplace_same_conditions (s : Stack L α) (hwf : s.WF) (p : List Nat)
    (hperm : p.Perm (List.range s.nCond)) (by_ : String) (desc : List L)
    (hd : s.patDesc.lookup by_ = some desc) (value : List L) :
    ((patSelection (pick desc p) value).map (fun a => p.getD a 0)).Perm
      (patSelection desc value) := by
  have hdl : desc.length = s.nCond := hwf.pat_len _ (mem_of_lookup hd)
  have hp : ∀ i ∈ p, i < s.nCond := fun i hi => by simpa using hperm.mem_iff.mp hi
  have hp' : ∀ i ∈ p, i < desc.length := fun i hi => by rw [hdl]; exact hp i hi
  have hnd : p.Nodup := hperm.nodup_iff.mpr List.nodup_range
  have hpl : (pick desc p).length = p.length := pick_length _ _ hp'
  have hsel : ∀ a ∈ patSelection (pick desc p) value, a < p.length := fun a ha => by
    have := lt_of_mem_patSelection ha; omega
  rw [List.perm_iff_count]
  intro q
  by_cases hq : q < s.nCond
  · have hqp : q ∈ p := hperm.mem_iff.mpr (by simpa using hq)
    obtain ⟨a0, ha0, rfl⟩ := List.getElem_of_mem hqp
    rw [count_map_getD p hnd _ hsel a0 ha0,
      count_patSelection (pick desc p) value a0 (by omega),
      count_patSelection desc value p[a0] (by omega)]
    congr 1
    have := pick_getElem desc p hp' a0 ha0
    rw [List.getElem?_eq_getElem (by omega)] at this
    exact Option.some.inj this
  · have h1 : q ∉ (patSelection (pick desc p) value).map (fun a => p.getD a 0) := by
      intro hm
      obtain ⟨a, ha, rfl⟩ := List.mem_map.mp hm
      have hal := hsel a ha
      have : p.getD a 0 = p[a] := by
        simp [List.getD_eq_getElem?_getD, List.getElem?_eq_getElem hal]
      rw [this] at hq
      exact hq (hp _ (List.getElem_mem hal))
    have h2 : q ∉ patSelection desc value := fun hm => by
      have := lt_of_mem_patSelection hm; omega
    rw [List.count_eq_zero.mpr h1, List.count_eq_zero.mpr h2]

/-- **Sessions on one object.**  Whatever in-place operations `ops` (reorderings, descriptor
    assignments, writes to single dissimilarities) stand between the start and a draw, and whatever
    draws were made before, the draw returns the bootstrap sample of the content the object has
    *then*; the remaining session continues from that same content (a draw changes nothing). -/
theorem session_no_hidden_state (le : L → L → Bool) (s : Stack L α) (ops : List (InPlace L α))
    (patBy : String) (draws : List Nat) (rest : List (Step L α)) :
    runSession le s (ops.map Step.op ++ Step.draw patBy draws :: rest) =
      bootstrapSamplePattern le (ops.foldl Stack.apply s) patBy draws ::
        runSession le (ops.foldl Stack.apply s) rest := by
  induction ops generalizing s with
  | nil => rfl
  | cons o os ih => simpa [runSession] using ih (s.apply o)

/-- draw, reorder in place, draw again: the first result is the sample of the object as built, the
    second one gathers the *original* content at the positions selected on the reordered
    descriptor, mapped through the reordering -/
theorem draw_reorder_draw (le : L → L → Bool) (s : Stack L α) (hwf : s.WF) (p : List Nat)
    (hp : ∀ i ∈ p, i < s.nCond) (by_ : String) (desc : List L)
    (hd : s.patDesc.lookup by_ = some desc) (d1 d2 : List Nat) :
    runSession le s [Step.draw by_ d1, Step.op (InPlace.reorder p), Step.draw by_ d2] =
      [bootstrapSamplePattern le s by_ d1,
       some (s.gather ((patSelection (pick desc p) (bootIdx (uniq le (pick desc p)) d2)).map
               (fun a => p.getD a 0)),
             bootIdx (uniq le (pick desc p)) d2)] := by
  have hl : (s.reorder p).patDesc.lookup by_ = some (pick desc p) := by
    simp [Stack.reorder, Stack.gather, lookup_extract, hd]
  simp only [runSession, Stack.apply, bootstrapSamplePattern, hl,
    sample_after_inplace s hwf p hp by_ desc hd, Option.map_some]

/-- non-vacuity: `[2, 0, 1]` is a permutation of the example stack's three conditions; after that
    in-place reordering the descriptor reads `5, 5, 4`, drawing category 5 twice selects the new
    positions `0, 0, 1, 1`, i.e. the original conditions `2, 2, 0, 0` — a rearrangement of the
    `0, 0, 2, 2` a draw on the original object selects (`ex_sel`) -/
example : [2, 0, 1].Perm (List.range exStack.nCond) := by decide

example : (patSelection (pick [5, 4, 5] [2, 0, 1]) [5, 5]).map (fun a => [2, 0, 1].getD a 0)
    = [2, 2, 0, 0] := by
  have h : pick [5, 4, 5] [2, 0, 1] = [5, 5, 4] := by decide
  rw [h, patSelection_eq_of [5, 5, 4] [5, 5] [0, 0, 1, 1] (by decide) (by decide)]
  rfl

/-- the sample drawn after the reordering: conditions (orig.) 2,2,0,0; the entries between the
    copies are NaN, the others are the original entry of the pair (0,2): `2` in the first RDM,
    NaN (source NaN) in the second -/
example : ((exStack.gather [2, 2, 0, 0]).vecs, (exStack.gather [2, 2, 0, 0]).patDesc) =
    ([[none, some 2, some 2, some 2, some 2, none], [none, none, none, none, none, none]],
     [("index", [2, 2, 0, 0]), ("cat", [5, 5, 5, 5])]) := by
  decide

/-! ## round 6: large stacks — every RDM of a sample, blocks of RDMs, restriction to some RDMs -/

/-- **Every RDM of the sample, the last one included.**  `subsample_pattern` keeps the number of
    RDMs, and RDM number `p` of the sample is the selection applied to RDM number `p` of the source —
    for every `p`, however many RDMs the stack has. -/
theorem sample_every_rdm (s : Stack L α) (by_ : String) (value : List L) (desc : List L)
    (hd : s.patDesc.lookup by_ = some desc) :
    ∃ r, s.subsamplePattern by_ value = some r ∧ r.vecs.length = s.vecs.length ∧
      ∀ p : Nat, r.vecs[p]? = (s.vecs[p]?).map (subVec s.nCond (patSelection desc value)) := by
  simp only [Stack.subsamplePattern, hd]
  exact ⟨_, rfl, by simp, fun p => by simp⟩

/-- **Block-wise evaluation.**  Converting / NaN-diagonalising / selecting the RDMs `b` at a time and
    concatenating the blocks gives the sample of the whole stack, for every block size `b > 0` and
    every number of RDMs (a multiple of `b` or not). -/
theorem blockwise_eq (b : Nat) (hb : 0 < b) (s : Stack L α) (by_ : String) (value : List L) :
    s.subsamplePatternBlocked b by_ value = s.subsamplePattern by_ value := by
  unfold Stack.subsamplePatternBlocked Stack.subsamplePattern
  cases s.patDesc.lookup by_ with
  | none => rfl
  | some desc => simp only [flatMap_map_chunks _ b hb]

/-- the blocks cover the RDMs exactly once, in order, and there are `⌈n_rdm / b⌉` of them — the
    remainder block counts (a loop over `n_rdm / b` blocks leaves the last `n_rdm % b` RDMs out) -/
theorem blocks_cover (b : Nat) (hb : 0 < b) (s : Stack L α) :
    (chunks b s.vecs).flatten = s.vecs ∧ (chunks b s.vecs).length = (s.vecs.length + b - 1) / b :=
  ⟨chunks_flatten b hb _, chunks_length b hb _⟩

/-- non-vacuity: 5 RDMs in blocks of 2 are 3 blocks, the last one holding the single last RDM -/
example : chunks 2 [10, 11, 12, 13, 14] = [[10, 11], [12, 13], [14]] := by decide
example : (5 + 2 - 1) / 2 = 3 ∧ 5 / 2 = 2 := by decide

/-- **Restriction to some RDMs commutes with the pattern selection**: the pattern sample of the
    stack made of the RDMs at positions `rows` (any positions: first, last, block boundaries) is the
    pattern sample of the whole stack restricted to the same positions.  (Justifies running the Lean
    driver on a few RDMs of a large stack.) -/
theorem subsamplePattern_rdm_local (s : Stack L α) (rows : List Nat) (by_ : String)
    (value : List L) :
    (s.restrictRdm rows).subsamplePattern by_ value =
      (s.subsamplePattern by_ value).map (fun r => r.restrictRdm rows) := by
  unfold Stack.subsamplePattern Stack.restrictRdm
  cases h : s.patDesc.lookup by_ <;> simp [h, pick_map]

example : ((exStack.restrictRdm [1]).subsamplePattern "cat" [5, 5]).map (·.vecs) =
    (exStack.subsamplePattern "cat" [5, 5]).map (fun r => (r.restrictRdm [1]).vecs) := by
  rw [subsamplePattern_rdm_local, Option.map_map]; rfl

/-- the restricted stack really is the first RDM alone; gathering its conditions 0, 2 gives the
    source entry of that pair -/
example : ((exStack.restrictRdm [0]).gather [0, 2]).vecs = [[some 2]] ∧
    (exStack.restrictRdm [0]).rdmDesc = [("index", [0]), ("subj", [7])] := by decide

/-- **What the driver runs on large stacks is the as-coded entry point.**  `largeSample` with the
    stack's own grouping descriptors is `bootstrap_sample` / `_rdm` / `_pattern` as coded. -/
theorem largeSample_full (s : Stack Lbl α) (rdmBy patBy : String) (rdesc pdesc : List Lbl)
    (hr : s.rdmDesc.lookup rdmBy = some rdesc) (hp : s.patDesc.lookup patBy = some pdesc)
    (dr dp : List Nat) :
    largeSample s (some (rdmBy, rdesc, dr)) (some (patBy, pdesc, dp)) =
        bootstrapSampleNp false s rdmBy patBy dr dp ∧
    largeSample s none (some (patBy, pdesc, dp)) =
        (bootstrapSamplePatternNp s patBy dp).map (fun x => (x.1, [], x.2)) ∧
    largeSample s (some (rdmBy, rdesc, dr)) none =
        (bootstrapSampleRdmNp false s rdmBy dr).map (fun x => (x.1, x.2, [])) := by
  refine ⟨?_, ?_, ?_⟩
  · simp [largeSample, bootstrapSampleNp, bootstrapSampleRdmNp, Stack.subsample, hr, hp]
  · simp only [largeSample, bootstrapSamplePatternNp, hp]
    cases s.subsamplePatternNp patBy (bootIdx (uniq Lbl.le (npCoerce pdesc)) dp) <;> rfl
  · simp [largeSample, bootstrapSampleRdmNp, Stack.subsample, hr]

end Rsa.Props.C09
