/-
  Property C04 — each stored evaluation is the direct comparison of prediction and resampled data.
  Property theorems only; helper lemmas live in Rsa/Lemmas/C04.lean.

  Every theorem is about the executable model `Rsa.Core.Eval` (the functions the driver runs
  against the real rsatoolbox on every check) and holds for every data stack, every grouping, every
  similarity measure `m`, every fitter `fit` / `predict`, every noise-ceiling function `ncf` and
  every outcome of the random draws (`Draw`, `CvDraw`, shuffle lists) — they are universally
  quantified arguments.
-/
import Mathlib.Algebra.Order.Field.Basic
import Mathlib.Tactic.FieldSimp
import Mathlib.Tactic.Ring
import Mathlib.Tactic.Linarith
import Mathlib.Data.Rat.Defs
import Mathlib.Algebra.Order.Field.Rat
import Rsa.Lemmas.C04
import Rsa.Props.C05

set_option linter.unusedSectionVars false
set_option linter.unusedVariables false
set_option linter.unusedSimpArgs false

namespace Rsa.Props.C04

open Rsa Rsa.Boot Rsa.Eval

section generic
variable {α : Type} [Add α] [Sub α] [Mul α] [Div α] [Neg α] [Zero α] [One α] [NatCast α]
  [LT α] [DecidableLT α] [LE α] [DecidableLE α] [Max α] [Min α] {Θ : Type}

/-! ### restriction of a vector to resampled conditions -/

/-- entry `(i, j)` of a vector restricted to the (ascending) selection `sel`: missing when both
    positions are copies of one original condition, else the source entry of the two original
    conditions — for predictions and data alike -/
theorem restrict_entry (n : Nat) (sel : List Nat) (w : List α)
    (hs : sel.Pairwise (· ≤ ·)) (i j : Nat) (hij : i < j) (hj : j < sel.length) :
    (restrict n sel w)[triIdx sel.length i j]? =
      some (if sel[i]'(by omega) = sel[j] then none
            else w[triIdx n (sel[i]'(by omega)) sel[j]]?) := by
  unfold restrict
  rw [subVec_getElem? n sel _ hs i j hij hj]
  simp only [List.getD_eq_getElem?_getD, List.getElem?_map]
  congr 1
  split
  · rfl
  · cases w[triIdx n (sel[i]'(by omega)) sel[j]]? <;> rfl

/-- prediction and data restricted with the same selection are missing at the same positions, so
    dropping the missing entries keeps the two vectors entry-aligned -/
theorem restrict_mask_aligned (n : Nat) (sel : List Nat) (p v : List α)
    (hp : p.length = triLen n) (hv : v.length = triLen n) (hs : ∀ c ∈ sel, c < n) :
    (restrict n sel p).map Option.isSome = (restrict n sel v).map Option.isSome := by
  rw [restrict_mask n sel p hp hs, restrict_mask n sel v hv hs]

/-! ### the bootstrap sample is the one of property C09 -/

/-- the data as an RDM stack of `Rsa.Core.Boot` -/
def stackOf (d : Data α) : Stack Nat α :=
  { nCond := d.nCond, vecs := d.vecs.map (fun v => v.map some)
    rdmDesc := [("rdm", d.rdesc)], patDesc := [("pattern", d.pdesc)] }

/-- the view used by the evaluators holds exactly the dissimilarities and returns exactly the
    index lists of `bootstrap_sample` as modelled (and proved faithful) for property C09 -/
theorem sample_is_boot_sample (d : Data α) (dr : Draw) :
    ∃ s, bootstrapSample natLe (stackOf d) "rdm" "pattern" dr.r dr.p =
        some (s, (sampleOf .both d dr).2.1, (sampleOf .both d dr).2.2) ∧
      s.vecs = viewVecs d (sampleOf .both d dr).1 ∧
      s.nCond = (sampleOf .both d dr).1.conds.length := by
  have hr : (stackOf d).rdmDesc.lookup "rdm" = some d.rdesc := by simp [stackOf, List.lookup]
  have hp : (stackOf d).patDesc.lookup "pattern" = some d.pdesc := by simp [stackOf, List.lookup]
  unfold bootstrapSample
  rw [hr, hp]
  simp only [Stack.subsample, hr, Stack.subsamplePattern, hp, Option.map_some]
  refine ⟨_, rfl, ?_, rfl⟩
  simp only [viewVecs, sampleOf, restrict, groupsR, groupsP, stackOf]
  rw [pick_map, List.map_map]
  rfl

/-- without pattern resampling nothing is restricted: the sample's RDMs are the drawn data RDMs
    themselves and the prediction is compared as a whole (`eval_bootstrap_rdm`) -/
theorem rdm_sample_unrestricted (m : List α → List α → α) (d : Data α) (hd : d.WF)
    (rows : List Nat) (p : List α) (hp : p.length = triLen d.nCond) :
    evalView m d { rows := rows, conds := List.range d.nCond } p =
      mean ((pick d.vecs rows).map (fun v => m p v)) := by
  simp only [evalView, evalAt, viewVecs, List.map_map]
  congr 1
  apply List.map_congr_left
  intro v hv
  obtain ⟨i, _, hi⟩ := mem_pick.mp hv
  have hlen : v.length = triLen d.nCond := hd.vec_len v (List.mem_of_getElem? hi)
  simp [score, restrict_range _ _ hp, restrict_range _ _ hlen, dropNone_map_some]

/-! ### bootstrap with given parameters -/

/-- usable sample: stored evaluation `(i, j)` is the mean, over the RDMs of resample `i` (every
    RDM of every drawn group, with multiplicity), of the similarity between prediction `j`
    restricted to exactly the drawn conditions and that data RDM restricted to them -/
theorem boot_entry (m : List α → List α → α) (ncf : NcReq α → α × α) (bt : BootType)
    (bootNc : Bool) (d : Data α) (preds : List (List α)) (dr : Draw)
    (h : bt = .rdm ∨ 3 ≤ nUnique (sampleOf bt d dr).2.2) (j : Nat) (p : List α)
    (hp : preds[j]? = some p) :
    (bootRow m ncf bt bootNc d preds dr).evals[j]? =
      some (some (mean ((pick d.vecs (sampleOf bt d dr).1.rows).map (fun v =>
        m (dropNone (restrict d.nCond (sampleOf bt d dr).1.conds p))
          (dropNone (restrict d.nCond (sampleOf bt d dr).1.conds v)))))) := by
  simp only [bootRow, if_pos h, List.getElem?_map, hp, Option.map_some, evalView, evalAt, viewVecs,
    List.map_map]
  rfl

/-- the selections behind a resample of both factors: drawn group values in draw order, all
    their RDMs; the conditions of the drawn groups in ascending position -/
theorem boot_sample_both (d : Data α) (dr : Draw) :
    (sampleOf .both d dr).1.rows = rdmSelection d.rdesc (bootIdx (uniq natLe d.rdesc) dr.r) ∧
    (sampleOf .both d dr).1.conds = patSelection d.pdesc (bootIdx (uniq natLe d.pdesc) dr.p) ∧
    (sampleOf .rdm d dr).1.conds = List.range d.nCond ∧
    (sampleOf .pattern d dr).1.rows = List.range d.vecs.length :=
  ⟨rfl, rfl, rfl, rfl⟩

/-- a resample with fewer than 3 distinct condition groups is marked NaN in every model and
    carries no noise ceiling -/
theorem boot_nan_row (m : List α → List α → α) (ncf : NcReq α → α × α) (bt : BootType)
    (bootNc : Bool) (d : Data α) (preds : List (List α)) (dr : Draw)
    (h : ¬ (bt = .rdm ∨ 3 ≤ nUnique (sampleOf bt d dr).2.2)) :
    (∀ e ∈ (bootRow m ncf bt bootNc d preds dr).evals, e = none) ∧
    (bootRow m ncf bt bootNc d preds dr).evals.length = preds.length ∧
    (bootRow m ncf bt bootNc d preds dr).nc = none := by
  simp only [bootRow, if_neg h]
  refine ⟨?_, by simp, trivial⟩
  intro e he
  simp only [List.mem_map] at he
  obtain ⟨_, _, rfl⟩ := he
  rfl

/-- the rows of the result are computed one draw at a time: row `i` depends on draw `i` only -/
theorem boot_rows_independent (m : List α → List α → α) (ncf : NcReq α → α × α) (bt : BootType)
    (bootNc mo : Bool) (d : Data α) (preds : List (List α)) (draws : List Draw) (i : Nat) :
    (evalBootstrap m ncf bt bootNc mo d preds draws).rows[i]? =
      draws[i]?.map (bootRow m ncf bt bootNc d preds) := by
  simp [evalBootstrap]

/-- with `boot_noise_ceil` the ceiling stored for resample `i` is the ceiling function applied to
    the very resample whose evaluations are stored in row `i`; without it, to the whole data -/
theorem noise_ceiling_same_resample (m : List α → List α → α) (ncf : NcReq α → α × α)
    (bt : BootType) (mo : Bool) (d : Data α) (preds : List (List α)) (draws : List Draw)
    (dr : Draw) (h : bt = .rdm ∨ 3 ≤ nUnique (sampleOf bt d dr).2.2) :
    (bootRow m ncf bt true d preds dr).nc =
      some (ncf (.boot (content d false (sampleOf bt d dr).1))) ∧
    (bootRow m ncf bt true d preds dr).evals =
      preds.map (fun p => some (evalView m d (sampleOf bt d dr).1 p)) ∧
    (evalBootstrap m ncf bt false mo d preds draws).ncData =
      some (ncf (.boot (content d false (fullView d)))) := by
  simp [bootRow, if_pos h, evalBootstrap]

/-! ### NaN resamples are excluded from the covariance -/

/-- usable draws of a routine (`eval_bootstrap_rdm` accepts every draw) -/
def usableDraw (bt : BootType) (d : Data α) (dr : Draw) : Bool :=
  decide (bt = .rdm ∨ 3 ≤ nUnique (sampleOf bt d dr).2.2)

/-- the `eval_ok` mask coincides with "the draw was usable" -/
theorem boot_row_ok_iff (m : List α → List α → α) (ncf : NcReq α → α × α) (bt : BootType)
    (bootNc : Bool) (d : Data α) (preds : List (List α)) (hp : preds ≠ []) (dr : Draw) :
    headOk (bootRow m ncf bt bootNc d preds dr).evals = usableDraw bt d dr := by
  unfold usableDraw bootRow
  obtain ⟨p, ps, rfl⟩ := List.exists_cons_of_ne_nil hp
  by_cases h : bt = .rdm ∨ 3 ≤ nUnique (sampleOf bt d dr).2.2
  · simp [h, headOk]
  · simp [h, headOk]

/-- the stored covariance is the sample covariance (`np.cov`) of the per-resample values of the
    *usable* resamples only: the rows marked NaN do not enter -/
theorem nan_samples_excluded (m : List α → List α → α) (ncf : NcReq α → α × α) (bt : BootType)
    (bootNc mo : Bool) (d : Data α) (preds : List (List α)) (hp : preds ≠ [])
    (draws : List Draw) (hbt : ¬ (bt = .rdm ∧ mo = true)) :
    (evalBootstrap m ncf bt bootNc mo d preds draws).cov =
      sampleCov (preds.length + (if bootNc then 2 else 0))
        (((draws.filter (usableDraw bt d)).map (bootRow m ncf bt bootNc d preds)).map
          (fun r => r.obs bootNc)) := by
  simp only [evalBootstrap, if_neg hbt]
  congr 2
  rw [List.filter_map]
  congr 1
  apply List.filter_congr
  intro dr _
  exact boot_row_ok_iff m ncf bt bootNc d preds hp dr

/-- `eval_bootstrap_rdm` as coded today stores the covariance of the model columns over all its
    resamples (none of which is ever NaN): the same sample covariance, without ceiling rows -/
theorem nan_samples_excluded_rdm (m : List α → List α → α) (ncf : NcReq α → α × α)
    (bootNc : Bool) (d : Data α) (preds : List (List α)) (draws : List Draw) :
    (evalBootstrap m ncf .rdm bootNc true d preds draws).cov =
      sampleCov preds.length ((draws.map (bootRow m ncf .rdm bootNc d preds)).map
        (fun r => r.obs false)) ∧
    draws.filter (usableDraw .rdm d) = draws := by
  constructor
  · simp [evalBootstrap]
  · apply List.filter_eq_self.mpr
    intro dr _
    simp [usableDraw]

/-- an entry of a covariance matrix: from the two complete columns, NaN as soon as one of the two
    variables has a missing observation -/
theorem cov_entry_spec (den : α) (k : Nat) (obs : List (List (Option α))) (a b : Nat)
    (ha : a < k) (hb : b < k) :
    ((covWith den k obs).getD a []).getD b none =
      match column obs a, column obs b with
      | some x, some y => some (covEntry den x y)
      | _, _ => none := by
  simp only [covWith, List.getD_eq_getElem?_getD, List.getElem?_map, List.getElem?_range ha,
    List.getElem?_range hb, Option.map_some, Option.getD_some]
  cases column obs a <;> cases column obs b <;> rfl

/-- a column is complete exactly when no observation of the variable is missing, and then lists
    the observations in resample order -/
theorem column_spec (obs : List (List (Option α))) (a : Nat) (x : List α) :
    column obs a = some x ↔
      (∀ r ∈ obs, (r.getD a none).isSome) ∧ x = dropNone (obs.map (fun r => r.getD a none)) :=
  column_eq_some_iff obs a x

/-! ### fixed evaluation -/

/-- fixed evaluation: entry `(model, rdm)` is the similarity of the whole prediction and that
    data RDM; the ceiling is that of the whole data with every RDM its own unit -/
theorem fixed_entry (m : List α → List α → α) (ncf : NcReq α → α × α) (d : Data α)
    (preds : List (List α)) :
    (evalFixed m ncf d preds).evals = preds.map (fun p => d.vecs.map (fun v => m p v)) ∧
    (evalFixed m ncf d preds).nc = ncf (.boot (content d true (fullView d))) ∧
    (d.vecs.length ≤ 1 → (evalFixed m ncf d preds).cov = none) := by
  refine ⟨rfl, rfl, ?_⟩
  intro h
  simp [evalFixed, Nat.not_lt.mpr h]

/-- fixed evaluation: the stored covariance of models `a`, `b` is their population covariance
    across the RDMs (normaliser = number of RDMs) divided by the number of RDMs -/
theorem fixed_cov (m : List α → List α → α) (ncf : NcReq α → α × α) (d : Data α)
    (preds : List (List α)) (hR : 1 < d.vecs.length) (a b : Nat) (pa pb : List α)
    (ha : preds[a]? = some pa) (hb : preds[b]? = some pb) :
    ∃ c, (evalFixed m ncf d preds).cov = some c ∧
      (c.getD a []).getD b none =
        some (covEntry (d.vecs.length : α) (d.vecs.map (fun v => m pa v))
          (d.vecs.map (fun v => m pb v)) / (d.vecs.length : α)) := by
  have hal : a < preds.length := (List.getElem?_eq_some_iff.mp ha).1
  have hbl : b < preds.length := (List.getElem?_eq_some_iff.mp hb).1
  simp only [evalFixed, if_pos hR]
  refine ⟨_, rfl, ?_⟩
  have h := cov_entry_spec (d.vecs.length : α) preds.length
    ((List.range d.vecs.length).map (fun r =>
      (preds.map (fun p => d.vecs.map (fun v => m p v))).map (fun row => row[r]?))) a b hal hbl
  rw [fixed_column m d preds a pa ha, fixed_column m d preds b pb hb] at h
  generalize covWith (d.vecs.length : α) preds.length
    ((List.range d.vecs.length).map (fun r =>
      (preds.map (fun p => d.vecs.map (fun v => m p v))).map (fun row => row[r]?))) = C at h ⊢
  simp only [List.getD_eq_getElem?_getD, List.getElem?_map] at h ⊢
  cases hc : C[a]? with
  | none => simp [hc] at h
  | some row =>
    simp only [hc, Option.map_some, Option.getD_some, List.getElem?_map] at h ⊢
    cases hr : row[b]? with
    | none => simp [hr] at h
    | some e =>
      simp only [hr, Option.getD_some] at h
      simp [hr, h]

/-! ### degrees of freedom -/

/-- number of distinct descriptor values = number of resampled units -/
theorem groups_card (desc : List Nat) : (uniq natLe desc).length = desc.toFinset.card := by
  rw [← List.toFinset_card_of_nodup (nodup_uniq natLe desc)]
  congr 1
  ext x
  simp [mem_uniq]

/-- dof of the bootstrap evaluators = number of resampled descriptor groups − 1, the smaller
    number when both factors are resampled (the expressions are regenerated from the source) -/
theorem dof_boot (d : Data α) :
    dofBoot .both d = min (d.rdesc.toFinset.card : Int) d.pdesc.toFinset.card - 1 ∧
    dofBoot .rdm d = (d.rdesc.toFinset.card : Int) - 1 ∧
    dofBoot .pattern d = (d.pdesc.toFinset.card : Int) - 1 := by
  simp only [dofBoot, groupsR, groupsP, groups_card, Rsa.Gen.C04.dofBootstrap,
    Rsa.Gen.C04.dofBootstrapRdm, Rsa.Gen.C04.dofBootstrapPattern, and_self]

/-- the same for the cross-validated bootstraps and the dual bootstrap -/
theorem dof_cv (d : Data α) :
    dofCv .both d = min (d.rdesc.toFinset.card : Int) d.pdesc.toFinset.card - 1 ∧
    dofCv .rdm d = (d.rdesc.toFinset.card : Int) - 1 ∧
    dofCv .pattern d = (d.pdesc.toFinset.card : Int) - 1 ∧
    dofRandom .both d = min (d.rdesc.toFinset.card : Int) d.pdesc.toFinset.card - 1 ∧
    dofRandom .rdm d = (d.rdesc.toFinset.card : Int) - 1 ∧
    dofRandom .pattern d = (d.pdesc.toFinset.card : Int) - 1 ∧
    Rsa.Gen.C04.dofDual ((groupsR d).length : Int) ((groupsP d).length : Int) =
      min (d.rdesc.toFinset.card : Int) d.pdesc.toFinset.card - 1 := by
  simp only [dofCv, dofRandom, groupsR, groupsP, groups_card, Rsa.Gen.C04.dofCvBoth,
    Rsa.Gen.C04.dofCvRdm, Rsa.Gen.C04.dofCvPattern, Rsa.Gen.C04.dofRandomBoth,
    Rsa.Gen.C04.dofRandomRdm, Rsa.Gen.C04.dofRandomPattern, Rsa.Gen.C04.dofDual, and_self]

/-- fixed evaluation: every RDM is a unit; dof = number of RDMs − 1 (0 for a single RDM) -/
theorem dof_fixed (m : List α → List α → α) (ncf : NcReq α → α × α) (d : Data α)
    (preds : List (List α)) :
    (evalFixed m ncf d preds).dof = if 1 < d.vecs.length then (d.vecs.length : Int) - 1 else 0 := by
  simp only [evalFixed, Rsa.Gen.C04.dofFixed, Rsa.Gen.C04.dofFixedSingle]

/-! ### cross-validation: one fold -/

/-- an evaluated fold: per model the mean, over the RDMs of the test set, of the similarity between
    the prediction at the parameters *fitted on this fold's training piece* — restricted with the
    test pattern indices — and that test RDM restricted to the test conditions -/
theorem cv_fold_entry (m : List α → List α → α) (fit : Nat → Piece α → Θ)
    (predict : Nat → Θ → List α) (d : Data α) (nModels : Nat) (f : FoldV)
    (h : foldNaN f = false) (j : Nat) (hj : j < nModels) :
    (cvFold m fit predict d nModels f)[j]? =
      some (some (mean ((pick d.vecs f.test.rows).map (fun v =>
        m (dropNone (restrict d.nCond (patSelection d.pdesc f.testIdx)
            (predict j (fit j { obj := content d false f.train, pidx := f.trainIdx }))))
          (dropNone (restrict d.nCond f.test.conds v)))))) := by
  simp only [cvFold, h, Bool.false_eq_true, if_false, List.getElem?_map, List.getElem?_range hj,
    Option.map_some, evalAt, viewVecs, List.map_map]
  rfl

/-- a fold with an empty set or at most two conditions on either side is NaN for every model -/
theorem cv_fold_nan (m : List α → List α → α) (fit : Nat → Piece α → Θ)
    (predict : Nat → Θ → List α) (d : Data α) (nModels : Nat) (f : FoldV)
    (h : foldNaN f = true) :
    cvFold m fit predict d nModels f = List.replicate nModels none := by
  simp only [cvFold, h, if_true]
  apply List.ext_getElem?
  intro k
  by_cases hk : k < nModels
  · simp [List.getElem?_map, List.getElem?_range hk, List.getElem?_replicate, hk]
  · simp [List.getElem?_map, List.getElem?_replicate, hk, List.getElem?_eq_none]

/-- two data sets agree on a view: same sizes and groupings, and the same dissimilarity between
    any two conditions of the view in every RDM of the view (anything else may differ) -/
def AgreeOn (d d' : Data α) (v : View) : Prop :=
  d.nCond = d'.nCond ∧ d.rdesc = d'.rdesc ∧ d.pdesc = d'.pdesc ∧
  ∀ r ∈ v.rows, ∃ w w', d.vecs[r]? = some w ∧ d'.vecs[r]? = some w' ∧
    ∀ a ∈ v.conds, ∀ b ∈ v.conds,
      vecToMat d.nCond none none (w.map some) a b = vecToMat d.nCond none none (w'.map some) a b

/-- the parameters used for a fold are `fit` of that fold's training piece, and the training
    piece is a function of the training RDMs' dissimilarities among training conditions only:
    changing any other entry of the data (all test entries in particular) leaves them unchanged -/
theorem theta_from_train_only (fit : Nat → Piece α → Θ) (d d' : Data α) (f : FoldV) (j : Nat)
    (h : AgreeOn d d' f.train) :
    fit j { obj := content d false f.train, pidx := f.trainIdx } =
      fit j { obj := content d' false f.train, pidx := f.trainIdx } := by
  obtain ⟨hn, hr, hp, hv⟩ := h
  have hvv : viewVecs d f.train = viewVecs d' f.train := by
    simp only [viewVecs, pick, List.map_filterMap, ← hn]
    apply List.filterMap_congr
    intro r hrm
    obtain ⟨w, w', hw, hw', hab⟩ := hv r hrm
    rw [hw, hw']
    simp only [Option.map_some]
    exact congrArg some (restrict_congr _ _ _ _ hab)
  simp only [content, hvv, hr, hp]

/-! ### cross-validation inside a resample: separation and alignment -/

/-- disjoint value lists of a fold give disjoint *original* groups: no RDM (condition) of the
    test set belongs to the descriptor group of an RDM (condition) of the training set — in
    particular no resampled copy of a test item is in the training set -/
theorem cv_train_test_disjoint (d : Data α) (sv : View) (pi : Option (List Nat))
    (vf : Rsa.Folds.VFold) :
    (∀ tr te, vf.rTrain = some tr → vf.rTest = some te → List.Disjoint tr te →
      ∀ a ∈ (foldOn sv pi (Rsa.Folds.realize (objOf d sv) vf)).test.rows,
      ∀ b ∈ (foldOn sv pi (Rsa.Folds.realize (objOf d sv) vf)).train.rows,
        d.rdesc.getD a 0 ≠ d.rdesc.getD b 0) ∧
    (∀ tr te, vf.pTrain = some tr → vf.pTest = some te → List.Disjoint tr te →
      ∀ a ∈ (foldOn sv pi (Rsa.Folds.realize (objOf d sv) vf)).test.conds,
      ∀ b ∈ (foldOn sv pi (Rsa.Folds.realize (objOf d sv) vf)).train.conds,
        d.pdesc.getD a 0 ≠ d.pdesc.getD b 0) := by
  have hd := Rsa.Props.C05.realize_disjoint (objOf d sv) vf
  constructor
  · intro tr te htr hte hdis a ha b hb
    obtain ⟨x, hx, hxa⟩ := compose_rows_desc d sv _ ha
    obtain ⟨y, hy, hyb⟩ := compose_rows_desc d sv _ hb
    rw [← hxa, ← hyb]
    exact hd.1 tr te htr hte hdis x hx y hy
  · intro tr te htr hte hdis a ha b hb
    obtain ⟨x, hx, hxa⟩ := compose_conds_desc d sv _ ha
    obtain ⟨y, hy, hyb⟩ := compose_conds_desc d sv _ hb
    rw [← hxa, ← hyb]
    exact hd.2 tr te htr hte hdis x hx y hy

/-- the folds `sets_k_fold` makes from duplicate-free shuffles do have disjoint value lists as soon
    as the factor is split (`k > 1`) -/
theorem cv_kfold_values_disjoint (rsel : List Nat) (kr : Nat) (psels : List (List Nat)) (kp : Nat)
    (vf : Rsa.Folds.VFold) (hvf : vf ∈ Rsa.Folds.kFoldV rsel kr psels kp) :
    (rsel.Nodup → 1 < kr → kr ≤ rsel.length →
      ∃ tr te, vf.rTrain = some tr ∧ vf.rTest = some te ∧ List.Disjoint tr te) ∧
    ((∀ ps ∈ psels, ps.Nodup ∧ kp ≤ ps.length) → 1 < kp →
      ∃ tr te, vf.pTrain = some tr ∧ vf.pTest = some te ∧ List.Disjoint tr te) := by
  rw [Rsa.Props.C05.kfold_both_spec, List.mem_flatMap] at hvf
  obtain ⟨gp, hgp, hvf⟩ := hvf
  rw [List.mem_map] at hvf
  obtain ⟨h, hh, rfl⟩ := hvf
  have hg : gp.1 < kr := List.mem_range.mp (List.of_mem_zip hgp).1
  have hps : gp.2 ∈ psels := (List.of_mem_zip hgp).2
  have hh' : h < kp := List.mem_range.mp hh
  constructor
  · intro hn hk hkn
    exact ⟨_, _, rfl, rfl,
      ((Rsa.Props.C05.split_vals_train_compl rsel kr gp.1 hn (by omega) hkn hg).1 hk).1⟩
  · intro hall hk
    obtain ⟨hn, hkn⟩ := hall _ hps
    exact ⟨_, _, rfl, rfl,
      ((Rsa.Props.C05.split_vals_train_compl gp.2 kp h hn (by omega) hkn hh').1 hk).1⟩

/-- the conditions of a resample are what `subsample_pattern` selects for the pattern indices the
    evaluator passes on — also when only RDMs are resampled (`np.unique` of the descriptor) -/
theorem sample_conds_are_selection (bt : BootType) (d : Data α) (hd : d.WF) (dr : Draw) :
    (sampleOf bt d dr).1.conds = patSelection d.pdesc (sampleOf bt d dr).2.2 := by
  cases bt
  · rfl
  · simp only [sampleOf, groupsP]
    rw [patSelection_uniq, hd.pdesc_len]
  · rfl

/-- inside a resample the prediction and the test (resp. training) object list the same
    conditions in the same order: restricting the prediction with the expanded pattern indices
    (`_concat_sampling`) selects exactly the conditions — with the bootstrap multiplicities — that
    `subset_pattern` kept in the test (training) object.  Hence the comparison is entry-aligned. -/
theorem cv_pred_aligned (d : Data α) (sv : View) (pi : List Nat)
    (hsv : sv.conds = patSelection d.pdesc pi) (vf : Rsa.Folds.VFold) :
    (∀ vals, vf.pTest = some vals → vals.Nodup →
      patSelection d.pdesc (foldOn sv (some pi) (Rsa.Folds.realize (objOf d sv) vf)).testIdx =
        (foldOn sv (some pi) (Rsa.Folds.realize (objOf d sv) vf)).test.conds) ∧
    (∀ vals, vf.pTrain = some vals → vals.Nodup →
      patSelection d.pdesc (foldOn sv (some pi) (Rsa.Folds.realize (objOf d sv) vf)).trainIdx =
        (foldOn sv (some pi) (Rsa.Folds.realize (objOf d sv) vf)).train.conds) := by
  constructor
  · intro vals hv hn
    simp only [foldOn, Rsa.Folds.realize, hv]
    rw [compose_conds_some, hsv]
    simp only [Rsa.Folds.mkPart]
    exact patSelection_concat d.pdesc pi vals hn
  · intro vals hv hn
    simp only [foldOn, Rsa.Folds.realize, hv]
    rw [compose_conds_some, hsv]
    simp only [Rsa.Folds.mkPart]
    exact patSelection_concat d.pdesc pi vals hn

/-! ### bootstrap-wrapped cross-validation -/

/-- `_internal_cv`: the folds are those of `sets_k_fold` on the resample, every fold is evaluated
    by `cv_fold_entry` with its pattern indices expanded by the bootstrap multiplicities, and the
    noise ceiling is computed on the same resample and the same folds -/
theorem internal_cv_spec (m : List α → List α → α) (fit : Nat → Piece α → Θ)
    (predict : Nat → Θ → List α) (ncf : NcReq α → α × α) (d : Data α) (nModels : Nat) (sv : View)
    (pi : List Nat) (kr kp : Nat) (cd : CvDraw) :
    (internalCv m fit predict ncf d nModels sv pi kr kp cd).1 =
      ((Rsa.Folds.kFoldV cd.rsel kr cd.psels kp).map (fun vf =>
        cvFold m fit predict d nModels
          (foldOn sv (some pi) (Rsa.Folds.realize (objOf d sv) vf)))) ∧
    (internalCv m fit predict ncf d nModels sv pi kr kp cd).2 =
      (if 1 < kr ∨ 1 < kp then
        ncf (cvNcReq d sv ((Rsa.Folds.kFoldV cd.rsel kr cd.psels kp).map
          (Rsa.Folds.realize (objOf d sv))))
       else ncf (.boot (content d false sv))) := by
  constructor
  · simp only [internalCv, List.map_map]
    rfl
  · simp only [internalCv]

/-- usable resample: `n_cv` repetitions of the cross-validation of that resample, each with the
    resample's own pattern indices -/
theorem bcv_entry (m : List α → List α → α) (fit : Nat → Piece α → Θ)
    (predict : Nat → Θ → List α) (ncf : NcReq α → α × α) (bt : BootType) (d : Data α)
    (nModels kr kp : Nat) (dr : Draw) (reps : List CvDraw)
    (h : cvUsable kr kp (sampleOf bt d dr).2.1 (sampleOf bt d dr).2.2 = true) :
    bcvRow m fit predict ncf bt d nModels kr kp dr reps =
      some (reps.map (internalCv m fit predict ncf d nModels (sampleOf bt d dr).1
        (sampleOf bt d dr).2.2 kr kp)) := by
  simp [bcvRow, h]

/-- a resample with fewer RDM groups than folds, or fewer than three condition groups per
    pattern fold, is marked NaN as a whole (evaluations and ceilings) -/
theorem bcv_nan_row (m : List α → List α → α) (fit : Nat → Piece α → Θ)
    (predict : Nat → Θ → List α) (ncf : NcReq α → α × α) (bt : BootType) (d : Data α)
    (nModels kr kp : Nat) (dr : Draw) (reps : List CvDraw)
    (h : cvUsable kr kp (sampleOf bt d dr).2.1 (sampleOf bt d dr).2.2 = false) :
    bcvRow m fit predict ncf bt d nModels kr kp dr reps = none ∧
    cvRowOk (bcvRow m fit predict ncf bt d nModels kr kp dr reps) = false := by
  simp [bcvRow, h, cvRowOk]

/-- dual bootstrap: the same draw evaluated on the resample of both factors, of the RDMs only
    (all conditions, pattern indices = all groups) and of the conditions only (all RDMs) -/
theorem dual_entry (m : List α → List α → α) (fit : Nat → Piece α → Θ)
    (predict : Nat → Θ → List α) (ncf : NcReq α → α × α) (d : Data α)
    (nModels kr kp : Nat) (dr : Draw) (reps : List (List CvDraw)) :
    (cvUsable kr kp (sampleOf .both d dr).2.1 (sampleOf .both d dr).2.2 = true →
      dualRow m fit predict ncf d nModels kr kp dr reps =
        [some (reps.map (fun cds => internalCv m fit predict ncf d nModels (sampleOf .both d dr).1
            (sampleOf .both d dr).2.2 kr kp (cds.getD 0 default))),
         some (reps.map (fun cds => internalCv m fit predict ncf d nModels
            { rows := (sampleOf .both d dr).1.rows, conds := List.range d.nCond } (groupsP d)
            kr kp (cds.getD 1 default))),
         some (reps.map (fun cds => internalCv m fit predict ncf d nModels
            { rows := List.range d.vecs.length, conds := (sampleOf .both d dr).1.conds }
            (sampleOf .both d dr).2.2 kr kp (cds.getD 2 default)))]) ∧
    (cvUsable kr kp (sampleOf .both d dr).2.1 (sampleOf .both d dr).2.2 = false →
      dualRow m fit predict ncf d nModels kr kp dr reps = [none, none, none]) := by
  constructor
  · intro h
    simp [dualRow, h, dualSamples, List.zip, List.range, List.range.loop]
  · intro h
    simp [dualRow, h]

/-- random test sets inside a resample: fold `c` tests on the first `n_rdm` / `n_pattern` values
    of the `c`-th pair of shuffles and trains on the rest; one ceiling for the resample -/
theorem random_entry (m : List α → List α → α) (fit : Nat → Piece α → Θ)
    (predict : Nat → Θ → List α) (ncf : NcReq α → α × α) (bt : BootType) (d : Data α)
    (nModels nr np : Nat) (dr : Draw) (sh : List (List Nat × List Nat)) :
    (randomUsable nr np (sampleOf bt d dr).2.1 (sampleOf bt d dr).2.2 = true →
      randomRow m fit predict ncf bt d nModels nr np dr sh =
        some ((Rsa.Folds.randomV sh nr np).map (fun vf =>
          ([cvFold m fit predict d nModels
              (foldOn (sampleOf bt d dr).1 (some (sampleOf bt d dr).2.2)
                (Rsa.Folds.realize (objOf d (sampleOf bt d dr).1) vf))],
           if 0 < nr ∨ 0 < np then
             ncf (cvNcReq d (sampleOf bt d dr).1 ((Rsa.Folds.randomV sh nr np).map
               (Rsa.Folds.realize (objOf d (sampleOf bt d dr).1))))
           else ncf (.boot (content d false (sampleOf bt d dr).1)))))) ∧
    (randomUsable nr np (sampleOf bt d dr).2.1 (sampleOf bt d dr).2.2 = false →
      randomRow m fit predict ncf bt d nModels nr np dr sh = none) := by
  constructor
  · intro h
    simp [randomRow, h, List.map_map, Function.comp_def]
  · intro h
    simp [randomRow, h]

/-- bootstrap with left-out test set: train on the resample, test on exactly the RDM groups and
    condition groups that were not drawn; every model gets its own evaluation -/
theorem testset_entry (m : List α → List α → α) (fit : Nat → Piece α → Θ)
    (predict : Nat → Θ → List α) (d : Data α) (nModels : Nat) (dr : Draw) :
    (testsetRow m fit predict .both d nModels dr).2 =
      ((leftOut d.rdesc (sampleOf .both d dr).2.1).length,
       (leftOut d.pdesc (sampleOf .both d dr).2.2).length) ∧
    (1 ≤ (leftOut d.rdesc (sampleOf .both d dr).2.1).length →
     3 ≤ (leftOut d.pdesc (sampleOf .both d dr).2.2).length →
      (testsetRow m fit predict .both d nModels dr).1 =
        cvFold m fit predict d nModels
          { train := (sampleOf .both d dr).1, trainIdx := (sampleOf .both d dr).2.2
            test := { rows := rdmSelection d.rdesc (leftOut d.rdesc (sampleOf .both d dr).2.1)
                      conds := patSelection d.pdesc (leftOut d.pdesc (sampleOf .both d dr).2.2) }
            testIdx := leftOut d.pdesc (sampleOf .both d dr).2.2 }) ∧
    (∀ g ∈ leftOut d.rdesc (sampleOf .both d dr).2.1, g ∈ d.rdesc ∧ g ∉ (sampleOf .both d dr).2.1) := by
  refine ⟨rfl, ?_, ?_⟩
  · intro h1 h3
    simp [testsetRow, h1, h3]
  · intro g hg
    simp only [leftOut, List.mem_filter, mem_uniq, Bool.not_eq_true', List.contains_eq_mem,
      decide_eq_false_iff_not] at hg
    exact hg

/-- the ceilings of the cross-validated bootstraps are those of the same resample objects and of
    the same folds whose evaluations are stored -/
theorem noise_ceiling_same_resample_cv (m : List α → List α → α) (fit : Nat → Piece α → Θ)
    (predict : Nat → Θ → List α) (ncf : NcReq α → α × α) (bt : BootType) (d : Data α)
    (nModels kr kp : Nat) (dr : Draw) (reps : List CvDraw)
    (h : cvUsable kr kp (sampleOf bt d dr).2.1 (sampleOf bt d dr).2.2 = true)
    (c : Nat) (cd : CvDraw) (hc : reps[c]? = some cd) :
    ∃ row, bcvRow m fit predict ncf bt d nModels kr kp dr reps = some row ∧
      row[c]? = some
        (((Rsa.Folds.kFoldV cd.rsel kr cd.psels kp).map (fun vf =>
            cvFold m fit predict d nModels
              (foldOn (sampleOf bt d dr).1 (some (sampleOf bt d dr).2.2)
                (Rsa.Folds.realize (objOf d (sampleOf bt d dr).1) vf)))),
         (if 1 < kr ∨ 1 < kp then
            ncf (cvNcReq d (sampleOf bt d dr).1 ((Rsa.Folds.kFoldV cd.rsel kr cd.psels kp).map
              (Rsa.Folds.realize (objOf d (sampleOf bt d dr).1))))
          else ncf (.boot (content d false (sampleOf bt d dr).1)))) := by
  refine ⟨_, bcv_entry m fit predict ncf bt d nModels kr kp dr reps h, ?_⟩
  rw [List.getElem?_map, hc, Option.map_some]
  have := internal_cv_spec m fit predict ncf d nModels (sampleOf bt d dr).1 (sampleOf bt d dr).2.2
    kr kp cd
  exact congrArg some (Prod.ext this.1 this.2)

/-- only usable resamples enter the covariance of the cross-validated bootstrap: every kept row
    is the result of a usable draw, NaN rows are dropped -/
theorem nan_samples_excluded_cv (m : List α → List α → α) (fit : Nat → Piece α → Θ)
    (predict : Nat → Θ → List α) (ncf : NcReq α → α × α) (bt : BootType) (d : Data α)
    (nModels kr kp nCv : Nat) (uc : Bool) (draws : List (Draw × List CvDraw)) :
    (bootstrapCrossval m fit predict ncf bt d nModels kr kp nCv uc draws).cov =
      cvCov sampleCov Rsa.Gen.C04.cvCorrection nModels nCv uc
        (okReps (draws.map (fun dc => bcvRow m fit predict ncf bt d nModels kr kp dc.1 dc.2))) ∧
    ∀ row ∈ okReps (draws.map (fun dc => bcvRow m fit predict ncf bt d nModels kr kp dc.1 dc.2)),
      ∃ dc ∈ draws, cvUsable kr kp (sampleOf bt d dc.1).2.1 (sampleOf bt d dc.1).2.2 = true ∧
        bcvRow m fit predict ncf bt d nModels kr kp dc.1 dc.2 = some row := by
  refine ⟨rfl, ?_⟩
  intro row hrow
  simp only [okReps, List.mem_filterMap, List.mem_filter, List.mem_map, id] at hrow
  obtain ⟨x, ⟨⟨dc, hdc, rfl⟩, _⟩, hx⟩ := hrow
  refine ⟨dc, hdc, ?_, hx⟩
  by_contra hu
  have hf : cvUsable kr kp (sampleOf bt d dc.1).2.1 (sampleOf bt d dc.1).2.2 = false := by
    simpa using hu
  rw [(bcv_nan_row m fit predict ncf bt d nModels kr kp dc.1 dc.2 hf).1] at hx
  cases hx

/-! ### determinism -/

/-- the routines are functions of (data, predictions or fitter, ceiling function, draws): two runs
    that see the same draws return the same result.  (On the code: all randomness comes from
    `numpy.random`; the harness re-runs every case with the same seed.) -/
theorem eval_deterministic (m : List α → List α → α) (fit : Nat → Piece α → Θ)
    (predict : Nat → Θ → List α) (ncf : NcReq α → α × α) (bt : BootType) (bootNc mo uc : Bool)
    (d : Data α) (preds : List (List α)) (nModels kr kp nCv : Nat)
    (dr dr' : List Draw) (dc dc' : List (Draw × List CvDraw)) (hdr : dr = dr') (hdc : dc = dc') :
    evalBootstrap m ncf bt bootNc mo d preds dr = evalBootstrap m ncf bt bootNc mo d preds dr' ∧
    bootstrapCrossval m fit predict ncf bt d nModels kr kp nCv uc dc =
      bootstrapCrossval m fit predict ncf bt d nModels kr kp nCv uc dc' := by
  subst hdr; subst hdc; exact ⟨rfl, rfl⟩

end generic

/-! ### the `n_cv` correction, over an ordered field -/

section field
variable {K : Type} [Field K] [LinearOrder K] [IsStrictOrderedRing K]

/-- the regenerated correction formulas of the three routines are `(n·V̄ − V₁)/(n − 1)`; if the
    variance of a single repetition is `v + w` (between-resample variance `v` plus
    cross-validation noise `w`) and that of the mean of `n` repetitions `v + w/n`, the corrected
    value is `v`: the projection to infinitely many repetitions -/
theorem cv_correction_spec (n : Nat) (hn : 2 ≤ n) (vm v1 v w : K) :
    Rsa.Gen.C04.cvCorrection n vm v1 = ((n : K) * vm - v1) / ((n : K) - 1) ∧
    Rsa.Gen.C04.cvCorrectionDual n vm v1 = ((n : K) * vm - v1) / ((n : K) - 1) ∧
    Rsa.Gen.C04.cvCorrectionRandom n vm v1 = ((n : K) * vm - v1) / ((n : K) - 1) ∧
    Rsa.Gen.C04.cvCorrection n (v + w / (n : K)) (v + w) = v := by
  have h1 : ((n - 1 : Nat) : K) = (n : K) - 1 := by
    rw [Nat.cast_sub (by omega), Nat.cast_one]
  have hn0 : (n : K) ≠ 0 := by
    have : (0 : K) < (n : K) := by exact_mod_cast (by omega : 0 < n)
    exact ne_of_gt this
  have hn1 : (n : K) - 1 ≠ 0 := by
    have : (1 : K) < (n : K) := by exact_mod_cast (by omega : 1 < n)
    linarith [this]
  refine ⟨?_, ?_, ?_, ?_⟩
  · simp only [Rsa.Gen.C04.cvCorrection, h1]
  · simp only [Rsa.Gen.C04.cvCorrectionDual, h1]
  · simp only [Rsa.Gen.C04.cvCorrectionRandom, h1]
  · simp only [Rsa.Gen.C04.cvCorrection, h1]
    field_simp
    ring

end field

/-! ### non-vacuity: concrete objects meeting the hypotheses -/

/-- 3 RDMs in 2 subject groups, 4 conditions in 3 categories -/
def exData : Data Rat :=
  { nCond := 4, vecs := [[1, 2, 3, 4, 5, 6], [2, 1, 4, 3, 6, 5], [6, 5, 4, 3, 2, 1]],
    rdesc := [0, 0, 1], pdesc := [0, 1, 1, 2] }

example : exData.WF := ⟨by decide, by decide, by decide⟩

theorem ex_groupsR : groupsR exData = [0, 1] :=
  uniq_nat_eq_of [0, 0, 1] [0, 1] (by decide) (by decide)
theorem ex_groupsP : groupsP exData = [0, 1, 2] :=
  uniq_nat_eq_of [0, 1, 1, 2] [0, 1, 2] (by decide) (by decide)

def exDraw : Draw := { r := [1, 0], p := [0, 2, 1] }

/-- the resample of that draw: RDM 2, then RDMs 0 and 1; all four conditions -/
theorem ex_sample : sampleOf .both exData exDraw =
    ({ rows := [2, 0, 1], conds := [0, 1, 2, 3] }, [1, 0], [0, 2, 1]) := by
  simp only [sampleOf, ex_groupsR, ex_groupsP]
  have h : patSelection exData.pdesc (bootIdx [0, 1, 2] exDraw.p) = [0, 1, 2, 3] :=
    patSelection_eq_of _ _ _ (by decide) (by decide)
  rw [h]
  decide

theorem ex_usable : BootType.both = .rdm ∨ 3 ≤ nUnique (sampleOf .both exData exDraw).2.2 := by
  right
  rw [ex_sample]
  have : uniq natLe [0, 2, 1] = [0, 1, 2] := uniq_nat_eq_of [0, 2, 1] [0, 1, 2] (by decide) (by decide)
  simp [nUnique, this]

/-- a draw that repeats one category only is not usable -/
example : ¬ (BootType.both = .rdm ∨
    3 ≤ nUnique (sampleOf .both exData { r := [0, 1], p := [1, 1, 1] }).2.2) := by
  simp only [sampleOf, ex_groupsR, ex_groupsP]
  have : uniq natLe (bootIdx [0, 1, 2] [1, 1, 1]) = [1] :=
    uniq_nat_eq_of _ [1] (by decide) (by decide)
  simp [nUnique, this]

/-- a fold with duplicate-free, disjoint value lists (hypotheses of `cv_train_test_disjoint`,
    `cv_kfold_values_disjoint`, `cv_pred_aligned`) -/
example : [1, 0].Nodup ∧ 1 < 2 ∧ 2 ≤ [1, 0].length ∧ [2, 0, 1].Nodup ∧ 1 ≤ [2, 0, 1].length ∧
    List.Disjoint [0] [1] := by
  refine ⟨by decide, by decide, by decide, by decide, by decide, ?_⟩
  simp [List.Disjoint]

/-- two data sets that differ only in an entry between a training and a test condition agree on
    the training view (RDMs 0, 1; conditions 0, 1, 2) -/
example : AgreeOn exData { exData with vecs := [[1, 2, 9, 4, 5, 6], [2, 1, 4, 3, 6, 5], [0, 0, 0, 0, 0, 0]] }
    { rows := [0, 1], conds := [0, 1, 2] } := by
  refine ⟨rfl, rfl, rfl, ?_⟩
  intro r hr
  simp only [List.mem_cons, List.not_mem_nil, or_false] at hr
  rcases hr with rfl | rfl
  · refine ⟨_, _, rfl, rfl, ?_⟩
    intro a ha b hb
    simp only [List.mem_cons, List.not_mem_nil, or_false] at ha hb
    rcases ha with rfl | rfl | rfl <;> rcases hb with rfl | rfl | rfl <;> decide
  · refine ⟨_, _, rfl, rfl, ?_⟩
    intro a ha b hb
    rfl

/-- `cv_correction_spec` with two repetitions: `2·(v + w/2) − (v + w) = v` -/
example : Rsa.Gen.C04.cvCorrection 2 ((3 : Rat) + 4 / 2) (3 + 4) = 3 :=
  (cv_correction_spec 2 (by decide) 0 0 3 4).2.2.2

end Rsa.Props.C04
