/-
  Property C04 — each stored evaluation is the direct comparison of prediction and resampled data.
  Property theorems only; helper lemmas live in Rsa/Lemmas/C04.lean.

  Every theorem is about the executable model `Rsa.Core.Eval` (the functions the driver runs
  against the real rsatoolbox on every check) and holds for every data stack, every grouping, every
  similarity measure `m`, every fitter `fit` / `predict`, every noise-ceiling function `ncf` and
  every outcome of the random draws (`Draw`, `CvDraw`, shuffle lists) — they are universally
  quantified arguments.
-/
import Mathlib.Algebra.Order.Field.Basic
import Mathlib.Tactic.FieldSimp
import Mathlib.Tactic.Ring
import Mathlib.Tactic.Linarith
import Mathlib.Data.Rat.Defs
import Mathlib.Algebra.Order.Field.Rat
import Rsa.Lemmas.C04
import Rsa.Props.C05
import Rsa.Core.C04Result
import Rsa.Core.Stats

set_option linter.unusedSectionVars false
set_option linter.unusedVariables false
set_option linter.unusedSimpArgs false

namespace Rsa.Props.C04

open Rsa Rsa.Boot Rsa.Eval

section generic
variable {α : Type} [Add α] [Sub α] [Mul α] [Div α] [Neg α] [Zero α] [One α] [NatCast α]
  [LT α] [DecidableLT α] [LE α] [DecidableLE α] [Max α] [Min α] {Θ : Type}

/-! ### restriction of a vector to resampled conditions -/

/-- entry `(i, j)` of a vector restricted to the (ascending) selection `sel`: missing when both
    positions are copies of one original condition, else the source entry of the two original
    conditions — for predictions and data alike -/
theorem restrict_entry (n : Nat) (sel : List Nat) (w : List α)
    (hs : sel.Pairwise (· ≤ ·)) (i j : Nat) (hij : i < j) (hj : j < sel.length) :
    (restrict n sel w)[triIdx sel.length i j]? =
      some (if sel[i]'(by omega) = sel[j] then none
            else w[triIdx n (sel[i]'(by omega)) sel[j]]?) := by
  unfold restrict
  rw [subVec_getElem? n sel _ hs i j hij hj]
  simp only [List.getD_eq_getElem?_getD, List.getElem?_map]
  congr 1
  split
  · rfl
  · cases w[triIdx n (sel[i]'(by omega)) sel[j]]? <;> rfl

/-- prediction and data restricted with the same selection are missing at the same positions, so
    dropping the missing entries keeps the two vectors entry-aligned -/
theorem restrict_mask_aligned (n : Nat) (sel : List Nat) (p v : List α)
    (hp : p.length = triLen n) (hv : v.length = triLen n) (hs : ∀ c ∈ sel, c < n) :
    (restrict n sel p).map Option.isSome = (restrict n sel v).map Option.isSome := by
  rw [restrict_mask n sel p hp hs, restrict_mask n sel v hv hs]

/-! ### the bootstrap sample is the one of property C09 -/

/-- the data as an RDM stack of `Rsa.Core.Boot` -/
def stackOf (d : Data α) : Stack Nat α :=
  { nCond := d.nCond, vecs := d.vecs.map (fun v => v.map some)
    rdmDesc := [("rdm", d.rdesc)], patDesc := [("pattern", d.pdesc)] }

/-- the view used by the evaluators holds exactly the dissimilarities and returns exactly the
    index lists of `bootstrap_sample` as modelled (and proved faithful) for property C09 -/
theorem sample_is_boot_sample (d : Data α) (dr : Draw) :
    ∃ s, bootstrapSample natLe (stackOf d) "rdm" "pattern" dr.r dr.p =
        some (s, (sampleOf .both d dr).2.1, (sampleOf .both d dr).2.2) ∧
      s.vecs = viewVecs d (sampleOf .both d dr).1 ∧
      s.nCond = (sampleOf .both d dr).1.conds.length := by
  have hr : (stackOf d).rdmDesc.lookup "rdm" = some d.rdesc := by simp [stackOf, List.lookup]
  have hp : (stackOf d).patDesc.lookup "pattern" = some d.pdesc := by simp [stackOf, List.lookup]
  unfold bootstrapSample
  rw [hr, hp]
  simp only [Stack.subsample, hr, Stack.subsamplePattern, hp, Option.map_some]
  refine ⟨_, rfl, ?_, rfl⟩
  simp only [viewVecs, sampleOf, restrict, groupsR, groupsP, stackOf]
  rw [pick_map, List.map_map]
  rfl

/-- without pattern resampling nothing is restricted: the sample's RDMs are the drawn data RDMs
    themselves and the prediction is compared as a whole (`eval_bootstrap_rdm`) -/
theorem rdm_sample_unrestricted (m : List α → List α → α) (d : Data α) (hd : d.WF)
    (rows : List Nat) (p : List α) (hp : p.length = triLen d.nCond) :
    evalView m d { rows := rows, conds := List.range d.nCond } p =
      mean ((pick d.vecs rows).map (fun v => m p v)) := by
  simp only [evalView, evalAt, viewVecs, List.map_map]
  congr 1
  apply List.map_congr_left
  intro v hv
  obtain ⟨i, _, hi⟩ := mem_pick.mp hv
  have hlen : v.length = triLen d.nCond := hd.vec_len v (List.mem_of_getElem? hi)
  simp [score, restrict_range _ _ hp, restrict_range _ _ hlen, dropNone_map_some]

/-! ### bootstrap with given parameters -/

/-- usable sample: stored evaluation `(i, j)` is the mean, over the RDMs of resample `i` (every
    RDM of every drawn group, with multiplicity), of the similarity between prediction `j`
    restricted to exactly the drawn conditions and that data RDM restricted to them -/
theorem boot_entry (m : List α → List α → α) (ncf : NcReq α → α × α) (bt : BootType)
    (bootNc : Bool) (d : Data α) (preds : List (List α)) (dr : Draw)
    (h : bt = .rdm ∨ 3 ≤ nUnique (sampleOf bt d dr).2.2) (j : Nat) (p : List α)
    (hp : preds[j]? = some p) :
    (bootRow m ncf bt bootNc d preds dr).evals[j]? =
      some (some (mean ((pick d.vecs (sampleOf bt d dr).1.rows).map (fun v =>
        m (dropNone (restrict d.nCond (sampleOf bt d dr).1.conds p))
          (dropNone (restrict d.nCond (sampleOf bt d dr).1.conds v)))))) := by
  simp only [bootRow, if_pos ((usableBoot_iff _ _).mpr h), List.getElem?_map, hp, Option.map_some,
    evalView, evalAt, viewVecs, List.map_map]
  rfl

/-- the selections behind a resample of both factors: drawn group values in draw order, all
    their RDMs; the conditions of the drawn groups in ascending position -/
theorem boot_sample_both (d : Data α) (dr : Draw) :
    (sampleOf .both d dr).1.rows = rdmSelection d.rdesc (bootIdx (uniq natLe d.rdesc) dr.r) ∧
    (sampleOf .both d dr).1.conds = patSelection d.pdesc (bootIdx (uniq natLe d.pdesc) dr.p) ∧
    (sampleOf .rdm d dr).1.conds = List.range d.nCond ∧
    (sampleOf .pattern d dr).1.rows = List.range d.vecs.length :=
  ⟨rfl, rfl, rfl, rfl⟩

/-- a resample with fewer than 3 distinct condition groups is marked NaN in every model and
    carries no noise ceiling -/
theorem boot_nan_row (m : List α → List α → α) (ncf : NcReq α → α × α) (bt : BootType)
    (bootNc : Bool) (d : Data α) (preds : List (List α)) (dr : Draw)
    (h : ¬ (bt = .rdm ∨ 3 ≤ nUnique (sampleOf bt d dr).2.2)) :
    (∀ e ∈ (bootRow m ncf bt bootNc d preds dr).evals, e = none) ∧
    (bootRow m ncf bt bootNc d preds dr).evals.length = preds.length ∧
    (bootRow m ncf bt bootNc d preds dr).nc = none := by
  have h' : ¬ usableBoot bt (nUnique (sampleOf bt d dr).2.2) = true :=
    fun hu => h ((usableBoot_iff _ _).mp hu)
  simp only [bootRow, if_neg h']
  refine ⟨?_, by simp, trivial⟩
  intro e he
  simp only [List.mem_map] at he
  obtain ⟨_, _, rfl⟩ := he
  rfl

/-- the rows of the result are computed one draw at a time: row `i` depends on draw `i` only -/
theorem boot_rows_independent (m : List α → List α → α) (ncf : NcReq α → α × α) (bt : BootType)
    (bootNc mo : Bool) (d : Data α) (preds : List (List α)) (draws : List Draw) (i : Nat) :
    (evalBootstrap m ncf bt bootNc mo d preds draws).rows[i]? =
      draws[i]?.map (bootRow m ncf bt bootNc d preds) := by
  simp [evalBootstrap]

/-- with `boot_noise_ceil` the ceiling stored for resample `i` is the ceiling function applied to
    the very resample whose evaluations are stored in row `i`; without it, to the whole data -/
theorem noise_ceiling_same_resample (m : List α → List α → α) (ncf : NcReq α → α × α)
    (bt : BootType) (mo : Bool) (d : Data α) (preds : List (List α)) (draws : List Draw)
    (dr : Draw) (h : bt = .rdm ∨ 3 ≤ nUnique (sampleOf bt d dr).2.2) :
    (bootRow m ncf bt true d preds dr).nc =
      some (ncf (.boot (content d false (sampleOf bt d dr).1))) ∧
    (bootRow m ncf bt true d preds dr).evals =
      preds.map (fun p => some (evalView m d (sampleOf bt d dr).1 p)) ∧
    (evalBootstrap m ncf bt false mo d preds draws).ncData =
      some (ncf (.boot (content d false (fullView d)))) := by
  simp [bootRow, if_pos ((usableBoot_iff _ _).mpr h), evalBootstrap]

/-! ### NaN resamples are excluded from the covariance -/

/-- usable draws of a routine (`eval_bootstrap_rdm` accepts every draw) -/
def usableDraw (bt : BootType) (d : Data α) (dr : Draw) : Bool :=
  decide (bt = .rdm ∨ 3 ≤ nUnique (sampleOf bt d dr).2.2)

/-- the `eval_ok` mask coincides with "the draw was usable" -/
theorem boot_row_ok_iff (m : List α → List α → α) (ncf : NcReq α → α × α) (bt : BootType)
    (bootNc : Bool) (d : Data α) (preds : List (List α)) (hp : preds ≠ []) (dr : Draw) :
    headOk (bootRow m ncf bt bootNc d preds dr).evals = usableDraw bt d dr := by
  unfold usableDraw bootRow
  obtain ⟨p, ps, rfl⟩ := List.exists_cons_of_ne_nil hp
  by_cases h : bt = .rdm ∨ 3 ≤ nUnique (sampleOf bt d dr).2.2
  · simp [h, headOk, (usableBoot_iff _ _).mpr h]
  · have h' : usableBoot bt (nUnique (sampleOf bt d dr).2.2) = false := by
      cases hu : usableBoot bt (nUnique (sampleOf bt d dr).2.2)
      · rfl
      · exact absurd ((usableBoot_iff _ _).mp hu) h
    simp [h, headOk, h']

/-- the stored covariance is the sample covariance (`np.cov`) of the per-resample values of the
    *usable* resamples only: the rows marked NaN do not enter -/
theorem nan_samples_excluded (m : List α → List α → α) (ncf : NcReq α → α × α) (bt : BootType)
    (bootNc mo : Bool) (d : Data α) (preds : List (List α)) (hp : preds ≠ [])
    (draws : List Draw) (hbt : ¬ (bt = .rdm ∧ mo = true)) :
    (evalBootstrap m ncf bt bootNc mo d preds draws).cov =
      sampleCov (preds.length + (if bootNc then 2 else 0))
        (((draws.filter (usableDraw bt d)).map (bootRow m ncf bt bootNc d preds)).map
          (fun r => r.obs bootNc)) := by
  simp only [evalBootstrap, if_neg hbt]
  congr 2
  rw [List.filter_map]
  congr 1
  apply List.filter_congr
  intro dr _
  exact boot_row_ok_iff m ncf bt bootNc d preds hp dr

/-- `eval_bootstrap_rdm` as coded today stores the covariance of the model columns over all its
    resamples (none of which is ever NaN): the same sample covariance, without ceiling rows -/
theorem nan_samples_excluded_rdm (m : List α → List α → α) (ncf : NcReq α → α × α)
    (bootNc : Bool) (d : Data α) (preds : List (List α)) (draws : List Draw) :
    (evalBootstrap m ncf .rdm bootNc true d preds draws).cov =
      sampleCov preds.length ((draws.map (bootRow m ncf .rdm bootNc d preds)).map
        (fun r => r.obs false)) ∧
    draws.filter (usableDraw .rdm d) = draws := by
  constructor
  · simp [evalBootstrap]
  · apply List.filter_eq_self.mpr
    intro dr _
    simp [usableDraw]

/-- an entry of a covariance matrix: from the two complete columns, NaN as soon as one of the two
    variables has a missing observation -/
theorem cov_entry_spec (den : α) (k : Nat) (obs : List (List (Option α))) (a b : Nat)
    (ha : a < k) (hb : b < k) :
    ((covWith den k obs).getD a []).getD b none =
      match column obs a, column obs b with
      | some x, some y => some (covEntry den x y)
      | _, _ => none := by
  simp only [covWith, List.getD_eq_getElem?_getD, List.getElem?_map, List.getElem?_range ha,
    List.getElem?_range hb, Option.map_some, Option.getD_some]
  cases column obs a <;> cases column obs b <;> rfl

/-- a column is complete exactly when no observation of the variable is missing, and then lists
    the observations in resample order -/
theorem column_spec (obs : List (List (Option α))) (a : Nat) (x : List α) :
    column obs a = some x ↔
      (∀ r ∈ obs, (r.getD a none).isSome) ∧ x = dropNone (obs.map (fun r => r.getD a none)) :=
  column_eq_some_iff obs a x

/-! ### fixed evaluation -/

/-- fixed evaluation: entry `(model, rdm)` is the similarity of the whole prediction and that
    data RDM; the ceiling is that of the whole data with every RDM its own unit -/
theorem fixed_entry (m : List α → List α → α) (ncf : NcReq α → α × α) (d : Data α)
    (preds : List (List α)) :
    (evalFixed m ncf d preds).evals = preds.map (fun p => d.vecs.map (fun v => m p v)) ∧
    (evalFixed m ncf d preds).nc = ncf (.boot (content d true (fullView d))) ∧
    (d.vecs.length ≤ 1 → (evalFixed m ncf d preds).cov = none) := by
  refine ⟨rfl, rfl, ?_⟩
  intro h
  have h' : fixedCovDefined d.vecs.length = false := by
    cases hu : fixedCovDefined d.vecs.length
    · rfl
    · exact absurd ((fixedCovDefined_iff _).mp hu) (Nat.not_lt.mpr h)
  simp [evalFixed, h']

/-- fixed evaluation: the stored covariance of models `a`, `b` is their population covariance
    across the RDMs (normaliser = number of RDMs) divided by the number of RDMs -/
theorem fixed_cov (m : List α → List α → α) (ncf : NcReq α → α × α) (d : Data α)
    (preds : List (List α)) (hR : 1 < d.vecs.length) (a b : Nat) (pa pb : List α)
    (ha : preds[a]? = some pa) (hb : preds[b]? = some pb) :
    ∃ c, (evalFixed m ncf d preds).cov = some c ∧
      (c.getD a []).getD b none =
        some (covEntry (d.vecs.length : α) (d.vecs.map (fun v => m pa v))
          (d.vecs.map (fun v => m pb v)) / (d.vecs.length : α)) := by
  have hal : a < preds.length := (List.getElem?_eq_some_iff.mp ha).1
  have hbl : b < preds.length := (List.getElem?_eq_some_iff.mp hb).1
  simp only [evalFixed, if_pos ((fixedCovDefined_iff _).mpr hR)]
  refine ⟨_, rfl, ?_⟩
  have h := cov_entry_spec (d.vecs.length : α) preds.length
    ((List.range d.vecs.length).map (fun r =>
      (preds.map (fun p => d.vecs.map (fun v => m p v))).map (fun row => row[r]?))) a b hal hbl
  rw [fixed_column m d preds a pa ha, fixed_column m d preds b pb hb] at h
  generalize covWith (d.vecs.length : α) preds.length
    ((List.range d.vecs.length).map (fun r =>
      (preds.map (fun p => d.vecs.map (fun v => m p v))).map (fun row => row[r]?))) = C at h ⊢
  simp only [List.getD_eq_getElem?_getD, List.getElem?_map] at h ⊢
  cases hc : C[a]? with
  | none => simp [hc] at h
  | some row =>
    simp only [hc, Option.map_some, Option.getD_some, List.getElem?_map] at h ⊢
    cases hr : row[b]? with
    | none => simp [hr] at h
    | some e =>
      simp only [hr, Option.getD_some] at h
      simp [hr, h]

/-! ### degrees of freedom -/

/-- number of distinct descriptor values = number of resampled units -/
theorem groups_card (desc : List Nat) : (uniq natLe desc).length = desc.toFinset.card := by
  rw [← List.toFinset_card_of_nodup (nodup_uniq natLe desc)]
  congr 1
  ext x
  simp [mem_uniq]

/-- dof of the bootstrap evaluators = number of resampled descriptor groups − 1, the smaller
    number when both factors are resampled (the expressions are regenerated from the source) -/
theorem dof_boot (d : Data α) :
    dofBoot .both d = min (d.rdesc.toFinset.card : Int) d.pdesc.toFinset.card - 1 ∧
    dofBoot .rdm d = (d.rdesc.toFinset.card : Int) - 1 ∧
    dofBoot .pattern d = (d.pdesc.toFinset.card : Int) - 1 := by
  simp only [dofBoot, groupsR, groupsP, groups_card, Rsa.Gen.C04.dofBootstrap,
    Rsa.Gen.C04.dofBootstrapRdm, Rsa.Gen.C04.dofBootstrapPattern, and_self]

/-- the same for the cross-validated bootstraps and the dual bootstrap -/
theorem dof_cv (d : Data α) :
    dofCv .both d = min (d.rdesc.toFinset.card : Int) d.pdesc.toFinset.card - 1 ∧
    dofCv .rdm d = (d.rdesc.toFinset.card : Int) - 1 ∧
    dofCv .pattern d = (d.pdesc.toFinset.card : Int) - 1 ∧
    dofRandom .both d = min (d.rdesc.toFinset.card : Int) d.pdesc.toFinset.card - 1 ∧
    dofRandom .rdm d = (d.rdesc.toFinset.card : Int) - 1 ∧
    dofRandom .pattern d = (d.pdesc.toFinset.card : Int) - 1 ∧
    Rsa.Gen.C04.dofDual ((groupsR d).length : Int) ((groupsP d).length : Int) =
      min (d.rdesc.toFinset.card : Int) d.pdesc.toFinset.card - 1 := by
  simp only [dofCv, dofRandom, groupsR, groupsP, groups_card, Rsa.Gen.C04.dofCvBoth,
    Rsa.Gen.C04.dofCvRdm, Rsa.Gen.C04.dofCvPattern, Rsa.Gen.C04.dofRandomBoth,
    Rsa.Gen.C04.dofRandomRdm, Rsa.Gen.C04.dofRandomPattern, Rsa.Gen.C04.dofDual, and_self]

/-- fixed evaluation: every RDM is a unit; dof = number of RDMs − 1 (0 for a single RDM) -/
theorem dof_fixed (m : List α → List α → α) (ncf : NcReq α → α × α) (d : Data α)
    (preds : List (List α)) :
    (evalFixed m ncf d preds).dof = if 1 < d.vecs.length then (d.vecs.length : Int) - 1 else 0 := by
  by_cases h : 1 < d.vecs.length
  · simp only [evalFixed, if_pos ((fixedCovDefined_iff _).mpr h), if_pos h, Rsa.Gen.C04.dofFixed]
  · have h' : ¬ fixedCovDefined d.vecs.length = true := fun hu => h ((fixedCovDefined_iff _).mp hu)
    simp only [evalFixed, if_neg h', if_neg h, Rsa.Gen.C04.dofFixedSingle]

/-! ### cross-validation: one fold -/

/-- an evaluated fold: per model the mean, over the RDMs of the test set, of the similarity between
    the prediction at the parameters *fitted on this fold's training piece* — restricted with the
    test pattern indices — and that test RDM restricted to the test conditions -/
theorem cv_fold_entry (m : List α → List α → α) (fit : Nat → Piece α → Θ)
    (predict : Nat → Θ → List α) (d : Data α) (nModels : Nat) (f : FoldV)
    (h : foldNaN f = false) (j : Nat) (hj : j < nModels) :
    (cvFold m fit predict d nModels f)[j]? =
      some (some (mean ((pick d.vecs f.test.rows).map (fun v =>
        m (dropNone (restrict d.nCond (patSelection d.pdesc f.testIdx)
            (predict j (fit j { obj := content d false f.train, pidx := f.trainIdx }))))
          (dropNone (restrict d.nCond f.test.conds v)))))) := by
  simp only [cvFold, h, Bool.false_eq_true, if_false, List.getElem?_map, List.getElem?_range hj,
    Option.map_some, evalAt, viewVecs, List.map_map]
  rfl

/-- a fold with an empty set or at most two conditions on either side is NaN for every model -/
theorem cv_fold_nan (m : List α → List α → α) (fit : Nat → Piece α → Θ)
    (predict : Nat → Θ → List α) (d : Data α) (nModels : Nat) (f : FoldV)
    (h : foldNaN f = true) :
    cvFold m fit predict d nModels f = List.replicate nModels none := by
  simp only [cvFold, h, if_true]
  apply List.ext_getElem?
  intro k
  by_cases hk : k < nModels
  · simp [List.getElem?_map, List.getElem?_range hk, List.getElem?_replicate, hk]
  · simp [List.getElem?_map, List.getElem?_replicate, hk, List.getElem?_eq_none]

/-- two data sets agree on a view: same sizes and groupings, and the same dissimilarity between
    any two conditions of the view in every RDM of the view (anything else may differ) -/
def AgreeOn (d d' : Data α) (v : View) : Prop :=
  d.nCond = d'.nCond ∧ d.rdesc = d'.rdesc ∧ d.pdesc = d'.pdesc ∧
  ∀ r ∈ v.rows, ∃ w w', d.vecs[r]? = some w ∧ d'.vecs[r]? = some w' ∧
    ∀ a ∈ v.conds, ∀ b ∈ v.conds,
      vecToMat d.nCond none none (w.map some) a b = vecToMat d.nCond none none (w'.map some) a b

/-- the parameters used for a fold are `fit` of that fold's training piece, and the training
    piece is a function of the training RDMs' dissimilarities among training conditions only:
    changing any other entry of the data (all test entries in particular) leaves them unchanged -/
theorem theta_from_train_only (fit : Nat → Piece α → Θ) (d d' : Data α) (f : FoldV) (j : Nat)
    (h : AgreeOn d d' f.train) :
    fit j { obj := content d false f.train, pidx := f.trainIdx } =
      fit j { obj := content d' false f.train, pidx := f.trainIdx } := by
  obtain ⟨hn, hr, hp, hv⟩ := h
  have hvv : viewVecs d f.train = viewVecs d' f.train := by
    simp only [viewVecs, pick, List.map_filterMap, ← hn]
    apply List.filterMap_congr
    intro r hrm
    obtain ⟨w, w', hw, hw', hab⟩ := hv r hrm
    rw [hw, hw']
    simp only [Option.map_some]
    exact congrArg some (restrict_congr _ _ _ _ hab)
  simp only [content, hvv, hr, hp]

/-! ### cross-validation inside a resample: separation and alignment -/

/-- disjoint value lists of a fold give disjoint *original* groups: no RDM (condition) of the
    test set belongs to the descriptor group of an RDM (condition) of the training set — in
    particular no resampled copy of a test item is in the training set -/
theorem cv_train_test_disjoint (d : Data α) (sv : View) (pi : Option (List Nat))
    (vf : Rsa.Folds.VFold) :
    (∀ tr te, vf.rTrain = some tr → vf.rTest = some te → List.Disjoint tr te →
      ∀ a ∈ (foldOn sv pi (Rsa.Folds.realize (objOf d sv) vf)).test.rows,
      ∀ b ∈ (foldOn sv pi (Rsa.Folds.realize (objOf d sv) vf)).train.rows,
        d.rdesc.getD a 0 ≠ d.rdesc.getD b 0) ∧
    (∀ tr te, vf.pTrain = some tr → vf.pTest = some te → List.Disjoint tr te →
      ∀ a ∈ (foldOn sv pi (Rsa.Folds.realize (objOf d sv) vf)).test.conds,
      ∀ b ∈ (foldOn sv pi (Rsa.Folds.realize (objOf d sv) vf)).train.conds,
        d.pdesc.getD a 0 ≠ d.pdesc.getD b 0) := by
  have hd := Rsa.Props.C05.realize_disjoint (objOf d sv) vf
  constructor
  · intro tr te htr hte hdis a ha b hb
    obtain ⟨x, hx, hxa⟩ := compose_rows_desc d sv _ ha
    obtain ⟨y, hy, hyb⟩ := compose_rows_desc d sv _ hb
    rw [← hxa, ← hyb]
    exact hd.1 tr te htr hte hdis x hx y hy
  · intro tr te htr hte hdis a ha b hb
    obtain ⟨x, hx, hxa⟩ := compose_conds_desc d sv _ ha
    obtain ⟨y, hy, hyb⟩ := compose_conds_desc d sv _ hb
    rw [← hxa, ← hyb]
    exact hd.2 tr te htr hte hdis x hx y hy

/-- the folds `sets_k_fold` makes from duplicate-free shuffles do have disjoint value lists as soon
    as the factor is split (`k > 1`) -/
theorem cv_kfold_values_disjoint (rsel : List Nat) (kr : Nat) (psels : List (List Nat)) (kp : Nat)
    (vf : Rsa.Folds.VFold) (hvf : vf ∈ Rsa.Folds.kFoldV rsel kr psels kp) :
    (rsel.Nodup → 1 < kr → kr ≤ rsel.length →
      ∃ tr te, vf.rTrain = some tr ∧ vf.rTest = some te ∧ List.Disjoint tr te) ∧
    ((∀ ps ∈ psels, ps.Nodup ∧ kp ≤ ps.length) → 1 < kp →
      ∃ tr te, vf.pTrain = some tr ∧ vf.pTest = some te ∧ List.Disjoint tr te) := by
  rw [Rsa.Props.C05.kfold_both_spec, List.mem_flatMap] at hvf
  obtain ⟨gp, hgp, hvf⟩ := hvf
  rw [List.mem_map] at hvf
  obtain ⟨h, hh, rfl⟩ := hvf
  have hg : gp.1 < kr := List.mem_range.mp (List.of_mem_zip hgp).1
  have hps : gp.2 ∈ psels := (List.of_mem_zip hgp).2
  have hh' : h < kp := List.mem_range.mp hh
  constructor
  · intro hn hk hkn
    exact ⟨_, _, rfl, rfl,
      ((Rsa.Props.C05.split_vals_train_compl rsel kr gp.1 hn (by omega) hkn hg).1 hk).1⟩
  · intro hall hk
    obtain ⟨hn, hkn⟩ := hall _ hps
    exact ⟨_, _, rfl, rfl,
      ((Rsa.Props.C05.split_vals_train_compl gp.2 kp h hn (by omega) hkn hh').1 hk).1⟩

/-- the conditions of a resample are what `subsample_pattern` selects for the pattern indices the
    evaluator passes on — also when only RDMs are resampled (`np.unique` of the descriptor) -/
theorem sample_conds_are_selection (bt : BootType) (d : Data α) (hd : d.WF) (dr : Draw) :
    (sampleOf bt d dr).1.conds = patSelection d.pdesc (sampleOf bt d dr).2.2 := by
  cases bt
  · rfl
  · simp only [sampleOf, groupsP]
    rw [patSelection_uniq, hd.pdesc_len]
  · rfl

/-- inside a resample the prediction and the test (resp. training) object list the same
    conditions in the same order: restricting the prediction with the expanded pattern indices
    (`_concat_sampling`) selects exactly the conditions — with the bootstrap multiplicities — that
    `subset_pattern` kept in the test (training) object.  Hence the comparison is entry-aligned. -/
theorem cv_pred_aligned (d : Data α) (sv : View) (pi : List Nat)
    (hsv : sv.conds = patSelection d.pdesc pi) (vf : Rsa.Folds.VFold) :
    (∀ vals, vf.pTest = some vals → vals.Nodup →
      patSelection d.pdesc (foldOn sv (some pi) (Rsa.Folds.realize (objOf d sv) vf)).testIdx =
        (foldOn sv (some pi) (Rsa.Folds.realize (objOf d sv) vf)).test.conds) ∧
    (∀ vals, vf.pTrain = some vals → vals.Nodup →
      patSelection d.pdesc (foldOn sv (some pi) (Rsa.Folds.realize (objOf d sv) vf)).trainIdx =
        (foldOn sv (some pi) (Rsa.Folds.realize (objOf d sv) vf)).train.conds) := by
  constructor
  · intro vals hv hn
    simp only [foldOn, Rsa.Folds.realize, hv]
    rw [compose_conds_some, hsv]
    simp only [Rsa.Folds.mkPart]
    exact patSelection_concat d.pdesc pi vals hn
  · intro vals hv hn
    simp only [foldOn, Rsa.Folds.realize, hv]
    rw [compose_conds_some, hsv]
    simp only [Rsa.Folds.mkPart]
    exact patSelection_concat d.pdesc pi vals hn

/-! ### bootstrap-wrapped cross-validation -/

/-- `_internal_cv`: the folds are those of `sets_k_fold` on the resample, every fold is evaluated
    by `cv_fold_entry` with its pattern indices expanded by the bootstrap multiplicities, and the
    noise ceiling is computed on the same resample and the same folds -/
theorem internal_cv_spec (m : List α → List α → α) (fit : Nat → Piece α → Θ)
    (predict : Nat → Θ → List α) (ncf : NcReq α → α × α) (d : Data α) (nModels : Nat) (sv : View)
    (pi : List Nat) (kr kp : Nat) (cd : CvDraw) :
    (internalCv m fit predict ncf d nModels sv pi kr kp cd).1 =
      ((Rsa.Folds.kFoldV cd.rsel kr cd.psels kp).map (fun vf =>
        cvFold m fit predict d nModels
          (foldOn sv (some pi) (Rsa.Folds.realize (objOf d sv) vf)))) ∧
    (internalCv m fit predict ncf d nModels sv pi kr kp cd).2 =
      (if 1 < kr ∨ 1 < kp then
        ncf (cvNcReq d sv ((Rsa.Folds.kFoldV cd.rsel kr cd.psels kp).map
          (Rsa.Folds.realize (objOf d sv))))
       else ncf (.boot (content d false sv))) := by
  constructor
  · simp only [internalCv, List.map_map]
    rfl
  · simp only [internalCv]
    by_cases h : 1 < kr ∨ 1 < kp
    · rw [if_pos ((ncByFolds_iff _ _).mpr h), if_pos h]
    · rw [if_neg (fun hu => h ((ncByFolds_iff _ _).mp hu)), if_neg h]

/-- usable resample: `n_cv` repetitions of the cross-validation of that resample, each with the
    resample's own pattern indices -/
theorem bcv_entry (m : List α → List α → α) (fit : Nat → Piece α → Θ)
    (predict : Nat → Θ → List α) (ncf : NcReq α → α × α) (bt : BootType) (d : Data α)
    (nModels kr kp : Nat) (dr : Draw) (reps : List CvDraw)
    (h : cvUsable kr kp (sampleOf bt d dr).2.1 (sampleOf bt d dr).2.2 = true) :
    bcvRow m fit predict ncf bt d nModels kr kp dr reps =
      some (reps.map (internalCv m fit predict ncf d nModels (sampleOf bt d dr).1
        (sampleOf bt d dr).2.2 kr kp)) := by
  simp [bcvRow, h]

/-- a resample with fewer RDM groups than folds, or fewer than three condition groups per
    pattern fold, is marked NaN as a whole (evaluations and ceilings) -/
theorem bcv_nan_row (m : List α → List α → α) (fit : Nat → Piece α → Θ)
    (predict : Nat → Θ → List α) (ncf : NcReq α → α × α) (bt : BootType) (d : Data α)
    (nModels kr kp : Nat) (dr : Draw) (reps : List CvDraw)
    (h : cvUsable kr kp (sampleOf bt d dr).2.1 (sampleOf bt d dr).2.2 = false) :
    bcvRow m fit predict ncf bt d nModels kr kp dr reps = none ∧
    cvRowOk (bcvRow m fit predict ncf bt d nModels kr kp dr reps) = false := by
  simp [bcvRow, h, cvRowOk]

/-- dual bootstrap: the same draw evaluated on the resample of both factors, of the RDMs only
    (all conditions, pattern indices = all groups) and of the conditions only (all RDMs) -/
theorem dual_entry (m : List α → List α → α) (fit : Nat → Piece α → Θ)
    (predict : Nat → Θ → List α) (ncf : NcReq α → α × α) (d : Data α)
    (nModels kr kp : Nat) (dr : Draw) (reps : List (List CvDraw)) :
    (cvUsable kr kp (sampleOf .both d dr).2.1 (sampleOf .both d dr).2.2 = true →
      dualRow m fit predict ncf d nModels kr kp dr reps =
        [some (reps.map (fun cds => internalCv m fit predict ncf d nModels (sampleOf .both d dr).1
            (sampleOf .both d dr).2.2 kr kp (cds.getD 0 default))),
         some (reps.map (fun cds => internalCv m fit predict ncf d nModels
            { rows := (sampleOf .both d dr).1.rows, conds := List.range d.nCond } (groupsP d)
            kr kp (cds.getD 1 default))),
         some (reps.map (fun cds => internalCv m fit predict ncf d nModels
            { rows := List.range d.vecs.length, conds := (sampleOf .both d dr).1.conds }
            (sampleOf .both d dr).2.2 kr kp (cds.getD 2 default)))]) ∧
    (cvUsable kr kp (sampleOf .both d dr).2.1 (sampleOf .both d dr).2.2 = false →
      dualRow m fit predict ncf d nModels kr kp dr reps = [none, none, none]) := by
  constructor
  · intro h
    simp [dualRow, dualUsable_eq_cvUsable, h, dualSamples, List.zip, List.range, List.range.loop]
  · intro h
    simp [dualRow, dualUsable_eq_cvUsable, h]

/-- random test sets inside a resample: fold `c` tests on the first `n_rdm` / `n_pattern` values
    of the `c`-th pair of shuffles and trains on the rest; one ceiling for the resample -/
theorem random_entry (m : List α → List α → α) (fit : Nat → Piece α → Θ)
    (predict : Nat → Θ → List α) (ncf : NcReq α → α × α) (bt : BootType) (d : Data α)
    (nModels nr np : Nat) (dr : Draw) (sh : List (List Nat × List Nat)) :
    (randomUsable nr np (sampleOf bt d dr).2.1 (sampleOf bt d dr).2.2 = true →
      randomRow m fit predict ncf bt d nModels nr np dr sh =
        some ((Rsa.Folds.randomV sh nr np).map (fun vf =>
          ([cvFold m fit predict d nModels
              (foldOn (sampleOf bt d dr).1 (some (sampleOf bt d dr).2.2)
                (Rsa.Folds.realize (objOf d (sampleOf bt d dr).1) vf))],
           if 0 < nr ∨ 0 < np then
             ncf (cvNcReq d (sampleOf bt d dr).1 ((Rsa.Folds.randomV sh nr np).map
               (Rsa.Folds.realize (objOf d (sampleOf bt d dr).1))))
           else ncf (.boot (content d false (sampleOf bt d dr).1)))))) ∧
    (randomUsable nr np (sampleOf bt d dr).2.1 (sampleOf bt d dr).2.2 = false →
      randomRow m fit predict ncf bt d nModels nr np dr sh = none) := by
  constructor
  · intro h
    by_cases hn : 0 < nr ∨ 0 < np
    · simp [randomRow, h, List.map_map, Function.comp_def, (ncByFoldsRandom_iff _ _).mpr hn, hn]
    · have hn' : ncByFoldsRandom nr np = false := by
        cases hu : ncByFoldsRandom nr np
        · rfl
        · exact absurd ((ncByFoldsRandom_iff _ _).mp hu) hn
      simp [randomRow, h, List.map_map, Function.comp_def, hn', hn]
  · intro h
    simp [randomRow, h]

/-- bootstrap with left-out test set: train on the resample, test on exactly the RDM groups and
    condition groups that were not drawn; every model gets its own evaluation -/
theorem testset_entry (m : List α → List α → α) (fit : Nat → Piece α → Θ)
    (predict : Nat → Θ → List α) (d : Data α) (nModels : Nat) (dr : Draw) :
    (testsetRow m fit predict .both d nModels dr).2 =
      ((leftOut d.rdesc (sampleOf .both d dr).2.1).length,
       (leftOut d.pdesc (sampleOf .both d dr).2.2).length) ∧
    (1 ≤ (leftOut d.rdesc (sampleOf .both d dr).2.1).length →
     3 ≤ (leftOut d.pdesc (sampleOf .both d dr).2.2).length →
      (testsetRow m fit predict .both d nModels dr).1 =
        cvFold m fit predict d nModels
          { train := (sampleOf .both d dr).1, trainIdx := (sampleOf .both d dr).2.2
            test := { rows := rdmSelection d.rdesc (leftOut d.rdesc (sampleOf .both d dr).2.1)
                      conds := patSelection d.pdesc (leftOut d.pdesc (sampleOf .both d dr).2.2) }
            testIdx := leftOut d.pdesc (sampleOf .both d dr).2.2 }) ∧
    (∀ g ∈ leftOut d.rdesc (sampleOf .both d dr).2.1, g ∈ d.rdesc ∧ g ∉ (sampleOf .both d dr).2.1) := by
  refine ⟨rfl, ?_, ?_⟩
  · intro h1 h3
    simp [testsetRow, h1, h3]
  · intro g hg
    simp only [leftOut, List.mem_filter, mem_uniq, Bool.not_eq_true', List.contains_eq_mem,
      decide_eq_false_iff_not] at hg
    exact hg

/-- the ceilings of the cross-validated bootstraps are those of the same resample objects and of
    the same folds whose evaluations are stored -/
theorem noise_ceiling_same_resample_cv (m : List α → List α → α) (fit : Nat → Piece α → Θ)
    (predict : Nat → Θ → List α) (ncf : NcReq α → α × α) (bt : BootType) (d : Data α)
    (nModels kr kp : Nat) (dr : Draw) (reps : List CvDraw)
    (h : cvUsable kr kp (sampleOf bt d dr).2.1 (sampleOf bt d dr).2.2 = true)
    (c : Nat) (cd : CvDraw) (hc : reps[c]? = some cd) :
    ∃ row, bcvRow m fit predict ncf bt d nModels kr kp dr reps = some row ∧
      row[c]? = some
        (((Rsa.Folds.kFoldV cd.rsel kr cd.psels kp).map (fun vf =>
            cvFold m fit predict d nModels
              (foldOn (sampleOf bt d dr).1 (some (sampleOf bt d dr).2.2)
                (Rsa.Folds.realize (objOf d (sampleOf bt d dr).1) vf)))),
         (if 1 < kr ∨ 1 < kp then
            ncf (cvNcReq d (sampleOf bt d dr).1 ((Rsa.Folds.kFoldV cd.rsel kr cd.psels kp).map
              (Rsa.Folds.realize (objOf d (sampleOf bt d dr).1))))
          else ncf (.boot (content d false (sampleOf bt d dr).1)))) := by
  refine ⟨_, bcv_entry m fit predict ncf bt d nModels kr kp dr reps h, ?_⟩
  rw [List.getElem?_map, hc, Option.map_some]
  have := internal_cv_spec m fit predict ncf d nModels (sampleOf bt d dr).1 (sampleOf bt d dr).2.2
    kr kp cd
  exact congrArg some (Prod.ext this.1 this.2)

/-- only usable resamples enter the covariance of the cross-validated bootstrap: every kept row
    is the result of a usable draw, NaN rows are dropped -/
theorem nan_samples_excluded_cv (m : List α → List α → α) (fit : Nat → Piece α → Θ)
    (predict : Nat → Θ → List α) (ncf : NcReq α → α × α) (bt : BootType) (d : Data α)
    (nModels kr kp nCv : Nat) (uc : Bool) (draws : List (Draw × List CvDraw)) :
    (bootstrapCrossval m fit predict ncf bt d nModels kr kp nCv uc draws).cov =
      cvCov sampleCov Rsa.Gen.C04.cvCorrection corrOnCv Rsa.Gen.C04.var1RepsCv nModels nCv uc
        (okReps (draws.map (fun dc => bcvRow m fit predict ncf bt d nModels kr kp dc.1 dc.2))) ∧
    ∀ row ∈ okReps (draws.map (fun dc => bcvRow m fit predict ncf bt d nModels kr kp dc.1 dc.2)),
      ∃ dc ∈ draws, cvUsable kr kp (sampleOf bt d dc.1).2.1 (sampleOf bt d dc.1).2.2 = true ∧
        bcvRow m fit predict ncf bt d nModels kr kp dc.1 dc.2 = some row := by
  refine ⟨rfl, ?_⟩
  intro row hrow
  simp only [okReps, List.mem_filterMap, List.mem_filter, List.mem_map, id] at hrow
  obtain ⟨x, ⟨⟨dc, hdc, rfl⟩, _⟩, hx⟩ := hrow
  refine ⟨dc, hdc, ?_, hx⟩
  by_contra hu
  have hf : cvUsable kr kp (sampleOf bt d dc.1).2.1 (sampleOf bt d dc.1).2.2 = false := by
    simpa using hu
  rw [(bcv_nan_row m fit predict ncf bt d nModels kr kp dc.1 dc.2 hf).1] at hx
  cases hx

/-! ### determinism -/

/-- the routines are functions of (data, predictions or fitter, ceiling function, draws): two runs
    that see the same draws return the same result.  (On the code: all randomness comes from
    `numpy.random`; the harness re-runs every case with the same seed.) -/
theorem eval_deterministic (m : List α → List α → α) (fit : Nat → Piece α → Θ)
    (predict : Nat → Θ → List α) (ncf : NcReq α → α × α) (bt : BootType) (bootNc mo uc : Bool)
    (d : Data α) (preds : List (List α)) (nModels kr kp nCv : Nat)
    (dr dr' : List Draw) (dc dc' : List (Draw × List CvDraw)) (hdr : dr = dr') (hdc : dc = dc') :
    evalBootstrap m ncf bt bootNc mo d preds dr = evalBootstrap m ncf bt bootNc mo d preds dr' ∧
    bootstrapCrossval m fit predict ncf bt d nModels kr kp nCv uc dc =
      bootstrapCrossval m fit predict ncf bt d nModels kr kp nCv uc dc' := by
  subst hdr; subst hdc; exact ⟨rfl, rfl⟩

end generic


/-! ## Round 3: decision points, loop bounds, defaults, assembly of the `Result`, explicit outcomes -/

section round3
variable {α : Type} [Add α] [Sub α] [Mul α] [Div α] [Neg α] [Zero α] [One α] [NatCast α]
  [LT α] [DecidableLT α] [LE α] [DecidableLE α] [Max α] [Min α] {Θ : Type}

/-! ### every `if` of the evaluators that decides about a resample or fold -/

/-- the tests as written in `evaluate.py` today (regenerated leaves), in the property's words:
    a resample of conditions is evaluated iff it has at least 3 distinct condition groups
    (`eval_bootstrap_rdm` evaluates every resample); a cross-validated resample iff it has at least
    `k_rdm` RDM groups and 3 per pattern fold — the dual bootstrap applies the very same test —;
    a random-test-set resample iff more than `n_rdm` RDM groups and `3 + n_pattern` condition
    groups; a fold iff neither side is empty or has ≤ 2 conditions; the fold-wise ceiling is used
    iff something is split; the correction iff requested and `n_cv > 1`; `eval_fixed` has a
    covariance iff it has more than one RDM; `eval_dual_bootstrap` without any split runs one
    repetition without correction. -/
theorem usable_tests_spec :
    (∀ bt n, usableBoot bt n = true ↔ (bt = .rdm ∨ 3 ≤ n)) ∧
    (∀ kr kp ri pi, cvUsable kr kp ri pi = true ↔ (kr ≤ nUnique ri ∧ 3 * kp ≤ nUnique pi)) ∧
    (∀ kr kp ri pi, dualUsable kr kp ri pi = cvUsable kr kp ri pi) ∧
    (∀ nr np ri pi, randomUsable nr np ri pi = true ↔ (nr < nUnique ri ∧ 3 + np ≤ nUnique pi)) ∧
    (∀ f : FoldV, foldNaN f = true ↔ (f.train.rows.length = 0 ∨ f.test.rows.length = 0 ∨
      f.train.conds.length ≤ 2 ∨ f.test.conds.length ≤ 2)) ∧
    (∀ kr kp, ncByFolds kr kp = true ↔ (1 < kr ∨ 1 < kp)) ∧
    (∀ nr np, ncByFoldsRandom nr np = true ↔ (0 < nr ∨ 0 < np)) ∧
    (∀ uc n, (corrOnCv uc n = true ↔ (uc = true ∧ 1 < n)) ∧
      (corrOnDual uc n = true ↔ (uc = true ∧ 1 < n)) ∧
      (corrOnRandom uc n = true ↔ (uc = true ∧ 1 < n))) ∧
    (∀ n, fixedCovDefined n = true ↔ 1 < n) ∧
    (∀ kr kp n uc, dualOptions kr kp n uc = if kr = 1 ∧ kp = 1 then (1, false) else (n, uc)) :=
  ⟨usableBoot_iff, cvUsable_iff, dualUsable_eq_cvUsable, randomUsable_iff, foldNaN_iff,
    ncByFolds_iff, ncByFoldsRandom_iff, corrOn_iff, fixedCovDefined_iff, dualOptions_eq⟩

/-- with the correction switched off (or a single repetition) the stored covariance is the plain
    sample covariance of the per-resample means; switched on it is the corrected one over exactly
    `n_cv` single-repetition covariances (the `var_1` loop bound is a regenerated leaf) -/
theorem cv_cov_switch (cov : Nat → List (List (Option α)) → List (List (Option α)))
    (nModels nCv : Nat) (uc : Bool)
    (okRows : List (List (List (List (Option α)) × (α × α)))) :
    (¬ (uc = true ∧ 1 < nCv) →
      cvCov cov Rsa.Gen.C04.cvCorrection corrOnCv Rsa.Gen.C04.var1RepsCv nModels nCv uc okRows =
        cov (nModels + 2) (okRows.map (sampleObs nModels))) ∧
    ((uc = true ∧ 1 < nCv) →
      cvCov cov Rsa.Gen.C04.cvCorrection corrOnCv Rsa.Gen.C04.var1RepsCv nModels nCv uc okRows =
        correctMats Rsa.Gen.C04.cvCorrection nCv (cov (nModels + 2) (okRows.map (sampleObs nModels)))
          (meanMats (nModels + 2) ((List.range nCv).map (fun i =>
            cov (nModels + 2) (okRows.map (fun reps => repObs nModels (reps.getD i ([], (0, 0))))))))) ∧
    Rsa.Gen.C04.var1RepsRandom nCv = nCv := by
  refine ⟨?_, ?_, rfl⟩
  · intro h
    have h' : ¬ corrOnCv uc nCv = true := fun hu => h ((corrOn_iff uc nCv).1.mp hu)
    simp only [cvCov, if_neg h']
  · intro h
    simp only [cvCov, if_pos ((corrOn_iff uc nCv).1.mpr h), Rsa.Gen.C04.var1RepsCv]

/-! ### the assembly of the `Result` object -/

/-- C06's name of a resampled factor -/
def toResampled : Factor → Rsa.Stats.Resampled
  | .rdm => .rdm
  | .pattern => .pattern
  | .both => .both

/-- the stored `cv_method` does not depend on the sizes -/
theorem cvMethod_closed (e : Evaluator) (s : Sizes) :
    (resultMeta e s).cvMethod = cvMethodName ((resLeaves e).cv (btCode e.bt)) := rfl

/-- **Consistency with C06's `evaluatorNs`.**  For `eval_fixed`, the three `eval_bootstrap*`,
    `bootstrap_crossval` with every `boot_type` and `eval_dual_bootstrap`: the `cv_method` string
    stored in the `Result` names exactly the factor(s) the evaluator resamples, and the counts
    handed to the constructor (which select the `n/(n−1)` correction of the variances) are exactly
    those of the resampled factor(s) — `n_rdm` only, `n_pattern` only, or both.  All read off the
    current `Result(...)` calls (seed C06-2 passes `n_pattern` in `eval_bootstrap_rdm`). -/
theorem result_ns_consistent (e : Evaluator) (s : Sizes) (f : Factor)
    (hf : e.factor = some f) (he : ∀ bt, e ≠ .random bt) :
    Rsa.Stats.resampledOf (resultMeta e s).cvMethod = some (toResampled f) ∧
    ((resultMeta e s).passedNRdm, (resultMeta e s).passedNPattern) =
      Rsa.Stats.evaluatorNs (toResampled f) s.nRdm s.nCond := by
  cases e with
  | fixed =>
    cases hf
    refine ⟨by rw [cvMethod_closed]; decide, ?_⟩
    simp [resultMeta, resLeaves, Evaluator.bt, btCode, decCount, toResampled,
      Rsa.Stats.evaluatorNs, Rsa.Gen.C04.resPassedNRdmFixed, Rsa.Gen.C04.resPassedNPatternFixed]
  | bootstrap bt =>
    cases bt <;> cases hf <;> refine ⟨by rw [cvMethod_closed]; decide, ?_⟩ <;>
      simp [resultMeta, resLeaves, Evaluator.bt, btCode, decCount, toResampled,
        Rsa.Stats.evaluatorNs, Rsa.Gen.C04.resPassedNRdmBootstrap,
        Rsa.Gen.C04.resPassedNPatternBootstrap, Rsa.Gen.C04.resPassedNRdmBootstrapRdm,
        Rsa.Gen.C04.resPassedNPatternBootstrapRdm, Rsa.Gen.C04.resPassedNRdmBootstrapPattern,
        Rsa.Gen.C04.resPassedNPatternBootstrapPattern]
  | crossval => cases hf
  | bcv bt =>
    cases bt <;> cases hf <;> refine ⟨by rw [cvMethod_closed]; decide, ?_⟩ <;>
      simp [resultMeta, resLeaves, Evaluator.bt, btCode, decCount, toResampled,
        Rsa.Stats.evaluatorNs, Rsa.Gen.C04.resPassedNRdmCv, Rsa.Gen.C04.resPassedNPatternCv]
  | dual =>
    cases hf
    refine ⟨by rw [cvMethod_closed]; decide, ?_⟩
    simp [resultMeta, resLeaves, Evaluator.bt, btCode, decCount, toResampled,
      Rsa.Stats.evaluatorNs, Rsa.Gen.C04.resPassedNRdmDual, Rsa.Gen.C04.resPassedNPatternDual]
  | random bt => exact absurd rfl (he bt)

/-- the full statement for `eval_dual_bootstrap_random`: only the counts of the resampled
    factor(s) are passed.  **Not true of the code today** for `boot_type='rdm'` / `'pattern'`
    (both counts are always passed, so the variances get the `min(n_rdm, n_cond)` factor) — a C06
    matter, see `notes/C04.md`; after `notes/C04-observation-random-result-ns.diff` it holds. -/
def result_ns_random_full : Prop :=
  ∀ (bt : BootType) (s : Sizes) (f : Factor), (Evaluator.random bt).factor = some f →
    ((resultMeta (.random bt) s).passedNRdm, (resultMeta (.random bt) s).passedNPattern) =
      Rsa.Stats.evaluatorNs (toResampled f) s.nRdm s.nCond

/-- what does hold for `eval_dual_bootstrap_random`: the `cv_method` names the resampled
    factor(s), and the count of every resampled factor *is* passed (before and after the repair) -/
theorem result_ns_random_partial (bt : BootType) (s : Sizes) (f : Factor)
    (hf : (Evaluator.random bt).factor = some f) :
    Rsa.Stats.resampledOf (resultMeta (.random bt) s).cvMethod = some (toResampled f) ∧
    (f ≠ .pattern → (resultMeta (.random bt) s).passedNRdm = some s.nRdm) ∧
    (f ≠ .rdm → (resultMeta (.random bt) s).passedNPattern = some s.nCond) := by
  cases bt <;> cases hf <;> refine ⟨by rw [cvMethod_closed]; decide, ?_, ?_⟩ <;> intro _ <;>
    simp_all [resultMeta, resLeaves, Evaluator.bt, btCode, decCount,
      Rsa.Gen.C04.resPassedNRdmRandom, Rsa.Gen.C04.resPassedNPatternRandom]

/-- `crossval` hands over no covariance, no counts and no resampled factor -/
theorem result_crossval_plain (s : Sizes) :
    (resultMeta .crossval s).cvMethod = "crossvalidation" ∧
    Rsa.Stats.resampledOf (resultMeta .crossval s).cvMethod = none ∧
    (resultMeta .crossval s).hasVariances = false ∧
    (resultMeta .crossval s).passedNRdm = none ∧ (resultMeta .crossval s).passedNPattern = none ∧
    (resultMeta .crossval s).attrNRdm = none ∧ (resultMeta .crossval s).attrNPattern = none := by
  refine ⟨by rw [cvMethod_closed]; decide, by rw [cvMethod_closed]; decide, rfl, ?_, ?_, ?_, ?_⟩ <;>
    simp [resultMeta, resLeaves, decCount, Rsa.Gen.C04.resPassedNRdmCrossval,
      Rsa.Gen.C04.resPassedNPatternCrossval, Rsa.Gen.C04.resAttrNRdmCrossval,
      Rsa.Gen.C04.resAttrNPatternCrossval]

/-- the attributes `n_rdm`, `n_pattern` of the returned object: both sizes of the data for
    `eval_fixed`, the three `eval_bootstrap*` (set after construction where they were not passed)
    and `eval_dual_bootstrap`; `bootstrap_crossval` leaves them as passed -/
theorem result_attrs (e : Evaluator) (s : Sizes) :
    ((e = .fixed ∨ (∃ bt, e = .bootstrap bt) ∨ e = .dual) →
      (resultMeta e s).attrNRdm = some s.nRdm ∧ (resultMeta e s).attrNPattern = some s.nCond) ∧
    (∀ bt, e = .bcv bt →
      (resultMeta e s).attrNRdm = (resultMeta e s).passedNRdm ∧
      (resultMeta e s).attrNPattern = (resultMeta e s).passedNPattern) := by
  constructor
  · rintro (rfl | ⟨bt, rfl⟩ | rfl)
    · simp [resultMeta, resLeaves, decCount, Rsa.Gen.C04.resAttrNRdmFixed,
        Rsa.Gen.C04.resAttrNPatternFixed]
    · cases bt <;>
        simp [resultMeta, resLeaves, decCount, Rsa.Gen.C04.resAttrNRdmBootstrap,
          Rsa.Gen.C04.resAttrNPatternBootstrap, Rsa.Gen.C04.resAttrNRdmBootstrapRdm,
          Rsa.Gen.C04.resAttrNPatternBootstrapRdm, Rsa.Gen.C04.resAttrNRdmBootstrapPattern,
          Rsa.Gen.C04.resAttrNPatternBootstrapPattern]
    · simp [resultMeta, resLeaves, decCount, Rsa.Gen.C04.resAttrNRdmDual,
        Rsa.Gen.C04.resAttrNPatternDual]
  · rintro bt rfl
    cases bt <;>
      simp [resultMeta, resLeaves, Evaluator.bt, btCode, decCount, Rsa.Gen.C04.resAttrNRdmCv,
        Rsa.Gen.C04.resAttrNPatternCv, Rsa.Gen.C04.resPassedNRdmCv,
        Rsa.Gen.C04.resPassedNPatternCv]

/-- which object and which RDM grouping every noise-ceiling call uses (call sites regenerated from
    the source): `eval_fixed` — the whole data, every RDM its own unit; the three `eval_bootstrap*`
    — per resample the resample itself under the caller's `rdm_descriptor`, without
    `boot_noise_ceil` the whole data under the same descriptor (seed C04-2 drops it);
    `_internal_cv` / `eval_dual_bootstrap_random` without a split — the resample under
    `rdm_descriptor`; `crossval` without `ceil_set` — the data at the fold's test conditions, every
    RDM its own unit.  The model's `content` flags are these. -/
theorem nc_descriptor_spec (m : List α → List α → α) (ncf : NcReq α → α × α) (bt : BootType)
    (mo : Bool) (d : Data α) (preds : List (List α)) (draws : List Draw) (dr : Draw)
    (h : bt = .rdm ∨ 3 ≤ nUnique (sampleOf bt d dr).2.2) :
    (evalFixed m ncf d preds).nc =
      ncf (.boot (content d (ncSiteByIndex (Rsa.Gen.C04.ncSiteFixed 0)) (fullView d))) ∧
    ncSiteOnSample (Rsa.Gen.C04.ncSiteFixed 0) = false ∧ Rsa.Gen.C04.ncSiteFixed 1 = 9 ∧
    (∀ f ∈ [Rsa.Gen.C04.ncSiteBootstrap, Rsa.Gen.C04.ncSiteBootstrapPattern,
        Rsa.Gen.C04.ncSiteBootstrapRdm],
      (bootRow m ncf bt true d preds dr).nc =
        some (ncf (.boot (content d (ncSiteByIndex (f 0)) (sampleOf bt d dr).1))) ∧
      ncSiteOnSample (f 0) = true ∧
      (evalBootstrap m ncf bt false mo d preds draws).ncData =
        some (ncf (.boot (content d (ncSiteByIndex (f 1)) (fullView d)))) ∧
      ncSiteOnSample (f 1) = false ∧ f 2 = 9) ∧
    (ncSiteByIndex (Rsa.Gen.C04.ncSiteInternalCv 0) = false ∧
      ncSiteOnSample (Rsa.Gen.C04.ncSiteInternalCv 0) = true ∧ Rsa.Gen.C04.ncSiteInternalCv 1 = 9) ∧
    (ncSiteByIndex (Rsa.Gen.C04.ncSiteRandom 0) = false ∧
      ncSiteOnSample (Rsa.Gen.C04.ncSiteRandom 0) = true ∧ Rsa.Gen.C04.ncSiteRandom 1 = 9) ∧
    (ncSiteByIndex (Rsa.Gen.C04.ncSiteCrossval 0) = true ∧ Rsa.Gen.C04.ncSiteCrossval 0 / 2 = 2 ∧
      Rsa.Gen.C04.ncSiteCrossval 1 = 9) := by
  have hb := noise_ceiling_same_resample m ncf bt mo d preds draws dr h
  refine ⟨rfl, rfl, rfl, ?_, ⟨rfl, rfl, rfl⟩, ⟨rfl, rfl, rfl⟩, ⟨rfl, rfl, rfl⟩⟩
  intro f hf
  simp only [List.mem_cons, List.not_mem_nil, or_false] at hf
  rcases hf with rfl | rfl | rfl <;> exact ⟨hb.1, rfl, hb.2.2, rfl, rfl⟩

/-- the helper `_n_groups` behind every `dof` expression returns the number of distinct values of
    the descriptor (`len(np.unique(descriptors[descriptor]))`, checked on the source text); with
    `groups_card` that is the number of resampled units `dof_boot` / `dof_cv` speak about -/
theorem n_groups_def (desc : List Nat) :
    Rsa.Gen.C04.nGroups (uniq natLe desc).length = desc.toFinset.card := by
  simp only [Rsa.Gen.C04.nGroups, groups_card]

/-- shapes of the stored arrays (allocation / reshape expressions regenerated from the source):
    one row per requested sample, one column per model, then folds, repetitions, variants -/
theorem result_shapes (s : Sizes) (bt : BootType) :
    evalShape .fixed s = [1, s.nModels, s.nRdm] ∧
    (1 < s.N → evalShape (.bootstrap bt) s = [s.N, s.nModels]) ∧
    evalShape .crossval s = [1, s.nModels, s.nFolds] ∧
    evalShape (.bcv bt) s = [s.N, s.nModels, s.kp * s.kr, s.nCv] ∧
    ncShape (.bcv bt) s = [2, s.N, s.nCv] ∧
    evalShape .dual s = [s.N, s.nModels, s.kp * s.kr, s.nCv, 3] ∧
    ncShape .dual s = [2, s.N, s.nCv, 3] ∧
    evalShape (.random bt) s = [s.N, s.nModels, s.nCv] ∧
    ncShape (.random bt) s = [2, s.N, s.nCv] := by
  refine ⟨?_, ?_, ?_, ?_, ?_, ?_, ?_, ?_, ?_⟩
  · simp [evalShape, shapeOf, Rsa.Gen.C04.ndimEvalsFixed, Rsa.Gen.C04.shapeEvalsFixed,
      List.range, List.range.loop]
  · intro h
    simp [evalShape, shapeOf, Rsa.Gen.C04.inputCheck2d, h, Rsa.Gen.C04.ndimEvalsInputCheck,
      Rsa.Gen.C04.shapeEvalsInputCheck, List.range, List.range.loop]
  · simp [evalShape, shapeOf, Rsa.Gen.C04.ndimEvalsCrossval, Rsa.Gen.C04.shapeEvalsCrossval,
      List.range, List.range.loop]
  · simp [evalShape, shapeOf, Rsa.Gen.C04.ndimEvalsCv, Rsa.Gen.C04.shapeEvalsCv,
      List.range, List.range.loop]
  · simp [ncShape, shapeOf, Rsa.Gen.C04.ndimNcCv, Rsa.Gen.C04.shapeNcCv,
      List.range, List.range.loop]
  · simp [evalShape, shapeOf, Rsa.Gen.C04.ndimEvalsDual, Rsa.Gen.C04.shapeEvalsDual,
      List.range, List.range.loop]
  · simp [ncShape, shapeOf, Rsa.Gen.C04.ndimNcDual, Rsa.Gen.C04.shapeNcDual,
      List.range, List.range.loop]
  · simp [evalShape, shapeOf, Rsa.Gen.C04.ndimEvalsRandom, Rsa.Gen.C04.shapeEvalsRandom,
      List.range, List.range.loop]
  · simp [ncShape, shapeOf, Rsa.Gen.C04.ndimNcRandom, Rsa.Gen.C04.shapeNcRandom,
      List.range, List.range.loop]

/-- the loops fill exactly the allocated arrays: the bootstrap loop makes `N` passes (one per row),
    the repetition loop `n_cv` passes (one per slot of the repetition axis), and the `var_1` loop
    of the correction visits every repetition -/
theorem loops_fill_arrays (N nCv : Nat) (bt : BootType) :
    sampleCount (.bootstrap bt) N = N ∧ sampleCount (.bcv bt) N = N ∧
    sampleCount .dual N = N ∧ sampleCount (.random bt) N = N ∧
    Rsa.Gen.C04.repsCv nCv = nCv ∧ Rsa.Gen.C04.repsDual nCv = nCv ∧
    Rsa.Gen.C04.var1RepsCv nCv = Rsa.Gen.C04.repsCv nCv ∧
    Rsa.Gen.C04.var1RepsRandom nCv = nCv := by
  refine ⟨?_, rfl, rfl, rfl, rfl, rfl, rfl, rfl⟩
  cases bt <;> rfl

/-- the model's rows have the stored shape: one row per draw, one entry per model, `n_cv`
    repetitions per usable cross-validated resample -/
theorem model_rows_fill_shape (m : List α → List α → α) (fit : Nat → Piece α → Θ)
    (predict : Nat → Θ → List α) (ncf : NcReq α → α × α) (bt : BootType)
    (bootNc mo uc : Bool) (d : Data α) (preds : List (List α)) (nModels kr kp nCv : Nat)
    (draws : List Draw) (cdraws : List (Draw × List CvDraw)) :
    (evalBootstrap m ncf bt bootNc mo d preds draws).rows.length = draws.length ∧
    (∀ r ∈ (evalBootstrap m ncf bt bootNc mo d preds draws).rows, r.evals.length = preds.length) ∧
    (bootstrapCrossval m fit predict ncf bt d nModels kr kp nCv uc cdraws).rows.length =
      cdraws.length ∧
    (∀ dc ∈ cdraws, ∀ row,
      bcvRow m fit predict ncf bt d nModels kr kp dc.1 dc.2 = some row →
        row.length = dc.2.length) := by
  refine ⟨by simp [evalBootstrap], ?_, by simp [bootstrapCrossval], ?_⟩
  · intro r hr
    simp only [evalBootstrap, List.mem_map] at hr
    obtain ⟨dr, _, rfl⟩ := hr
    by_cases hu : usableBoot bt (nUnique (sampleOf bt d dr).2.2) = true
    · simp [bootRow, hu]
    · simp [bootRow, hu]
  · intro dc _ row h
    by_cases hu : cvUsable kr kp (sampleOf bt d dc.1).2.1 (sampleOf bt d dc.1).2.2 = true
    · rw [bcv_entry m fit predict ncf bt d nModels kr kp dc.1 dc.2 hu] at h
      cases h; simp
    · have hf : cvUsable kr kp (sampleOf bt d dc.1).2.1 (sampleOf bt d dc.1).2.2 = false := by
        simpa using hu
      rw [(bcv_nan_row m fit predict ncf bt d nModels kr kp dc.1 dc.2 hf).1] at h
      cases h

/-! ### explicit outcomes: rejected fold requests, covariance from too few resamples -/

/-- `crossval` on the sets of `sets_k_fold_pattern` / `sets_k_fold_rdm`: the call fails with the
    generator's `AssertionError` exactly when more folds than groups are requested, with its
    `ZeroDivisionError` for `k = 0`, and otherwise evaluates the generator's folds -/
theorem crossval_rejects_iff (m : List α → List α → α) (fit : Nat → Piece α → Θ)
    (predict : Nat → Θ → List α) (ncf : NcReq α → α × α) (d : Data α) (nModels : Nat)
    (sel : List Nat) (k : Nat) (calcNc : Bool) :
    (crossvalOn m fit predict ncf d nModels (.kFoldPattern sel k) calcNc = .error .assertion ↔
      sel.length < k) ∧
    (crossvalOn m fit predict ncf d nModels (.kFoldRdm sel k) calcNc = .error .assertion ↔
      sel.length < k) ∧
    (1 ≤ k → k ≤ sel.length →
      crossvalOn m fit predict ncf d nModels (.kFoldPattern sel k) calcNc =
        .ok (crossval m fit predict ncf d nModels
          ((Rsa.Folds.kFoldPatternV sel k).map (Rsa.Folds.realize (objOf d (fullView d))))
          false calcNc) ∧
      crossvalOn m fit predict ncf d nModels (.kFoldRdm sel k) calcNc =
        .ok (crossval m fit predict ncf d nModels
          ((Rsa.Folds.kFoldRdmV sel k).map (Rsa.Folds.realize (objOf d (fullView d))))
          true calcNc)) := by
  refine ⟨?_, ?_, ?_⟩
  · simp only [crossvalOn, SetsReq.run, Rsa.Folds.setsKFoldPattern, Rsa.Folds.kOrDefault]
    by_cases h1 : sel.length < k
    · simp [h1, Except.map]
    · by_cases h2 : k = 0 <;> simp [h1, h2, Except.map]
  · simp only [crossvalOn, SetsReq.run, Rsa.Folds.setsKFoldRdm, Rsa.Folds.kOrDefault]
    by_cases h1 : sel.length < k
    · simp [h1, Except.map]
    · by_cases h2 : k = 0 <;> simp [h1, h2, Except.map]
  · intro h1 h2
    have hn : ¬ sel.length < k := by omega
    have h0 : k ≠ 0 := by omega
    simp [crossvalOn, SetsReq.run, Rsa.Folds.setsKFoldPattern, Rsa.Folds.setsKFoldRdm,
      Rsa.Folds.kOrDefault, hn, h0, Except.map]

/-! ### round 5: the noise ceiling of the public `crossval` (with and without `ceil_set`) -/

/-- **`crossval` without `ceil_set`** (`ceil_set=None`, the default of the public routine), for
    *any* list of train / test sets — pattern folds, RDM folds, both, hand-built splits whose test
    sets hold only some of the RDMs: one ceiling per *evaluated* fold, in fold order, and it is
    `boot_noise_ceiling` of the **full data** — all `d.vecs.length` RDMs, each its own unit (the
    `index` descriptor) — restricted to exactly the conditions the fold's prediction is restricted
    with (`patSelection d.pdesc f.testIdx`, cf. `cv_fold_entry`); it does not depend on which RDMs
    the test set holds.  The object and the descriptor are read off the call-site leaf
    `ncSiteCrossval` regenerated from `evaluate.py` (seed C04-9 hands over `test[0]` instead). -/
theorem crossval_ceiling_no_ceil_set_spec (m : List α → List α → α) (fit : Nat → Piece α → Θ)
    (predict : Nat → Θ → List α) (ncf : NcReq α → α × α) (d : Data α) (nModels : Nat)
    (folds : List Rsa.Folds.Fold) :
    (∀ f : FoldV, ceilNoCeilSet ncf d f =
      ncf (.boot (content d true
        { rows := List.range d.vecs.length, conds := patSelection d.pdesc f.testIdx }))) ∧
    (crossval m fit predict ncf d nModels folds false true).nc =
      ((folds.map (foldOn (fullView d) none)).filter (fun f => !foldNaN f)).map (fun f =>
        ncf (.boot (content d true
          { rows := List.range d.vecs.length, conds := patSelection d.pdesc f.testIdx }))) ∧
    (∀ f : FoldV,
      (ceilNoCeilSetView (Rsa.Gen.C04.ncSiteCrossval 0) d f).rows = (fullView d).rows ∧
      (ceilNoCeilSetView (Rsa.Gen.C04.ncSiteCrossval 0) d f).conds =
        patSelection d.pdesc f.testIdx) ∧
    (∀ f g : FoldV, f.testIdx = g.testIdx → ceilNoCeilSet ncf d f = ceilNoCeilSet ncf d g) ∧
    ((crossval m fit predict ncf d nModels folds false true).nc.length =
      ((folds.map (foldOn (fullView d) none)).filter (fun f => !foldNaN f)).length) := by
  have h1 : ∀ f : FoldV, ceilNoCeilSet ncf d f =
      ncf (.boot (content d true
        { rows := List.range d.vecs.length, conds := patSelection d.pdesc f.testIdx })) := by
    intro f; rfl
  refine ⟨h1, ?_, ?_, ?_, ?_⟩
  · simp only [crossval, Bool.not_true, Bool.false_eq_true, if_false]
    exact List.map_congr_left (fun f _ => h1 f)
  · intro f; exact ⟨rfl, rfl⟩
  · intro f g h; rw [h1, h1, h]
  · simp only [crossval, Bool.not_true, Bool.false_eq_true, if_false, List.length_map]

/-- **`crossval` with a `ceil_set`**: one ceiling for the whole call, `cv_noise_ceiling` of the data
    with exactly the ceil and test sets handed in; `calc_noise_ceil=False`: no ceiling either way;
    for the sets of a generator call, leaving the generator's `ceil_set` out changes nothing but
    the ceiling: same outcome (refusal or evaluations), and forwarding it is the round-3 model -/
theorem crossval_ceiling_ceil_set_spec (m : List α → List α → α) (fit : Nat → Piece α → Θ)
    (predict : Nat → Θ → List α) (ncf : NcReq α → α × α) (d : Data α) (nModels : Nat)
    (folds : List Rsa.Folds.Fold) (req : SetsReq) (hc fwd calcNc : Bool) :
    (crossval m fit predict ncf d nModels folds true true).nc =
      [ncf (cvNcReq d (fullView d) folds)] ∧
    (crossval m fit predict ncf d nModels folds hc false).nc = [] ∧
    (crossval m fit predict ncf d nModels folds hc calcNc).evals =
      (crossval m fit predict ncf d nModels folds (!hc) calcNc).evals ∧
    crossvalOnCeil m fit predict ncf d nModels req true calcNc =
      crossvalOn m fit predict ncf d nModels req calcNc ∧
    ((crossvalOnCeil m fit predict ncf d nModels req fwd calcNc).toOption.map (·.evals) =
      (crossvalOn m fit predict ncf d nModels req calcNc).toOption.map (·.evals)) ∧
    (∀ e, crossvalOnCeil m fit predict ncf d nModels req fwd calcNc = .error e ↔
      crossvalOn m fit predict ncf d nModels req calcNc = .error e) := by
  refine ⟨rfl, rfl, rfl, ?_, ?_, ?_⟩
  · simp only [crossvalOnCeil, crossvalOn, Bool.and_true]
  · simp only [crossvalOnCeil, crossvalOn]
    cases req.run (objOf d (fullView d)) (groupsP d).length <;> rfl
  · intro e
    simp only [crossvalOnCeil, crossvalOn]
    cases req.run (objOf d (fullView d)) (groupsP d).length <;> simp [Except.map]

/-- inside the bootstrap the usable-sample test rules the generator's `AssertionError` out: a
    resample that passes it has at least `k_rdm` RDM groups and `3·k_pattern ≥ k_pattern` condition
    groups, so `sets_k_fold` (called on the resample's own distinct groups, `rsel.length` of them)
    accepts the request -/
theorem usable_resample_sets_accepted (o : Rsa.Folds.Obj) (kr kp : Nat) (ri pi rsel : List Nat)
    (psels : List (List Nat)) (hkr : 1 ≤ kr) (hkp : 1 ≤ kp)
    (hu : cvUsable kr kp ri pi = true) (hr : rsel.length = nUnique ri) :
    Rsa.Folds.setsKFold o rsel (some kr) psels (nUnique pi) (some kp) =
      .ok ((Rsa.Folds.kFoldV rsel kr psels kp).map (Rsa.Folds.realize o)) := by
  obtain ⟨h1, h2⟩ := (cvUsable_iff kr kp ri pi).mp hu
  have a : ¬ rsel.length < kr := by omega
  have b : kr ≠ 0 := by omega
  have c : ¬ nUnique pi < kp := by omega
  have e : kp ≠ 0 := by omega
  simp [Rsa.Folds.setsKFold, Rsa.Folds.kOrDefault, a, b, c, e]

/-- a covariance over fewer than two usable resamples is *undefined*: `np.cov` normalises by
    `n − 1 = 0`; from two on it is the sample covariance -/
theorem cov_lt_two_undefined (k : Nat) (obs : List (List (Option α))) :
    (obs.length < 2 → covOutcome k obs = .undefined ∧
      sampleCov k obs = covWith (((0 : Nat)) : α) k obs) ∧
    (2 ≤ obs.length → covOutcome k obs = .defined (sampleCov k obs)) := by
  constructor
  · intro h
    have h' : ¬ 2 ≤ obs.length := by omega
    refine ⟨by simp [covOutcome, h'], ?_⟩
    have : obs.length - 1 = 0 := by omega
    simp only [sampleCov, this]
  · intro h
    simp [covOutcome, h]

end round3

/-! ### the `n_cv` correction, over an ordered field -/

section field
variable {K : Type} [Field K] [LinearOrder K] [IsStrictOrderedRing K]

/-- the regenerated correction formulas of the three routines are `(n·V̄ − V₁)/(n − 1)`; if the
    variance of a single repetition is `v + w` (between-resample variance `v` plus
    cross-validation noise `w`) and that of the mean of `n` repetitions `v + w/n`, the corrected
    value is `v`: the projection to infinitely many repetitions -/
theorem cv_correction_spec (n : Nat) (hn : 2 ≤ n) (vm v1 v w : K) :
    Rsa.Gen.C04.cvCorrection n vm v1 = ((n : K) * vm - v1) / ((n : K) - 1) ∧
    Rsa.Gen.C04.cvCorrectionDual n vm v1 = ((n : K) * vm - v1) / ((n : K) - 1) ∧
    Rsa.Gen.C04.cvCorrectionRandom n vm v1 = ((n : K) * vm - v1) / ((n : K) - 1) ∧
    Rsa.Gen.C04.cvCorrection n (v + w / (n : K)) (v + w) = v := by
  have h1 : ((n - 1 : Nat) : K) = (n : K) - 1 := by
    rw [Nat.cast_sub (by omega), Nat.cast_one]
  have hn0 : (n : K) ≠ 0 := by
    have : (0 : K) < (n : K) := by exact_mod_cast (by omega : 0 < n)
    exact ne_of_gt this
  have hn1 : (n : K) - 1 ≠ 0 := by
    have : (1 : K) < (n : K) := by exact_mod_cast (by omega : 1 < n)
    linarith [this]
  refine ⟨?_, ?_, ?_, ?_⟩
  · simp only [Rsa.Gen.C04.cvCorrection, h1]
  · simp only [Rsa.Gen.C04.cvCorrectionDual, h1]
  · simp only [Rsa.Gen.C04.cvCorrectionRandom, h1]
  · simp only [Rsa.Gen.C04.cvCorrection, h1]
    field_simp
    ring


/-- the one resample a too-small run may have contributes a zero numerator: the entry is `0/0`
    (NaN in floating point), whatever the value was -/
theorem cov_single_obs_numerator (den x y : K) : covEntry den [x] [y] = 0 / den := by
  simp [covEntry, mean]

/-- default numbers of folds inside a bootstrap (`k_pattern=None`, `k_rdm=None`, `n_pattern=None`,
    `n_rdm=None`): given values are used as they are; otherwise the defaults of `inference_util`
    (property C05's leaves) are taken at the expected number of distinct groups of a bootstrap
    sample, `(1 − 1/e)·n` — for `bootstrap_crossval` a single RDM group is never split —, and the
    random-test-set sizes are `⌊n / k⌋`; the defaults always lie in 2..5 -/
theorem k_default_spec (e : K) (gr gp kr kp : Nat) :
    bcvDefaultK e gr gp (some kr) (some kp) = (kr, kp) ∧
    dualDefaultK e gr gp (some kr) (some kp) = (kr, kp) ∧
    randomDefaultN e gr gp (some kr) (some kp) = (kr, kp) ∧
    bcvDefaultK e gr gp none none =
      (if gr = 1 then 1 else (Rsa.Gen.C05.defaultKRdmReal ((1 - 1 / e) * (gr : K))).toNat,
       (Rsa.Gen.C05.defaultKPatternReal ((1 - 1 / e) * (gp : K))).toNat) ∧
    dualDefaultK e gr gp none none =
      ((Rsa.Gen.C05.defaultKRdmReal ((1 - 1 / e) * (gr : K))).toNat,
       (Rsa.Gen.C05.defaultKPatternReal ((1 - 1 / e) * (gp : K))).toNat) ∧
    randomDefaultN e gr gp none none =
      (gr / (Rsa.Gen.C05.defaultKRdmReal ((1 - 1 / e) * (gr : K))).toNat,
       gp / (Rsa.Gen.C05.defaultKPatternReal ((1 - 1 / e) * (gp : K))).toNat) ∧
    (∀ x : K, 2 ≤ (Rsa.Gen.C05.defaultKRdmReal x).toNat ∧ (Rsa.Gen.C05.defaultKRdmReal x).toNat ≤ 5 ∧
      2 ≤ (Rsa.Gen.C05.defaultKPatternReal x).toNat ∧
      (Rsa.Gen.C05.defaultKPatternReal x).toNat ≤ 5) := by
  refine ⟨rfl, rfl, rfl, ?_, ?_, ?_, ?_⟩
  · simp only [bcvDefaultK, Rsa.Gen.C04.kRdmSingle, Rsa.Gen.C04.kArgRdmCv,
      Rsa.Gen.C04.kArgPatternCv, Nat.cast_one]
    by_cases h : gr = 1 <;> simp [h]
  · simp only [dualDefaultK, Rsa.Gen.C04.kArgRdmDual, Rsa.Gen.C04.kArgPatternDual, Nat.cast_one]
  · simp only [randomDefaultN, Rsa.Gen.C04.kArgRdmRandom, Rsa.Gen.C04.kArgPatternRandom,
      Rsa.Gen.C04.randomNRdm, Rsa.Gen.C04.randomNPattern, Nat.cast_one]
  · intro x
    simp only [Rsa.Gen.C05.defaultKRdmReal, Rsa.Gen.C05.defaultKPatternReal]
    refine ⟨?_, ?_, ?_, ?_⟩ <;> (repeat' split) <;> decide

end field

/-! ### non-vacuity: concrete objects meeting the hypotheses -/

/-- 3 RDMs in 2 subject groups, 4 conditions in 3 categories -/
def exData : Data Rat :=
  { nCond := 4, vecs := [[1, 2, 3, 4, 5, 6], [2, 1, 4, 3, 6, 5], [6, 5, 4, 3, 2, 1]],
    rdesc := [0, 0, 1], pdesc := [0, 1, 1, 2] }

example : exData.WF := ⟨by decide, by decide, by decide⟩

theorem ex_groupsR : groupsR exData = [0, 1] :=
  uniq_nat_eq_of [0, 0, 1] [0, 1] (by decide) (by decide)
theorem ex_groupsP : groupsP exData = [0, 1, 2] :=
  uniq_nat_eq_of [0, 1, 1, 2] [0, 1, 2] (by decide) (by decide)

def exDraw : Draw := { r := [1, 0], p := [0, 2, 1] }

/-- the resample of that draw: RDM 2, then RDMs 0 and 1; all four conditions -/
theorem ex_sample : sampleOf .both exData exDraw =
    ({ rows := [2, 0, 1], conds := [0, 1, 2, 3] }, [1, 0], [0, 2, 1]) := by
  simp only [sampleOf, ex_groupsR, ex_groupsP]
  have h : patSelection exData.pdesc (bootIdx [0, 1, 2] exDraw.p) = [0, 1, 2, 3] :=
    patSelection_eq_of _ _ _ (by decide) (by decide)
  rw [h]
  decide

theorem ex_usable : BootType.both = .rdm ∨ 3 ≤ nUnique (sampleOf .both exData exDraw).2.2 := by
  right
  rw [ex_sample]
  have : uniq natLe [0, 2, 1] = [0, 1, 2] := uniq_nat_eq_of [0, 2, 1] [0, 1, 2] (by decide) (by decide)
  simp [nUnique, this]

/-- a draw that repeats one category only is not usable -/
example : ¬ (BootType.both = .rdm ∨
    3 ≤ nUnique (sampleOf .both exData { r := [0, 1], p := [1, 1, 1] }).2.2) := by
  simp only [sampleOf, ex_groupsR, ex_groupsP]
  have : uniq natLe (bootIdx [0, 1, 2] [1, 1, 1]) = [1] :=
    uniq_nat_eq_of _ [1] (by decide) (by decide)
  simp [nUnique, this]

/-- a fold with duplicate-free, disjoint value lists (hypotheses of `cv_train_test_disjoint`,
    `cv_kfold_values_disjoint`, `cv_pred_aligned`) -/
example : [1, 0].Nodup ∧ 1 < 2 ∧ 2 ≤ [1, 0].length ∧ [2, 0, 1].Nodup ∧ 1 ≤ [2, 0, 1].length ∧
    List.Disjoint [0] [1] := by
  refine ⟨by decide, by decide, by decide, by decide, by decide, ?_⟩
  simp [List.Disjoint]

/-- two data sets that differ only in an entry between a training and a test condition agree on
    the training view (RDMs 0, 1; conditions 0, 1, 2) -/
example : AgreeOn exData { exData with vecs := [[1, 2, 9, 4, 5, 6], [2, 1, 4, 3, 6, 5], [0, 0, 0, 0, 0, 0]] }
    { rows := [0, 1], conds := [0, 1, 2] } := by
  refine ⟨rfl, rfl, rfl, ?_⟩
  intro r hr
  simp only [List.mem_cons, List.not_mem_nil, or_false] at hr
  rcases hr with rfl | rfl
  · refine ⟨_, _, rfl, rfl, ?_⟩
    intro a ha b hb
    simp only [List.mem_cons, List.not_mem_nil, or_false] at ha hb
    rcases ha with rfl | rfl | rfl <;> rcases hb with rfl | rfl | rfl <;> decide
  · refine ⟨_, _, rfl, rfl, ?_⟩
    intro a ha b hb
    rfl

/-- `cv_correction_spec` with two repetitions: `2·(v + w/2) − (v + w) = v` -/
example : Rsa.Gen.C04.cvCorrection 2 ((3 : Rat) + 4 / 2) (3 + 4) = 3 :=
  (cv_correction_spec 2 (by decide) 0 0 3 4).2.2.2


/-! #### non-vacuity of the round-3 theorems -/

/-- `result_ns_consistent` applies to e.g. `bootstrap_crossval(boot_type='rdm')` … -/
example : (Evaluator.bcv .rdm).factor = some .rdm ∧ ∀ bt, Evaluator.bcv .rdm ≠ .random bt :=
  ⟨rfl, by intro bt h; cases h⟩

/-- … where it says: `n_rdm` is passed, `n_pattern` is not, and the method is called
    `bootstrap_crossval_rdm` (7 RDMs, 4 conditions) -/
example : (resultMeta (.bcv .rdm) { N := 5, nModels := 2, nRdm := 7, nCond := 4 }).passedNRdm = some 7 ∧
    (resultMeta (.bcv .rdm) { N := 5, nModels := 2, nRdm := 7, nCond := 4 }).passedNPattern = none ∧
    (resultMeta (.bcv .rdm) { N := 5, nModels := 2, nRdm := 7, nCond := 4 }).cvMethod =
      "bootstrap_crossval_rdm" := by
  refine ⟨?_, ?_, by rw [cvMethod_closed]; decide⟩ <;>
    simp [resultMeta, resLeaves, Evaluator.bt, btCode, decCount, Rsa.Gen.C04.resPassedNRdmCv,
      Rsa.Gen.C04.resPassedNPatternCv]

/-- hypotheses of `result_ns_random_partial` -/
example : (Evaluator.random .pattern).factor = some .pattern := rfl

/-- `result_shapes`: 6 samples, 2 models, 2 × 3 folds, 2 repetitions -/
example : evalShape (.bcv .both)
    { N := 6, nModels := 2, nRdm := 5, nCond := 9, kr := 3, kp := 2, nCv := 2 } = [6, 2, 6, 2] := by
  rw [(result_shapes _ _).2.2.2.1]
  rfl

/-- `crossval_rejects_iff`: 4 folds of 3 condition groups is rejected, 2 folds is accepted -/
example : [0, 1, 2].length < 4 ∧ 1 ≤ 2 ∧ 2 ≤ [0, 1, 2].length := by decide

/-- `crossval_ceiling_no_ceil_set_spec` on a fold whose test set holds ONE of three RDMs (a
    `sets_leave_one_out_rdm` fold): the ceiling object still has all three RDMs, each its own
    unit, at the fold's test conditions — it is not the test set (seed C04-9) -/
example :
    let d : Data Rat := { nCond := 4, vecs := [[1, 2, 3, 4, 5, 6], [2, 1, 4, 3, 6, 5], [3, 3, 1, 1, 2, 2]],
                          rdesc := [0, 0, 1], pdesc := [0, 1, 2, 3] }
    let f : FoldV := { train := ⟨[0, 1], [0, 1, 2, 3]⟩, trainIdx := [0, 1, 2, 3],
                       test := ⟨[2], [0, 1, 2, 3]⟩, testIdx := [0, 1, 2, 3] }
    foldNaN f = false ∧
    (ceilNoCeilSetView (Rsa.Gen.C04.ncSiteCrossval 0) d f).rows = [0, 1, 2] ∧
    (ceilNoCeilSetView (Rsa.Gen.C04.ncSiteCrossval 0) d f) ≠ f.test ∧
    (content d true (ceilNoCeilSetView (Rsa.Gen.C04.ncSiteCrossval 0) d f)).rdesc = [0, 1, 2] ∧
    (content d true (ceilNoCeilSetView (Rsa.Gen.C04.ncSiteCrossval 0) d f)).vecs.length = 3 := by
  decide

/-- … and a ceiling function that tells the two objects apart (number of RDMs it is handed) gives
    3, not 1, for that fold -/
example :
    let d : Data Rat := { nCond := 4, vecs := [[1, 2, 3, 4, 5, 6], [2, 1, 4, 3, 6, 5], [3, 3, 1, 1, 2, 2]],
                          rdesc := [0, 0, 1], pdesc := [0, 1, 2, 3] }
    let ncf : NcReq Rat → Rat × Rat := fun r => match r with
      | .boot o => ((o.vecs.length : Nat), 0)
      | .cv _ _ _ => (0, 0)
    (crossval (fun _ _ => (0 : Rat)) (fun _ _ => ()) (fun _ _ => []) ncf d 1
      [{ train := ⟨[0, 1], [0, 1, 2, 3], [0, 1, 2, 3]⟩, test := ⟨[2], [0, 1, 2, 3], [0, 1, 2, 3]⟩,
         ceil := none }] false true).nc = [((3 : Rat), 0)] := by
  intro d ncf
  rw [(crossval_ceiling_no_ceil_set_spec _ _ _ _ _ _ _).2.1]
  decide

/-- `usable_resample_sets_accepted` / `usable_tests_spec`: 2 RDM folds, 1 pattern fold on a
    resample with 2 distinct RDM groups and 3 distinct condition groups -/
example : cvUsable 2 1 [0, 1, 1] [0, 2, 1, 2] = true := by
  rw [cvUsable_iff]
  have h1 : uniq natLe [0, 1, 1] = [0, 1] := uniq_nat_eq_of _ [0, 1] (by decide) (by decide)
  have h2 : uniq natLe [0, 2, 1, 2] = [0, 1, 2] := uniq_nat_eq_of _ [0, 1, 2] (by decide) (by decide)
  simp [nUnique, h1, h2]

/-- `cov_lt_two_undefined`: one usable resample -/
example : ([[some (1 : Rat), some 2]] : List (List (Option Rat))).length < 2 := by decide

/-- `cov_single_obs_numerator` at concrete numbers, and a defined covariance from two resamples -/
example : covEntry (0 : Rat) [3] [5] = 0 / 0 := cov_single_obs_numerator 0 3 5
example : covOutcome 1 [[some (1 : Rat)], [some 3]] = .defined (sampleCov 1 [[some 1], [some 3]]) :=
  (cov_lt_two_undefined 1 _).2 (by decide)

/-- `k_default_spec` at `e = 3` (any positive number serves): 8 RDM groups, 20 condition groups give
    `(1 − 1/3)·8 = 16/3 < 6 → 2` and `(1 − 1/3)·20 = 40/3 ∈ [12, 24) → 3` -/
example : bcvDefaultK (3 : Rat) 8 20 none none = (2, 3) := by
  rw [(k_default_spec (3 : Rat) 8 20 0 0).2.2.2.1]
  norm_num [Rsa.Gen.C05.defaultKRdmReal, Rsa.Gen.C05.defaultKPatternReal]
  decide

/-! ## Round 4 — reuse sessions: no state survives a call

  One data object, one list of models, the parameter arrays are handed to several successive evaluation
  routines.  The model threads the content of the objects through the calls (`runSession`); what a call
  leaves behind is governed by the regenerated count of in-place writes into the arguments
  (`Rsa.Gen.C04.evalInputWrites`).  Since that count is 0, every call of every session is the stand-alone call
  on the content of that moment — so every theorem of this file about one call (`fixed_entry`, `boot_entry`,
  `cv_fold_entry`, `bcv_entry`, `dual_entry`, `random_entry`, `nan_samples_excluded*`, `dof_*`, …) holds for
  every call of a session, whatever was evaluated on the objects before. -/

section round4

/-- the write counts read off the current source: no statement on the path of any public evaluation routine
    (helpers, both noise ceilings, `input_check_model`, the models' `predict` / `predict_rdm` included) writes in
    place into an object that may alias `data`, `models` or `theta`; `bootstrap_testset*` no longer re-create the default
    `index` descriptor in the caller's object (5 such statements were removed by a `fix:` commit; the count is pinned at 0) -/
theorem input_write_leaves :
    Rsa.Gen.C04.evalInputWrites = 0 ∧ Rsa.Gen.C04.testsetIndexDefaults = 0 := ⟨rfl, rfl⟩

/-- as coded, a call leaves the content of the caller's objects exactly as it was — whatever an in-place
    statement would have made of it (`dmg` arbitrary) -/
theorem call_leaves_content_unchanged {σ : Type} (dmg : σ → σ) (s : σ) : callEffect dmg s = s := by
  unfold callEffect callEffectW
  rw [input_write_leaves.1]
  simp

/-- **sessions**: any list of steps (calls of any routines with any arguments, options, seeds, draws `κ`;
    in-place edits of the user in between) run through the model with the explicit state gives, for every
    call, the value of the stand-alone call on the content of that moment, and leaves that content
    unchanged.  By induction over the step list. -/
theorem session_calls_independent {κ σ ρ : Type} (dmg : κ → σ → σ) (result : κ → σ → ρ)
    (steps : List (SessStep κ σ)) (s : σ) :
    runSession (fun c => callEffect (dmg c)) result steps s = sessionSpec result steps s := by
  induction steps generalizing s with
  | nil => rfl
  | cons st rest ih =>
    cases st with
    | call c => simp only [runSession, sessionSpec, call_leaves_content_unchanged, ih]
    | edit f => simp only [runSession, sessionSpec, ih]

/-- the content after a session is the original content with the user's edits alone -/
theorem session_final_content {κ σ : Type} (dmg : κ → σ → σ) (steps : List (SessStep κ σ)) (s : σ) :
    finalState (fun c => callEffect (dmg c)) steps s = applyEdits steps s := by
  induction steps generalizing s with
  | nil => rfl
  | cons st rest ih =>
    cases st with
    | call c => simp only [finalState, applyEdits, call_leaves_content_unchanged, ih]
    | edit f => simp only [finalState, applyEdits, ih]

/-- the specification lists one entry per call … -/
theorem sessionSpec_length {κ σ ρ : Type} (result : κ → σ → ρ) (steps : List (SessStep κ σ)) (s : σ) :
    (sessionSpec result steps s).length = nCalls steps := by
  induction steps generalizing s with
  | nil => rfl
  | cons st rest ih => cases st <;> simp [sessionSpec, nCalls, ih]

/-- … and splits at a call: what comes before it only contributes its edits -/
theorem sessionSpec_append_call {κ σ ρ : Type} (result : κ → σ → ρ) (pre post : List (SessStep κ σ))
    (c : κ) (s : σ) :
    sessionSpec result (pre ++ .call c :: post) s =
      sessionSpec result pre s ++
        (result c (applyEdits pre s), applyEdits pre s) :: sessionSpec result post (applyEdits pre s) := by
  induction pre generalizing s with
  | nil => rfl
  | cons st rest ih => cases st <;> simp [sessionSpec, applyEdits, ih]

/-- the call that follows the steps `pre` — e.g. an `eval_bootstrap_rdm(…, 'cosine')` after an
    `eval_fixed(…, 'corr')` on the same objects — returns the stand-alone value on the original content with
    the user's edits of `pre` only, the quantity the single-call theorems are about -/
theorem session_call_at {κ σ ρ : Type} (dmg : κ → σ → σ) (result : κ → σ → ρ)
    (pre post : List (SessStep κ σ)) (c : κ) (s : σ) :
    (runSession (fun c => callEffect (dmg c)) result (pre ++ .call c :: post) s)[nCalls pre]? =
      some (result c (applyEdits pre s), applyEdits pre s) := by
  rw [session_calls_independent, sessionSpec_append_call]
  have h := sessionSpec_length result pre s
  rw [List.getElem?_append_right (by omega)]
  simp [h]

/-- a rerun: the same call (same arguments, same seed, same recorded draws) later in a session without an
    edit in between returns the identical value -/
theorem session_rerun_identical {κ σ ρ : Type} (dmg : κ → σ → σ) (result : κ → σ → ρ)
    (calls : List κ) (c : κ) (s : σ) :
    runSession (fun c => callEffect (dmg c)) result
        (.call c :: calls.map .call ++ [.call c]) s =
      (result c s, s) :: calls.map (fun k => (result k s, s)) ++ [(result c s, s)] := by
  rw [session_calls_independent]
  have h : ∀ (l : List κ) (tail : List (SessStep κ σ)),
      sessionSpec result (l.map .call ++ tail) s
        = l.map (fun k => (result k s, s)) ++ sessionSpec result tail s := by
    intro l tail
    induction l with
    | nil => rfl
    | cons k ks ih => simp [sessionSpec, ih]
  simp only [sessionSpec, h, List.cons_append]

/-- why the write count matters (the hypothesis discharged by `input_write_leaves` is not decoration): with a
    single in-place statement that centres the rows, a later call that sums the entries sees other data -/
theorem inplace_write_changes_later_call :
    runSession (κ := Unit) (fun _ => callEffectW 1 (fun (v : List Int) => v.map (· - 2)))
        (fun _ v => v.sum) [.call (), .call ()] [1, 2, 3]
      ≠ sessionSpec (fun _ v => v.sum) [.call (), .call ()] [1, 2, 3] := by
  decide

end round4

-- round 4: a session `eval_fixed(measure 1)` → user edit → `eval_fixed(measure 2)` → the first call again,
-- on concrete integer data: every call is the stand-alone `evalFixed` on the content of its moment
example :
    let d0 : Data Int := { nCond := 3, vecs := [[1, 2, 3], [2, 2, 5]], rdesc := [0, 1], pdesc := [0, 1, 2] }
    let d1 : Data Int := { d0 with vecs := [[1, 2, 3], [4, 0, 1]] }
    let m1 : List Int → List Int → Int := fun x y => (List.zipWith (· * ·) x y).sum
    let m2 : List Int → List Int → Int := fun x y => (List.zipWith (· - ·) x y).sum
    let run : Bool → Data Int → List (List Int) := fun b d =>
      (evalFixed (if b then m1 else m2) (fun _ => (0, 0)) d [[1, 0, 1]]).evals
    (runSession (fun c => callEffect ((fun (_ : Bool) (d : Data Int) => { d with vecs := [] }) c)) run
        [.call true, .edit (fun _ => d1), .call false, .call true] d0).map (·.1)
      = [[[4, 7]], [[-4, -3]], [[4, 5]]] := by
  intro d0 d1 m1 m2 run
  rw [session_calls_independent]
  decide

example : nCalls ([.call 1, .edit id, .call 2] : List (SessStep Nat Nat)) = 2 := rfl

end Rsa.Props.C04
