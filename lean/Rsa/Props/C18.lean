/-
  Property C18 — simulated data reproduce the generating model's RDM.
  Property theorems only; helper lemmas live in Rsa/Lemmas/C18.lean, the executable model in
  Rsa/Core/Sim.lean, the scalar entry formulas are regenerated from /repo's source text into
  Rsa/Gen/C18.lean on every run (so an edit of those formulas breaks a proof here).

  External results are parameters with a contract, quantified over:
    * `np.linalg.eigh(G)`  contract  G = V diag(w) Vᵀ  (+ no eigenvalue negative / clamped away)
    * `np.linalg.qr(Uᵀ)`   contract  orthonormal columns
      (`make_signal_exact_coded` proves the exact second moment of the *coded* steps from these;
       `make_signal_exact` holds for any factor `cholG cholGᵀ = G` and any whitening map)
    * `r = sqrt signal`    contract  r·r = signal
    * the standard-normal draws (`ss.norm.ppf` of the uniform draws): arbitrary matrices
  That LAPACK meets the two contracts is *not* proved; the harness checks them on every recorded
  result of a real call, and the model signal recomputed from them is compared with the real one.
  `euclid_is_C01_estimator` identifies the RDM computed here with C01's coded estimator.
  Round 3: `factor_contract_reproduces` / `coded_signal_reproduces(_real)` close the loop from the
  factor contracts alone (no hypothesis on the signals); `general_design_reproduces(_D)`,
  `general_design_dataset` cover arbitrary design matrices (heights, rest rows, compound rows).
-/
import Mathlib.Analysis.Real.Sqrt
import Mathlib.Tactic.IntervalCases
import Rsa.Lemmas.C18
import Rsa.Props.C01

set_option linter.unusedSectionVars false
set_option linter.unusedVariables false

namespace Rsa.Props.C18

open Rsa.Sim

variable {K : Type} [Field K] [LinearOrder K] [IsStrictOrderedRing K]

/-! ### second moment from the RDM by double centring -/

/-- `G = −½ H D H` determines the distances back: `G_aa + G_bb − 2 G_ab = D_ab`, for every
    number of conditions and every symmetric `D` with zero diagonal. -/
theorem G_to_D (n a b : Nat) (ha : a < n) (hb : b < n) (D : Mat K)
    (hsym : ∀ i j, i < n → j < n → D i j = D j i) (hdiag : ∀ i, i < n → D i i = 0) :
    gramOfRdm n D a a + gramOfRdm n D b b - 2 * gramOfRdm n D a b = D a b := by
  have h := gram_to_dist n a b ha hb D hsym hdiag
  unfold distOfGram at h
  push_cast at h
  exact h

/-- the same for the square form of *any* RDM vector (what `make_dataset` builds) -/
theorem G_to_D_squareform (n a b : Nat) (ha : a < n) (hb : b < n) (v : List K) :
    distOfGram (gramOfRdm n (squareform n v)) a b = squareform n v a b :=
  gram_to_dist n a b ha hb _ (fun i j _ _ => squareform_symm n v i j)
    (fun i _ => squareform_diag n v i)

-- non-vacuity: a 3-condition RDM (squared distances of the points 0, 1, 3 on a line)
example : distOfGram (gramOfRdm 3 (squareform 3 [(1 : ℚ), 9, 4])) 0 2 = 9 :=
  G_to_D_squareform 3 0 2 (by norm_num) (by norm_num) _

/-! ### exact signal -/

/-- `make_signal(…, make_exact=True)` without signal channel covariance and with at least as
    many channels as conditions: if the factor of `G` and the whitening step meet their
    contracts, the signal has second moment exactly `n_channel · G`, for every draw `z`. -/
theorem make_signal_exact (nCond nCh : Nat) (hch : nCond ≤ nCh) (z cholG G : Mat K)
    (whiten : Mat K → Mat K)
    (hG : ∀ a b, a < nCond → b < nCond → gramRows nCond cholG a b = G a b)
    (hW : ∀ a b, a < nCond → b < nCond →
      gramRows nCh (whiten (rowCenter nCh z)) a b = if a = b then (nCh : K) else 0) :
    ∀ a b, a < nCond → b < nCond →
      gramRows nCh (makeSignal nCond nCh true z whiten cholG none) a b = (nCh : K) * G a b := by
  intro a b ha hb
  have hw : genWidth nCond nCh = nCh := by unfold genWidth Rsa.Gen.C18.genWidth; split <;> omega
  unfold makeSignal
  simp only [hw, if_true, mmulBy_signalMix]
  rw [gramRows_mmul_orthogonal nCond nCh a b cholG _ (nCh : K) hW, hG a b ha hb]

/-- **exact signal ⇒ the squared-Euclidean RDM by condition is `signal · D`.**
    Zero noise, `Z` the indicator matrix of any condition vector in which every condition
    occurs (any number of repetitions, any order), any signal `U` with `U Uᵀ = n_channel·G`,
    any noise draws and noise factors (they are multiplied by `sqrt 0 = 0`). -/
theorem exact_signal_reproduces (nCond nCh nObs : Nat) (cv uniq : Nat → Nat) (D U z : Mat K)
    (s r : K) (cholC cholT : Option (Mat K))
    (hsym : ∀ i j, i < nCond → j < nCond → D i j = D j i) (hdiag : ∀ i, i < nCond → D i i = 0)
    (hinj : ∀ a b, a < nCond → b < nCond → uniq a = uniq b → a = b)
    (hocc : ∀ i, i < nCond → ∃ o, o < nObs ∧ cv o = uniq i)
    (hch : nCh ≠ 0) (hr : r * r = s)
    (hU : ∀ a b, a < nCond → b < nCond →
      gramRows nCh U a b = (nCh : K) * gramOfRdm nCond D a b) :
    ∀ a b, a < nCond → b < nCond →
      euclidRdm nCh (condMean nObs cv uniq
        (dataOf nCond (indicatorF cv uniq) U r (noiseTerm nObs nCh z 0 cholC cholT))) a b
        = s * D a b := by
  intro a b ha hb
  have hc : (nCh : K) ≠ 0 := Nat.cast_ne_zero.mpr hch
  -- the condition means are the rows of U scaled by r
  have hmean : ∀ i, i < nCond → ∀ c,
      condMean nObs cv uniq
        (dataOf nCond (indicatorF cv uniq) U r (noiseTerm nObs nCh z 0 cholC cholT)) i c
        = U i c * r := by
    intro i hi c
    apply condMean_const nObs cv uniq _ i c _ (hocc i hi)
    intro o _ hoc
    unfold dataOf
    rw [mmulBy_design, indicator_mmul nCond cv uniq U o i c hi hinj hoc, noiseTerm_zero]
    simp [Rsa.Gen.C18.dataEntry]
  unfold euclidRdm
  have e1 : ∀ p q, p < nCond → q < nCond →
      sumTo nCh (fun c => condMean nObs cv uniq
        (dataOf nCond (indicatorF cv uniq) U r (noiseTerm nObs nCh z 0 cholC cholT)) p c *
        condMean nObs cv uniq
        (dataOf nCond (indicatorF cv uniq) U r (noiseTerm nObs nCh z 0 cholC cholT)) q c)
      = s * ((nCh : K) * gramOfRdm nCond D p q) := by
    intro p q hp hq
    rw [← hU p q hp hq]
    unfold gramRows
    simp only [hmean p hp, hmean q hq, sumTo_eq, Finset.mul_sum]
    refine Finset.sum_congr rfl (fun c _ => ?_)
    rw [← hr]; ring
  rw [e1 a a ha ha, e1 b b hb hb, e1 a b ha hb]
  have hg := G_to_D nCond a b ha hb D hsym hdiag
  unfold Rsa.Gen.C01.euclidNorm Rsa.Gen.C01.euclidEntry
  push_cast
  rw [← hg]
  field_simp

/-! ### general design matrices (regressor heights, rest rows, compound rows) -/

/-- **any design matrix.**  Zero noise, any `Z` (`n_obs × n_cond`: heights other than 1, all-zero
    rest rows, rows with several non-zero entries), any signal with `U Uᵀ = n_channel·G`: the
    squared-Euclidean RDM between the observations (one pattern per row, as `calc_rdm` computes it:
    Gram form divided by the channel count) is `signal · (z_o − z_o')ᵀ G (z_o − z_o')` — the data
    rows are exactly `√signal · Z U` (depends on `dataEntry`, `noiseScale`, C01's `euclidEntry`,
    `euclidNorm`). -/
theorem general_design_reproduces (nCond nCh nObs : Nat) (Z G U z : Mat K) (s r : K)
    (cholC cholT : Option (Mat K)) (hch : nCh ≠ 0) (hr : r * r = s)
    (hU : ∀ a b, a < nCond → b < nCond → gramRows nCh U a b = (nCh : K) * G a b) :
    ∀ o o', o < nObs → o' < nObs →
      euclidRdm nCh (condMean nObs id id
        (dataOf nCond Z U r (noiseTerm nObs nCh z 0 cholC cholT))) o o'
        = designRdmSpec nCond Z G s o o' := by
  intro o o' ho ho'
  have hc : (nCh : K) ≠ 0 := Nat.cast_ne_zero.mpr hch
  have hmean : ∀ i, i < nObs → ∀ c,
      condMean nObs id id (dataOf nCond Z U r (noiseTerm nObs nCh z 0 cholC cholT)) i c
        = mmul nCond Z U i c * r := by
    intro i hi c
    apply condMean_const nObs id id _ i c _ ⟨i, hi, rfl⟩
    intro o' _ hoc
    have : o' = i := hoc
    subst this
    unfold dataOf
    rw [noiseTerm_zero, mmulBy_design]
    simp [Rsa.Gen.C18.dataEntry]
  rw [euclidRdm_eq_spec]
  unfold euclidSpec designRdmSpec
  have hdiff : ∀ c, condMean nObs id id (dataOf nCond Z U r (noiseTerm nObs nCh z 0 cholC cholT)) o c
        - condMean nObs id id (dataOf nCond Z U r (noiseTerm nObs nCh z 0 cholC cholT)) o' c
      = r * mmul nCond (fun _ a => Z o a - Z o' a) U 0 c := by
    intro c
    rw [hmean o ho, hmean o' ho']
    unfold mmul
    simp only [sumTo_eq]
    rw [← sub_mul, ← Finset.sum_sub_distrib, mul_comm]
    congr 1
    exact Finset.sum_congr rfl (fun l _ => by ring)
  have hsum : sumTo nCh (fun c =>
        (r * mmul nCond (fun _ a => Z o a - Z o' a) U 0 c)
          * (r * mmul nCond (fun _ a => Z o a - Z o' a) U 0 c))
      = s * gramRows nCh (mmul nCond (fun _ a => Z o a - Z o' a) U) 0 0 := by
    unfold gramRows
    simp only [sumTo_eq, Finset.mul_sum]
    refine Finset.sum_congr rfl (fun c _ => ?_)
    rw [← hr]; ring
  simp only [hdiff, hsum]
  rw [gramRows_mmul]
  have hq : sumTo nCond (fun a => sumTo nCond (fun b =>
        (Z o a - Z o' a) * (Z o b - Z o' b) * gramRows nCh U a b))
      = (nCh : K) * sumTo nCond (fun a => sumTo nCond (fun b =>
        (Z o a - Z o' a) * (Z o b - Z o' b) * G a b)) := by
    have : ∀ a, a < nCond → sumTo nCond (fun b =>
          (Z o a - Z o' a) * (Z o b - Z o' b) * gramRows nCh U a b)
        = (nCh : K) * sumTo nCond (fun b => (Z o a - Z o' a) * (Z o b - Z o' b) * G a b) := by
      intro a ha
      rw [sumTo_eq, sumTo_eq, Finset.mul_sum]
      refine Finset.sum_congr rfl (fun b hb => ?_)
      rw [hU a b ha (Finset.mem_range.mp hb)]; ring
    rw [sumTo_congr nCond _ _ this, sumTo_eq, sumTo_eq, Finset.mul_sum]
  rw [hq]
  field_simp

/-- the same in terms of the model RDM: for two design rows with equal sums (e.g. any two rows of an
    indicator design, or of a design with the same total height) and `G = −½ H D H`, the distance
    between the observations is `−½ · signal · (z_o − z_o')ᵀ D (z_o − z_o')` -/
theorem general_design_reproduces_D (nCond nCh nObs : Nat) (Z D U z : Mat K) (s r : K)
    (cholC cholT : Option (Mat K)) (hch : nCh ≠ 0) (hr : r * r = s)
    (hU : ∀ a b, a < nCond → b < nCond →
      gramRows nCh U a b = (nCh : K) * gramOfRdm nCond D a b) :
    ∀ o o', o < nObs → o' < nObs → sumTo nCond (fun a => Z o a) = sumTo nCond (fun a => Z o' a) →
      euclidRdm nCh (condMean nObs id id
        (dataOf nCond Z U r (noiseTerm nObs nCh z 0 cholC cholT))) o o'
        = designRdmSpecD nCond Z D s o o' := by
  intro o o' ho ho' hrow
  rw [general_design_reproduces nCond nCh nObs Z (gramOfRdm nCond D) U z s r cholC cholT hch hr hU
    o o' ho ho']
  unfold designRdmSpec designRdmSpecD
  rw [quadform_gram nCond (fun a => Z o a - Z o' a) D]
  rw [sumTo_eq, Finset.sum_sub_distrib, ← sumTo_eq, ← sumTo_eq, hrow, sub_self]

-- non-vacuity: 2 conditions at distance² 4 (G = [[1,-1],[-1,1]]), 2 channels, U = √2·[[1,0],[-1,0]]
-- does not fit ℚ; take U = [[1,1],[-1,-1]] (U Uᵀ = 2·G).  Design with a height-2 row, a rest row
-- and a compound row.
example : euclidRdm 2 (condMean 3 id id (dataOf 2 (ofLists [[2, 0], [0, 0], [1, 1]])
      (ofLists [[1, 1], [-1, -1]]) (3 : ℚ) (noiseTerm 3 2 (fun _ _ => 7) 0 none none))) 0 1
    = designRdmSpec 2 (ofLists [[2, 0], [0, 0], [1, 1]]) (ofLists [[1, -1], [-1, 1]]) 9 0 1 :=
  general_design_reproduces 2 2 3 _ _ _ _ 9 3 none none (by decide) (by norm_num)
    (by intro a b ha hb; interval_cases a <;> interval_cases b <;> decide +kernel) 0 1
    (by decide) (by decide)

example : designRdmSpec 2 (ofLists [[2, 0], [0, 0], [1, 1]]) (ofLists [[1, -1], [-1, 1]]) (9 : ℚ) 0 1
    = 36 := by decide +kernel

/-! ### the repaired `make_signal` as coded: QR for the whitening, eigh for the factor of G -/

/-- `make_signal(…, make_exact=True)` with the coded steps `Qᵀ·√n_channel` and
    `eigvec·√clamp(eigval)`: if `np.linalg.qr` returns orthonormal columns, `np.linalg.eigh`
    returns `G = V diag(w) Vᵀ`, and no eigenvalue is negative (Euclidean-embeddable model) or
    clamped away by the `1e-15` threshold, the signal has second moment exactly `n_channel·G` —
    for every draw, every `n_channel ≥ n_cond` (including equality) and every rank of `G`. -/
theorem make_signal_exact_coded [HasSqrt K] (nCond nCh : Nat) (hch : nCond ≤ nCh)
    (z q V G : Mat K) (w : Nat → K)
    (hsn : HasSqrt.sqrt (nCh : K) * HasSqrt.sqrt (nCh : K) = (nCh : K))
    (hQ : ∀ a b, a < nCond → b < nCond →
      sumTo nCh (fun c => q c a * q c b) = if a = b then 1 else 0)
    (hV : ∀ a b, a < nCond → b < nCond → sumTo nCond (fun j => V a j * w j * V b j) = G a b)
    (hw : ∀ j, j < nCond → Rsa.Gen.C18.eigClamp (w j) = w j ∧
      HasSqrt.sqrt (w j) * HasSqrt.sqrt (w j) = w j) :
    ∀ a b, a < nCond → b < nCond →
      gramRows nCh (makeSignalCoded nCond nCh true z q w V none) a b = (nCh : K) * G a b := by
  have hgw : genWidth nCond nCh = nCh := by
    unfold genWidth Rsa.Gen.C18.genWidth; split <;> omega
  unfold makeSignalCoded
  rw [hgw]
  apply make_signal_exact nCond nCh hch z (cholEigh w V) G (fun _ => whitenQR nCh q)
  · intro a b ha hb
    rw [cholEigh_gram nCond a b w V hw, hV a b ha hb]
  · intro a b ha hb
    exact whitenQR_gram nCh a b q hsn (hQ a b ha hb)

/-- over the reals the square-root hypotheses are exactly "no negative eigenvalue" -/
theorem real_eig_sqrt (x : ℝ) (h : 0 ≤ x) : Real.sqrt x * Real.sqrt x = x := Real.mul_self_sqrt h

/-- the clamp threshold of the code leaves 0 and every eigenvalue ≥ 1e-15 unchanged -/
theorem eig_clamp_threshold (x : K) (h : x = 0 ∨ (1 : K) / 1000000000000000 ≤ x) :
    Rsa.Gen.C18.eigClamp x = x := eigClamp_fixed x h

/-! ### link to C01: the RDM computed here *is* C01's coded Euclidean estimator -/

/-- the condensed RDM vector of `k` patterns as computed in this model equals C01's coded
    estimator (`_extract_triu_` of the Gram-form matrix, divided by the channel count) on the
    same rows — hence, by C01's `euclid_algo_eq_spec`, the textbook squared distance of every
    pair in `triu` order. -/
theorem euclid_is_C01_estimator (k P : Nat) (m : Mat K) :
    Rsa.matToVec k (euclidRdm P m)
      = (Rsa.Calc.extractTriu (Rsa.Calc.euclidMat P ((List.range k).map (fun i => m i)))).map
          (fun x => Rsa.Gen.C01.euclidNorm x P) := by
  rw [Rsa.Props.C01.euclid_algo_eq_spec, Rsa.pairsOf_map, List.map_map]
  unfold Rsa.matToVec Rsa.pairs
  apply List.map_congr_left
  intro p _
  simp only [Function.comp_apply]
  rw [euclidRdm_eq_spec]
  unfold euclidSpec Rsa.Calc.euclidSpec
  rw [sumTo_eq, Rsa.Calc.sumTo_eq_sum]

/-- the Gram form of `calc_rdm_euclidean` is the textbook mean squared difference -/
theorem euclid_algo_eq_spec (nCh : Nat) (M : Mat K) (a b : Nat) :
    euclidRdm nCh M a b = euclidSpec nCh M a b := euclidRdm_eq_spec nCh M a b

/-! ### the whole loop on the list-level model: make_dataset, then calc_rdm -/

section loop
variable [HasSqrt K]

/-- **simulation and RDM estimation are mutually consistent.**  For every model RDM vector `v`
    (square form `D`), every condition vector whose sorted unique labels number `nCond`
    (any labels, repetitions, order), every number of simulations, every signal strength with
    `sqrt s · sqrt s = s`, zero noise variance, every noise covariance factor and every draw:
    if each signal returned by `make_signal` has second moment `n_channel · G` (exact-signal
    contract), every simulated dataset's RDM by condition is `s · D`, pair by pair in
    `np.triu_indices` order. -/
theorem simulated_rdm_eq_model (p : Params K) (cv : List Nat) (v : List K)
    (signals noises : Nat → Mat K)
    (hcond : (uniqueSorted cv).length = p.nCond) (hch : p.nCh ≠ 0)
    (hs : HasSqrt.sqrt p.signal * HasSqrt.sqrt p.signal = p.signal)
    (hn : HasSqrt.sqrt p.noise = 0)
    (hU : ∀ i, i < nSignalCalls p.same p.nSim → ∀ a b, a < p.nCond → b < p.nCond →
      gramRows p.nCh (signals i) a b
        = (p.nCh : K) * gramOfRdm p.nCond (squareform p.nCond v) a b) :
    ∀ ds ∈ makeDatasets p (.vec cv) signals noises,
      rdmByCondition ds.nObs ds.nCh cv ds.data
        = (Rsa.pairs p.nCond).map (fun q => p.signal * squareform p.nCond v q.1 q.2) := by
  intro ds hds
  obtain ⟨k, hk', rfl⟩ := mem_makeDatasets p _ signals noises ds hds
  have hidx : signalIndex p.same k < nSignalCalls p.same p.nSim := by
    unfold signalIndex nSignalCalls; split <;> omega
  unfold rdmByCondition Rsa.matToVec simDataset
  simp only [hcond]
  apply List.map_congr_left
  intro q hq
  have hq' := Rsa.mem_pairsOf hq
  have ha : q.1 < p.nCond := List.mem_range.mp hq'.1
  have hb : q.2 < p.nCond := List.mem_range.mp hq'.2
  -- on the observations the list indicator is the function indicator
  have hZ : ∀ o, o < cv.length → ∀ c,
      mmul p.nCond (CondInput.Z (.vec cv : CondInput K)) (signals (signalIndex p.same k)) o c
      = mmul p.nCond (indicatorF (fun o => cv.getD o 0) (fun i => (uniqueSorted cv).getD i 0))
          (signals (signalIndex p.same k)) o c := by
    intro o ho c
    unfold mmul
    apply sumTo_congr
    intro l hl
    rw [show CondInput.Z (.vec cv : CondInput K) = indicator cv from rfl,
      indicator_eq_indicatorF cv o l ho (by omega)]
  -- replace the data by the function-level data inside condMean (only rows o < nObs matter)
  have hdata : ∀ i c,
      condMean (CondInput.nObs (.vec cv : CondInput K)) (fun o => cv.getD o 0)
        (fun i => (uniqueSorted cv).getD i 0)
        (dataOf p.nCond (CondInput.Z (.vec cv : CondInput K)) (signals (signalIndex p.same k))
          (HasSqrt.sqrt p.signal)
          (noiseTerm (CondInput.nObs (.vec cv : CondInput K)) p.nCh (noises k)
            (HasSqrt.sqrt p.noise) p.cholC p.cholT)) i c
      = condMean cv.length (fun o => cv.getD o 0) (fun i => (uniqueSorted cv).getD i 0)
        (dataOf p.nCond (indicatorF (fun o => cv.getD o 0) (fun i => (uniqueSorted cv).getD i 0))
          (signals (signalIndex p.same k)) (HasSqrt.sqrt p.signal)
          (noiseTerm cv.length p.nCh (noises k) 0 p.cholC p.cholT)) i c := by
    intro i c
    rw [hn]
    show condMean cv.length _ _ _ i c = _
    unfold condMean
    congr 1
    apply sumTo_congr
    intro o ho
    unfold dataOf
    rw [mmulBy_design, mmulBy_design, hZ o ho c]
    rfl
  have hmain := exact_signal_reproduces p.nCond p.nCh cv.length (fun o => cv.getD o 0)
    (fun i => (uniqueSorted cv).getD i 0) (squareform p.nCond v)
    (signals (signalIndex p.same k)) (noises k) p.signal (HasSqrt.sqrt p.signal) p.cholC p.cholT
    (fun i j _ _ => squareform_symm _ v i j) (fun i _ => squareform_diag _ v i)
    (fun a b ha hb h => uniqueSorted_getD_inj cv a b (by omega) (by omega) h)
    (fun i hi => by
      obtain ⟨o, ho, he⟩ := uniqueSorted_occurs cv i (by omega)
      exact ⟨o, ho, he⟩)
    hch hs (hU _ hidx) q.1 q.2 ha hb
  rw [← hmain]
  unfold euclidRdm
  simp only [hdata]

/-- end-to-end through C01's estimator: C01's coded squared-Euclidean RDM of the condition
    means of exact-signal, zero-noise simulated data is `signal · D` -/
theorem simulated_rdm_eq_model_C01 (p : Params K) (cv : List Nat) (v : List K)
    (signals noises : Nat → Mat K)
    (hcond : (uniqueSorted cv).length = p.nCond) (hch : p.nCh ≠ 0)
    (hs : HasSqrt.sqrt p.signal * HasSqrt.sqrt p.signal = p.signal)
    (hn : HasSqrt.sqrt p.noise = 0)
    (hU : ∀ i, i < nSignalCalls p.same p.nSim → ∀ a b, a < p.nCond → b < p.nCond →
      gramRows p.nCh (signals i) a b
        = (p.nCh : K) * gramOfRdm p.nCond (squareform p.nCond v) a b) :
    ∀ ds ∈ makeDatasets p (.vec cv) signals noises,
      (Rsa.Calc.extractTriu (Rsa.Calc.euclidMat ds.nCh ((List.range p.nCond).map (fun i =>
          condMean ds.nObs (fun o => cv.getD o 0) (fun i => (uniqueSorted cv).getD i 0) ds.data i)))).map
          (fun x => Rsa.Gen.C01.euclidNorm x ds.nCh)
        = (Rsa.pairs p.nCond).map (fun q => p.signal * squareform p.nCond v q.1 q.2) := by
  intro ds hds
  rw [← euclid_is_C01_estimator]
  have h := simulated_rdm_eq_model p cv v signals noises hcond hch hs hn hU ds hds
  unfold rdmByCondition at h
  simpa only [hcond] using h

/-! ### reproduction from the factor contracts alone (no hypothesis on the signals) -/

/-- **any factor of `G` reproduces the model RDM.**  `make_dataset` with the exact-signal option
    as one list-level function: the signals are *computed* by `makeSignal` from arbitrary draws
    `zs i`, with any square factor `F` (`n_cond × n_cond`, `F Fᵀ = G = −½ H D H` — the eigh-based
    factor of the code, a Cholesky, a pivoted LDLᵀ, …) and any orthonormalisation step whose rows
    are orthogonal with squared norm `n_channel` (QR, Gram–Schmidt, …).  With zero noise and
    `n_channel ≥ n_cond`, every simulated dataset's RDM by condition is `signal · D`; nothing is
    assumed about the signals themselves. -/
theorem factor_contract_reproduces (p : Params K) (cv : List Nat) (v : List K) (F : Mat K)
    (zs noises : Nat → Mat K) (whiten : Nat → Mat K → Mat K)
    (hcond : (uniqueSorted cv).length = p.nCond) (hle : p.nCond ≤ p.nCh) (hch : p.nCh ≠ 0)
    (hs : HasSqrt.sqrt p.signal * HasSqrt.sqrt p.signal = p.signal)
    (hn : HasSqrt.sqrt p.noise = 0)
    (hF : ∀ a b, a < p.nCond → b < p.nCond →
      gramRows p.nCond F a b = gramOfRdm p.nCond (squareform p.nCond v) a b)
    (hW : ∀ i, i < nSignalCalls p.same p.nSim → ∀ a b, a < p.nCond → b < p.nCond →
      gramRows p.nCh (whiten i (rowCenter p.nCh (zs i))) a b = if a = b then (p.nCh : K) else 0) :
    ∀ ds ∈ makeDatasets p (.vec cv)
        (fun i => makeSignal p.nCond p.nCh true (zs i) (whiten i) F none) noises,
      rdmByCondition ds.nObs ds.nCh cv ds.data
        = (Rsa.pairs p.nCond).map (fun q => p.signal * squareform p.nCond v q.1 q.2) :=
  simulated_rdm_eq_model p cv v _ noises hcond hch hs hn
    (fun i hi => make_signal_exact p.nCond p.nCh hle (zs i) F _ (whiten i) hF (hW i hi))

/-- the same with the factor steps *as coded* (`Qᵀ·√n_channel`, `eigvec·√clamp(eigval)`): from the
    contracts of the two LAPACK calls alone (orthonormal columns of each `Q`; `G = V diag(w) Vᵀ`;
    no eigenvalue negative or clamped away) every simulated dataset reproduces `signal · D` -/
theorem coded_signal_reproduces (p : Params K) (cv : List Nat) (v : List K) (V : Mat K)
    (w : Nat → K) (zs qs noises : Nat → Mat K)
    (hcond : (uniqueSorted cv).length = p.nCond) (hle : p.nCond ≤ p.nCh) (hch : p.nCh ≠ 0)
    (hs : HasSqrt.sqrt p.signal * HasSqrt.sqrt p.signal = p.signal)
    (hn : HasSqrt.sqrt p.noise = 0)
    (hsn : HasSqrt.sqrt (p.nCh : K) * HasSqrt.sqrt (p.nCh : K) = (p.nCh : K))
    (hQ : ∀ i, i < nSignalCalls p.same p.nSim → ∀ a b, a < p.nCond → b < p.nCond →
      sumTo p.nCh (fun c => qs i c a * qs i c b) = if a = b then 1 else 0)
    (hV : ∀ a b, a < p.nCond → b < p.nCond →
      sumTo p.nCond (fun j => V a j * w j * V b j) = gramOfRdm p.nCond (squareform p.nCond v) a b)
    (hw : ∀ j, j < p.nCond → Rsa.Gen.C18.eigClamp (w j) = w j ∧
      HasSqrt.sqrt (w j) * HasSqrt.sqrt (w j) = w j) :
    ∀ ds ∈ makeDatasets p (.vec cv)
        (fun i => makeSignalCoded p.nCond p.nCh true (zs i) (qs i) w V none) noises,
      rdmByCondition ds.nObs ds.nCh cv ds.data
        = (Rsa.pairs p.nCond).map (fun q => p.signal * squareform p.nCond v q.1 q.2) :=
  simulated_rdm_eq_model p cv v _ noises hcond hch hs hn
    (fun i hi => make_signal_exact_coded p.nCond p.nCh hle (zs i) (qs i) V _ w hsn (hQ i hi) hV hw)

/-- general design matrix on the list-level model: every dataset of `make_dataset` called with
    an explicit design matrix (any rows), exact signals and zero noise has, between any two
    observations, the squared distance `signal · (z_o − z_o')ᵀ G (z_o − z_o')` -/
theorem general_design_dataset (p : Params K) (rows : List (List K)) (G : Mat K)
    (signals noises : Nat → Mat K) (hch : p.nCh ≠ 0)
    (hs : HasSqrt.sqrt p.signal * HasSqrt.sqrt p.signal = p.signal)
    (hn : HasSqrt.sqrt p.noise = 0)
    (hU : ∀ i, i < nSignalCalls p.same p.nSim → ∀ a b, a < p.nCond → b < p.nCond →
      gramRows p.nCh (signals i) a b = (p.nCh : K) * G a b) :
    ∀ ds ∈ makeDatasets p (.design rows) signals noises, ∀ o o', o < ds.nObs → o' < ds.nObs →
      euclidRdm ds.nCh (condMean ds.nObs id id ds.data) o o'
        = designRdmSpec p.nCond (ofLists rows) G p.signal o o' := by
  intro ds hds o o' ho ho'
  obtain ⟨k, hk', rfl⟩ := mem_makeDatasets p _ signals noises ds hds
  have hidx : signalIndex p.same k < nSignalCalls p.same p.nSim := by
    unfold signalIndex nSignalCalls; split <;> omega
  simp only [simDataset, hn] at ho ho' ⊢
  exact general_design_reproduces p.nCond p.nCh _ (ofLists rows) G _ (noises k) p.signal
    (HasSqrt.sqrt p.signal) p.cholC p.cholT hch hs (hU _ hidx) o o' ho ho'

/-! ### descriptors -/

/-- each of the `n_sim` datasets carries the condition vector exactly as passed (vector or
    design matrix) and the simulation parameters signal, noise, model name, theta -/
theorem descriptors_contents (p : Params K) (cond : CondInput K) (signals noises : Nat → Mat K) :
    (makeDatasets p cond signals noises).length = p.nSim ∧
    ∀ ds ∈ makeDatasets p cond signals noises,
      ds.condVec = cond ∧ ds.signal = p.signal ∧ ds.noise = p.noise ∧
      ds.modelName = p.modelName ∧ ds.theta = p.theta ∧ ds.nObs = cond.nObs ∧ ds.nCh = p.nCh := by
  constructor
  · simp [makeDatasets]
  · intro ds hds
    obtain ⟨k, _, rfl⟩ := mem_makeDatasets p cond signals noises ds hds
    exact ⟨rfl, rfl, rfl, rfl, rfl, rfl, rfl⟩

/-! ### same signal / fresh signal -/

/-- with `use_same_signal` only the first call of `make_signal` matters: every dataset is
    built from `signals 0`, and `make_signal` is drawn once -/
theorem same_signal_reused (p : Params K) (hsame : p.same = true) (cond : CondInput K)
    (signals noises : Nat → Mat K) :
    (∀ k, k < p.nSim → ∃ ds, (makeDatasets p cond signals noises)[k]? = some ds ∧
      ds.data = dataOf p.nCond cond.Z (signals 0) (HasSqrt.sqrt p.signal)
        (noiseTerm cond.nObs p.nCh (noises k) (HasSqrt.sqrt p.noise) p.cholC p.cholT)) ∧
    ((drawPlan p.same p.nSim).filter (fun d => d.1)).length = 1 ∧
    nSignalCalls p.same p.nSim = 1 := by
  refine ⟨?_, ?_, ?_⟩
  · intro k hk
    refine ⟨_, makeDatasets_getElem? p cond signals noises k hk, ?_⟩
    simp [simDataset, signalIndex, hsame]
  · simp [drawPlan, hsame, List.filter_map, Function.comp_def]
  · simp [nSignalCalls, hsame]

/-- consequently, with the same signal and zero noise all simulated data matrices coincide -/
theorem same_signal_zero_noise_identical (p : Params K) (hsame : p.same = true)
    (hn : HasSqrt.sqrt p.noise = 0) (cond : CondInput K) (signals noises : Nat → Mat K) :
    ∀ d1 ∈ makeDatasets p cond signals noises, ∀ d2 ∈ makeDatasets p cond signals noises,
      d1.data = d2.data := by
  intro d1 h1 d2 h2
  obtain ⟨k1, _, rfl⟩ := mem_makeDatasets p cond signals noises d1 h1
  obtain ⟨k2, _, rfl⟩ := mem_makeDatasets p cond signals noises d2 h2
  simp only [simDataset, signalIndex, hsame, if_true, hn, noiseTerm_zero]

/-- by default simulation `k` uses its own call of `make_signal` (the `k`-th) and its own
    noise draw; the draws are consumed in the order signal 0, noise 0, signal 1, noise 1, …;
    no other draw influences dataset `k` -/
theorem fresh_signal (p : Params K) (hfresh : p.same = false) (cond : CondInput K)
    (signals noises signals' noises' : Nat → Mat K) (k : Nat) (hk : k < p.nSim)
    (h1 : signals k = signals' k) (h2 : noises k = noises' k) :
    (∃ ds, (makeDatasets p cond signals noises)[k]? = some ds ∧
      ds.data = dataOf p.nCond cond.Z (signals k) (HasSqrt.sqrt p.signal)
        (noiseTerm cond.nObs p.nCh (noises k) (HasSqrt.sqrt p.noise) p.cholC p.cholT)) ∧
    (makeDatasets p cond signals noises)[k]? = (makeDatasets p cond signals' noises')[k]? ∧
    (drawPlan p.same p.nSim)[2 * k]? = some (true, k) ∧
    (drawPlan p.same p.nSim)[2 * k + 1]? = some (false, k) ∧
    nSignalCalls p.same p.nSim = p.nSim := by
  refine ⟨⟨_, makeDatasets_getElem? p cond signals noises k hk,
    by simp [simDataset, signalIndex, hfresh]⟩, ?_, ?_, ?_, ?_⟩
  · rw [makeDatasets_getElem? p cond signals noises k hk,
      makeDatasets_getElem? p cond signals' noises' k hk]
    simp [simDataset, signalIndex, hfresh, h1, h2]
  · rw [hfresh]; exact drawPlan_fresh_even p.nSim k hk
  · rw [hfresh]; exact drawPlan_fresh_odd p.nSim k hk
  · simp [nSignalCalls, hfresh]

/-! ### additive noise, scaled by the square root of the noise variance -/

/-- data = (noise-free data) + sqrt(noise) · E, where `E` (the draw shaped by the optional
    channel / trial factors) does not depend on the noise variance nor on the signal -/
theorem noise_additive_sqrt (p : Params K) (cond : CondInput K) (signals noises : Nat → Mat K) :
    ∀ k, k < p.nSim → ∃ ds, (makeDatasets p cond signals noises)[k]? = some ds ∧
      ∀ o c, ds.data o c
        = dataOf p.nCond cond.Z (signals (signalIndex p.same k)) (HasSqrt.sqrt p.signal)
            (fun _ _ => 0) o c
          + HasSqrt.sqrt p.noise * noiseTerm cond.nObs p.nCh (noises k) 1 p.cholC p.cholT o c := by
  intro k hk
  refine ⟨_, makeDatasets_getElem? p cond signals noises k hk, ?_⟩
  intro o c
  simp only [simDataset, dataOf, Rsa.Gen.C18.dataEntry]
  rw [noiseTerm_scale]
  ring

end loop

/-- the two contracts on `sqrt` are met by the real square root for every signal strength
    `s ≥ 0` and for noise variance 0 -/
theorem real_sqrt_contracts (s : ℝ) (hs : 0 ≤ s) :
    Real.sqrt s * Real.sqrt s = s ∧ Real.sqrt 0 = 0 :=
  ⟨Real.mul_self_sqrt hs, Real.sqrt_zero⟩

/-- every row of the centred draw sums to zero: `n_cond` centred rows span at most
    `n_channel − 1` dimensions, so for `n_channel = n_cond` they are linearly dependent and the
    orthonormalisation has to complete the basis (Householder QR does; the driver's own
    Gram–Schmidt instance completes with a standard basis vector) -/
theorem row_center_sums_zero (w : Nat) (hw : w ≠ 0) (U : Mat K) (i : Nat) :
    sumTo w (fun c => rowCenter w U i c) = 0 := by
  have hc : (w : K) ≠ 0 := Nat.cast_ne_zero.mpr hw
  simp only [rowCenter_apply, sumTo_eq, Finset.sum_sub_distrib, Finset.sum_const, Finset.card_range,
    nsmul_eq_mul]
  field_simp
  ring

/-- shapes of the uniform draws: `(n_obs, n_channel)` for the noise of one simulation,
    `(n_cond, max n_cond n_channel)` for one signal (regenerated from the two `size=` arguments) -/
theorem draw_shapes (nObs nCond nCh : Nat) :
    noiseDrawShape nObs nCh = (nObs, nCh) ∧ signalDrawShape nCond nCh = (nCond, max nCond nCh) := by
  refine ⟨rfl, ?_⟩
  unfold signalDrawShape genWidth Rsa.Gen.C18.genWidth Rsa.Gen.C18.signalDrawRows
    Rsa.Gen.C18.signalDrawCols
  split <;> simp <;> omega

/-! ### over the reals: the square-root contracts are theorems, the clamp is harmless -/

section real

/-- the real square root as the model's `sqrt` (local to this section) -/
noncomputable local instance realSqrt : HasSqrt ℝ := ⟨Real.sqrt⟩

/-- the clamp `eigval[eigval < 1e-15] = 0` never returns a negative number … -/
theorem eig_clamp_nonneg (x : ℝ) : 0 ≤ Rsa.Gen.C18.eigClamp x := by
  unfold Rsa.Gen.C18.eigClamp
  push_cast
  split
  · exact le_refl _
  · rename_i h; exact le_trans (by norm_num) (not_lt.mp h)

/-- … and moves a non-negative eigenvalue by less than `1e-15` -/
theorem eig_clamp_error (x : ℝ) (hx : 0 ≤ x) :
    Rsa.Gen.C18.eigClamp x ≤ x ∧ x - 1 / 1000000000000000 < Rsa.Gen.C18.eigClamp x := by
  unfold Rsa.Gen.C18.eigClamp
  push_cast
  split
  · rename_i h; exact ⟨hx, by linarith⟩
  · exact ⟨le_refl _, by norm_num⟩

/-- **the coded factor, unconditionally**: over ℝ, for *every* result `(w, V)` of `eigh`,
    `chol_G chol_Gᵀ = V diag(clamp w) Vᵀ` — the factor of the code is an exact factor of the
    clamped reconstruction (no hypothesis on signs or sizes of the eigenvalues: negative ones, i.e. a
    model RDM that is not Euclidean-embeddable, are projected away) -/
theorem chol_eigh_gram_real (n a b : Nat) (w : Nat → ℝ) (V : Mat ℝ) :
    gramRows n (cholEigh w V) a b
      = sumTo n (fun j => V a j * Rsa.Gen.C18.eigClamp (w j) * V b j) := by
  unfold gramRows cholEigh
  apply sumTo_congr
  intro j _
  have h := Real.mul_self_sqrt (eig_clamp_nonneg (w j))
  show V a j * Real.sqrt _ * (V b j * Real.sqrt _) = _
  calc V a j * Real.sqrt (Rsa.Gen.C18.eigClamp (w j)) * (V b j * Real.sqrt (Rsa.Gen.C18.eigClamp (w j)))
      = V a j * (Real.sqrt (Rsa.Gen.C18.eigClamp (w j)) * Real.sqrt (Rsa.Gen.C18.eigClamp (w j)))
          * V b j := by ring
    _ = _ := by rw [h]

/-- **reproduction over the reals from the LAPACK contracts alone.**  Real square root, any
    signal strength `≥ 0`, zero noise variance, `n_channel ≥ n_cond ≥ 1`: if every `Q` has
    orthonormal columns and `G = V diag(w) Vᵀ` with every eigenvalue `0` or `≥ 1e-15`
    (Euclidean-embeddable model RDM), every simulated dataset's RDM by condition is `signal · D`. -/
theorem coded_signal_reproduces_real (p : Params ℝ) (cv : List Nat) (v : List ℝ) (V : Mat ℝ)
    (w : Nat → ℝ) (zs qs noises : Nat → Mat ℝ)
    (hcond : (uniqueSorted cv).length = p.nCond) (hle : p.nCond ≤ p.nCh) (hch : p.nCh ≠ 0)
    (hs : 0 ≤ p.signal) (hn : p.noise = 0)
    (hQ : ∀ i, i < nSignalCalls p.same p.nSim → ∀ a b, a < p.nCond → b < p.nCond →
      sumTo p.nCh (fun c => qs i c a * qs i c b) = if a = b then 1 else 0)
    (hV : ∀ a b, a < p.nCond → b < p.nCond →
      sumTo p.nCond (fun j => V a j * w j * V b j) = gramOfRdm p.nCond (squareform p.nCond v) a b)
    (hw : ∀ j, j < p.nCond → w j = 0 ∨ (1 : ℝ) / 1000000000000000 ≤ w j) :
    ∀ ds ∈ makeDatasets p (.vec cv)
        (fun i => makeSignalCoded p.nCond p.nCh true (zs i) (qs i) w V none) noises,
      rdmByCondition ds.nObs ds.nCh cv ds.data
        = (Rsa.pairs p.nCond).map (fun q => p.signal * squareform p.nCond v q.1 q.2) := by
  apply coded_signal_reproduces p cv v V w zs qs noises hcond hle hch
  · exact Real.mul_self_sqrt hs
  · show Real.sqrt p.noise = 0
    rw [hn]; exact Real.sqrt_zero
  · exact Real.mul_self_sqrt (Nat.cast_nonneg _)
  · exact hQ
  · exact hV
  · intro j hj
    refine ⟨eig_clamp_threshold (w j) (hw j hj), ?_⟩
    apply Real.mul_self_sqrt
    rcases hw j hj with h | h
    · rw [h]
    · exact le_trans (by norm_num) h

-- non-vacuity over ℝ: 2 conditions at squared distance 4 (G = [[1,−1],[−1,1]] = v vᵀ with
-- v = (1,−1): "eigenvalues" (1, 0), one exactly zero), 2 channels (n_channel = n_cond), Q = I
example : ∀ ds ∈ makeDatasets (α := ℝ)
      { nCond := 2, nCh := 2, nSim := 1, signal := 4, noise := 0 } (.vec [0, 1])
      (fun i => makeSignalCoded 2 2 true (fun _ _ => 3) (fun c a => if c = a then 1 else 0)
        (fun j => if j = 0 then 1 else 0)
        (fun i j => if j = 0 then (if i = 0 then 1 else -1) else 0) none) (fun _ _ _ => 5),
    rdmByCondition ds.nObs ds.nCh [0, 1] ds.data
      = (Rsa.pairs 2).map (fun q => (4 : ℝ) * squareform 2 [4] q.1 q.2) := by
  apply coded_signal_reproduces_real
    { nCond := 2, nCh := 2, nSim := 1, signal := 4, noise := 0 } [0, 1] [4]
  · decide
  · decide
  · decide
  · norm_num
  · rfl
  · intro i _ a b ha hb
    interval_cases a <;> interval_cases b <;> simp [sumTo_eq, Finset.sum_range_succ]
  · intro a b ha hb
    show _ = gramOfRdm 2 (squareform 2 [4]) a b
    unfold gramOfRdm
    rw [hdh_entry 2 a b ha hb]
    interval_cases a <;> interval_cases b <;>
      simp [sumTo_eq, Finset.sum_range_succ, squareform, Rsa.vecToMat, Rsa.triIdx,
        Rsa.Gen.C18.gScale] <;> norm_num
  · intro j hj
    interval_cases j
    · right; norm_num
    · left; simp

end real

/-! ### design vectors -/

/-- `make_design(n_cond, n_part)`: both vectors have `n_part · n_cond` entries and every
    condition occurs exactly once in every partition, for all `n_cond`, `n_part` -/
theorem design_once_per_partition (nCond nPart c q : Nat) (hc : c < nCond) (hq : q < nPart) :
    (condVec nCond nPart).length = nPart * nCond ∧
    (partVec nCond nPart).length = nPart * nCond ∧
    ∃! k : Nat, (condVec nCond nPart)[k]? = some c ∧ (partVec nCond nPart)[k]? = some q := by
  refine ⟨by simp [condVec], by simp [partVec], q * nCond + c, ?_, ?_⟩
  · have hlt : q * nCond + c < nPart * nCond := by
      have : (q + 1) * nCond ≤ nPart * nCond := Nat.mul_le_mul_right _ hq
      have h2 : (q + 1) * nCond = q * nCond + nCond := by ring
      omega
    simp only [condVec, partVec, List.getElem?_map, List.getElem?_range hlt, Option.map_some,
      Rsa.Gen.C18.condIndex, Rsa.Gen.C18.partIndex]
    constructor
    · rw [Nat.mul_comm, Nat.mul_add_mod, Nat.mod_eq_of_lt hc]
    · rw [Nat.mul_comm, Nat.mul_add_div (by omega), Nat.div_eq_of_lt hc]; simp
  · intro k ⟨h1, h2⟩
    simp only [condVec, partVec, List.getElem?_map, Rsa.Gen.C18.condIndex,
      Rsa.Gen.C18.partIndex] at h1 h2
    cases hk : (List.range (nPart * nCond))[k]? with
    | none => simp [hk] at h1
    | some k' =>
      have hk2 : k' = k := by
        have := List.getElem?_eq_some_iff.mp hk
        obtain ⟨h, e⟩ := this
        simpa using e.symm
      subst hk2
      simp only [hk, Option.map_some, Option.some.injEq] at h1 h2
      have := Nat.div_add_mod k' nCond
      rw [h1, h2] at this
      rw [← this, Nat.mul_comm]

-- non-vacuity: 3 conditions, 2 partitions
example : condVec 3 2 = [0, 1, 2, 0, 1, 2] ∧ partVec 3 2 = [0, 0, 0, 1, 1, 1] := by decide

/-- every simulated condition vector of `make_design` has exactly the conditions `0 … n_cond−1`
    as its unique labels, so `make_dataset` sees `n_cond` columns -/
theorem design_conditions (nCond nPart : Nat) (hp : 0 < nPart) (v : Nat) :
    v ∈ uniqueSorted (condVec nCond nPart) ↔ v < nCond := by
  rw [mem_uniqueSorted]
  unfold condVec
  simp only [List.mem_map, List.mem_range, Rsa.Gen.C18.condIndex]
  constructor
  · rintro ⟨k, hk, rfl⟩
    have : 0 < nCond := by
      rcases Nat.eq_zero_or_pos nCond with h | h
      · subst h; simp at hk
      · exact h
    exact Nat.mod_lt _ this
  · intro hv
    refine ⟨v, ?_, Nat.mod_eq_of_lt hv⟩
    calc v < nCond := hv
      _ = 1 * nCond := by ring
      _ ≤ nPart * nCond := Nat.mul_le_mul_right _ hp

/-! ### design matrix instead of condition vector -/

/-- passing the indicator matrix of a condition vector as explicit design matrix gives the
    same data (the code uses the 2-D argument as `Zcond` unchanged) -/
theorem design_matrix_same_data [HasSqrt K] (p : Params K) (cv : List Nat)
    (signals noises : Nat → Mat K) (k o c : Nat) (ho : o < cv.length)
    (hcond : (uniqueSorted cv).length = p.nCond) :
    (simDataset p (.vec cv) signals noises k).data o c
      = (simDataset p (.design (toLists cv.length p.nCond (indicator cv : Mat K)))
          signals noises k).data o c := by
  have hn : CondInput.nObs (.design (toLists cv.length p.nCond (indicator cv : Mat K)) : CondInput K)
      = CondInput.nObs (.vec cv : CondInput K) := by
    simp [CondInput.nObs, toLists]
  have hz : mmul p.nCond (CondInput.Z (.vec cv : CondInput K)) (signals (signalIndex p.same k)) o c
      = mmul p.nCond (CondInput.Z (.design (toLists cv.length p.nCond (indicator cv : Mat K))
          : CondInput K)) (signals (signalIndex p.same k)) o c := by
    unfold mmul
    apply sumTo_congr
    intro l hl
    show indicator cv o l * _ = ofLists _ o l * _
    rw [ofLists_toLists _ _ _ _ _ ho hl]
  simp only [simDataset, dataOf, hn, mmulBy_design, hz]

/-! ### reuse sessions (round 4): state that survives a call

The objects handed to `make_dataset` (model, theta, condition vector / design matrix, covariance
matrices) may be handed in again, edited by the caller in between, and the module could keep
something between calls.  `Rsa.Sim.runSession` runs a list of steps through the model with that
state explicit — content of the arguments plus an arbitrary module state, both touched by a call
exactly when today's source has a statement that can do so (leaves `inputWrites`,
`moduleState`).  The theorems below say that nothing survives a call. -/

section sessions
variable [HasSqrt K] {σ : Type}

/-- today's `simulation/sim.py`, `indicator` / `centering` and the models' `predict` contain no
    statement that stores into (a view of) an argument or into `self` (leaf `inputWrites`) -/
theorem inputs_not_written : Rsa.Gen.C18.inputWrites = 0 := by decide

/-- … and no place to keep something between calls: no module-level statement besides imports and
    function definitions, no `global`, no decorator, no mutable default, no store through a
    non-local name (leaf `moduleState`) -/
theorem no_module_state : Rsa.Gen.C18.moduleState = 0 := by decide

/-- one call, whatever a write statement or a module cache *would* do (`h` arbitrary): the value
    is that of the stand-alone call on the current content, and the content and the module state
    are left as they were -/
theorem call_stateless (h : Hidden σ K) (c : SimCall K) (st : σ × SimArgs K) :
    stepCall h c st = (c.value st.2, st) := by
  unfold stepCall
  rw [if_pos no_module_state, if_pos no_module_state, if_pos inputs_not_written]

/-- **reuse sessions**: any list of calls and caller edits, run in one process on the same
    objects from any module state: every call returns exactly what the stand-alone call returns
    on the content the caller has established at that moment (`specSession`), the module state
    ends as it began and the objects hold what the caller's own edits put there — by induction
    over the step list -/
theorem session_calls_independent (h : Hidden σ K) (steps : List (SimStep K)) (s0 : σ)
    (a0 : SimArgs K) :
    runSession h steps (s0, a0) = ((specSession steps a0).1, (s0, (specSession steps a0).2)) := by
  induction steps generalizing a0 with
  | nil => rfl
  | cons st rest ih =>
    cases st with
    | call c => simp only [runSession, specSession, call_stateless, ih]
    | edit f => simp only [runSession, specSession, ih]

/-- without caller edits: every call of the session has the value of the stand-alone call on the
    ORIGINAL content, and the content is unchanged at the end -/
theorem session_calls_only (h : Hidden σ K) (calls : List (SimCall K)) (s0 : σ) (a0 : SimArgs K) :
    runSession h (calls.map SimStep.call) (s0, a0) = (calls.map (fun c => c.value a0), (s0, a0)) := by
  rw [session_calls_independent]
  have : ∀ cs : List (SimCall K), specSession (cs.map SimStep.call) a0
      = (cs.map (fun c => c.value a0), a0) := by
    intro cs
    induction cs with
    | nil => rfl
    | cons c cs ih => simp only [List.map_cons, specSession, ih]
  rw [this]

theorem specSession_append (pre post : List (SimStep K)) (a : SimArgs K) :
    specSession (pre ++ post) a
      = ((specSession pre a).1 ++ (specSession post (specSession pre a).2).1,
         (specSession post (specSession pre a).2).2) := by
  induction pre generalizing a with
  | nil => rfl
  | cons st rest ih =>
    cases st with
    | call c => simp only [List.cons_append, specSession, ih]
    | edit f => simp only [List.cons_append, specSession, ih]

/-- **every call of a session reproduces the model RDM of its own moment.**  A call anywhere in a
    session (after any calls on the same objects and any caller edits `pre`, e.g. a new RDM written
    into the model), with the exact-signal option, zero noise, a condition vector, no signal
    covariance, `n_channel ≥ n_cond` and the two factor contracts: the session's result list is the
    stand-alone results, and every dataset of this call has RDM by condition `signal · D` for the
    RDM the model holds *at that moment* — not that of an earlier call
    (`session_calls_independent` + `factor_contract_reproduces`) -/
theorem session_call_reproduces (h : Hidden σ K) (pre post : List (SimStep K)) (c : SimCall K)
    (s0 : σ) (a0 : SimArgs K) (cv : List Nat)
    (hcv : (specSession pre a0).2.cond = .vec cv) (hS : (specSession pre a0).2.cholS = none)
    (hex : c.exact = true)
    (hcond : (uniqueSorted cv).length = c.nCond) (hle : c.nCond ≤ c.nCh) (hch : c.nCh ≠ 0)
    (hs : HasSqrt.sqrt c.signal * HasSqrt.sqrt c.signal = c.signal)
    (hn : HasSqrt.sqrt c.noise = 0)
    (hF : ∀ a b, a < c.nCond → b < c.nCond →
      gramRows c.nCond
        (c.factor (gramOfRdm c.nCond (squareform c.nCond (specSession pre a0).2.rdm))) a b
        = gramOfRdm c.nCond (squareform c.nCond (specSession pre a0).2.rdm) a b)
    (hW : ∀ i, i < nSignalCalls c.same c.nSim → ∀ a b, a < c.nCond → b < c.nCond →
      gramRows c.nCh (c.whiten i (rowCenter c.nCh (c.zs i))) a b
        = if a = b then (c.nCh : K) else 0) :
    (runSession h (pre ++ SimStep.call c :: post) (s0, a0)).1
        = (specSession pre a0).1 ++ c.value (specSession pre a0).2
            :: (specSession post (specSession pre a0).2).1 ∧
    ∀ ds ∈ c.value (specSession pre a0).2,
      rdmByCondition ds.nObs ds.nCh cv ds.data
        = (Rsa.pairs c.nCond).map
            (fun q => c.signal * squareform c.nCond (specSession pre a0).2.rdm q.1 q.2) := by
  refine ⟨?_, ?_⟩
  · rw [session_calls_independent, specSession_append]
    simp only [specSession]
  · unfold SimCall.value
    rw [hcv, hS, hex]
    exact factor_contract_reproduces
      { nCond := c.nCond, nCh := c.nCh, nSim := c.nSim, signal := c.signal, noise := c.noise,
        cholC := (specSession pre a0).2.cholC, cholT := (specSession pre a0).2.cholT,
        same := c.same, modelName := c.modelName, theta := (specSession pre a0).2.theta }
      cv (specSession pre a0).2.rdm _ c.zs c.noises c.whiten hcond hle hch hs hn hF hW

/-! ### round 7: the exact branch draws a fresh signal too

`fresh_signal` speaks about the *results* of the calls of `make_signal`; that those results are
functions of the call's own draw block — also on the exact branch, where the draw only enters
through the orthonormalisation — is read off the source text (leaves `exactDraws`, `randomDraws`:
number of `np.random.uniform` blocks on the branch's path whose result reaches the returned signal).
`SimCall.valueDrawn` is the call with that made explicit: a branch that consumed no draw would start
every signal from one draw-free `fixed`. -/

/-- both branches of `make_signal` consume exactly one uniform draw block, and its result reaches
    the returned signal (exact branch: through `np.linalg.qr(true_U.transpose())`) -/
theorem signal_branches_draw : ∀ exact : Bool, signalDrawCount exact = 1 := by
  intro e; cases e <;> decide

/-- hence on either branch the draw plan has its signal entries -/
theorem draw_plan_for_branch (exact same : Bool) (nSim : Nat) :
    drawPlanFor exact same nSim = drawPlan same nSim := by
  unfold drawPlanFor
  rw [List.filter_eq_self]
  intro d _
  simp [signal_branches_draw]

/-- … and the call as performed is the call of `SimCall.value`: signal `i` starts from draw block `i` -/
theorem value_drawn_eq (c : SimCall K) (a : SimArgs K) (fixed : Mat K) :
    c.valueDrawn a fixed = c.value a := by
  unfold SimCall.valueDrawn SimCall.value signalInput
  simp only [signal_branches_draw, if_neg (by decide : ¬ (1 : Nat) = 0)]

/-- **fresh signal on the exact (and the random) branch**: by default the signal of simulation `k` is
    `make_signal` of draw block `k` — centred, orthonormalised by the `k`-th `qr` result if exact,
    mixed by the factor of `G` — whatever a draw-free start `fixed` would have been; dataset `k`
    depends on no other block (draws, `qr` results, noise of the other simulations may change
    freely); the draws are consumed in the order signal 0, noise 0, signal 1, noise 1, … also when
    `use_exact_signal` is set -/
theorem fresh_signal_exact (c : SimCall K) (a : SimArgs K) (fixed : Mat K) (hfresh : c.same = false)
    (zs' noises' : Nat → Mat K) (whiten' : Nat → Mat K → Mat K) (k : Nat) (hk : k < c.nSim)
    (hz : c.zs k = zs' k) (hw : c.whiten k = whiten' k) (hn : c.noises k = noises' k) :
    (∃ ds, (c.valueDrawn a fixed)[k]? = some ds ∧
      ds.data = dataOf c.nCond a.cond.Z
        (makeSignal c.nCond c.nCh c.exact (c.zs k) (c.whiten k)
          (c.factor (gramOfRdm c.nCond (squareform c.nCond a.rdm))) a.cholS)
        (HasSqrt.sqrt c.signal)
        (noiseTerm a.cond.nObs c.nCh (c.noises k) (HasSqrt.sqrt c.noise) a.cholC a.cholT)) ∧
    (c.valueDrawn a fixed)[k]?
      = (SimCall.valueDrawn { c with zs := zs', whiten := whiten', noises := noises' } a fixed)[k]? ∧
    (drawPlanFor c.exact c.same c.nSim)[2 * k]? = some (true, k) ∧
    (drawPlanFor c.exact c.same c.nSim)[2 * k + 1]? = some (false, k) ∧
    nSignalCalls c.same c.nSim = c.nSim := by
  rw [value_drawn_eq, value_drawn_eq, draw_plan_for_branch]
  have hF := fresh_signal
    { nCond := c.nCond, nCh := c.nCh, nSim := c.nSim, signal := c.signal, noise := c.noise,
      cholC := a.cholC, cholT := a.cholT, same := c.same, modelName := c.modelName,
      theta := a.theta } hfresh a.cond
    (fun i => makeSignal c.nCond c.nCh c.exact (c.zs i) (c.whiten i)
      (c.factor (gramOfRdm c.nCond (squareform c.nCond a.rdm))) a.cholS) c.noises
    (fun i => makeSignal c.nCond c.nCh c.exact (zs' i) (whiten' i)
      (c.factor (gramOfRdm c.nCond (squareform c.nCond a.rdm))) a.cholS) noises' k hk
    (by simp only [hz, hw]) hn
  exact ⟨hF.1, hF.2.1, hF.2.2.1, hF.2.2.2.1, hF.2.2.2.2⟩

end sessions

/-! ### non-vacuity: concrete objects meeting the hypotheses above
    (3 conditions at the points 0, 1, 3 of a line, 4 channels, 2 partitions) -/

section examples

/-- three rows of the 4×4 Hadamard matrix: orthogonal, squared norm 4 = n_channel -/
def exW : Mat ℚ := ofLists [[1, 1, 1, 1], [1, -1, 1, -1], [1, 1, -1, -1]]
/-- a factor of the second-moment matrix of the centred points (−4/3, −1/3, 5/3) -/
def exC : Mat ℚ := ofLists [[-4/3, 0, 0], [-1/3, 0, 0], [5/3, 0, 0]]
/-- the resulting exact signal -/
def exU : Mat ℚ := mmul 3 exC exW

example : ∀ a b, a < 3 → b < 3 →
    gramRows 4 (makeSignal 3 4 true (fun _ _ => 0) (fun _ => exW) exC none) a b
      = ((4 : Nat) : ℚ) * gramRows 3 exC a b :=
  make_signal_exact 3 4 (by norm_num) _ exC _ (fun _ => exW) (fun _ _ _ _ => rfl)
    (by intro a b ha hb; interval_cases a <;> interval_cases b <;> decide +kernel)

/-- a square root on ℚ that is exact on the numbers used below -/
local instance exSqrt : HasSqrt ℚ := ⟨fun x => if x = 4 then 2 else if x = 1 then 1 else 0⟩

/-- orthonormal columns (Hadamard / 2), eigen-decomposition V = I, w = (4, 1, 0) of G = diag(4,1,0) -/
def exQ : Mat ℚ := ofLists [[1/2, 1/2, 1/2], [1/2, -1/2, 1/2], [1/2, 1/2, -1/2], [1/2, -1/2, -1/2]]
def exV : Mat ℚ := fun i j => if i = j then 1 else 0
def exEig : Nat → ℚ := fun j => if j = 0 then 4 else if j = 1 then 1 else 0

example : ∀ a b, a < 3 → b < 3 →
    gramRows 4 (makeSignalCoded 3 4 true (fun _ _ => 0) exQ exEig exV none) a b
      = ((4 : Nat) : ℚ) * (fun i j => sumTo 3 (fun l => exV i l * exEig l * exV j l)) a b :=
  make_signal_exact_coded 3 4 (by norm_num) _ exQ exV _ exEig (by decide +kernel)
    (by intro a b ha hb; interval_cases a <;> interval_cases b <;> decide +kernel)
    (fun _ _ _ _ => rfl)
    (by intro j hj; interval_cases j <;> decide +kernel)

example : ∀ ds ∈ makeDatasets (α := ℚ)
      { nCond := 3, nCh := 4, nSim := 2, signal := 4, noise := 0 }
      (.vec (condVec 3 2)) (fun _ => exU) (fun _ => exW),
    rdmByCondition ds.nObs ds.nCh (condVec 3 2) ds.data
      = (Rsa.pairs 3).map (fun q => (4 : ℚ) * squareform 3 [1, 9, 4] q.1 q.2) :=
  simulated_rdm_eq_model (K := ℚ) { nCond := 3, nCh := 4, nSim := 2, signal := 4, noise := 0 }
    (condVec 3 2) [1, 9, 4] (fun _ => exU) (fun _ => exW) (by decide +kernel) (by decide)
    (by decide +kernel) (by decide +kernel)
    (by intro i _ a b ha hb; interval_cases a <;> interval_cases b <;> decide +kernel)

-- `factor_contract_reproduces`: the factor `exC` of G and the Hadamard whitening meet the contracts
example : ∀ ds ∈ makeDatasets (α := ℚ)
      { nCond := 3, nCh := 4, nSim := 2, signal := 4, noise := 0, same := true }
      (.vec (condVec 3 2)) (fun i => makeSignal 3 4 true (fun _ _ => (i : ℚ)) (fun _ => exW) exC none)
      (fun _ => exW),
    rdmByCondition ds.nObs ds.nCh (condVec 3 2) ds.data
      = (Rsa.pairs 3).map (fun q => (4 : ℚ) * squareform 3 [1, 9, 4] q.1 q.2) :=
  factor_contract_reproduces (K := ℚ)
    { nCond := 3, nCh := 4, nSim := 2, signal := 4, noise := 0, same := true }
    (condVec 3 2) [1, 9, 4] exC (fun i => fun _ _ => (i : ℚ)) (fun _ => exW) (fun _ _ => exW)
    (by decide +kernel) (by decide) (by decide) (by decide +kernel) (by decide +kernel)
    (by intro a b ha hb; interval_cases a <;> interval_cases b <;> decide +kernel)
    (by intro i _ a b ha hb; interval_cases a <;> interval_cases b <;> decide +kernel)

/-! non-vacuity of the session theorems: a model simulated, its RDM replaced by the caller, simulated
    again — with a "module" that would hand every call the content of a *different* model and write
    zeros into the arguments if the source had a statement to do so -/

def exArgs : SimArgs ℚ :=
  { rdm := [1, 9, 4], theta := none, cond := .vec (condVec 3 2), cholC := none, cholT := none,
    cholS := none }
def exCall : SimCall ℚ :=
  { nCond := 3, nCh := 4, nSim := 2, signal := 4, noise := 0, exact := true, same := true,
    modelName := "fixed-model", zs := fun i => fun _ _ => (i : ℚ), noises := fun _ => exW,
    whiten := fun _ _ => exW, factor := fun _ => exC }
def exHidden : Hidden Nat ℚ :=
  { stale := fun _ a => { a with rdm := [2, 2, 2] }, remember := fun s _ => s + 1,
    scribble := fun a => { a with rdm := [0, 0, 0] } }

example : runSession exHidden [.call exCall, .edit (fun a => { a with rdm := [4, 36, 16] }), .call exCall]
      (0, exArgs)
    = ([exCall.value exArgs, exCall.value { exArgs with rdm := [4, 36, 16] }],
       (0, { exArgs with rdm := [4, 36, 16] })) := by
  rw [session_calls_independent]; rfl

-- `session_call_reproduces`: the second call of the session [call, call] reproduces the RDM
example := session_call_reproduces (K := ℚ) exHidden [.call exCall] [] exCall 0 exArgs (condVec 3 2)
  rfl rfl rfl (by decide +kernel) (by decide) (by decide) (by decide +kernel) (by decide +kernel)
  (by intro a b ha hb; replace ha : a < 3 := ha; replace hb : b < 3 := hb
      interval_cases a <;> interval_cases b <;> decide +kernel)
  (by intro i _ a b ha hb; replace ha : a < 3 := ha; replace hb : b < 3 := hb
      change gramRows 4 exW a b = if a = b then ((4 : Nat) : ℚ) else 0
      interval_cases a <;> interval_cases b <;> decide +kernel)

/-! round 7: non-vacuity of `fresh_signal_exact` — a call with the default `use_same_signal = False` on
    the exact branch whose two draw blocks differ: the two simulations get different signals (the
    signal is a non-constant function of its draw block), each from its own block -/

def exCallFresh : SimCall ℚ :=
  { exCall with same := false,
                zs := fun i => fun r ch => if ch = 0 ∧ r = i then 1 else 0,
                whiten := fun _ u => u }

example : makeSignal 3 4 true (exCallFresh.zs 0) (exCallFresh.whiten 0) exC none 0 0
    ≠ makeSignal 3 4 true (exCallFresh.zs 1) (exCallFresh.whiten 1) exC none 0 0 := by decide +kernel

example := fresh_signal_exact (K := ℚ) exCallFresh exArgs (fun _ _ => 0) rfl
  (fun i => if i = 1 then exCallFresh.zs 1 else ((fun _ _ => 7) : Mat ℚ))
  (fun i => if i = 1 then exW else ((fun _ _ => 5) : Mat ℚ))
  (fun i => if i = 1 then exCallFresh.whiten 1 else ((fun _ => exW) : Mat ℚ → Mat ℚ)) 1 (by decide) rfl rfl rfl

example : signalDrawCount true = 1 ∧ drawPlanFor true false 2 = [(true, 0), (false, 0), (true, 1), (false, 1)] := by
  decide

end examples

end Rsa.Props.C18
